# sourced by every /verif/bin script: offline Go environment that works on this image
export GOFLAGS=-mod=mod
export GOPROXY=off
unset GOSUMDB GOTOOLCHAIN 2>/dev/null || true
export GOCACHE=${GOCACHE:-/root/.cache/go-build}
export VERIF_ROOT=/verif
