------------------------------- MODULE Nested -------------------------------
(***************************************************************************)
(* C20 -- nested-object search respects object boundaries and returns each *)
(* parent once.                                                            *)
(*                                                                         *)
(* This module has no variables: it defines                                *)
(*   1. the document schema (trees: arrays of objects, two nesting levels, *)
(*      sibling arrays, empty arrays) and what a `nested` mapping does to  *)
(*      a tree (mapping/document.go walkDocument: one sub-document per     *)
(*      element of an array mapped nested; everything else is flattened    *)
(*      into the closest enclosing sub-document),                          *)
(*   2. the MEANING of a query on a tree under a mapping kind (declarative,*)
(*      stated on the tree, never on doc numbers),                         *)
(*   3. the index snapshot as scorch/zap lay it out (sub-documents in      *)
(*      preorder after their parent, child->parent edge list, deleted      *)
(*      flags) and the AS-CODED search algorithm at the level of sets of   *)
(*      doc numbers: term postings, ConjunctionQuery.Searcher's choice     *)
(*      between the plain and the nested conjunction (commonDepth /        *)
(*      maxDepth as registry/nested.go NestedDepth computes them), the     *)
(*      nested join on the ancestor at joinDepth, disjunction, the boolean *)
(*      searcher, the collector choice and the fold to the root.           *)
(*                                                                         *)
(* The step-wise models of the two loops that matter live next to it:      *)
(*   NestedJoin.tla  - NestedConjunctionSearcher.Next/Advance, refines     *)
(*                     JoinSet below                                       *)
(*   NestedFold.tla  - collectStoreNested.ProcessNestedDocument + the      *)
(*                     final flush of TopNCollector.Collect, refines       *)
(*                     FoldSet below                                       *)
(*   NestedQuery.tla - TLC enumerates trees x kinds x query shapes and     *)
(*                     checks  as-coded = meaning  (also the Engine A case *)
(*                     source)                                             *)
(*   NestedIndex.tla - batches / deletes / re-creations / merges over      *)
(*                     segments with AddNestedDocuments and CountRoot      *)
(*   trace/JudgeNested.tla - judges records of real runs with the MEANING  *)
(***************************************************************************)
EXTENDS Naturals, Sequences, FiniteSets, TLC

Range(s) == {s[i] : i \in DOMAIN s}
MaxOf(S) == CHOOSE x \in S : \A y \in S : y <= x
MinOf(S) == CHOOSE x \in S : \A y \in S : x <= y

-----------------------------------------------------------------------------
(* 1. Schema.                                                              *)
(*                                                                         *)
(*   doc == [t |-> terms,                                                  *)
(*           a |-> << [x |-> terms, y |-> terms,                           *)
(*                     c |-> << [u |-> terms, v |-> terms], ... >>], ... >>,*)
(*           b |-> << [z |-> terms, w |-> terms], ... >>]                  *)
(*                                                                         *)
(* terms are tuples of small integers (JSON arrays).  Arrays: "a" (top     *)
(* level), "c" (= a.c, second level), "b" (sibling of a).  "r" is the root *)
(* context.  A mapping kind K is the set of arrays mapped `nested`.        *)
(***************************************************************************)
Arrays == {"a", "c", "b"}
Fields == {"t", "x", "y", "u", "v", "z", "w"}

FieldArr(f) == CASE f = "t" -> "r"
                 [] f \in {"x", "y"} -> "a"
                 [] f \in {"u", "v"} -> "c"
                 [] f \in {"z", "w"} -> "b"

\* the arrays on the path of array p (p included): the candidates for a
\* "nested prefix" of a field below p (mapping/index.go buildNestedPrefixes)
PathUp(p) == CASE p = "r" -> {}
               [] p = "a" -> {"a"}
               [] p = "c" -> {"c", "a"}
               [] p = "b" -> {"b"}

\* nesting level of array p under K (buildNestedPrefixes: +1 per nested
\* mapping on the way down); also the depth of the sub-documents of p
Level(p, K) == Cardinality(PathUp(p) \cap K)

\* the context (array whose elements are sub-documents, or "r") that hosts
\* the fields found below array p
HostCtx(p, K) == IF p = "r" THEN "r"
                 ELSE IF p \in K THEN p
                 ELSE IF p = "c" /\ "a" \in K THEN "a"
                 ELSE "r"

\* contexts that enclose context p (p included)
CtxUp(p, K) == {"r"} \cup (PathUp(p) \cap K)

\* deepest context enclosing every context of C (the chain is linear)
CommonCtx(C, K) ==
  LET cand == {p \in {"r"} \cup K : \A c \in C : p \in CtxUp(c, K)}
  IN CHOOSE p \in cand : \A p2 \in cand : Level(p2, K) <= Level(p, K)

(* tree elements *)
RootObj == [arr |-> "r", i |-> 0, j |-> 0]
AObj(i) == [arr |-> "a", i |-> i, j |-> 0]
CObj(i, j) == [arr |-> "c", i |-> i, j |-> j]
BObj(k) == [arr |-> "b", i |-> k, j |-> 0]

Elems(d) == {RootObj}
            \cup {AObj(i) : i \in 1..Len(d.a)}
            \cup UNION {{CObj(i, j) : j \in 1..Len(d.a[i].c)} : i \in 1..Len(d.a)}
            \cup {BObj(k) : k \in 1..Len(d.b)}

ElemParent(o) == IF o.arr = "c" THEN AObj(o.i) ELSE RootObj

IsSub(o, K) == o.arr = "r" \/ o.arr \in K

\* the sub-document an element's fields end up in
Host(o, K) == IF IsSub(o, K) THEN o
              ELSE LET p == ElemParent(o) IN IF IsSub(p, K) THEN p ELSE RootObj

SubDocs(d, K) == {o \in Elems(d) : IsSub(o, K)}

\* parent sub-document of a non-root sub-document
SubParent(o, K) == Host(ElemParent(o), K)

\* sub-document o is p or lies below p
Under(o, p, K) ==
  \/ o = p
  \/ /\ o.arr # "r"
     /\ LET q == SubParent(o, K) IN
        \/ q = p
        \/ q.arr # "r" /\ SubParent(q, K) = p

ElemVals(d, e, f) ==
  IF FieldArr(f) # e.arr THEN {}
  ELSE CASE e.arr = "r" -> Range(d[f])
         [] e.arr = "a" -> Range(d.a[e.i][f])
         [] e.arr = "c" -> Range(d.a[e.i].c[e.j][f])
         [] e.arr = "b" -> Range(d.b[e.i][f])

\* terms of field f in sub-document o: its own plus those of the elements
\* flattened into it
Vals(d, K, o, f) == UNION {ElemVals(d, e, f) : e \in {e \in Elems(d) : Host(e, K) = o}}

-----------------------------------------------------------------------------
(* 2. Queries and their meaning.                                           *)
(*                                                                         *)
(*  [op |-> "term", f |-> field, v |-> term]     [op |-> "all"]            *)
(*  [op |-> "conj", qs |-> <<q...>>]   [op |-> "disj", qs |-> <<q...>>, min |-> n] *)
(*  [op |-> "bool", must |-> <<q...>>, should |-> <<q...>>, mustnot |-> <<q...>>, min |-> n] *)
(*                                                                         *)
(* Meaning: every query is evaluated at the deepest object that encloses   *)
(* all fields it addresses (its common context).  A conjunction whose      *)
(* conjuncts all address one array is therefore evaluated per ELEMENT of   *)
(* that array (one element must satisfy all conjuncts); clauses that       *)
(* address different arrays or top-level fields are combined at the object *)
(* enclosing them -- the parent document for top-level arrays -- where a   *)
(* clause holds iff some element below satisfies it.  Disjunction and      *)
(* boolean are combined in the same way; the must / should / must-not      *)
(* groups of a boolean are a conjunction / a disjunction with a minimum /  *)
(* a negated disjunction, each with its own common context.  With K = {} *)
(* (flat mapping) the only object is the document: each clause is met by   *)
(* some element.  match_all and a boolean without positive clause range    *)
(* over parent documents.                                                  *)
(***************************************************************************)
RECURSIVE QCtxs(_, _)
QCtxs(q, K) ==
  CASE q.op = "term" -> {HostCtx(FieldArr(q.f), K)}
    [] q.op = "all" -> {"r"}
    [] q.op \in {"conj", "disj"} -> UNION {QCtxs(q.qs[i], K) : i \in DOMAIN q.qs}
    [] q.op = "bool" ->
         UNION {QCtxs(q.must[i], K) : i \in DOMAIN q.must}
         \cup UNION {QCtxs(q.should[i], K) : i \in DOMAIN q.should}
         \cup UNION {QCtxs(q.mustnot[i], K) : i \in DOMAIN q.mustnot}
         \cup (IF q.must = <<>> /\ q.should = <<>> THEN {"r"} ELSE {})

RECURSIVE Holds(_, _, _, _)
Holds(q, d, K, o) ==
  LET cc == CommonCtx(QCtxs(q, K), K) IN
  IF o.arr # cc
  THEN \E o2 \in SubDocs(d, K) : o2.arr = cc /\ Under(o2, o, K) /\ Holds(q, d, K, o2)
  ELSE CASE q.op = "term" -> q.v \in Vals(d, K, o, q.f)
         [] q.op = "all" -> TRUE
         [] q.op = "conj" -> \A i \in DOMAIN q.qs : Holds(q.qs[i], d, K, o)
         [] q.op = "disj" ->
              Cardinality({i \in DOMAIN q.qs : Holds(q.qs[i], d, K, o)})
                >= (IF q.min = 0 THEN 1 ELSE q.min)
         [] q.op = "bool" ->
              \* a boolean IS (must: a conjunction) and (should: a disjunction
              \* with a minimum) and not (must-not: a disjunction) -- the three
              \* groups keep their own meaning (their own common context)
              \* inside the boolean, like any compound that is a clause of a
              \* larger query
              LET shouldQ == [op |-> "disj", qs |-> q.should, min |-> q.min] IN
              /\ q.must # <<>> => Holds([op |-> "conj", qs |-> q.must], d, K, o)
              /\ q.mustnot # <<>> => ~Holds([op |-> "disj", qs |-> q.mustnot, min |-> 0], d, K, o)
              \* the should minimum exists only with should clauses; without a
              \* must clause at least one should clause is needed anyway
              /\ IF q.should = <<>> THEN TRUE
                 ELSE IF q.must = <<>> THEN Holds(shouldQ, d, K, o)
                 ELSE q.min = 0 \/ Holds(shouldQ, d, K, o)

Matches(q, d, K) == Holds(q, d, K, RootObj)

\* docs: function id -> tree.  Hits are [rid, sub]; sub = the hit is a
\* nested element, not a parent.
MeaningHits(q, docs, K) ==
  {[rid |-> id, sub |-> FALSE] : id \in {id \in DOMAIN docs : Matches(q, docs[id], K)}}

-----------------------------------------------------------------------------
(* 3. The index snapshot and the search as coded.                          *)
(*                                                                         *)
(* A snapshot is the sequence of all sub-documents of all segments in      *)
(* global doc-number order.  node == [rid, obj, par, live, vals]: par is   *)
(* the global number of the parent sub-document (0 for a root): the zap    *)
(* edge list shifted by the segment offset (IndexSnapshot.Ancestors).      *)
(***************************************************************************)
RECURSIVE ConcatAll(_)
ConcatAll(ss) == IF ss = <<>> THEN <<>> ELSE Head(ss) \o ConcatAll(Tail(ss))

\* preorder (zapx flattenNestedDocuments): parent, then its nested
\* documents in array order, each followed by its own
ObjSeq(d, K) ==
  <<RootObj>>
  \o ConcatAll([i \in 1..Len(d.a) |->
        (IF "a" \in K THEN <<AObj(i)>> ELSE <<>>)
        \o (IF "c" \in K THEN [j \in 1..Len(d.a[i].c) |-> CObj(i, j)] ELSE <<>>)])
  \o (IF "b" \in K THEN [k \in 1..Len(d.b) |-> BObj(k)] ELSE <<>>)

IndexOf(s, x) == CHOOSE p \in DOMAIN s : s[p] = x

FlattenDoc(d, K, id, base) ==
  LET os == ObjSeq(d, K) IN
  [p \in 1..Len(os) |->
     [rid |-> id, obj |-> os[p],
      par |-> IF os[p].arr = "r" THEN 0 ELSE base + IndexOf(os, SubParent(os[p], K)),
      live |-> TRUE,
      vals |-> [f \in Fields |-> Vals(d, K, os[p], f)]]]

LiveSet(S) == {n \in DOMAIN S : S[n].live}

RECURSIVE AncSeq(_, _)
AncSeq(S, n) == IF S[n].par = 0 THEN <<n>> ELSE <<n>> \o AncSeq(S, S[n].par)

RootOf(S, n) == LET a == AncSeq(S, n) IN a[Len(a)]
DepthOf(S, n) == Len(AncSeq(S, n)) - 1
\* ancestorFromRoot(ancestors, d); 0 when the chain is too short (the code
\* would index out of range)
KeyAt(S, n, d) == LET a == AncSeq(S, n) IN IF Len(a) > d THEN a[Len(a) - d] ELSE 0

(* query.ExtractFields *)
RECURSIVE QFieldsCode(_)
QFieldsCode(q) ==
  CASE q.op = "term" -> {q.f}
    [] q.op = "all" -> {"_id"}
    [] q.op \in {"conj", "disj"} -> UNION {QFieldsCode(q.qs[i]) : i \in DOMAIN q.qs}
    [] q.op = "bool" ->
         UNION {QFieldsCode(q.must[i]) : i \in DOMAIN q.must}
         \cup UNION {QFieldsCode(q.should[i]) : i \in DOMAIN q.should}
         \cup UNION {QFieldsCode(q.mustnot[i]) : i \in DOMAIN q.mustnot}

(* registry/nested.go NestedDepth: level of the deepest nested prefix that  *)
(* prefixes every / some field path                                        *)
CommonDepthCode(fs, K) ==
  LET real == fs \ {"_id"} IN
  IF real = {} \/ "_id" \in fs THEN 0     \* HasID() forces commonDepth = 0
  ELSE MaxOf({0} \cup {Level(p, K) : p \in {p \in K : \A f \in real : p \in PathUp(FieldArr(f))}})

MaxDepthCode(fs, K) ==
  LET real == fs \ {"_id"} IN
  MaxOf({0} \cup {Level(p, K) : p \in {p \in K : \E f \in real : p \in PathUp(FieldArr(f))}})

(* the result of the nested conjunction: group the conjunct streams by the *)
(* ancestor at depth jd; a group is a match iff every stream has a member; *)
(* all members of matching groups are delivered (NestedJoin.tla checks the *)
(* loop against this)                                                      *)
JoinSet(S, ss, jd) ==
  LET keys == {k \in {KeyAt(S, n, jd) : n \in UNION Range(ss)} :
                 k # 0 /\ \A i \in DOMAIN ss : \E n \in ss[i] : KeyAt(S, n, jd) = k}
  IN {n \in UNION Range(ss) : KeyAt(S, n, jd) \in keys}

JoinWellFormed(S, ss, jd) == \A n \in UNION Range(ss) : DepthOf(S, n) >= jd

InterAll(ss) == {n \in UNION Range(ss) : \A i \in DOMAIN ss : n \in ss[i]}

AtLeast(ss, m) == {n \in UNION Range(ss) : Cardinality({i \in DOMAIN ss : n \in ss[i]}) >= m}

RECURSIVE AlgSet(_, _, _)
AlgConj(qs, S, K) ==
  LET ss == [i \in DOMAIN qs |-> AlgSet(qs[i], S, K)]
      fs == UNION {QFieldsCode(qs[i]) : i \in DOMAIN qs}
      cd == CommonDepthCode(fs, K)
      md == MaxDepthCode(fs, K)
  IN IF K # {} /\ cd < md THEN JoinSet(S, ss, cd) ELSE InterAll(ss)

AlgDisj(qs, m, S, K) ==
  LET ss == [i \in DOMAIN qs |-> AlgSet(qs[i], S, K)]
  IN AtLeast(ss, IF m = 0 THEN 1 ELSE m)

AlgSet(q, S, K) ==
  CASE q.op = "term" -> {n \in LiveSet(S) : q.v \in S[n].vals[q.f]}
    [] q.op = "all" -> LiveSet(S)
    [] q.op = "conj" -> AlgConj(q.qs, S, K)
    [] q.op = "disj" -> AlgDisj(q.qs, q.min, S, K)
    [] q.op = "bool" ->
         \* BooleanQuery.Searcher + BooleanSearcher.Next: candidates come
         \* from must (else should, else match_all); a candidate is dropped
         \* when the must-not stream has THE SAME doc number, and when
         \* should has a minimum and does not have the same doc number
         LET mustS == AlgConj(q.must, S, K)
             shouldS == AlgDisj(q.should, q.min, S, K)
             notS == IF q.mustnot = <<>> THEN {} ELSE AlgDisj(q.mustnot, 0, S, K)
             cand == IF q.must # <<>> THEN mustS
                     ELSE IF q.should # <<>> THEN shouldS ELSE LiveSet(S)
         IN {n \in cand : /\ n \notin notS
                          /\ (q.must # <<>> /\ q.should # <<>> /\ q.min > 0) => n \in shouldS}

(* index_impl.go buildTopNCollector: the folding collector is used only if *)
(* the query names _id (match_all, doc ids) or a field under a nested      *)
(* prefix                                                                  *)
UseNestedCollector(q, K) ==
  LET fs == QFieldsCode(q) IN
  /\ K # {}
  /\ \/ "_id" \in fs
     \/ \E f \in fs \ {"_id"} : PathUp(FieldArr(f)) \cap K # {}

\* the fold: one hit per root of a delivered doc number (NestedFold.tla)
FoldSet(S, ns) == {RootOf(S, n) : n \in ns}

AlgHits(q, S, K) ==
  LET ns == AlgSet(q, S, K) IN
  IF UseNestedCollector(q, K)
  THEN {[rid |-> S[r].rid, sub |-> FALSE] : r \in FoldSet(S, ns)}
  ELSE {[rid |-> S[n].rid, sub |-> S[n].par # 0] : n \in ns}

(* Every nested conjunction met while evaluating q joins at a depth that   *)
(* all its input doc numbers have (else ancestorFromRoot indexes out of    *)
(* range)                                                                  *)
RECURSIVE JoinsWellFormed(_, _, _)
JoinsWellFormed(q, S, K) ==
  CASE q.op \in {"term", "all"} -> TRUE
    [] q.op = "disj" -> \A i \in DOMAIN q.qs : JoinsWellFormed(q.qs[i], S, K)
    [] q.op = "conj" ->
         /\ \A i \in DOMAIN q.qs : JoinsWellFormed(q.qs[i], S, K)
         /\ LET fs == QFieldsCode(q)
                cd == CommonDepthCode(fs, K)
            IN (K # {} /\ cd < MaxDepthCode(fs, K)) =>
                 JoinWellFormed(S, [i \in DOMAIN q.qs |-> AlgSet(q.qs[i], S, K)], cd)
    [] q.op = "bool" ->
         /\ \A i \in DOMAIN q.must : JoinsWellFormed(q.must[i], S, K)
         /\ \A i \in DOMAIN q.should : JoinsWellFormed(q.should[i], S, K)
         /\ \A i \in DOMAIN q.mustnot : JoinsWellFormed(q.mustnot[i], S, K)
         /\ q.must # <<>> => JoinsWellFormed([op |-> "conj", qs |-> q.must], S, K)

-----------------------------------------------------------------------------
(* Query classes.  The boolean and the min>1 disjunction searchers compare *)
(* doc numbers of sub-documents; that is the per-parent combination the    *)
(* property asks for only when all their clauses live in one context.      *)
(* match_all (explicit, or implied by a boolean without positive clause)   *)
(* delivers sub-documents of every level.  Queries in which such a         *)
(* searcher spans several contexts are classed apart so that the equation  *)
(* as-coded = meaning is checked separately for them (DESIGN 3.4: an       *)
(* invariant with an open finding gets a configuration of its own).        *)
(***************************************************************************)
RECURSIVE CodeCtxs(_, _)
CodeCtxs(q, K) ==
  CASE q.op = "term" -> {HostCtx(FieldArr(q.f), K)}
    [] q.op = "all" -> {"r"} \cup K
    [] q.op \in {"conj", "disj"} -> UNION {CodeCtxs(q.qs[i], K) : i \in DOMAIN q.qs}
    [] q.op = "bool" ->
         UNION {CodeCtxs(q.must[i], K) : i \in DOMAIN q.must}
         \cup UNION {CodeCtxs(q.should[i], K) : i \in DOMAIN q.should}
         \cup UNION {CodeCtxs(q.mustnot[i], K) : i \in DOMAIN q.mustnot}
         \cup (IF q.must = <<>> /\ q.should = <<>> THEN {"r"} \cup K ELSE {})

RiskyBool(b, K) ==
  /\ b.op = "bool"
  /\ Cardinality(CodeCtxs(b, K)) >= 2
  /\ \/ b.mustnot # <<>>
     \/ b.should # <<>> /\ (b.min >= 2 \/ (b.min >= 1 /\ b.must # <<>>))

RiskyDisj(b, K) == b.op = "disj" /\ b.min >= 2 /\ Cardinality(CodeCtxs(b, K)) >= 2

RECURSIVE HasRiskyBool(_, _)
HasRiskyBool(q, K) ==
  \/ RiskyBool(q, K)
  \/ CASE q.op \in {"term", "all"} -> FALSE
       [] q.op \in {"conj", "disj"} -> \E i \in DOMAIN q.qs : HasRiskyBool(q.qs[i], K)
       [] q.op = "bool" ->
            \/ \E i \in DOMAIN q.must : HasRiskyBool(q.must[i], K)
            \/ \E i \in DOMAIN q.should : HasRiskyBool(q.should[i], K)
            \/ \E i \in DOMAIN q.mustnot : HasRiskyBool(q.mustnot[i], K)

RECURSIVE HasRiskyDisj(_, _)
HasRiskyDisj(q, K) ==
  \/ RiskyDisj(q, K)
  \/ CASE q.op \in {"term", "all"} -> FALSE
       [] q.op \in {"conj", "disj"} -> \E i \in DOMAIN q.qs : HasRiskyDisj(q.qs[i], K)
       [] q.op = "bool" ->
            \/ \E i \in DOMAIN q.must : HasRiskyDisj(q.must[i], K)
            \/ \E i \in DOMAIN q.should : HasRiskyDisj(q.should[i], K)
            \/ \E i \in DOMAIN q.mustnot : HasRiskyDisj(q.mustnot[i], K)

QClass(q, K) ==
  IF HasRiskyBool(q, K) THEN "boolx"
  ELSE IF HasRiskyDisj(q, K) THEN "disjx"
  ELSE "core"

=============================================================================
