\* TLC -simulate: longer behaviours over 7 keys (incl. the empty key), merges, 2 readers, 2 iterators
SPECIFICATION Spec
CONSTANTS
  Bytes = {0, 97, 255}
  Keys <- KeysSim
  Probes <- ProbesSim
  PrefixSet <- KeysSim
  RangeSet <- RangeSim
  Vals <- ValsSmall
  MergeKeys <- KeysSim
  Operands <- OperandsSmall
  MaxCount = 6
  Readers = {1, 2}
  Iters = {1, 2}
  MaxBatch = 1
  AtomicBatch = TRUE
  RepeatKeys = FALSE
  ReadActions = FALSE
  MultiGetLen = 1
INVARIANTS TypeOK ReadsInByteOrder IterRefines IterInView
CHECK_DEADLOCK FALSE
