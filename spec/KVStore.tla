------------------------------ MODULE KVStore ------------------------------
(***************************************************************************)
(* C15 - KV store adapters (boltdb, goleveldb, gtreap, moss, metrics) are  *)
(* ordered maps with atomic batches and snapshot readers.                  *)
(*                                                                         *)
(* Meaning layer (what the property says):                                 *)
(*   kv        : Keys -> Vals \cup {None}       the ordered map            *)
(*   Meaning   : the map after a batch (per-key, declarative)              *)
(*   Scan      : the live entries in byte order (lexicographic on ints)     *)
(*   ViewKeys  : the keys a prefix / range iterator may visit              *)
(* Algorithm layer (how the adapters do it):                               *)
(*   AlgMergesFirst / AlgMergesLast : the two ExecuteBatch shapes found in *)
(*       store/boltdb,gtreap (merged values written first, then the ops in *)
(*       order) and store/goleveldb (ops in order, merged puts appended)   *)
(*   SeekAlg / NextAlg : cursor over the whole snapshot + validity check   *)
(*       (store/boltdb/iterator.go, store/gtreap/iterator.go)              *)
(*   PrefixEnd : prefix iteration as the range [p, PrefixEnd(p)) (moss,    *)
(*       goleveldb util.BytesPrefix)                                       *)
(* TLC checks that the algorithm layer computes the meaning layer          *)
(* (IterRefines, BatchAlgRefines, PrefixAsRange), that open readers never  *)
(* change (ReaderIsolation) and that the map only changes by whole batches *)
(* (BatchAtomic).                                                          *)
(*                                                                         *)
(* The action taken is recorded in `act` together with the value the real  *)
(* store must return, so behaviours can be replayed on the real adapters   *)
(* (harness/internal/c15) and recorded real runs can be re-validated       *)
(* (spec/trace/TraceKV.tla).                                               *)
(***************************************************************************)
EXTENDS Integers, Sequences, FiniteSets, TLC

CONSTANTS
  Bytes,        \* byte alphabet, e.g. {0, 97, 255}
  Keys,         \* keys that may be written   (cfg: Keys <- KeysAll2 ...)
  Probes,       \* keys used for Get / MultiGet / Seek (may contain never-written keys)
  PrefixSet,    \* prefixes for PrefixIterator
  RangeSet,     \* <<start, end>> pairs for RangeIterator (end = None: unbounded)
  Vals,         \* values written by Set: <<>> (empty) or <<c>> (uvarint count c < 128)
  MergeKeys,    \* keys that may receive merge operands
  Operands,     \* merge operands (signed deltas)
  MaxCount,     \* bound on counts reached through merges (state-space bound only)
  Readers, Iters,
  MaxBatch,     \* max number of ops in one batch
  AtomicBatch,  \* TRUE: one ExecuteBatchOf(b) step; FALSE: BatchAdd* ; ExecuteBatch
  RepeatKeys,   \* TRUE: a key may be set/deleted more than once in one batch
  ReadActions,  \* TRUE: Get / MultiGet are actions (else the replayer reads everything after every step)
  MultiGetLen

None == <<-1>>          \* "absent" (never a member of Vals)

---------------------------------------------------------------------------
(* Key spaces (selected from the cfg with  Keys <- ...)                    *)
SeqsUpTo(B, n) == UNION {[1..m -> B] : m \in 0..n}
KeysAll1 == SeqsUpTo(Bytes, 1)
KeysAll2 == SeqsUpTo(Bytes, 2)
KeysAll3 == SeqsUpTo(Bytes, 3)
KeysNE2  == KeysAll2 \ {<<>>}
KeysNE3  == KeysAll3 \ {<<>>}
KeysTiny == {<<97>>, <<97, 255>>, <<255>>}
KeysTwo  == {<<97>>, <<97, 255>>}
ProbesTiny == {<<>>, <<97>>, <<97, 255>>, <<255>>, <<255, 255>>}
KeysSucc4 == {<<97, 255>>, <<97, 255, 0>>, <<98>>}
KeysSim  == {<<>>, <<0>>, <<97>>, <<97, 0>>, <<97, 255>>, <<255>>, <<255, 255>>}
ProbesSim == KeysSim \cup {<<97, 97>>, <<255, 255, 255>>}
BoundsSim == {<<>>, <<97>>, <<97, 255>>, <<255>>}
NoKeys == {}

PrefixAll1 == KeysAll1
PrefixAll2 == KeysAll2
PrefixTiny == {<<>>, <<97>>, <<255>>}
PrefixTiny2 == {<<97>>, <<255>>}
RangeTiny2  == {<< <<97>>, <<255>> >>, << <<97, 255>>, None >>}
ProbesTiny2 == {<<>>, <<97>>, <<97, 255>>, <<255>>}
PrefixSucc == {<<97, 255>>, <<98>>}
ProbesSucc == {<<97>>, <<98>>, <<255>>}
RangeTiny  == {<< <<>>, None >>, << <<97>>, <<255>> >>, << <<97, 255>>, None >>}
RangesOver(S) == {<<s, e>> : s \in S, e \in (S \ {<<>>}) \cup {None}}
RangeAll1 == RangesOver(KeysAll1)
RangeAll2 == RangesOver(KeysAll2)
RangeSucc == RangesOver({<<97>>, <<98>>, <<255>>})
RangeSim  == RangesOver(BoundsSim)

ValsTiny  == {<<>>, <<1>>}
ValsEmpty == {<<>>}
ValsOne == {<<1>>}
NoRanges == {}
OperandsNone  == {1}
OperandsSmall == {-1, 1, 2}
OperandsTwo   == {-1, 2}
OperandsWide  == {-3, -1, 1, 2}
ValsSmall == {<<>>, <<0>>, <<1>>, <<2>>}
ValsWide  == {<<>>} \cup {<<c>> : c \in 0..7}

---------------------------------------------------------------------------
(* Byte order: lexicographic on sequences of ints (bytes.Compare)          *)
Min2(a, b) == IF a < b THEN a ELSE b
Less(a, b) ==
  \E i \in 1..(Min2(Len(a), Len(b)) + 1) :
     /\ \A j \in 1..(i - 1) : a[j] = b[j]
     /\ \/ (i > Len(a) /\ i <= Len(b))
        \/ (i <= Len(a) /\ i <= Len(b) /\ a[i] < b[i])
Leq(a, b) == a = b \/ Less(a, b)
HasPrefix(k, p) == Len(p) <= Len(k) /\ \A j \in 1..Len(p) : k[j] = p[j]

AllKeys == Keys \cup Probes
ASSUME OrderIsTotal ==
  /\ \A a, b \in AllKeys : (Less(a, b) /\ ~Less(b, a) /\ a # b)
                        \/ (Less(b, a) /\ ~Less(a, b) /\ a # b)
                        \/ (a = b /\ ~Less(a, b))
  /\ Cardinality(AllKeys) > 24     \* (cubic; checked in the design configs, skipped for the big trace key space)
     \/ \A a, b, c \in AllKeys : Less(a, b) /\ Less(b, c) => Less(a, c)
  /\ \A a, b \in AllKeys : HasPrefix(b, a) => Leq(a, b)

MinKey(S) == CHOOSE x \in S : \A y \in S : Leq(x, y)
Rank(k, S) == Cardinality({x \in S : Less(x, k)}) + 1
SortedKeys(S) == LET rk == [k \in S |-> Rank(k, S)]
                 IN [i \in 1..Cardinality(S) |-> CHOOSE k \in S : rk[k] = i]

(* The exclusive upper bound of a prefix: drop trailing 0xff bytes, then   *)
(* increment the last byte; None when the prefix is all 0xff (or empty).   *)
RECURSIVE PrefixEnd(_)
PrefixEnd(p) == IF p = <<>> THEN None
                ELSE IF p[Len(p)] < 255 THEN [p EXCEPT ![Len(p)] = @ + 1]
                ELSE PrefixEnd(SubSeq(p, 1, Len(p) - 1))
InRange(k, s, e) == Leq(s, k) /\ (e = None \/ Less(k, e))
ASSUME PrefixAsRange ==
  \A p \in PrefixSet \cup AllKeys : \A k \in AllKeys :
     HasPrefix(k, p) <=> InRange(k, p, PrefixEnd(p))

---------------------------------------------------------------------------
(* The merge operator: index/upsidedown/row_merge.go                       *)
(* values of dictionary rows are uvarint counts; an absent or empty value  *)
(* counts 0; operands are signed 64-bit deltas.                            *)
CountOf(v) == IF v = None \/ v = <<>> THEN 0 ELSE v[1]
\* FullMerge with ONE operand d: saturates at 0 when subtracting too much
FullMergeCount(c, d) == IF d < 0 /\ -d > c THEN 0 ELSE c + d
FullMerge(v, d) == << FullMergeCount(CountOf(v), d) >>
\* PartialMerge(left, right) = left + right (int64 addition)
PartialMerge(l, r) == l + r

RECURSIVE SumSeq(_)
SumSeq(ds) == IF ds = <<>> THEN 0 ELSE Head(ds) + SumSeq(Tail(ds))
RECURSIVE SeqMergeCount(_, _)   \* FullMerge given the operand list (applied one by one)
SeqMergeCount(c, ds) == IF ds = <<>> THEN c
                        ELSE SeqMergeCount(FullMergeCount(c, Head(ds)), Tail(ds))
NoUnderflow(c, ds) == \A i \in 1..Len(ds) : c + SumSeq(SubSeq(ds, 1, i)) >= 0
(* Every adapter first collapses the operands of one key in a batch with   *)
(* PartialMerge (store.EmulatedMerge) and then calls FullMerge with the    *)
(* single collapsed operand.  That equals operand-by-operand FullMerge     *)
(* exactly when no intermediate subtraction saturates (e.g. count 0,       *)
(* operands <<-1, +1>> gives 0 collapsed but 1 one-by-one): the operator's *)
(* PartialMerge is not consistent with its saturating FullMerge.  The      *)
(* model follows the adapters (collapsed), see Meaning.                    *)
ASSUME MergeLemma ==
  \A c \in 0..2 : \A ds \in SeqsUpTo(Operands, 3) :
     NoUnderflow(c, ds) => SeqMergeCount(c, ds) = FullMergeCount(c, SumSeq(ds))

---------------------------------------------------------------------------
(* Batches                                                                 *)
SetOp(k, v)   == [op |-> "set",   k |-> k, v |-> v,    d |-> 0]
DelOp(k)      == [op |-> "del",   k |-> k, v |-> None, d |-> 0]
MergeOp(k, d) == [op |-> "merge", k |-> k, v |-> None, d |-> d]
OpSet == {SetOp(k, v) : k \in Keys, v \in Vals}
         \cup {DelOp(k) : k \in Keys}
         \cup {MergeOp(k, d) : k \in MergeKeys, d \in Operands}

Idx(b, k, merge) == {i \in 1..Len(b) : b[i].k = k /\ ((b[i].op = "merge") <=> merge)}
MergedKeys(b) == {b[i].k : i \in {j \in 1..Len(b) : b[j].op = "merge"}}
RECURSIVE NetOf(_, _)          \* operands of k collapsed left-to-right with PartialMerge
NetOf(b, k) == IF b = <<>> THEN 0
               ELSE LET rest == NetOf(SubSeq(b, 1, Len(b) - 1), k)
                        o == b[Len(b)]
                    IN IF o.op = "merge" /\ o.k = k THEN PartialMerge(rest, o.d) ELSE rest
MaxOf(S) == CHOOSE x \in S : \A y \in S : y <= x

(* Meaning of a batch on map m, per key: a merged key gets FullMerge of    *)
(* its old value with the collapsed operand; otherwise the last set/delete *)
(* of the key in batch order wins; untouched keys keep their value.        *)
Meaning(m, b) ==
  [k \in Keys |->
     IF Idx(b, k, TRUE) # {} THEN FullMerge(m[k], NetOf(b, k))
     ELSE IF Idx(b, k, FALSE) = {} THEN m[k]
     ELSE LET o == b[MaxOf(Idx(b, k, FALSE))] IN IF o.op = "set" THEN o.v ELSE None]

(* Algorithm shapes of the adapters *)
ApplyOp(m, o) == IF o.op = "set" THEN [m EXCEPT ![o.k] = o.v]
                 ELSE IF o.op = "del" THEN [m EXCEPT ![o.k] = None]
                 ELSE m
RECURSIVE FoldOps(_, _)
FoldOps(m, b) == IF b = <<>> THEN m ELSE FoldOps(ApplyOp(m, Head(b)), Tail(b))
\* merged values computed from `old`, written into `m`
PutMerges(old, m, b) == [k \in Keys |-> IF k \in MergedKeys(b) THEN FullMerge(old[k], NetOf(b, k)) ELSE m[k]]
AlgMergesFirst(m, b) == FoldOps(PutMerges(m, m, b), b)     \* boltdb, gtreap (and moss: merges appended to the moss batch)
AlgMergesLast(m, b)  == PutMerges(m, FoldOps(m, b), b)     \* goleveldb: existing value read before the batch, Put appended

(* Which op may extend batch b (given the current map m, for the count bound) *)
CanAdd(m, b, o) ==
  /\ Len(b) < MaxBatch
  /\ o.op = "merge" => /\ Idx(b, o.k, FALSE) = {}
                       /\ FullMergeCount(CountOf(m[o.k]), NetOf(b, o.k) + o.d) <= MaxCount
  /\ o.op # "merge" => /\ Idx(b, o.k, TRUE) = {}       \* never merge and set/delete the same key in one batch
                       /\ (RepeatKeys \/ Idx(b, o.k, FALSE) = {})
RECURSIVE Extensions(_, _, _)
Extensions(m, b, n) == IF n = 0 THEN {b}
                       ELSE {b} \cup UNION {Extensions(m, Append(b, o), n - 1) : o \in {x \in OpSet : CanAdd(m, b, x)}}
LegalBatches(m) == Extensions(m, <<>>, MaxBatch) \ {<<>>}

---------------------------------------------------------------------------
(* State                                                                   *)
VARIABLES
  kv,        \* the map
  kvs,       \* Scan(kv): entries in byte order (derived; kept for the replayer)
  pending,   \* batch being built (step mode)
  readers,   \* r -> [open, snap, scan]
  iters,     \* i -> iterator record
  act        \* last action with the value the store must return
vars == <<kv, kvs, pending, readers, iters, act>>

Live(m) == {k \in Keys : m[k] # None}
KeyOrder == SortedKeys(Keys)      \* all keys in byte order (a constant, evaluated once)
Scan(m) == LET live == SelectSeq(KeyOrder, LAMBDA k : m[k] # None)
           IN [i \in 1..Len(live) |-> <<live[i], m[live[i]]>>]
Lookup(m, k) == IF k \in Keys THEN m[k] ELSE None
EmptyMap == [k \in Keys |-> None]

ClosedReader == [open |-> FALSE, snap |-> EmptyMap, scan |-> <<>>]
ClosedIter == [open |-> FALSE, rd |-> 0, kind |-> "none", lo |-> <<>>, hi |-> None, cur |-> None, valid |-> FALSE]

Init ==
  /\ kv = EmptyMap /\ kvs = <<>> /\ pending = <<>>
  /\ readers = [r \in Readers |-> ClosedReader]
  /\ iters = [i \in Iters |-> ClosedIter]
  /\ act = [name |-> "Init"]

(* ---- writer ---- *)
BatchAdd(o) ==
  /\ ~AtomicBatch
  /\ CanAdd(kv, pending, o)
  /\ pending' = Append(pending, o)
  /\ act' = [name |-> "BatchAdd", o |-> o]
  /\ UNCHANGED <<kv, kvs, readers, iters>>

ExecuteBatchOf(b) ==
  /\ kv' = Meaning(kv, b)
  /\ kvs' = Scan(kv')
  /\ pending' = <<>>
  /\ act' = [name |-> "ExecuteBatch", ops |-> b]
  /\ UNCHANGED <<readers, iters>>

ExecuteBatch == ~AtomicBatch /\ ExecuteBatchOf(pending)
ExecuteAtomic == AtomicBatch /\ pending = <<>> /\ \E b \in LegalBatches(kv) : ExecuteBatchOf(b)

(* ---- readers ---- *)
ReaderOpen(r) ==
  /\ ~readers[r].open
  /\ readers' = [readers EXCEPT ![r] = [open |-> TRUE, snap |-> kv, scan |-> kvs]]
  /\ act' = [name |-> "ReaderOpen", r |-> r]
  /\ UNCHANGED <<kv, kvs, pending, iters>>

ReaderClose(r) ==
  /\ readers[r].open
  /\ \A i \in Iters : ~(iters[i].open /\ iters[i].rd = r)   \* iterators are closed before their reader
  /\ readers' = [readers EXCEPT ![r] = ClosedReader]
  /\ act' = [name |-> "ReaderClose", r |-> r]
  /\ UNCHANGED <<kv, kvs, pending, iters>>

Get(r, k) ==
  /\ readers[r].open
  /\ act' = [name |-> "Get", r |-> r, k |-> k, ret |-> Lookup(readers[r].snap, k)]
  /\ UNCHANGED <<kv, kvs, pending, readers, iters>>

MultiGet(r, ks) ==
  /\ readers[r].open
  /\ act' = [name |-> "MultiGet", r |-> r, ks |-> ks,
             ret |-> [j \in 1..Len(ks) |-> Lookup(readers[r].snap, ks[j])]]
  /\ UNCHANGED <<kv, kvs, pending, readers, iters>>

\* full scans (an unbounded iteration from the first key): of an open reader, and of a reader
\* opened on the spot
ScanReader(r) ==
  /\ readers[r].open
  /\ act' = [name |-> "ScanReader", r |-> r, ret |-> readers[r].scan]
  /\ UNCHANGED <<kv, kvs, pending, readers, iters>>
ScanStore ==
  /\ act' = [name |-> "ScanStore", ret |-> kvs]
  /\ UNCHANGED <<kv, kvs, pending, readers, iters>>

(* ---- iterators ---- *)
Snap(it) == readers[it.rd].snap
InBounds(it, k) == IF it.kind = "prefix" THEN HasPrefix(k, it.lo) ELSE InRange(k, it.lo, it.hi)
\* meaning: the keys the iterator visits, in byte order
ViewKeys(it) == {k \in Live(Snap(it)) : InBounds(it, k)}
MeanSeek(it, k) == LET S == {x \in ViewKeys(it) : Leq(k, x)} IN IF S = {} THEN None ELSE MinKey(S)
MeanNext(it)    == LET S == {x \in ViewKeys(it) : Less(it.cur, x)} IN IF S = {} THEN None ELSE MinKey(S)
MeanFirst(it)   == IF ViewKeys(it) = {} THEN None ELSE MinKey(ViewKeys(it))
RetAt(it, c) == [valid |-> c # None, k |-> c, v |-> IF c = None THEN None ELSE Snap(it)[c]]

\* algorithm: a cursor over the whole snapshot plus a validity check
CursorGE(m, k) == LET S == {x \in Live(m) : Leq(k, x)} IN IF S = {} THEN None ELSE MinKey(S)
CursorGT(m, k) == LET S == {x \in Live(m) : Less(k, x)} IN IF S = {} THEN None ELSE MinKey(S)
Checked(it, c) == IF c # None /\ (IF it.kind = "prefix" THEN HasPrefix(c, it.lo) ELSE (it.hi = None \/ Less(c, it.hi)))
                  THEN [it EXCEPT !.cur = c, !.valid = TRUE]
                  ELSE [it EXCEPT !.cur = None, !.valid = FALSE]
SeekAlg(it, k) ==
  LET k1 == IF it.kind = "range" /\ Less(k, it.lo) THEN it.lo ELSE k IN
  IF it.kind = "prefix" /\ ~HasPrefix(k1, it.lo)
  THEN IF Less(k1, it.lo) THEN Checked(it, CursorGE(Snap(it), it.lo))
       ELSE [it EXCEPT !.cur = None, !.valid = FALSE]      \* beyond the prefix
  ELSE Checked(it, CursorGE(Snap(it), k1))
NextAlg(it) == Checked(it, CursorGT(Snap(it), it.cur))
RetOf(it) == [valid |-> it.valid, k |-> it.cur, v |-> IF it.valid THEN Snap(it)[it.cur] ELSE None]

IterOpen(i, r, kind, lo, hi) ==
  /\ ~iters[i].open /\ readers[r].open
  /\ LET it0 == [open |-> TRUE, rd |-> r, kind |-> kind, lo |-> lo, hi |-> hi, cur |-> None, valid |-> FALSE]
     IN /\ iters' = [iters EXCEPT ![i] = SeekAlg(it0, lo)]
        /\ act' = [name |-> "IterOpen", i |-> i, r |-> r, kind |-> kind, lo |-> lo, hi |-> hi,
                   ret |-> RetAt(it0, MeanFirst(it0))]
  /\ UNCHANGED <<kv, kvs, pending, readers>>

Seek(i, k) ==
  /\ iters[i].open
  /\ iters' = [iters EXCEPT ![i] = SeekAlg(iters[i], k)]
  /\ act' = [name |-> "Seek", i |-> i, k |-> k, ret |-> RetAt(iters[i], MeanSeek(iters[i], k))]
  /\ UNCHANGED <<kv, kvs, pending, readers>>

NextI(i) ==
  /\ iters[i].open /\ iters[i].valid       \* Next on an exhausted iterator is outside the contract
  /\ iters' = [iters EXCEPT ![i] = NextAlg(iters[i])]
  /\ act' = [name |-> "Next", i |-> i, ret |-> RetAt(iters[i], MeanNext(iters[i]))]
  /\ UNCHANGED <<kv, kvs, pending, readers>>

IterClose(i) ==
  /\ iters[i].open
  /\ iters' = [iters EXCEPT ![i] = ClosedIter]
  /\ act' = [name |-> "IterClose", i |-> i]
  /\ UNCHANGED <<kv, kvs, pending, readers>>

MultiGetArgs == UNION {[1..n -> Probes] : n \in 1..MultiGetLen}

Next ==
  \/ \E o \in OpSet : BatchAdd(o)
  \/ ExecuteBatch
  \/ ExecuteAtomic
  \/ \E r \in Readers : ReaderOpen(r) \/ ReaderClose(r)
  \/ ReadActions /\ \E r \in Readers : \/ \E k \in Probes : Get(r, k)
                                       \/ \E ks \in MultiGetArgs : MultiGet(r, ks)
                                       \/ ScanReader(r)
  \/ ReadActions /\ ScanStore
  \/ \E i \in Iters, r \in Readers : \/ \E p \in PrefixSet : IterOpen(i, r, "prefix", p, None)
                                     \/ \E se \in RangeSet : IterOpen(i, r, "range", se[1], se[2])
  \/ \E i \in Iters : \/ \E k \in Probes : Seek(i, k)
                      \/ NextI(i)
                      \/ IterClose(i)

Spec == Init /\ [][Next]_vars

---------------------------------------------------------------------------
(* Properties                                                              *)
TypeOK ==
  /\ kv \in [Keys -> Vals \cup {<<c>> : c \in 0..MaxCount} \cup {None}]
  /\ kvs = Scan(kv)
  /\ \A r \in Readers : readers[r].scan = Scan(readers[r].snap)
  /\ \A i \in Iters : iters[i].open => readers[iters[i].rd].open
  /\ AtomicBatch => pending = <<>>

\* every scan is strictly increasing in byte order and lists exactly the live keys
ScanOrdered(s, m) ==
  /\ \A j \in 1..(Len(s) - 1) : Less(s[j][1], s[j + 1][1])
  /\ {s[j][1] : j \in 1..Len(s)} = Live(m)
  /\ \A j \in 1..Len(s) : s[j][2] = m[s[j][1]]
ReadsInByteOrder ==
  /\ ScanOrdered(kvs, kv)
  /\ \A r \in Readers : readers[r].open => ScanOrdered(readers[r].scan, readers[r].snap)

\* the cursor algorithm lands exactly where the meaning says
IterRefines ==
  act.name \in {"IterOpen", "Seek", "Next"} => act.ret = RetOf(iters[act.i])
\* a valid iterator always stands on a key of its view
IterInView == \A i \in Iters : iters[i].open /\ iters[i].valid => iters[i].cur \in ViewKeys(iters[i])

\* the reader's view (all it can observe) never changes while it stays open
ReaderView(r) == <<readers[r].scan, [k \in AllKeys |-> Lookup(readers[r].snap, k)]>>
ReaderIsolation ==
  [][\A r \in Readers : readers[r].open /\ readers'[r].open => ReaderView(r)' = ReaderView(r)]_vars
\* iterators inherit it: the view of an open iterator never changes
IterIsolation ==
  [][\A i \in Iters : iters[i].open /\ iters'[i].open /\ iters'[i].rd = iters[i].rd
        /\ iters'[i].kind = iters[i].kind /\ iters'[i].lo = iters[i].lo /\ iters'[i].hi = iters[i].hi
        => ViewKeys(iters[i])' = ViewKeys(iters[i])]_vars

\* the map changes only by a whole batch, and both adapter algorithms compute the meaning
BatchAtomic ==
  [][kv' # kv => act'.name = "ExecuteBatch" /\ kv' = Meaning(kv, act'.ops) /\ pending' = <<>>]_vars
BatchAlgRefines ==
  [][act'.name = "ExecuteBatch" =>
        /\ AlgMergesFirst(kv, act'.ops) = kv'
        /\ AlgMergesLast(kv, act'.ops) = kv']_vars
\* a reader opened at any point sees every earlier batch entirely and no later batch at all
ReaderSeesWholeBatches ==
  [][\A r \in Readers : ~readers[r].open /\ readers'[r].open => readers'[r].snap = kv /\ kv' = kv]_vars
=============================================================================
