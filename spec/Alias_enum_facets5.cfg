\* Engine A thorough: facet expectations of the single index (5 documents)
SPECIFICATION EnumSpec
CONSTANTS
  NDocs = 5
  PatIds = {1, 2, 3}
  TreeIds = {6}
  SortIds = {1}
  MaxFrom = 0
  MaxSize = 0
  CursorSizes = {}
  WithFacets = TRUE
  Quirk = FALSE

CHECK_DEADLOCK FALSE
