\* C10/C09: Merge + Fixup lemma over every 2-split of the matches (one page setting)
SPECIFICATION EnumSpec
CONSTANTS
  NDocs = 3
  Vals = {1, 2}
  Sizes = {1, 2, 5}
  Pages <- PagesOne
INVARIANTS MergeLemma
CHECK_DEADLOCK FALSE
