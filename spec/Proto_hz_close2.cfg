\* HAZARD, expected result: invariant NoPanic violated. Close called twice on a scorch index: close(closeCh) of a closed channel
SPECIFICATION Spec
CONSTANTS
  Callers = {c1, c2}
  MaxOps = 1
  LateOps = 0
  Ops = {"close"}
  Engine = "mem"
  MaxMerges = 0
  PauseMode = "none"
  HazFD = FALSE
  HazClose2 = TRUE
  HazFMMem = FALSE

INVARIANTS TypeOK RWExclusion LockBalanced NoPanic ContractHolds
  CloseReturnMeansStopped WriterMeansQuiescent BatchNeverSeesClose NoOrphanAck ForceMergeSingle
CHECK_DEADLOCK TRUE
