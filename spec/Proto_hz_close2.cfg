\* REGRESSION DETECTOR (repaired in fb2d875): with the OLD indexImpl.Close (LegacyClose2) TLC finds NoPanic violated - Close twice on scorch closes closeCh twice. The schedule is enacted on the real code on every run.
SPECIFICATION Spec
CONSTANTS
  Callers = {c1, c2}
  MaxOps = 1
  LateOps = 0
  Ops = {"close"}
  Engine = "mem"
  MaxMerges = 0
  PauseMode = "none"
  HazFD = FALSE
  LegacyClose2 = TRUE
  LegacyFMMem = FALSE

INVARIANTS TypeOK RWExclusion LockBalanced NoPanic ContractHolds
  CloseReturnMeansStopped WriterMeansQuiescent BatchNeverSeesClose NoOrphanAck ForceMergeSingle
CHECK_DEADLOCK TRUE
