\* the sentences with a date comparison under another configured date parser
\* (query.QueryDateTimeParser): only the full RFC 3339 time stamp is a date
SPECIFICATION Spec
CONSTANT Wide = FALSE
CONSTANT DateOnly = TRUE
CONSTANT ValidDates <- StampOnlyDates
INVARIANT DateClausesValid
CHECK_DEADLOCK FALSE
