SPECIFICATION Spec
CONSTANTS
  KindNames = {"nested", "flat", "inner"}
  QFieldSeq <- FS5
  MaxA = 2
  MaxC = 2
  MaxB = 1
  MaxNodes = 3
  L2Forms = {"conj-il"}
  Ordered = FALSE
  Classes = {"core"}
  WithMin = FALSE
INVARIANT CodedEqualsMeaning
INVARIANT HitsAreParents
INVARIANT JoinDepthsFit
INVARIANT FlatIsPlain
INVARIANT SameArrayConj
CHECK_DEADLOCK FALSE
