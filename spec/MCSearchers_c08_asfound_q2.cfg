\* generated by mkcfg_searchers.py; families and layouts: MCSearchers.tla
SPECIFICATION Spec
CONSTANTS
  SegSizes <- Segs21
  Deleted = {}
  OneHitEnc = TRUE
  ScoreNone = FALSE
  HeapTakeover = 10
  MaxCalls = 1
  NTerms = 2
  Family = "q2"
  DropK1 = FALSE
  Queries <- MCQueries
  FixEmptySnapshot = TRUE
  FixBoolAdvance = FALSE
  FixShouldMin = TRUE
  FirstAdvanceOK <- FirstAdvAlways
VIEW View
INVARIANT ResultOK
CHECK_DEADLOCK FALSE
