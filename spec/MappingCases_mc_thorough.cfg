\* C16 thorough: the wider products (one initial state per case)
SPECIFICATION Spec
CONSTANT Thorough = TRUE
INVARIANT RoundTripIdentity
INVARIANT RoundTripBehaviour
INVARIANT AlgorithmMeetsSpec
INVARIANT ValidityAsDesigned
INVARIANT OptionsNotMixed
INVARIANT NothingWhenDisabled
CHECK_DEADLOCK FALSE
