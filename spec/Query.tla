------------------------------- MODULE Query -------------------------------
(***************************************************************************)
(* The declarative meaning of bleve's query family over ANALYSED           *)
(* documents (properties C02 / C08; code: search/query/*.go).              *)
(*                                                                         *)
(* Nothing here looks like a searcher: Eval(q, d, mode) says whether       *)
(* document d satisfies query q, Hits(q, corpus) is the answer set.  The   *)
(* algorithmic models (Searchers.tla) are checked by TLC to compute        *)
(* exactly Hits; the real engines are judged against Hits by               *)
(* trace/JudgeQuery.tla and trace/JudgeSearcher.tla.                       *)
(*                                                                         *)
(* Data (all values are what TLC's Json module produces from the harness   *)
(* records, i.e. records / sequences / integers / strings):                *)
(*                                                                         *)
(*   term      sequence of letters, a letter is an integer >= 1            *)
(*             (a=1, b=2, c=3 ...; byte order = integer order, so          *)
(*             lexicographic order on sequences = byte order on terms)     *)
(*   document  [id  |-> Int,                                               *)
(*              txt |-> [field |-> <<element, ...>>],   text fields:       *)
(*                      element = <<term, ...>> = the tokens of one array  *)
(*                      element of the field, in position order (the       *)
(*                      token at index p has position p)                   *)
(*              num |-> [field |-> <<Int, ...>>]]       numeric, datetime  *)
(*                      (day numbers) and boolean (0/1) fields             *)
(*   query     [type |-> "...", ...]  (see Eval)                           *)
(*   mode      Strict is the documented meaning and the only mode the       *)
(*             properties are stated in.  The other switches describe      *)
(*             deviations OBSERVED in the real engines; the judges use     *)
(*             them only to give an observed violation of the strict       *)
(*             meaning a stable name (known-finding signature), never to   *)
(*             excuse it:                                                  *)
(*             transp  a transposition of two adjacent letters counts as   *)
(*                     ONE edit in fuzzy matching (scorch's automaton;     *)
(*                     documented: Levenshtein)                            *)
(*             k1      a boolean query's should-minimum is ignored where   *)
(*                     the harness saw the should searcher lose its Min()  *)
(*                     (node field k1 = 1: unadorned disjunction under     *)
(*                     score:none); k1f: the same below filter clauses     *)
(*                     (filters are always built with score:none)          *)
(*             lmf     a regular expression is matched leftmost-first and  *)
(*                     the FIRST match must span the term (upsidedown:     *)
(*                     FindStringIndex), instead of "some match spans it"  *)
(***************************************************************************)
EXTENDS Naturals, Integers, Sequences, FiniteSets

Strict == [transp |-> FALSE, k1 |-> FALSE, k1f |-> FALSE, lmf |-> FALSE]

Max2(a, b) == IF a >= b THEN a ELSE b
Min2(a, b) == IF a <= b THEN a ELSE b
Min3(a, b, c) == Min2(a, Min2(b, c))

SeqToSet(s) == { s[i] : i \in DOMAIN s }

(***************************************************************************)
(* Field access (a field a document does not carry has no values).         *)
(***************************************************************************)
Elems(d, f) == IF f \in DOMAIN d.txt THEN d.txt[f] ELSE << >>
Vals(d, f)  == IF f \in DOMAIN d.num THEN SeqToSet(d.num[f]) ELSE {}

\* the set of indexed terms of field f of document d
Terms(d, f) == UNION { SeqToSet(Elems(d, f)[e]) : e \in DOMAIN Elems(d, f) }

HasTerm(d, f, t) == t \in Terms(d, f)

(***************************************************************************)
(* Orders and string predicates on terms.                                  *)
(***************************************************************************)
RECURSIVE LexLess(_, _)
LexLess(a, b) ==
    IF Len(b) = 0 THEN FALSE
    ELSE IF Len(a) = 0 THEN TRUE
    ELSE IF a[1] < b[1] THEN TRUE
    ELSE IF a[1] > b[1] THEN FALSE
    ELSE LexLess(Tail(a), Tail(b))

LexLeq(a, b) == a = b \/ LexLess(a, b)

IsPrefix(p, t) == Len(p) <= Len(t) /\ \A i \in 1..Len(p) : t[i] = p[i]

\* wildcard pattern: letter >= 1 literal, 0 = '?', -1 = '*'
RECURSIVE WildMatch(_, _)
WildMatch(p, t) ==
    IF Len(p) = 0 THEN Len(t) = 0
    ELSE IF p[1] = -1
         THEN WildMatch(Tail(p), t) \/ (Len(t) > 0 /\ WildMatch(p, Tail(t)))
    ELSE IF Len(t) = 0 THEN FALSE
    ELSE (p[1] = 0 \/ p[1] = t[1]) /\ WildMatch(Tail(p), Tail(t))

(***************************************************************************)
(* Regular expressions (subset): alts = <<alt, ...>>, alt = <<atom, ...>>, *)
(* atom = [cls |-> <<letters>> (empty = '.'), rep |-> 0 one | 1 '*' |      *)
(* 2 '+' | 3 '?'].  The WHOLE term must be in the language (search/        *)
(* searcher/search_regexp.go: "The match must be EXACT matching the        *)
(* entire term").                                                          *)
(***************************************************************************)
AtomHas(a, c) == Len(a.cls) = 0 \/ c \in SeqToSet(a.cls)

RECURSIVE AltMatch(_, _)
AltMatch(alt, t) ==
    IF Len(alt) = 0 THEN Len(t) = 0
    ELSE LET a == alt[1] rest == Tail(alt) IN
      CASE a.rep = 0 -> Len(t) > 0 /\ AtomHas(a, t[1]) /\ AltMatch(rest, Tail(t))
        [] a.rep = 3 -> AltMatch(rest, t)
                        \/ (Len(t) > 0 /\ AtomHas(a, t[1]) /\ AltMatch(rest, Tail(t)))
        [] a.rep = 1 -> AltMatch(rest, t)
                        \/ (Len(t) > 0 /\ AtomHas(a, t[1]) /\ AltMatch(alt, Tail(t)))
        [] a.rep = 2 -> Len(t) > 0 /\ AtomHas(a, t[1])
                        /\ AltMatch(<<[cls |-> a.cls, rep |-> 1]>> \o rest, Tail(t))

ReMatch(alts, t) == \E i \in DOMAIN alts : AltMatch(alts[i], t)

\* leftmost-first (mode.lmf): the length of the match a backtracking matcher
\* with greedy quantifiers finds first for one alternative at position 0
\* (-1: none); the first alternative that matches at all decides
RECURSIVE PrefLen(_, _)
PrefLen(alt, t) ==
    IF Len(alt) = 0 THEN 0
    ELSE LET a == alt[1]
             rest == Tail(alt)
             can == Len(t) > 0 /\ AtomHas(a, t[1])
             one == IF can THEN PrefLen(rest, Tail(t)) ELSE -1
             more == IF can THEN PrefLen(IF a.rep = 2 THEN <<[cls |-> a.cls, rep |-> 1]>> \o rest ELSE alt, Tail(t)) ELSE -1
         IN  CASE a.rep = 0 -> IF one >= 0 THEN 1 + one ELSE -1
               [] a.rep = 3 -> IF one >= 0 THEN 1 + one ELSE PrefLen(rest, t)
               [] a.rep = 1 -> IF more >= 0 THEN 1 + more ELSE PrefLen(rest, t)
               [] a.rep = 2 -> IF more >= 0 THEN 1 + more ELSE -1

ReMatchLMF(alts, t) ==
    LET m == { i \in DOMAIN alts : PrefLen(alts[i], t) >= 0 } IN
    m # {} /\ PrefLen(alts[CHOOSE i \in m : \A j \in m : i <= j], t) = Len(t)

(***************************************************************************)
(* Edit distance.  Lev = Levenshtein (insert, delete, substitute).  With   *)
(* transp = TRUE a swap of two adjacent letters costs 1 (optimal string    *)
(* alignment).  Computed on prefixes (i, j) of a and b.                    *)
(***************************************************************************)
RECURSIVE Dist(_, _, _, _, _)
Dist(a, b, i, j, transp) ==
    IF i = 0 THEN j
    ELSE IF j = 0 THEN i
    ELSE LET sub == Dist(a, b, i-1, j-1, transp) + (IF a[i] = b[j] THEN 0 ELSE 1)
             del == Dist(a, b, i-1, j, transp) + 1
             ins == Dist(a, b, i, j-1, transp) + 1
             base == Min3(sub, del, ins)
         IN IF transp /\ i > 1 /\ j > 1 /\ a[i] = b[j-1] /\ a[i-1] = b[j] /\ a[i] # a[i-1]
            THEN Min2(base, Dist(a, b, i-2, j-2, transp) + 1)
            ELSE base

EditDistance(a, b, transp) == Dist(a, b, Len(a), Len(b), transp)

\* fuzzy: candidate t must share the first `prefix` letters of the query
\* term (the whole term if it is shorter) and be within `fuzz` edits of it
FuzzyMatch(qt, t, fuzz, prefix, mode) ==
    IF fuzz = 0 THEN t = qt
    ELSE /\ IsPrefix(SubSeq(qt, 1, Min2(prefix, Len(qt))), t)
         /\ Len(t) - Len(qt) <= fuzz
         /\ Len(qt) - Len(t) <= fuzz
         /\ EditDistance(qt, t, mode.transp) <= fuzz

HasFuzzy(d, f, qt, fuzz, prefix, mode) ==
    \E t \in Terms(d, f) : FuzzyMatch(qt, t, fuzz, prefix, mode)

(***************************************************************************)
(* Phrases: all terms at consecutive positions of ONE array element of     *)
(* ONE field (search_phrase.go findPhrasePaths: ArrayPositions must be     *)
(* equal, positions consecutive).                                          *)
(***************************************************************************)
PhraseIn(d, f, ts) ==
    /\ Len(ts) > 0
    /\ \E e \in DOMAIN Elems(d, f) :
         LET el == Elems(d, f)[e] IN
         \E p \in 1..Len(el) :
            /\ p + Len(ts) - 1 <= Len(el)
            /\ \A i \in 1..Len(ts) : el[p + i - 1] = ts[i]

(***************************************************************************)
(* Ranges.  inc = 1 inclusive, 0 exclusive, 2 = not given: the documented  *)
(* defaults are min inclusive, max exclusive.  has = 0: unbounded side.    *)
(***************************************************************************)
IncMin(q) == q.incMin = 1 \/ q.incMin = 2
IncMax(q) == q.incMax = 1

InNumRange(v, q) ==
    /\ (q.hasMin = 1 => IF IncMin(q) THEN v >= q.min ELSE v > q.min)
    /\ (q.hasMax = 1 => IF IncMax(q) THEN v <= q.max ELSE v < q.max)

InTermRange(t, q) ==
    /\ (q.hasMin = 1 => IF IncMin(q) THEN LexLeq(q.min, t) ELSE LexLess(q.min, t))
    /\ (q.hasMax = 1 => IF IncMax(q) THEN LexLeq(t, q.max) ELSE LexLess(t, q.max))

(***************************************************************************)
(* The meaning of a query on one document.                                 *)
(*                                                                         *)
(* Compound rules (search/query/{conjunction,disjunction,boolean}.go):     *)
(*  conj    all conjuncts; an empty conjunction matches nothing            *)
(*  disj    at least max(1, min) disjuncts; empty matches nothing          *)
(*  boolean must (all), should (at least min of them), must_not (none),    *)
(*          filter.  An absent/empty clause does not constrain.  With no   *)
(*          must clause the should clause is what selects documents, so    *)
(*          at least max(1, min) should queries must hold; with only       *)
(*          must_not (and/or filter) clauses the candidates are all        *)
(*          documents; with no clause at all nothing matches.              *)
(***************************************************************************)
RECURSIVE Eval(_, _, _)

Count(qs, d, mode) == Cardinality({ i \in DOMAIN qs : Eval(qs[i], d, mode) })

Eval(q, d, mode) ==
  CASE q.type = "term"     -> HasTerm(d, q.field, q.term)
    [] q.type = "match"    ->
         /\ Len(q.terms) > 0
         /\ IF q.op = "and"
            THEN \A i \in DOMAIN q.terms : HasFuzzy(d, q.field, q.terms[i], q.fuzz, q.prefix, mode)
            ELSE \E i \in DOMAIN q.terms : HasFuzzy(d, q.field, q.terms[i], q.fuzz, q.prefix, mode)
    [] q.type \in {"phrase", "match_phrase"} -> PhraseIn(d, q.field, q.terms)
    [] q.type = "prefix"   -> \E t \in Terms(d, q.field) : IsPrefix(q.prefix, t)
    [] q.type = "wildcard" -> \E t \in Terms(d, q.field) : WildMatch(q.pat, t)
    [] q.type = "regexp"   -> \E t \in Terms(d, q.field) :
                                 IF mode.lmf THEN ReMatchLMF(q.alts, t) ELSE ReMatch(q.alts, t)
    [] q.type = "fuzzy"    -> HasFuzzy(d, q.field, q.term, q.fuzz, q.prefix, mode)
    [] q.type = "termrange" -> \E t \in Terms(d, q.field) : InTermRange(t, q)
    [] q.type \in {"numrange", "daterange"} -> \E v \in Vals(d, q.field) : InNumRange(v, q)
    [] q.type = "boolfield" -> q.val \in Vals(d, q.field)
    [] q.type = "docid"    -> d.id \in SeqToSet(q.ids)
    [] q.type = "all"      -> TRUE
    [] q.type = "none"     -> FALSE
    [] q.type = "conj"     -> Len(q.qs) > 0 /\ \A i \in DOMAIN q.qs : Eval(q.qs[i], d, mode)
    [] q.type = "disj"     -> Count(q.qs, d, mode) >= Max2(1, q.min)
    [] q.type = "boolean"  ->
         /\ Len(q.must) + Len(q.should) + Len(q.mustnot) + Len(q.filter) > 0
         /\ \A i \in DOMAIN q.must : Eval(q.must[i], d, mode)
         /\ \A i \in DOMAIN q.mustnot : ~Eval(q.mustnot[i], d, mode)
         /\ \A i \in DOMAIN q.filter : Eval(q.filter[i], d, [mode EXCEPT !.k1 = mode.k1f])
         /\ (Len(q.should) > 0 =>
              \/ (mode.k1 /\ q.k1 = 1)
              \/ Count(q.should, d, mode) >= (IF Len(q.must) = 0 THEN Max2(1, q.min) ELSE q.min))

(***************************************************************************)
(* The answer: ids of the live documents (corpus = sequence of the live    *)
(* documents, ids distinct) that satisfy the query.                        *)
(***************************************************************************)
HitsMode(q, corpus, mode) == { corpus[i].id : i \in { j \in DOMAIN corpus : Eval(q, corpus[j], mode) } }
Hits(q, corpus) == HitsMode(q, corpus, Strict)

(***************************************************************************)
(* Syntactic helpers used by the judges to name shapes.                    *)
(***************************************************************************)
RECURSIVE Depth(_)
SeqMax(s) == IF Len(s) = 0 THEN 0 ELSE CHOOSE m \in SeqToSet(s) : \A x \in SeqToSet(s) : x <= m
Depth(q) ==
  CASE q.type \in {"conj", "disj"} -> 1 + SeqMax([i \in DOMAIN q.qs |-> Depth(q.qs[i])])
    [] q.type = "boolean" ->
         1 + SeqMax([i \in DOMAIN (q.must \o q.should \o q.mustnot \o q.filter) |->
                        Depth((q.must \o q.should \o q.mustnot \o q.filter)[i])])
    [] OTHER -> 0
=============================================================================
