----------------------------- MODULE GeoBoxEdge -----------------------------
(***************************************************************************)
(* C18, boxes at their edges: "points clearly inside are always returned   *)
(* and points clearly outside never are, including boxes ... that cross    *)
(* the date line".  Coordinates are integers in millidegrees (the encoding *)
(* resolves about 1e-4 millidegrees, so 5 millidegrees off an edge is      *)
(* clear).  A box is [left, right] x [bottom, top]; left > right means it  *)
(* crosses the date line.  Documents sit a little inside and a little      *)
(* outside every edge and corner.  A state is one box with the documents   *)
(* that must and must not be returned.                                     *)
(***************************************************************************)
EXTENDS Integers, FiniteSets

BoxesMC == { [l |-> 10000, r |-> 20000, b |-> 10000, t |-> 20000],
             [l |-> 170000, r |-> 0 - 170000, b |-> 0 - 10000, t |-> 10000],    \* across the date line
             [l |-> 179000, r |-> 0 - 179000, b |-> 40000, t |-> 41000],
             [l |-> 0 - 30000, r |-> 0 - 20000, b |-> 0 - 20000, t |-> 0 - 10000] }
OffsMC == {0 - 50, 0 - 5, 5, 50}          \* offsets from an edge (negative: towards the outside)

CONSTANTS Boxes, Offs

\* the documents: near every edge coordinate of every box, in both dimensions
Wrap(x) == IF x > 180000 THEN x - 360000 ELSE IF x < 0 - 180000 THEN x + 360000 ELSE x
LonsOf(bx) == { Wrap(bx.l - o) : o \in Offs } \cup { Wrap(bx.r + o) : o \in Offs }
LatsOf(bx) == { bx.b - o : o \in Offs } \cup { bx.t + o : o \in Offs } \cup { (bx.b + bx.t) \div 2 }
Docs == UNION { { [lon |-> x, lat |-> y] : x \in LonsOf(bx) \cup {Wrap((bx.l + 500))}, y \in LatsOf(bx) } : bx \in Boxes }

LonIn(bx, x) == IF bx.l <= bx.r THEN bx.l <= x /\ x <= bx.r ELSE x >= bx.l \/ x <= bx.r
Inside(bx, d) == LonIn(bx, d.lon) /\ bx.b <= d.lat /\ d.lat <= bx.t

VARIABLES box, must, mustnot
vars == <<box, must, mustnot>>
Init == /\ box \in Boxes
        /\ must = { d \in Docs : Inside(box, d) }
        /\ mustnot = { d \in Docs : ~Inside(box, d) }
Next == UNCHANGED vars
Spec == Init /\ [][Next]_vars

Disjoint == must \cap mustnot = {}
BothKinds == must # {} /\ mustnot # {}
\* a box across the date line has documents of both signs of longitude inside
CrossingSeen == (box.l > box.r) => (\E d \in must : d.lon > 0) /\ (\E d \in must : d.lon < 0)
=============================================================================
