\* C10/C09 thorough: Merge + Fixup lemma over every 2-split of the matches, 3 values
SPECIFICATION EnumSpec
CONSTANTS
  NDocs = 3
  Vals = {1, 2, 3}
  Sizes = {0, 1, 2, 3, 5}
  Pages <- PagesOne
INVARIANTS MergeLemma
CHECK_DEADLOCK FALSE
