------------------------------- MODULE GeoBits -------------------------------
(***************************************************************************)
(* Morton interleaving on bit sequences (most significant bit first),      *)
(* independent of the word width: used by GeoGrid.tla on the small lattice *)
(* and by spec/trace/JudgeGeo.tla on the real 32+32 -> 64 bit codes.       *)
(* numeric.Interleave(lon, lat): lat bits on the odd, lon bits on the even *)
(* positions, i.e. from the top: lat[1], lon[1], lat[2], lon[2], ...        *)
(***************************************************************************)
EXTENDS Naturals, Sequences

InterleaveBits(xb, yb) ==
  [i \in 1..(2 * Len(xb)) |-> IF i % 2 = 1 THEN yb[(i + 1) \div 2] ELSE xb[i \div 2]]
EvenBits(hb) == [i \in 1..(Len(hb) \div 2) |-> hb[2 * i]]        \* numeric.Deinterleave(h)
OddBits(hb)  == [i \in 1..(Len(hb) \div 2) |-> hb[2 * i - 1]]    \* numeric.Deinterleave(h >> 1)

RECURSIVE BitsOf(_, _)            \* the n low bits of v, most significant first
BitsOf(v, n) == IF n = 0 THEN <<>> ELSE BitsOf(v \div 2, n - 1) \o <<v % 2>>
RECURSIVE ValOf(_, _)             \* value of the first n bits of b (n <= 30)
ValOf(b, n) == IF n = 0 THEN 0 ELSE 2 * ValOf(b, n - 1) + b[n]
=============================================================================
