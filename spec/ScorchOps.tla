----------------------------- MODULE ScorchOps ------------------------------
(***************************************************************************)
(* Pure operators of the scorch model, shared by the design specification  *)
(* ScorchDisk.tla and by the trace specifications under spec/trace (one    *)
(* source of truth for the transition FUNCTIONS: what an introduction, a   *)
(* merge introduction, a replay and a recovery compute).                   *)
(* Documents are pairs <<id, b>>; snapshots are records                    *)
(* [ep, segs : Seq([sid, del, f]), k].                                     *)
(***************************************************************************)
EXTENDS Naturals, Sequences, FiniteSets

(* ---- operators shared with the trace specification ---- *)
NoSnap == [ep |-> 0, segs |-> <<>>, k |-> 0]
Range(s) == { s[i] : i \in DOMAIN s }
Sids(snap) == { e.sid : e \in Range(snap.segs) }
FileSegs(snap) == { e \in Range(snap.segs) : e.f }
Files(snap) == { e.sid : e \in FileSegs(snap) }
MemSids(snap) == { e.sid : e \in { x \in Range(snap.segs) : ~x.f } }
EntryOf(snap, s) == CHOOSE e \in Range(snap.segs) : e.sid = s
DocId(d) == d[1]
Touched(bt) == bt.puts \cup bt.dels

\* live documents of a snapshot given the physical contents sd
LiveDocsOf(sd, snap) == UNION { sd[e.sid] \ e.del : e \in Range(snap.segs) }

\* Last-write-wins replay of the first k entries of an introduction order io
\* over batches bt: the documents <<id, b>> that are live.
ReplayOf(bt, io, k) ==
  UNION { { <<id, io[j]>> : id \in { x \in bt[io[j]].puts : \A l \in (j+1)..k : x \notin Touched(bt[io[l]]) } }
          : j \in 1..k }

\* documents of segment contents c that batch contents bt obsoletes
Obsoleted(c, bt) == { d \in c : DocId(d) \in Touched(bt) }

\* introduceSegment: apply obsoletes (optimistic map obs for the segment ids it
\* knows, recomputed for the others), drop segments with no live docs, append
\* the new segment if the batch has data.
IntroSegmentResult(sd, r, bt, newSid, obs) ==
  LET upd == [ i \in 1..Len(r.segs) |->
                 LET e == r.segs[i]
                     delta == IF e.sid \in DOMAIN obs THEN obs[e.sid] ELSE Obsoleted(sd[e.sid], bt)
                 IN [e EXCEPT !.del = @ \cup delta] ]
      kept == SelectSeq(upd, LAMBDA e : e.del # sd[e.sid])
      droppedFiles == { e.sid : e \in { y \in Range(upd) : y.del = sd[y.sid] /\ y.f } }
  IN [ segs |-> IF bt.puts = {} THEN kept ELSE Append(kept, [sid |-> newSid, del |-> {}, f |-> FALSE]),
       dropped |-> droppedFiles ]

\* documents a merge of the segments `ins` of snapshot `snap` copies
MergedDocsOf(sd, snap, ins) == UNION { sd[s] \ EntryOf(snap, s).del : s \in ins }

\* introduceMerge for ONE task: inputs `ins` (taken from snapshot `snap`), new
\* segment newSid whose contents are newDocs.  Deletions that hit an input
\* since the merge started are mapped onto the new segment; inputs that
\* vanished from the root meanwhile count as entirely deleted.
IntroMergeResult(sd, r, snap, ins, newSid, newDocs, newIsFile) ==
  LET curDel(s) == IF s \in Sids(r) THEN EntryOf(r, s).del ELSE sd[s]
      newdel == { d \in newDocs : \E s \in ins : d \in sd[s] /\ d \in curDel(s) }
      stay == SelectSeq(r.segs, LAMBDA e : e.sid \notin ins /\ e.del # sd[e.sid])
      droppedFiles == { e.sid : e \in { y \in Range(r.segs) : y.sid \notin ins /\ y.del = sd[y.sid] /\ y.f } }
      skipped == ~(Cardinality(newDocs) > Cardinality(newdel))
  IN [ segs |-> IF skipped THEN stay ELSE Append(stay, [sid |-> newSid, del |-> newdel, f |-> newIsFile]),
       skipped |-> skipped, dropped |-> droppedFiles, newdel |-> newdel ]

\* introduceMerge for SEVERAL tasks in one root swap (the code introduces all
\* tasks of a merge plan / all in-memory flush batches together).  tasks is a
\* sequence of [ins, new, docs]; skipped merged segments are not appended.
IntroMergeMulti(sd, r, tasks, newIsFile) ==
  LET allIns == UNION { tasks[t].ins : t \in DOMAIN tasks }
      curDel(s) == IF s \in Sids(r) THEN EntryOf(r, s).del ELSE sd[s]
      newdel(t) == { d \in tasks[t].docs : \E s \in tasks[t].ins : d \in sd[s] /\ d \in curDel(s) }
      skip(t) == ~(Cardinality(tasks[t].docs) > Cardinality(newdel(t)))
      stay == SelectSeq(r.segs, LAMBDA e : e.sid \notin allIns /\ e.del # sd[e.sid])
      news == [ t \in DOMAIN tasks |-> [sid |-> tasks[t].new, del |-> newdel(t), f |-> newIsFile] ]
      kept == SelectSeq([ t \in DOMAIN tasks |-> [e |-> news[t], sk |-> skip(t)] ], LAMBDA x : ~x.sk)
  IN [ segs |-> stay \o [ i \in DOMAIN kept |-> kept[i].e ],
       skipped |-> [ t \in DOMAIN tasks |-> skip(t) ] ]

\* introducePersist: segments written by the persister become file segments
IntroPersistResult(r, persisted) ==
  [ i \in 1..Len(r.segs) |-> IF r.segs[i].sid \in persisted THEN [r.segs[i] EXCEPT !.f = TRUE] ELSE r.segs[i] ]

\* ---- recovery as a state function ----
BoltEpsOf(bl) == { e \in DOMAIN bl : bl[e] # NoSnap }
NamedOf(bl) == UNION { Files(bl[e]) : e \in BoltEpsOf(bl) }
\* files that are certainly intact after a kill: those a committed snapshot names
\* (written and fsynced before the commit); anything else may be garbage.
RecEpOf(bl, dk) == LET ok == { e \in BoltEpsOf(bl) : Files(bl[e]) \subseteq (dk \cap NamedOf(bl)) } IN
                   IF ok = {} THEN 0 ELSE CHOOSE e \in ok : \A x \in ok : x <= e
NewestOf(bl, n) == { e \in BoltEpsOf(bl) : Cardinality({ x \in BoltEpsOf(bl) : x > e }) < n }

=============================================================================
