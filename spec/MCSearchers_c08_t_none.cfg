\* generated with the builder script of C02/C08; families: MCSearchers.tla
SPECIFICATION Spec
CONSTANTS
  SegSizes <- Segs22
  Deleted = {1}
  OneHitEnc = TRUE
  ScoreNone = TRUE
  HeapTakeover = 10
  MaxCalls = 3
  NTerms = 2
  Family = "flat2"
  DropK1 = TRUE
  Queries <- MCQueries
  FixEmptySnapshot = FALSE
  FixBoolAdvance = FALSE
  FixShouldMin = FALSE
  FirstAdvanceOK <- FirstAdvNoQ2
VIEW View
INVARIANT ResultOK
INVARIANT NoPanic
INVARIANT EnumIsHits
CHECK_DEADLOCK FALSE
