\* 8x8 lattice, terms at shifts 0,3, subdivision down to single points (model only)
CONSTANTS
  NB = 3
  Step = 3
  MaxShift = 0
SPECIFICATION Spec
CHECK_DEADLOCK FALSE
INVARIANTS BoxExact PolyExact CoverSound DistanceClasses
