\* C10: 4 documents, 2 values (quick) -- single/multi-valued/missing, every match subset
SPECIFICATION Spec
CONSTANTS
  NDocs = 4
  Vals = {1, 2}
  Sizes = {0, 1, 2, 3, 4, 5}
  Pages <- PagesEvict
INVARIANTS TypeOK Refines TallyBeforeStore FacetsAreTheMeaning CountsAreDocCounts Ordered Balanced Accounted PageOK
CHECK_DEADLOCK FALSE
