\* generated by the builder of C02/C08; see MCSearchers.tla for the families
SPECIFICATION Spec
CONSTANTS
  SegSizes <- Segs22
  Deleted = {1}
  OneHitEnc = TRUE
  ScoreNone = TRUE
  HeapTakeover = 10
  MaxCalls = 0
  NTerms = 3
  Queries <- QDeepNoK1
  FirstAdvanceOK <- FirstAdvNoQ2
VIEW View
INVARIANT EnumIsHits
INVARIANT NoneEqualsScored
CHECK_DEADLOCK FALSE
