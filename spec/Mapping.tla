------------------------------ MODULE Mapping ------------------------------
(***************************************************************************)
(* C16 -- "A mapping survives its JSON form".                              *)
(*                                                                         *)
(* Transcription of                                                        *)
(*   mapping/index.go    MapDocument, determineType, mappingForType,       *)
(*                       Validate, UnmarshalJSON (defaults + key switch)   *)
(*   mapping/document.go walkDocument, processProperty,                    *)
(*                       documentMappingForPathElements,                   *)
(*                       defaultAnalyzerName, UnmarshalJSON                *)
(*   mapping/field.go    processString/Float64/Boolean/Time, Options,      *)
(*                       analyzerForField, getFieldName, new*Dynamic       *)
(* for JSON-like abstract documents.                                       *)
(*                                                                         *)
(* Two descriptions of the document walk are given and TLC checks that     *)
(* they agree on every enumerated case:                                    *)
(*   MapDocument  -- the ALGORITHM as written in bleve: every property is  *)
(*                   re-resolved from the root of the type mapping by its  *)
(*                   full path (documentMappingForPathElements), the       *)
(*                   default analyzer is re-derived by walking the path;   *)
(*   MapDocSpec   -- the MEANING: a compositional descent that carries the *)
(*                   sub-mapping, the closest mapping and the inherited    *)
(*                   analyzer along.                                       *)
(* The JSON form is modelled too (ToJSON / FromJSON with the omitempty     *)
(* rules of the struct tags and the defaults of the hand written           *)
(* UnmarshalJSON methods); RoundTrip == FromJSON o ToJSON and TLC checks   *)
(* RoundTrip(m) = m and MapDocument(RoundTrip(m), d) = MapDocument(m, d).  *)
(* The harness replays every enumerated case into the real code.           *)
(***************************************************************************)
EXTENDS Naturals, Sequences, FiniteSets, TLC

\* ------------------------------------------------------------------ data

\* Document values (JSON-like).  k is the kind tag.
\*   [k |-> "str",  s |-> STRING]      [k |-> "num", n |-> Int]
\*   [k |-> "bool", b |-> BOOLEAN]     [k |-> "null"]
\*   [k |-> "arr",  a |-> Seq(Value)]
\*   [k |-> "map",  m |-> Seq([key, val])]             Go map[string]interface{}
\*   [k |-> "struct", m |-> Seq([key, alt, go, val])]  Go struct, field `go`
\*                      tagged `json:"key" alt:"alt"`  (top level only)
VStr(s)  == [k |-> "str", s |-> s]
VNum(n)  == [k |-> "num", n |-> n]
VBool(b) == [k |-> "bool", b |-> b]
VNull    == [k |-> "null"]
VArr(a)  == [k |-> "arr", a |-> a]
VMap(m)  == [k |-> "map", m |-> m]
E(key, val) == [key |-> key, val |-> val]

\* Concrete strings used in documents and which date parser accepts them.
\* (The harness checks this table against the real parsers before it starts.)
SText  == "quick Fox"
SIso   == "2001-02-03T04:05:06Z"
SSlash == "2001/02/03"
ParserOptional == "dateTimeOptional"     \* bleve's default parser (optional.Name)
ParserCustom   == "cdate"                \* defined in the mapping's CustomAnalysis
Parses(parser, s) ==
  \/ parser = ParserOptional /\ s = SIso
  \/ parser = ParserCustom   /\ s = SSlash

BuiltinAnalyzers   == {"standard", "simple", "keyword"}
BuiltinDateParsers == {ParserOptional}
KnownFieldTypes    == {"text", "number", "boolean", "datetime"}
ScoringModels      == {"", "tf-idf", "bm25"}

\* FieldMapping (mapping/field.go).  Bools are the exported struct fields.
FM(type, name, analyzer, store, index, tv, inAll, dv, sfn, dateFormat) ==
  [type |-> type, name |-> name, analyzer |-> analyzer, store |-> store,
   index |-> index, tv |-> tv, inAll |-> inAll, dv |-> dv, sfn |-> sfn,
   dateFormat |-> dateFormat]

\* DocumentMapping (mapping/document.go).
DM(enabled, dynamic, nested, defAnalyzer, tagKey, fields, props) ==
  [enabled |-> enabled, dynamic |-> dynamic, nested |-> nested,
   defAnalyzer |-> defAnalyzer, tagKey |-> tagKey, fields |-> fields,
   props |-> props]
P(name, dm) == [name |-> name, dm |-> dm]

\* IndexMappingImpl (mapping/index.go).  customAnalyzers / customDateParsers
\* are the names defined under "analysis" (the model fixes only names).
IM(types, def, typeField, defType, defAnalyzer, defDateParser, defField,
   scoring, storeDyn, indexDyn, dvDyn, customAnalyzers, customDateParsers) ==
  [types |-> types, def |-> def, typeField |-> typeField, defType |-> defType,
   defAnalyzer |-> defAnalyzer, defDateParser |-> defDateParser,
   defField |-> defField, scoring |-> scoring, storeDyn |-> storeDyn,
   indexDyn |-> indexDyn, dvDyn |-> dvDyn, customAnalyzers |-> customAnalyzers,
   customDateParsers |-> customDateParsers]

Analyzers(im)   == BuiltinAnalyzers \cup im.customAnalyzers
DateParsers(im) == BuiltinDateParsers \cup im.customDateParsers

\* ------------------------------------------------------------- helpers

RECURSIVE JoinFrom(_, _)
JoinFrom(path, i) ==
  IF i > Len(path) THEN ""
  ELSE IF i = Len(path) THEN path[i]
  ELSE path[i] \o "." \o JoinFrom(path, i + 1)
Join(path) == JoinFrom(path, 1)               \* encodePath

FindProp(dm, name) ==                          \* index into dm.props, 0 if none
  LET S == {i \in 1..Len(dm.props) : dm.props[i].name = name}
  IN IF S = {} THEN 0 ELSE CHOOSE i \in S : \A j \in S : i <= j

\* documentMappingForPathElements: (exact, closest).  has = "exact # nil".
RECURSIVE ResolveFrom(_, _, _)
ResolveFrom(cur, path, i) ==
  IF i > Len(path) THEN [has |-> TRUE, exact |-> cur, closest |-> cur]
  ELSE LET j == FindProp(cur, path[i])
       IN IF j = 0 THEN [has |-> FALSE, exact |-> cur, closest |-> cur]
          ELSE ResolveFrom(cur.props[j].dm, path, i + 1)
Resolve(root, path) ==
  IF path = <<>> THEN ResolveFrom(root, <<"">>, 1) ELSE ResolveFrom(root, path, 1)

\* DocumentMapping.defaultAnalyzerName(path)
RECURSIVE DefAnFrom(_, _, _, _)
DefAnFrom(cur, path, i, rv) ==
  IF i > Len(path) THEN rv
  ELSE LET j == FindProp(cur, path[i])
       IN IF j = 0 THEN rv
          ELSE LET sub == cur.props[j].dm
               IN DefAnFrom(sub, path, i + 1,
                            IF sub.defAnalyzer # "" THEN sub.defAnalyzer ELSE rv)
DefaultAnalyzerName(root, path) == DefAnFrom(root, path, 1, root.defAnalyzer)

\* FieldMapping.analyzerForField
AnalyzerFor(im, root, fm, path) ==
  IF fm.analyzer # "" THEN fm.analyzer
  ELSE LET d == DefaultAnalyzerName(root, path)
       IN IF d # "" THEN d ELSE im.defAnalyzer

\* getFieldName
FieldName(path, fm) ==
  IF fm.name = "" THEN Join(path)
  ELSE IF Len(path) > 1 THEN Join(SubSeq(path, 1, Len(path) - 1)) \o "." \o fm.name
  ELSE fm.name

Opts(fm) == [store |-> fm.store, index |-> fm.index, tv |-> fm.tv,
             dv |-> fm.dv, sfn |-> fm.sfn]

\* new{Text,Numeric,DateTime,Boolean}FieldMappingDynamic
DynFM(im, type) ==
  FM(type, "", "", im.storeDyn, im.indexDyn, type = "text", TRUE, im.dvDyn, FALSE, "")

\* accumulator of a walk: fields in walk order, names excluded from _all,
\* nested documents
AccEmpty == [f |-> <<>>, x |-> {}, n |-> <<>>]
AccCat(a, b) == [f |-> a.f \o b.f, x |-> a.x \cup b.x, n |-> a.n \o b.n]

OutField(name, type, fm, analyzer, parser, pos, v) ==
  [name |-> name, type |-> type, opts |-> Opts(fm), analyzer |-> analyzer,
   parser |-> parser, pos |-> pos, val |-> v]

Emit(name, type, fm, analyzer, parser, pos, v) ==
  [f |-> <<OutField(name, type, fm, analyzer, parser, pos, v)>>,
   x |-> IF fm.inAll THEN {} ELSE {name}, n |-> <<>>]

\* FieldMapping.processString / processTime
ProcessString(im, root, fm, v, path, idx) ==
  LET name == FieldName(path, fm) IN
  CASE fm.type = "text" ->
         Emit(name, "text", fm, AnalyzerFor(im, root, fm, path), "", idx, v)
    [] fm.type = "datetime" ->
         LET parser == IF fm.dateFormat # "" THEN fm.dateFormat ELSE im.defDateParser
         IN IF parser \in DateParsers(im) /\ Parses(parser, v.s)
            THEN Emit(name, "datetime", fm, "", parser, idx, v)
            ELSE AccEmpty
    [] OTHER -> AccEmpty

ProcessScalar(fm, want, v, path, idx) ==       \* processFloat64 / processBoolean
  IF fm.type = want THEN Emit(FieldName(path, fm), want, fm, "", "", idx, v)
  ELSE AccEmpty

\* ------------------------------------------------ the ALGORITHM (bleve's)

KeyOf(v, e, tagKey) ==
  IF v.k = "map" THEN e.key
  ELSE IF tagKey \in {"", "json"} THEN e.key       \* struct: tag under tagKey,
  ELSE IF tagKey = "alt" THEN e.alt                \* else the Go field name
  ELSE e.go

RECURSIVE Walk(_, _, _, _, _), WalkEntries(_, _, _, _, _, _),
          WalkElems(_, _, _, _, _, _, _), Process(_, _, _, _, _),
          ExplicitFields(_, _, _, _, _, _, _)

\* for _, fieldMapping := range subDocMapping.Fields { ... }
ExplicitFields(im, root, fields, v, path, idx, i) ==
  IF i > Len(fields) THEN AccEmpty
  ELSE LET fm == fields[i]
           one == CASE v.k = "str"  -> ProcessString(im, root, fm, v, path, idx)
                    [] v.k = "num"  -> ProcessScalar(fm, "number", v, path, idx)
                    [] v.k = "bool" -> ProcessScalar(fm, "boolean", v, path, idx)
       IN AccCat(one, ExplicitFields(im, root, fields, v, path, idx, i + 1))

\* DocumentMapping.processProperty
Process(im, root, v, path, idx) ==
  LET r == Resolve(root, path) IN
  IF r.has /\ ~r.exact.enabled THEN AccEmpty
  ELSE CASE v.k = "null" -> AccEmpty
         [] v.k \in {"str", "num", "bool"} ->
              IF r.has THEN ExplicitFields(im, root, r.exact.fields, v, path, idx, 1)
              ELSE IF r.closest.dynamic
              THEN CASE v.k = "str" ->
                          \* dynamic strings: try the default date parser first
                          IF im.defDateParser \notin DateParsers(im) THEN AccEmpty
                          ELSE IF Parses(im.defDateParser, v.s)
                          THEN Emit(Join(path), "datetime", DynFM(im, "datetime"), "",
                                    im.defDateParser, idx, v)
                          ELSE LET fm == DynFM(im, "text")
                               IN Emit(Join(path), "text", fm,
                                       AnalyzerFor(im, root, fm, path), "", idx, v)
                     [] v.k = "num"  -> Emit(Join(path), "number", DynFM(im, "number"), "", "", idx, v)
                     [] v.k = "bool" -> Emit(Join(path), "boolean", DynFM(im, "boolean"), "", "", idx, v)
              ELSE AccEmpty
         [] OTHER -> Walk(im, root, v, path, idx)   \* map / slice: always walked
                                                    \* for the field types modelled

\* DocumentMapping.walkDocument
Walk(im, root, v, path, idx) ==
  CASE v.k \in {"map", "struct"} -> WalkEntries(im, root, v, path, idx, 1)
    [] v.k = "arr" ->
         LET r == Resolve(root, path)
         IN WalkElems(im, root, v.a, path, idx, 1, r.has /\ r.exact.nested)
    [] OTHER -> Process(im, root, v, path, idx)

WalkEntries(im, root, v, path, idx, i) ==
  IF i > Len(v.m) THEN AccEmpty
  ELSE AccCat(Process(im, root, v.m[i].val,
                      Append(path, KeyOf(v, v.m[i], root.tagKey)), idx),
              WalkEntries(im, root, v, path, idx, i + 1))

WalkElems(im, root, a, path, idx, i, allowNested) ==
  IF i > Len(a) THEN AccEmpty
  ELSE LET e == a[i]
           sub == Process(im, root, e, path, Append(idx, i - 1))
           one == IF allowNested /\ e.k = "map"
                  THEN \* a nested document "<id>_$<path>_$<i>" with its own walk context
                       [f |-> <<>>, x |-> {},
                        n |-> <<[path |-> Join(path), i |-> i - 1,
                                 fields |-> sub.f, nested |-> sub.n]>>]
                  ELSE sub
       IN AccCat(one, WalkElems(im, root, a, path, idx, i + 1, allowNested))

\* lookupPropertyPath(data, TypeField) / mustString   (type field = one key)
RECURSIVE LookupKey(_, _, _)
LookupKey(v, key, i) ==
  IF i > Len(v.m) THEN [found |-> FALSE, val |-> VNull]
  ELSE IF (IF v.k = "struct" THEN v.m[i].go ELSE v.m[i].key) = key
  THEN [found |-> TRUE, val |-> v.m[i].val]
  ELSE LookupKey(v, key, i + 1)

DetermineType(im, d) ==
  LET l == IF d.k \in {"map", "struct"} THEN LookupKey(d, im.typeField, 1)
           ELSE [found |-> FALSE, val |-> VNull]
  IN IF l.found /\ l.val.k = "str" THEN l.val.s ELSE im.defType

MappingForType(im, t) ==
  LET S == {i \in 1..Len(im.types) : im.types[i].name = t}
  IN IF S = {} THEN im.def ELSE im.types[CHOOSE i \in S : TRUE].dm

NotIndexed == [indexed |-> FALSE, fields |-> <<>>, hasAll |-> FALSE,
               excl |-> {}, nested |-> <<>>]

Finish(root, acc) ==
  LET a == Resolve(root, <<"_all">>)           \* documentMappingForPath("_all")
  IN [indexed |-> TRUE, fields |-> acc.f,
      hasAll |-> (~a.has \/ a.exact.enabled),
      excl |-> acc.x \cup {"_id"}, nested |-> acc.n]

\* IndexMappingImpl.MapDocument
MapDocument(im, d) ==
  LET root == MappingForType(im, DetermineType(im, d))
  IN IF ~root.enabled THEN NotIndexed
     ELSE Finish(root, Walk(im, root, d, <<>>, <<>>))

\* ---------------------------------------------------- the MEANING (spec)
\* ctx = [has, dm, closest, an]: the sub-mapping at the current position (if
\* any), the deepest mapped ancestor, the nearest non-empty default_analyzer
\* on the mapped part of the path.

RECURSIVE SpecVal(_, _, _, _, _, _), SpecEntries(_, _, _, _, _, _, _),
          SpecElems(_, _, _, _, _, _, _)

CtxDown(ctx, key) ==
  IF ~ctx.has THEN ctx
  ELSE LET j == FindProp(ctx.dm, key)
       IN IF j = 0 THEN [ctx EXCEPT !.has = FALSE]
          ELSE LET sub == ctx.dm.props[j].dm
               IN [has |-> TRUE, dm |-> sub, closest |-> sub,
                   an |-> IF sub.defAnalyzer # "" THEN sub.defAnalyzer ELSE ctx.an]

SpecAnalyzer(im, ctx, fm) ==
  IF fm.analyzer # "" THEN fm.analyzer
  ELSE IF ctx.an # "" THEN ctx.an ELSE im.defAnalyzer

SpecLeaf(im, ctx, fm, v, path, idx) ==
  LET name == FieldName(path, fm)
      compatible ==
        \/ v.k = "str" /\ fm.type = "text"
        \/ v.k = "num" /\ fm.type = "number"
        \/ v.k = "bool" /\ fm.type = "boolean"
        \/ v.k = "str" /\ fm.type = "datetime"
           /\ LET p == IF fm.dateFormat # "" THEN fm.dateFormat ELSE im.defDateParser
              IN p \in DateParsers(im) /\ Parses(p, v.s)
  IN IF ~compatible THEN AccEmpty
     ELSE Emit(name, fm.type, fm,
               IF fm.type = "text" THEN SpecAnalyzer(im, ctx, fm) ELSE "",
               IF fm.type = "datetime"
               THEN (IF fm.dateFormat # "" THEN fm.dateFormat ELSE im.defDateParser)
               ELSE "",
               idx, v)

RECURSIVE SpecFields(_, _, _, _, _, _, _)
SpecFields(im, ctx, fields, v, path, idx, i) ==
  IF i > Len(fields) THEN AccEmpty
  ELSE AccCat(SpecLeaf(im, ctx, fields[i], v, path, idx),
              SpecFields(im, ctx, fields, v, path, idx, i + 1))

DynType(im, v) ==
  CASE v.k = "num" -> "number"
    [] v.k = "bool" -> "boolean"
    [] v.k = "str" -> IF Parses(im.defDateParser, v.s) THEN "datetime" ELSE "text"

SpecVal(im, ctx, v, path, idx, tagKey) ==
  IF ctx.has /\ ~ctx.dm.enabled THEN AccEmpty
  ELSE CASE v.k = "null" -> AccEmpty
    [] v.k \in {"str", "num", "bool"} ->
         IF ctx.has THEN SpecFields(im, ctx, ctx.dm.fields, v, path, idx, 1)
         ELSE IF ctx.closest.dynamic
                 /\ (v.k # "str" \/ im.defDateParser \in DateParsers(im))
         THEN SpecLeaf(im, ctx, DynFM(im, DynType(im, v)), v, path, idx)
         ELSE AccEmpty
    [] v.k \in {"map", "struct"} -> SpecEntries(im, ctx, v, path, idx, 1, tagKey)
    [] v.k = "arr" -> SpecElems(im, ctx, v.a, path, idx, 1, tagKey)

SpecEntries(im, ctx, v, path, idx, i, tagKey) ==
  IF i > Len(v.m) THEN AccEmpty
  ELSE LET key == KeyOf(v, v.m[i], tagKey)
       IN AccCat(SpecVal(im, CtxDown(ctx, key), v.m[i].val, Append(path, key), idx, tagKey),
                 SpecEntries(im, ctx, v, path, idx, i + 1, tagKey))

SpecElems(im, ctx, a, path, idx, i, tagKey) ==
  IF i > Len(a) THEN AccEmpty
  ELSE LET sub == SpecVal(im, ctx, a[i], path, Append(idx, i - 1), tagKey)
           one == IF ctx.has /\ ctx.dm.nested /\ a[i].k = "map"
                  THEN [f |-> <<>>, x |-> {},
                        n |-> <<[path |-> Join(path), i |-> i - 1,
                                 fields |-> sub.f, nested |-> sub.n]>>]
                  ELSE sub
       IN AccCat(one, SpecElems(im, ctx, a, path, idx, i + 1, tagKey))

MapDocSpec(im, d) ==
  LET root == MappingForType(im, DetermineType(im, d))
      ctx  == [has |-> TRUE, dm |-> root, closest |-> root, an |-> root.defAnalyzer]
  IN IF ~root.enabled THEN NotIndexed
     ELSE IF d.k \notin {"map", "struct"} THEN Finish(root, AccEmpty)
     ELSE Finish(root, SpecEntries(im, ctx, d, <<>>, <<>>, 1, root.tagKey))

\* -------------------------------------------------------------- Validate

RECURSIVE ValidDM(_, _)
ValidDM(im, dm) ==
  /\ dm.defAnalyzer = "" \/ dm.defAnalyzer \in Analyzers(im)
  /\ \A i \in 1..Len(dm.props) : ValidDM(im, dm.props[i].dm)
  /\ \A i \in 1..Len(dm.fields) :
       LET fm == dm.fields[i] IN
       /\ fm.analyzer = "" \/ fm.analyzer \in Analyzers(im)
       /\ fm.dateFormat = "" \/ fm.dateFormat \in DateParsers(im)
       /\ fm.type \in KnownFieldTypes

Valid(im) ==
  /\ im.defAnalyzer \in Analyzers(im)
  /\ im.defDateParser \in DateParsers(im)
  /\ ~im.def.nested
  /\ ValidDM(im, im.def)
  /\ \A i \in 1..Len(im.types) : ~im.types[i].dm.nested /\ ValidDM(im, im.types[i].dm)
  /\ im.scoring \in ScoringModels

\* ------------------------------------------------------------ JSON form
\* A JSON object is a function from the keys that are PRESENT to values.
\* ToJSON follows the struct tags (omitempty drops "" / FALSE / empty lists),
\* FromJSON follows the hand written UnmarshalJSON: defaults first, then one
\* assignment per present key.

Obj1(k, v) == k :> v
OptS(k, s) == IF s = "" THEN <<>> ELSE k :> s        \* string,omitempty
OptB(k, b) == IF b THEN k :> TRUE ELSE <<>>          \* bool,omitempty
Get(j, k, dflt) == IF k \in DOMAIN j THEN j[k] ELSE dflt

FieldToJSON(fm) ==
  OptS("name", fm.name) @@ OptS("type", fm.type) @@ OptS("analyzer", fm.analyzer)
  @@ OptB("store", fm.store) @@ OptB("index", fm.index)
  @@ OptB("include_term_vectors", fm.tv) @@ OptB("include_in_all", fm.inAll)
  @@ OptS("date_format", fm.dateFormat) @@ OptB("docvalues", fm.dv)
  @@ OptB("skip_freq_norm", fm.sfn)

FieldFromJSON(j) ==                    \* zero value, then the key switch
  FM(Get(j, "type", ""), Get(j, "name", ""), Get(j, "analyzer", ""),
     Get(j, "store", FALSE), Get(j, "index", FALSE),
     Get(j, "include_term_vectors", FALSE), Get(j, "include_in_all", FALSE),
     Get(j, "docvalues", FALSE), Get(j, "skip_freq_norm", FALSE),
     Get(j, "date_format", ""))

RECURSIVE DocToJSON(_), DocFromJSON(_)
DocToJSON(dm) ==
  Obj1("enabled", dm.enabled) @@ Obj1("dynamic", dm.dynamic)
  @@ (IF dm.props = <<>> THEN <<>>
      ELSE Obj1("properties", [i \in 1..Len(dm.props) |->
                  [name |-> dm.props[i].name, dm |-> DocToJSON(dm.props[i].dm)]]))
  @@ (IF dm.fields = <<>> THEN <<>>
      ELSE Obj1("fields", [i \in 1..Len(dm.fields) |-> FieldToJSON(dm.fields[i])]))
  @@ OptB("nested", dm.nested) @@ OptS("default_analyzer", dm.defAnalyzer)
  @@ OptS("struct_tag_key", dm.tagKey)

DocFromJSON(j) ==                      \* Enabled = Dynamic = true, then keys
  DM(Get(j, "enabled", TRUE), Get(j, "dynamic", TRUE), Get(j, "nested", FALSE),
     Get(j, "default_analyzer", ""), Get(j, "struct_tag_key", ""),
     LET fs == Get(j, "fields", <<>>) IN [i \in 1..Len(fs) |-> FieldFromJSON(fs[i])],
     LET ps == Get(j, "properties", <<>>)
     IN [i \in 1..Len(ps) |-> [name |-> ps[i].name, dm |-> DocFromJSON(ps[i].dm)]])

IndexToJSON(im) ==
  (IF im.types = <<>> THEN <<>>
   ELSE Obj1("types", [i \in 1..Len(im.types) |->
               [name |-> im.types[i].name, dm |-> DocToJSON(im.types[i].dm)]]))
  @@ Obj1("default_mapping", DocToJSON(im.def))
  @@ Obj1("type_field", im.typeField) @@ Obj1("default_type", im.defType)
  @@ Obj1("default_analyzer", im.defAnalyzer)
  @@ Obj1("default_datetime_parser", im.defDateParser)
  @@ OptS("scoring_model", im.scoring) @@ Obj1("default_field", im.defField)
  @@ Obj1("store_dynamic", im.storeDyn) @@ Obj1("index_dynamic", im.indexDyn)
  @@ Obj1("docvalues_dynamic", im.dvDyn)
  @@ (IF im.customAnalyzers = {} /\ im.customDateParsers = {} THEN <<>>
      ELSE Obj1("analysis", [analyzers |-> im.customAnalyzers,
                             date_time_parsers |-> im.customDateParsers]))

IndexFromJSON(j) ==                    \* the defaults of IndexMappingImpl.UnmarshalJSON
  LET an == Get(j, "analysis", [analyzers |-> {}, date_time_parsers |-> {}])
      ts == Get(j, "types", <<>>)
  IN IM([i \in 1..Len(ts) |-> [name |-> ts[i].name, dm |-> DocFromJSON(ts[i].dm)]],
        IF "default_mapping" \in DOMAIN j THEN DocFromJSON(j["default_mapping"])
        ELSE DM(TRUE, TRUE, FALSE, "", "", <<>>, <<>>),
        Get(j, "type_field", "_type"), Get(j, "default_type", "_default"),
        Get(j, "default_analyzer", "standard"),
        Get(j, "default_datetime_parser", ParserOptional),
        Get(j, "default_field", "_all"), Get(j, "scoring_model", ""),
        Get(j, "store_dynamic", TRUE), Get(j, "index_dynamic", TRUE),
        Get(j, "docvalues_dynamic", TRUE), an.analyzers, an.date_time_parsers)

RoundTrip(im) == IndexFromJSON(IndexToJSON(im))

=============================================================================
