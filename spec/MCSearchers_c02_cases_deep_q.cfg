\* generated with the builder script of C02/C08; families: MCSearchers.tla
SPECIFICATION Spec
CONSTANTS
  SegSizes <- Segs21
  Deleted = {}
  OneHitEnc = TRUE
  ScoreNone = TRUE
  HeapTakeover = 10
  MaxCalls = 0
  NTerms = 3
  Family = "deepq"
  DropK1 = TRUE
  Queries <- MCQueries
  FixEmptySnapshot = FALSE
  FixBoolAdvance = FALSE
  FixShouldMin = FALSE
  FirstAdvanceOK <- FirstAdvNoQ2
VIEW View
INVARIANT EnumIsHits
CHECK_DEADLOCK FALSE
