------------------------------ MODULE Alias ------------------------------
(* C09 -- Searching an alias over shards equals searching one index with all documents.

   State machine of ONE search through the root alias, one action per step of
   index_alias_impl.go MultiSearch:

     Start         SearchInContext: single-member alias => forward the request unchanged
                   (ShortCircuit); else SearchBefore rewrite (sort reversed, search-after) and
     ChildRequest  copySearchRequest: Size = Size+From, From = 0, sort/cursor kept
     ChildSearch(i) member i answers (a leaf index, or a nested alias evaluated with the
                   same operators, AliasOps!Search); results are merged in ARRIVAL order
                   (any order): hits concatenated, totals added, facets merged
     MergeHits     hitsInCurrentPage: re-sort the concatenation with the request's sort
     PageSlice     skip From, trim to Size
     FixupFacets   FacetResults.Fixup per requested facet
     ReverseBack   SearchBefore: re-sort with the original order

   Checked for every assignment of NDocs documents to the leaves of every tree shape
   (empty and skewed shards included), every request of the family (pages From,Size
   <= Max*, four total score-independent sorts, search-after / search-before from
   every document's sort key): the result equals Single = the same request on one
   index holding the union.
*)
EXTENDS AliasOps

CONSTANTS NDocs, PatIds, TreeIds, SortIds, MaxFrom, MaxSize, CursorSizes,
          WithFacets,   \* FALSE: hits/total only (facets do not depend on the page; they get a config of their own)
          Quirk

Docs == 1..NDocs
FS == IF WithFacets THEN {1, 2, 4} ELSE {}   \* facet sizes requested together (4 covers all buckets)

(* corpora: sort key per document (0 = missing) and the set of matching documents *)
PatKey(p) == CASE p = 1 -> <<2, 1, 3, 1, 2, 3>>
               [] p = 2 -> <<1, 0, 2, 0, 1, 2>>
               [] p = 3 -> <<1, 1, 1, 0, 3, 1>>
PatM(p)   == CASE p = 1 -> {1, 2, 3, 4, 5, 6}
               [] p = 2 -> {1, 2, 4, 5, 6}
               [] p = 3 -> {2, 3, 4, 5, 6}

L(s) == [kind |-> "leaf", shard |-> s]
A(k) == [kind |-> "alias", kids |-> k]
Tree(t) == CASE t = 1 -> A(<<L(1), L(2), L(3)>>)
             [] t = 2 -> A(<<A(<<L(1), L(2)>>), L(3)>>)
             [] t = 3 -> A(<<L(1), A(<<A(<<L(2)>>), L(3)>>)>>)
             [] t = 4 -> A(<<A(<<L(1), L(2), L(3)>>)>>)
             [] t = 5 -> A(<<L(1), L(2)>>)
             [] t = 6 -> A(<<L(1)>>)
             [] t = 7 -> A(<<A(<<L(1), L(2)>>), A(<<L(3), L(4)>>)>>)

C(by, desc, mfirst) == [by |-> by, desc |-> desc, mfirst |-> mfirst]
SortNo(i) == CASE i = 1 -> <<C("key", FALSE, FALSE), C("id", FALSE, FALSE)>>
                [] i = 2 -> <<C("key", TRUE, FALSE),  C("id", FALSE, FALSE)>>
                [] i = 3 -> <<C("key", FALSE, TRUE),  C("id", TRUE, FALSE)>>
                [] i = 4 -> <<C("id", TRUE, FALSE)>>
Sorts == {SortNo(i) : i \in SortIds}

R(id, hasLo, lo, hasHi, hi) == [id |-> id, hasLo |-> hasLo, lo |-> lo, hasHi |-> hasHi, hi |-> hi]
NumRanges == { R(1, FALSE, 0, TRUE, 2), R(2, TRUE, 2, FALSE, 0), R(3, TRUE, 1, TRUE, 3) }

KeyOf(p) == [d \in Docs |-> PatKey(p)[d]]

Requests(key) ==
  [from : 0..MaxFrom, size : 0..MaxSize, sort : Sorts, mode : {"page"}, cursor : {<<>>}]
  \cup
  UNION { [from : {0}, size : CursorSizes, sort : {s}, mode : {"after", "before"},
           cursor : {SV(s, d, key) : d \in Docs}] : s \in Sorts }

VARIABLES corpus,    \* [key : doc -> sort key (0 = missing), m : matching documents]
          root,      \* the alias tree
          assign,    \* doc -> leaf (shard)
          req,       \* the request
          pc,
          rreq,      \* request after the SearchBefore rewrite
          creq,      \* child request
          pending,   \* members that have not answered yet
          got,       \* some member has answered
          acc,       \* merged SearchResult
          res,       \* final SearchResult
          want       \* the same request on ONE index holding all documents (set at the first step)
vars == <<corpus, root, assign, req, pc, rreq, creq, pending, got, acc, res, want>>

X == [key |-> corpus.key, m |-> corpus.m, shard |-> assign,
      fs |-> FS, ranges |-> NumRanges, quirk |-> Quirk]
Root == root
Corpus(p) == [key |-> KeyOf(p), m |-> PatM(p) \cap Docs]

NoSR == [hits |-> <<>>, total |-> 0, ft |-> [s \in FS |-> EmptyFR], fn |-> [s \in FS |-> EmptyFR]]

NoReq == [from |-> 0, size |-> 0, sort |-> <<>>, mode |-> "page", cursor |-> <<>>]

(* the case: corpus, tree, assignment ... *)
Init ==
  /\ corpus \in {Corpus(p) : p \in PatIds}
  /\ root \in {Tree(t) : t \in TreeIds}
  /\ assign \in [Docs -> Leaves(root)]
  /\ req = NoReq
  /\ pc = "pick" /\ rreq = NoReq /\ creq = NoReq /\ pending = {} /\ got = FALSE
  /\ acc = NoSR /\ res = NoSR /\ want = NoSR

(* ... and the request (a step of its own so that TLC's workers share the work) *)
PickRequest ==
  /\ pc = "pick"
  /\ req' \in Requests(corpus.key)
  /\ pc' = "start"
  /\ UNCHANGED <<corpus, root, assign, rreq, creq, pending, got, acc, res, want>>

VisibleSR(s) == [hits |-> s.hits, total |-> s.total,
                 ft |-> [z \in FS |-> Visible(s.ft[z])], fn |-> [z \in FS |-> Visible(s.fn[z])]]

ShortCircuit ==
  /\ pc = "start" /\ Len(Root.kids) = 1
  /\ res' = Search(X, Root.kids[1], req)
  /\ pc' = "done"
  /\ want' = VisibleSR(Single(X, req))
  /\ UNCHANGED <<corpus, root, assign, req, rreq, creq, pending, got, acc>>

ChildRequest ==
  /\ pc = "start" /\ Len(Root.kids) > 1
  /\ rreq' = Rewrite(req)
  /\ creq' = ChildReq(Rewrite(req))
  /\ pending' = DOMAIN Root.kids
  /\ pc' = "children"
  /\ want' = VisibleSR(Single(X, req))
  /\ UNCHANGED <<corpus, root, assign, req, got, acc, res>>

ChildSearch(i) ==
  /\ pc = "children" /\ i \in pending
  /\ LET r == Search(X, Root.kids[i], creq)
     IN acc' = IF got THEN MergeSR(X, acc, r) ELSE r
  /\ got' = TRUE
  /\ pending' = pending \ {i}
  /\ UNCHANGED <<corpus, root, assign, req, pc, rreq, creq, res, want>>

MergeHits ==
  /\ pc = "children" /\ pending = {}
  /\ acc' = SortStep(acc, rreq)
  /\ pc' = "slice"
  /\ UNCHANGED <<corpus, root, assign, req, rreq, creq, pending, got, res, want>>

PageSlice ==
  /\ pc = "slice"
  /\ acc' = SliceStep(X, acc, rreq)
  /\ pc' = "fixup"
  /\ UNCHANGED <<corpus, root, assign, req, rreq, creq, pending, got, res, want>>

FixupFacets ==
  /\ pc = "fixup"
  /\ acc' = FixupStep(X, acc)
  /\ pc' = "reverse"
  /\ UNCHANGED <<corpus, root, assign, req, rreq, creq, pending, got, res, want>>

ReverseBackStep ==
  /\ pc = "reverse"
  /\ res' = ReverseBack(acc, req)
  /\ pc' = "done"
  /\ UNCHANGED <<corpus, root, assign, req, rreq, creq, pending, got, acc, want>>

Next == PickRequest \/ ShortCircuit \/ ChildRequest \/ (\E i \in pending : ChildSearch(i))
        \/ MergeHits \/ PageSlice \/ FixupFacets \/ ReverseBackStep

Spec == Init /\ [][Next]_vars

-----------------------------------------------------------------------------
TypeOK ==
  /\ pc \in {"pick", "start", "children", "slice", "fixup", "reverse", "done"}
  /\ pending \subseteq 1..4

ChildRequestOK ==
  pc = "children" =>
    /\ creq.from = 0 /\ creq.size = rreq.size + rreq.from
    /\ creq.sort = rreq.sort /\ creq.cursor = req.cursor
    /\ (req.mode = "before" => creq.mode = "after" /\ creq.sort = Reverse(req.sort))

(* Total is the sum, whatever has been merged so far *)
TotalIsSum ==
  pc = "done" => res.total = Cardinality(X.m) /\ res.total = want.total

SameHits(a, b) == a.hits = b.hits       \* ids and sort values, in order

(* C09: the page of the alias is the page of the single index *)
PageEqSizePos == (pc = "done" /\ req.size > 0) => SameHits(res, want)
PageEqSize0   == (pc = "done" /\ req.size = 0) => SameHits(res, want)

FacetsEq ==
  pc = "done" =>
    \A s \in FS : Covers(X, s) =>
      /\ Visible(res.ft[s]) = want.ft[s]
      /\ Visible(res.fn[s]) = want.fn[s]

(* the action chain computes what the recursive operator computes (arrival order is
   irrelevant for hits and totals; for facets when nothing was trimmed) *)
ActionsMatchOperator ==
  pc = "done" =>
    LET o == Search(X, Root, req) IN
      /\ res.hits = o.hits /\ res.total = o.total
      /\ \A s \in FS : Covers(X, s) => Visible(res.ft[s]) = Visible(o.ft[s])

(* hits never exceed the page *)
PageBound == pc = "done" /\ ~Quirk => Len(res.hits) <= req.size

-----------------------------------------------------------------------------
(* Case enumeration for Engine A (run with -dump): expectation = the single index *)
EnumInit ==
  /\ corpus \in {Corpus(p) : p \in PatIds}
  /\ root \in {Tree(t) : t \in TreeIds}
  /\ assign \in [Docs -> Leaves(root)]
  /\ req = NoReq
  /\ pc = "enum" /\ rreq = NoReq /\ creq = NoReq /\ pending = {} /\ got = FALSE
  /\ acc = NoSR /\ res = NoSR /\ want = NoSR
EnumStep ==
  /\ pc = "enum" /\ pc' = "done"
  /\ req' \in Requests(corpus.key)
  /\ want' = VisibleSR(Single(X, req'))
  /\ UNCHANGED <<corpus, root, assign, rreq, creq, pending, got, acc, res>>
EnumSpec == EnumInit /\ [][EnumStep]_vars
=============================================================================
