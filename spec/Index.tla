------------------------------- MODULE Index -------------------------------
(***************************************************************************)
(* What a bleve index IS at the API level (index.go, index_impl.go):       *)
(* a last-write-wins map  id -> latest document version  plus a map of     *)
(* internal keys, changed by single calls (Index, Delete, SetInternal,     *)
(* DeleteInternal) and by atomic batches built call by call on a           *)
(* bleve.Batch object (a later op on the same id/key inside one batch      *)
(* overwrites the earlier one; bleve_index_api Batch.IndexOps/InternalOps).*)
(*                                                                         *)
(* This module is the refinement target of Scorch.tla / ScorchDisk.tla /   *)
(* Upsidedown (DESIGN 2.2) and the oracle for C01, C03, C04, C13, C14.     *)
(* It also contains the batching algebra ("BatchAlg"): Collapse / Apply    *)
(* and the invariant that batched application equals call-by-call          *)
(* application of the flattened history (independence of batching).        *)
(***************************************************************************)
EXTENDS Naturals, Sequences, FiniteSets, TLC

CONSTANTS Ids,        \* document ids (strings)
          IKeys,      \* internal keys (strings)
          MaxBatch,   \* max calls added to one bleve.Batch
          MaxActs,    \* bound on API-level actions (state constraint)
          LayoutOps   \* subset of {"reopen","merge","persist"}: layout-only no-ops to interleave

VARIABLES docs,      \* Id -> version (0 = absent)
          internal,  \* IKey -> value (0 = absent)
          nextVer,   \* every written document / internal value is unique
          calls,     \* history: flattened sequence of all calls applied so far
          pending,   \* the bleve.Batch under construction (sequence of calls)
          building,  \* TRUE between NewBatch and idx.Batch(b)
          act,       \* last action (for replay): [name, call, batch]
          nacts
vars == <<docs, internal, nextVer, calls, pending, building, act, nacts>>

None == 0
NoCall == [op |-> "none", k |-> "", v |-> 0]
DocOps == {"index", "delete"}
IntOps == {"setint", "delint"}
Shapes == [op : DocOps, k : Ids] \cup [op : IntOps, k : IKeys]
Call(sh, v) == [op |-> sh.op, k |-> sh.k, v |-> IF sh.op \in {"index", "setint"} THEN v ELSE 0]

-----------------------------------------------------------------------------
(* BatchAlg *)
State == [docs : [Ids -> Nat], internal : [IKeys -> Nat]]

ApplyCall(st, c) ==
  CASE c.op = "index"  -> [st EXCEPT !.docs[c.k] = c.v]
    [] c.op = "delete" -> [st EXCEPT !.docs[c.k] = None]
    [] c.op = "setint" -> [st EXCEPT !.internal[c.k] = c.v]
    [] c.op = "delint" -> [st EXCEPT !.internal[c.k] = None]
    [] OTHER -> st

RECURSIVE Fold(_, _)
Fold(st, s) == IF s = <<>> THEN st ELSE Fold(ApplyCall(st, Head(s)), Tail(s))

\* Collapse: what the bleve.Batch object holds after the calls s were made on
\* it: per id / key only the LAST op (IndexOps / InternalOps maps).
LastIdx(s, k, ops) == LET I == { i \in 1..Len(s) : s[i].k = k /\ s[i].op \in ops } IN
                      IF I = {} THEN 0 ELSE CHOOSE i \in I : \A j \in I : j <= i
Collapse(s) == [ d |-> [ id \in Ids |-> LET i == LastIdx(s, id, DocOps) IN IF i = 0 THEN NoCall ELSE s[i] ],
                 n |-> [ k \in IKeys |-> LET i == LastIdx(s, k, IntOps) IN IF i = 0 THEN NoCall ELSE s[i] ] ]
\* Apply a collapsed batch atomically (all ids/keys at once; order irrelevant
\* because each id/key occurs at most once).
ApplyBatch(st, b) ==
  [ docs     |-> [ id \in Ids |-> IF b.d[id].op = "none" THEN st.docs[id]
                                   ELSE IF b.d[id].op = "index" THEN b.d[id].v ELSE None ],
    internal |-> [ k \in IKeys |-> IF b.n[k].op = "none" THEN st.internal[k]
                                   ELSE IF b.n[k].op = "setint" THEN b.n[k].v ELSE None ] ]

Cur == [docs |-> docs, internal |-> internal]
Empty == [docs |-> [id \in Ids |-> None], internal |-> [k \in IKeys |-> None]]

-----------------------------------------------------------------------------
Init == /\ docs = [id \in Ids |-> None] /\ internal = [k \in IKeys |-> None]
        /\ nextVer = 1 /\ calls = <<>> /\ pending = <<>> /\ building = FALSE
        /\ act = [name |-> "init", call |-> NoCall, batch |-> <<>>] /\ nacts = 0

\* idx.Index / idx.Delete / idx.SetInternal / idx.DeleteInternal
Single(sh) ==
  /\ ~building
  /\ LET c == Call(sh, nextVer) st == ApplyCall(Cur, c) IN
     /\ docs' = st.docs /\ internal' = st.internal
     /\ calls' = Append(calls, c)
     /\ act' = [name |-> "single", call |-> c, batch |-> <<>>]
  /\ nextVer' = nextVer + 1 /\ nacts' = nacts + 1
  /\ UNCHANGED <<pending, building>>

\* b := idx.NewBatch()
BatchBegin == /\ ~building /\ building' = TRUE /\ pending' = <<>>
              /\ act' = [name |-> "begin", call |-> NoCall, batch |-> <<>>]
              /\ nacts' = nacts + 1
              /\ UNCHANGED <<docs, internal, nextVer, calls>>

\* b.Index / b.Delete / b.SetInternal / b.DeleteInternal
BatchAdd(sh) ==
  /\ building /\ Len(pending) < MaxBatch
  /\ LET c == Call(sh, nextVer) IN
     /\ pending' = Append(pending, c)
     /\ act' = [name |-> "add", call |-> c, batch |-> <<>>]
  /\ nextVer' = nextVer + 1
  /\ UNCHANGED <<docs, internal, calls, building, nacts>>

\* idx.Batch(b): the collapsed ops take effect together
BatchExec ==
  /\ building
  /\ LET st == ApplyBatch(Cur, Collapse(pending)) IN
     /\ docs' = st.docs /\ internal' = st.internal
  /\ calls' = calls \o pending
  /\ act' = [name |-> "exec", call |-> NoCall, batch |-> pending]
  /\ building' = FALSE /\ pending' = <<>> /\ nacts' = nacts + 1
  /\ UNCHANGED nextVer

\* layout-only operations: close/reopen, forced merge, wait-for-persist.
\* They are stuttering steps of the abstract map (C05).
Layout(o) == /\ ~building /\ act.name # "layout"
             /\ act' = [name |-> "layout", call |-> [op |-> o, k |-> "", v |-> 0], batch |-> <<>>]
             /\ nacts' = nacts + 1
             /\ UNCHANGED <<docs, internal, nextVer, calls, pending, building>>

Next == /\ nacts < MaxActs
        /\ \/ \E sh \in Shapes : Single(sh)
           \/ BatchBegin
           \/ \E sh \in Shapes : BatchAdd(sh)
           \/ BatchExec
           \/ \E o \in LayoutOps : Layout(o)

Spec == Init /\ [][Next]_vars

-----------------------------------------------------------------------------
(* Properties *)
TypeOK == docs \in [Ids -> Nat] /\ internal \in [IKeys -> Nat]

\* Independence of batching: the state is the call-by-call fold of the
\* flattened history, however the calls were grouped into batches
\* (last op per id wins inside a batch, batches apply atomically).
BatchingIndependent == Cur = Fold(Empty, calls)

\* every live document is the most recently written version of its id
LastWriteWins ==
  \A id \in Ids : LET i == LastIdx(calls, id, DocOps) IN
     docs[id] = IF i = 0 \/ calls[i].op = "delete" THEN None ELSE calls[i].v

DocCount == Cardinality({ id \in Ids : docs[id] # None })
LiveIds == { id \in Ids : docs[id] # None }

\* Splitting theorem of the batching algebra, checked on every reachable
\* pending batch: applying s \o t in one batch = applying s then t.
SplitOK == \A n \in 0..Len(pending) :
             ApplyBatch(Cur, Collapse(pending)) =
             ApplyBatch(ApplyBatch(Cur, Collapse(SubSeq(pending, 1, n))),
                        Collapse(SubSeq(pending, n + 1, Len(pending))))
=============================================================================
