\* generated by the builder of C02/C08; see MCSearchers.tla for the families
SPECIFICATION Spec
CONSTANTS
  SegSizes <- Segs22
  Deleted = {1}
  OneHitEnc = TRUE
  ScoreNone = FALSE
  HeapTakeover = 0
  MaxCalls = 4
  NTerms = 3
  Queries <- QDisj
  FirstAdvanceOK <- FirstAdvNoQ2
VIEW View
INVARIANT ResultOK
INVARIANT NoPanic
INVARIANT EnumIsHits
CHECK_DEADLOCK FALSE
