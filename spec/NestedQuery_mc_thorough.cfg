SPECIFICATION Spec
CONSTANTS
  KindNames = {"nested", "flat", "outer", "inner"}
  QFieldSeq <- FS6
  MaxA = 2
  MaxC = 2
  MaxB = 1
  MaxNodes = 3
  L2Forms = {"conj-il", "conj-li", "disj-il", "must-i-not-l", "must-l-not-i", "must-l-should-i", "conj-cc", "conj-cd", "disj-cc"}
  Ordered = FALSE
  Classes = {"core"}
  WithMin = TRUE
INVARIANT CodedEqualsMeaning
INVARIANT HitsAreParents
INVARIANT JoinDepthsFit
INVARIANT FlatIsPlain
INVARIANT SameArrayConj
CHECK_DEADLOCK FALSE
