\* generated by the builder of C02/C08; see MCSearchers.tla for the families
SPECIFICATION Spec
CONSTANTS
  SegSizes <- Segs13
  Deleted = {2}
  OneHitEnc = FALSE
  ScoreNone = TRUE
  HeapTakeover = 10
  MaxCalls = 0
  NTerms = 2
  Queries <- QFlat2NoK1
  FirstAdvanceOK <- FirstAdvNoQ2
VIEW View
INVARIANT EnumIsHits
INVARIANT NoneEqualsScored
CHECK_DEADLOCK FALSE
