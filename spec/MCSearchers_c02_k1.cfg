\* generated by the builder of C02/C08; see MCSearchers.tla for the families
SPECIFICATION Spec
CONSTANTS
  SegSizes <- Segs21
  Deleted = {}
  OneHitEnc = TRUE
  ScoreNone = TRUE
  HeapTakeover = 10
  MaxCalls = 0
  NTerms = 3
  Queries <- QK1
  FirstAdvanceOK <- FirstAdvNoQ2
VIEW View
INVARIANT EnumIsHits
CHECK_DEADLOCK FALSE
