SPECIFICATION Spec
CONSTANTS
  MaxN = 7
INVARIANT HitsOnceAndParents
INVARIANT FoldComplete
INVARIANT FoldPrefix
CHECK_DEADLOCK FALSE
