SPECIFICATION Spec
CONSTANTS
 Ids = {"a", "b", "c"}
 MaxB = 6
 BatchShapes <- ShapesSim
 Writers = {w1, w2}
 Safe = FALSE
 KeepN = 1
 MaxEp = 60
 MaxSid = 40
 WithReader = TRUE
 WithCopy = TRUE
 WithMerger = TRUE
 WithPurge = TRUE
 WithMemMerge = TRUE
 MaxMergeInputs = 0
 AsyncRelease = FALSE
  WithMergeFail = FALSE
 MaxRestarts = 0
 SidFromRoot = FALSE
 ForgetInherited = FALSE
 BuilderBase = FALSE
 CopySchedById = FALSE
 MaxOpens = 3
INVARIANTS RootIsReplay BoltFilesOnDisk RootFilesOnDisk CopyFilesOnDisk
CHECK_DEADLOCK FALSE
