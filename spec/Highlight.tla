----------------------------- MODULE Highlight -----------------------------
(***************************************************************************)
(* C19 (second half) - the fragment contract as a MONITOR:                 *)
(*   when the field's analyzer does not change the text length before      *)
(*   tokenising, every fragment with markup and escaping removed is a      *)
(*   contiguous piece of the stored value in which every marked span is    *)
(*   the text at a matched term's location.                                *)
(*                                                                         *)
(* Texts are sequences of byte values (TLC has no byte strings).           *)
(*   Parse      : splits a formatted fragment into plain text and marked   *)
(*                spans, removing the highlighter's separator, the         *)
(*                formatter's markers and (html) the entity escaping;      *)
(*   Accepts    : the contract on the parsed fragment;                     *)
(*   Format     : a model of what a correct formatter produces for a       *)
(*                window [fs, fe) of the value and term locations.         *)
(* TLC checks over all small values / windows / locations that every       *)
(* Format output is accepted (the judge raises no false alarm, escaping    *)
(* included) and that a formatter marking a shifted span, or slicing a     *)
(* shifted window, is rejected whenever its output differs                 *)
(* (cfg Highlight_mc_quick.cfg).  spec/trace/JudgeHighlight.tla applies    *)
(* Accepts to fragments produced by real searches.                         *)
(***************************************************************************)
EXTENDS Integers, Sequences, FiniteSets, TLC

CONSTANTS Alphabet,   \* (model check) byte values of the small values
          MaxValue    \* (model check) value length bound

(* ---- markers ---- *)
Sep       == <<226, 128, 166>>                       \* "…"  (highlighter/simple DefaultSeparator)
HtmlOpen  == <<60, 109, 97, 114, 107, 62>>           \* <mark>
HtmlClose == <<60, 47, 109, 97, 114, 107, 62>>       \* </mark>
AnsiOpen  == <<27, 91, 52, 51, 109>>                 \* ESC[43m  (BgYellow)
AnsiClose == <<27, 91, 48, 109>>                     \* ESC[0m
Open(fmt)  == IF fmt = "html" THEN HtmlOpen ELSE AnsiOpen
Close(fmt) == IF fmt = "html" THEN HtmlClose ELSE AnsiClose

\* html.EscapeString: < > & ' "
Entities == << <<60, <<38, 108, 116, 59>> >>,            \* <  &lt;
               <<62, <<38, 103, 116, 59>> >>,            \* >  &gt;
               <<38, <<38, 97, 109, 112, 59>> >>,        \* &  &amp;
               <<39, <<38, 35, 51, 57, 59>> >>,          \* '  &#39;
               <<34, <<38, 35, 51, 52, 59>> >> >>        \* "  &#34;
EscapeByte(b) == LET I == {i \in 1..Len(Entities) : Entities[i][1] = b}
                 IN IF I = {} THEN <<b>> ELSE Entities[CHOOSE i \in I : TRUE][2]
RECURSIVE Escape(_)
Escape(t) == IF t = <<>> THEN <<>> ELSE EscapeByte(Head(t)) \o Escape(Tail(t))

StartsWith(t, p) == Len(p) <= Len(t) /\ SubSeq(t, 1, Len(p)) = p
Drop(t, n) == SubSeq(t, n + 1, Len(t))
EndsWith(t, p) == Len(p) <= Len(t) /\ SubSeq(t, Len(t) - Len(p) + 1, Len(t)) = p

\* one unescaped byte at the head of t: <<byte, consumed>>
Unescape1(fmt, t) ==
  LET I == {i \in 1..Len(Entities) : StartsWith(t, Entities[i][2])}
  IN IF fmt = "html" /\ I # {} THEN LET i == CHOOSE i \in I : TRUE IN <<Entities[i][1], Len(Entities[i][2])>>
     ELSE <<t[1], 1>>

(* Parse: returns [plain, spans, err]; spans are <<start, end>> offsets (0-based, end exclusive) *)
(* into plain.  err: "" or the reason the fragment is not even well-formed markup.             *)
RECURSIVE ParseRec(_, _, _, _, _)
ParseRec(fmt, t, plain, spans, openAt) ==
  IF t = <<>> THEN
     IF openAt >= 0 THEN [plain |-> plain, spans |-> spans, err |-> "unclosed-mark"]
     ELSE [plain |-> plain, spans |-> spans, err |-> ""]
  ELSE IF StartsWith(t, Open(fmt)) THEN
     IF openAt >= 0 THEN [plain |-> plain, spans |-> spans, err |-> "nested-mark"]
     ELSE ParseRec(fmt, Drop(t, Len(Open(fmt))), plain, spans, Len(plain))
  ELSE IF StartsWith(t, Close(fmt)) THEN
     IF openAt < 0 THEN [plain |-> plain, spans |-> spans, err |-> "stray-close"]
     ELSE ParseRec(fmt, Drop(t, Len(Close(fmt))), plain, Append(spans, <<openAt, Len(plain)>>), -1)
  ELSE LET u == Unescape1(fmt, t)
       IN ParseRec(fmt, Drop(t, u[2]), Append(plain, u[1]), spans, openAt)

StripSep(t) ==
  LET a == IF StartsWith(t, Sep) THEN Drop(t, Len(Sep)) ELSE t
  IN IF EndsWith(a, Sep) THEN SubSeq(a, 1, Len(a) - Len(Sep)) ELSE a
Parse(fmt, frag) == ParseRec(fmt, StripSep(frag), <<>>, <<>>, -1)

(* ---- the contract ---- *)
\* locs: sequence of <<start, end>> byte offsets into value (recorded term locations)
SliceAt(value, off, plain) ==
  off >= 0 /\ off + Len(plain) <= Len(value) /\ SubSeq(value, off + 1, off + Len(plain)) = plain
SpansAt(off, spans, locs) ==
  \A i \in 1..Len(spans) : \E j \in 1..Len(locs) :
     locs[j][1] = off + spans[i][1] /\ locs[j][2] = off + spans[i][2]
Offsets(value, plain) == {off \in 0..(Len(value) - Len(plain)) : SliceAt(value, off, plain)}
WellMarked(fmt, frag)       == Parse(fmt, frag).err = ""
IsSlice(fmt, value, frag)   == Offsets(value, Parse(fmt, frag).plain) # {}
SpansAreLocations(fmt, value, frag, locs) ==
  LET p == Parse(fmt, frag)
  IN \E off \in Offsets(value, p.plain) : SpansAt(off, p.spans, locs)
Accepts(fmt, value, frag, locs) ==
  WellMarked(fmt, frag) /\ IsSlice(fmt, value, frag) /\ SpansAreLocations(fmt, value, frag, locs)

(* ---- a model of a correct formatter (format/html, format/ansi + the separators) ---- *)
Esc(fmt, t) == IF fmt = "html" THEN Escape(t) ELSE t
\* locations inside the window, in order, non-overlapping (what the formatter marks)
RECURSIVE FormatRec(_, _, _, _, _)
FormatRec(fmt, value, curr, fe, locs) ==
  IF locs = <<>> THEN Esc(fmt, SubSeq(value, curr + 1, fe))
  ELSE LET l == Head(locs)
       IN IF l[1] < curr THEN FormatRec(fmt, value, curr, fe, Tail(locs))
          ELSE IF l[2] > fe THEN Esc(fmt, SubSeq(value, curr + 1, fe))
          ELSE Esc(fmt, SubSeq(value, curr + 1, l[1])) \o Open(fmt) \o Esc(fmt, SubSeq(value, l[1] + 1, l[2]))
               \o Close(fmt) \o FormatRec(fmt, value, l[2], fe, Tail(locs))
Format(fmt, value, fs, fe, locs) ==
  (IF fs # 0 THEN Sep ELSE <<>>) \o FormatRec(fmt, value, fs, fe, locs) \o (IF fe # Len(value) THEN Sep ELSE <<>>)

(* ---- model check: the judge against the formatter model ---- *)
Values == UNION {[1..n -> Alphabet] : n \in 0..MaxValue}
VARIABLES value, fs, fe, locs, fmt
hvars == <<value, fs, fe, locs, fmt>>
Spans(n) == {<<a, b>> : a \in 0..n, b \in 0..n}
OrderedLocs(n) == {<<>>} \cup {<<l>> : l \in {x \in Spans(n) : x[1] < x[2]}}
                  \cup {<<l, m>> : l \in {x \in Spans(n) : x[1] < x[2]}, m \in {x \in Spans(n) : x[1] < x[2]}}
HInit == /\ value \in Values /\ fmt \in {"html", "ansi"}
         /\ fs \in 0..Len(value) /\ fe \in 0..Len(value) /\ fs <= fe
         /\ locs \in {ls \in OrderedLocs(Len(value)) : Len(ls) = 2 => ls[1][2] <= ls[2][1]}
HNext == UNCHANGED hvars
HSpec == HInit /\ [][HNext]_hvars

\* (a) no false alarm: every output of the formatter model is accepted
FormatAccepted == Accepts(fmt, value, Format(fmt, value, fs, fe, locs), locs)
\* (b) the parse recovers exactly the window and the marked locations
ParseRecovers ==
  LET p == Parse(fmt, Format(fmt, value, fs, fe, locs))
  IN p.err = "" /\ p.plain = SubSeq(value, fs + 1, fe)
\* (c) detection, on concrete instances (evaluated by TLC at start-up):
\*  - value "a<b", location [2,3): the correct html output is accepted; an output whose offsets
\*    were applied to the ESCAPED text ("a&l<mark>t</mark>;b") is rejected;
\*  - value "ab ab", location [3,5): marking the FIRST "ab" is rejected although the text is equal
\*    (spans must sit at recorded locations);
\*  - a fragment that is not a piece of the value is rejected.
ASSUME DetectionExamples ==
  /\ Accepts("html", <<97, 60, 98>>, <<97, 38, 108, 116, 59>> \o HtmlOpen \o <<98>> \o HtmlClose, << <<2, 3>> >>)
  /\ ~Accepts("html", <<97, 60, 98>>, <<97, 38, 108>> \o HtmlOpen \o <<116>> \o HtmlClose \o <<59, 98>>, << <<2, 3>> >>)
  /\ Accepts("ansi", <<97, 98, 32, 97, 98>>, <<97, 98, 32>> \o AnsiOpen \o <<97, 98>> \o AnsiClose, << <<3, 5>> >>)
  /\ ~Accepts("ansi", <<97, 98, 32, 97, 98>>, AnsiOpen \o <<97, 98>> \o AnsiClose \o <<32, 97, 98>>, << <<3, 5>> >>)
  /\ ~Accepts("html", <<97, 98, 99>>, <<97, 99>>, <<>>)
  /\ Accepts("html", <<97, 98, 99>>, Sep \o <<98>> \o Sep, <<>>)
  /\ ~WellMarked("html", HtmlOpen \o <<97>>)
=============================================================================
