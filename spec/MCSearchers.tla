---------------------------- MODULE MCSearchers ----------------------------
(***************************************************************************)
(* Query families and constants for the exhaustive configurations of       *)
(* Searchers.tla (Searchers_mc_*.cfg).                                     *)
(***************************************************************************)
EXTENDS Searchers

\* snapshot layouts (cfg files cannot write tuples)
Segs22  == << 2, 2 >>
Segs212 == << 2, 1, 2 >>
Segs13  == << 1, 3 >>
Segs4   == << 4 >>
Segs0   == << >>
Segs21  == << 2, 1 >>
Segs12  == << 1, 2 >>
Segs3   == << 3 >>
Segs111 == << 1, 1, 1 >>

T(t)  == [type |-> "term", field |-> "f", term |-> << t >>]
AllQ  == [type |-> "all"]
IdsQ  == [type |-> "docid", ids |-> << 1, 2 >>]
NoneQ == [type |-> "none"]
Conj(qs)    == [type |-> "conj", qs |-> qs]
Disj(qs, m) == [type |-> "disj", qs |-> qs, min |-> m]
Bool(mu, sh, m, mn, fl) ==
    [type |-> "boolean", must |-> mu, should |-> sh, min |-> m, mustnot |-> mn, filter |-> fl]

SeqsOf(S, n) == UNION { [1..k -> S] : k \in 0..n }

\* number of leaves of a query
RECURSIVE Leaves(_), SumSeq(_)
SumSeq(xs) == IF Len(xs) = 0 THEN 0 ELSE Head(xs) + SumSeq(Tail(xs))
Kids(x) == IF x.type \in {"conj", "disj"} THEN x.qs
           ELSE IF x.type = "boolean" THEN x.must \o x.should \o x.mustnot \o x.filter
           ELSE << >>
Leaves(x) == IF x.type \in {"conj", "disj", "boolean"}
             THEN SumSeq([i \in DOMAIN Kids(x) |-> Leaves(Kids(x)[i])])
             ELSE 1

\* term ids in depth-first order; canonical = each new id is the next unused
RECURSIVE TermSeq(_), Cat(_)
Cat(xs) == IF Len(xs) = 0 THEN << >> ELSE Head(xs) \o Cat(Tail(xs))
TermSeq(x) == IF x.type = "term" THEN << x.term[1] >>
              ELSE Cat([i \in DOMAIN Kids(x) |-> TermSeq(Kids(x)[i])])
Canon(x) == LET ts == TermSeq(x) IN
            \A i \in DOMAIN ts : \A m \in 1..(ts[i] - 1) : \E j \in 1..(i - 1) : ts[j] = m

\* one level of composition over the operand set S, at most n leaves
ConjOver(S, n) == { Conj(c) : c \in SeqsOf(S, n) }
DisjOver(S, n) == { Disj(c, m) : c \in SeqsOf(S, n), m \in 0..n } 
BoolOver(S, n) ==
    { Bool(mu, sh, m, mn, fl) :
        mu \in SeqsOf(S, 2), sh \in SeqsOf(S, 2), m \in 0..2, mn \in SeqsOf(S, 1), fl \in SeqsOf(S, 1) }

Small(x, n) == Leaves(x) <= n /\ Canon(x)
           /\ (x.type = "disj" => x.min <= Len(x.qs))
           /\ (x.type = "boolean" => x.min <= Len(x.should))

TermLeaves == { T(1), T(2), T(3) }
AnyLeaves  == TermLeaves \cup { AllQ, IdsQ, NoneQ }

\* --- families -----------------------------------------------------------
\* Every family takes a dummy argument so that TLC evaluates only the one a
\* configuration selects (zero-arity definitions are all evaluated at start-up).
QLeaf(u)  == { T(1), AllQ, IdsQ, NoneQ }
QConj(u)  == { x \in ConjOver(AnyLeaves, 3) : Small(x, 3) }
QDisj(u)  == { x \in DisjOver(AnyLeaves, 3) : Small(x, 3) }
QBool(u)  == { x \in BoolOver(TermLeaves \cup {AllQ}, 3) : Small(x, 3) }
QFlat(u)  == QLeaf(u) \cup QConj(u) \cup QDisj(u) \cup QBool(u)

\* depth 2, at most 3 leaves, built shape by shape (a generic product over
\* all depth-1 operands is too large to enumerate):
\*   I2(a, b)  the 2-leaf depth-1 compounds over the terms a, b
\*   I1(a)     the 1-leaf wrappers
I2(a, b) ==
    { Conj(<< a, b >>) } \cup { Disj(<< a, b >>, m) : m \in 0..2 }
    \cup { Bool(<< a >>, << b >>, m, << >>, << >>) : m \in 0..1 }
    \cup { Bool(<< a >>, << >>, 0, << b >>, << >>), Bool(<< a >>, << >>, 0, << >>, << b >>) }
    \cup { Bool(<< >>, << a >>, m, << b >>, << >>) : m \in 0..1 }
    \cup { Bool(<< >>, << a, b >>, m, << >>, << >>) : m \in 0..2 }
    \cup { Bool(<< a, b >>, << >>, 0, << >>, << >>), Bool(<< >>, << >>, 0, << a, b >>, << >>),
           Bool(<< >>, << >>, 0, << a >>, << b >>) }
I1(a) == { Conj(<< a >>), Disj(<< a >>, 0), Disj(<< a >>, 1), Bool(<< >>, << >>, 0, << a >>, << >>),
           Bool(<< >>, << >>, 0, << >>, << a >>) }

\* an operand x of 1 or 2 leaves together with a term t in every position of
\* every compound
Outer(x, t) ==
    { Conj(<< x, t >>), Conj(<< t, x >>) }
    \cup { Disj(<< x, t >>, m) : m \in 0..2 } \cup { Disj(<< t, x >>, m) : m \in 0..2 }
    \cup { Bool(<< x, t >>, << >>, 0, << >>, << >>) }
    \cup { Bool(<< >>, << x, t >>, m, << >>, << >>) : m \in 0..2 }
    \cup { Bool(<< x >>, << t >>, m, << >>, << >>) : m \in 0..1 }
    \cup { Bool(<< t >>, << x >>, m, << >>, << >>) : m \in 0..1 }
    \cup { Bool(<< x >>, << >>, 0, << t >>, << >>), Bool(<< t >>, << >>, 0, << x >>, << >>) }
    \cup { Bool(<< x >>, << >>, 0, << >>, << t >>), Bool(<< t >>, << >>, 0, << >>, << x >>) }
    \cup { Bool(<< >>, << x >>, m, << t >>, << >>) : m \in 0..1 }
    \cup { Bool(<< >>, << t >>, m, << x >>, << >>) : m \in 0..1 }
    \cup { Bool(<< >>, << x >>, m, << >>, << t >>) : m \in 0..1 }
    \cup { Bool(<< >>, << >>, 0, << x >>, << t >>), Bool(<< >>, << >>, 0, << t >>, << x >>) }
Alone(x) ==
    { Conj(<< x >>), Disj(<< x >>, 0), Disj(<< x >>, 1), Bool(<< >>, << >>, 0, << x >>, << >>),
      Bool(<< >>, << >>, 0, << >>, << x >>), Bool(<< x >>, << >>, 0, << >>, << >>) }

QDeep2(u) == UNION { Outer(x, T(3)) \cup Alone(x) : x \in I2(T(1), T(2)) }      \* 3 leaves / 2 leaves
QDeep1(u) == UNION { Outer(x, T(2)) \cup Alone(x) : x \in I1(T(1)) }
             \cup UNION { { Conj(<< x, y >>), Disj(<< x, y >>, 1), Disj(<< x, y >>, 2) } :
                             x \in I1(T(1)), y \in I1(T(2)) }
QDeep(u)  == QDeep1(u) \cup QDeep2(u)

\* quick families.  core2: every compound over (at most) two terms, plus the
\* non-term leaves in representative positions
QCore2(u) ==
    QLeaf(u) \cup I2(T(1), T(2)) \cup I1(T(1))
    \cup { Conj(<< >>), Disj(<< >>, 0), Conj(<< T(1), T(1) >>), Disj(<< T(1), T(1) >>, 2),
           Conj(<< T(1), AllQ >>), Conj(<< IdsQ, T(1) >>), Conj(<< T(1), NoneQ >>),
           Disj(<< T(1), IdsQ >>, 0), Disj(<< T(1), IdsQ >>, 2), Disj(<< NoneQ, T(1) >>, 1), Disj(<< AllQ, T(1) >>, 2),
           Bool(<< AllQ >>, << T(1) >>, 1, << >>, << >>), Bool(<< T(1) >>, << >>, 0, << IdsQ >>, << >>),
           Bool(<< >>, << >>, 0, << IdsQ >>, << T(1) >>), Bool(<< IdsQ >>, << T(1) >>, 0, << >>, << >>) }
    \* must + several should clauses with a minimum (the K1 shape for min = 1)
    \cup { Bool(<< T(1) >>, << T(2), T(1) >>, m, << >>, << >>) : m \in 0..2 }
    \cup { Bool(<< AllQ >>, << T(1), T(2) >>, m, << >>, << >>) : m \in 0..2 }
\* depth-2 shapes chosen after the code's interesting paths: a boolean advanced by a
\* conjunction (DESIGN lead 2), optimisable disjunctions/conjunctions nested in
\* conjunctions/disjunctions/booleans, compound must-not and filter clauses
QDeepQuick(u) ==
    { Conj(<< T(3), Bool(<< T(1) >>, << T(2) >>, m, << >>, << >>) >>) : m \in 0..1 }
    \cup { Conj(<< Bool(<< T(1) >>, << >>, 0, << T(2) >>, << >>), T(3) >>),
           Conj(<< Disj(<< T(1), T(2) >>, 1), T(3) >>),
           Disj(<< Conj(<< T(1), T(2) >>), T(3) >>, 1),
           Bool(<< Disj(<< T(1), T(2) >>, 1) >>, << >>, 0, << T(3) >>, << >>),
           Bool(<< T(3) >>, << >>, 0, << >>, << Disj(<< T(1), T(2) >>, 1) >>),
           Bool(<< T(3) >>, << Conj(<< T(1), T(2) >>) >>, 1, << >>, << >>),
           \* the K1 shape below a filter clause (filters are always built score:none)
           Bool(<< >>, << >>, 0, << >>, << Bool(<< T(1) >>, << T(2), T(3) >>, 1, << >>, << >>) >>) }
QDeepMore(u) ==
    { Conj(<< Disj(<< T(1), T(2) >>, 2), T(3) >>), Disj(<< Conj(<< T(1), T(2) >>), T(3) >>, 2),
      Disj(<< T(3), Disj(<< T(1), T(2) >>, 2) >>, 1),
      Conj(<< Disj(<< T(1) >>, 1), T(2) >>),
      Bool(<< T(3) >>, << >>, 0, << Conj(<< T(1), T(2) >>) >>, << >>),
      Bool(<< >>, << Conj(<< T(1), T(2) >>), T(3) >>, 1, << >>, << >>) }
MaxTerm(x) == LET ts == TermSeq(x) IN IF Len(ts) = 0 THEN 0 ELSE CHOOSE m \in { ts[i] : i \in DOMAIN ts } : \A i \in DOMAIN ts : ts[i] <= m
QFlat2(u) == { x \in QFlat(u) : MaxTerm(x) <= 2 }
QDisj2(u) == { x \in QDisj(u) : MaxTerm(x) <= 2 }
QDisjCore(u) == { x \in QCore2(u) : x.type = "disj" } \cup { Disj(<< T(1), T(2), T(1) >>, m) : m \in 1..3 }

\* --- the shapes of the findings (checked in configurations of their own)
\* Q2: BooleanSearcher.Advance as the very first call, must + should(min >= 1):
\*     initSearchers has moved the should searcher past the target's match, and
\*     the code as found re-advanced it unconditionally (repaired in b5b6d7b:
\*     FixBoolAdvance = TRUE; configuration c08_asfound_q2 keeps the old
\*     behaviour as a regression detector).
RECURSIVE HasMustShouldMin(_)
HasMustShouldMin(x) ==
    \/ (x.type = "boolean" /\ Len(x.must) > 0 /\ Len(x.should) > 0 /\ x.min >= 1)
    \/ \E i \in DOMAIN Kids(x) : HasMustShouldMin(Kids(x)[i])
\* K1: under score:none (and no term vectors) a should disjunction (min <= 1,
\*     >= 2 term children) became an unadorned term searcher whose Min() is 0
\*     (repaired in a0964f3: FixShouldMin = TRUE; configuration c02_asfound_k1
\*     keeps the old behaviour as a regression detector).
RECURSIVE HasK1(_)
HasK1(x) ==
    \/ (x.type = "boolean" /\ Len(x.must) > 0 /\ Len(x.should) >= 2 /\ x.min = 1)
    \/ \E i \in DOMAIN Kids(x) : HasK1(Kids(x)[i])

FirstAdvAlways(x) == TRUE
FirstAdvNoQ2(x)   == ~HasMustShouldMin(x)

QK1(u) == { x \in QBool(u) : HasK1(x) /\ MaxTerm(x) <= 2 }
QQ2(u) == { x \in I2(T(1), T(2)) : HasMustShouldMin(x) }
          \cup { Bool(<< T(1) >>, << T(2), T(1) >>, m, << >>, << >>) : m \in 1..2 }
          \cup { Bool(<< T(1) >>, << T(2) >>, 1, << >>, << T(1) >>),        \* a filter hands Advance down as first call
                 Bool(<< T(1) >>, << T(2) >>, 1, << T(2) >>, << >>),
                 Conj(<< Bool(<< T(1) >>, << T(2) >>, 1, << >>, << >>) >>),
                 Disj(<< Bool(<< T(1) >>, << T(2) >>, 1, << >>, << >>), T(2) >>, 1) }

\* --- selection by the configuration
CONSTANTS Family,   \* name of the family
          DropK1    \* TRUE: leave out the K1 shapes (they have a configuration of their own)
FamilyOf(f) ==
  CASE f = "leaf"     -> QLeaf(0)
    [] f = "term"     -> { T(1) }
    [] f = "core2"    -> QCore2(0)
    [] f = "disjcore" -> QDisjCore(0)
    [] f = "deepq"    -> QDeepQuick(0)
    [] f = "deepadv"  -> { Conj(<< T(3), Bool(<< T(1) >>, << T(2) >>, m, << >>, << >>) >>) : m \in 0..1 }
                         \cup { Conj(<< Bool(<< T(1) >>, << >>, 0, << T(2) >>, << >>), T(3) >>),
                                Conj(<< Disj(<< T(1), T(2) >>, 1), T(3) >>),
                                Bool(<< T(3) >>, << >>, 0, << >>, << Disj(<< T(1), T(2) >>, 1) >>) }
    [] f = "deepq2"   -> QDeepQuick(0) \cup QDeepMore(0)
    [] f = "replayq"  -> QCore2(0) \cup QDeepQuick(0) \cup QDeepMore(0)
    [] f = "flat"     -> QFlat(0)
    [] f = "flat2"    -> QFlat2(0)
    [] f = "disj"     -> QDisj(0)
    [] f = "disj2"    -> QDisj2(0)
    [] f = "bool"     -> QBool(0)
    [] f = "deep"     -> QDeep(0)
    [] f = "k1"       -> QK1(0)
    [] f = "q2"       -> QQ2(0)
MCQueries == IF DropK1 THEN { x \in FamilyOf(Family) : ~HasK1(x) } ELSE FamilyOf(Family)
=============================================================================
