\* C09 thorough, hits and totals: 5 documents, every assignment to the leaves of 6 tree shapes (1..3 shards), 3 corpora, From,Size <= 3, search-after/before (page 2) from every document
SPECIFICATION Spec
CONSTANTS
  NDocs = 5
  PatIds = {1, 2, 3}
  TreeIds = {1, 2, 3, 4, 5, 6}
  SortIds = {1, 2, 3, 4}
  MaxFrom = 3
  MaxSize = 3
  CursorSizes = {2}
  WithFacets = FALSE
  Quirk = FALSE
INVARIANTS TypeOK ChildRequestOK TotalIsSum PageEqSizePos PageEqSize0 ActionsMatchOperator
CHECK_DEADLOCK FALSE
