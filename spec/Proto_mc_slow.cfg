\* C11: the slow-merger pause loop of pausePersisterForMergerCatchUp (>= PersisterNapUnderNumFiles files on disk)
SPECIFICATION Spec
CONSTANTS
  Callers = {c1, c2}
  MaxOps = 1
  LateOps = 1
  Ops = {"batchS", "batchU", "search", "fielddict", "forcemerge", "doccount", "close"}
  Engine = "disk"
  MaxMerges = 1
  PauseMode = "slow"
  HazFD = FALSE
  LegacyClose2 = FALSE
  LegacyFMMem = FALSE
SYMMETRY Symm
VIEW View
INVARIANTS TypeOK RWExclusion LockBalanced NoPanic ContractHolds
  CloseReturnMeansStopped WriterMeansQuiescent BatchNeverSeesClose NoOrphanAck ForceMergeSingle
CHECK_DEADLOCK TRUE
