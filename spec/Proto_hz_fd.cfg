\* HAZARD (DESIGN lead 3), expected result: DEADLOCK. A goroutine holding an open FieldDict calls DocCount while another goroutine is blocked in Close
SPECIFICATION Spec
CONSTANTS
  Callers = {c1, c2}
  MaxOps = 1
  LateOps = 0
  Ops = {"fielddict", "close"}
  Engine = "disk"
  MaxMerges = 0
  PauseMode = "none"
  HazFD = TRUE
  LegacyClose2 = FALSE
  LegacyFMMem = FALSE

INVARIANTS TypeOK RWExclusion LockBalanced NoPanic ContractHolds
  CloseReturnMeansStopped WriterMeansQuiescent BatchNeverSeesClose NoOrphanAck ForceMergeSingle
CHECK_DEADLOCK TRUE
