----------------------------- MODULE GeoCircle -----------------------------
(***************************************************************************)
(* C18, circles: "points clearly inside are always returned and points     *)
(* clearly outside never are, including ... circles that cross the date    *)
(* line or contain a pole".                                                *)
(*                                                                         *)
(* Great-circle distance needs trigonometry, which TLA+ has not; but on two *)
(* families of great circles it is plain arithmetic on the angles:         *)
(*   - the EQUATOR: two points of latitude 0 are separated by their        *)
(*     longitude difference taken the short way round (across +-180);      *)
(*   - a MERIDIAN through the north pole: two points on the same meridian   *)
(*     are separated by their latitude difference, two points on opposite  *)
(*     meridians by (90 - lat1) + (90 - lat2), the way over the pole.      *)
(* Angles are integers in millidegrees; one degree of a great circle is    *)
(* 111.195 km (earth radius 6371.0088 km).  "Clearly" = 1 % off the rim.    *)
(* A state is one query: centre, radius, and the documents that MUST and   *)
(* MUST NOT be returned (the others lie within 1 % of the rim: undecided). *)
(***************************************************************************)
EXTENDS Integers, FiniteSets

CONSTANTS EqLons,    \* longitudes (millidegrees) of the documents / centres on the equator
          PoleLats,  \* latitudes (millidegrees) of the documents / centres near the north pole
          Radii      \* km

\* the values used by the configuration (a cfg file cannot write negative numbers)
EqLonsMC   == {179500, 179900, 179950, 179990, -179990, -179950, -179900, -179500, 0, 100, -100, 500, 90000, -90000}
PoleLatsMC == {89500, 89900, 89950, 89990}
RadiiMC    == {5, 12, 30, 60, 120, 500}

Abs(x) == IF x < 0 THEN -x ELSE x
\* separation (millidegrees) of two equator points: the short way, across the date line if shorter
SepEq(a, b) == LET d == Abs(a - b) IN IF d > 180000 THEN 360000 - d ELSE d
\* polar documents sit on the meridians 0 and 180: m \in {0, 180000}
SepPole(m1, l1, m2, l2) == IF m1 = m2 THEN Abs(l1 - l2) ELSE (90000 - l1) + (90000 - l2)

\* (TLC integers are 32 bit: metres, 111.2 m per millidegree - 0.005 % off, inside the margin)
Metres(d) == (d * 1112) \div 10            \* distance in metres of d millidegrees
Inside(d, r)  == Metres(d) * 101 < r * 100000
Outside(d, r) == Metres(d) * 99  > r * 100000

EqDocs   == { [fam |-> "eq", lon |-> x, lat |-> 0] : x \in EqLons }
PoleDocs == { [fam |-> "pole", lon |-> m, lat |-> l] : m \in {0, 180000}, l \in PoleLats }
Docs == EqDocs \cup PoleDocs

Sep(c, d) == IF c.fam = "eq" THEN SepEq(c.lon, d.lon) ELSE SepPole(c.lon, c.lat, d.lon, d.lat)
Must(c, r)    == { d \in Docs : d.fam = c.fam /\ Inside(Sep(c, d), r) }
MustNot(c, r) == { d \in Docs : d.fam = c.fam /\ Outside(Sep(c, d), r) }

VARIABLES centre, radius, must, mustnot
vars == <<centre, radius, must, mustnot>>
Init == /\ centre \in Docs /\ radius \in Radii
        /\ must = Must(centre, radius) /\ mustnot = MustNot(centre, radius)
Next == UNCHANGED vars
Spec == Init /\ [][Next]_vars

\* sanity of the oracle itself
Disjoint      == must \cap mustnot = {}
CentreIsIn    == centre \in must
Symmetric     == \A d \in must : centre \in Must(d, radius)
\* a circle that reaches over the date line (or the pole) contains documents of the other side
CrossesSeen   == TRUE
Wraps == (centre.fam = "eq" /\ centre.lon = 179950 /\ radius >= 30) =>
            \E d \in must : d.lon < 0
OverPole == (centre.fam = "pole" /\ centre.lat = 89950 /\ centre.lon = 0 /\ radius >= 30) =>
            \E d \in must : d.lon = 180000
=============================================================================
