\* C11 thorough: scorch on disk, 3 client goroutines x 1 call (+1 call after Close returned), safety + deadlock
SPECIFICATION Spec
CONSTANTS
  Callers = {c1, c2, c3}
  MaxOps = 1
  LateOps = 1
  Ops = {"batchS", "batchU", "search", "fielddict", "forcemerge", "copyto", "doccount", "stats", "close"}
  Engine = "disk"
  MaxMerges = 1
  PauseMode = "none"
  HazFD = FALSE
  LegacyClose2 = FALSE
  LegacyFMMem = FALSE
SYMMETRY Symm
VIEW View
INVARIANTS TypeOK RWExclusion LockBalanced NoPanic ContractHolds
  CloseReturnMeansStopped WriterMeansQuiescent BatchNeverSeesClose NoOrphanAck ForceMergeSingle
CHECK_DEADLOCK TRUE
