\* thorough: real base 16, 2 levels, real 7-bit groups
CONSTANTS
  B = 16
  L = 2
  G = 7
  ShiftStart = 32
  FE = 3
SPECIFICATION SplitSpec
CHECK_DEADLOCK FALSE
INVARIANTS TypeOK LoopInv Disjoint ExactCover Chain SameAsSplit Bounded MatchIff ChainSound EnumCountOK EnumLinear
PROPERTY Termination
