\* thorough: the real base 16 with 2 levels and real 7-bit term bytes: all 65536 (min,max); the costlier redundant invariants are left to the smaller configs
CONSTANTS
  B = 16
  L = 2
  G = 7
  ShiftStart = 32
  FE = 3
SPECIFICATION SplitSpec
CHECK_DEADLOCK FALSE
INVARIANTS TypeOK LoopInv ExactCover Chain SameAsSplit EnumCountOK EnumLinear
PROPERTY Termination
