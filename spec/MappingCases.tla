--------------------------- MODULE MappingCases ---------------------------
(***************************************************************************)
(* C16: the finite case space TLC enumerates for Mapping.tla.              *)
(*                                                                         *)
(* A case is [fam, m, d]: a mapping tree (depth <= 2 below the type root,  *)
(* <= 2 properties per level), a document (with values the mapping         *)
(* ignores) and -- computed by TLC -- the expected outcome                 *)
(* out = MapDocument(m, d).  Every case is one initial state; the harness  *)
(* dumps the states and replays each case into the real mapping package.   *)
(* The families vary one group of features exhaustively and keep the rest  *)
(* at the defaults of bleve's constructors.                                *)
(*                                                                         *)
(* Invariants checked by TLC on every case (the model decides):            *)
(*   RoundTripIdentity   RoundTrip(m) = m         (JSON form loses nothing)*)
(*   RoundTripBehaviour  MapDocument(RoundTrip(m), d) = MapDocument(m, d)  *)
(*   AlgorithmMeetsSpec  MapDocument(m, d) = MapDocSpec(m, d)              *)
(*   ValidityAsDesigned  Valid(m) <=> fam # "invalid"                      *)
(*   NothingUnderDisabled, OptionsNotMixed  (structural sanity of `out`)   *)
(***************************************************************************)
EXTENDS Mapping

CONSTANT Thorough          \* FALSE: quick families; TRUE: wider products

VARIABLES c,               \* [fam, m, d, valid, out]
          done             \* out has been computed (cases to replay: done = TRUE)

\* ------------------------------------------------------- building blocks

DefaultDM == DM(TRUE, TRUE, FALSE, "", "", <<>>, <<>>)     \* NewDocumentMapping
DefaultIM == IM(<<>>, DefaultDM, "_type", "_default", "standard", ParserOptional,
                "_all", "", TRUE, TRUE, TRUE, {}, {})      \* NewIndexMapping
WithCustom(im) == [im EXCEPT !.customAnalyzers = {"custA"},
                             !.customDateParsers = {ParserCustom}]

\* field mappings as made by bleve's constructors
TextFM     == FM("text", "", "", TRUE, TRUE, TRUE, TRUE, TRUE, FALSE, "")
NumFM      == FM("number", "", "", TRUE, TRUE, FALSE, TRUE, TRUE, FALSE, "")
BoolFM     == FM("boolean", "", "", TRUE, TRUE, FALSE, TRUE, TRUE, FALSE, "")
DateFM     == FM("datetime", "", "", TRUE, TRUE, FALSE, TRUE, TRUE, FALSE, "")
KeywordFM  == [TextFM EXCEPT !.analyzer = "keyword"]
CtorFM(t)  == CASE t = "text" -> TextFM [] t = "number" -> NumFM
                [] t = "boolean" -> BoolFM [] t = "datetime" -> DateFM

\* a value of every kind (also kinds the mapping at hand ignores), in an array
AllKinds == VArr(<<VStr(SText), VStr(SIso), VStr(SSlash), VNum(7), VBool(TRUE),
                   VNull, VMap(<<E("b", VStr(SText))>>)>>)
Scalars  == <<VStr(SText), VStr(SIso), VStr(SSlash), VNum(7), VBool(FALSE), VNull>>

Case(fam, m, d) == [fam |-> fam, m |-> m, d |-> d]

\* --------------------------------------------------------------- families

\* A. one property, one field: every type x every subset of the six options
\*    x explicit field name; document: all value kinds in an array
OptSets == [store : BOOLEAN, index : BOOLEAN, tv : BOOLEAN, inAll : BOOLEAN,
            dv : BOOLEAN, sfn : BOOLEAN]
FamOptions ==
  { Case("options",
         [DefaultIM EXCEPT !.def.props = <<P("a", [DefaultDM EXCEPT !.fields =
            <<FM(t, n, "", o.store, o.index, o.tv, o.inAll, o.dv, o.sfn, "")>>])>>],
         VMap(<<E("a", AllKinds), E("z", VNum(1))>>))
    : t \in KnownFieldTypes,
      n \in (IF Thorough THEN {"", "x"} ELSE {""}), o \in OptSets }
  \cup
  { Case("options",
         [DefaultIM EXCEPT !.def.props = <<P("a", [DefaultDM EXCEPT !.fields =
            <<FM(t, "x", "", o.store, o.index, o.tv, o.inAll, o.dv, o.sfn, "")>>])>>],
         VMap(<<E("a", Scalars[i])>>))
    : t \in KnownFieldTypes, i \in {1, 2, 4, 5},
      o \in {o \in OptSets : Cardinality({k \in DOMAIN o : o[k]}) \in {0, 1, 5, 6}} }

\* S. structure: enabled / dynamic at three levels, explicit vs dynamic
\*    children, values the mapping ignores
NodeAB(v) ==      \* variants of the sub-sub-mapping a.b
  CASE v = 0 -> <<>>
    [] v = 1 -> <<P("b", [DefaultDM EXCEPT !.fields = <<TextFM>>])>>
    [] v = 2 -> <<P("b", [DefaultDM EXCEPT !.enabled = FALSE, !.fields = <<TextFM>>])>>
    [] v = 3 -> <<P("b", [DefaultDM EXCEPT !.dynamic = FALSE])>>
    [] v = 4 -> <<P("b", [DefaultDM EXCEPT !.dynamic = FALSE, !.fields = <<NumFM>>])>>
NodeA(v, ab) ==   \* variants of the sub-mapping a
  CASE v = 0 -> <<>>
    [] v = 1 -> <<P("a", [DefaultDM EXCEPT !.props = NodeAB(ab)])>>
    [] v = 2 -> <<P("a", [DefaultDM EXCEPT !.dynamic = FALSE, !.props = NodeAB(ab)])>>
    [] v = 3 -> <<P("a", [DefaultDM EXCEPT !.enabled = FALSE, !.props = NodeAB(ab)])>>
    [] v = 4 -> <<P("a", [DefaultDM EXCEPT !.fields = <<TextFM>>, !.props = NodeAB(ab)])>>
    [] v = 5 -> <<P("a", [DefaultDM EXCEPT !.dynamic = FALSE, !.fields = <<TextFM, NumFM>>,
                                            !.props = NodeAB(ab)])>>
NodeB(v) ==
  CASE v = 0 -> <<>>
    [] v = 1 -> <<P("b", [DefaultDM EXCEPT !.fields = <<NumFM>>])>>
StructDocs ==
  << VMap(<<E("a", VMap(<<E("b", VStr(SText)), E("c", VNum(5)), E("d", VStr(SIso))>>)),
            E("b", VNum(5)), E("z", VStr(SText))>>),
     VMap(<<E("a", VStr(SText)), E("b", VArr(<<VNum(1), VStr(SText), VNull>>)),
            E("z", VMap(<<E("y", VBool(TRUE))>>))>>),
     VMap(<<E("a", VArr(<<VMap(<<E("b", VStr(SText))>>), VMap(<<E("b", VNum(1))>>),
                          VStr(SText), VNum(2)>>)),
            E("b", VMap(<<E("q", VNum(3))>>))>>),
     VMap(<<E("a", VMap(<<E("b", VMap(<<E("c", VStr(SText)), E("b", VBool(TRUE))>>))>>))>>) >>
FamStructure ==
  { Case("structure",
         [DefaultIM EXCEPT !.def = [DefaultDM EXCEPT !.enabled = r[1], !.dynamic = r[2],
                                    !.props = NodeA(a, ab) \o NodeB(b)]],
         StructDocs[di])
    : r \in {<<TRUE, TRUE>>, <<TRUE, FALSE>>, <<FALSE, TRUE>>},
      a \in 0..5, ab \in 0..4, b \in 0..1, di \in 1..Len(StructDocs) }

\* N. nested sub-documents (arrays of objects become nested documents)
FamNested ==
  { Case("nested",
         [DefaultIM EXCEPT !.def.props =
            <<P("a", [DefaultDM EXCEPT !.nested = na, !.dynamic = dyn, !.props =
                <<P("b", [DefaultDM EXCEPT !.nested = nb, !.fields = <<TextFM>>])>>])>>],
         d)
    : na \in BOOLEAN, nb \in BOOLEAN, dyn \in BOOLEAN,
      d \in { VMap(<<E("a", VArr(<<VMap(<<E("b", VStr(SText)), E("c", VNum(1))>>),
                                   VStr(SText), VNull,
                                   VMap(<<E("b", VArr(<<VStr(SText), VMap(<<E("q", VNum(2))>>)>>))>>)>>))>>),
              VMap(<<E("a", VMap(<<E("b", VArr(<<VMap(<<E("c", VNum(1))>>), VStr(SText)>>))>>))>>) } }

\* AN. analyzer inheritance: field -> nearest default_analyzer -> index default
FamAnalyzer ==
  { Case("analyzer",
         WithCustom([DefaultIM EXCEPT !.defAnalyzer = ia, !.def =
            [DefaultDM EXCEPT !.defAnalyzer = ra, !.props =
               <<P("a", [DefaultDM EXCEPT !.defAnalyzer = aa, !.props =
                   <<P("b", [DefaultDM EXCEPT !.defAnalyzer = ba, !.fields =
                       <<[TextFM EXCEPT !.analyzer = fa], [TextFM EXCEPT !.name = "k", !.analyzer = "keyword"]>>])>>])>>]]),
         VMap(<<E("a", VMap(<<E("b", VStr(SText)), E("z", VStr(SText))>>)),
                E("z", VStr(SText))>>))
    : ia \in {"standard", "simple"}, ra \in {"", "custA"}, aa \in {"", "keyword"},
      ba \in {"", "simple"}, fa \in {"", "standard", "custA"} }

\* SH. the SAME field mapping (in a Go-built mapping: one shared object) under
\* sub-mappings and type mappings whose inherited default analyzers differ: every
\* attachment resolves its own analyzer, for every document order
FamShared ==
  { Case("shared",
         WithCustom([DefaultIM EXCEPT !.defAnalyzer = ia, !.typeField = "kind",
            !.types = <<P("T1", [DefaultDM EXCEPT !.defAnalyzer = ta, !.props =
                           <<P("a", [DefaultDM EXCEPT !.fields = <<fm>>])>>])>>,
            !.def = [DefaultDM EXCEPT !.props =
               <<P("a", [DefaultDM EXCEPT !.defAnalyzer = aa, !.fields = <<fm>>]),
                 P("b", [DefaultDM EXCEPT !.defAnalyzer = ba, !.fields = <<fm>>]),
                 P("c", [DefaultDM EXCEPT !.fields = <<fm>>])>>]]),
         d)
    : ia \in {"standard", "simple"}, ta \in {"keyword", "custA"}, aa \in {"keyword", "custA"},
      ba \in {"", "simple"},
      fm \in {TextFM, [TextFM EXCEPT !.name = "x", !.tv = FALSE]},
      d \in { VMap(<<E("a", VStr(SText)), E("b", VStr(SText)), E("c", VStr(SText))>>),
              VMap(<<E("c", VStr(SText)), E("b", VStr(SText)), E("a", VStr(SText))>>),
              VMap(<<E("kind", VStr("T1")), E("a", VStr(SText))>>) } }

\* T. type selection: type field / default type / type mappings present
TypeT1 == [DefaultDM EXCEPT !.dynamic = FALSE,
                            !.props = <<P("a", [DefaultDM EXCEPT !.fields = <<NumFM>>])>>]
TypeT2 == [DefaultDM EXCEPT !.enabled = FALSE]
TypeDocs ==
  << VMap(<<E("a", VNum(1)), E("s", VStr(SText))>>),
     VMap(<<E("_type", VStr("T1")), E("a", VNum(1)), E("s", VStr(SText))>>),
     VMap(<<E("kind", VStr("T2")), E("a", VNum(1))>>),
     VMap(<<E("_type", VNum(5)), E("a", VNum(1))>>),
     VMap(<<E("kind", VStr("zz")), E("a", VNum(1))>>),
     VMap(<<E("_type", VStr("T2")), E("kind", VStr("T1")), E("a", VNum(1))>>) >>
FamTypes ==
  { Case("types",
         [DefaultIM EXCEPT !.typeField = tf, !.defType = dt,
            !.types = (IF t1 THEN <<P("T1", TypeT1)>> ELSE <<>>) \o
                      (IF t2 THEN <<P("T2", TypeT2)>> ELSE <<>>)],
         TypeDocs[di])
    : tf \in {"_type", "kind", ""}, dt \in {"_default", "T1"}, t1 \in BOOLEAN, t2 \in BOOLEAN,
      di \in 1..Len(TypeDocs) }

\* M. several fields on one property: names, types, options must not mix
FieldVariants ==
  { FM(t, n, "", o[1], o[2], o[3], o[4], o[5], o[6], "")
    : t \in KnownFieldTypes, n \in {"", "x"},
      o \in {<<TRUE, TRUE, TRUE, TRUE, TRUE, FALSE>>, <<FALSE, FALSE, FALSE, FALSE, FALSE, FALSE>>,
             <<TRUE, FALSE, FALSE, TRUE, FALSE, TRUE>>, <<FALSE, TRUE, TRUE, FALSE, TRUE, FALSE>>} }
FamMulti ==
  { Case("multi",
         [DefaultIM EXCEPT !.def.props = <<P("p", [DefaultDM EXCEPT !.props =
            <<P("a", [DefaultDM EXCEPT !.fields = <<f1, f2>>])>>])>>],
         VMap(<<E("p", VMap(<<E("a", AllKinds)>>))>>))
    : f1 \in FieldVariants, f2 \in FieldVariants }

\* D. dynamic defaults and the default date parser
FamDynamic ==
  { Case("dynamic",
         WithCustom([DefaultIM EXCEPT !.storeDyn = s, !.indexDyn = i, !.dvDyn = v,
                                      !.defDateParser = p]),
         VMap(<<E("s", VStr(SText)), E("i", VStr(SIso)), E("l", VStr(SSlash)),
                E("n", VNum(3)), E("b", VBool(TRUE)), E("o", VNull),
                E("m", VMap(<<E("x", VArr(<<VNum(1), VStr(SSlash)>>))>>))>>))
    : s \in BOOLEAN, i \in BOOLEAN, v \in BOOLEAN, p \in {ParserOptional, ParserCustom} }

\* DF. date_format of a field vs the index default parser
FamDateFormat ==
  { Case("dateformat",
         WithCustom([DefaultIM EXCEPT !.defDateParser = p, !.def.props =
            <<P("a", [DefaultDM EXCEPT !.fields =
                <<[DateFM EXCEPT !.dateFormat = f], [TextFM EXCEPT !.name = "t"]>>])>>]),
         VMap(<<E("a", VArr(<<VStr(SIso), VStr(SSlash), VStr(SText)>>))>>))
    : p \in {ParserOptional, ParserCustom}, f \in {"", ParserOptional, ParserCustom} }

\* ALL. the composite _all field: a property named _all, include_in_all
FamAll ==
  { Case("all",
         [DefaultIM EXCEPT !.def.props =
            (CASE av = 0 -> <<>>
               [] av = 1 -> <<P("_all", DefaultDM)>>
               [] av = 2 -> <<P("_all", [DefaultDM EXCEPT !.enabled = FALSE])>>)
            \o <<P("a", [DefaultDM EXCEPT !.fields =
                   <<[TextFM EXCEPT !.inAll = i1], [NumFM EXCEPT !.name = "n", !.inAll = i2]>>])>>],
         VMap(<<E("a", VArr(<<VStr(SText), VNum(1)>>)), E("_all", VStr(SText)), E("z", VNum(2))>>))
    : av \in 0..2, i1 \in BOOLEAN, i2 \in BOOLEAN }

\* ST. struct documents and struct_tag_key (only the type root's key is used)
StructDoc ==
  [k |-> "struct",
   m |-> << [key |-> "a", alt |-> "b", go |-> "Fa", val |-> VStr(SText)],
            [key |-> "b", alt |-> "a", go |-> "Fb", val |-> VNum(4)],
            [key |-> "c", alt |-> "z", go |-> "Kind", val |-> VStr("T1")] >>]
FamStruct ==
  { Case("struct",
         [DefaultIM EXCEPT !.typeField = tf,
            !.types = <<P("T1", [DefaultDM EXCEPT !.tagKey = tk2, !.dynamic = FALSE, !.props =
                         <<P("a", [DefaultDM EXCEPT !.tagKey = "alt", !.fields = <<TextFM>>])>>])>>,
            !.def = [DefaultDM EXCEPT !.tagKey = tk, !.props =
                         <<P("a", [DefaultDM EXCEPT !.fields = <<TextFM, NumFM>>]),
                           P("Fb", [DefaultDM EXCEPT !.fields = <<[NumFM EXCEPT !.name = "go"]>>])>>]],
         StructDoc)
    : tk \in {"", "json", "alt", "zzz"}, tk2 \in {"", "alt"}, tf \in {"_type", "Kind"} }

\* IDX. index level settings that MapDocument does not read: they must simply
\*      survive (the harness compares them and DefaultSearchField())
FamIndexLevel ==
  { Case("indexlevel",
         (IF cu THEN WithCustom(DefaultIM) ELSE DefaultIM),
         VMap(<<E("a", VStr(SText))>>))
    : cu \in BOOLEAN } \cup
  { Case("indexlevel",
         [(IF cu THEN WithCustom(DefaultIM) ELSE DefaultIM)
            EXCEPT !.defField = df, !.scoring = sc, !.defAnalyzer = (IF cu THEN "custA" ELSE "simple")],
         VMap(<<E("a", VStr(SText)), E("d", VStr(SSlash))>>))
    : cu \in BOOLEAN, df \in {"_all", "a", ""}, sc \in ScoringModels }

\* V. invalid mappings: Validate() must fail, before and after the round trip
FamInvalid ==
  { Case("invalid", m, VMap(<<E("a", VStr(SText))>>))
    : m \in { [DefaultIM EXCEPT !.defAnalyzer = "nope"],
              [DefaultIM EXCEPT !.defDateParser = "nodate"],
              [DefaultIM EXCEPT !.defDateParser = ParserCustom],        \* not defined
              [DefaultIM EXCEPT !.def.defAnalyzer = "custA"],           \* not defined
              [DefaultIM EXCEPT !.def.props = <<P("a", [DefaultDM EXCEPT !.defAnalyzer = "nope"])>>],
              [DefaultIM EXCEPT !.def.props = <<P("a", [DefaultDM EXCEPT !.fields =
                                   <<[TextFM EXCEPT !.analyzer = "nope"]>>])>>],
              [DefaultIM EXCEPT !.def.props = <<P("a", [DefaultDM EXCEPT !.fields =
                                   <<[DateFM EXCEPT !.dateFormat = "nodate"]>>])>>],
              [DefaultIM EXCEPT !.def.props = <<P("a", [DefaultDM EXCEPT !.fields =
                                   <<[TextFM EXCEPT !.type = "bogus"]>>])>>],
              [DefaultIM EXCEPT !.def.nested = TRUE],
              [DefaultIM EXCEPT !.types = <<P("T1", [DefaultDM EXCEPT !.nested = TRUE])>>],
              [DefaultIM EXCEPT !.scoring = "bm42"] } }

\* X. (thorough) cross product of structure flags, nested, analyzer defaults
\*    and field variants at depth 2
FamCross ==
  IF ~Thorough THEN {}
  ELSE
  { Case("cross",
         [DefaultIM EXCEPT !.defAnalyzer = ia, !.def =
            [DefaultDM EXCEPT !.defAnalyzer = ra, !.dynamic = rd, !.props =
               <<P("a", [DefaultDM EXCEPT !.enabled = ae, !.dynamic = ad, !.nested = an,
                                          !.fields = af, !.props =
                   <<P("b", [DefaultDM EXCEPT !.dynamic = bd, !.fields = <<f>>])>>])>>]],
         StructDocs[di])
    : ia \in {"standard", "simple"}, ra \in {"", "keyword"}, rd \in BOOLEAN, ae \in BOOLEAN,
      ad \in BOOLEAN, an \in BOOLEAN, af \in {<<>>, <<TextFM>>}, bd \in BOOLEAN,
      f \in FieldVariants, di \in 1..Len(StructDocs) }

Cases ==
  FamCross \cup FamOptions \cup FamStructure \cup FamNested \cup FamAnalyzer \cup FamTypes
  \cup FamMulti \cup FamDynamic \cup FamDateFormat \cup FamAll \cup FamStruct
  \cup FamIndexLevel \cup FamInvalid \cup FamShared

\* ------------------------------------------------------------------ spec

\* Init only picks the case; the step computes the expected outcome, so that
\* the expensive part (MapDocument and the invariants) runs in TLC's parallel
\* breadth-first phase and not in the sequential initial-state enumeration.
Init == /\ \E x \in Cases : c = [fam |-> x.fam, m |-> x.m, d |-> x.d, valid |-> FALSE,
                              out |-> NotIndexed]
        /\ done = FALSE
Next == /\ ~done
        /\ done' = TRUE
        /\ c' = [c EXCEPT !.out = MapDocument(c.m, c.d), !.valid = Valid(c.m)]
Spec == Init /\ [][Next]_<<c, done>>

\* -------------------------------------------------------------- invariants

RoundTripIdentity  == done => RoundTrip(c.m) = c.m
RoundTripBehaviour == done => MapDocument(RoundTrip(c.m), c.d) = c.out
AlgorithmMeetsSpec == done => MapDocSpec(c.m, c.d) = c.out
ValidityAsDesigned == done => (c.valid <=> (c.fam # "invalid"))

\* every field name lies below no disabled sub-mapping, and every explicit
\* field carries exactly the options of one field mapping at its path
RECURSIVE AllFields(_)
AllFields(o) ==       \* fields of the document and of all nested documents
  {o.fields[i] : i \in 1..Len(o.fields)}
  \cup UNION {AllFields(o.nested[i]) : i \in 1..Len(o.nested)}

RECURSIVE DMsAt(_, _)     \* all (path-name, dm) pairs of a mapping tree
DMsAt(dm, prefix) ==
  {<<prefix, dm>>} \cup
  UNION { DMsAt(dm.props[i].dm,
                IF prefix = "" THEN dm.props[i].name ELSE prefix \o "." \o dm.props[i].name)
          : i \in 1..Len(dm.props) }

Root == MappingForType(c.m, DetermineType(c.m, c.d))

OptionsNotMixed ==
  done => \A f \in AllFields(c.out) :
    \/ \E pd \in DMsAt(Root, "") : \E i \in 1..Len(pd[2].fields) :
          /\ Opts(pd[2].fields[i]) = f.opts
          /\ pd[2].fields[i].type = f.type
    \/ f.opts = Opts(DynFM(c.m, f.type))           \* a dynamic field

NothingWhenDisabled ==
  done /\ ~Root.enabled => (c.out = NotIndexed)

FamiliesSeen == TRUE
=============================================================================
