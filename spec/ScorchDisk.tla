----------------------------- MODULE ScorchDisk -----------------------------
(***************************************************************************)
(* The scorch index engine at the grain of its critical sections           *)
(* (index/scorch: scorch.go, introducer.go, persister.go, merge.go,        *)
(* snapshot_index.go, rollback.go).                                        *)
(*                                                                         *)
(*  - writers prepare a batch against the root they see (optimistic        *)
(*    obsoletes, possibly stale) and hand it to the introducer;            *)
(*  - the introducer is the only process that swaps `root`                 *)
(*    (IntroSegment / IntroPersist / IntroMerge);                          *)
(*  - the persister takes the root, optionally merges its in-memory        *)
(*    segments into one file (persisting an EQUIVALENT snapshot under the  *)
(*    old epoch), writes files, has them introduced, commits one bolt      *)
(*    transaction naming them, un-marks them, acknowledges waiting         *)
(*    batches, and purges old bolt snapshots and unnamed zap files;        *)
(*  - the merger takes the root, plans tasks over FILE segments, marks the *)
(*    new file ineligible for removal, writes it, has it introduced        *)
(*    (re-applying deletions that arrived meanwhile) and cleans up;        *)
(*  - readers and online copies hold snapshots.                            *)
(*                                                                         *)
(* Documents are pairs <<id, b>>: id written by batch number b.  The       *)
(* abstract content of a snapshot is the set of its live documents; the    *)
(* refinement target is Index.tla's last-write-wins map:                   *)
(*      LiveDocs(snapshot) = Replay(k)  for the k batches introduced.      *)
(*                                                                         *)
(* A crash is not a transition (DESIGN 2.4): "what a kill at this instant  *)
(* recovers" is the state function RecSnap, and the durability invariants  *)
(* are evaluated in EVERY reachable state.                                 *)
(***************************************************************************)
EXTENDS Naturals, Sequences, FiniteSets, TLC, ScorchOps

CONSTANTS Ids,          \* document ids
          MaxB,         \* number of batches submitted
          BatchShapes,  \* set of [puts, dels] records a batch may be
          Writers,      \* concurrent batch callers
          Safe,         \* TRUE: Batch returns only after its data was persisted
          KeepN,        \* numSnapshotsToKeep
          MaxEp, MaxSid,
          WithReader, WithCopy, WithMerger, WithPurge, WithMemMerge,
          MaxMergeInputs, \* bound on the size of one merge task (0 = any)
          WithMergeFail, \* TRUE: a file merge may fail / be cancelled after its output was written
          MaxOpens,      \* bound on the number of reader / copy opens (keeps simulation from toggling them forever)
          AsyncRelease,  \* TRUE: eligibility for removal is recorded by an asynchronous step (as in the code);
                         \* FALSE: an epoch is eligible as soon as nobody holds it (most aggressive purging)
          BuilderBase,   \* TRUE: the index was made by the offline builder (builder.go) and is then used online:
                         \* one recorded snapshot whose only segment has an id that is NOT the number of its file
          MaxRestarts,   \* how often the process may die and the index be opened again (0: never)
          SidFromRoot,   \* FALSE (the code): after reopening, new segment ids start beyond every file NUMBER found
                         \* in the directory; TRUE: the deviating design "beyond the ids of the recovered root"
          ForgetInherited, \* FALSE (the code): loadFromBolt registers every recorded snapshot older than the one it
                         \* loads as eligible for removal; TRUE: the deviating design that stops at the root
          CopySchedById  \* FALSE (the code): CopyReader schedules a persisted segment under the name of its file
                         \* and an in-memory one under the name its id will give it; TRUE: the deviating design
                         \* "a file is named after its segment id" (refuted for a builder-made base)

VARIABLES batch,        \* b -> [puts, dels]   (collapsed ops of batch b)
          nsub,         \* batches submitted so far
          intro,        \* introduction order: Seq of batch numbers
          segdocs,      \* sid -> set of documents physically in the segment
          root,         \* [ep, segs : Seq([sid, del, f]), k]  k = #batches it contains
          nextEp, nextSid,
          wst,          \* writer -> [st, b, sid, obs]
          pend,         \* rootPersisted: batches waiting for the next persist
          acked,        \* batches whose persisted-channel was closed
          pPc, pSnap, pAcks, pNew, lastP,
          mPc, mSnap, mTask, mNew, lastM,
          bolt,         \* ep -> snapshot | NoSnap
          disk,         \* zap files in the directory, by file NAME (FileOf)
          inel,         \* ineligibleForRemoval (file names)
          elig,         \* eligibleForRemoval (epochs)
          rdr,          \* snapshot held by a reader, or NoSnap
          cPc, cSnap, cSched, cCopied,  \* online copy
          dirty,        \* disk/inel/bolt/elig changed since the last purge round began
          nopen,        \* number of readers / copies opened so far (bounded by MaxOpens)
          rst           \* [n, base]: restarts so far, and the epoch the current process life started from
vars == <<batch, nsub, intro, segdocs, root, nextEp, nextSid, wst, pend, acked,
          pPc, pSnap, pAcks, pNew, lastP, mPc, mSnap, mTask, mNew, lastM,
          bolt, disk, inel, elig, rdr, cPc, cSnap, cSched, cCopied, dirty, nopen, rst>>

-----------------------------------------------------------------------------
-----------------------------------------------------------------------------
BoltEps == BoltEpsOf(bolt)
Named == NamedOf(bolt)
\* The name of the file that holds (or will hold) segment s.  Persister and merger
\* name a file after the id of its segment (zapFileName(id)); the offline builder
\* does not: it records its single segment under the first id with the file the
\* SECOND id would get (builder.go: "segment id 2 is chosen to match the behavior
\* of a scorch index which indexes a single batch"), and the ids handed out after
\* opening start beyond every file number found in the directory.
BuilderSid == 1
BuilderFile == 2
FileOf(s) == IF BuilderBase /\ s = BuilderSid THEN BuilderFile ELSE s
FN(S) == { FileOf(s) : s \in S }
\* segments whose file is in the directory
DiskSids == { s \in 1..(MaxSid + 1) : (BuilderBase => s # BuilderFile) /\ FileOf(s) \in disk }
\* what a kill at this instant recovers: the newest recorded snapshot all of whose files are present
RecEp == RecEpOf(bolt, DiskSids)
RecSnap == IF RecEp = 0 THEN NoSnap ELSE bolt[RecEp]
LiveDocs(snap) == LiveDocsOf(segdocs, snap)
Replay(k) == ReplayOf(batch, intro, k)
NoBatch == [puts |-> {}, dels |-> {}]
IdleW == [st |-> "idle", b |-> 0, sid |-> 0, obs |-> <<>>]

Held == (IF pPc \notin {"idle", "purgeB", "purgeZ"} THEN {pSnap.ep} ELSE {}) \cup
        (IF mPc # "idle" THEN {mSnap.ep} ELSE {}) \cup
        (IF rdr # NoSnap THEN {rdr.ep} ELSE {}) \cup
        (IF cPc # "idle" THEN {cSnap.ep} ELSE {})

\* what the offline builder leaves behind (batch 1 = everything it was given):
\* one file segment, one recorded snapshot naming it, nothing in memory
BuilderPuts == Ids
BuilderSnap == [ep |-> 1, segs |-> <<[sid |-> BuilderSid, del |-> {}, f |-> TRUE]>>, k |-> 1]
InitEmpty ==
        /\ batch = [n \in 1..MaxB |-> NoBatch] /\ nsub = 0 /\ intro = <<>>
        /\ segdocs = [s \in 1..MaxSid |-> {}]
        /\ root = NoSnap /\ nextEp = 1 /\ nextSid = 1
        /\ acked = {} /\ lastP = 0
        /\ bolt = [e \in 1..MaxEp |-> NoSnap] /\ disk = {}
InitBuilt ==
        /\ batch = [n \in 1..MaxB |-> IF n = 1 THEN [puts |-> BuilderPuts, dels |-> {}] ELSE NoBatch]
        /\ nsub = 1 /\ intro = <<1>>
        /\ segdocs = [s \in 1..MaxSid |-> IF s = BuilderSid THEN { <<id, 1>> : id \in BuilderPuts } ELSE {}]
        /\ root = BuilderSnap /\ nextEp = 2 /\ nextSid = BuilderFile + 1
        /\ acked = {1} /\ lastP = 1
        /\ bolt = [e \in 1..MaxEp |-> IF e = 1 THEN BuilderSnap ELSE NoSnap] /\ disk = {BuilderFile}
Init == /\ IF BuilderBase THEN InitBuilt ELSE InitEmpty
        /\ wst = [w \in Writers |-> IdleW]
        /\ pend = {}
        /\ pPc = "idle" /\ pSnap = NoSnap /\ pAcks = {} /\ pNew = 0
        /\ mPc = "idle" /\ mSnap = NoSnap /\ mTask = {} /\ mNew = 0 /\ lastM = 0
        /\ inel = {} /\ elig = {} /\ rst = [n |-> 0, base |-> 0]
        /\ rdr = NoSnap
        /\ cPc = "idle" /\ cSnap = NoSnap /\ cSched = {} /\ cCopied = {}
        /\ dirty = FALSE /\ nopen = 0

Up == nextEp <= MaxEp /\ nextSid <= MaxSid

\* ---------------- writers (scorch.go Batch / prepareSegment) ----------------
\* prepareSegment: allocate the segment id, compute optimistic obsoletes against
\* the root seen NOW (the introducer may have moved on by the time it applies).
Prepare(w, bt) ==
  /\ UNCHANGED rst
  /\ Up /\ wst[w].st = "idle" /\ nsub < MaxB
  /\ LET n == nsub + 1 IN
     /\ batch' = [batch EXCEPT ![n] = bt] /\ nsub' = n
     /\ segdocs' = [segdocs EXCEPT ![nextSid] = { <<id, n>> : id \in bt.puts }]
     /\ wst' = [wst EXCEPT ![w] = [st |-> "prepared", b |-> n, sid |-> nextSid,
                   obs |-> [ s \in Sids(root) |-> Obsoleted(segdocs[s], bt) ]]]
  /\ nextSid' = nextSid + 1
  /\ UNCHANGED <<intro, root, nextEp, pend, acked, pPc, pSnap, pAcks, pNew, lastP,
                 mPc, mSnap, mTask, mNew, lastM, bolt, disk, inel, elig, rdr, cPc, cSnap, cSched, cCopied, nopen>>
  /\ UNCHANGED dirty

\* introducer.go introduceSegment
IntroSegment(w) ==
  /\ UNCHANGED rst
  /\ Up /\ wst[w].st = "prepared"
  /\ LET b == wst[w].b
         r == IntroSegmentResult(segdocs, root, batch[b], wst[w].sid, wst[w].obs) IN
     /\ root' = [ep |-> nextEp, segs |-> r.segs, k |-> Len(intro) + 1]
     /\ intro' = Append(intro, b)
     /\ inel' = inel \ FN(r.dropped)
     /\ pend' = pend \cup {b}
     /\ wst' = [wst EXCEPT ![w] = IF Safe THEN [@ EXCEPT !.st = "applied"] ELSE IdleW]
  /\ nextEp' = nextEp + 1
  /\ UNCHANGED <<batch, nsub, segdocs, nextSid, acked, pPc, pSnap, pAcks, pNew, lastP,
                 mPc, mSnap, mTask, mNew, lastM, bolt, disk, elig, rdr, cPc, cSnap, cSched, cCopied, nopen>>
  /\ dirty' = TRUE

\* safe mode: Batch returns after <-introduction.persisted
BatchReturn(w) ==
  /\ UNCHANGED rst
  /\ wst[w].st = "applied" /\ wst[w].b \in acked
  /\ wst' = [wst EXCEPT ![w] = IdleW]
  /\ UNCHANGED <<batch, nsub, intro, segdocs, root, nextEp, nextSid, pend, acked, pPc, pSnap, pAcks, pNew, lastP,
                 mPc, mSnap, mTask, mNew, lastM, bolt, disk, inel, elig, rdr, cPc, cSnap, cSched, cCopied, nopen>>
  /\ UNCHANGED dirty

\* ---------------- persister (persister.go) ----------------
PTake ==
  /\ UNCHANGED rst
  /\ Up /\ pPc = "idle" /\ root.ep > lastP
  /\ pSnap' = root /\ pAcks' = pend /\ pend' = {}
  /\ pPc' = IF WithMemMerge /\ Cardinality(MemSids(root)) >= 2 THEN "mmWrite" ELSE "write"
  /\ UNCHANGED <<batch, nsub, intro, segdocs, root, nextEp, nextSid, wst, acked, pNew, lastP,
                 mPc, mSnap, mTask, mNew, lastM, bolt, disk, inel, elig, rdr, cPc, cSnap, cSched, cCopied, nopen>>
  /\ UNCHANGED dirty

\* mergeAndPersistInMemorySegments: mark the new name ineligible, merge all
\* in-memory segments of pSnap into one new FILE (fused: nobody can observe the
\* state between the mark and the write, DESIGN 2.4)
PMMWrite ==
  /\ UNCHANGED rst
  /\ Up /\ pPc = "mmWrite"
  /\ pNew' = nextSid /\ nextSid' = nextSid + 1
  /\ inel' = inel \cup {FileOf(nextSid)} /\ disk' = disk \cup {FileOf(nextSid)}
  /\ segdocs' = [segdocs EXCEPT ![nextSid] = MergedDocsOf(segdocs, pSnap, MemSids(pSnap))]
  /\ pPc' = "mmIntro"
  /\ UNCHANGED <<batch, nsub, intro, root, nextEp, wst, pend, acked, pSnap, pAcks, lastP,
                 mPc, mSnap, mTask, mNew, lastM, bolt, elig, rdr, cPc, cSnap, cSched, cCopied, nopen>>
  /\ dirty' = TRUE

PMMIntro ==
  /\ UNCHANGED rst
  /\ Up /\ pPc = "mmIntro"
  /\ LET r == IntroMergeResult(segdocs, root, pSnap, MemSids(pSnap), pNew, segdocs[pNew], TRUE) IN
     /\ root' = [ep |-> nextEp, segs |-> r.segs, k |-> root.k]
     /\ inel' = (inel \ FN(r.dropped)) \ (IF r.skipped THEN {FileOf(pNew)} ELSE {})
     /\ pPc' = IF r.skipped THEN "write" ELSE "mmCommit"
  /\ nextEp' = nextEp + 1
  /\ UNCHANGED <<batch, nsub, intro, segdocs, nextSid, wst, pend, acked, pSnap, pAcks, pNew, lastP,
                 mPc, mSnap, mTask, mNew, lastM, bolt, disk, elig, rdr, cPc, cSnap, cSched, cCopied, nopen>>
  /\ dirty' = TRUE

\* persistSnapshotMaybeMerge: persist the EQUIVALENT snapshot under the OLD epoch
PMMCommit ==
  /\ UNCHANGED rst
  /\ pPc = "mmCommit"
  /\ LET eq == [ep |-> pSnap.ep, k |-> pSnap.k,
                segs |-> SelectSeq(pSnap.segs, LAMBDA e : e.f) \o <<[sid |-> pNew, del |-> {}, f |-> TRUE]>>] IN
     /\ bolt' = [bolt EXCEPT ![pSnap.ep] = eq]
     /\ inel' = inel \ FN(Files(eq))
  /\ pPc' = "ack"
  /\ UNCHANGED <<batch, nsub, intro, segdocs, root, nextEp, nextSid, wst, pend, acked, pSnap, pAcks, pNew, lastP,
                 mPc, mSnap, mTask, mNew, lastM, disk, elig, rdr, cPc, cSnap, cSched, cCopied, nopen>>
  /\ dirty' = TRUE

\* persistSnapshotDirect: write every in-memory segment of pSnap to its file
PWrite ==
  /\ UNCHANGED rst
  /\ pPc = "write" /\ disk' = disk \cup FN(MemSids(pSnap))
  /\ pPc' = IF MemSids(pSnap) = {} THEN "commit" ELSE "intro"
  /\ UNCHANGED <<batch, nsub, intro, segdocs, root, nextEp, nextSid, wst, pend, acked, pSnap, pAcks, pNew, lastP,
                 mPc, mSnap, mTask, mNew, lastM, bolt, inel, elig, rdr, cPc, cSnap, cSched, cCopied, nopen>>
  /\ dirty' = TRUE

PIntro ==
  /\ UNCHANGED rst
  /\ Up /\ pPc = "intro"
  /\ root' = [ep |-> nextEp, segs |-> IntroPersistResult(root, MemSids(pSnap)), k |-> root.k]
  /\ nextEp' = nextEp + 1 /\ pPc' = "commit"
  /\ UNCHANGED <<batch, nsub, intro, segdocs, nextSid, wst, pend, acked, pSnap, pAcks, pNew, lastP,
                 mPc, mSnap, mTask, mNew, lastM, bolt, disk, inel, elig, rdr, cPc, cSnap, cSched, cCopied, nopen>>
  /\ dirty' = TRUE

\* tx.Commit + Sync, then un-mark the names the committed snapshot carries
PCommit ==
  /\ UNCHANGED rst
  /\ pPc = "commit"
  /\ LET s == [ep |-> pSnap.ep, k |-> pSnap.k,
               segs |-> [ i \in 1..Len(pSnap.segs) |-> [pSnap.segs[i] EXCEPT !.f = TRUE] ]] IN
     /\ bolt' = [bolt EXCEPT ![pSnap.ep] = s] /\ inel' = inel \ FN(Files(s))
  /\ pPc' = "ack"
  /\ UNCHANGED <<batch, nsub, intro, segdocs, root, nextEp, nextSid, wst, pend, acked, pSnap, pAcks, pNew, lastP,
                 mPc, mSnap, mTask, mNew, lastM, disk, elig, rdr, cPc, cSnap, cSched, cCopied, nopen>>
  /\ dirty' = TRUE

\* close the persisted channels / fire callbacks of the batches taken in PTake
PAck ==
  /\ UNCHANGED rst
  /\ pPc = "ack" /\ acked' = acked \cup pAcks /\ lastP' = pSnap.ep
  /\ pPc' = IF root.ep # pSnap.ep \/ ~WithPurge THEN "idle" ELSE "purgeB"
  /\ UNCHANGED <<batch, nsub, intro, segdocs, root, nextEp, nextSid, wst, pend, pSnap, pAcks, pNew,
                 mPc, mSnap, mTask, mNew, lastM, bolt, disk, inel, elig, rdr, cPc, cSnap, cSched, cCopied, nopen>>
  /\ UNCHANGED dirty

\* IndexSnapshot.DecRef reaching zero -> go AddEligibleForRemoval(epoch)
\* (asynchronous; modelled as an independent step for any epoch nobody holds)
Release(e) ==
  /\ UNCHANGED rst
  /\ AsyncRelease /\ e \in 1..(nextEp - 1) /\ e # root.ep /\ e \notin Held /\ e \notin elig
  /\ e >= rst.base      \* only a snapshot object of THIS process life has a reference count to drop
  /\ elig' = elig \cup {e}
  /\ UNCHANGED <<batch, nsub, intro, segdocs, root, nextEp, nextSid, wst, pend, acked, pPc, pSnap, pAcks, pNew, lastP,
                 mPc, mSnap, mTask, mNew, lastM, bolt, disk, inel, rdr, cPc, cSnap, cSched, cCopied, nopen>>
  /\ dirty' = TRUE

\* the persister loop also runs when only woken by the merger (no new snapshot):
\* it then goes straight to removeOldData
PWakePurge ==
  /\ UNCHANGED rst
  /\ WithPurge /\ pPc = "idle" /\ dirty /\ root.ep = lastP
  /\ pPc' = "purgeB"
  /\ UNCHANGED <<batch, nsub, intro, segdocs, root, nextEp, nextSid, wst, pend, acked, pSnap, pAcks, pNew, lastP,
                 mPc, mSnap, mTask, mNew, lastM, bolt, disk, inel, elig, rdr, cPc, cSnap, cSched, cCopied, dirty, nopen>>

\* removeOldBoltSnapshots: eligible epochs that are not among the newest KeepN
EligNow == IF AsyncRelease THEN elig ELSE elig \cup { e \in 1..(nextEp - 1) : e >= rst.base /\ e # root.ep /\ e \notin Held }
PPurgeB ==
  /\ UNCHANGED rst
  /\ pPc = "purgeB"
  /\ LET rem == { e \in EligNow : e \notin NewestOf(bolt, KeepN) } IN
     /\ bolt' = [ e \in 1..MaxEp |-> IF e \in rem THEN NoSnap ELSE bolt[e] ]
     /\ elig' = elig \ rem
  /\ pPc' = "purgeZ"
  /\ UNCHANGED <<batch, nsub, intro, segdocs, root, nextEp, nextSid, wst, pend, acked, pSnap, pAcks, pNew, lastP,
                 mPc, mSnap, mTask, mNew, lastM, disk, inel, rdr, cPc, cSnap, cSched, cCopied, nopen>>
  /\ dirty' = FALSE

\* removeOldZapFiles: remove what no bolt snapshot names, unless ineligible or scheduled for copy
PPurgeZ ==
  /\ UNCHANGED rst
  /\ pPc = "purgeZ"
  /\ disk' = { f \in disk : f \in FN(Named) \/ f \in inel \/ f \in cSched }
  /\ pPc' = "idle"
  /\ UNCHANGED <<batch, nsub, intro, segdocs, root, nextEp, nextSid, wst, pend, acked, pSnap, pAcks, pNew, lastP,
                 mPc, mSnap, mTask, mNew, lastM, bolt, inel, elig, rdr, cPc, cSnap, cSched, cCopied, nopen>>
  /\ UNCHANGED dirty

\* ---------------- file merger (merge.go) ----------------
MTake == /\ UNCHANGED rst /\ Up /\ WithMerger /\ mPc = "idle" /\ root.ep # lastM /\ root.ep > 0
         /\ mSnap' = root /\ mPc' = "plan"
         /\ UNCHANGED <<batch, nsub, intro, segdocs, root, nextEp, nextSid, wst, pend, acked, pPc, pSnap, pAcks, pNew, lastP,
                        mTask, mNew, lastM, bolt, disk, inel, elig, rdr, cPc, cSnap, cSched, cCopied, nopen>>
  /\ UNCHANGED dirty

\* any plan the planner may produce: a task over file segments of the snapshot
\* (mark the new name, merge, write the file: fused as for the persister)
MPlanWrite(T) ==
  /\ UNCHANGED rst
  /\ Up /\ mPc = "plan" /\ T \subseteq Files(mSnap)
  /\ (MaxMergeInputs = 0 \/ Cardinality(T) <= MaxMergeInputs)
  /\ IF T = {} \/ MergedDocsOf(segdocs, mSnap, T) = {}
     THEN /\ mPc' = "idle" /\ lastM' = mSnap.ep
          /\ UNCHANGED <<mTask, mNew, nextSid, inel, disk, segdocs, nopen>>
     ELSE /\ mTask' = T /\ mNew' = nextSid /\ nextSid' = nextSid + 1
          /\ inel' = inel \cup {FileOf(nextSid)} /\ disk' = disk \cup {FileOf(nextSid)}
          /\ segdocs' = [segdocs EXCEPT ![nextSid] = MergedDocsOf(segdocs, mSnap, T)]
          /\ mPc' = "intro" /\ lastM' = lastM
  /\ UNCHANGED <<batch, nsub, intro, root, nextEp, wst, pend, acked, pPc, pSnap, pAcks, pNew, lastP,
                 mSnap, bolt, elig, rdr, cPc, cSnap, cSched, cCopied, nopen>>
  /\ dirty' = TRUE

MIntro ==
  /\ UNCHANGED rst
  /\ Up /\ mPc = "intro"
  /\ LET r == IntroMergeResult(segdocs, root, mSnap, mTask, mNew, segdocs[mNew], TRUE) IN
     /\ root' = [ep |-> nextEp, segs |-> r.segs, k |-> root.k]
     /\ inel' = inel \ FN(r.dropped)
     /\ mPc' = IF r.skipped THEN "cleanSkip" ELSE "cleanOk"
  /\ nextEp' = nextEp + 1
  /\ UNCHANGED <<batch, nsub, intro, segdocs, nextSid, wst, pend, acked, pPc, pSnap, pAcks, pNew, lastP,
                 mSnap, mTask, mNew, lastM, bolt, disk, elig, rdr, cPc, cSnap, cSched, cCopied, nopen>>
  /\ dirty' = TRUE

\* skipped introduction: un-mark the new file; always (deferred cleanup): un-mark the inputs
MClean ==
  /\ UNCHANGED rst
  /\ mPc \in {"cleanSkip", "cleanOk"}
  /\ inel' = IF mPc = "cleanSkip" THEN (inel \ {FileOf(mNew)}) \ FN(mTask) ELSE inel \ FN(mTask)
  /\ lastM' = mSnap.ep /\ mPc' = "idle"
  /\ UNCHANGED <<batch, nsub, intro, segdocs, root, nextEp, nextSid, wst, pend, acked, pPc, pSnap, pAcks, pNew, lastP,
                 mSnap, mTask, mNew, bolt, disk, elig, rdr, cPc, cSnap, cSched, cCopied, nopen>>
  /\ dirty' = TRUE

\* a merge that fails or is cancelled after the new file was written (I/O error,
\* ForceMerge with a cancelled context): only the NEW name is un-marked; the inputs
\* are still in the root and keep whatever protection they had.  The request may
\* be retried on the same root (lastM unchanged).
MFail ==
  /\ UNCHANGED rst
  /\ WithMergeFail /\ mPc = "intro"
  /\ inel' = inel \ {FileOf(mNew)}
  /\ mPc' = "idle"
  /\ UNCHANGED <<batch, nsub, intro, segdocs, root, nextEp, nextSid, wst, pend, acked, pPc, pSnap, pAcks, pNew, lastP,
                 mSnap, mTask, mNew, lastM, bolt, disk, elig, rdr, cPc, cSnap, cSched, cCopied, nopen>>
  /\ dirty' = TRUE

\* ---------------- reader ----------------
ROpen == /\ UNCHANGED rst /\ WithReader /\ rdr = NoSnap /\ root.ep > 0 /\ rdr' = root /\ nopen < MaxOpens /\ nopen' = nopen + 1
         /\ UNCHANGED <<batch, nsub, intro, segdocs, root, nextEp, nextSid, wst, pend, acked, pPc, pSnap, pAcks, pNew, lastP,
                        mPc, mSnap, mTask, mNew, lastM, bolt, disk, inel, elig, cPc, cSnap, cSched, cCopied, dirty>>
RClose == /\ UNCHANGED rst /\ rdr # NoSnap /\ rdr' = NoSnap
          /\ UNCHANGED <<batch, nsub, intro, segdocs, root, nextEp, nextSid, wst, pend, acked, pPc, pSnap, pAcks, pNew, lastP,
                         mPc, mSnap, mTask, mNew, lastM, bolt, disk, inel, elig, cPc, cSnap, cSched, cCopied, dirty, nopen>>

\* ---------------- online copy (CopyReader / CopyTo / CloseCopyReader) ----------------
\* CopyReader schedules every file name of the root, including the names
\* in-memory segments WILL get when persisted.
COpen == /\ UNCHANGED rst /\ WithCopy /\ cPc = "idle" /\ root.ep > 0 /\ nopen < MaxOpens /\ nopen' = nopen + 1
         /\ cSnap' = root /\ cSched' = (IF CopySchedById THEN Sids(root) ELSE FN(Sids(root)))
         /\ cCopied' = {} /\ cPc' = "copying"
         /\ UNCHANGED <<batch, nsub, intro, segdocs, root, nextEp, nextSid, wst, pend, acked, pPc, pSnap, pAcks, pNew, lastP,
                        mPc, mSnap, mTask, mNew, lastM, bolt, disk, inel, elig, rdr>>
         /\ dirty' = TRUE
\* one segment: a file segment is copied from the directory, an in-memory one is written afresh
CFile(s) == /\ UNCHANGED rst /\ cPc = "copying" /\ s \in Sids(cSnap) \ cCopied
            /\ cCopied' = cCopied \cup {s}
            /\ UNCHANGED <<batch, nsub, intro, segdocs, root, nextEp, nextSid, wst, pend, acked, pPc, pSnap, pAcks, pNew, lastP,
                           mPc, mSnap, mTask, mNew, lastM, bolt, disk, inel, elig, rdr, cPc, cSnap, cSched, dirty, nopen>>
CClose == /\ UNCHANGED rst /\ cPc = "copying" /\ cCopied = Sids(cSnap)
          /\ cPc' = "idle" /\ cSched' = {} /\ cSnap' = NoSnap
          /\ UNCHANGED <<batch, nsub, intro, segdocs, root, nextEp, nextSid, wst, pend, acked, pPc, pSnap, pAcks, pNew, lastP,
                         mPc, mSnap, mTask, mNew, lastM, bolt, disk, inel, elig, rdr, cCopied, nopen>>
          /\ dirty' = TRUE

\* ---------------- the process dies and the index is opened again ----------------
\* (scorch.go openBolt: loadFromBolt, then removeOldZapFiles)
\* What a kill leaves behind is bolt and disk; everything else is volatile.  Opening
\* loads the newest recorded snapshot whose files are present (RecSnap), registers
\* every OLDER recorded snapshot as eligible for removal (they have no snapshot
\* object whose release would do it), starts segment ids beyond every file number
\* in the directory, epochs beyond the loaded one, and sweeps the files no recorded
\* snapshot names.  Batches introduced after the loaded snapshot are gone: the
\* introduction order is cut back to it.  Enabled in EVERY state (a kill), so it
\* also covers Close + Open.
MaxOf(S) == IF S = {} THEN 0 ELSE CHOOSE x \in S : \A y \in S : y <= x
Restart ==
  /\ rst.n < MaxRestarts
  /\ LET rs == RecSnap IN
     /\ rst' = [n |-> rst.n + 1, base |-> rs.ep]
     /\ root' = rs /\ intro' = SubSeq(intro, 1, rs.k)
     /\ acked' = acked \cap { intro[i] : i \in 1..rs.k }
     /\ elig' = IF ForgetInherited THEN {} ELSE BoltEps \ {rs.ep}
     /\ disk' = disk \cap FN(Named)
     /\ nextEp' = rs.ep + 1
     /\ nextSid' = (IF SidFromRoot THEN MaxOf(Sids(rs)) ELSE MaxOf(disk)) + 1
     /\ lastP' = rs.ep
  /\ wst' = [w \in Writers |-> IdleW] /\ pend' = {}
  /\ pPc' = "idle" /\ pSnap' = NoSnap /\ pAcks' = {} /\ pNew' = 0
  /\ mPc' = "idle" /\ mSnap' = NoSnap /\ mTask' = {} /\ mNew' = 0 /\ lastM' = 0
  /\ inel' = {} /\ rdr' = NoSnap
  /\ cPc' = "idle" /\ cSnap' = NoSnap /\ cSched' = {} /\ cCopied' = {}
  /\ dirty' = TRUE
  /\ UNCHANGED <<batch, nsub, segdocs, bolt, nopen>>

Next == \/ \E w \in Writers, bt \in BatchShapes : Prepare(w, bt)
        \/ \E w \in Writers : IntroSegment(w) \/ BatchReturn(w)
        \/ PTake \/ PMMWrite \/ PMMIntro \/ PMMCommit \/ PWrite \/ PIntro \/ PCommit \/ PAck
        \/ (WithPurge /\ ((\E e \in 1..MaxEp : Release(e)) \/ PWakePurge \/ PPurgeB \/ PPurgeZ))
        \/ MTake \/ (\E T \in SUBSET Files(mSnap) : MPlanWrite(T)) \/ MIntro \/ MClean \/ MFail
        \/ ROpen \/ RClose \/ COpen \/ (\E s \in 1..MaxSid : CFile(s)) \/ CClose
        \/ Restart
Spec == Init /\ [][Next]_vars

-----------------------------------------------------------------------------
(* ---------------- properties ---------------- *)

\* C01 / C04: the root is always the last-write-wins replay of ALL introduced
\* batches (never part of a batch), and each id is live at most once.
RootIsReplay == root.k = Len(intro) /\ LiveDocs(root) = Replay(root.k)
UniqueLive == \A d1, d2 \in LiveDocs(root) : DocId(d1) = DocId(d2) => d1 = d2
\* every snapshot anybody holds is the replay of a prefix (point-in-time view)
HeldAreReplays == /\ (rdr # NoSnap => LiveDocs(rdr) = Replay(rdr.k))
                  /\ (pPc \notin {"idle","purgeB","purgeZ"} => LiveDocs(pSnap) = Replay(pSnap.k))
                  /\ (mPc # "idle" => LiveDocs(mSnap) = Replay(mSnap.k))
                  /\ (cPc # "idle" => LiveDocs(cSnap) = Replay(cSnap.k))

\* C05: layout-only steps (persist / merge introductions) do not change content
LayoutStutters == [][root'.k = root.k => LiveDocs(root)' = LiveDocs(root)]_vars
\* C04: a held reader's content never changes (segment contents are immutable)
ReaderStable == [][(rdr # NoSnap /\ rdr' = rdr) => LiveDocs(rdr)' = LiveDocs(rdr)]_vars

\* C13: every persisted snapshot is a state the index really had
EveryBoltIsAState == \A e \in BoltEps : LiveDocs(bolt[e]) = Replay(bolt[e].k)

\* C12, one level below the disk: every file segment the root uses is protected
\* from the purger at every moment - named by a recorded snapshot, marked
\* ineligible for removal, or written by the persister in the round it has not
\* committed yet (the persister is the purger, so that window is safe)
RootFilesProtected ==
  \A f \in Files(root) : \/ f \in Named \/ FileOf(f) \in inel
                          \/ (pPc = "commit" /\ f \in MemSids(pSnap))

\* C03: what a kill at this instant recovers (RecEp, RecSnap: defined with DiskSids above)
Durable == /\ LiveDocs(RecSnap) = Replay(RecSnap.k)
           /\ \A b \in acked : \E i \in 1..RecSnap.k : intro[i] = b
\* the newest snapshot in the metadata store is always loadable (no silent fallback)
NewestLoads == BoltEps # {} => RecEp = CHOOSE e \in BoltEps : \A x \in BoltEps : x <= e

\* C13: Rollback(e) deletes every snapshot newer than e; reopening then loads e
RolledBack(e) == [ x \in DOMAIN bolt |-> IF x > e THEN NoSnap ELSE bolt[x] ]
RollbackOK == \A e \in BoltEps : RecEpOf(RolledBack(e), DiskSids) = e

\* C12: needed files exist
BoltFilesOnDisk == \A e \in BoltEps : FN(Files(bolt[e])) \subseteq disk
RootFilesOnDisk == FN(Files(root)) \subseteq disk
CopyFilesOnDisk == cPc # "idle" => FN(Files(cSnap) \ cCopied) \subseteq disk
ReaderFilesOnDisk == rdr # NoSnap => FN(Files(rdr)) \subseteq disk
\* ... and unneeded ones do not accumulate
Quiescent == /\ ~dirty /\ pPc = "idle" /\ mPc = "idle" /\ rdr = NoSnap /\ cPc = "idle"
             /\ root.ep = lastP /\ (WithMerger => root.ep = lastM) /\ pend = {}
             /\ \A w \in Writers : wst[w].st = "idle"
NoOrphansWhenQuiescent == Quiescent => (disk \subseteq FN(Named) /\ inel = {})
\* retention: once writing stopped and background work settled, the metadata store
\* holds at most KeepN snapshots (with AsyncRelease the releases must have happened:
\* checked in the configs where eligibility is immediate)
RetentionWhenQuiescent == (Quiescent /\ ~AsyncRelease) => Cardinality(BoltEps) <= KeepN

\* C03 / C12 after reopening: a segment id handed out from now on never names a
\* file that is already in the directory (zapx opens segment files without
\* truncating them: a new segment written over an older, longer file keeps the old
\* footer and cannot be read back)
NewNamesUnused == \A s \in nextSid..(MaxSid + 1) : FileOf(s) \notin disk

\* C14: the copy's content is the snapshot taken at CopyOpen, a replay prefix
CopyIsPrefix == cPc # "idle" => LiveDocs(cSnap) = Replay(cSnap.k)

\* batch shapes for the exhaustive configs (cfg files cannot hold records)
Shapes3 == { [puts |-> {"a"}, dels |-> {}], [puts |-> {"b"}, dels |-> {"a"}], [puts |-> {}, dels |-> {"a"}] }
Shapes2 == { [puts |-> {"a"}, dels |-> {}], [puts |-> {"b"}, dels |-> {"a"}] }
Shapes4 == Shapes3 \cup { [puts |-> {"a", "b"}, dels |-> {}] }

\* batch shapes for simulation (schedule generation): every batch over three ids
\* with at most two operations, including the empty batch
SimIds == {"a", "b", "c"}
ShapesSim == { [puts |-> p, dels |-> d] : p \in SUBSET SimIds, d \in SUBSET SimIds } \cap
             { x \in [puts : SUBSET SimIds, dels : SUBSET SimIds] :
                 x.puts \cap x.dels = {} /\ Cardinality(x.puts \cup x.dels) <= 2 }

\* state constraint for exhaustive runs
Bound == nextEp <= MaxEp + 1 /\ nextSid <= MaxSid + 1
=============================================================================
