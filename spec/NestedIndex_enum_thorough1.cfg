SPECIFICATION Spec
CONSTANTS
  NI = 1
  Versions <- Versions3
  KindNames = {"nested", "outer", "inner"}
  MaxBatches = 4
  MaxMerges = 1
  PairMerges = FALSE
  KeepHist = TRUE
  Probes <- ProbeList
INVARIANT DocCountIsParents
INVARIANT MatchAllIsParents
INVARIANT ProbesAnswerMeaning
CHECK_DEADLOCK FALSE
