SPECIFICATION Spec
CONSTANTS
  EqLons <- EqLonsMC
  PoleLats <- PoleLatsMC
  Radii <- RadiiMC
INVARIANTS Disjoint CentreIsIn Symmetric Wraps OverPole
CHECK_DEADLOCK FALSE
