\* "the model decides" (quick): 3 keys sharing a prefix, empty and non-empty values, one reader, one iterator
SPECIFICATION Spec
CONSTANTS
  Bytes = {0, 97, 255}
  Keys <- KeysTiny
  Probes <- ProbesTiny2
  PrefixSet <- PrefixTiny2
  RangeSet <- RangeTiny2
  Vals <- ValsTiny
  MergeKeys <- NoKeys
  Operands <- OperandsNone
  MaxCount = 1
  Readers = {1}
  Iters = {1}
  MaxBatch = 1
  AtomicBatch = TRUE
  RepeatKeys = FALSE
  ReadActions = FALSE
  MultiGetLen = 1
INVARIANTS TypeOK ReadsInByteOrder IterRefines IterInView
PROPERTIES ReaderIsolation IterIsolation BatchAtomic BatchAlgRefines ReaderSeesWholeBatches
CHECK_DEADLOCK FALSE
