------------------------------- MODULE Numeric -------------------------------
(***************************************************************************)
(* Property C07: numeric and date values sort and range-match exactly as   *)
(* numbers.                                                                *)
(*                                                                         *)
(* Pure (variable-free) transcription of                                   *)
(*   numeric/float.go            Float64ToInt64 / Int64ToFloat64           *)
(*   numeric/prefix_coded.go     NewPrefixCodedInt64Prealloc, Int64, Shift *)
(*   search/searcher/search_numeric_range.go                               *)
(*                               splitInt64Range, newRange,                *)
(*                               termRange.Enumerate (as an interval)      *)
(* over DIGIT SEQUENCES, parametric in the base B = 2^precisionStep and    *)
(* the number of levels L (B^L = 2^64 in the code: B = 16, L = 16).  TLC   *)
(* integers are 32 bit, so a 64-bit word is never an integer here: it is a *)
(* big-endian sequence of L digits 0..B-1 holding the TWO'S COMPLEMENT bit *)
(* pattern of the Go int64 (x[1] is the most significant digit).           *)
(*                                                                         *)
(* The state machine that runs one loop iteration per step and the         *)
(* exhaustive invariants live in NumericMC.tla; the judge specification    *)
(* spec/trace/JudgeNumeric.tla instantiates this module at B=16, L=16 and  *)
(* evaluates the same operators on values recorded from the real code.     *)
(***************************************************************************)
EXTENDS Naturals, Sequences, FiniteSets

CONSTANTS B,           \* 2^precisionStep                       (code: 16)
          L,           \* number of precision levels, B^L words  (code: 16)
          G,           \* payload bits per term byte             (code: 7)
          ShiftStart,  \* numeric.ShiftStartInt64                (code: 32)
          FE           \* exponent bits of the float word        (code: 11)

DB == CHOOSE n \in 1..8 : 2^n = B        \* precisionStep (bits per digit)
W  == L * DB                             \* word width in bits (code: 64)

ASSUME B \in {2, 4, 8, 16, 32, 64, 128, 256}
ASSUME L \in Nat \ {0} /\ G \in Nat \ {0} /\ FE \in 1..(W-2)

Levels == 0..(L-1)
Digits == 0..(B-1)
Values == [1..L -> Digits]               \* enumerated only in small models
Zero   == [i \in 1..L |-> 0]

MaxOf(S) == CHOOSE m \in S : \A n \in S : n <= m
(* Identity on functions with 1 in their domain.  TLC evaluates [i \in S |-> e] *)
(* lazily; EXCEPT forces the table to be built once instead of re-evaluating  *)
(* e on every application (pure performance device).                          *)
Mat(f) == [f EXCEPT ![1] = f[1]]
MinI(a, b) == IF a < b THEN a ELSE b

-----------------------------------------------------------------------------
(* Digit arithmetic = Go int64 arithmetic on the bit pattern.              *)

Dg(x, k)      == x[L-k]                                 \* (x & mask) >> shift
ClearDg(x, k) == [x EXCEPT ![L-k] = 0]                                 \* x &^ mask
FillDg(x, k)  == [x EXCEPT ![L-k] = B-1]                               \* x | mask
FillLow(x, k) == Mat([i \in 1..L |-> IF i > L-k THEN B-1 ELSE x[i]])   \* x | (1<<shift)-1
ZeroLow(x, k) == Mat([i \in 1..L |-> IF i > L-k THEN 0   ELSE x[i]])   \* (x >> shift) << shift

(* x + B^k with Go's wrap-around: the carry runs through the digits above  *)
(* level k and is lost beyond the word.  k = L is `int64(1) << 64 = 0'.     *)
RECURSIVE LastNot(_, _, _)      \* largest j <= i with x[j] # d, 0 if there is none
LastNot(x, i, d) == IF i = 0 THEN 0 ELSE IF x[i] # d THEN i ELSE LastNot(x, i-1, d)

AddAt(x, k) ==
  LET i == L - k
      j == LastNot(x, i, B-1)          \* where the carry stops (0: it leaves the word)
  IN Mat([n \in 1..L |-> IF n = j THEN x[n] + 1
                         ELSE IF n > j /\ n <= i THEN 0 ELSE x[n]])

(* x - B^k with borrow and wrap-around.                                    *)
SubAt(x, k) ==
  LET i == L - k
      j == LastNot(x, i, 0)            \* where the borrow stops
  IN Mat([n \in 1..L |-> IF n = j THEN x[n] - 1
                         ELSE IF n > j /\ n <= i THEN B-1 ELSE x[n]])

Succ(x) == AddAt(x, 0)
Pred(x) == SubAt(x, 0)

-----------------------------------------------------------------------------
(* Orders.                                                                 *)

\* unsigned lexicographic order of two equally long digit/bit sequences:
\* decided at the first position where they differ
RECURSIVE LexLessFrom(_, _, _, _)
LexLessFrom(a, b, i, n) ==
  IF i > n THEN FALSE ELSE IF a[i] = b[i] THEN LexLessFrom(a, b, i+1, n) ELSE a[i] < b[i]
LexLess(a, b) == LexLessFrom(a, b, 1, Len(a))

\* x XOR signbit (the "sortableBits" of prefix_coded.go): signed order of x
\* is the unsigned order of Bias(x)
Bias(x) == [x EXCEPT ![1] = (x[1] + (B \div 2)) % B]

Bias1(d) == (d + (B \div 2)) % B
SLess(a, b) ==                                \* Go:  a < b   on int64
  IF a[1] # b[1] THEN Bias1(a[1]) < Bias1(b[1]) ELSE LexLessFrom(a, b, 2, L)
SLeq(a, b)  == ~SLess(b, a)
MaxVal == Mat([i \in 1..L |-> IF i = 1 THEN (B \div 2) - 1 ELSE B-1])  \* math.MaxInt64
MinVal == Mat([i \in 1..L |-> IF i = 1 THEN B \div 2 ELSE 0])          \* math.MinInt64

\* bytes.Compare(a, b) < 0 on terms (possibly of different length)
RECURSIVE BytesLessFrom(_, _, _)
BytesLessFrom(a, b, i) ==
  IF i > Len(a) THEN i <= Len(b)            \* a is a proper prefix of b (or equal)
  ELSE IF i > Len(b) THEN FALSE
  ELSE IF a[i] = b[i] THEN BytesLessFrom(a, b, i+1) ELSE a[i] < b[i]
BytesLess(a, b) == BytesLessFrom(a, b, 1)
BytesLeq(a, b) == ~BytesLess(b, a)

-----------------------------------------------------------------------------
(* Bits.                                                                   *)

ToBits(x) == Mat([i \in 1..W |->
                (x[((i-1) \div DB) + 1] \div 2^(DB - 1 - ((i-1) % DB))) % 2])

RECURSIVE BinVal(_, _)         \* value of bits f[1..n], f[1] most significant
BinVal(f, n) == IF n = 0 THEN 0 ELSE 2 * BinVal(f, n-1) + f[n]

FromBits(b) == Mat([n \in 1..L |-> BinVal([j \in 1..DB |-> b[(n-1)*DB + j]], DB)])

\* clear the low s bits ((x >> s) << s), any s in 0..W-1
TruncBits(x, s) == LET b == ToBits(x) IN FromBits([i \in 1..W |-> IF i > W - s THEN 0 ELSE b[i]])

-----------------------------------------------------------------------------
(* (ii) numeric/float.go.  A float word is W bits sign | FE exponent bits | *)
(* mantissa; Float64ToInt64 flips the low W-1 bits of negative words and    *)
(* the result is read as a two's complement integer.  Int64ToFloat64 is the *)
(* same involution.                                                         *)

FlipLow(w)         == Mat([i \in 1..W |-> IF i = 1 THEN w[1] ELSE 1 - w[i]])
FloatToSortableB(w) == IF w[1] = 1 THEN FlipLow(w) ELSE w       \* on bits
SortableToFloatB(w) == IF w[1] = 1 THEN FlipLow(w) ELSE w

FloatToSortable(x) == FromBits(FloatToSortableB(ToBits(x)))     \* on digits
SortableToFloat(x) == FromBits(SortableToFloatB(ToBits(x)))

IsNaNB(w)     == (\A i \in 2..(FE+1) : w[i] = 1) /\ (\E i \in (FE+2)..W : w[i] = 1)
IsZeroB(w)    == \A i \in 2..W : w[i] = 0
IsNegZeroB(w) == w[1] = 1 /\ IsZeroB(w)
MagB(w)       == Mat([i \in 1..(W-1) |-> w[i+1]])

(* The meaning of `a < b' on IEEE-754 binary words that are not NaN: the   *)
(* magnitude bits order magnitudes (subnormals, normals, infinity), the    *)
(* sign mirrors the order, -0 = +0.  (Trusted fact about the format; the   *)
(* binding re-validates it against Go's `<' on every recorded pair.)        *)
FloatLessB(a, b) ==
  CASE a[1] = 0 /\ b[1] = 0 -> LexLess(MagB(a), MagB(b))
    [] a[1] = 1 /\ b[1] = 1 -> LexLess(MagB(b), MagB(a))
    [] a[1] = 1 /\ b[1] = 0 -> ~(IsZeroB(a) /\ IsZeroB(b))
    [] OTHER                -> FALSE
FloatLess(x, y) == FloatLessB(ToBits(x), ToBits(y))
FloatLeq(x, y)  == FloatLess(x, y) \/ x = y
                   \/ (IsZeroB(ToBits(x)) /\ IsZeroB(ToBits(y)))
FloatOrdinary(x) == ~IsNaNB(ToBits(x)) /\ ~IsNegZeroB(ToBits(x))

(* The same order read directly off the digits (sign = top bit of the top  *)
(* digit); NumericMC checks it equal to FloatLess on every pair of words.  *)
NegD(x)  == x[1] >= B \div 2
MagD(x)  == [x EXCEPT ![1] = x[1] % (B \div 2)]
FloatLessD(x, y) ==
  CASE ~NegD(x) /\ ~NegD(y) -> LexLess(MagD(x), MagD(y))
    [] NegD(x)  /\ NegD(y)  -> LexLess(MagD(y), MagD(x))
    [] NegD(x)  /\ ~NegD(y) -> ~(MagD(x) = Zero /\ MagD(y) = Zero)
    [] OTHER                 -> FALSE
FloatLeqD(x, y) == FloatLessD(x, y) \/ x = y \/ (MagD(x) = Zero /\ MagD(y) = Zero)

-----------------------------------------------------------------------------
(* (iii) numeric/prefix_coded.go.                                          *)

NChars(s) == ((W - 1 - s) \div G) + 1

(* NewPrefixCodedInt64Prealloc(in, shift): shift byte, then the W-s kept   *)
(* bits of in XOR signbit regrouped right-aligned into NChars groups of G  *)
(* bits (the first group may be short and is zero-padded on the left).     *)
PrefixCode(x, s) ==
  LET u    == ToBits(Bias(x))
      keep == W - s
      n    == NChars(s)
      bit(p)  == IF p < 1 THEN 0 ELSE u[p]
      grp(j)  == LET hi == keep - (n - j) * G
                 IN BinVal([q \in 1..G |-> bit(hi - G + q)], G)
  IN <<ShiftStart + s>> \o [j \in 1..n |-> grp(j)]

TermShift(t) == t[1] - ShiftStart                      \* PrefixCoded.Shift

\* numeric.ValidPrefixCodedTermBytes plus "every payload byte has G bits"
ValidTerm(t) ==
  /\ Len(t) >= 2
  /\ t[1] >= ShiftStart /\ t[1] <= ShiftStart + W - 1
  /\ Len(t) = NChars(TermShift(t)) + 1
  /\ \A i \in 2..Len(t) : t[i] >= 0 /\ t[i] < 2^G

(* PrefixCoded.Int64: fold the payload bytes (<< G, |), shift left by the  *)
(* shift, flip the sign bit.  Only meaningful on valid terms.              *)
DecodeTerm(t) ==
  LET s    == TermShift(t)
      n    == Len(t) - 1
      keep == W - s
      all  == Mat([p \in 1..(n*G) |-> (t[((p-1) \div G) + 2] \div 2^(G - 1 - ((p-1) % G))) % 2])
      u    == [i \in 1..W |-> IF i <= keep
                              THEN (LET p == n*G - keep + i IN IF p < 1 THEN 0 ELSE all[p])
                              ELSE 0]
  IN Bias(FromBits(u))

(* The same two functions for digit-aligned shifts (s = k*DB) by integer    *)
(* arithmetic on chunks of lcm(DB, G) bits = CD digits = CG groups (code: 28 *)
(* bits = 7 nibbles = 4 term bytes).  Pure evaluation speed-up for the judge *)
(* at full width; NumericMC checks them equal to the bit-level definitions   *)
(* for every word and level.                                                 *)
ChunkBits == CHOOSE m \in 1..30 : /\ m % DB = 0 /\ m % G = 0
                                   /\ \A q \in 1..(m-1) : ~(q % DB = 0 /\ q % G = 0)
CD == ChunkBits \div DB
CG == ChunkBits \div G

RECURSIVE DigitChunk(_, _, _, _)   \* value of kept digits nd-(c*CD).. (CD of them), c counted from the right
DigitChunk(u, nd, c, t) ==
  IF t = CD THEN 0
  ELSE (LET i == nd - (c * CD + t) IN IF i >= 1 THEN u[i] ELSE 0) + B * DigitChunk(u, nd, c, t + 1)

PrefixCodeD(x, k) ==
  LET u   == Bias(x)
      nd  == L - k
      n   == NChars(k * DB)
      nch == ((n - 1) \div CG) + 1
      cv  == Mat([c \in 1..nch |-> DigitChunk(u, nd, c - 1, 0)])
  IN <<ShiftStart + k * DB>> \o
     [j \in 1..n |-> LET r == n - j IN (cv[(r \div CG) + 1] \div (2 ^ (G * (r % CG)))) % (2 ^ G)]

RECURSIVE GroupChunk(_, _, _, _)   \* value of groups (from the right) c*CG.. (CG of them)
GroupChunk(t, n, c, p) ==
  IF p = CG THEN 0
  ELSE (LET r == c * CG + p IN IF r < n THEN t[Len(t) - r] ELSE 0) + (2 ^ G) * GroupChunk(t, n, c, p + 1)

DecodeTermD(t) ==
  LET k   == TermShift(t) \div DB
      n   == Len(t) - 1
      nd  == L - k
      nch == ((n - 1) \div CG) + 1
      cv  == Mat([c \in 1..nch |-> GroupChunk(t, n, c - 1, 0)])
      dg(i) == IF i > nd THEN 0
               ELSE LET r == nd - i
                    IN IF (r \div CD) + 1 > nch THEN 0
                       ELSE (cv[(r \div CD) + 1] \div (B ^ (r % CD))) % B
  IN Bias(Mat([i \in 1..L |-> dg(i)]))

\* the terms document/field_numeric.go Analyze indexes for one value
IndexedTerms(x) == {PrefixCode(x, k * DB) : k \in Levels}

-----------------------------------------------------------------------------
(* (i) search_numeric_range.go.                                            *)

(* newRange(minBound, maxBound, shift): `maxBound |= (1<<shift)-1', both    *)
(* bounds prefix coded at that shift.  A range is kept as (level, lo, hi)   *)
(* with full-width lo/hi; its terms are RngStart/RngEnd.                    *)
Rng(lo, hi, k) == [k |-> k, lo |-> lo, hi |-> FillLow(hi, k)]
RngStart(r) == PrefixCodeD(r.lo, r.k)
RngEnd(r)   == PrefixCodeD(r.hi, r.k)

(* One iteration of the `for shift := 0; ; shift += precisionStep' loop at *)
(* level k = shift/precisionStep with the current bounds (mn, mx):         *)
(* what is appended to rv, whether the loop breaks, and the next bounds.   *)
SplitStep(mn, mx, k) ==
  LET hasLower == Dg(mn, k) # 0                  \* (minBound & mask) != 0
      hasUpper == Dg(mx, k) # B-1                \* (maxBound & mask) != mask
      \* diff = 1 << (shift+precisionStep) is B^(k+1) (0 at the last level)
      nextMin  == ClearDg(IF hasLower THEN AddAt(mn, k+1) ELSE mn, k)
      nextMax  == ClearDg(IF hasUpper THEN SubAt(mx, k+1) ELSE mx, k)
      lowerWrapped == SLess(nextMin, mn)
      upperWrapped == SLess(mx, nextMax)
      last == \/ k + 1 >= L                      \* shift+precisionStep >= 64
              \/ SLess(nextMax, nextMin)
              \/ lowerWrapped
              \/ upperWrapped
  IN IF last
     THEN [done |-> TRUE, emit |-> <<Rng(mn, mx, k)>>, mn |-> mn, mx |-> mx]
     ELSE [done |-> FALSE,
           emit |-> (IF hasLower THEN <<Rng(mn, FillDg(mn, k), k)>> ELSE <<>>) \o
                    (IF hasUpper THEN <<Rng(ClearDg(mx, k), mx, k)>> ELSE <<>>),
           mn |-> nextMin, mx |-> nextMax]

RECURSIVE SplitFrom(_, _, _)
SplitFrom(mn, mx, k) ==
  LET s == SplitStep(mn, mx, k)
  IN IF s.done THEN s.emit ELSE s.emit \o SplitFrom(s.mn, s.mx, k + 1)

\* splitInt64Range(minBound, maxBound, precisionStep)
Split(mn, mx) == IF SLess(mx, mn) THEN <<>> ELSE SplitFrom(mn, mx, 0)

(* NewNumericRangeSearcher: exclusive bounds become inclusive by stepping   *)
(* one int64, except at the end of the number line.                        *)
StepMin(x, inclusive) == IF ~inclusive /\ x # MaxVal THEN Succ(x) ELSE x
StepMax(x, inclusive) == IF ~inclusive /\ x # MinVal THEN Pred(x) ELSE x

(* termRanges.Enumerate yields every byte string from startTerm to endTerm *)
(* (incrementBytes walks base 256); a document is a candidate iff one of   *)
(* its indexed terms lies in one of these byte intervals.                  *)
TermEnumerated(t, r) == BytesLeq(RngStart(r), t) /\ BytesLeq(t, RngEnd(r))
Matches(x, ranges) ==
  \E i \in 1..Len(ranges) : \E t \in IndexedTerms(x) : TermEnumerated(t, ranges[i])

(* Cost of termRange.Enumerate.  `next = incrementBytes(next)' adds one to   *)
(* the last byte (all BB = 256 values, also the invalid ones >= 2^G); an     *)
(* overflowing byte carries; an INTERIOR byte (neither the shift byte nor    *)
(* the last byte) that becomes >= 2^G is reset and carries at once (repair   *)
(* of the enumeration blow-up, /repo bec9de5: before it every byte counted   *)
(* in base 256 and a range across a carry through j all-ones groups cost     *)
(* 128*256^(j-1) steps).  On valid terms the walk therefore counts in a      *)
(* mixed radix: BB for the first and last position, 2^G in between, and the  *)
(* loop body runs end - start + 1 times in that number system.               *)
BB == 2 * 2^G
Radix(i, n) == IF i > 1 /\ i < n THEN 2^G ELSE BB

RECURSIVE CarryStop(_, _, _)     \* largest j <= i where the carry stops, 0 if it runs out
CarryStop(t, i, n) ==
  IF i = 0 THEN 0
  ELSE IF t[i] + 1 >= Radix(i, n) THEN CarryStop(t, i-1, n) ELSE i
IncBytes(t) ==                                    \* incrementBytes
  LET n == Len(t)
      j == CarryStop(t, n, n)
  IN [p \in 1..n |-> IF p = j THEN t[p] + 1 ELSE IF p > j THEN 0 ELSE t[p]]

RECURSIVE SubBytes(_, _, _, _, _)
SubBytes(a, b, i, n, borrow) ==                   \* a - b on positions 1..i, mixed radix
  IF i = 0 THEN <<>>
  ELSE IF a[i] >= b[i] + borrow
       THEN SubBytes(a, b, i-1, n, 0) \o <<a[i] - b[i] - borrow>>
       ELSE SubBytes(a, b, i-1, n, 1) \o <<a[i] + Radix(i, n) - b[i] - borrow>>
(* iterations of the loop from start to end (valid terms) are at most limit  *)
(* (limit < BB^3)                                                            *)
EnumWithin(start, end, limit) ==
  BytesLess(end, start) \/
    LET n == Len(start)
        d == SubBytes(end, start, n, n, 0)
        low(i) == IF i < 1 THEN 0 ELSE d[i]
    IN /\ \A i \in 1..(n-3) : d[i] = 0
       /\ low(n-2) * Radix(n-1, n) * BB + low(n-1) * BB + low(n) + 1 <= limit
RngEnumWithin(r, limit) == EnumWithin(RngStart(r), RngEnd(r), limit)

-----------------------------------------------------------------------------
(* The meaning: interval cover, decidable by interval arithmetic on digit  *)
(* sequences at any width.                                                 *)

SeqToSet(s) == {s[i] : i \in 1..Len(s)}

(* Walk from cur: exactly one range starts at cur; it either ends at mx and *)
(* is the last one, or the walk continues right after its end.             *)
RECURSIVE Walk(_, _, _)
Walk(S, cur, mx) ==
  LET c == {r \in S : r.lo = cur}
  IN /\ Cardinality(c) = 1
     /\ LET r == CHOOSE q \in c : TRUE
        IN IF r.hi = mx THEN S = {r}
           ELSE r.hi # MaxVal /\ Walk(S \ {r}, Succ(r.hi), mx)

(* ranges (records with k, lo, hi) are pairwise disjoint and their union   *)
(* is exactly the integer interval [mn, mx] (empty iff mn > mx): every     *)
(* range is a non-empty aligned block, no range occurs twice, and the      *)
(* ranges can be lined up from mn to mx without gap or overlap.            *)
ChainCover(ranges, mn, mx) ==
  LET S == SeqToSet(ranges)
  IN IF SLess(mx, mn) THEN ranges = <<>>
     ELSE /\ Cardinality(S) = Len(ranges)                        \* none twice
          /\ \A r \in S : /\ r.lo = ZeroLow(r.lo, r.k)
                           /\ r.hi = FillLow(r.hi, r.k)
                           /\ SLeq(r.lo, r.hi)
          /\ Walk(S, mn, mx)

=============================================================================
