SPECIFICATION Spec
CONSTANTS
  NI = 2
  Versions <- Versions3
  KindNames = {"nested", "flat", "outer", "inner"}
  MaxBatches = 3
  MaxMerges = 2
  PairMerges = TRUE
  KeepHist = FALSE
  Probes <- ProbeList
VIEW view
INVARIANT LiveIsCurrent
INVARIANT NoOrphans
INVARIANT DocCountIsParents
INVARIANT MatchAllIsParents
INVARIANT ProbesAnswerMeaning
CHECK_DEADLOCK FALSE
