SPECIFICATION Spec
CONSTANTS
 Ids = {"a", "b"}
 MaxB = 2
 BatchShapes <- Shapes3
 Writers = {w1}
 Safe = FALSE
 KeepN = 2
 MaxEp = 7
 MaxSid = 4
 WithReader = FALSE
 WithCopy = FALSE
 WithMerger = TRUE
 WithPurge = TRUE
 WithMemMerge = TRUE
 MaxMergeInputs = 2
 AsyncRelease = FALSE
  WithMergeFail = FALSE
 MaxRestarts = 0
 SidFromRoot = FALSE
 ForgetInherited = FALSE
 BuilderBase = FALSE
 CopySchedById = FALSE
 MaxOpens = 2
CONSTRAINT Bound
INVARIANTS RootIsReplay UniqueLive HeldAreReplays EveryBoltIsAState Durable NewestLoads BoltFilesOnDisk RootFilesOnDisk RootFilesProtected NoOrphansWhenQuiescent RollbackOK
PROPERTIES LayoutStutters ReaderStable
CHECK_DEADLOCK FALSE
