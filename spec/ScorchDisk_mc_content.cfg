SPECIFICATION Spec
CONSTANTS
 Ids = {"a", "b"}
 MaxB = 2
 BatchShapes <- Shapes3
 Writers = {w1, w2}
 Safe = FALSE
 KeepN = 1
 MaxEp = 7
 MaxSid = 5
 WithReader = FALSE
 WithCopy = FALSE
 WithMerger = TRUE
 WithPurge = FALSE
 WithMemMerge = TRUE
 MaxMergeInputs = 2
 AsyncRelease = FALSE
  WithMergeFail = FALSE
 MaxRestarts = 0
 SidFromRoot = FALSE
 ForgetInherited = FALSE
 BuilderBase = FALSE
 CopySchedById = FALSE
 MaxOpens = 2
CONSTRAINT Bound
INVARIANTS RootIsReplay UniqueLive HeldAreReplays EveryBoltIsAState Durable BoltFilesOnDisk RootFilesOnDisk
PROPERTIES LayoutStutters ReaderStable
CHECK_DEADLOCK FALSE
