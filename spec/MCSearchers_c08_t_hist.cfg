\* generated by the builder of C02/C08; see MCSearchers.tla for the families
SPECIFICATION Spec
CONSTANTS
  SegSizes <- Segs13
  Deleted = {2}
  OneHitEnc = TRUE
  ScoreNone = FALSE
  HeapTakeover = 10
  MaxCalls = 4
  NTerms = 2
  Queries <- QFlat2
  FirstAdvanceOK <- FirstAdvNoQ2
INVARIANT ResultOK
INVARIANT NoPanic
INVARIANT Ascending
INVARIANT NothingSkipped
INVARIANT OnlyMatches
CHECK_DEADLOCK FALSE
