\* Engine A: facet expectations of the single index (they depend on the corpus only)
SPECIFICATION EnumSpec
CONSTANTS
  NDocs = 4
  PatIds = {1, 2, 3}
  TreeIds = {6}
  SortIds = {1}
  MaxFrom = 0
  MaxSize = 0
  CursorSizes = {}
  WithFacets = TRUE
  Quirk = FALSE
CHECK_DEADLOCK FALSE
