\* C16 quick: every case of the quick families (one initial state per case)
SPECIFICATION Spec
CONSTANT Thorough = FALSE
INVARIANT RoundTripIdentity
INVARIANT RoundTripBehaviour
INVARIANT AlgorithmMeetsSpec
INVARIANT ValidityAsDesigned
INVARIANT OptionsNotMixed
INVARIANT NothingWhenDisabled
CHECK_DEADLOCK FALSE
