SPECIFICATION Spec
CONSTANTS
 Ids = {"a", "b", "c"}
 IKeys = {"k", "m"}
 MaxBatch = 5
 MaxActs = 1000
 LayoutOps = {"reopen", "merge", "persist"}
INVARIANTS TypeOK BatchingIndependent
CHECK_DEADLOCK FALSE
