\* Engine A case enumeration, thorough (run with -dump)
SPECIFICATION EnumSpec
CONSTANTS
  NDocs = 5
  PatIds = {1, 2}
  TreeIds = {1, 2, 7}
  SortIds = {1, 2, 3, 4}
  MaxFrom = 3
  MaxSize = 3
  CursorSizes = {2}
  WithFacets = FALSE
  Quirk = FALSE

CHECK_DEADLOCK FALSE
