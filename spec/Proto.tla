------------------------------- MODULE Proto -------------------------------
(***************************************************************************)
(* Synchronisation protocol of a bleve index (property C11).               *)
(*                                                                         *)
(* Models, one action per lock operation / channel operation / select arm: *)
(*   index_impl.go            indexImpl.mutex (sync.RWMutex, WRITER         *)
(*                            PREFERENCE: a pending Lock blocks new RLock), *)
(*                            the `open` flag, FieldDict holding the read   *)
(*                            lock until the dictionary is closed, Close    *)
(*   index/scorch/scorch.go   Open/Close (closeCh, asyncTasks),             *)
(*                            prepareSegment (introductions <- , <-applied, *)
(*                            <-persisted)                                  *)
(*   index/scorch/introducer.go  introducerLoop                             *)
(*   index/scorch/persister.go   persisterLoop, pausePersisterForMerger-    *)
(*                            CatchUp, persistSnapshotDirect,               *)
(*                            mergeAndPersistInMemorySegments               *)
(*   index/scorch/merge.go    mergerLoop, planMergeAtSnapshot, ForceMerge   *)
(*   search/collector/topn.go context polling (a search may end with the    *)
(*                            context's error once it is cancelled)         *)
(*                                                                         *)
(* No documents: the only "data" kept is what the wake-up conditions of    *)
(* the loops depend on - the root epoch, the number of in-memory segments  *)
(* in the root, and the epochs remembered by the loops and their watchers. *)
(*                                                                         *)
(* Channels:  unbuffered (introductions, persists, merges, sm.notifyCh)    *)
(*            are rendezvous: ONE joint action of sender and receiver.     *)
(*            buffered(1) (introducerNotifier, persisterNotifier,          *)
(*            forceMergeRequestCh) have a slot variable.                   *)
(*            closed-to-signal channels (closeCh, applied, persisted,      *)
(*            doneCh, watcher.notifyCh) are boolean / set membership.      *)
(* A Go select is one action per arm, enabled when that arm is ready; a    *)
(* `default` arm is enabled only when no other arm is.                     *)
(***************************************************************************)
EXTENDS Naturals, FiniteSets, TLC

CONSTANTS
    Callers,     \* set of client goroutines (model values)
    MaxOps,      \* calls per client goroutine
    LateOps,     \* additional calls a client may make once a Close has returned
    Ops,         \* operations a client may choose from
    Engine,      \* "disk" (scorch with persister+merger), "mem" (scorch, introducer only), "ud" (upsidedown: no loops)
    MaxMerges,   \* how many merge plans may find work (file merges)
    PauseMode,   \* branch of pausePersisterForMergerCatchUp: "none" | "nap" | "slow"
    HazFD,       \* TRUE: a client holding an open FieldDict may call another index method (hazard, DESIGN lead 3)
    LegacyClose2, \* TRUE: indexImpl.Close as it was before repair fb2d875 (no test of `open`: a second Close
                  \*       reaches the engine's Close again) - kept as a regression detector, see Proto_hz_close2.cfg
    LegacyFMMem   \* TRUE: Scorch.ForceMerge as it was before repair 916db13 (no test for a missing merger
                  \*       loop) - regression detector, see Proto_hz_fmmem.cfg

None == "none"

Obs == INSTANCE ProtoObs

VARIABLES
    \* ---- client goroutines
    pc,          \* program counter
    op,          \* current / last operation
    pb,          \* phase (0,1,2) when the current call began
    nops,        \* calls completed
    cancelled,   \* the context of the current call has been cancelled
    rd,          \* read-lock count held by the goroutine (recursion => 2)
    viol,        \* some call returned a result the observable contract (ProtoObs) forbids
    \* ---- indexImpl.mutex, open
    writer,      \* holder of the write lock or None
    wpend,       \* goroutines inside mutex.Lock() waiting for readers to drain
    open,
    \* ---- Close
    closed,      \* closeCh is closed
    closeBegun, closeRet,
    \* ---- batches
    applied,     \* callers whose introduction.applied is closed
    persisted,   \* callers whose introduction.persisted is closed
    rootPers,    \* s.rootPersisted (by caller)
    ourPers,     \* persister's ourPersisted
    \* ---- scorch root, abstracted
    epoch,       \* s.root.epoch
    unp,         \* number of in-memory segments in the root
    \* ---- introducer
    ipc, imTo,
    \* ---- persister
    ppc, lastPers, pSnap, pUnp, lastMerged,
    pW,          \* the persister's CURRENT epochWatcher: none | slot | listed | notified
    iSlot,       \* introducerNotifier: empty | cur | stale
    \* ---- merger
    mpc, ctrl, lastPlanned, mSnap, nMerges,
    mW,          \* the merger's CURRENT epochWatcher
    pSlot, pSlotEp, \* persisterNotifier: empty | cur | stale ; epoch carried
    \* ---- ForceMerge
    fmSlot,      \* forceMergeRequestCh: None or the requesting caller
    fmDone,      \* callers whose msg.doneCh is closed
    fmInProg     \* TotFileMergeForceOpsStarted - ...Completed

cvars  == <<pc, op, pb, nops, cancelled, rd, viol>>
lvars  == <<writer, wpend, open>>
clvars == <<closed, closeBegun, closeRet>>
bvars  == <<applied, persisted, rootPers, ourPers>>
rvars  == <<epoch, unp>>
ivars  == <<ipc, imTo>>
pvars  == <<ppc, lastPers, pSnap, pUnp, lastMerged, pW, iSlot>>
mvars  == <<mpc, ctrl, lastPlanned, mSnap, nMerges, mW, pSlot, pSlotEp>>
fvars  == <<fmSlot, fmDone, fmInProg>>
vars   == <<cvars, lvars, clvars, bvars, rvars, ivars, pvars, mvars, fvars>>

Scorch   == Engine \in {"disk", "mem"}
HasLoops == Engine = "disk"

Phase == IF closeRet THEN 2 ELSE IF closeBegun THEN 1 ELSE 0

LockingOps == {"batchS", "batchU", "search", "fielddict", "copyto", "doccount"}

Init ==
    /\ pc = [c \in Callers |-> "idle"] /\ op = [c \in Callers |-> "none"]
    /\ pb = [c \in Callers |-> 0]
    /\ nops = [c \in Callers |-> 0] /\ cancelled = [c \in Callers |-> FALSE]
    /\ rd = [c \in Callers |-> 0] /\ viol = FALSE
    /\ writer = None /\ wpend = {} /\ open = TRUE
    /\ closed = FALSE /\ closeBegun = FALSE /\ closeRet = FALSE
    /\ applied = {} /\ persisted = {} /\ rootPers = {} /\ ourPers = {}
    /\ epoch = 1 /\ unp = 0
    /\ ipc = (IF Scorch THEN "sel" ELSE "absent") /\ imTo = None
    /\ ppc = (IF HasLoops THEN "top" ELSE "absent")
    /\ lastPers = 0 /\ pSnap = 0 /\ pUnp = 0 /\ lastMerged = 0
    /\ pW = "none" /\ iSlot = "empty"
    /\ mpc = (IF HasLoops THEN "top" ELSE "absent")
    /\ ctrl = None /\ lastPlanned = 0 /\ mSnap = 0 /\ nMerges = 0
    /\ mW = "none" /\ pSlot = "empty" /\ pSlotEp = 0
    /\ fmSlot = None /\ fmDone = {} /\ fmInProg = 0

(***************************************************************************)
(* sync.RWMutex with writer preference (Go: Lock() announces itself, new   *)
(* RLock() calls queue behind it, Lock() proceeds when the readers that    *)
(* were active at the announcement have left).                             *)
(***************************************************************************)
Readers     == {c \in Callers : rd[c] > 0}
CanRLock    == writer = None /\ wpend = {}
CanLock     == writer = None /\ Readers = {}

\* ---------------------------------------------------------------- clients
\* A call returns result class r: the observable contract is evaluated HERE
\* (viol latches a breach); the per-call bookkeeping is then forgotten, which
\* keeps idle goroutines indistinguishable.
Ret(c, r, phaseAfter) ==
    /\ viol' = (viol \/ ~Obs!ResAllowed(op[c], pb[c], phaseAfter, r, cancelled[c])
                      \/ ~Obs!CloseOkOnce(op[c], Phase, r))
    /\ pc' = [pc EXCEPT ![c] = "idle"] /\ nops' = [nops EXCEPT ![c] = @ + 1]
    /\ op' = [op EXCEPT ![c] = "none"] /\ pb' = [pb EXCEPT ![c] = 0]
    /\ cancelled' = [cancelled EXCEPT ![c] = FALSE]

Begin(c, o) ==
    /\ pc[c] = "idle" /\ o \in Ops
    /\ nops[c] < MaxOps \/ (closeRet /\ nops[c] < MaxOps + LateOps)
    /\ (o = "forcemerge") => Scorch          \* reached through Advanced().(*scorch.Scorch)
    /\ op' = [op EXCEPT ![c] = o] /\ pb' = [pb EXCEPT ![c] = Phase]
    /\ pc' = [pc EXCEPT ![c] =
                 CASE o \in LockingOps -> "rl"
                   [] o = "stats"      -> "st"
                   [] o = "forcemerge" -> "fm_check"
                   [] o = "close"      -> "cl_req"]
    /\ closeBegun' = (closeBegun \/ o = "close")
    /\ UNCHANGED <<nops, cancelled, rd, viol, lvars, closed, closeRet, bvars, rvars, ivars, pvars, mvars, fvars>>

\* ctx cancel / deadline expiry: an environment event at an arbitrary moment of the call
Cancel(c) ==
    /\ pc[c] # "idle" /\ op[c] \in {"search", "forcemerge"} /\ ~cancelled[c]
    /\ cancelled' = [cancelled EXCEPT ![c] = TRUE]
    /\ UNCHANGED <<pc, op, pb, nops, rd, viol, lvars, clvars, bvars, rvars, ivars, pvars, mvars, fvars>>

\* i.mutex.RLock(); if !i.open {...}
RLock(c) ==
    /\ pc[c] = "rl" /\ CanRLock
    /\ rd' = [rd EXCEPT ![c] = @ + 1]
    /\ pc' = [pc EXCEPT ![c] =
          IF ~open THEN "ru_closed"
          ELSE CASE op[c] \in {"batchS", "batchU"} -> IF Scorch THEN "b_send" ELSE "b_ud"
                 [] op[c] = "search"    -> "s_run"
                 [] op[c] = "fielddict" -> "fd_held"
                 [] op[c] = "copyto"    -> "cp_run"
                 [] op[c] = "doccount"  -> "dc_run"]
    /\ UNCHANGED <<op, pb, nops, cancelled, viol, lvars, clvars, bvars, rvars, ivars, pvars, mvars, fvars>>

\* the last step of a call's body fused with `defer i.mutex.RUnlock()` and the return
\* (the body's last step is local to the goroutine, so the fusion loses no interleaving)
UnlockRet(c, from, r) ==
    /\ pc[c] = from
    /\ rd' = [rd EXCEPT ![c] = @ - 1]
    /\ Ret(c, r, Phase)
    /\ UNCHANGED <<lvars, clvars, rvars, ivars, pvars, mvars, fvars>>

RUnlockClosed(c) == UnlockRet(c, "ru_closed", "closed") /\ UNCHANGED bvars   \* return ErrorIndexClosed

\* err := <-introduction.applied            (scorch.go prepareSegment)
BAppliedSafe(c) ==
    /\ pc[c] = "b_applied" /\ c \in applied /\ op[c] = "batchS" /\ Engine = "disk"
    /\ applied' = applied \ {c} /\ pc' = [pc EXCEPT ![c] = "b_pers"]
    /\ UNCHANGED <<op, pb, nops, cancelled, rd, viol, lvars, clvars, persisted, rootPers, ourPers, rvars, ivars, pvars, mvars, fvars>>
BAppliedUnsafe(c) ==                         \* in-memory scorch forces unsafeBatch
    /\ c \in applied /\ ~(op[c] = "batchS" /\ Engine = "disk")
    /\ applied' = applied \ {c}
    /\ UnlockRet(c, "b_applied", "ok") /\ UNCHANGED <<persisted, rootPers, ourPers>>
\* err = <-introduction.persisted
BPersisted(c) ==
    /\ c \in persisted /\ persisted' = persisted \ {c}
    /\ UnlockRet(c, "b_pers", "ok") /\ UNCHANGED <<applied, rootPers, ourPers>>

BUd(c)   == UnlockRet(c, "b_ud", "ok") /\ UNCHANGED bvars    \* upsidedown Batch: KV write under writeMutex, no channels
DcRun(c) == UnlockRet(c, "dc_run", "ok") /\ UNCHANGED bvars
CpRun(c) == UnlockRet(c, "cp_run", IF Engine = "disk" THEN "ok" ELSE "other") /\ UNCHANGED bvars

\* collector: every CheckDoneEvery hits `select { case <-ctx.Done(): return ctx.Err() default: }`
SRunOk(c)        == UnlockRet(c, "s_run", "ok") /\ UNCHANGED bvars
SRunCancelled(c) == cancelled[c] /\ UnlockRet(c, "s_run", "cancelled") /\ UNCHANGED bvars

\* indexImplFieldDict.Close(): defer f.index.mutex.RUnlock()
FDClose(c) == (UnlockRet(c, "fd_held", "ok") \/ UnlockRet(c, "fd_held2", "ok")) /\ UNCHANGED bvars

\* HAZARD: with the dictionary open the same goroutine calls DocCount()
FDNestedCall(c) ==
    /\ HazFD /\ pc[c] = "fd_held"
    /\ pc' = [pc EXCEPT ![c] = "fdn_rl"]
    /\ UNCHANGED <<op, pb, nops, cancelled, rd, viol, lvars, clvars, bvars, rvars, ivars, pvars, mvars, fvars>>
FDNestedRLock(c) ==
    /\ pc[c] = "fdn_rl" /\ CanRLock
    /\ rd' = [rd EXCEPT ![c] = @ + 1] /\ pc' = [pc EXCEPT ![c] = "fdn_ru"]
    /\ UNCHANGED <<op, pb, nops, cancelled, viol, lvars, clvars, bvars, rvars, ivars, pvars, mvars, fvars>>
FDNestedRUnlock(c) ==
    /\ pc[c] = "fdn_ru"
    /\ rd' = [rd EXCEPT ![c] = @ - 1] /\ pc' = [pc EXCEPT ![c] = "fd_held2"]
    /\ UNCHANGED <<op, pb, nops, cancelled, viol, lvars, clvars, bvars, rvars, ivars, pvars, mvars, fvars>>

\* Stats()/StatsMap(): no index lock
St(c) ==
    /\ pc[c] = "st" /\ Ret(c, "ok", Phase)
    /\ UNCHANGED <<rd, lvars, clvars, bvars, rvars, ivars, pvars, mvars, fvars>>

(***************************************************************************)
(* scorch.ForceMerge, reached through Advanced(): NO index lock.           *)
(***************************************************************************)
FMReject(c) ==         \* if s.readOnly || s.path == "" { return error }   (no merger loop runs)
    /\ pc[c] = "fm_check" /\ ~HasLoops /\ ~LegacyFMMem /\ Ret(c, "other", Phase)
    /\ UNCHANGED <<rd, lvars, clvars, bvars, rvars, ivars, pvars, mvars, fvars>>
FMCheckBusy(c) ==      \* "force merge already in progress"
    /\ pc[c] = "fm_check" /\ (HasLoops \/ LegacyFMMem) /\ fmInProg > 0 /\ Ret(c, "other", Phase)
    /\ UNCHANGED <<rd, lvars, clvars, bvars, rvars, ivars, pvars, mvars, fvars>>
FMCheckFree(c) ==
    /\ pc[c] = "fm_check" /\ (HasLoops \/ LegacyFMMem) /\ fmInProg = 0
    /\ fmInProg' = 1 /\ pc' = [pc EXCEPT ![c] = "fm_send"]
    /\ UNCHANGED <<op, pb, nops, cancelled, rd, viol, lvars, clvars, bvars, rvars, ivars, pvars, mvars, fmSlot, fmDone>>

\* select { case s.forceMergeRequestCh <- msg: case <-s.closeCh: return nil }
FMSendReq(c) ==
    /\ pc[c] = "fm_send" /\ fmSlot = None
    /\ fmSlot' = c /\ fmDone' = fmDone \ {c}
    /\ pc' = [pc EXCEPT ![c] = "fm_wait"]
    /\ UNCHANGED <<op, pb, nops, cancelled, rd, viol, lvars, clvars, bvars, rvars, ivars, pvars, mvars, fmInProg>>
FMSendClosed(c) ==
    /\ pc[c] = "fm_send" /\ closed /\ Ret(c, "ok", Phase)
    /\ UNCHANGED <<rd, lvars, clvars, bvars, rvars, ivars, pvars, mvars, fvars>>
\* select { case <-msg.doneCh: Completed++ case <-s.closeCh: }
FMWaitDone(c) ==
    /\ pc[c] = "fm_wait" /\ c \in fmDone
    /\ fmInProg' = fmInProg - 1 /\ fmDone' = fmDone \ {c} /\ Ret(c, "ok", Phase)
    /\ UNCHANGED <<rd, lvars, clvars, bvars, rvars, ivars, pvars, mvars, fmSlot>>
FMWaitClosed(c) ==
    /\ pc[c] = "fm_wait" /\ closed /\ Ret(c, "ok", Phase)
    /\ UNCHANGED <<rd, lvars, clvars, bvars, rvars, ivars, pvars, mvars, fvars>>

(***************************************************************************)
(* indexImpl.Close: mutex.Lock(); open = false; i.i.Close(); Unlock()      *)
(* Scorch.Close:    close(closeCh); asyncTasks.Wait(); ...                 *)
(***************************************************************************)
ClReq(c) ==      \* Lock() announces itself: from now on new RLock()s block
    /\ pc[c] = "cl_req"
    /\ wpend' = wpend \cup {c} /\ pc' = [pc EXCEPT ![c] = "cl_acq"]
    /\ UNCHANGED <<op, pb, nops, cancelled, rd, viol, writer, open, clvars, bvars, rvars, ivars, pvars, mvars, fvars>>
ClAcq(c) ==      \* readers drained: write lock held
    /\ pc[c] = "cl_acq" /\ CanLock
    /\ writer' = c /\ wpend' = wpend \ {c}
    /\ IF open \/ LegacyClose2
         THEN open' = FALSE /\ pc' = [pc EXCEPT ![c] = "cl_sig"]        \* i.open = false; i.i.Close()
         ELSE open' = open /\ pc' = [pc EXCEPT ![c] = "cl_closed"]      \* if !i.open { return ErrorIndexClosed }
    /\ UNCHANGED <<op, pb, nops, cancelled, rd, viol, clvars, bvars, rvars, ivars, pvars, mvars, fvars>>
ClUnlockClosed(c) ==   \* the deferred Unlock of a Close that found the index already closed
    /\ pc[c] = "cl_closed"
    /\ writer' = None /\ Ret(c, "closed", Phase)
    /\ UNCHANGED <<rd, wpend, open, clvars, bvars, rvars, ivars, pvars, mvars, fvars>>
ClSignal(c) ==   \* close(s.closeCh) - panics if already closed; upsidedown: store.Close()
    /\ pc[c] = "cl_sig"
    /\ IF Scorch
         THEN IF closed THEN pc' = [pc EXCEPT ![c] = "panic"] /\ closed' = closed
                        ELSE pc' = [pc EXCEPT ![c] = "cl_wait"] /\ closed' = TRUE
         ELSE pc' = [pc EXCEPT ![c] = "cl_unlock"] /\ closed' = closed
    /\ UNCHANGED <<op, pb, nops, cancelled, rd, viol, lvars, closeBegun, closeRet, bvars, rvars, ivars, pvars, mvars, fvars>>
LoopsDone == /\ ipc \in {"done", "absent"} /\ ppc \in {"done", "absent"} /\ mpc \in {"done", "absent"}
ClWait(c) ==     \* s.asyncTasks.Wait()
    /\ pc[c] = "cl_wait" /\ LoopsDone
    /\ pc' = [pc EXCEPT ![c] = "cl_unlock"]
    /\ UNCHANGED <<op, pb, nops, cancelled, rd, viol, lvars, clvars, bvars, rvars, ivars, pvars, mvars, fvars>>
ClUnlock(c) ==   \* defer i.mutex.Unlock(); return
    /\ pc[c] = "cl_unlock"
    /\ writer' = None /\ closeRet' = TRUE /\ Ret(c, "ok", 2)
    /\ UNCHANGED <<rd, wpend, open, closed, closeBegun, bvars, rvars, ivars, pvars, mvars, fvars>>

\* (merger bookkeeping after a successful planMergeAtSnapshot; used by the merger and by the
\*  introducer action that completes the merge rendezvous)
AfterOK(cm, snap) ==    \* if ctrlMsg.doneCh != nil { close(doneCh) }; ctrlMsg = nil; lastEpochMergePlanned = snapshot epoch
    /\ fmDone' = IF cm \in Callers THEN fmDone \cup {cm} ELSE fmDone
    /\ ctrl' = None /\ lastPlanned' = snap /\ mSnap' = 0 /\ mpc' = "n_send"

\* ------------------------------------------------------------ introducerLoop
(* after every non-close arm: close(w.notifyCh) for watchers with w.epoch < root.epoch *)
\* (the watcher's epoch is lastPersistedEpoch at its creation, and lastPersistedEpoch does not change
\*  while the persister still waits on that watcher - so w.epoch = lastPers for the current watcher)
PWAfterPass(state, ep) == IF state = "listed" /\ lastPers < ep THEN "notified" ELSE state

IClose ==        \* case <-s.closeCh: break OUTER
    /\ ipc = "sel" /\ closed /\ ipc' = "done"
    /\ UNCHANGED <<cvars, lvars, clvars, bvars, rvars, imTo, pvars, mvars, fvars>>

IWatcher ==      \* case epochWatcher := <-s.introducerNotifier
    /\ ipc = "sel" /\ iSlot # "empty"
    /\ iSlot' = "empty"
    /\ pW' = PWAfterPass(IF iSlot = "cur" THEN "listed" ELSE pW, epoch)
    /\ UNCHANGED <<cvars, lvars, clvars, bvars, rvars, ivars, ppc, lastPers, pSnap, pUnp, lastMerged, mvars, fvars>>

\* case next := <-s.introductions  (rendezvous with prepareSegment's send);
\* introduceSegment: new root, rootPersisted appended, close(next.applied)
IBatch(c) ==
    /\ ipc = "sel" /\ pc[c] = "b_send"
    /\ pc' = [pc EXCEPT ![c] = "b_applied"]
    /\ applied' = applied \cup {c}
    /\ rootPers' = IF op[c] = "batchS" /\ Engine = "disk" THEN rootPers \cup {c} ELSE rootPers
    /\ epoch' = epoch + 1 /\ unp' = unp + 1
    /\ pW' = PWAfterPass(pW, epoch + 1)
    /\ UNCHANGED <<op, pb, nops, cancelled, rd, viol, lvars, clvars, persisted, ourPers, ivars, ppc, lastPers, pSnap, pUnp, lastMerged, iSlot, mvars, fvars>>

\* case persist := <-s.persists (rendezvous with persistSnapshotDirect);
\* introducePersist: new root, close(persist.applied)
IPersist ==
    /\ ipc = "sel" /\ ppc = "pi_send"
    /\ ppc' = "finish"     \* `<-persist.applied` returns at once: introducePersist closed it in this very step
    /\ epoch' = epoch + 1 /\ unp' = unp - pUnp
    /\ pW' = PWAfterPass(pW, epoch + 1)
    /\ UNCHANGED <<cvars, lvars, clvars, bvars, ivars, lastPers, pSnap, pUnp, lastMerged, iSlot, mvars, fvars>>

\* case nextMerge := <-s.merges (rendezvous with the merger or with the
\* persister's in-memory merge); introduceMerge ends with the unbuffered send
\* nextMerge.notifyCh <- status, which is the next action
IMergeFromMerger ==
    /\ ipc = "sel" /\ mpc = "send"
    /\ mpc' = "wait_n" /\ ipc' = "mnotify" /\ imTo' = "merg"
    /\ epoch' = epoch + 1
    /\ UNCHANGED <<cvars, lvars, clvars, bvars, unp, pvars, ctrl, lastPlanned, mSnap, nMerges, mW, pSlot, pSlotEp, fvars>>
IMergeFromPersister ==
    /\ ipc = "sel" /\ ppc = "mm_send"
    /\ ppc' = "mm_wait" /\ ipc' = "mnotify" /\ imTo' = "pers"
    /\ epoch' = epoch + 1 /\ unp' = unp - pUnp
    /\ UNCHANGED <<cvars, lvars, clvars, bvars, lastPers, pSnap, pUnp, lastMerged, pW, iSlot, mvars, fvars>>
\* nextMerge.notifyCh <- &mergeTaskIntroStatus{...}  (rendezvous with `<-sm.notifyCh`)
IMergeNotifyMerger ==     \* ... and the merger's bookkeeping after a successful plan (local, fused)
    /\ ipc = "mnotify" /\ imTo = "merg" /\ mpc = "wait_n"
    /\ AfterOK(ctrl, mSnap) /\ ipc' = "sel" /\ imTo' = None
    /\ pW' = PWAfterPass(pW, epoch)
    /\ UNCHANGED <<cvars, lvars, clvars, bvars, rvars, ppc, lastPers, pSnap, pUnp, lastMerged, iSlot, nMerges, mW, pSlot, pSlotEp, fmSlot, fmInProg>>
IMergeNotifyPersister ==
    /\ ipc = "mnotify" /\ imTo = "pers" /\ ppc = "mm_wait"
    /\ ppc' = "finish" /\ ipc' = "sel" /\ imTo' = None
    /\ pW' = PWAfterPass(pW, epoch)
    /\ UNCHANGED <<cvars, lvars, clvars, bvars, rvars, lastPers, pSnap, pUnp, lastMerged, iSlot, mvars, fvars>>

IntroStep == IClose \/ IWatcher \/ (\E c \in Callers : IBatch(c)) \/ IPersist
             \/ IMergeFromMerger \/ IMergeFromPersister \/ IMergeNotifyMerger \/ IMergeNotifyPersister

\* ------------------------------------------------------------- persisterLoop
\* the persister abandons its current watcher (leaves the wait by another arm)
AbandonPW == /\ pW' = "none"
             /\ iSlot' = IF pW = "slot" THEN "stale" ELSE iSlot

\* notifyMergeWatchers(lastPersistedEpoch, persistWatchers)
\* (likewise the merger's current watcher carries epoch = lastEpochMergePlanned)
MWAfterNotify(state, lp) == IF state = "listed" /\ lastPlanned < lp THEN "notified" ELSE state

\* receive an epochWatcher from persisterNotifier: appended to persistWatchers
TakePSlot == /\ pSlot # "empty" /\ pSlot' = "empty" /\ pSlotEp' = 0
MWTaken   == IF pSlot = "cur" THEN "listed" ELSE mW

AfterPause(lm) ==   \* which branch of pausePersisterForMergerCatchUp blocks
    IF PauseMode = "nap" THEN "nap"
    ELSE IF PauseMode = "slow" /\ lm < lastPers THEN "slow"
    ELSE "take"

\* top of the loop:  select { case <-closeCh: break OUTER; case ew = <-persisterNotifier: ...; default: }
\* then `if ew.epoch > lastMergedEpoch`, then the non-blocking head of the pause function
PTopClosed ==
    /\ ppc = "top" /\ closed /\ ppc' = "done"
    /\ UNCHANGED <<cvars, lvars, clvars, bvars, rvars, ivars, lastPers, pSnap, pUnp, lastMerged, pW, iSlot, mvars, fvars>>
PTopWatcher ==
    /\ ppc = "top" /\ TakePSlot
    /\ LET lm == IF PauseMode = "slow" /\ pSlotEp > lastMerged THEN pSlotEp ELSE lastMerged IN
       /\ lastMerged' = lm
       /\ mW' = MWAfterNotify(MWTaken, lastPers)
       /\ ppc' = AfterPause(lm)
    /\ UNCHANGED <<cvars, lvars, clvars, bvars, rvars, ivars, lastPers, pSnap, pUnp, pW, iSlot, mpc, ctrl, lastPlanned, mSnap, nMerges, fvars>>
PTopDefault ==
    /\ ppc = "top" /\ ~closed /\ pSlot = "empty"
    /\ mW' = MWAfterNotify(mW, lastPers)
    /\ ppc' = AfterPause(lastMerged)
    /\ UNCHANGED <<cvars, lvars, clvars, bvars, rvars, ivars, lastPers, pSnap, pUnp, lastMerged, pW, iSlot, mpc, ctrl, lastPlanned, mSnap, nMerges, pSlot, pSlotEp, fvars>>

\* nap:  select { case <-closeCh: case <-time.After(..): case ew := <-persisterNotifier: ... }
PNapCloseOrTimeout ==
    /\ ppc = "nap" /\ ppc' = "take"
    /\ UNCHANGED <<cvars, lvars, clvars, bvars, rvars, ivars, lastPers, pSnap, pUnp, lastMerged, pW, iSlot, mvars, fvars>>
PNapWatcher ==
    /\ ppc = "nap" /\ TakePSlot
    /\ mW' = MWAfterNotify(MWTaken, lastPers) /\ ppc' = "take"
    /\ UNCHANGED <<cvars, lvars, clvars, bvars, rvars, ivars, lastPers, pSnap, pUnp, lastMerged, pW, iSlot, mpc, ctrl, lastPlanned, mSnap, nMerges, fvars>>

\* slow-merger pause loop:  for numFiles >= N && lastMergedEpoch < lastPersistedEpoch {
\*     select { case <-closeCh: break OUTER; case ew := <-persisterNotifier: ... } }
PSlowClosed ==
    /\ ppc = "slow" /\ closed /\ ppc' = "take"
    /\ UNCHANGED <<cvars, lvars, clvars, bvars, rvars, ivars, lastPers, pSnap, pUnp, lastMerged, pW, iSlot, mvars, fvars>>
PSlowWatcher ==
    /\ ppc = "slow" /\ TakePSlot
    /\ lastMerged' = pSlotEp
    /\ mW' = MWAfterNotify(MWTaken, lastPers)
    /\ ppc' = IF pSlotEp < lastPers THEN "slow" ELSE "take"
    /\ UNCHANGED <<cvars, lvars, clvars, bvars, rvars, ivars, lastPers, pSnap, pUnp, pW, iSlot, mpc, ctrl, lastPlanned, mSnap, nMerges, fvars>>

\* s.rootLock.Lock(); if s.root.epoch > lastPersistedEpoch { ourSnapshot = s.root; ourPersisted = s.rootPersisted; ... }
\* then persistSnapshot: in-memory merge when >= 2 in-memory segments (or directly), else direct
PTake ==
    /\ ppc = "take"
    /\ IF epoch > lastPers
         THEN /\ pSnap' = epoch /\ pUnp' = unp
              /\ ourPers' = rootPers /\ rootPers' = {}
              /\ \/ unp >= 2 /\ ppc' = "mm_send"
                 \/ unp >= 1 /\ ppc' = "pi_send"
                 \/ unp = 0 /\ ppc' = "finish"
         ELSE /\ ppc' = "n_send"
              /\ UNCHANGED <<pSnap, pUnp, ourPers, rootPers>>
    /\ UNCHANGED <<cvars, lvars, clvars, applied, persisted, rvars, ivars, lastPers, lastMerged, pW, iSlot, mvars, fvars>>

\* closeCh arm of `select { case <-s.closeCh: return ErrClosed; case s.merges <- sm: }`  and of
\*                 `select { case <-s.closeCh: return ErrClosed; case s.persists <- persist: }`
\* back in the loop:  for ch in ourPersisted { ch <- err; close(ch) };  err == ErrClosed => break OUTER
PSendClosed ==
    /\ ppc \in {"mm_send", "pi_send"} /\ closed
    /\ persisted' = persisted \cup ourPers /\ ourPers' = {}
    /\ ppc' = "done" /\ pSnap' = 0 /\ pUnp' = 0
    /\ UNCHANGED <<cvars, lvars, clvars, applied, rootPers, rvars, ivars, lastPers, lastMerged, pW, iSlot, mvars, fvars>>

\* bolt commit; close(ourPersisted...); close(persistWatchers...); lastPersistedEpoch = epoch;
\* `changed` => continue OUTER
PFinish ==
    /\ ppc = "finish"
    /\ persisted' = persisted \cup ourPers /\ ourPers' = {}
    /\ mW' = IF mW = "listed" THEN "notified" ELSE mW
    /\ lastPers' = pSnap /\ pSnap' = 0 /\ pUnp' = 0          \* (dead from here on)
    /\ ppc' = IF epoch # pSnap THEN "top" ELSE "n_send"
    /\ UNCHANGED <<cvars, lvars, clvars, applied, rootPers, rvars, ivars, lastMerged, pW, iSlot, mpc, ctrl, lastPlanned, mSnap, nMerges, pSlot, pSlotEp, fvars>>

\* select { case <-s.closeCh: break OUTER; case s.introducerNotifier <- w: }
PNotifyClosed ==
    /\ ppc = "n_send" /\ closed /\ ppc' = "done"
    /\ UNCHANGED <<cvars, lvars, clvars, bvars, rvars, ivars, lastPers, pSnap, pUnp, lastMerged, pW, iSlot, mvars, fvars>>
PNotifySend ==
    /\ ppc = "n_send" /\ iSlot = "empty"
    /\ iSlot' = "cur" /\ pW' = "slot" /\ ppc' = "wait"
    /\ UNCHANGED <<cvars, lvars, clvars, bvars, rvars, ivars, lastPers, pSnap, pUnp, lastMerged, mvars, fvars>>

\* select { case <-s.closeCh: break OUTER; case <-w.notifyCh: ; case ew = <-s.persisterNotifier: ... }
PWaitClosed ==
    /\ ppc = "wait" /\ closed /\ ppc' = "done" /\ AbandonPW
    /\ UNCHANGED <<cvars, lvars, clvars, bvars, rvars, ivars, lastPers, pSnap, pUnp, lastMerged, mvars, fvars>>
PWaitNotified ==
    /\ ppc = "wait" /\ pW = "notified" /\ pW' = "none" /\ ppc' = "top"
    /\ UNCHANGED <<cvars, lvars, clvars, bvars, rvars, ivars, lastPers, pSnap, pUnp, lastMerged, iSlot, mvars, fvars>>
PWaitWatcher ==
    /\ ppc = "wait" /\ TakePSlot
    /\ mW' = MWTaken /\ ppc' = "top" /\ AbandonPW
    /\ lastMerged' = IF PauseMode = "slow" /\ pSlotEp > lastMerged THEN pSlotEp ELSE lastMerged
    /\ UNCHANGED <<cvars, lvars, clvars, bvars, rvars, ivars, lastPers, pSnap, pUnp, mpc, ctrl, lastPlanned, mSnap, nMerges, fvars>>

PersStep == PTopClosed \/ PTopWatcher \/ PTopDefault \/ PNapCloseOrTimeout \/ PNapWatcher
            \/ PSlowClosed \/ PSlowWatcher \/ PTake \/ PSendClosed \/ PFinish
            \/ PNotifyClosed \/ PNotifySend \/ PWaitClosed \/ PWaitNotified \/ PWaitWatcher

\* --------------------------------------------------------------- mergerLoop
AbandonMW == /\ mW' = "none"
             /\ pSlot' = IF mW = "slot" THEN "stale" ELSE pSlot
             /\ pSlotEp' = pSlotEp

\* select { case <-s.closeCh: break OUTER; default: ourSnapshot = s.root ... }
MTopClosed ==
    /\ mpc = "top" /\ closed /\ mpc' = "done"
    /\ UNCHANGED <<cvars, lvars, clvars, bvars, rvars, ivars, pvars, ctrl, lastPlanned, mSnap, nMerges, mW, pSlot, pSlotEp, fvars>>
\* default arm: take the root; `if ctrlMsg == nil && epoch != lastEpochMergePlanned { ctrlMsg = dflt }`;
\* planMergeAtSnapshot finds nothing (returns nil at once) or finds tasks (MTopWork).
\* Planning and the bookkeeping after it are local to the merger and fused into this step.
CtrlAtTop == IF ctrl = None /\ epoch # lastPlanned THEN "dflt" ELSE ctrl
MTopIdle ==
    /\ mpc = "top" /\ ~closed /\ CtrlAtTop = None
    /\ mpc' = "n_send"
    /\ UNCHANGED <<cvars, lvars, clvars, bvars, rvars, ivars, pvars, ctrl, lastPlanned, mSnap, nMerges, mW, pSlot, pSlotEp, fvars>>
MTopNothing ==
    /\ mpc = "top" /\ ~closed /\ CtrlAtTop # None
    /\ AfterOK(CtrlAtTop, epoch)
    /\ UNCHANGED <<cvars, lvars, clvars, bvars, rvars, ivars, pvars, nMerges, mW, pSlot, pSlotEp, fmSlot, fmInProg>>
MTopWork ==
    /\ mpc = "top" /\ ~closed /\ CtrlAtTop # None /\ nMerges < MaxMerges
    /\ ctrl' = CtrlAtTop /\ mSnap' = epoch /\ nMerges' = nMerges + 1 /\ mpc' = "work"
    /\ UNCHANGED <<cvars, lvars, clvars, bvars, rvars, ivars, pvars, lastPlanned, mW, pSlot, pSlotEp, fvars>>

\* after a planMergeAtSnapshot error == segment.ErrClosed:
\*   ForceMerge request: close(doneCh); ctrlMsg = nil; continue OUTER      else: break OUTER
MErrClosed ==
    /\ IF ctrl \in Callers
         THEN /\ fmDone' = fmDone \cup {ctrl} /\ mpc' = "top"
         ELSE /\ fmDone' = fmDone /\ mpc' = "done"
    /\ ctrl' = None /\ mSnap' = 0

\* segPlugin.MergeUsing(..., cw.cancelCh, ...): cancelCh is closed by closeCh or by the request's ctx
MWorkDone ==
    /\ mpc = "work" /\ mpc' = "send"
    /\ UNCHANGED <<cvars, lvars, clvars, bvars, rvars, ivars, pvars, ctrl, lastPlanned, mSnap, nMerges, mW, pSlot, pSlotEp, fvars>>
MWorkCancelled ==
    /\ mpc = "work" /\ (closed \/ (ctrl \in Callers /\ cancelled[ctrl]))
    /\ MErrClosed
    /\ UNCHANGED <<cvars, lvars, clvars, bvars, rvars, ivars, pvars, lastPlanned, nMerges, mW, pSlot, pSlotEp, fmSlot, fmInProg>>

\* select { case <-s.closeCh: return ErrClosed; case s.merges <- sm: }
MSendClosed ==
    /\ mpc = "send" /\ closed
    /\ MErrClosed
    /\ UNCHANGED <<cvars, lvars, clvars, bvars, rvars, ivars, pvars, lastPlanned, nMerges, mW, pSlot, pSlotEp, fmSlot, fmInProg>>

\* select { case <-s.closeCh: break OUTER; case s.persisterNotifier <- ew: ; case ctrlMsg = <-s.forceMergeRequestCh: continue OUTER }
MNotifyClosed ==
    /\ mpc = "n_send" /\ closed /\ mpc' = "done"
    /\ UNCHANGED <<cvars, lvars, clvars, bvars, rvars, ivars, pvars, ctrl, lastPlanned, mSnap, nMerges, mW, pSlot, pSlotEp, fvars>>
MNotifySend ==
    /\ mpc = "n_send" /\ pSlot = "empty"
    /\ pSlot' = "cur" /\ pSlotEp' = (IF PauseMode = "slow" THEN lastPlanned ELSE 0)
    /\ mW' = "slot" /\ mpc' = "wait"
    /\ UNCHANGED <<cvars, lvars, clvars, bvars, rvars, ivars, pvars, ctrl, lastPlanned, mSnap, nMerges, fvars>>
MNotifyForce ==
    /\ mpc = "n_send" /\ fmSlot # None
    /\ ctrl' = fmSlot /\ fmSlot' = None /\ mpc' = "top"
    /\ UNCHANGED <<cvars, lvars, clvars, bvars, rvars, ivars, pvars, lastPlanned, mSnap, nMerges, mW, pSlot, pSlotEp, fmDone, fmInProg>>

\* select { case <-s.closeCh: break OUTER; case <-ew.notifyCh: ; case ctrlMsg = <-s.forceMergeRequestCh: }
MWaitClosed ==
    /\ mpc = "wait" /\ closed /\ mpc' = "done" /\ AbandonMW
    /\ UNCHANGED <<cvars, lvars, clvars, bvars, rvars, ivars, pvars, ctrl, lastPlanned, mSnap, nMerges, fvars>>
MWaitNotified ==
    /\ mpc = "wait" /\ mW = "notified" /\ mW' = "none" /\ mpc' = "top"
    /\ UNCHANGED <<cvars, lvars, clvars, bvars, rvars, ivars, pvars, ctrl, lastPlanned, mSnap, nMerges, pSlot, pSlotEp, fvars>>
MWaitForce ==
    /\ mpc = "wait" /\ fmSlot # None
    /\ ctrl' = fmSlot /\ fmSlot' = None /\ mpc' = "top" /\ AbandonMW
    /\ UNCHANGED <<cvars, lvars, clvars, bvars, rvars, ivars, pvars, lastPlanned, mSnap, nMerges, fmDone, fmInProg>>

MergStep == MTopClosed \/ MTopIdle \/ MTopNothing \/ MTopWork \/ MWorkDone \/ MWorkCancelled
            \/ MSendClosed \/ MNotifyClosed \/ MNotifySend \/ MNotifyForce
            \/ MWaitClosed \/ MWaitNotified \/ MWaitForce

\* ------------------------------------------------------------------- system
CallerStep(c) ==    \* steps of a call in progress (not the decision to call, not cancellation)
    \/ RLock(c) \/ RUnlockClosed(c) \/ BAppliedSafe(c) \/ BAppliedUnsafe(c) \/ BPersisted(c) \/ BUd(c)
    \/ DcRun(c) \/ CpRun(c) \/ SRunOk(c) \/ SRunCancelled(c) \/ FDClose(c)
    \/ FDNestedRLock(c) \/ FDNestedRUnlock(c) \/ St(c)
    \/ FMReject(c) \/ FMCheckBusy(c) \/ FMCheckFree(c) \/ FMSendReq(c) \/ FMSendClosed(c) \/ FMWaitDone(c) \/ FMWaitClosed(c)
    \/ ClReq(c) \/ ClAcq(c) \/ ClUnlockClosed(c) \/ ClSignal(c) \/ ClWait(c) \/ ClUnlock(c)

ClientChoice(c) == (\E o \in Ops : Begin(c, o)) \/ Cancel(c) \/ FDNestedCall(c)

\* no call in progress: clients need not call anything more, so the system may rest here.
\* Every other reachable state must have a successor (TLC's deadlock check).
Quiet   == \A c \in Callers : pc[c] = "idle"
Stutter == Quiet /\ UNCHANGED vars

Next == \/ \E c \in Callers : CallerStep(c) \/ ClientChoice(c)
        \/ IntroStep \/ PersStep \/ MergStep
        \/ Stutter

Spec == Init /\ [][Next]_vars

\* weak fairness of every goroutine that is inside a call or is a loop
FairSpec == /\ Spec
            /\ \A c \in Callers : WF_vars(CallerStep(c))
            /\ WF_vars(IntroStep) /\ WF_vars(PersStep) /\ WF_vars(MergStep)

\* --------------------------------------------------------------- properties
States == {"none", "slot", "listed", "notified"}
Slots  == {"empty", "cur", "stale"}
TypeOK ==
    /\ pc \in [Callers -> {"idle", "rl", "ru_closed", "b_send", "b_applied", "b_pers", "b_ud", "s_run", "dc_run",
                           "cp_run", "fd_held", "fd_held2", "fdn_rl", "fdn_ru", "st", "fm_check", "fm_send",
                           "fm_wait", "cl_req", "cl_acq", "cl_closed", "cl_sig", "cl_wait", "cl_unlock", "panic"}]
    /\ op \in [Callers -> Ops \cup {"none"}]
    /\ pb \in [Callers -> 0..2] /\ nops \in [Callers -> 0..(MaxOps + LateOps)]
    /\ cancelled \in [Callers -> BOOLEAN] /\ rd \in [Callers -> 0..2] /\ viol \in BOOLEAN
    /\ writer \in Callers \cup {None} /\ wpend \subseteq Callers /\ open \in BOOLEAN
    /\ closed \in BOOLEAN /\ closeBegun \in BOOLEAN /\ closeRet \in BOOLEAN
    /\ applied \subseteq Callers /\ persisted \subseteq Callers
    /\ rootPers \subseteq Callers /\ ourPers \subseteq Callers
    /\ epoch \in Nat /\ unp \in Nat
    /\ ipc \in {"sel", "mnotify", "done", "absent"} /\ imTo \in {None, "merg", "pers"}
    /\ ppc \in {"top", "nap", "slow", "take", "mm_send", "mm_wait", "pi_send", "finish",
                "n_send", "wait", "done", "absent"}
    /\ lastPers \in Nat /\ pSnap \in Nat /\ pUnp \in Nat /\ lastMerged \in Nat
    /\ pW \in States /\ iSlot \in Slots
    /\ mpc \in {"top", "work", "send", "wait_n", "n_send", "wait", "done", "absent"}
    /\ ctrl \in Callers \cup {None, "dflt"} /\ lastPlanned \in Nat /\ mSnap \in Nat /\ nMerges \in 0..MaxMerges
    /\ mW \in States /\ pSlot \in Slots /\ pSlotEp \in Nat
    /\ fmSlot \in Callers \cup {None} /\ fmDone \subseteq Callers /\ fmInProg \in Nat

\* the RW lock excludes; a finished call holds nothing
RWExclusion  == writer # None => Readers = {}
LockBalanced == \A c \in Callers : pc[c] = "idle" => (rd[c] = 0 /\ writer # c /\ c \notin wpend)

NoPanic == \A c \in Callers : pc[c] # "panic"

\* the observable contract (ProtoObs!ResAllowed, evaluated in Ret) holds at every call return;
\* its central clause: a locking call that began after Close returned yields the closed-index error
ContractHolds == ~viol

\* Close returns only when the background goroutines are gone and no reader is inside
CloseReturnMeansStopped == closeRet => LoopsDone
WriterMeansQuiescent ==
    \A c \in Callers : pc[c] \in {"cl_closed", "cl_sig", "cl_wait", "cl_unlock"} =>
        \A d \in Callers : pc[d] \notin {"b_send", "b_applied", "b_pers", "b_ud", "s_run", "dc_run", "cp_run",
                                         "fd_held", "fd_held2", "fdn_ru", "ru_closed"}

\* DESIGN lead 7: prepareSegment has no closeCh arm; safe because the read lock excludes Close
BatchNeverSeesClose == \A c \in Callers : pc[c] \in {"b_send", "b_applied", "b_pers"} => ~closed
\* the persister never exits with acknowledgements owed (a safe batch would hang)
NoOrphanAck == closed => (rootPers = {} /\ ourPers = {})
\* forceMergeRequestCh (buffered 1) never holds a request while another is in flight
ForceMergeSingle == fmInProg <= Cardinality(Callers)

\* liveness (FairSpec)
CloseCompletes   == closeBegun ~> (closeRet /\ LoopsDone)
EveryCallReturns == \A c \in Callers : (pc[c] # "idle") ~> (pc[c] = "idle")
\* a cancelled search returns, with the lock released
CancelledSearchReturns ==
    \A c \in Callers : (op[c] = "search" /\ cancelled[c] /\ pc[c] # "idle") ~> (pc[c] = "idle" /\ rd[c] = 0)

(***************************************************************************)
(* VIEW for the exhaustive safety configurations.                          *)
(* The loops only COMPARE epochs (and the root epoch only grows by one),   *)
(* so a state and its translate by a constant have the same future; and a  *)
(* remembered epoch that is overwritten before it is read again is dead.   *)
(* The view maps dead epoch variables to 0 and shifts the live ones so     *)
(* that the smallest is 1: a bisimulation quotient, not an abstraction.    *)
(***************************************************************************)
PSnapLive == ppc \in {"mm_send", "mm_wait", "pi_send", "finish"}
MSnapLive == mpc \in {"work", "send", "wait_n"}
SlowLive  == PauseMode = "slow"
LiveEpochs == {epoch, lastPers, lastPlanned}
              \cup (IF PSnapLive THEN {pSnap} ELSE {}) \cup (IF MSnapLive THEN {mSnap} ELSE {})
              \cup (IF SlowLive THEN {lastMerged} ELSE {})
              \cup (IF SlowLive /\ pSlot # "empty" THEN {pSlotEp} ELSE {})
MinLive == CHOOSE m \in LiveEpochs : \A x \in LiveEpochs : m <= x
Sh(live, v) == IF live THEN v - MinLive + 1 ELSE 0
View == <<pc, op, pb, nops, cancelled, rd, viol, lvars, clvars, bvars, unp, ivars,
          ppc, IF PSnapLive THEN pUnp ELSE 0, pW, iSlot, mpc, ctrl, nMerges, mW, pSlot, fvars,
          Sh(TRUE, epoch), Sh(TRUE, lastPers), Sh(TRUE, lastPlanned), Sh(PSnapLive, pSnap), Sh(MSnapLive, mSnap),
          Sh(SlowLive, lastMerged), Sh(SlowLive /\ pSlot # "empty", pSlotEp)>>

Symm == Permutations(Callers)
=============================================================================
