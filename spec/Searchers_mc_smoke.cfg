SPECIFICATION Spec
CONSTANTS
  SegSizes <- Segs22
  Deleted = {1}
  OneHitEnc = TRUE
  ScoreNone = FALSE
  HeapTakeover = 10
  MaxCalls = 3
  NTerms = 3
  Queries <- QConj
  FirstAdvanceOK <- FirstAdvNoQ2
VIEW View
INVARIANT ResultOK
INVARIANT NoPanic
INVARIANT EnumIsHits
CHECK_DEADLOCK FALSE
