------------------------------ MODULE NumericMC ------------------------------
(***************************************************************************)
(* Exhaustive model checking of Numeric.tla for scaled-down (B, L).        *)
(*                                                                         *)
(* SplitSpec   one action per iteration of the loop of splitInt64Range,    *)
(*             started from every (min, max) including min > max; TLC      *)
(*             checks termination, the loop invariant (emitted ranges +    *)
(*             remaining interval partition [min,max]) and, at the end,    *)
(*             disjointness, exact cover, the interval-chain criterion used *)
(*             at full width by the judge, and "a value matches iff one of  *)
(*             its L indexed terms is enumerated".                          *)
(* PairSpec    every pair of words: prefix coding keeps order at every     *)
(*             shift, decodes to the truncated value; the float map is     *)
(*             strictly monotone on ordinary floats and an involution.     *)
(***************************************************************************)
EXTENDS Numeric, TLC

VARIABLES min0, max0,      \* the arguments (never change)
          curMin, curMax,  \* minBound / maxBound of the current iteration
          lvl,             \* shift / precisionStep
          emitted,         \* rv
          pc               \* "loop" | "done" | "pair"

vars == <<min0, max0, curMin, curMax, lvl, emitted, pc>>

-----------------------------------------------------------------------------
SplitInit ==
  /\ min0 \in Values /\ max0 \in Values
  /\ curMin = min0 /\ curMax = max0 /\ lvl = 0 /\ emitted = <<>>
  /\ pc = IF SLess(max0, min0) THEN "done" ELSE "loop"   \* if minBound > maxBound { return rv }

Iterate ==
  /\ pc = "loop"
  /\ LET s == SplitStep(curMin, curMax, lvl)
     IN /\ emitted' = emitted \o s.emit
        /\ IF s.done
           THEN pc' = "done" /\ UNCHANGED <<curMin, curMax, lvl>>
           ELSE pc' = "loop" /\ curMin' = s.mn /\ curMax' = s.mx /\ lvl' = lvl + 1
  /\ UNCHANGED <<min0, max0>>

SplitNext == Iterate
SplitSpec == SplitInit /\ [][SplitNext]_vars /\ WF_vars(Iterate)

-----------------------------------------------------------------------------
RangeVals(lo, hi) == {v \in Values : SLeq(lo, v) /\ SLeq(v, hi)}
RngVals(r)        == RangeVals(ZeroLow(r.lo, r.k), r.hi)
Target            == RangeVals(min0, max0)
CoveredBy(rs)     == UNION {RngVals(rs[i]) : i \in 1..Len(rs)}
PairwiseDisjoint(rs) ==
  \A i, j \in 1..Len(rs) : i < j => RngVals(rs[i]) \cap RngVals(rs[j]) = {}

TypeOK ==
  /\ pc \in {"loop", "done"}
  /\ lvl \in Levels                                   \* never runs past the last level
  /\ \A i \in 1..Len(emitted) : emitted[i].k \in Levels

(* Loop invariant: what was emitted so far and the interval still to be    *)
(* split, [curMin, curMax | low], partition the requested interval.        *)
LoopInv ==
  pc = "loop" =>
    LET rest == RangeVals(curMin, FillLow(curMax, lvl))
    IN /\ curMin = ZeroLow(curMin, lvl)
       /\ curMax = ZeroLow(curMax, lvl)
       /\ PairwiseDisjoint(emitted)
       /\ CoveredBy(emitted) \cap rest = {}
       /\ CoveredBy(emitted) \cup rest = Target

Disjoint   == pc = "done" => PairwiseDisjoint(emitted)
ExactCover == pc = "done" => CoveredBy(emitted) = Target
Chain      == pc = "done" => ChainCover(emitted, min0, max0)
SameAsSplit == pc = "done" => emitted = Split(min0, max0)
(* at most two ranges per level, one at the last: the term count is bounded *)
Bounded    == Len(emitted) <= 2 * lvl + 1 /\
              \A i \in 1..Len(emitted) :
                 Cardinality(RngVals(emitted[i])) <= 2 * B * (2 ^ (DB * emitted[i].k))
(* the searcher's candidate test agrees with the numeric meaning           *)
MatchIff   == pc = "done" =>
                \A v \in Values : Matches(v, emitted) <=> (SLeq(min0, v) /\ SLeq(v, max0))
(* the chain criterion is not weaker than the set semantics: on arbitrary  *)
(* sub-sequences of the output (a dropped range) it must fail              *)
ChainSound == pc = "done" /\ Len(emitted) >= 2 =>
                \A d \in 1..Len(emitted) :
                   ~ChainCover([i \in 1..(Len(emitted)-1) |->
                                 IF i < d THEN emitted[i] ELSE emitted[i+1]], min0, max0)

Termination == <>(pc = "done")

(* termRange.Enumerate, transcribed as the loop it is, and its iteration    *)
(* count; EnumCountOK validates the closed form EnumWithin used by the      *)
(* judge at full width.                                                     *)
RECURSIVE EnumCount(_, _, _)
EnumCount(next, end, acc) ==
  IF BytesLess(end, next) THEN acc ELSE EnumCount(IncBytes(next), end, acc + 1)
EnumCountOK ==
  \A i \in 1..Len(emitted) :
    LET n == EnumCount(RngStart(emitted[i]), RngEnd(emitted[i]), 0)
    IN /\ n >= 1
       /\ RngEnumWithin(emitted[i], n)
       /\ ~RngEnumWithin(emitted[i], n - 1)
(* The walk over an emitted range is short: its covered terms (< 2B) plus   *)
(* at most one pass over the invalid values of the last byte.  (Before the  *)
(* repair of incrementBytes this was violated - TLC gave min0 = <<0,3,1>>,   *)
(* max0 = <<1,0,0>> for B = 4, L = 3, G = 2 - and real queries such as       *)
(* [math.Nextafter(2,0), 2] never answered.)                                 *)
EnumLinear ==
  \A i \in 1..Len(emitted) : RngEnumWithin(emitted[i], 2 * B + BB)

-----------------------------------------------------------------------------
(* Exclusive bounds: stepping one integer turns every flag combination     *)
(* into the inclusive problem with the right meaning.                      *)
InRange(v, a, ia, b, ib) ==
  /\ IF ia THEN SLeq(a, v) ELSE SLess(a, v)
  /\ IF ib THEN SLeq(v, b) ELSE SLess(v, b)

(* The pair (min0, max0) is chosen in two steps so that TLC's workers share *)
(* the pairs; the pair invariants speak about states with pc = "pair".     *)
PairInit ==
  /\ min0 \in Values /\ max0 = min0
  /\ curMin = min0 /\ curMax = max0 /\ lvl = 0 /\ emitted = <<>> /\ pc = "first"
PairNext ==
  /\ pc = "first" /\ pc' = "pair"
  /\ max0' \in Values
  /\ UNCHANGED <<min0, curMin, curMax, lvl, emitted>>
PairSpec == PairInit /\ [][PairNext]_vars

(* the two guards (`!= MaxInt64', `!= MinInt64') leave exactly one corner  *)
(* where stepping is impossible; no value can be exclusive-below MaxInt64's *)
(* successor, so the only deviation is (MaxInt64, x] / [x, MinInt64)        *)
StepMeaning ==
  \A ia, ib \in BOOLEAN :
    LET a == StepMin(min0, ia)   b == StepMax(max0, ib)
    IN \A v \in Values :
         (SLeq(a, v) /\ SLeq(v, b)) <=>
            \/ InRange(v, min0, ia, max0, ib)
            \/ ~ia /\ min0 = MaxVal /\ v = MaxVal /\ (IF ib THEN SLeq(v, max0) ELSE SLess(v, max0))
            \/ ~ib /\ max0 = MinVal /\ v = MinVal /\ (IF ia THEN SLeq(min0, v) ELSE SLess(min0, v))

(* prefix coding, every bit shift 0..W-1 (numeric fields use multiples of   *)
(* DB, geo points multiples of 9)                                           *)
PrefixOrder ==
  \A s \in 0..(W-1) :
    LET a == TruncBits(min0, s)   b == TruncBits(max0, s)
        ta == PrefixCode(min0, s) tb == PrefixCode(max0, s)
    IN /\ ValidTerm(ta)
       /\ TermShift(ta) = s
       /\ DecodeTerm(ta) = a
       /\ Len(ta) = Len(tb)
       /\ SLess(a, b) <=> BytesLess(ta, tb)
       /\ a = b <=> ta = tb
(* the chunked integer versions used at full width are the same functions   *)
PrefixFast ==
  \A k \in Levels :
    /\ PrefixCodeD(min0, k) = PrefixCode(min0, k * DB)
    /\ DecodeTermD(PrefixCode(min0, k * DB)) = DecodeTerm(PrefixCode(min0, k * DB))
(* terms of different shifts never collide (the shift byte separates them)  *)
PrefixSeparate ==
  \A s, t \in 0..(W-1) : s # t => PrefixCode(min0, s) # PrefixCode(max0, t)

(* float map: involution on every word; strictly monotone on ordinary      *)
(* floats; -0 lands directly below +0, NaNs outside [-Inf, +Inf]            *)
FloatInvolution == SortableToFloat(FloatToSortable(min0)) = min0
FloatMonotone ==
  FloatOrdinary(min0) /\ FloatOrdinary(max0) =>
    (FloatLess(min0, max0) <=> SLess(FloatToSortable(min0), FloatToSortable(max0)))
FloatDigits ==
  /\ FloatLessD(min0, max0) <=> FloatLess(min0, max0)
  /\ FloatLeqD(min0, max0) <=> FloatLeq(min0, max0)
FloatEdges ==
  LET w == ToBits(min0)
      PInf == FromBits([i \in 1..W |-> IF i \in 2..(FE+1) THEN 1 ELSE 0])
      NInf == FromBits([i \in 1..W |-> IF i \in 1..(FE+1) THEN 1 ELSE 0])
  IN /\ IsNegZeroB(w) => Succ(FloatToSortable(min0)) = Zero /\ FloatToSortable(min0) # Zero
     /\ IsNaNB(w) => \/ SLess(FloatToSortable(PInf), FloatToSortable(min0))
                     \/ SLess(FloatToSortable(min0), FloatToSortable(NInf))

=============================================================================
