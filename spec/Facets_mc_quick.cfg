\* C10 quick: 3 documents, 3 values, every corpus / match subset, 2 page settings (Size+From above and below the match count, both sort directions)
SPECIFICATION Spec
CONSTANTS
  NDocs = 3
  Vals = {1, 2, 3}
  Sizes = {0, 1, 2, 3, 4, 5}
  Pages <- PagesTwo
INVARIANTS TypeOK Refines TallyBeforeStore FacetsAreTheMeaning CountsAreDocCounts Ordered Balanced Accounted PageOK
CHECK_DEADLOCK FALSE
