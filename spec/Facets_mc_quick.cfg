\* C10 quick: 3 documents, 3 values, every corpus / match subset, page Size=1 From=1 descending (the store evicts)
SPECIFICATION Spec
CONSTANTS
  NDocs = 3
  Vals = {1, 2, 3}
  Sizes = {0, 1, 2, 3, 4, 5}
  Pages <- PagesEvict
INVARIANTS TypeOK Refines TallyBeforeStore FacetsAreTheMeaning CountsAreDocCounts Ordered Balanced Accounted PageOK
CHECK_DEADLOCK FALSE
