--------------------------- MODULE AliasOps ---------------------------
(* Constant-free operators of the alias-search design (property C09), shared by
   Alias.tla and spec/trace/JudgeAlias.tla.

   Code transcribed:
     index_alias_impl.go   SearchInContext (single-member short circuit), MultiSearch,
                           hitsInCurrentPage
     search_no_knn.go      copySearchRequest   (child request: Size+From, From=0)
     search.go             SearchResult.Merge
     index_impl.go         SearchInContext     (SearchBefore: reverse, search after, re-sort)
     search/collector/topn.go  search-after filter, bounded store, skip
     search/sort.go        SortOrder.Compare, SortField missing-value sentinels, Reverse
     search/facets_builder.go  FacetResults.Merge / Fixup  (FacetOps)

   A corpus context X is a record
     [key   : doc -> 0..K   sort key of the document, 0 = field missing
      m     : set of docs matched by the query
      shard : doc -> shard number
      fs    : set of facet sizes requested (all at once, one facet per size)
      ranges: numeric range set of the range facet
      quirk : TRUE = hitsInCurrentPage as it was before /repo 22240fd (trim only when Size > 0)]
   Documents are numbers; the external id of document d sorts like d.
   A sort is a sequence of [by |-> "key"|"id", desc, mfirst]; it contains "id", so it is total.
   A request is [from, size, sort, mode |-> "page"|"after"|"before", cursor].
*)
EXTENDS FacetOps

LOW  == -1          \* search.LowTerm
HIGH == 1000000     \* search.HighTerm

(* SortField.Value: missing value sentinel chosen by (Missing, Desc) *)
SortVal(c, d, key) ==
  IF c.by = "id" THEN d
  ELSE IF key[d] = 0 THEN (IF c.mfirst = c.desc THEN HIGH ELSE LOW)
  ELSE key[d]

SV(sort, d, key) == [i \in DOMAIN sort |-> SortVal(sort[i], d, key)]

(* SortOrder.Reverse *)
Reverse(sort) == [i \in DOMAIN sort |-> [sort[i] EXCEPT !.desc = ~@, !.mfirst = ~@]]

(* SortOrder.Compare on the stored sort values *)
RECURSIVE CmpFrom(_, _, _, _)
CmpFrom(sort, a, b, i) ==
  IF i > Len(sort) THEN 0
  ELSE IF a[i] = b[i] THEN CmpFrom(sort, a, b, i + 1)
  ELSE IF (a[i] < b[i]) # sort[i].desc THEN -1 ELSE 1

HitLess(sort, h1, h2) == CmpFrom(sort, h1.sv, h2.sv, 1) < 0

RECURSIVE SortHits(_, _)
SortHits(sort, S) ==
  IF S = {} THEN <<>>
  ELSE LET x == CHOOSE x \in S : \A y \in S \ {x} : HitLess(sort, x, y)
       IN <<x>> \o SortHits(sort, S \ {x})

Ids(hits) == [i \in DOMAIN hits |-> hits[i].id]

FacetVals(X) == [d \in DOMAIN X.key |-> IF X.key[d] = 0 THEN {} ELSE {X.key[d]}]
AllTerms(X)  == {X.key[d] : d \in DOMAIN X.key}

EmptyFR == [total |-> 0, missing |-> 0, other |-> 0, list |-> <<>>, hidden |-> {}]

(* One index holding the documents D (a shard, or the whole corpus): what
   indexImpl.SearchInContext + TopNCollector return. *)
LeafSearch(X, D0, req) ==
  LET D        == D0 \cap X.m
      rev      == req.mode = "before"
      srt      == IF rev THEN Reverse(req.sort) ELSE req.sort
      hasAfter == req.mode # "page"
      cand     == IF hasAfter
                  THEN {d \in D : CmpFrom(srt, SV(srt, d, X.key), req.cursor, 1) > 0}
                  ELSE D
      ordered  == SortHits(srt, {[id |-> d, sv |-> SV(srt, d, X.key)] : d \in cand})
      skip     == IF hasAfter THEN 0 ELSE req.from       \* NewTopNCollectorAfter: skip 0
      kept     == Take(ordered, req.size + skip)          \* the bounded store
      pg       == Drop(kept, skip)
      final    == IF rev THEN SortHits(req.sort, Range(pg)) ELSE pg
      tfull    == DeclTermsFull(FacetVals(X), D, AllTerms(X))
      nfull    == DeclRangesFull(FacetVals(X), D, X.ranges)
  IN [hits |-> final, total |-> Cardinality(D),    \* Total counts every match, also those before the cursor
      ft |-> [s \in X.fs |-> Cut(tfull, s, TRUE)],
      fn |-> [s \in X.fs |-> Cut(nfull, s, FALSE)]]

(* MultiSearch, step by step *)
Rewrite(req) ==          \* SearchBefore: reverse the sort, search after
  IF req.mode = "before" THEN [req EXCEPT !.sort = Reverse(@), !.mode = "after"] ELSE req

ChildReq(r) == [r EXCEPT !.size = r.size + r.from, !.from = 0]     \* copySearchRequest

MergeSR(X, a, b) ==      \* SearchResult.Merge
  [hits |-> a.hits \o b.hits, total |-> a.total + b.total,
   ft |-> [s \in X.fs |-> MergeFR(a.ft[s], b.ft[s])],
   fn |-> [s \in X.fs |-> MergeFR(a.fn[s], b.fn[s])]]

SortStep(sr, r) == [sr EXCEPT !.hits = SortHits(r.sort, Range(@))]

SliceStep(X, sr, r) ==   \* hitsInCurrentPage
  LET h1 == IF r.from > 0 THEN Drop(sr.hits, r.from) ELSE sr.hits
      h2 == IF Len(h1) > r.size /\ (X.quirk => r.size > 0) THEN Take(h1, r.size) ELSE h1
  IN [sr EXCEPT !.hits = h2]

FixupStep(X, sr) ==
  [sr EXCEPT !.ft = [s \in X.fs |-> Fixup(sr.ft[s], s)],
             !.fn = [s \in X.fs |-> Fixup(sr.fn[s], s)]]

ReverseBack(sr, orig) ==
  IF orig.mode = "before" THEN [sr EXCEPT !.hits = SortHits(orig.sort, Range(@))] ELSE sr

RECURSIVE FoldMerge(_, _, _, _)
FoldMerge(X, acc, rs, i) == IF i > Len(rs) THEN acc ELSE FoldMerge(X, MergeSR(X, acc, rs[i]), rs, i + 1)

(* a node is [kind |-> "leaf", shard |-> s] or [kind |-> "alias", kids |-> <<node,...>>] *)
DocsOfShard(X, s) == {d \in DOMAIN X.shard : X.shard[d] = s}

RECURSIVE Search(_, _, _)
Search(X, node, req) ==
  IF node.kind = "leaf" THEN LeafSearch(X, DocsOfShard(X, node.shard), req)
  ELSE IF Len(node.kids) = 1 THEN Search(X, node.kids[1], req)      \* short circuit: request passed unchanged
  ELSE LET r  == Rewrite(req)
           cr == ChildReq(r)
           rs == [i \in DOMAIN node.kids |-> Search(X, node.kids[i], cr)]
           m  == FoldMerge(X, rs[1], rs, 2)
       IN ReverseBack(FixupStep(X, SliceStep(X, SortStep(m, r), r)), req)

RECURSIVE Leaves(_)
Leaves(node) == IF node.kind = "leaf" THEN {node.shard}
                ELSE UNION {Leaves(node.kids[i]) : i \in DOMAIN node.kids}

(* the single index with the whole corpus *)
Single(X, req) == LeafSearch(X, DOMAIN X.key, req)

(* facet size covers all buckets of the whole corpus *)
Covers(X, s) ==
  /\ Cardinality(TermBuckets(FacetVals(X), X.m, AllTerms(X))) <= s
  /\ Cardinality(RangeBuckets(FacetVals(X), X.m, X.ranges)) <= s
=============================================================================
