SPECIFICATION Spec
CONSTANTS
  MaxN = 4
  NS = 3
  AdvMode = "keys"
INVARIANT CallOK
INVARIANT QueueOK
INVARIANT TypeOK
CHECK_DEADLOCK FALSE
