\* C11 quick: scorch on disk, 2 client goroutines x 2 calls, every operation, safety + deadlock
SPECIFICATION Spec
CONSTANTS
  Callers = {c1, c2}
  MaxOps = 1
  LateOps = 1
  Ops = {"batchS", "batchU", "search", "fielddict", "forcemerge", "copyto", "doccount", "stats", "close"}
  Engine = "disk"
  MaxMerges = 1
  PauseMode = "nap"
  HazFD = FALSE
  LegacyClose2 = FALSE
  LegacyFMMem = FALSE
SYMMETRY Symm
VIEW View
INVARIANTS TypeOK RWExclusion LockBalanced NoPanic ContractHolds
  CloseReturnMeansStopped WriterMeansQuiescent BatchNeverSeesClose NoOrphanAck ForceMergeSingle
CHECK_DEADLOCK TRUE
