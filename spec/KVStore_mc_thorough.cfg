\* "the model decides" (thorough): 3 keys, one (empty) value, two readers, one iterator
SPECIFICATION Spec
CONSTANTS
  Bytes = {0, 97, 255}
  Keys <- KeysTiny
  Probes <- ProbesTiny2
  PrefixSet <- PrefixTiny2
  RangeSet <- RangeTiny2
  Vals <- ValsEmpty
  MergeKeys <- NoKeys
  Operands <- OperandsNone
  MaxCount = 1
  Readers = {1, 2}
  Iters = {1}
  MaxBatch = 1
  AtomicBatch = TRUE
  RepeatKeys = FALSE
  ReadActions = FALSE
  MultiGetLen = 1
INVARIANTS TypeOK ReadsInByteOrder IterRefines IterInView
PROPERTIES ReaderIsolation IterIsolation BatchAtomic BatchAlgRefines ReaderSeesWholeBatches
CHECK_DEADLOCK FALSE
