\* "the model decides" (thorough): 3 keys, two values, two readers, one iterator
SPECIFICATION Spec
CONSTANTS
  Bytes = {0, 97, 255}
  Keys <- KeysTiny
  Probes <- ProbesTiny
  PrefixSet <- PrefixTiny
  RangeSet <- RangeTiny
  Vals <- ValsTiny
  MergeKeys <- NoKeys
  Operands <- OperandsNone
  MaxCount = 1
  Readers = {1, 2}
  Iters = {1}
  MaxBatch = 1
  AtomicBatch = TRUE
  RepeatKeys = FALSE
  ReadActions = FALSE
  MultiGetLen = 1
INVARIANTS TypeOK ReadsInByteOrder IterRefines IterInView
PROPERTIES ReaderIsolation IterIsolation BatchAtomic BatchAlgRefines ReaderSeesWholeBatches
CHECK_DEADLOCK FALSE
