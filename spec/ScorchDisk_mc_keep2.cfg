SPECIFICATION Spec
CONSTANTS
 Ids = {"a", "b"}
 MaxB = 3
 BatchShapes <- Shapes2
 Writers = {w1}
 Safe = FALSE
 KeepN = 2
 MaxEp = 8
 MaxSid = 4
 WithReader = FALSE
 WithCopy = FALSE
 WithMerger = FALSE
 WithPurge = TRUE
 WithMemMerge = FALSE
 MaxMergeInputs = 2
 AsyncRelease = FALSE
  WithMergeFail = FALSE
 MaxRestarts = 0
 SidFromRoot = FALSE
 ForgetInherited = FALSE
 BuilderBase = FALSE
 CopySchedById = FALSE
 MaxOpens = 2
CONSTRAINT Bound
INVARIANTS RootIsReplay EveryBoltIsAState Durable NewestLoads BoltFilesOnDisk RootFilesOnDisk NoOrphansWhenQuiescent RollbackOK RetentionWhenQuiescent NewNamesUnused
PROPERTIES LayoutStutters ReaderStable
CHECK_DEADLOCK FALSE
