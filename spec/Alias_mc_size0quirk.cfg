\* C09: hitsInCurrentPage as it was before /repo 22240fd (trim only when Size > 0).  EXPECTED to
\* violate PageEqSize0 (Size = 0, From > 0): the model-side reproduction of the (repaired) finding
\* alias-size0-from-positive-returns-hits; shows that the invariant has teeth.  PageEqSizePos is
\* checked in the same model by Alias_mc_size0quirk_pos.cfg and must hold.
SPECIFICATION Spec
CONSTANTS
  NDocs = 3
  PatIds = {1}
  TreeIds = {1}
  SortIds = {1}
  MaxFrom = 2
  MaxSize = 2
  CursorSizes = {}
  WithFacets = FALSE
  Quirk = TRUE
INVARIANTS PageEqSize0
CHECK_DEADLOCK FALSE
