\* splitInt64Range transcription, base 4, 3 levels: all 4096 (min,max)
CONSTANTS
  B = 4
  L = 3
  G = 3
  ShiftStart = 32
  FE = 2
SPECIFICATION SplitSpec
CHECK_DEADLOCK FALSE
INVARIANTS TypeOK LoopInv Disjoint ExactCover Chain SameAsSplit Bounded MatchIff ChainSound EnumCountOK EnumLinear
PROPERTY Termination
