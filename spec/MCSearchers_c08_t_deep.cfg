\* generated with the builder script of C02/C08; families: MCSearchers.tla
SPECIFICATION Spec
CONSTANTS
  SegSizes <- Segs21
  Deleted = {}
  OneHitEnc = TRUE
  ScoreNone = FALSE
  HeapTakeover = 10
  MaxCalls = 2
  NTerms = 3
  Family = "deep"
  DropK1 = FALSE
  Queries <- MCQueries
  FixEmptySnapshot = FALSE
  FixBoolAdvance = FALSE
  FixShouldMin = FALSE
  FirstAdvanceOK <- FirstAdvNoQ2
VIEW View
INVARIANT ResultOK
INVARIANT NoPanic
INVARIANT EnumIsHits
CHECK_DEADLOCK FALSE
