\* C11 liveness (quick, 2 of 2): weak fairness of every loop and of every goroutine inside a call
\*   Close ~> Close returned /\ all loops exited;  every call returns;  a cancelled search returns with the lock released
\* (no SYMMETRY / VIEW: TLC's liveness checking needs the plain state graph; hence the reduced menu)
SPECIFICATION FairSpec
CONSTANTS
  Callers = {c1, c2}
  MaxOps = 1
  LateOps = 0
  Ops = {"forcemerge", "fielddict", "close"}
  Engine = "disk"
  MaxMerges = 0
  PauseMode = "none"
  HazFD = FALSE
  LegacyClose2 = FALSE
  LegacyFMMem = FALSE
INVARIANTS TypeOK ContractHolds
PROPERTIES CloseCompletes EveryCallReturns CancelledSearchReturns
CHECK_DEADLOCK TRUE
