\* generated with the builder script of C02/C08; families: MCSearchers.tla
SPECIFICATION Spec
CONSTANTS
  SegSizes <- Segs4
  Deleted = {1}
  OneHitEnc = TRUE
  ScoreNone = TRUE
  HeapTakeover = 10
  MaxCalls = 0
  NTerms = 2
  Family = "core2"
  DropK1 = TRUE
  Queries <- MCQueries
  FixEmptySnapshot = FALSE
  FixBoolAdvance = FALSE
  FixShouldMin = FALSE
  FirstAdvanceOK <- FirstAdvNoQ2
VIEW View
INVARIANT EnumIsHits
INVARIANT NoneEqualsScored
CHECK_DEADLOCK FALSE
