\* REGRESSION DETECTOR (repaired in 916db13): with the OLD ForceMerge (LegacyFMMem) TLC finds a deadlock - the request waits for a merger loop that does not exist. The schedule is enacted on the real code on every run.
SPECIFICATION Spec
CONSTANTS
  Callers = {c1, c2}
  MaxOps = 1
  LateOps = 0
  Ops = {"forcemerge", "doccount"}
  Engine = "mem"
  MaxMerges = 0
  PauseMode = "none"
  HazFD = FALSE
  LegacyClose2 = FALSE
  LegacyFMMem = TRUE

INVARIANTS TypeOK RWExclusion LockBalanced NoPanic ContractHolds
  CloseReturnMeansStopped WriterMeansQuiescent BatchNeverSeesClose NoOrphanAck ForceMergeSingle
CHECK_DEADLOCK TRUE
