\* HAZARD, expected result: DEADLOCK. ForceMerge on an in-memory scorch index (no merger loop) waits for doneCh/closeCh for ever
SPECIFICATION Spec
CONSTANTS
  Callers = {c1, c2}
  MaxOps = 1
  LateOps = 0
  Ops = {"forcemerge", "doccount"}
  Engine = "mem"
  MaxMerges = 0
  PauseMode = "none"
  HazFD = FALSE
  HazClose2 = FALSE
  HazFMMem = TRUE

INVARIANTS TypeOK RWExclusion LockBalanced NoPanic ContractHolds
  CloseReturnMeansStopped WriterMeansQuiescent BatchNeverSeesClose NoOrphanAck ForceMergeSingle
CHECK_DEADLOCK TRUE
