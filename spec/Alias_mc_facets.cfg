\* C09 quick, facet merge: 4 documents, every assignment, 3 corpora, all trees; one request
SPECIFICATION Spec
CONSTANTS
  NDocs = 4
  PatIds = {1, 2, 3}
  TreeIds = {1, 2, 3, 4, 5, 6}
  SortIds = {1}
  MaxFrom = 0
  MaxSize = 0
  CursorSizes = {}
  WithFacets = TRUE
  Quirk = FALSE
INVARIANTS TypeOK TotalIsSum FacetsEq ActionsMatchOperator
CHECK_DEADLOCK FALSE
