\* generated by the builder of C02/C08; see MCSearchers.tla for the families
SPECIFICATION Spec
CONSTANTS
  SegSizes <- Segs212
  Deleted = {1, 3}
  OneHitEnc = TRUE
  ScoreNone = FALSE
  HeapTakeover = 10
  MaxCalls = 4
  NTerms = 1
  Queries <- QLeaf
  FirstAdvanceOK <- FirstAdvAlways
INVARIANT ResultOK
INVARIANT NoPanic
INVARIANT Ascending
INVARIANT NothingSkipped
INVARIANT OnlyMatches
CHECK_DEADLOCK FALSE
