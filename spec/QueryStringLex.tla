--------------------------- MODULE QueryStringLex ---------------------------
(***************************************************************************)
(* C17: the query-string lexer of query_string_lex.go run as a state       *)
(* machine -- one action per input character (Lex() re-offering a          *)
(* character that a state did not consume is inside Feed).  TLC explores   *)
(* every input over the lexer-significant alphabet up to MaxLen and checks *)
(* the lexer invariants, in particular that the end of input always takes  *)
(* the lexer to a halting state: a token stream ("end") or the             *)
(* unterminated-quote error -- it is never stuck.                          *)
(***************************************************************************)
EXTENDS QueryString

CONSTANTS Alphabet, MaxLen

VARIABLES w,     \* the input consumed so far
          ls     \* the lexer record after consuming it

Init == w = <<>> /\ ls = LexInit
Next == /\ Len(w) < MaxLen
        /\ \E ch \in Alphabet : w' = Append(w, ch) /\ ls' = Feed(ls, ch)
Spec == Init /\ [][Next]_<<w, ls>>

\* ---- invariants
\* every character is consumed within 3 offers, every end of input halts
\* within 3 state steps (FeedN with bound 4 never runs out)
RECURSIVE Offers(_, _, _, _)
Offers(l, ch, eof, n) ==       \* number of Step calls FeedN needs, 99 if > n
  IF Halted(l) THEN 0
  ELSE IF n = 0 THEN 99
  ELSE LET r == Step(l, ch, eof)
       IN IF r.c /\ ~eof THEN 1 ELSE 1 + Offers(r.ls, ch, eof, n - 1)

NeverStuck ==
  /\ Halted(FeedEOF(ls))
  /\ Offers(ls, 0, TRUE, 4) <= 3
  /\ \A ch \in Alphabet : Offers(ls, ch, FALSE, 4) <= 3

\* while characters arrive the lexer neither halts nor fails; the only
\* lexical error is the end of input inside a phrase
ErrorsOnlyAtEOF ==
  /\ ~Halted(ls)
  /\ (FeedEOF(ls).st = "error") <=> (ls.st = "phrase")

\* the state machine run incrementally equals the lexer run from scratch
IncrementalIsBatch == ls = LexRun(w)

\* token shapes the grammar actions rely on
TokenShapes ==
  \A i \in 1..Len(FeedEOF(ls).toks) :
    LET t == FeedEOF(ls).toks[i] IN
    /\ t.t \in {"STRING", "NUMBER", "BOOST", "TILDE"} => Len(t.s) > 0
    /\ t.t = "NUMBER" => ValidUnsigned(t.s) /\ IsDigit(t.s[1])
    /\ t.t \in {"PLUS", "MINUS", "COLON", "GREATER", "LESS", "EQUAL"} => t.s = <<>>

\* buf is empty between tokens; seenDot only inside a number; the operator
\* state holds exactly its character
BufDiscipline ==
  /\ ls.st = "start" => ls.buf = <<>> /\ ~ls.dot
  /\ ls.st = "op" => Len(ls.buf) = 1 /\ ~ls.esc
  /\ ls.dot => ls.st \in {"numstr", "str"}     \* seenDot survives the move to inStrState
  /\ ls.st \in {"numstr", "str"} => Len(ls.buf) > 0

\* nothing is invented: tokens never hold more characters than were read
\* (an unescapable escaped character keeps its backslash, so also never fewer
\* than the non-blank, non-operator characters -- not claimed here)
NoInvention ==
  LET fin == FeedEOF(ls)
      total == IF fin.toks = <<>> THEN 0
               ELSE LET S(i) == Len(fin.toks[i].s) IN
                    LET RECURSIVE Sum(_)
                        Sum(i) == IF i = 0 THEN 0 ELSE S(i) + Sum(i - 1)
                    IN Sum(Len(fin.toks))
      defaults == Cardinality({i \in 1..Len(fin.toks) : fin.toks[i].t \in {"BOOST", "TILDE"}})
  IN total <= Len(w) + defaults
=============================================================================
