--------------------------- MODULE QueryStringLex ---------------------------
(***************************************************************************)
(* C17: the query-string lexer of query_string_lex.go run as a state       *)
(* machine -- one action per input character (Lex() re-offering a          *)
(* character that a state did not consume is inside Feed) -- together with *)
(* the outcome parseQuerySyntax would produce if the input ended here.     *)
(* TLC explores EVERY input over the lexer-significant alphabet up to      *)
(* MaxLen.  It checks the lexer invariants, in particular that the end of  *)
(* input always takes the lexer to a halting state: a token stream or the  *)
(* unterminated-quote error -- it is never stuck; and it computes for      *)
(* every input the expected outcome `res` (accept/reject and the abstract  *)
(* clause list), which the harness replays into the real parser.           *)
(***************************************************************************)
EXTENDS QueryString

CONSTANTS Alphabet, MaxLen,
          BatchLen          \* inputs up to this length are also checked against
                            \* the from-scratch definitions LexRun / Result

VARIABLES w,     \* the input consumed so far
          ls,    \* the lexer record after consuming it
          res    \* Finish(w, ls): the outcome if the input ends here

Init == w = <<>> /\ ls = LexInit /\ res = AcceptNone
Next == /\ Len(w) < MaxLen
        /\ \E ch \in Alphabet :
             /\ w' = Append(w, ch)
             /\ ls' = Feed(ls, ch)
             /\ res' = Finish(w', ls')
Spec == Init /\ [][Next]_<<w, ls, res>>

\* ---- invariants
Fin == FeedEOF(ls)       \* the lexer after the end of input

\* a character is consumed, and the end of input halts the lexer, within the
\* re-offering bound; halting means token stream or unterminated quote
NeverStuck ==
  /\ ls.st # "stuck"
  /\ Fin.st \in {"end", "error"}

\* while characters arrive the lexer neither halts nor fails; the only
\* lexical error is the end of input inside a phrase
ErrorsOnlyAtEOF ==
  /\ ~Halted(ls)
  /\ (Fin.st = "error") <=> (ls.st = "phrase")

\* the state machine run incrementally equals the definitions from scratch
\* (checked on the inputs of length <= BatchLen)
IncrementalIsBatch == Len(w) <= BatchLen => (ls = LexRun(w) /\ res = Result(w))

\* token shapes the grammar actions rely on
TokenShapes ==
  LET toks == Fin.toks IN
  \A i \in 1..Len(toks) :
    /\ toks[i].t \in {"STRING", "NUMBER", "BOOST", "TILDE"} => Len(toks[i].s) > 0
    /\ toks[i].t = "NUMBER" => ValidUnsigned(toks[i].s) /\ IsDigit(toks[i].s[1])
    /\ toks[i].t \in {"PLUS", "MINUS", "COLON", "GREATER", "LESS", "EQUAL"} => toks[i].s = <<>>

\* buf is empty between tokens; the operator state holds exactly its character
BufDiscipline ==
  /\ ls.st = "start" => ls.buf = <<>> /\ ~ls.dot
  /\ ls.st = "op" => Len(ls.buf) = 1 /\ ~ls.esc
  /\ ls.dot => ls.st \in {"numstr", "str"}     \* seenDot survives the move to inStrState
  /\ ls.st \in {"numstr", "str"} => Len(ls.buf) > 0

\* outcomes are well formed: an accepted non-empty input has between one
\* clause and one clause per token; a rejected one has none
OutcomeShape ==
  /\ res.ok /\ ~res.none => Len(res.cl) >= 1 /\ Len(res.cl) <= Len(Fin.toks)
  /\ ~res.ok \/ res.none => res.cl = <<>>
  /\ res.none <=> w = <<>>
=============================================================================
