---------------------------- MODULE TokenStream ----------------------------
(***************************************************************************)
(* C19 (first half) - the output contract of a tokenizer as a MONITOR:     *)
(*   every tokenizer emits tokens with 0 <= Start <= End <= len(input),    *)
(*   non-decreasing starts and positive, non-decreasing positions.         *)
(*                                                                         *)
(* There is no model of the analyzers (DESIGN section 5): Unicode          *)
(* segmentation and stemming are not specified.  What is specified:        *)
(*  (1) the byte-class INPUT SPACE: strings over ten byte classes, which   *)
(*      TLC enumerates (cfg TokenStream_gen*.cfg, read back by the harness *)
(*      and concretised to bytes);                                         *)
(*  (2) the contract, twice: declaratively over a whole stream             *)
(*      (WellFormed) and as an incremental monitor (Emit) that consumes    *)
(*      one token at a time - TLC checks for all small streams that the    *)
(*      monitor accepts exactly the well-formed streams and names the      *)
(*      first broken clause (cfg TokenStream_mc_quick.cfg);                *)
(*  (3) Judge(len, toks): the monitor folded over a recorded stream, used  *)
(*      by spec/trace/JudgeTokenStream.tla on streams of the real          *)
(*      tokenizers.                                                        *)
(***************************************************************************)
EXTENDS Integers, Sequences, FiniteSets, TLC

CONSTANTS MaxLen,      \* input strings have at most MaxLen classes
          MaxTokens,   \* (model check) stream length bound
          MaxPos       \* (model check) offsets/positions range over -1..MaxPos

(* ---- the input space ---- *)
\* L ASCII letter, D digit, S space, P punctuation, U valid 2-byte char (lead+continuation),
\* C lone continuation byte, F the byte 0xFF, J 3-byte CJK char, M combining mark (2 bytes),
\* Z zero-width non-joiner (3 bytes); and two more shapes of invalid UTF-8 (added after a seeded
\* input showed they behave differently from C and F): H a lone lead byte (0xC3), T a 3-byte
\* character cut after its second byte (0xE4 0xB8)
Classes == {"L", "D", "S", "P", "U", "C", "F", "J", "M", "Z", "H", "T"}
ClassLen(c) == CASE c \in {"L", "D", "S", "P", "C", "F", "H"} -> 1
                 [] c \in {"U", "M", "T"} -> 2
                 [] c \in {"J", "Z"} -> 3
RECURSIVE ByteLen(_)
ByteLen(s) == IF s = <<>> THEN 0 ELSE ClassLen(Head(s)) + ByteLen(Tail(s))
ValidUTF8(s) == \A i \in 1..Len(s) : s[i] \notin {"C", "F", "H", "T"}

(* ---- the contract, declaratively ---- *)
\* a token is a record [s, e, p]
OffsetsOK(len, t)  == 0 <= t.s /\ t.s <= t.e /\ t.e <= len
WellFormed(len, toks) ==
  /\ \A i \in 1..Len(toks) : OffsetsOK(len, toks[i])
  /\ \A i \in 1..Len(toks) : toks[i].p >= 1
  /\ \A i \in 1..(Len(toks) - 1) : toks[i].s <= toks[i + 1].s
  /\ \A i \in 1..(Len(toks) - 1) : toks[i].p <= toks[i + 1].p

(* ---- the contract, as a monitor ---- *)
\* monitor state: [lastStart, lastPos, verdict]; verdict "ok" or the first broken clause
MonInit == [lastStart |-> 0, lastPos |-> 1, verdict |-> "ok"]
Clause(len, m, t) ==
  IF ~OffsetsOK(len, t) THEN "Offsets"
  ELSE IF t.p < 1 THEN "PositionPositive"
  ELSE IF t.s < m.lastStart THEN "StartMonotone"
  ELSE IF t.p < m.lastPos THEN "PositionMonotone"
  ELSE "ok"
Emit(len, m, t) ==
  IF m.verdict # "ok" THEN m
  ELSE LET c == Clause(len, m, t)
       IN IF c = "ok" THEN [lastStart |-> t.s, lastPos |-> t.p, verdict |-> "ok"]
          ELSE [m EXCEPT !.verdict = c]
RECURSIVE Fold(_, _, _)
Fold(len, m, toks) == IF toks = <<>> THEN m ELSE Fold(len, Emit(len, m, Head(toks)), Tail(toks))
Judge(len, toks) == Fold(len, MonInit, toks).verdict

(* ---- (1) input generation: every string of at most MaxLen classes ---- *)
VARIABLES inp, toks, mon, len
mvars == <<inp, toks, mon, len>>
GenInit == inp = <<>> /\ toks = <<>> /\ mon = MonInit /\ len = 0
GenNext == /\ Len(inp) < MaxLen
           /\ \E c \in Classes : inp' = Append(inp, c)
           /\ len' = ByteLen(inp')
           /\ UNCHANGED <<toks, mon>>
GenSpec == GenInit /\ [][GenNext]_mvars
GenTypeOK == len = ByteLen(inp) /\ Len(inp) <= MaxLen

(* ---- (2) the monitor against the declarative contract ---- *)
\* an arbitrary producer emits arbitrary tokens for an input of arbitrary byte length
Lens == 0..2
Tokens == [s : -1..MaxPos, e : -1..MaxPos, p : 0..MaxPos]
MonitorInit == /\ inp = <<>> /\ toks = <<>> /\ mon = MonInit /\ len \in Lens
MonitorNext == /\ Len(toks) < MaxTokens
               /\ \E t \in Tokens : /\ toks' = Append(toks, t)
                                    /\ mon' = Emit(len, mon, t)
               /\ UNCHANGED <<inp, len>>
MonitorSpec == MonitorInit /\ [][MonitorNext]_mvars

MonitorSound    == (mon.verdict = "ok") <=> WellFormed(len, toks)
MonitorIsFold   == mon.verdict = Judge(len, toks)
\* once rejected, the verdict names the clause broken by the first offending token and never changes
VerdictStable   == [][mon.verdict # "ok" => mon'.verdict = mon.verdict]_mvars
FirstBad(l, ts) == CHOOSE i \in 1..Len(ts) : ~WellFormed(l, SubSeq(ts, 1, i)) /\ WellFormed(l, SubSeq(ts, 1, i - 1))
VerdictNamesFirst ==
  mon.verdict # "ok" =>
    LET i == FirstBad(len, toks)
        prev == Fold(len, MonInit, SubSeq(toks, 1, i - 1))
    IN mon.verdict = Clause(len, prev, toks[i])
=============================================================================
