\* all pairs of 6-bit words as 3 base-4 digits (1 sign, 2 exponent, 3 mantissa bits); groups of 4 bits
CONSTANTS
  B = 4
  L = 3
  G = 4
  ShiftStart = 32
  FE = 2
SPECIFICATION PairSpec
CHECK_DEADLOCK FALSE
INVARIANTS StepMeaning PrefixOrder PrefixFast PrefixSeparate FloatInvolution FloatMonotone FloatDigits FloatEdges
