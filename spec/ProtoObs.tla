---------------------------- MODULE ProtoObs ----------------------------
(***************************************************************************)
(* The OBSERVABLE contract of the synchronisation protocol of a bleve      *)
(* index (property C11), stated over what a client can see: the calls it   *)
(* makes, when they begin and end relative to Close, and what they return. *)
(*                                                                         *)
(* The module is used twice:                                               *)
(*   - Proto.tla (the design model of index_impl.go + the scorch loops)    *)
(*     evaluates ResAllowed at every call return; TLC shows exhaustively   *)
(*     that the protocol implies the contract;                             *)
(*   - trace/TraceProto.tla evaluates the same operators on call/return    *)
(*     events recorded from the real code.                                 *)
(*                                                                         *)
(* Phase of the index as seen through Close:                               *)
(*   0  no Close call has begun                                            *)
(*   1  a Close call has begun and has not returned                        *)
(*   2  a Close call has returned                                          *)
(***************************************************************************)
EXTENDS Naturals

\* operations that take indexImpl.mutex shared and test `open`
\* (index_impl.go: Index, Delete, Batch, SearchInContext, Document, DocCount,
\*  Fields, FieldDict*, CopyTo, GetInternal, SetInternal, ...)
LockOps == {"index", "delete", "batch", "batchS", "batchU", "search", "searchctx",
            "document", "doccount", "fields", "fielddict", "copyto", "getinternal",
            "setinternal"}

\* operations on an open dictionary (the read lock is HELD between a
\* successful FieldDict and the dictionary's Close)
DictOps == {"fdnext", "fdclose"}

\* operations that take no index lock: Stats/StatsMap (index_impl.go) and
\* scorch.ForceMerge reached through Advanced()
FreeOps == {"stats", "statsmap", "forcemerge"}

CloseOps == {"close"}

\* creating / opening the index (the harness records it so that a hang or panic there is judged too)
OpenOps == {"open"}

AllOps == LockOps \cup DictOps \cup FreeOps \cup CloseOps \cup OpenOps

Results == {"ok", "closed", "cancelled", "other", "panic", "hang"}

(***************************************************************************)
(* ResAllowed(op, pb, pe, res, ctx): may a call of `op` that BEGAN in      *)
(* phase pb and ENDED in phase pe return result class `res`?               *)
(* ctx = TRUE iff the call carried a context that was cancelled / had a    *)
(* deadline.                                                               *)
(*                                                                         *)
(* Derivation from index_impl.go: every LockOp does                        *)
(*    mutex.RLock(); if !open { RUnlock; return ErrorIndexClosed }         *)
(* and Close does  mutex.Lock(); open = false; i.i.Close(); Unlock().      *)
(*  - a call that begins after Close returned acquires the read lock       *)
(*    after the write lock was released, reads open = false: "closed".     *)
(*  - `open` becomes false only inside Close: a call that ended before     *)
(*    any Close began cannot have seen it.                                 *)
(***************************************************************************)
NoPanicNoHang(res)      == res \notin {"panic", "hang"}
\* (Close itself is such a call since repair fb2d875: `if !i.open { return ErrorIndexClosed }`)
AfterCloseClosed(op, pb, res) == (op \in LockOps \cup CloseOps /\ pb = 2) => res = "closed"
ClosedOnlyIfCloseBegan(op, pe, res) == (res = "closed") => (op \in LockOps \cup CloseOps /\ pe >= 1)
CancelledOnlyWithCtx(op, res, ctx) == (res = "cancelled") => (ctx /\ op \in {"search", "searchctx", "forcemerge"})
FreeOpsNeverFail(op, res) == (op \in {"stats", "statsmap"}) => res = "ok"
DictOpsSucceed(op, res) == (op \in DictOps) => res = "ok"
\* Close succeeds or reports the closed index (several goroutines may call it, also concurrently);
\* exactly the Close that closes the index succeeds: none succeeds once one has returned
\* (phaseBefore = the phase just before this return)
CloseResult(op, res) == (op = "close") => res \in {"ok", "closed"}
CloseOkOnce(op, phaseBefore, res) == (op = "close" /\ res = "ok") => phaseBefore < 2

\* "A search whose context is cancelled returns an error ... and leaves the index usable":
\*  - a search started with an already cancelled / expired context returns the context's error
\*    (collector/topn.go tests ctx.Done() before the first Next), unless the index is closed;
\*  - the plain search that a goroutine issues right after a cancelled one succeeds
\*    (or reports the closed index once a Close has begun).
PreCancelledFails(pre, res) == pre => res \in {"cancelled", "closed"}
UsableAfterCancel(afterCancel, pe, res) == afterCancel => (res = "ok" \/ (pe >= 1 /\ res = "closed"))

ResAllowed(op, pb, pe, res, ctx) ==
    /\ NoPanicNoHang(res)
    /\ AfterCloseClosed(op, pb, res)
    /\ ClosedOnlyIfCloseBegan(op, pe, res)
    /\ CancelledOnlyWithCtx(op, res, ctx)
    /\ FreeOpsNeverFail(op, res)
    /\ DictOpsSucceed(op, res)
    /\ CloseResult(op, res)

(***************************************************************************)
(* Lock-state observations. `wheld` = the closer is known to hold the      *)
(* write lock (between the scorch hook "close.begin", fired inside         *)
(* Scorch.Close, and the return of Close). `waited` = asyncTasks.Wait()    *)
(* has returned (hook "close.waited").                                     *)
(*  - a goroutine that is known to hold the read lock (open dictionary,    *)
(*    or a hook fired inside prepareSegment / CopyReader of a client call) *)
(*    excludes wheld;                                                      *)
(*  - a background-loop hook after `waited` means background work          *)
(*    survived Close.                                                      *)
(***************************************************************************)
ReaderExcludesWriter(readerHeld, wheld) == ~(readerHeld /\ wheld)
LoopQuietAfterWait(isLoopHook, waited) == ~(isLoopHook /\ waited)
=============================================================================
