\* generated by the builder of C02/C08; see MCSearchers.tla for the families
SPECIFICATION Spec
CONSTANTS
  SegSizes <- Segs22
  Deleted = {1}
  OneHitEnc = TRUE
  ScoreNone = FALSE
  HeapTakeover = 10
  MaxCalls = 2
  NTerms = 3
  Queries <- QReplay
  FirstAdvanceOK <- FirstAdvNoQ2
INVARIANT ResultOK
CHECK_DEADLOCK FALSE
