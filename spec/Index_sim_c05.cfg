SPECIFICATION Spec
CONSTANTS
 Ids = {"a", "b", "c", "d", "e", "f", "g", "h"}
 IKeys = {"k"}
 MaxBatch = 5
 MaxActs = 1000
 LayoutOps = {}
INVARIANTS TypeOK
CHECK_DEADLOCK FALSE
