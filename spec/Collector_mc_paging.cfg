\* C06 paging corollaries through whole collector runs: pages of size k tile the
\* ordering; search-after / search-before from any hit give the next / previous page.
\* HeapThreshold 2: later pages (from+size > 2) run on the heap store.
SPECIFICATION Spec
CONSTANTS
  Sorts <- SortsPaging
  Sizes = {1}
  Skips = {0}
  Totals = {}
  AfterSizes = {1}
  ReqModes = {"page"}
  MaxN = 5
  MaxN1 = 5
  MaxN2 = 3
  ScoresSorted = {0, 1, 2}
  ScoresOther = {1}
  SingleVals <- QSingle
  MultiVals <- QMulti
  FirstMultiVals <- QNone
  NF = 2
  HeapThreshold = 2
  PageSizes = {1, 2, 3}
INVARIANTS
  PagesTile AfterBeforeWalk
CHECK_DEADLOCK FALSE
