\* thorough: base 4, 4 levels: all 65536 (min,max)
CONSTANTS
  B = 4
  L = 4
  G = 3
  ShiftStart = 32
  FE = 2
SPECIFICATION SplitSpec
CHECK_DEADLOCK FALSE
INVARIANTS TypeOK LoopInv Disjoint ExactCover Chain SameAsSplit Bounded MatchIff ChainSound EnumCountOK EnumLinear
PROPERTY Termination
