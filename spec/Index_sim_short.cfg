SPECIFICATION Spec
CONSTANTS
 Ids = {"a", "b"}
 IKeys = {"k"}
 MaxBatch = 3
 MaxActs = 1000
 LayoutOps = {"reopen", "merge"}
INVARIANTS TypeOK BatchingIndependent
CHECK_DEADLOCK FALSE
