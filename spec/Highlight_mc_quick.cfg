\* the fragment judge accepts every output of the formatter model: values over {a, <, &} of length <= 3,
\* every window, up to two ordered term locations, both formats
SPECIFICATION HSpec
CONSTANTS Alphabet = {97, 60, 38} MaxValue = 3
INVARIANTS FormatAccepted ParseRecovers
CHECK_DEADLOCK FALSE
