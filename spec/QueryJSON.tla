----------------------------- MODULE QueryJSON -----------------------------
(***************************************************************************)
(* C17 -- the JSON form of queries and search requests.                    *)
(*                                                                         *)
(* Transcription of                                                        *)
(*   search/query/query.go ParseQuery: the key-presence decision chain     *)
(*        that picks the concrete query type (Dispatch);                   *)
(*   search/query/*.go: for every query type the keys its MarshalJSON /    *)
(*        struct tags emit, required ones and omitempty ones (Keys);       *)
(*   boolean.go / conjunction.go / disjunction.go UnmarshalJSON: children  *)
(*        are parsed with ParseQuery again, `must` has to come back as a   *)
(*        conjunction, `should` / `must_not` as disjunctions;              *)
(*   search_no_knn.go SearchRequest.UnmarshalJSON and search/sort.go:      *)
(*        defaults and the two JSON forms of a sort key.                   *)
(*                                                                         *)
(* The model decides, over the whole finite table:                         *)
(*   DispatchOK  Dispatch(Keys(type, opts)) \in EquivalentTypes(type) for  *)
(*               every query type and every legal subset of its optional   *)
(*               keys (no type is shadowed by an earlier test of the       *)
(*               chain, no optional key makes it ambiguous);               *)
(*   TreeOK      the same at every node of nested boolean / conjunction /  *)
(*               disjunction trees, including the child type constraints;  *)
(*   SortRoundTrip, RequestRoundTrip  the abstract JSON form of sort keys  *)
(*               and requests loses nothing.                               *)
(* The harness (engine A) builds a real query / request for every          *)
(* enumerated case, marshals it, checks the real key set against Keys,     *)
(* parses it back, checks the concrete Go type against Dispatch, the       *)
(* re-marshalled bytes and the search results.                             *)
(***************************************************************************)
EXTENDS Naturals, Sequences, FiniteSets, TLC

\* ------------------------------------------------------- the key table
\* value kinds that ParseQuery can tell apart
\*   "num" float64   "str" string   "strs" []string   "strss" [][]string
\*   "any" anything else
QueryTypes ==
  {"term", "fuzzy", "match", "match_phrase", "phrase", "multi_phrase",
   "boolean", "conjunction", "disjunction", "query_string",
   "numeric_range", "term_range", "date_range", "date_range_string",
   "prefix", "regexp", "wildcard", "match_all", "match_none", "docid",
   "bool_field", "geo_bbox", "geo_distance", "geo_polygon", "geo_shape", "ip_range"}

\* keys always emitted (no omitempty, or emitted by a custom MarshalJSON)
Required(t) ==
  CASE t = "term"          -> [term |-> "str"]
    [] t = "fuzzy"         -> [term |-> "str", prefix_length |-> "num", fuzziness |-> "num"]
    [] t = "match"         -> [match |-> "str", prefix_length |-> "num", fuzziness |-> "num"]
    [] t = "match_phrase"  -> [match_phrase |-> "str", fuzziness |-> "num"]
    [] t = "phrase"        -> [terms |-> "strs", fuzziness |-> "num"]
    [] t = "multi_phrase"  -> [terms |-> "strss", fuzziness |-> "num"]
    [] t = "boolean"       -> <<>>
    [] t = "conjunction"   -> [conjuncts |-> "any"]
    [] t = "disjunction"   -> [disjuncts |-> "any", min |-> "num"]
    [] t = "query_string"  -> [query |-> "str"]
    [] t = "numeric_range" -> <<>>
    [] t = "term_range"    -> <<>>
    [] t = "date_range"    -> [start |-> "str", end |-> "str"]   \* struct values: omitempty has no effect
    [] t = "date_range_string" -> <<>>
    [] t = "prefix"        -> [prefix |-> "str"]
    [] t = "regexp"        -> [regexp |-> "str"]
    [] t = "wildcard"      -> [wildcard |-> "str"]
    [] t = "match_all"     -> [match_all |-> "any", boost |-> "any"]   \* boost: null when unset
    [] t = "match_none"    -> [match_none |-> "any", boost |-> "any"]
    [] t = "docid"         -> [ids |-> "strs"]
    [] t = "bool_field"    -> [bool |-> "any"]
    [] t = "geo_bbox"      -> [top_left |-> "any", bottom_right |-> "any"]
    [] t = "geo_distance"  -> [location |-> "any", distance |-> "str"]
    [] t = "geo_polygon"   -> [polygon_points |-> "any"]
    [] t = "geo_shape"     -> [geometry |-> "any"]
    [] t = "ip_range"      -> [cidr |-> "str"]

\* omitempty keys
FB == [field |-> "str", boost |-> "num"]
Optional(t) ==
  CASE t \in {"term", "fuzzy", "prefix", "regexp", "wildcard", "bool_field", "phrase",
              "multi_phrase", "geo_bbox", "geo_distance", "geo_polygon", "geo_shape", "ip_range"} -> FB
    [] t = "match"         -> FB @@ [analyzer |-> "str", operator |-> "str"]
    [] t = "match_phrase"  -> FB @@ [analyzer |-> "str"]
    [] t = "boolean"       -> [must |-> "any", should |-> "any", must_not |-> "any",
                               filter |-> "any", boost |-> "num"]
    [] t \in {"conjunction", "disjunction", "query_string", "docid"} -> [boost |-> "num"]
    [] t = "numeric_range" -> FB @@ [min |-> "num", max |-> "num",
                                     inclusive_min |-> "any", inclusive_max |-> "any"]
    [] t = "term_range"    -> FB @@ [min |-> "str", max |-> "str",
                                     inclusive_min |-> "any", inclusive_max |-> "any"]
    [] t = "date_range"    -> FB @@ [inclusive_start |-> "any", inclusive_end |-> "any"]
    [] t = "date_range_string" -> FB @@ [start |-> "str", end |-> "str", inclusive_start |-> "any",
                                         inclusive_end |-> "any", datetime_parser |-> "str"]
    [] t \in {"match_all", "match_none"} -> <<>>

\* which option subsets describe a valid query value (Validate() passes)
Legal(t, opts) ==
  CASE t = "boolean" -> opts \cap {"must", "should", "must_not", "filter"} # {}
    [] t \in {"numeric_range", "term_range"} -> opts \cap {"min", "max"} # {}
    [] t = "date_range_string" -> opts \cap {"start", "end"} # {}
    [] OTHER -> TRUE

\* "@auto" is not a key but a setting: SetAutoFuzziness(true).  The query types
\* that carry a fuzziness then emit the STRING "auto" under the key "fuzziness"
\* instead of a number (fuzzy.go, match.go, match_phrase.go, phrase.go,
\* multi_phrase.go MarshalJSON), and must come back as the same type with the
\* setting on: the decision chain may look at the PRESENCE of the key only.
AutoFuzzTypes == {"fuzzy", "match", "match_phrase", "phrase", "multi_phrase"}
Keys(t, opts) ==
  LET k == Required(t) @@ [x \in (opts \ {"@auto"}) |-> Optional(t)[x]]
  IN IF "@auto" \in opts THEN [x \in DOMAIN k |-> IF x = "fuzziness" THEN "str" ELSE k[x]] ELSE k

\* ------------------------------------------------ ParseQuery's decision chain
Has(keys, k) == k \in DOMAIN keys
HasKind(keys, k, kind) == k \in DOMAIN keys /\ keys[k] = kind

Dispatch(keys) ==
  IF Has(keys, "fuzziness") /\ ~Has(keys, "match") /\ ~Has(keys, "match_phrase") /\ ~Has(keys, "terms")
  THEN "fuzzy"
  ELSE IF Has(keys, "match") THEN "match"
  ELSE IF Has(keys, "match_phrase") THEN "match_phrase"
  ELSE IF Has(keys, "terms")
  THEN (IF keys["terms"] = "strs" THEN "phrase" ELSE "multi_phrase")   \* PhraseQuery first, MultiPhrase on error
  ELSE IF Has(keys, "term") THEN "term"
  ELSE IF Has(keys, "must") \/ Has(keys, "should") \/ Has(keys, "must_not") \/ Has(keys, "filter")
  THEN "boolean"
  ELSE IF Has(keys, "conjuncts") THEN "conjunction"
  ELSE IF Has(keys, "disjuncts") THEN "disjunction"
  ELSE IF Has(keys, "query") THEN "query_string"
  ELSE IF HasKind(keys, "min", "num") \/ HasKind(keys, "max", "num") THEN "numeric_range"
  ELSE IF HasKind(keys, "min", "str") \/ HasKind(keys, "max", "str") THEN "term_range"
  ELSE IF Has(keys, "start") \/ Has(keys, "end") THEN "date_range_string"
  ELSE IF Has(keys, "prefix") THEN "prefix"
  ELSE IF Has(keys, "regexp") THEN "regexp"
  ELSE IF Has(keys, "wildcard") THEN "wildcard"
  ELSE IF Has(keys, "match_all") THEN "match_all"
  ELSE IF Has(keys, "match_none") THEN "match_none"
  ELSE IF Has(keys, "custom_filter") THEN "custom_filter"
  ELSE IF Has(keys, "custom_score") THEN "custom_score"
  ELSE IF Has(keys, "ids") THEN "docid"
  ELSE IF Has(keys, "bool") THEN "bool_field"
  ELSE IF Has(keys, "top_left") /\ Has(keys, "bottom_right") THEN "geo_bbox"
  ELSE IF Has(keys, "distance") THEN "geo_distance"
  ELSE IF Has(keys, "polygon_points") THEN "geo_polygon"
  ELSE IF Has(keys, "geometry") THEN "geo_shape"
  ELSE IF Has(keys, "cidr") THEN "ip_range"
  ELSE "unknown"

\* a DateRangeQuery is serialised with start/end strings and comes back as the
\* equivalent DateRangeStringQuery
EquivalentTypes(t) == IF t = "date_range" THEN {"date_range_string"} ELSE {t}

LegalOpts(t) == {o \in SUBSET (DOMAIN Optional(t) \cup (IF t \in AutoFuzzTypes THEN {"@auto"} ELSE {})) : Legal(t, o)}

\* ------------------------------------------------------------ query trees
\* node = [type, opts, min, kids]; kids = sequence of [role, node]; role is
\* "" for conjuncts/disjuncts and must/should/must_not/filter for booleans;
\* min is the disjunction minimum (0 elsewhere)
Leaf(t, o) == [type |-> t, opts |-> o, min |-> 0, kids |-> <<>>]
Kid(role, n) == [role |-> role, node |-> n]

RECURSIVE TreeOKRec(_), DispatchTree(_)
NodeKeys(n) ==
  IF n.type = "boolean"
  THEN Keys("boolean", {n.kids[i].role : i \in 1..Len(n.kids)} \cup n.opts)
  ELSE Keys(n.type, n.opts)

DispatchTree(n) ==
  [type |-> Dispatch(NodeKeys(n)),
   kids |-> [i \in 1..Len(n.kids) |-> [role |-> n.kids[i].role, node |-> DispatchTree(n.kids[i].node)]]]

TreeOKRec(n) ==
  /\ Dispatch(NodeKeys(n)) \in EquivalentTypes(n.type)
  /\ \A i \in 1..Len(n.kids) :
       /\ TreeOKRec(n.kids[i].node)
       /\ n.kids[i].role = "must" => Dispatch(NodeKeys(n.kids[i].node)) = "conjunction"
       /\ n.kids[i].role \in {"should", "must_not"} => Dispatch(NodeKeys(n.kids[i].node)) = "disjunction"

\* ------------------------------------------------------------- sort keys
\* SortField: [by |-> "field", field, desc, type, mode, missing]
\* SortDocID / SortScore: [by |-> "id" / "score", desc]
SortTypes == {"auto", "string", "number", "date"}
SortModes == {"default", "min", "max"}
SortMissing == {"last", "first"}
SField(f, desc, ty, mo, mi) == [by |-> "field", field |-> f, desc |-> desc, type |-> ty, mode |-> mo, missing |-> mi]
SId(desc) == [by |-> "id", field |-> "", desc |-> desc, type |-> "auto", mode |-> "default", missing |-> "last"]
SScore(desc) == [by |-> "score", field |-> "", desc |-> desc, type |-> "auto", mode |-> "default", missing |-> "last"]

\* MarshalJSON: the string form when everything but desc is default, else an
\* object holding only the non-default settings
SortToJSON(s) ==
  CASE s.by = "id"    -> [form |-> "string", str |-> "_id", minus |-> s.desc]
    [] s.by = "score" -> [form |-> "string", str |-> "_score", minus |-> s.desc]
    [] s.by = "field" ->
         IF s.missing = "last" /\ s.mode = "default" /\ s.type = "auto"
         THEN [form |-> "string", str |-> s.field, minus |-> s.desc]
         ELSE [form |-> "object",
               obj |-> [by |-> "field", field |-> s.field]
                       @@ (IF s.desc THEN [desc |-> TRUE] ELSE <<>>)
                       @@ (IF s.missing = "first" THEN [missing |-> "first"] ELSE <<>>)
                       @@ (IF s.mode # "default" THEN [mode |-> s.mode] ELSE <<>>)
                       @@ (IF s.type # "auto" THEN [type |-> s.type] ELSE <<>>)]

JGet(j, k, d) == IF k \in DOMAIN j THEN j[k] ELSE d
\* ParseSearchSortString / ParseSearchSortObj
SortFromJSON(j) ==
  IF j.form = "string"
  THEN CASE j.str = "_id"    -> SId(j.minus)
         [] j.str = "_score" -> SScore(j.minus)
         [] OTHER -> SField(j.str, j.minus, "auto", "default", "last")
  ELSE SField(j.obj.field, JGet(j.obj, "desc", FALSE), JGet(j.obj, "type", "auto"),
              JGet(j.obj, "mode", "default"), JGet(j.obj, "missing", "last"))

\* --------------------------------------------------------- search requests
\* req = [size, from, explain, locations, score, sort, highlight, fields,
\*        facets, after, before]   (abstract settings; "none" = not set)
ReqToJSON(r) ==
  [size |-> r.size, from |-> r.from, explain |-> r.explain,
   includeLocations |-> r.locations,
   sort |-> [i \in 1..Len(r.sort) |-> SortToJSON(r.sort[i])]]       \* no omitempty
  @@ (IF r.score # "" THEN [score |-> r.score] ELSE <<>>)
  @@ (IF r.highlight # "none" THEN [highlight |-> r.highlight] ELSE <<>>)
  @@ (IF r.fields # "none" THEN [fields |-> r.fields] ELSE <<>>)
  @@ (IF r.facets # "none" THEN [facets |-> r.facets] ELSE <<>>)
  @@ (IF r.after # "none" THEN [search_after |-> r.after] ELSE <<>>)
  @@ (IF r.before # "none" THEN [search_before |-> r.before] ELSE <<>>)

\* UnmarshalJSON: size missing -> 10, sort missing -> [-_score], negative
\* size -> 10, negative from -> 0
ReqFromJSON(j) ==
  LET size == JGet(j, "size", 10)
      srt  == IF "sort" \in DOMAIN j THEN [i \in 1..Len(j.sort) |-> SortFromJSON(j.sort[i])]
              ELSE <<SScore(TRUE)>>
  IN [size |-> size, from |-> JGet(j, "from", 0), explain |-> JGet(j, "explain", FALSE),
      locations |-> JGet(j, "includeLocations", FALSE), score |-> JGet(j, "score", ""),
      sort |-> srt, highlight |-> JGet(j, "highlight", "none"), fields |-> JGet(j, "fields", "none"),
      facets |-> JGet(j, "facets", "none"), after |-> JGet(j, "search_after", "none"),
      before |-> JGet(j, "search_before", "none")]

=============================================================================
