\* thorough: 16x16 lattice, terms at shifts 0,2,4,6, detail cells 4x4
CONSTANTS
  NB = 4
  Step = 2
  MaxShift = 4
SPECIFICATION Spec
CHECK_DEADLOCK FALSE
INVARIANTS BoxExact PolyExact CoverSound DistanceClasses
