\* input generation: all class strings of length <= 4 (22621 states)
SPECIFICATION GenSpec
CONSTANTS MaxLen = 4 MaxTokens = 0 MaxPos = 0
INVARIANT GenTypeOK
CHECK_DEADLOCK FALSE
