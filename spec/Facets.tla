----------------------------- MODULE Facets -----------------------------
(* C10 -- Facet counts describe all matching documents, not only the page.

   Model of the facet path of one search, structured like the code:

     search/collector/topn.go  Collect:
        for every match d (ascending internal id)
           prepareDocumentMatch -> visitFieldTerms:
               facetsBuilder.StartDoc()
               dvReader.VisitDocValues(d, visitor)  -> one UpdateVisitor(field, term) per
                                                       (needed field, distinct term of d)
               facetsBuilder.EndDoc()
           dmHandler(d)  -> bounded store: keep the best Size+From under the sort   (Offer)
        finalizeResults: skip From                                                   (Finish)
     search/facets_builder.go  FacetsBuilder.StartDoc/UpdateVisitor/EndDoc: fan out to every
        builder (UpdateVisitor only to the builders of that field); Results()
     search/facet/*.go  the builders (operators of FacetOps)

   The tallies are updated BEFORE the match is offered to the bounded store and
   never read it; TLC checks that after every completed document the builders
   equal the declarative meaning over the matches seen so far (Refines), hence at
   the end the results equal the meaning over ALL matches, for every page setting.

   One corpus drives three fields at once: document d has the value set vals[d];
   field "t" holds them as terms (rank v), field "n" as numbers, field "d" as dates.
   All terms-facet requests (one per term filter) and the two range requests are
   active simultaneously, as FacetsBuilder allows; every facet size in Sizes is
   evaluated on the final builders (size only matters in Result()).
*)
EXTENDS FacetOps

CONSTANTS NDocs,      \* documents 1..NDocs (ascending internal id = ascending number)
          Vals,       \* value universe, e.g. 1..3
          Sizes,      \* facet sizes to evaluate (below / at / above the bucket count)
          Pages       \* set of [size, from, desc]: page settings and sort direction

Docs == 1..NDocs

(* term filters: the sets of passing terms.  Binding: terms a1 a2 b3 b4;
   1 none, 2 prefix "a", 3 regexp "[13]$", 4 prefix "z", 5 prefix "a" + regexp "[13]$" *)
PassSets == << Vals, Vals \cap {1, 2}, Vals \cap {1, 3}, {}, Vals \cap {1} >>
NF == Len(PassSets)

R(id, hasLo, lo, hasHi, hi) == [id |-> id, hasLo |-> hasLo, lo |-> lo, hasHi |-> hasHi, hi |-> hi]
(* numeric ranges: (-inf,2) [2,3) [3,+inf) [1,3)  -- overlapping, open ends, boundaries on values *)
NumRanges  == { R(1, FALSE, 0, TRUE, 2), R(2, TRUE, 2, TRUE, 3), R(3, TRUE, 3, FALSE, 0), R(4, TRUE, 1, TRUE, 3) }
(* date ranges: [1,2) (-inf,3) [2,+inf) *)
DateRanges == { R(1, TRUE, 1, TRUE, 2), R(2, FALSE, 0, TRUE, 3), R(3, TRUE, 2, FALSE, 0) }

(* The source document contains value v of document d Occ(d,v) times (the binding
   builds the real documents with this rule); doc values hold the DISTINCT terms,
   so a term occurring twice in a document is visited -- and counted -- once. *)
Occ(d, v) == IF (d + v) % 2 = 0 THEN 2 ELSE 1

(* page settings for the configs (cfg files cannot write records) *)
P(size, from, desc) == [size |-> size, from |-> from, desc |-> desc]
PagesOne   == { P(10, 0, FALSE) }
PagesEvict == { P(1, 1, TRUE) }      \* Size+From = 2: the store evicts as soon as 3 documents match
PagesTwo   == { P(10, 0, FALSE), P(1, 1, TRUE) }
PagesQuick == { P(10, 0, FALSE), P(1, 0, FALSE), P(1, 1, TRUE), P(0, 0, FALSE) }
PagesThree == { P(10, 0, FALSE), P(1, 1, TRUE), P(2, 1, FALSE) }
PagesFull  == { P(10, 0, FALSE), P(1, 0, FALSE), P(1, 1, TRUE), P(0, 0, FALSE), P(2, 1, FALSE), P(1, 2, TRUE) }

VARIABLES docs,   \* d -> [m : matched by the query, vals : SUBSET Vals]
          page,   \* [size, from, desc]
          pc,     \* "idle" | "visit" | "offer" | "done"
          cur,    \* last document handed to StartDoc (0 = none)
          todo,   \* pending UpdateVisitor calls of the current document: set of <<field, value, shift>>
          tb,     \* terms builders, one per filter: 1..NF -> builder
          nb, db, \* numeric / date builder
          store,  \* bounded store: sequence of doc ids, best first, at most size+from
          seen,   \* hc.total
          out     \* results (set by Finish)

vars == <<docs, page, pc, cur, todo, tb, nb, db, store, seen, out>>

Matched == {d \in Docs : docs[d].m}
V == [d \in Docs |-> docs[d].vals]

(* doc values of one document for the needed fields.  Numeric and date values are
   indexed at several precisions: shift 0 and (abstracted) one more level. *)
SourceOccurrences(d) == [v \in docs[d].vals |-> Occ(d, v)]
DocValues(d) == DOMAIN SourceOccurrences(d)
VisitsOf(d) ==
  {<<1, v, 0>> : v \in DocValues(d)} \cup
  {<<2, v, s>> : v \in DocValues(d), s \in {0, 1}} \cup
  {<<3, v, s>> : v \in DocValues(d), s \in {0, 1}}

VisitLess(a, b) == a[1] < b[1] \/ (a[1] = b[1] /\ (a[2] < b[2] \/ (a[2] = b[2] /\ a[3] < b[3])))

(* sort of the request: by document number, ascending or descending (total) *)
Before(a, b) == IF page.desc THEN a > b ELSE a < b

RECURSIVE InsertSorted(_, _)
InsertSorted(s, d) ==
  IF s = <<>> THEN <<d>>
  ELSE IF Before(d, Head(s)) THEN <<d>> \o s
  ELSE <<Head(s)>> \o InsertSorted(Tail(s), d)

-----------------------------------------------------------------------------
ResultsOf(tbs, nbs, dbs) ==
  LET tf == [f \in 1..NF |-> BuilderFull(tbs[f])]
      nf == BuilderFull(nbs)
      df == BuilderFull(dbs)
  IN [t |-> [f \in 1..NF |-> [s \in Sizes |-> Visible(Cut(tf[f], s, TRUE))]],
      n |-> [s \in Sizes |-> Visible(Cut(nf, s, FALSE))],
      d |-> [s \in Sizes |-> Visible(Cut(df, s, FALSE))]]

(* the meaning, over the set D of matching documents *)
DeclOut(D) ==
  LET tf == [f \in 1..NF |-> DeclTermsFull(V, D, PassSets[f])]
      nf == DeclRangesFull(V, D, NumRanges)
      df == DeclRangesFull(V, D, DateRanges)
  IN [t |-> [f \in 1..NF |-> [s \in Sizes |-> Visible(Cut(tf[f], s, TRUE))]],
      n |-> [s \in Sizes |-> Visible(Cut(nf, s, FALSE))],
      d |-> [s \in Sizes |-> Visible(Cut(df, s, FALSE))]]

NoOut == [t |-> <<>>, n |-> <<>>, d |-> <<>>]

Corpora == [Docs -> [m : BOOLEAN, vals : SUBSET Vals]]

Init ==
  /\ docs \in Corpora
  /\ page \in Pages
  /\ pc = "idle" /\ cur = 0 /\ todo = {}
  /\ tb = [f \in 1..NF |-> NewBuilder] /\ nb = NewBuilder /\ db = NewBuilder
  /\ store = <<>> /\ seen = 0 /\ out = NoOut

NextMatch == {d \in Matched : d > cur /\ \A e \in Matched : e > cur => d <= e}

(* visitFieldTerms: facetsBuilder.StartDoc() *)
StartDoc ==
  /\ pc = "idle"
  /\ \E d \in NextMatch :
       /\ cur' = d
       /\ todo' = VisitsOf(d)
  /\ tb' = [f \in 1..NF |-> BStart(tb[f])] /\ nb' = BStart(nb) /\ db' = BStart(db)
  /\ pc' = "visit"
  /\ UNCHANGED <<docs, page, store, seen, out>>

(* FacetsBuilder.UpdateVisitor(field, term): every builder of that field *)
Visit ==
  /\ pc = "visit" /\ todo # {}
  /\ LET x == CHOOSE x \in todo : \A y \in todo \ {x} : VisitLess(x, y) IN
       /\ todo' = todo \ {x}
       /\ tb' = IF x[1] = 1 THEN [f \in 1..NF |-> TermsVisit(tb[f], x[2], PassSets[f])] ELSE tb
       /\ nb' = IF x[1] = 2 THEN RangeVisit(nb, x[2], x[3], NumRanges) ELSE nb
       /\ db' = IF x[1] = 3 THEN RangeVisit(db, x[2], x[3], DateRanges) ELSE db
  /\ UNCHANGED <<docs, page, pc, cur, store, seen, out>>

(* facetsBuilder.EndDoc() *)
EndDoc ==
  /\ pc = "visit" /\ todo = {}
  /\ tb' = [f \in 1..NF |-> BEnd(tb[f])] /\ nb' = BEnd(nb) /\ db' = BEnd(db)
  /\ pc' = "offer"
  /\ UNCHANGED <<docs, page, cur, todo, store, seen, out>>

(* dmHandler: store.AddNotExceedingSize(d, size+skip) -- AFTER the tallies *)
Offer ==
  /\ pc = "offer"
  /\ store' = Take(InsertSorted(store, cur), page.size + page.from)
  /\ seen' = seen + 1
  /\ pc' = "idle"
  /\ UNCHANGED <<docs, page, cur, todo, tb, nb, db, out>>

(* finalizeResults + FacetResults() *)
Finish ==
  /\ pc = "idle" /\ NextMatch = {}
  /\ out' = ResultsOf(tb, nb, db)
  /\ store' = Drop(store, page.from)
  /\ pc' = "done"
  /\ UNCHANGED <<docs, page, cur, todo, tb, nb, db, seen>>

Next == StartDoc \/ Visit \/ EndDoc \/ Offer \/ Finish

Spec == Init /\ [][Next]_vars

-----------------------------------------------------------------------------
(* Invariants *)

TypeOK ==
  /\ pc \in {"idle", "visit", "offer", "done"}
  /\ cur \in 0..NDocs
  /\ Len(store) <= page.size + page.from
  /\ seen <= NDocs

(* Refinement: whenever no document is in flight, the builders are exactly the
   meaning over the matches processed so far -- whatever the store kept. *)
SeenDocs == {d \in Matched : d <= cur}
Tally(b) == [cnt |-> b.cnt, total |-> b.total, missing |-> b.missing]
DeclTermsTally(D, pass) ==
  [cnt |-> [t \in (UNION {V[d] : d \in D}) \cap pass |-> TermCount(V, D, t)],
   total |-> TermsTotal(V, D), missing |-> TermsMissing(V, D, pass)]
DeclRangeTally(D, ranges) ==
  LET hit == {r \in ranges : RangeCount(V, D, r) > 0} IN
  [cnt |-> [k \in {r.id : r \in hit} |-> LET r == CHOOSE r \in hit : r.id = k IN RangeCount(V, D, r)],
   total |-> SumFn([r \in hit |-> RangeCount(V, D, r)], hit),
   missing |-> Cardinality({d \in D : V[d] = {}})]
Refines ==
  pc \in {"idle", "offer"} =>
    /\ \A f \in 1..NF : Tally(tb[f]) = DeclTermsTally(SeenDocs, PassSets[f])
    /\ Tally(nb) = DeclRangeTally(SeenDocs, NumRanges)
    /\ Tally(db) = DeclRangeTally(SeenDocs, DateRanges)

(* the tally of a document is complete before the store sees it *)
TallyBeforeStore ==
  \A i \in DOMAIN store : pc # "done" => (store[i] < cur \/ (store[i] = cur /\ pc = "idle"))

(* C10 at the end of the search *)
FacetsAreTheMeaning == pc = "done" => out = DeclOut(Matched)

CountsAreDocCounts ==    \* each listed term: number of matching documents containing it
  pc = "done" =>
    \A f \in 1..NF : \A s \in Sizes : \A i \in DOMAIN out.t[f][s].list :
      LET e == out.t[f][s].list[i]
      IN e.c = Cardinality({d \in Matched : e.k \in docs[d].vals})

Ordered ==
  pc = "done" =>
    /\ \A f \in 1..NF : \A s \in Sizes : OrderOK(out.t[f][s]) /\ Len(out.t[f][s].list) <= s
    /\ \A s \in Sizes : OrderOK(out.n[s]) /\ OrderOK(out.d[s])

Balanced ==
  pc = "done" =>
    /\ \A f \in 1..NF : \A s \in Sizes : BalanceOK(out.t[f][s])
    /\ \A s \in Sizes : BalanceOK(out.n[s]) /\ BalanceOK(out.d[s])

(* every matching document is accounted for: it is Missing, or one of its
   passing terms is listed or part of Other *)
Accounted ==
  pc = "done" =>
    \A f \in 1..NF : \A s \in Sizes :
      LET fr == out.t[f][s] IN
        /\ fr.missing = Cardinality({d \in Matched : docs[d].vals \cap PassSets[f] = {}})
        /\ fr.total = SumFn([d \in Matched |-> Cardinality(docs[d].vals)], Matched)
        /\ fr.missing + fr.total >= Cardinality(Matched)

(* the page itself (sanity of the store model): hits = slice of the sorted matches *)
RECURSIVE SortDocs(_)
SortDocs(S) == IF S = {} THEN <<>>
               ELSE LET x == CHOOSE x \in S : \A y \in S \ {x} : Before(x, y)
                    IN <<x>> \o SortDocs(S \ {x})
PageOK ==
  pc = "done" => /\ store = SubSeq(SortDocs(Matched), page.from + 1, MinI(page.from + page.size, Cardinality(Matched)))
                 /\ seen = Cardinality(Matched)

(* Merge + Fixup (alias): for every split of the matches into two shards whose
   child results were not trimmed (size >= buckets of each shard), merging the
   children and fixing up equals the single result. *)
MergeFilters == {1, 3}     \* unfiltered and regexp-filtered terms facets
MergeLemma ==
  pc = "done" =>
    \A A \in SUBSET Matched : \A s \in Sizes :
      LET B == Matched \ A IN
      /\ \A f \in MergeFilters :
           (Cardinality(TermBuckets(V, A, PassSets[f])) <= s /\ Cardinality(TermBuckets(V, B, PassSets[f])) <= s)
             => Visible(Fixup(MergeFR(DeclTerms(V, A, PassSets[f], s), DeclTerms(V, B, PassSets[f], s)), s))
                = out.t[f][s]
      /\ (Cardinality(RangeBuckets(V, A, NumRanges)) <= s /\ Cardinality(RangeBuckets(V, B, NumRanges)) <= s)
             => Visible(Fixup(MergeFR(DeclRanges(V, A, NumRanges, s), DeclRanges(V, B, NumRanges, s)), s))
                = out.n[s]

-----------------------------------------------------------------------------
(* Case enumeration for Engine A (config Facets_enum_*.cfg, run with -dump):
   one state per corpus, carrying the expected results.  FacetsAreTheMeaning,
   checked exhaustively on Spec, is what makes DeclOut the algorithm's answer. *)
EnumInit ==
  /\ docs \in Corpora
  /\ page \in Pages
  /\ pc = "enum" /\ cur = 0 /\ todo = {}
  /\ tb = <<>> /\ nb = NewBuilder /\ db = NewBuilder
  /\ store = <<>> /\ seen = 0
  /\ out = NoOut
(* a step of its own so that TLC's workers compute the expectations in parallel *)
EnumStep ==
  /\ pc = "enum" /\ pc' = "done"
  /\ out' = DeclOut(Matched)
  /\ UNCHANGED <<docs, page, cur, todo, tb, nb, db, store, seen>>
EnumSpec == EnumInit /\ [][EnumStep]_vars
=============================================================================
