\* C06 quick: exhaustive; every state is dumped and replayed into the real collector
SPECIFICATION Spec
CONSTANTS
  Sorts <- SortsQuick
  Sizes = {0, 1, 2}
  Skips = {0, 1, 2}
  Totals = {}
  AfterSizes = {2}
  ReqModes = {"page", "after", "before"}
  MaxN = 4
  MaxN1 = 4
  MaxN2 = 3
  ScoresSorted = {0, 1, 2}
  ScoresOther = {1}
  SingleVals <- QSingle
  MultiVals <- QMulti
  FirstMultiVals <- QNone
  NF = 2
  HeapThreshold = 10
  PageSizes = {1}
INVARIANTS
  SortAllIsRank CmpIsOrder RevIsReverse TotalIsAll MaxScoreIsMax StoreIsTopK SliceIsSorted HeapIsHeap
  LowestIsBestEvicted ResultsArePage HitsAreMeaning FromAHit
CHECK_DEADLOCK FALSE
