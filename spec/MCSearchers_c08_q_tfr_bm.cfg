\* generated by mkcfg_searchers.py; families and layouts: MCSearchers.tla
SPECIFICATION Spec
CONSTANTS
  SegSizes <- Segs212
  Deleted = {1, 3}
  OneHitEnc = FALSE
  ScoreNone = FALSE
  HeapTakeover = 10
  MaxCalls = 4
  NTerms = 1
  Family = "leaf"
  DropK1 = FALSE
  Queries <- MCQueries
  FixEmptySnapshot = TRUE
  FixBoolAdvance = TRUE
  FixShouldMin = TRUE
  FirstAdvanceOK <- FirstAdvAlways
INVARIANT ResultOK
INVARIANT NoPanic
INVARIANT Ascending
INVARIANT NothingSkipped
INVARIANT OnlyMatches
CHECK_DEADLOCK FALSE
