\* generated with the builder script of C02/C08; families: MCSearchers.tla
SPECIFICATION Spec
CONSTANTS
  SegSizes <- Segs212
  Deleted = {1, 3}
  OneHitEnc = FALSE
  ScoreNone = FALSE
  HeapTakeover = 10
  MaxCalls = 4
  NTerms = 1
  Family = "leaf"
  DropK1 = FALSE
  Queries <- MCQueries
  FixEmptySnapshot = FALSE
  FixBoolAdvance = FALSE
  FixShouldMin = FALSE
  FirstAdvanceOK <- FirstAdvAlways
INVARIANT ResultOK
INVARIANT NoPanic
INVARIANT Ascending
INVARIANT NothingSkipped
INVARIANT OnlyMatches
CHECK_DEADLOCK FALSE
