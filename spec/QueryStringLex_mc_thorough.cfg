\* C17 thorough: lexer state machine + outcomes, EVERY input of length <= 5 over the
\* 16 lexer-significant characters  a 1 . space + - : " ^ ~ \ > < = * /   (1 118 481 inputs)
SPECIFICATION Spec
CONSTANT Alphabet = {97, 49, 46, 32, 43, 45, 58, 34, 94, 126, 92, 62, 60, 61, 42, 47}
CONSTANT MaxLen = 5
CONSTANT BatchLen = 3
CONSTANT ValidDates = {}
INVARIANT NeverStuck
INVARIANT ErrorsOnlyAtEOF
INVARIANT IncrementalIsBatch
INVARIANT TokenShapes
INVARIANT BufDiscipline
INVARIANT OutcomeShape
CHECK_DEADLOCK FALSE
