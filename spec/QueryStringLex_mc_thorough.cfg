\* C17: lexer state machine, every input of length <= 6 over the 16 lexer-significant characters
SPECIFICATION Spec
CONSTANT Alphabet = {97, 49, 46, 32, 43, 45, 58, 34, 94, 126, 92, 62, 60, 61, 42, 47}
CONSTANT MaxLen = 6
CONSTANT ValidDates = {}
INVARIANT NeverStuck
INVARIANT ErrorsOnlyAtEOF
INVARIANT IncrementalIsBatch
INVARIANT TokenShapes
INVARIANT BufDiscipline
INVARIANT NoInvention
CHECK_DEADLOCK FALSE
