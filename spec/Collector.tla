----------------------------- MODULE Collector -----------------------------
(***************************************************************************)
(* Property C06: "Hits are the requested slice of the fully sorted match   *)
(* list".  State machine of one search request served by the TopN          *)
(* collector (search/collector/topn.go) as driven by index_impl.go         *)
(* SearchInContext.  The operators are in CollectorOps.tla.                *)
(*                                                                         *)
(* Init   chooses the request rq (sort, size, skip / search-after key /    *)
(*        search-before key) -- the collector is created.                  *)
(* Offer  one more match arrives from the searcher (any match of the       *)
(*        domain: scores and keys are small integers, many ties) and goes  *)
(*        through OfferStep = basicPrepare + document match handler.       *)
(*        After every Offer the variables results/hits hold what Final     *)
(*        would return if the searcher were exhausted now; every state is  *)
(*        therefore a complete search over the arrival sequence `seen`.    *)
(*                                                                         *)
(* The invariants state that this algorithm computes the meaning (PART 1   *)
(* of CollectorOps) for every arrival sequence, and TLC checks them in     *)
(* every state.  The Go harness replays every dumped state / simulated     *)
(* behaviour into the real collector and compares store, lowest, total,    *)
(* maxScore, results and hits.                                             *)
(***************************************************************************)
EXTENDS CollectorOps, TLC

CONSTANTS
  Sorts,          \* set of sort specs explored
  Sizes, Skips,   \* page mode: size x skip
  Totals,         \* if non-empty, only page requests with size+skip in Totals
  AfterSizes,     \* sizes for search-after / search-before requests
  ReqModes,       \* subset of {"page", "after", "before"}
  MaxN,           \* matches per search: one field/score key with mode "first" (<= 3 possible matches)
  MaxN1,          \* matches per search: one key with mode min/max (5 possible matches) or _id
  MaxN2,          \* matches per search: two or more keys (9+ possible matches)
  ScoresSorted,   \* score values when the sort looks at the score
  ScoresOther,    \* score values otherwise (only maxScore depends on them)
  SingleVals,     \* field value sequences of length <= 1 (<<>> = missing)
  MultiVals,      \* multi-valued fields (used for keys with mode min/max)
  FirstMultiVals, \* multi-valued fields offered to keys with mode "first"
  NF,             \* number of sort fields a match carries
  HeapThreshold,  \* size+skip above this uses the heap store (10 in bleve)
  PageSizes       \* page sizes of the paging corollaries

VARIABLES rq, seen, store, lowest, total, maxScore, results, hits
vars == <<rq, seen, store, lowest, total, maxScore, results, hits>>

\* ---------------------------------------------------------------- sort sets
A == FALSE  \* ascending
D == TRUE   \* descending
ML == FALSE \* missing last
MF == TRUE  \* missing first

SortsScore == { <<KScore(D)>>, <<KScore(A)>> }
SortsKey4  == { <<KField(1, d, mf, "first")>> : d \in BOOLEAN, mf \in BOOLEAN }
SortsMode  == { <<KField(1, A, ML, "min")>>, <<KField(1, D, MF, "max")>>,
                <<KField(1, D, ML, "min")>>, <<KField(1, A, MF, "max")>> }
SortsTwo   == { <<KField(1, A, ML, "first"), KScore(D)>>,
                <<KField(1, D, ML, "first"), KField(2, A, MF, "first")>> }
SortsId    == { <<KId(A)>>, <<KId(D)>> }
SortsTotal == { <<KField(1, D, MF, "first"), KId(A)>>, <<KScore(D), KId(D)>> }

SortsQuick    == SortsScore \cup SortsKey4 \cup {<<KField(1, A, ML, "min")>>, <<KField(1, D, MF, "max")>>}
                  \cup SortsTwo \cup SortsId \cup SortsTotal
SortsThorough == SortsScore \cup SortsKey4 \cup {<<KField(1, D, ML, "min")>>, <<KField(1, A, MF, "max")>>}
                  \cup {<<KField(1, A, ML, "first"), KScore(D)>>} \cup SortsId
                  \cup {<<KField(1, D, MF, "first"), KId(A)>>}
SortsHeap     == { <<KScore(D)>>, <<KField(1, D, MF, "first")>>, <<KField(1, A, ML, "first"), KScore(D)>>, <<KId(A)>> }
SortsSim      == SortsQuick \cup SortsThorough
                  \cup { <<KField(1, A, MF, "first"), KField(2, D, ML, "first"), KId(A)>>,
                         <<KScore(A), KField(1, D, ML, "max")>>,
                         <<KField(2, A, ML, "min"), KField(1, D, MF, "first"), KScore(D)>> }
SortsPaging   == { <<KScore(D)>>, <<KField(1, A, ML, "first")>>, <<KField(1, D, MF, "max")>>,
                   <<KField(1, D, ML, "first"), KScore(D)>> } \cup SortsId \cup SortsTotal

\* value-sequence sets for the configs (cfg files cannot write sequences)
QSingle == { <<>>, <<0>>, <<1>> }
QMulti  == { <<0, 1>>, <<1, 0>> }
QNone   == {}
TSingle == { <<>>, <<0>>, <<1>>, <<2>> }
TMulti  == { <<0, 1>>, <<1, 0>>, <<2, 0>>, <<1, 1>> }

\* ---------------------------------------------------------------- domains
FieldDom(sort, f) ==
  IF ~UsesField(sort, f) THEN {<<>>}
  ELSE SingleVals
       \cup (IF \E x \in DOMAIN sort : sort[x].kind = "field" /\ sort[x].f = f /\ sort[x].mode # "first"
             THEN MultiVals ELSE FirstMultiVals)

\* matches that may arrive next.  Attributes the sort does not look at are
\* fixed (they cannot influence anything); ids are unique.
MaxNOf(sort) ==
  IF Len(sort) >= 2 THEN MaxN2
  ELSE IF sort[1].kind = "id" \/ sort[1].mode # "first" THEN MaxN1
  ELSE MaxN

MatchDom(sort, sn) ==
  { [id |-> i, s |-> sc, k |-> kk] :
      i  \in (IF UsesId(sort) THEN (1..MaxNOf(sort)) \ {sn[j].id : j \in DOMAIN sn} ELSE {Len(sn) + 1}),
      sc \in (IF UsesScore(sort) THEN ScoresSorted ELSE ScoresOther),
      kk \in { t \in [1..NF -> SingleVals \cup MultiVals \cup FirstMultiVals] :
                 \A f \in 1..NF : t[f] \in FieldDom(sort, f) } }

\* search-after / search-before keys: the sort values of every possible match
\* (covers LowTerm/HighTerm of missing fields, every score, every id)
KeyDom(sort) == { SortValue(m, sort) : m \in MatchDom(sort, <<>>) }

PageRequests(so) ==
  IF "page" \in ReqModes
  THEN { [sort |-> so, size |-> c[1], skip |-> c[2], mode |-> "page", key |-> <<>>] :
           c \in { c \in Sizes \X Skips : Totals = {} \/ c[1] + c[2] \in Totals } }
  ELSE {}

KeyRequests(so) ==
  { [sort |-> so, size |-> sz, skip |-> 0, mode |-> md, key |-> <<ky>>] :
      sz \in AfterSizes, md \in ReqModes \ {"page"}, ky \in KeyDom(so) }

Requests == UNION { PageRequests(so) \cup KeyRequests(so) : so \in Sorts }

\* ---------------------------------------------------------------- machine
P  == Params(rq, HeapThreshold)
CS == [store |-> store, lowest |-> lowest, total |-> total, maxScore |-> maxScore]

Init ==
  /\ rq \in Requests
  /\ seen = <<>>
  /\ store = <<>> /\ lowest = <<>> /\ total = 0 /\ maxScore = 0
  /\ results = <<>> /\ hits = <<>>

Offer(m) ==
  /\ Len(seen) < MaxNOf(rq.sort)
  /\ LET seen2 == Append(seen, m)
         cs2   == OfferStep(CS, seen2, P)
         res   == FinalResults(cs2, seen2, P)
     IN /\ seen' = seen2
        /\ store' = cs2.store /\ lowest' = cs2.lowest
        /\ total' = cs2.total /\ maxScore' = cs2.maxScore
        /\ results' = res
        /\ hits' = ApiHits(seen2, res, rq)
  /\ UNCHANGED rq

Next == \E m \in MatchDom(rq.sort, seen) : Offer(m)

Spec == Init /\ [][Next]_vars

\* Simulation only (Collector_sim.cfg): TLC's simulator computes every successor
\* before picking one; with ~10^3 possible matches per step that is wasted work,
\* so the arriving match is drawn at random here (TLC!RandomElement).
SimMatch ==
  LET so == rq.sort IN
  [id |-> RandomElement(IF UsesId(so) THEN (1..MaxNOf(so)) \ {seen[j].id : j \in DOMAIN seen}
                        ELSE {Len(seen) + 1}),
   s  |-> RandomElement(IF UsesScore(so) THEN ScoresSorted ELSE ScoresOther),
   k  |-> [f \in 1..NF |-> RandomElement(FieldDom(so, f))]]

SimNext == Len(seen) < MaxNOf(rq.sort) /\ Offer(SimMatch)
SimSpec == Init /\ [][SimNext]_vars

\* ---------------------------------------------------------------- invariants
DC       == [d |-> Docs(seen, P.sort), sort |-> P.sort]
Eligible == IF P.after = <<>> THEN AllHits(seen)
            ELSE HitsAfterKey(seen, P.after[1], P.sort)       \* under the effective sort
Sorted   == SortAll(seen, Eligible, P.sort)

\* the encoded comparison of the code is the declared order (missing first/last,
\* desc, modes, score specialisation, natural-order tie break)
CmpIsOrder ==
  \A i, j \in AllHits(seen) :
     /\ (CmpH(DC, i, j) < 0) = Before(seen, i, j, P.sort)
     /\ (CmpH(DC, i, j) = 0) = (i = j)

\* reversing a sort reverses the order of keys (ties keep natural order)
RevIsReverse ==
  \A i, j \in AllHits(seen) :
     LexOrder(seen[i], seen[j], Rev(rq.sort), 1) = - LexOrder(seen[i], seen[j], rq.sort, 1)

SortAllIsRank == Sorted = SortAllByRank(seen, Eligible, P.sort)

TotalIsAll    == total = Len(seen)              \* also under search-after: filtered hits count
MaxScoreIsMax == maxScore = MaxScoreOf(seen)    \* over all matches, kept or not

\* the bounded store holds exactly the best size+skip eligible hits
StoreIsTopK ==
  /\ Len(store) = Cardinality(Range(store))
  /\ Range(store) = Range(Page(Sorted, 0, P.size + P.skip))
SliceIsSorted == ~P.heap => store = Page(Sorted, 0, P.size + P.skip)
HeapIsHeap    == P.heap => \A i \in 2..Len(store) : ~HeapLess(DC, store, i, i \div 2)

\* what makes the shortcut sound: lowest is the best hit ever evicted, and
\* everything outside the store is no better than it
LowestIsBestEvicted ==
  LET ev == Eligible \ Range(store) IN
  IF ev = {} THEN lowest = <<>> ELSE lowest = <<SortAll(seen, ev, P.sort)[1]>>

ResultsArePage == results = Page(Sorted, P.skip, P.size)

\* the property: page = requested slice; search-after/before under a total
\* order = the following / preceding page
HitsAreMeaning ==
  (rq.mode = "page" \/ rq.mode = "after" \/ IsTotal(rq.sort)) => hits = Meaning(seen, rq)

\* started from a hit h under a total order: exactly the size hits after / before h
FromAHit ==
  (rq.mode # "page" /\ IsTotal(rq.sort)) =>
    \A h \in AllHits(seen) :
      (SortValue(seen[h], rq.sort) = rq.key[1]) =>
         LET all == SortAll(seen, AllHits(seen), rq.sort)
             pos == PosOf(all, h)
         IN IF rq.mode = "after"
            THEN hits = Page(all, pos, rq.size)
            ELSE hits = SubSeq(all, Max2(1, pos - rq.size), pos - 1)

\* ---- paging corollaries, evaluated through whole collector runs (Run) for
\* every page size k, independent of the request of the state
AllSorted == SortAll(seen, AllHits(seen), rq.sort)
PageRq(k, from) == [sort |-> rq.sort, size |-> k, skip |-> from, mode |-> "page", key |-> <<>>]
KeyRq(md, k, h) == [sort |-> rq.sort, size |-> k, skip |-> 0, mode |-> md,
                    key |-> <<SortValue(seen[h], rq.sort)>>]

PagesTile ==
  \A k \in PageSizes :
     ConcatAll([i \in 1..((Len(seen) \div k) + 1) |->
                  SearchHits(seen, PageRq(k, (i - 1) * k), HeapThreshold)]) = AllSorted

\* walking forward with search-after from the last hit of each page, and
\* backward with search-before from the first hit, yields the same pages
AfterBeforeWalk ==
  IsTotal(rq.sort) =>
    \A k \in PageSizes : \A h \in AllHits(seen) :
       LET pos == PosOf(AllSorted, h) IN
       /\ SearchHits(seen, KeyRq("after", k, h), HeapThreshold)  = Page(AllSorted, pos, k)
       /\ SearchHits(seen, KeyRq("before", k, h), HeapThreshold) = SubSeq(AllSorted, Max2(1, pos - k), pos - 1)
=============================================================================
