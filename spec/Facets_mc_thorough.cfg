\* C10 thorough: 4 documents, 3 values, 3 page settings
SPECIFICATION Spec
CONSTANTS
  NDocs = 4
  Vals = {1, 2, 3}
  Sizes = {0, 1, 2, 3, 4, 5}
  Pages <- PagesThree
INVARIANTS TypeOK Refines TallyBeforeStore FacetsAreTheMeaning CountsAreDocCounts Ordered Balanced Accounted PageOK
CHECK_DEADLOCK FALSE
