\* exhaustive + state-graph dump for Engine A replay: iterators/readers over 3 keys, no merges
SPECIFICATION Spec
CONSTANTS
  Bytes = {0, 97, 255}
  Keys <- KeysTiny
  Probes <- ProbesTiny
  PrefixSet <- PrefixTiny
  RangeSet <- RangeTiny
  Vals <- ValsEmpty
  MergeKeys <- NoKeys
  Operands <- OperandsNone
  MaxCount = 1
  Readers = {1}
  Iters = {1}
  MaxBatch = 1
  AtomicBatch = TRUE
  RepeatKeys = FALSE
  ReadActions = FALSE
  MultiGetLen = 1
INVARIANTS TypeOK ReadsInByteOrder IterRefines IterInView
PROPERTIES ReaderIsolation IterIsolation BatchAtomic BatchAlgRefines ReaderSeesWholeBatches
CHECK_DEADLOCK FALSE
