\* C17: sentences of the documented grammar (one part, or one part + a part of a pool of 48)
SPECIFICATION Spec
CONSTANT Wide = TRUE
CONSTANT DateOnly = FALSE
CONSTANT ValidDates <- SentenceDates
INVARIANT WellFormedAccepted
CHECK_DEADLOCK FALSE
