\* input generation: all class strings of length <= 5 (271453 states)
SPECIFICATION GenSpec
CONSTANTS MaxLen = 5 MaxTokens = 0 MaxPos = 0
INVARIANT GenTypeOK
CHECK_DEADLOCK FALSE
