\* generated by mkcfg_searchers.py; families and layouts: MCSearchers.tla
SPECIFICATION Spec
CONSTANTS
  SegSizes <- Segs212
  Deleted = {1, 3}
  OneHitEnc = TRUE
  ScoreNone = TRUE
  HeapTakeover = 10
  MaxCalls = 0
  NTerms = 2
  Family = "flat2"
  DropK1 = FALSE
  Queries <- MCQueries
  FixEmptySnapshot = TRUE
  FixBoolAdvance = TRUE
  FixShouldMin = TRUE
  FirstAdvanceOK <- FirstAdvAlways
VIEW View
INVARIANT EnumIsHits
INVARIANT NoneEqualsScored
CHECK_DEADLOCK FALSE
