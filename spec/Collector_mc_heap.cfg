\* C06: the heap store (container/heap up/down) refines the same meaning.
\* The switch is lowered to size+skip > 1 so that small requests use the heap
\* (model only; real heap runs come from Collector_sim.cfg with the real switch 10).
SPECIFICATION Spec
CONSTANTS
  Sorts <- SortsHeap
  Sizes = {2, 3}
  Skips = {0, 1, 2}
  Totals = {}
  AfterSizes = {3}
  ReqModes = {"page", "after", "before"}
  MaxN = 5
  MaxN1 = 5
  MaxN2 = 3
  ScoresSorted = {0, 1, 2}
  ScoresOther = {1}
  SingleVals <- QSingle
  MultiVals <- QMulti
  FirstMultiVals <- QNone
  NF = 2
  HeapThreshold = 1
  PageSizes = {1}
INVARIANTS
  TotalIsAll MaxScoreIsMax StoreIsTopK SliceIsSorted HeapIsHeap
  LowestIsBestEvicted ResultsArePage HitsAreMeaning FromAHit
CHECK_DEADLOCK FALSE
