---------------------------- MODULE QueryString ----------------------------
(***************************************************************************)
(* C17 -- the query-string syntax.                                         *)
(*                                                                         *)
(* Transcription of                                                        *)
(*   search/query/query_string_lex.go   the hand written lexer: one        *)
(*        operator per lexState function (startState, inPhraseState,       *)
(*        singleCharOpState, inBoostState, inTildeState, inNumOrStrState,  *)
(*        inStrState) over the lexer record (state, buf, inEscape,         *)
(*        seenDot, tokens), with the "currConsumed" re-feeding of Lex();   *)
(*   search/query/query_string.y        the grammar, as the deterministic  *)
(*        left-to-right parse the LALR(1) tables perform, with the         *)
(*        semantic actions (which query each searchBase builds, strconv    *)
(*        failures and the str[1:len-1] slice raise an error);             *)
(*   search/query/query_string_parser.go parseQuerySyntax ("" is           *)
(*        MatchNone, any lexer/parser error or recovered panic rejects).   *)
(*                                                                         *)
(* Characters are code points (ASCII here), strings are sequences of them. *)
(* This module has no variables: QueryStringLex.tla runs the lexer as a    *)
(* state machine (one action per input character) over every input up to   *)
(* a length bound, checks its invariants and computes the expected outcome *)
(* of every input; QueryStringSentences.tla does so for inputs generated   *)
(* from the documented grammar; trace/JudgeQueryString.tla judges what the *)
(* real parser made of random longer inputs.  The harness replays every    *)
(* enumerated input into the real parser.                                  *)
(***************************************************************************)
EXTENDS Naturals, Sequences, FiniteSets, TLC

\* ---------------------------------------------------------- characters
SP == 32  QUOTE == 34  STAR == 42  PLUS == 43  MINUS == 45  DOT == 46
SLASH == 47  COLON == 58  LT == 60  EQ == 61  GT == 62  QMARK == 63
BSLASH == 92  CARET == 94  TILDE == 126

IsDigit(c) == c \in 48..57                      \* unicode.IsDigit, ASCII part
IsSpace(c) == c \in {9, 10, 11, 12, 13, 32, 133, 160}   \* unicode.IsSpace, Latin-1 part

\* reservedChars = "+-=&|><!(){}[]^\"~*?:\\/ "
Reserved == {43, 45, 61, 38, 124, 62, 60, 33, 40, 41, 123, 125, 91, 93, 94,
             34, 126, 42, 63, 58, 92, 47, 32}
Unescape(c) == IF c \in Reserved THEN <<c>> ELSE <<BSLASH, c>>

\* ---------------------------------------------------------------- lexer
\* ls = [st, buf, esc, dot, toks]
\*   st   "start" | "phrase" | "op" | "boost" | "tilde" | "numstr" | "str"
\*        | "end"   (currState = nil: Lex returns 0 from now on)
\*        | "error" (l.Error("unterminated quote") panicked)
LexInit == [st |-> "start", buf |-> <<>>, esc |-> FALSE, dot |-> FALSE, toks |-> <<>>]

R(ls, consumed) == [ls |-> ls, c |-> consumed]
Reset(ls) == [ls EXCEPT !.buf = <<>>, !.esc = FALSE, !.dot = FALSE]      \* l.reset()
EmitTok(ls, t, s) == [Reset(ls) EXCEPT !.toks = Append(@, [t |-> t, s |-> s])]

StartState(ls, ch, eof) ==
  IF eof THEN R([ls EXCEPT !.st = "end"], FALSE)
  ELSE IF ls.esc
  THEN R([ls EXCEPT !.esc = FALSE, !.buf = @ \o Unescape(ch), !.st = "str"], TRUE)
  ELSE IF ch = QUOTE THEN R([ls EXCEPT !.st = "phrase"], TRUE)
  ELSE IF ch \in {PLUS, MINUS, COLON, GT, LT, EQ}
  THEN R([ls EXCEPT !.buf = Append(@, ch), !.st = "op"], TRUE)
  ELSE IF ch = CARET THEN R([ls EXCEPT !.st = "boost"], TRUE)
  ELSE IF ch = TILDE THEN R([ls EXCEPT !.st = "tilde"], TRUE)
  ELSE IF ch = BSLASH THEN R([ls EXCEPT !.esc = TRUE], TRUE)
  ELSE IF IsDigit(ch) THEN R([ls EXCEPT !.buf = Append(@, ch), !.st = "numstr"], TRUE)
  ELSE IF ~IsSpace(ch) THEN R([ls EXCEPT !.buf = Append(@, ch), !.st = "str"], TRUE)
  ELSE R(Reset(ls), TRUE)                       \* whitespace: eat it, stay

InPhraseState(ls, ch, eof) ==
  IF eof THEN R([ls EXCEPT !.st = "error"], FALSE)          \* unterminated quote
  ELSE IF ~ls.esc /\ ch = QUOTE
  THEN R([EmitTok(ls, "PHRASE", ls.buf) EXCEPT !.st = "start"], TRUE)
  ELSE IF ~ls.esc /\ ch = BSLASH THEN R([ls EXCEPT !.esc = TRUE], TRUE)
  ELSE IF ls.esc THEN R([ls EXCEPT !.esc = FALSE, !.buf = @ \o Unescape(ch)], TRUE)
  ELSE R([ls EXCEPT !.buf = Append(@, ch)], TRUE)

OpToken(c) == CASE c = PLUS -> "PLUS" [] c = MINUS -> "MINUS" [] c = COLON -> "COLON"
                [] c = GT -> "GREATER" [] c = LT -> "LESS" [] c = EQ -> "EQUAL"
SingleCharOpState(ls, ch, eof) ==               \* does not look at ch, does not consume it
  R([EmitTok(ls, OpToken(ls.buf[1]), <<>>) EXCEPT !.st = "start"], FALSE)

\* inBoostState / inTildeState: everything up to a non-escaped space or eof
SuffixState(ls, ch, eof, tok) ==
  IF eof \/ (~ls.esc /\ ch = SP)
  THEN R([EmitTok(ls, tok, IF ls.buf = <<>> THEN <<49>> ELSE ls.buf) EXCEPT !.st = "start"], TRUE)
  ELSE IF ~ls.esc /\ ch = BSLASH THEN R([ls EXCEPT !.esc = TRUE], TRUE)
  ELSE IF ls.esc THEN R([ls EXCEPT !.esc = FALSE, !.buf = @ \o Unescape(ch)], TRUE)
  ELSE R([ls EXCEPT !.buf = Append(@, ch)], TRUE)

EndsWord(ls, ch, eof) == eof \/ (~ls.esc /\ ch \in {SP, COLON, CARET, TILDE})
WordConsumed(ch, eof) == eof \/ ch \notin {COLON, CARET, TILDE}

InNumOrStrState(ls, ch, eof) ==
  IF EndsWord(ls, ch, eof)
  THEN R([EmitTok(ls, "NUMBER", ls.buf) EXCEPT !.st = "start"], WordConsumed(ch, eof))
  ELSE IF ~ls.esc /\ ch = BSLASH THEN R([ls EXCEPT !.esc = TRUE], TRUE)
  ELSE IF ls.esc
  THEN R([ls EXCEPT !.esc = FALSE, !.buf = @ \o Unescape(ch), !.st = "str"], TRUE)
  ELSE IF ~ls.dot /\ ch = DOT THEN R([ls EXCEPT !.dot = TRUE, !.buf = Append(@, ch)], TRUE)
  ELSE IF IsDigit(ch) THEN R([ls EXCEPT !.buf = Append(@, ch)], TRUE)
  ELSE R([ls EXCEPT !.buf = Append(@, ch), !.st = "str"], TRUE)

InStrState(ls, ch, eof) ==
  IF EndsWord(ls, ch, eof)
  THEN R([EmitTok(ls, "STRING", ls.buf) EXCEPT !.st = "start"], WordConsumed(ch, eof))
  ELSE IF ~ls.esc /\ ch = BSLASH THEN R([ls EXCEPT !.esc = TRUE], TRUE)
  ELSE IF ls.esc THEN R([ls EXCEPT !.esc = FALSE, !.buf = @ \o Unescape(ch)], TRUE)
  ELSE R([ls EXCEPT !.buf = Append(@, ch)], TRUE)

Step(ls, ch, eof) ==
  CASE ls.st = "start"  -> StartState(ls, ch, eof)
    [] ls.st = "phrase" -> InPhraseState(ls, ch, eof)
    [] ls.st = "op"     -> SingleCharOpState(ls, ch, eof)
    [] ls.st = "boost"  -> SuffixState(ls, ch, eof, "BOOST")
    [] ls.st = "tilde"  -> SuffixState(ls, ch, eof, "TILDE")
    [] ls.st = "numstr" -> InNumOrStrState(ls, ch, eof)
    [] ls.st = "str"    -> InStrState(ls, ch, eof)

Halted(ls) == ls.st \in {"end", "error", "stuck"}

\* Lex(): a character is offered to the current state again and again until a
\* state consumes it (currConsumed); at end of input the states are run until
\* the lexer halts.  n bounds the re-offering; running out of the bound is made
\* visible as the pseudo state "stuck".
RECURSIVE FeedN(_, _, _, _)
FeedN(ls, ch, eof, n) ==
  IF Halted(ls) THEN ls
  ELSE IF n = 0 THEN [ls EXCEPT !.st = "stuck"]      \* never happens (invariant NeverStuck)
  ELSE LET r == Step(ls, ch, eof)
       IN IF r.c /\ ~eof THEN r.ls ELSE FeedN(r.ls, ch, eof, n - 1)
Feed(ls, ch) == FeedN(ls, ch, FALSE, 4)
FeedEOF(ls)  == FeedN(ls, 0, TRUE, 4)

RECURSIVE LexFrom(_, _, _)
LexFrom(ls, w, i) == IF i > Len(w) THEN ls ELSE LexFrom(Feed(ls, w[i]), w, i + 1)
LexRun(w) == LexFrom(LexInit, w, 1)              \* state after consuming w
LexAll(w) == FeedEOF(LexRun(w))                  \* ... and the end of input

\* ------------------------------------------------- strconv.ParseFloat
\* over strings of digits, '.', '+', '-' (anything else makes it invalid; the
\* inputs generated here contain no e E x p _ i n f)
DigitsOnly(s) == \A i \in 1..Len(s) : IsDigit(s[i])
ValidUnsigned(s) ==
  LET dots == {i \in 1..Len(s) : s[i] = DOT}
  IN /\ Len(s) > 0
     /\ \A i \in 1..Len(s) : IsDigit(s[i]) \/ s[i] = DOT
     /\ Cardinality(dots) <= 1
     /\ \E i \in 1..Len(s) : IsDigit(s[i])
ValidFloat(s) ==
  IF Len(s) > 0 /\ s[1] \in {PLUS, MINUS} THEN ValidUnsigned(Tail(s)) ELSE ValidUnsigned(s)

\* ----------------------------------------------------------- the grammar
\* clause = [occ, kind, hasField, field, text, op, fuzz, boost]
\*   occ   "should" | "must" | "mustnot"          (searchPrefix: none, +, -)
\*   kind  "match"  MatchQuery(text) [fuzziness int(fuzz)]
\*         "regexp" RegexpQuery(text)     "wildcard" WildcardQuery(text)
\*         "phrase" MatchPhraseQuery(text)
\*         "numeq"  Disjunction{Match(text), NumericRange[text, text] inclusive}
\*         "range"  NumericRange  op in gt ge lt le      (text is the number)
\*         "date"   DateRange     op in gt ge lt le      (text is the date string)
\*   fuzz, boost: the literal, <<>> when absent (a present literal is never empty)
CONSTANT ValidDates        \* the phrases queryTimeFromString accepts (set of strings)

Clause(occ, kind, hasField, field, text, op, fuzz) ==
  [occ |-> occ, kind |-> kind, hasField |-> hasField, field |-> field,
   text |-> text, op |-> op, fuzz |-> fuzz, boost |-> <<>>]

Tok(toks, i) == IF i <= Len(toks) THEN toks[i].t ELSE "EOF"
Txt(toks, i) == toks[i].s

Fail == [ok |-> FALSE]
Done(cl, next) == [ok |-> TRUE, cl |-> cl, next |-> next]

\* posOrNegNumber
PosOrNegNumber(toks, i) ==
  IF Tok(toks, i) = "NUMBER" THEN [ok |-> TRUE, s |-> Txt(toks, i), next |-> i + 1]
  ELSE IF Tok(toks, i) = "MINUS" /\ Tok(toks, i + 1) = "NUMBER"
  THEN [ok |-> TRUE, s |-> <<MINUS>> \o Txt(toks, i + 1), next |-> i + 2]
  ELSE [ok |-> FALSE]

\* the action of  tSTRING  and  fieldName tCOLON tSTRING
StringBase(occ, hasField, field, str, next) ==
  IF str[1] = SLASH /\ str[Len(str)] = SLASH
  THEN IF Len(str) = 1 THEN Fail             \* str[1:len(str)-1] panics (recovered: error)
       ELSE Done(Clause(occ, "regexp", hasField, field, SubSeq(str, 2, Len(str) - 1), "", <<>>), next)
  ELSE IF \E i \in 1..Len(str) : str[i] \in {STAR, QMARK}
  THEN Done(Clause(occ, "wildcard", hasField, field, str, "", <<>>), next)
  ELSE Done(Clause(occ, "match", hasField, field, str, "", <<>>), next)

Fuzzy(occ, hasField, field, str, fz, next) ==
  IF ValidFloat(fz) THEN Done(Clause(occ, "match", hasField, field, str, "", fz), next)
  ELSE Fail                                   \* "invalid fuzziness value"

\* what follows  fieldName tCOLON
FieldForm(occ, field, toks, j) ==
  CASE Tok(toks, j) = "STRING" ->
         IF Tok(toks, j + 1) = "TILDE"
         THEN Fuzzy(occ, TRUE, field, Txt(toks, j), Txt(toks, j + 1), j + 2)
         ELSE StringBase(occ, TRUE, field, Txt(toks, j), j + 1)
    [] Tok(toks, j) = "PHRASE" ->
         Done(Clause(occ, "phrase", TRUE, field, Txt(toks, j), "", <<>>), j + 1)
    [] Tok(toks, j) \in {"NUMBER", "MINUS"} ->
         LET n == PosOrNegNumber(toks, j)
         IN IF n.ok THEN Done(Clause(occ, "numeq", TRUE, field, n.s, "", <<>>), n.next) ELSE Fail
    [] Tok(toks, j) \in {"GREATER", "LESS"} ->
         LET incl == Tok(toks, j + 1) = "EQUAL"
             k    == IF incl THEN j + 2 ELSE j + 1
             op   == IF Tok(toks, j) = "GREATER" THEN (IF incl THEN "ge" ELSE "gt")
                     ELSE (IF incl THEN "le" ELSE "lt")
         IN IF Tok(toks, k) = "PHRASE"
            THEN IF Txt(toks, k) \in ValidDates
                 THEN Done(Clause(occ, "date", TRUE, field, Txt(toks, k), op, <<>>), k + 1)
                 ELSE Fail                    \* "invalid time"
            ELSE LET n == PosOrNegNumber(toks, k)
                 IN IF n.ok THEN Done(Clause(occ, "range", TRUE, field, n.s, op, <<>>), n.next)
                    ELSE Fail
    [] OTHER -> Fail

\* searchBase
SearchBase(occ, toks, i) ==
  CASE Tok(toks, i) = "STRING" ->
         IF Tok(toks, i + 1) = "COLON" THEN FieldForm(occ, Txt(toks, i), toks, i + 2)
         ELSE IF Tok(toks, i + 1) = "TILDE"
         THEN Fuzzy(occ, FALSE, <<>>, Txt(toks, i), Txt(toks, i + 1), i + 2)
         ELSE StringBase(occ, FALSE, <<>>, Txt(toks, i), i + 1)
    [] Tok(toks, i) = "PHRASE" ->
         IF Tok(toks, i + 1) = "COLON" THEN FieldForm(occ, Txt(toks, i), toks, i + 2)
         ELSE Done(Clause(occ, "phrase", FALSE, <<>>, Txt(toks, i), "", <<>>), i + 1)
    [] Tok(toks, i) = "NUMBER" ->
         Done(Clause(occ, "numeq", FALSE, <<>>, Txt(toks, i), "", <<>>), i + 1)
    [] OTHER -> Fail

\* searchPart: searchPrefix searchBase searchSuffix
SearchPart(toks, i) ==
  LET occ == CASE Tok(toks, i) = "PLUS" -> "must" [] Tok(toks, i) = "MINUS" -> "mustnot"
               [] OTHER -> "should"
      b   == SearchBase(occ, toks, IF occ = "should" THEN i ELSE i + 1)
  IN IF ~b.ok THEN Fail
     ELSE IF Tok(toks, b.next) = "BOOST"
     THEN IF ValidFloat(Txt(toks, b.next))
          THEN Done([b.cl EXCEPT !.boost = Txt(toks, b.next)], b.next + 1)
          ELSE Fail                           \* "invalid boost value"
     ELSE b

\* searchParts: one or more searchPart
RECURSIVE SearchParts(_, _, _)
SearchParts(toks, i, acc) ==
  IF i > Len(toks) THEN (IF acc = <<>> THEN Fail ELSE [ok |-> TRUE, cl |-> acc])
  ELSE LET p == SearchPart(toks, i)
       IN IF ~p.ok THEN Fail ELSE SearchParts(toks, p.next, Append(acc, p.cl))

\* outcome records (uniform shape)
Reject     == [ok |-> FALSE, none |-> FALSE, cl |-> <<>>]
AcceptNone == [ok |-> TRUE,  none |-> TRUE,  cl |-> <<>>]       \* "" is MatchNone
Accept(cl) == [ok |-> TRUE,  none |-> FALSE, cl |-> cl]

\* what the end of input makes of a lexer state
Finish(w, ls) ==
  IF w = <<>> THEN AcceptNone
  ELSE LET fin == FeedEOF(ls)
       IN IF fin.st # "end" THEN Reject
          ELSE LET p == SearchParts(fin.toks, 1, <<>>)
               IN IF p.ok THEN Accept(p.cl) ELSE Reject

\* parseQuerySyntax
Result(w) == Finish(w, LexRun(w))

=============================================================================
