------------------------ MODULE QueryStringSentences ------------------------
(***************************************************************************)
(* C17: inputs generated from the DOCUMENTED query-string grammar (longer  *)
(* than the exhaustive alphabet enumeration of QueryStringLex): one or two *)
(* search parts  [+|-] base [^boost]  where base ranges over every         *)
(* documented form -- term, fuzzy term, field scoping, phrases, numbers,   *)
(* numeric comparisons > >= < <=, date comparisons, wildcards, regular     *)
(* expressions, escaped characters.  TLC computes Result(w) for each; the  *)
(* harness parses w with the real parser, compares the structure, builds   *)
(* the query "the syntax documents" from the model's clause list and       *)
(* compares the hits of both on a real index.                              *)
(***************************************************************************)
EXTENDS QueryString

CONSTANT DateOnly  \* TRUE: only the sentences with a date comparison (second pass under another date parser)
CONSTANT Wide      \* FALSE: second part from a small pool (8); TRUE: from a larger pool (48)

VARIABLES w, res, done

\* ---- lexemes (code points)
Cat      == <<99, 97, 116>>                          \* cat
Dog      == <<100, 111, 103>>                        \* dog
CatStar  == <<99, 97, 42>>                           \* ca*
CatQm    == <<99, 63, 116>>                          \* c?t
CatRe    == <<47, 99, 46, 116, 47>>                  \* /c.t/
EscWord  == <<99, 97, 116, 92, 58, 100, 111, 103>>   \* cat\:dog  (escaped colon)
EscPlus  == <<92, 43, 99, 97, 116>>                  \* \+cat
EscOther == <<99, 92, 97, 116>>                      \* c\at      (backslash kept)
FTitle   == <<116>>                                  \* t   (text field)
FPrice   == <<112>>                                  \* p   (numeric field)
FDate    == <<100>>                                  \* d   (date field)
FQuoted  == <<34, 116, 34>>                          \* "t" (quoted field name)
N10      == <<49, 48>>                               \* 10
N2p5     == <<50, 46, 53>>                           \* 2.5
Day      == <<50, 48, 50, 48, 45, 48, 49, 45, 48, 50>>                  \* 2020-01-02
Stamp    == Day \o <<84, 48, 51, 58, 48, 52, 58, 48, 53, 90>>           \* 2020-01-02T03:04:05Z
NotADate == <<115, 111, 111, 110>>                   \* soon
Q(s)     == <<34>> \o s \o <<34>>
Phrase   == Q(Cat \o <<32>> \o Dog)                  \* "cat dog"
EscQuote == Q(Cat \o <<92, 34>> \o Dog)              \* "cat\"dog"

SentenceDates == {Day, Stamp}

C == <<58>>     \* :
Bases ==
  { Cat, Cat \o <<126>>, Cat \o <<126, 50>>, CatStar, CatQm, CatRe, EscWord, EscPlus, EscOther,
    Phrase, EscQuote, N10, N2p5,
    FTitle \o C \o Cat, FTitle \o C \o Cat \o <<126, 50>>, FTitle \o C \o Phrase,
    FQuoted \o C \o Dog, FTitle \o C \o CatStar, FTitle \o C \o CatRe,
    FPrice \o C \o N10, FPrice \o C \o <<45>> \o N2p5,
    FPrice \o C \o <<62>> \o N10, FPrice \o C \o <<62, 61>> \o N10,
    FPrice \o C \o <<60>> \o N2p5, FPrice \o C \o <<60, 61>> \o <<45>> \o N10,
    FDate \o C \o <<62>> \o Q(Day), FDate \o C \o <<62, 61>> \o Q(Stamp),
    FDate \o C \o <<60>> \o Q(Stamp), FDate \o C \o <<60, 61>> \o Q(Day),
    FDate \o C \o <<62>> \o Q(NotADate),             \* invalid time: rejected
    FTitle \o C \o <<62>> \o Cat,                    \* comparison with a word: syntax error
    FTitle \o C }                                    \* dangling field: syntax error
Prefixes == {<<>>, <<43>>, <<45>>}
Suffixes == {<<>>, <<94, 50>>, <<94, 48, 46, 53>>, <<94>>, <<94, 120>>}   \* none ^2 ^0.5 ^ ^x
Parts == {p \o b \o s : p \in Prefixes, b \in Bases, s \in Suffixes}
SmallParts  == {p \o b : p \in {<<>>, <<45>>},
                          b \in {Dog, FTitle \o C \o Dog, N10, Phrase,
                                 N2p5, FPrice \o C \o <<62>> \o N2p5}}   \* a second number with a fraction
MediumParts == {p \o b \o s : p \in Prefixes,
                              b \in {Dog, Dog \o <<126>>, FTitle \o C \o Dog, N10, Phrase,
                                     FPrice \o C \o <<62, 61>> \o N10, FDate \o C \o <<60>> \o Q(Day),
                                     CatStar},
                              s \in {<<>>, <<94, 50>>}}
\* The date parser of the syntax is a configuration of the library
\* (query.QueryDateTimeParser), in the model the constant ValidDates.  DateOnly
\* selects the sentences with a date comparison; they are enumerated a second
\* time under another parser (StampOnlyDates: only the full time stamp is a date)
\* and replayed after the knob was turned.
DateBases == { FDate \o C \o <<62>> \o Q(Day), FDate \o C \o <<62, 61>> \o Q(Stamp),
               FDate \o C \o <<60>> \o Q(Stamp), FDate \o C \o <<60, 61>> \o Q(Day),
               FDate \o C \o <<62>> \o Q(NotADate) }
DateParts == {p \o b \o s : p \in Prefixes, b \in DateBases, s \in {<<>>, <<94, 50>>}}
DateSentences ==
  DateParts \cup {a \o <<32>> \o b : a \in DateParts, b \in {Dog, FDate \o C \o <<60, 61>> \o Q(Stamp), FDate \o C \o <<62>> \o Q(Day)}}
                 \cup {b \o <<32>> \o a : a \in DateParts, b \in {Dog, FDate \o C \o <<60>> \o Q(Day)}}
StampOnlyDates == {Stamp}
Sentences ==
  IF DateOnly THEN DateSentences
  ELSE Parts \cup {a \o <<32>> \o b : a \in Parts, b \in (IF Wide THEN MediumParts ELSE SmallParts)}

Init == w \in Sentences /\ res = Reject /\ done = FALSE
Next == ~done /\ done' = TRUE /\ res' = Result(w) /\ UNCHANGED w
Spec == Init /\ [][Next]_<<w, res, done>>

\* the model's own sanity: a sentence built only from well-formed parts is
\* accepted with one clause per part.  (A fuzziness literal runs up to the next
\* space, so "cat~2^2" has the fuzziness "2^2" and is rejected: tilde forms
\* count as well formed only without a directly attached boost.)
TildeBases == {Cat \o <<126>>, Cat \o <<126, 50>>, FTitle \o C \o Cat \o <<126, 50>>}
WellFormedBases == Bases \ {FDate \o C \o <<62>> \o Q(NotADate), FTitle \o C \o <<62>> \o Cat, FTitle \o C}
GoodParts == {p \o b \o s : p \in Prefixes, b \in WellFormedBases \ TildeBases, s \in Suffixes \ {<<94, 120>>}}
             \cup {p \o b : p \in Prefixes, b \in TildeBases}
\* a date clause is only ever built from a phrase the configured parser accepts
DateClausesValid ==
  (done /\ res.ok) => \A i \in 1..Len(res.cl) : res.cl[i].kind = "date" => res.cl[i].text \in ValidDates
WellFormedAccepted ==
  done => /\ (w \in GoodParts => res.ok /\ Len(res.cl) = 1)
          /\ (res.ok => Len(res.cl) \in {1, 2})
=============================================================================
