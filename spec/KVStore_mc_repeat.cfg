\* finding-isolating config: a key set/deleted more than once in ONE batch (the last op must win)
SPECIFICATION Spec
CONSTANTS
  Bytes = {0, 97, 255}
  Keys <- KeysTwo
  Probes <- KeysTwo
  PrefixSet <- NoKeys
  RangeSet <- NoRanges
  Vals <- ValsTiny
  MergeKeys <- NoKeys
  Operands <- OperandsNone
  MaxCount = 1
  Readers = {}
  Iters = {}
  MaxBatch = 2
  AtomicBatch = TRUE
  RepeatKeys = TRUE
  ReadActions = FALSE
  MultiGetLen = 1
INVARIANTS TypeOK ReadsInByteOrder
PROPERTIES BatchAtomic BatchAlgRefines
CHECK_DEADLOCK FALSE
