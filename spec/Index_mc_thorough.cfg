SPECIFICATION Spec
CONSTANTS
 Ids = {"a", "b", "c"}
 IKeys = {"k", "m"}
 MaxBatch = 3
 MaxActs = 4
 LayoutOps = {}
INVARIANTS TypeOK BatchingIndependent LastWriteWins SplitOK
CHECK_DEADLOCK FALSE
