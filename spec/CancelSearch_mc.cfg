SPECIFICATION Spec
CONSTANTS N = 7  K = 3
INVARIANTS Prompt NoSuccessAfterCheck
PROPERTIES Terminates
CHECK_DEADLOCK FALSE
