\* the process dies at any instant and the index is opened again (once), KeepN = 2
SPECIFICATION Spec
CONSTANTS
 Ids = {"a", "b"}
 MaxB = 2
 BatchShapes <- Shapes3
 Writers = {w1}
 Safe = FALSE
 KeepN = 2
 MaxEp = 7
 MaxSid = 5
 WithReader = FALSE
 WithCopy = FALSE
 WithMerger = TRUE
 WithPurge = TRUE
 WithMemMerge = FALSE
 MaxMergeInputs = 2
 AsyncRelease = FALSE
 WithMergeFail = FALSE
 MaxRestarts = 1
 SidFromRoot = FALSE
 ForgetInherited = FALSE
 BuilderBase = FALSE
 CopySchedById = FALSE
 MaxOpens = 1
CONSTRAINT Bound
INVARIANTS RootIsReplay UniqueLive HeldAreReplays EveryBoltIsAState Durable NewestLoads RollbackOK BoltFilesOnDisk RootFilesOnDisk RootFilesProtected NoOrphansWhenQuiescent RetentionWhenQuiescent NewNamesUnused
PROPERTIES LayoutStutters
CHECK_DEADLOCK FALSE
