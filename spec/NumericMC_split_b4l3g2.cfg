\* base 4, 3 levels, 2-bit groups (three payload bytes: multi-group carries exist)
CONSTANTS
  B = 4
  L = 3
  G = 2
  ShiftStart = 32
  FE = 2
SPECIFICATION SplitSpec
CHECK_DEADLOCK FALSE
INVARIANTS TypeOK LoopInv Disjoint ExactCover Chain SameAsSplit Bounded MatchIff ChainSound EnumCountOK EnumLinear
PROPERTY Termination
