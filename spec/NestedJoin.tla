----------------------------- MODULE NestedJoin -----------------------------
(***************************************************************************)
(* C20, the loop that matters most: a step-wise transcription of           *)
(* search/searcher/search_conjunction_nested.go                            *)
(*   NestedConjunctionSearcher.initialize / Next / Advance, CoalesceQueue  *)
(* run against every small forest of sub-documents (preorder numbering,    *)
(* child -> parent edges, depth <= 2), every choice of conjunct streams    *)
(* and every join depth, with a consumer that calls Next and -- like an    *)
(* enclosing nested conjunction does -- Advance(key).                      *)
(*                                                                         *)
(* Checked: every call returns exactly the least not yet delivered member  *)
(* of Nested!JoinSet at or after the target (so no parent group is skipped *)
(* when a child stream runs ahead, nothing is delivered twice, the last    *)
(* group is not lost), which is what Nested!AlgSet assumes of it.          *)
(*                                                                         *)
(* One action per loop iteration of the Go code:                           *)
(*   CallNext / CallAdvance  - entry, initialize(), queue drain            *)
(*   StartNext               - top of Next(): serve the queue or go align  *)
(*   Align                   - one pass of the OUTER loop: pick the max    *)
(*                             key, Advance the laggards, test alignment   *)
(*   Buffer                  - enqueue every stream's run at the key,      *)
(*                             Finalize (sort), Dequeue                    *)
(* Streams are sets of doc numbers (the conjunct searchers deliver them in *)
(* ascending order; cur[i] is the conjunct's current match, 0 = nil).      *)
(***************************************************************************)
EXTENDS Nested

CONSTANTS MaxN,     \* forests of 1..MaxN sub-documents
          NS,       \* number of conjunct streams
          AdvMode   \* "none": consumer calls Next only; "keys": also Advance(ID)
                    \* with ID a doc number of depth <= join depth (what an
                    \* enclosing nested conjunction passes); "any": any ID

VARIABLES F,        \* the forest: F[n] = parent doc number of n, 0 for a root
          strs,     \* strs[i] = set of doc numbers conjunct i matches
          d0,       \* joinIdx given to the constructor
          jd,       \* joinIdx in use (initialize() may lower it)
          cur,      \* currs
          inited, queue, pc, mk,
          adv,      \* pending Advance target while its Next() loop runs, else 0
          last, plast, tgt, ret, ncalls,
          J         \* Nested!JoinSet of the chosen input (constant along a behaviour)

vars == <<F, strs, d0, jd, cur, inited, queue, pc, mk, adv, last, plast, tgt, ret, ncalls, J>>

N == Len(F)
S == [n \in 1..N |-> [par |-> F[n]]]

RECURSIVE Dep(_, _)
Dep(f, n) == IF f[n] = 0 THEN 0 ELSE 1 + Dep(f, f[n])
RECURSIVE Ancs(_, _)
Ancs(f, n) == IF f[n] = 0 THEN {n} ELSE {n} \cup Ancs(f, f[n])

\* preorder forests of depth <= 2: a new node hangs below a node of the
\* rightmost path, or starts a new tree
Forests(n) ==
  {f \in [1..n -> 0..(n - 1)] :
     /\ f[1] = 0
     /\ \A k \in 2..n : /\ f[k] < k
                        /\ f[k] = 0 \/ f[k] \in Ancs(f, k - 1)
                        /\ Dep(f, k) <= 2}

Key(n) == KeyAt(S, n, jd)

NextOf(s, c) == LET r == {n \in s : n > c} IN IF r = {} THEN 0 ELSE MinOf(r)
AdvOf(s, to) == LET r == {n \in s : n >= to} IN IF r = {} THEN 0 ELSE MinOf(r)

QueueIds == {n \in DOMAIN queue : queue[n] > 0}
EmptyQueue == [n \in 1..N |-> 0]

Init ==
  /\ \E n \in 1..MaxN : F \in Forests(n)
  /\ d0 \in 0..2
  /\ strs \in [1..NS -> SUBSET {n \in 1..Len(F) : Dep(F, n) >= d0}]
  /\ jd = d0
  /\ cur = [i \in 1..NS |-> 0]
  /\ inited = FALSE
  /\ queue = [n \in 1..Len(F) |-> 0]
  /\ pc = "idle" /\ mk = 0 /\ adv = 0
  /\ last = 0 /\ plast = 0 /\ tgt = 0 /\ ret = 0 /\ ncalls = 0
  /\ J = JoinSet([n \in 1..Len(F) |-> [par |-> F[n]]], strs, d0)

\* a call returns r (0 = nil); while an Advance is looping, matches before
\* its target are recycled and Next() runs again
Deliver(r, q2) ==
  IF adv # 0 /\ r # 0 /\ r < adv
  THEN /\ pc' = "next" /\ queue' = q2
       /\ UNCHANGED <<adv, last, plast, ret>>
  ELSE /\ ret' = r /\ plast' = last
       /\ last' = IF r = 0 THEN last ELSE r
       /\ adv' = 0 /\ queue' = q2
       /\ pc' = IF r = 0 THEN "done" ELSE "idle"

\* CoalesceQueue.Dequeue: least id, duplicates merged into it
DequeueThen ==
  LET m == MinOf(QueueIds) IN Deliver(m, [queue EXCEPT ![m] = 0])

\* initialize(): first match of every conjunct; lower joinIdx to the
\* shallowest first match
InitCur == [i \in 1..NS |-> NextOf(strs[i], 0)]
InitJd(c) == LET ds == {DepthOf(S, c[i]) : i \in 1..NS} IN
             IF MinOf(ds) < d0 THEN MinOf(ds) ELSE d0

CallNext ==
  /\ pc = "idle"
  /\ ncalls' = ncalls + 1 /\ tgt' = 0
  /\ UNCHANGED <<F, strs, d0, mk, J>>
  /\ IF ~inited
     THEN LET c == InitCur IN
          IF \E i \in 1..NS : c[i] = 0
          THEN /\ cur' = c /\ UNCHANGED <<jd, inited>> /\ Deliver(0, queue)
          ELSE /\ cur' = c /\ jd' = InitJd(c) /\ inited' = TRUE
               /\ pc' = "next" /\ UNCHANGED <<queue, adv, last, plast, ret>>
     ELSE /\ pc' = "next" /\ UNCHANGED <<cur, jd, inited, queue, adv, last, plast, ret>>

StartNext ==
  /\ pc = "next"
  /\ UNCHANGED <<F, strs, d0, jd, cur, inited, mk, tgt, ncalls, J>>
  /\ IF QueueIds # {} THEN DequeueThen
     ELSE pc' = "align" /\ UNCHANGED <<queue, adv, last, plast, ret>>

\* one pass of OUTER
Align ==
  /\ pc = "align"
  /\ UNCHANGED <<F, strs, d0, jd, inited, tgt, ncalls, J>>
  /\ IF \E i \in 1..NS : cur[i] = 0
     THEN UNCHANGED <<cur, mk>> /\ Deliver(0, queue)
     ELSE LET maxKey == MaxOf({Key(cur[i]) : i \in 1..NS})
              c2 == [i \in 1..NS |-> IF Key(cur[i]) < maxKey
                                     THEN AdvOf(strs[i], maxKey) ELSE cur[i]]
          IN /\ cur' = c2
             /\ IF \E i \in 1..NS : c2[i] = 0
                THEN UNCHANGED mk /\ Deliver(0, queue)
                ELSE /\ UNCHANGED <<queue, adv, last, plast, ret>>
                     /\ IF \A i \in 1..NS : KeyAt(S, c2[i], jd) = maxKey
                        THEN pc' = "buffer" /\ mk' = maxKey
                        ELSE pc' = "align" /\ UNCHANGED mk

\* the run of stream s that starts at c and stays at key mk
RECURSIVE Run(_, _)
Run(s, c) ==
  LET nx == NextOf(s, c) IN
  IF nx = 0 \/ Key(nx) # mk THEN [t |-> {c}, c |-> nx]
  ELSE LET r == Run(s, nx) IN [t |-> {c} \cup r.t, c |-> r.c]

Buffer ==
  /\ pc = "buffer"
  /\ UNCHANGED <<F, strs, d0, jd, inited, mk, tgt, ncalls, J>>
  /\ LET runs == [i \in 1..NS |-> Run(strs[i], cur[i])]
         q2 == [n \in 1..N |-> queue[n] + Cardinality({i \in 1..NS : n \in runs[i].t})]
         m == MinOf({n \in 1..N : q2[n] > 0})
     IN /\ cur' = [i \in 1..NS |-> runs[i].c]
        /\ Deliver(m, [q2 EXCEPT ![m] = 0])

AdvTargets ==
  CASE AdvMode = "none" -> {}
    [] AdvMode = "keys" -> {n \in 1..N : n > last /\ DepthOf(S, n) <= d0}
    [] AdvMode = "any" -> {n \in 1..N : n > last}

CallAdvance(id) ==
  /\ pc = "idle"
  /\ ncalls' = ncalls + 1 /\ tgt' = id
  /\ UNCHANGED <<F, strs, d0, mk, J>>
  /\ LET c0 == IF inited THEN cur ELSE InitCur
         j0 == IF inited THEN jd ELSE InitJd(c0)
     IN
     IF ~inited /\ \E i \in 1..NS : c0[i] = 0
     THEN /\ cur' = c0 /\ UNCHANGED <<jd, inited>> /\ Deliver(0, queue)
     ELSE
       /\ inited' = TRUE /\ jd' = j0
       /\ LET ok == {n \in QueueIds : n >= id} IN
          IF ok # {}
          THEN \* a buffered match satisfies the Advance; earlier ones are recycled
               /\ cur' = c0
               /\ LET m == MinOf(ok) IN
                  /\ ret' = m /\ plast' = last /\ last' = m /\ adv' = 0 /\ pc' = "idle"
                  /\ queue' = [n \in 1..N |-> IF n <= m THEN 0 ELSE queue[n]]
          ELSE LET I == Len(AncSeq(S, id))
                   targ(i) == LET Sx == Len(AncSeq(S, c0[i])) IN
                              IF Sx > I THEN id ELSE KeyAt(S, id, Sx - 1)
                   c2 == [i \in 1..NS |->
                            IF c0[i] = 0 THEN 0
                            ELSE IF c0[i] < targ(i) THEN AdvOf(strs[i], targ(i)) ELSE c0[i]]
               IN /\ cur' = c2
                  /\ IF \E i \in 1..NS : c2[i] = 0
                     THEN Deliver(0, EmptyQueue)
                     ELSE /\ queue' = EmptyQueue /\ adv' = id /\ pc' = "next"
                          /\ UNCHANGED <<last, plast, ret>>

Next ==
  \/ CallNext
  \/ \E id \in AdvTargets : CallAdvance(id)
  \/ StartNext \/ Align \/ Buffer

Spec == Init /\ [][Next]_vars

-----------------------------------------------------------------------------
Expected(pl, t) ==
  LET e == {n \in J : n > pl /\ n >= t} IN IF e = {} THEN 0 ELSE MinOf(e)

\* every completed call returned the right match (or nil)
CallOK == (pc \in {"idle", "done"} /\ ncalls > 0) => ret = Expected(plast, tgt)

\* buffered matches belong to the join, and lie after everything delivered
QueueOK == \A n \in QueueIds : n \in J /\ n > last

\* the preconditions the transcription relies on
TypeOK ==
  /\ pc \in {"idle", "next", "align", "buffer", "done"}
  /\ \A i \in 1..NS : cur[i] = 0 \/ cur[i] \in strs[i]
  /\ jd <= d0

=============================================================================
