\* generated by mkcfg_searchers.py; families and layouts: MCSearchers.tla
SPECIFICATION Spec
CONSTANTS
  SegSizes <- Segs21
  Deleted = {}
  OneHitEnc = TRUE
  ScoreNone = TRUE
  HeapTakeover = 10
  MaxCalls = 3
  NTerms = 3
  Family = "deepq2"
  DropK1 = FALSE
  Queries <- MCQueries
  FixEmptySnapshot = TRUE
  FixBoolAdvance = TRUE
  FixShouldMin = TRUE
  FirstAdvanceOK <- FirstAdvAlways
VIEW View
INVARIANT ResultOK
INVARIANT NoPanic
INVARIANT EnumIsHits
CHECK_DEADLOCK FALSE
