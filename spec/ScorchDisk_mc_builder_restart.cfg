SPECIFICATION Spec
CONSTANTS
 Ids = {"a", "b"}
 MaxB = 2
 BatchShapes <- Shapes2
 Writers = {w1}
 Safe = FALSE
 KeepN = 1
 MaxEp = 6
 MaxSid = 5
 WithReader = FALSE
 WithCopy = TRUE
 WithMerger = TRUE
 WithPurge = TRUE
 WithMemMerge = FALSE
 MaxMergeInputs = 2
 AsyncRelease = FALSE
 WithMergeFail = FALSE
 MaxRestarts = 1
 SidFromRoot = FALSE
 ForgetInherited = FALSE
 BuilderBase = TRUE
 CopySchedById = FALSE
 MaxOpens = 1
CONSTRAINT Bound
INVARIANTS RootIsReplay UniqueLive HeldAreReplays EveryBoltIsAState Durable NewestLoads RollbackOK BoltFilesOnDisk RootFilesOnDisk RootFilesProtected CopyFilesOnDisk CopyIsPrefix NoOrphansWhenQuiescent NewNamesUnused RetentionWhenQuiescent
PROPERTIES LayoutStutters ReaderStable
CHECK_DEADLOCK FALSE
