\* generated by mkcfg_searchers.py; families and layouts: MCSearchers.tla
SPECIFICATION Spec
CONSTANTS
  SegSizes <- Segs0
  Deleted = {}
  OneHitEnc = TRUE
  ScoreNone = FALSE
  HeapTakeover = 10
  MaxCalls = 1
  NTerms = 1
  Family = "term"
  DropK1 = FALSE
  Queries <- MCQueries
  FixEmptySnapshot = FALSE
  FixBoolAdvance = TRUE
  FixShouldMin = TRUE
  FirstAdvanceOK <- FirstAdvAlways
VIEW View
INVARIANT NoPanic
CHECK_DEADLOCK FALSE
