SPECIFICATION Spec
CONSTANTS
  KindNames = {"nested", "outer", "inner"}
  QFieldSeq <- FS5
  MaxA = 2
  MaxC = 1
  MaxB = 1
  MaxNodes = 2
  L2Forms = {}
  Ordered = FALSE
  Classes = {"boolx"}
  WithMin = TRUE
INVARIANT CodedEqualsMeaning
CHECK_DEADLOCK FALSE
