\* splitInt64Range transcription, base 2, 4 levels: all 256 (min,max)
CONSTANTS
  B = 2
  L = 4
  G = 3
  ShiftStart = 32
  FE = 1
SPECIFICATION SplitSpec
CHECK_DEADLOCK FALSE
INVARIANTS TypeOK LoopInv Disjoint ExactCover Chain SameAsSplit Bounded MatchIff ChainSound EnumCountOK
PROPERTY Termination
