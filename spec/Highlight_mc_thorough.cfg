\* the fragment judge accepts every output of the formatter model: values over {a, <, &} of length <= 4,
\* every window, up to two ordered term locations, both formats
SPECIFICATION HSpec
CONSTANTS Alphabet = {97, 60, 38, 226} MaxValue = 4
INVARIANTS FormatAccepted ParseRecovers
CHECK_DEADLOCK FALSE
