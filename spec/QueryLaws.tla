----------------------------- MODULE QueryLaws -----------------------------
(***************************************************************************)
(* Sanity laws of the declarative query meaning (module Query), checked by *)
(* TLC over a small universe of terms, documents and queries.  A law that  *)
(* fails means the ORACLE is wrong; the engines are not involved here.     *)
(***************************************************************************)
EXTENDS Naturals, Integers, Sequences, FiniteSets, TLC

Q == INSTANCE Query

Letters == {1, 2}
TermsUpTo(n) == UNION { [1..k -> Letters] : k \in 0..n }
TT == TermsUpTo(3)

\* --- orders and string predicates
LexTotal == \A a \in TT : \A b \in TT :
              /\ ~(Q!LexLess(a, b) /\ Q!LexLess(b, a))
              /\ (a # b => Q!LexLess(a, b) \/ Q!LexLess(b, a))
              /\ ~Q!LexLess(a, a)
LexTransitive == \A a \in TT : \A b \in TT : \A c \in TermsUpTo(2) :
                   (Q!LexLess(a, b) /\ Q!LexLess(b, c)) => Q!LexLess(a, c)
PrefixIsWildcard == \A p \in TermsUpTo(2) : \A t \in TT :
                      Q!IsPrefix(p, t) <=> Q!WildMatch(p \o << -1 >>, t)
StarMatchesAll == \A t \in TT : Q!WildMatch(<< -1 >>, t) /\ (Q!WildMatch(<< 0 >>, t) <=> Len(t) = 1)

\* --- edit distance
Lit(t) == [i \in DOMAIN t |-> [cls |-> << t[i] >>, rep |-> 0]]
DistLaws == \A a \in TT : \A b \in TT :
              /\ Q!EditDistance(a, b, FALSE) = Q!EditDistance(b, a, FALSE)
              /\ (Q!EditDistance(a, b, FALSE) = 0 <=> a = b)
              /\ Q!EditDistance(a, b, TRUE) <= Q!EditDistance(a, b, FALSE)
              /\ Q!EditDistance(a, b, FALSE) >= (IF Len(a) >= Len(b) THEN Len(a) - Len(b) ELSE Len(b) - Len(a))
              /\ Q!EditDistance(a, b, FALSE) <= (IF Len(a) >= Len(b) THEN Len(a) ELSE Len(b))
DistTriangle == \A a \in TermsUpTo(2) : \A b \in TermsUpTo(2) : \A c \in TermsUpTo(2) :
                  Q!EditDistance(a, c, FALSE) <= Q!EditDistance(a, b, FALSE) + Q!EditDistance(b, c, FALSE)
TranspositionIsOne == Q!EditDistance(<< 1, 2 >>, << 2, 1 >>, TRUE) = 1 /\ Q!EditDistance(<< 1, 2 >>, << 2, 1 >>, FALSE) = 2

\* --- regular expressions
LiteralRegexp == \A a \in TT : \A t \in TT : Q!ReMatch(<< Lit(a) >>, t) <=> a = t
Atoms == { [cls |-> c, rep |-> r] : c \in { << >>, << 1 >>, << 1, 2 >> }, r \in 0..3 }
Alts2 == [1..2 -> Atoms] \cup [1..1 -> Atoms]
LmfImpliesMatch == \A a \in Alts2 : \A b \in [1..1 -> Atoms] : \A t \in TermsUpTo(2) :
                     /\ (Q!ReMatchLMF(<< a, b >>, t) => Q!ReMatch(<< a, b >>, t))
                     /\ (Q!PrefLen(a, t) >= 0 <=> \E k \in 0..Len(t) : Q!AltMatch(a, SubSeq(t, 1, k)))
\* the example of the upsidedown deviation: a|ab does not leftmost-first match ab
LmfExample == /\ Q!ReMatch(<< Lit(<< 1 >>), Lit(<< 1, 2 >>) >>, << 1, 2 >>)
              /\ ~Q!ReMatchLMF(<< Lit(<< 1 >>), Lit(<< 1, 2 >>) >>, << 1, 2 >>)

\* --- documents and compound queries
Docs == { [id |-> 1, txt |-> [f |-> << ts >>], num |-> [n |-> vs]] :
            ts \in { << >>, << << 1 >> >>, << << 2 >> >>, << << 1 >>, << 2 >> >>, << << 2 >>, << 1 >> >> },
            vs \in { << >>, << 1 >>, << 0, 2 >> } }
Tm(t) == [type |-> "term", field |-> "f", term |-> << t >>]
Leafs == { Tm(1), Tm(2), [type |-> "all"], [type |-> "none"],
           [type |-> "phrase", field |-> "f", terms |-> << << 1 >>, << 2 >> >>],
           [type |-> "numrange", field |-> "n", hasMin |-> 1, min |-> 1, incMin |-> 2, hasMax |-> 1, max |-> 2, incMax |-> 2] }
S == Q!Strict
E(q, d) == Q!Eval(q, d, S)
Conj(qs) == [type |-> "conj", qs |-> qs]
Disj(qs, m) == [type |-> "disj", qs |-> qs, min |-> m]
Bool(mu, sh, m, mn, fl) == [type |-> "boolean", must |-> mu, should |-> sh, min |-> m, mustnot |-> mn, filter |-> fl]

CompoundLaws ==
    \A d \in Docs : \A x \in Leafs : \A y \in Leafs :
        /\ E(Conj(<< x >>), d) = E(x, d)
        /\ E(Conj(<< x, y >>), d) = (E(x, d) /\ E(y, d))
        /\ E(Disj(<< x, y >>, 0), d) = (E(x, d) \/ E(y, d))
        /\ E(Disj(<< x, y >>, 1), d) = (E(x, d) \/ E(y, d))
        /\ E(Disj(<< x, y >>, 2), d) = (E(x, d) /\ E(y, d))
        /\ ~E(Conj(<< >>), d) /\ ~E(Disj(<< >>, 0), d)
        \* must-not only: everything but
        /\ E(Bool(<< >>, << >>, 0, << x >>, << >>), d) = ~E(x, d)
        \* filter only: the filter
        /\ E(Bool(<< >>, << >>, 0, << >>, << x >>), d) = E(x, d)
        \* must + optional should
        /\ E(Bool(<< x >>, << y >>, 0, << >>, << >>), d) = E(x, d)
        /\ E(Bool(<< x >>, << y >>, 1, << >>, << >>), d) = (E(x, d) /\ E(y, d))
        \* should alone selects
        /\ E(Bool(<< >>, << x, y >>, 0, << >>, << >>), d) = (E(x, d) \/ E(y, d))
        /\ E(Bool(<< >>, << x >>, 0, << y >>, << >>), d) = (E(x, d) /\ ~E(y, d))
        /\ E(Bool(<< x >>, << >>, 0, << y >>, << y >>), d) = FALSE

LeafLaws ==
    \A d \in Docs :
        /\ E([type |-> "phrase", field |-> "f", terms |-> << << 1 >>, << 2 >> >>], d) = (d.txt.f = << << << 1 >>, << 2 >> >> >>)
        /\ E([type |-> "match", field |-> "f", terms |-> << << 1 >>, << 2 >> >>, op |-> "and", fuzz |-> 0, prefix |-> 0], d)
             = (E(Tm(1), d) /\ E(Tm(2), d))
        /\ E([type |-> "match", field |-> "f", terms |-> << << 1 >>, << 2 >> >>, op |-> "or", fuzz |-> 0, prefix |-> 0], d)
             = (E(Tm(1), d) \/ E(Tm(2), d))
        \* range defaults: min inclusive, max exclusive
        /\ E([type |-> "numrange", field |-> "n", hasMin |-> 1, min |-> 1, incMin |-> 2, hasMax |-> 1, max |-> 2, incMax |-> 2], d)
             = (1 \in Q!Vals(d, "n"))
        /\ E([type |-> "numrange", field |-> "n", hasMin |-> 1, min |-> 0, incMin |-> 0, hasMax |-> 1, max |-> 2, incMax |-> 1], d)
             = (Q!Vals(d, "n") \cap {1, 2} # {})
        /\ E([type |-> "termrange", field |-> "f", hasMin |-> 1, min |-> << 1 >>, incMin |-> 0, hasMax |-> 0, max |-> << >>, incMax |-> 0], d)
             = E(Tm(2), d)

ASSUME LexTotal
ASSUME LexTransitive
ASSUME PrefixIsWildcard
ASSUME StarMatchesAll
ASSUME DistLaws
ASSUME DistTriangle
ASSUME TranspositionIsOne
ASSUME LiteralRegexp
ASSUME LmfImpliesMatch
ASSUME LmfExample
ASSUME CompoundLaws
ASSUME LeafLaws

VARIABLE x
Init == x = 0
Next == x' = x
Spec == Init /\ [][Next]_x
=============================================================================
