\* C09 thorough, facet merge: 5 documents, every assignment, all trees (up to 4 shards)
SPECIFICATION Spec
CONSTANTS
  NDocs = 5
  PatIds = {1, 2, 3}
  TreeIds = {1, 2, 3, 4, 5, 6, 7}
  SortIds = {1}
  MaxFrom = 0
  MaxSize = 0
  CursorSizes = {}
  WithFacets = TRUE
  Quirk = FALSE
INVARIANTS TypeOK TotalIsSum FacetsEq ActionsMatchOperator
CHECK_DEADLOCK FALSE
