---------------------------- MODULE CancelSearch ----------------------------
(***************************************************************************)
(* C11, last sentence: "A search whose context is cancelled returns an     *)
(* error promptly and leaves the index usable."                            *)
(*                                                                         *)
(* The collector (search/collector/topn.go, Collect) pulls the hits one by *)
(* one and looks at the context before the first hit and then before every *)
(* K-th one (CheckDoneEvery).  The context may be cancelled by anybody at   *)
(* any moment.  Design: once the context is cancelled at most K more hits   *)
(* are pulled, and if the hits did not run out first the call returns the   *)
(* context's error - never success.                                         *)
(***************************************************************************)
EXTENDS Naturals

CONSTANTS N,   \* number of hits the searcher has
          K    \* the collector checks the context every K hits

VARIABLES pulled,     \* hits pulled so far
          cancelled,  \* the context is done
          pulledAtCancel, \* hits pulled when the context was cancelled
          pc          \* "run" | "ok" | "err"
vars == <<pulled, cancelled, pulledAtCancel, pc>>

Init == pulled = 0 /\ cancelled = FALSE /\ pulledAtCancel = 0 /\ pc = "run"

Cancel == /\ ~cancelled /\ cancelled' = TRUE /\ pulledAtCancel' = pulled
          /\ UNCHANGED <<pulled, pc>>

\* one turn of the loop: the periodic check, then the hit (or the end)
Pull == /\ pc = "run"
        /\ IF pulled % K = 0 /\ cancelled
           THEN pc' = "err" /\ UNCHANGED pulled
           ELSE IF pulled = N THEN pc' = "ok" /\ UNCHANGED pulled
                ELSE pulled' = pulled + 1 /\ UNCHANGED pc
        /\ UNCHANGED <<cancelled, pulledAtCancel>>

Next == Cancel \/ Pull
Spec == Init /\ [][Next]_vars /\ WF_vars(Pull)

\* at most K hits are pulled after the cancellation
Prompt == cancelled => pulled <= pulledAtCancel + K
\* a search that outlived its cancellation by a check point does not report success
NoSuccessAfterCheck == (pc = "ok" /\ cancelled) => pulledAtCancel + K > N
\* what the binding judges on a real run: cancelled when c hits were pulled, p hits pulled in all
RunOK(n, k, c, p, outcome) ==
   /\ p <= c + k
   /\ (c + k <= n => outcome = "err")
Terminates == <>(pc # "run")
=============================================================================
