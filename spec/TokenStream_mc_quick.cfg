\* the incremental monitor accepts exactly the well-formed streams (all streams of <= 2 tokens, offsets -1..3, input length 0..2)
SPECIFICATION MonitorSpec
CONSTANTS MaxLen = 0 MaxTokens = 2 MaxPos = 3
INVARIANTS MonitorSound MonitorIsFold VerdictNamesFirst
PROPERTY VerdictStable
CHECK_DEADLOCK FALSE
