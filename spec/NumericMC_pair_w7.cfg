\* all pairs of 7-bit words (1 sign, 3 exponent, 3 mantissa bits); prefix code groups of 3 bits
CONSTANTS
  B = 2
  L = 7
  G = 3
  ShiftStart = 32
  FE = 3
SPECIFICATION PairSpec
CHECK_DEADLOCK FALSE
INVARIANTS StepMeaning PrefixOrder PrefixFast PrefixSeparate FloatInvolution FloatMonotone FloatDigits FloatEdges
