SPECIFICATION Spec
CONSTANTS
  MaxN = 6
INVARIANT HitsOnceAndParents
INVARIANT FoldComplete
INVARIANT FoldPrefix
CHECK_DEADLOCK FALSE
