-------------------------- MODULE JudgeTokenStream --------------------------
(***************************************************************************)
(* Engine B for C19: token streams recorded from the REAL tokenizers are   *)
(* judged against the TokenStream monitor.  One record per (tokenizer,     *)
(* input): {comp, input (class string), len (bytes), toks: [[s,e,p],...]}. *)
(***************************************************************************)
EXTENDS TokenStream, Json, IOUtils
Trace == ndJsonDeserialize(IOEnv.VERIF_TRACE)
VARIABLE l
JInit == l = 1 /\ inp = <<>> /\ toks = <<>> /\ mon = MonInit /\ len = 0
JNext == l <= Len(Trace) /\ l' = l + 1 /\ UNCHANGED <<inp, toks, mon, len>>
JSpec == JInit /\ [][JNext]_<<l, inp, toks, mon, len>>

Toks(r) == [i \in 1..Len(r.toks) |-> [s |-> r.toks[i][1], e |-> r.toks[i][2], p |-> r.toks[i][3]]]
Verdict(r) == Judge(r.len, Toks(r))
Cur == Trace[l]
\* one invariant per clause of the property
OffsetsInInput   == l <= Len(Trace) => Verdict(Cur) # "Offsets"
PositionPositive == l <= Len(Trace) => Verdict(Cur) # "PositionPositive"
StartMonotone    == l <= Len(Trace) => Verdict(Cur) # "StartMonotone"
PositionMonotone == l <= Len(Trace) => Verdict(Cur) # "PositionMonotone"
\* the monitor and the declarative contract agree on every real stream as well
MonitorAgrees    == l <= Len(Trace) => ((Verdict(Cur) = "ok") <=> WellFormed(Cur.len, Toks(Cur)))
=============================================================================
