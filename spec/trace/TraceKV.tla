------------------------------ MODULE TraceKV ------------------------------
(***************************************************************************)
(* Engine B for C15: a recorded run of a REAL KV store adapter (ndjson,    *)
(* written by harness/internal/c15) is re-executed on the KVStore design   *)
(* actions.  Each event carries the arguments of the call and the value    *)
(* the real store returned; the spec takes the design action with the same *)
(* arguments (the model state evolves by the model's own semantics) and    *)
(* compares the model's return value with the recorded one.  A difference  *)
(* is an invariant violation named after the call class.                   *)
(* Many runs are concatenated; a "Reset" event starts the next one.        *)
(***************************************************************************)
EXTENDS KVStore, Json, IOUtils

Trace == ndJsonDeserialize(IOEnv.VERIF_TRACE)

VARIABLES l, ok
tvars == <<kv, kvs, pending, readers, iters, act, l, ok>>

WellFormedOp(o) ==
  /\ o.op \in {"set", "del", "merge"} /\ o.k \in Keys
  /\ o.op = "set" => o.v # None
WellFormedBatch(b) ==
  /\ \A j \in 1..Len(b) : WellFormedOp(b[j])
  \* never merge and set/delete the same key in one batch (DESIGN section 6)
  /\ \A j, h \in 1..Len(b) : b[j].k = b[h].k => ((b[j].op = "merge") <=> (b[h].op = "merge"))

\* nil-vs-empty: a present empty value may come back as nil from Get (recorded as None);
\* that alone is a lead, not a violation (absence is decided by the scans)
SameVal(model, real) == model = real
Lenient(model, real) == model = <<>> /\ real = None
Verdict(class, model, real) ==
  IF SameVal(model, real) THEN "ok" ELSE class
GetVerdict(model, real) ==
  IF SameVal(model, real) THEN "ok" ELSE IF Lenient(model, real) THEN "lead-empty-as-nil" ELSE "Get"
MultiGetVerdict(model, real) ==
  IF Len(model) # Len(real) THEN "MultiGet"
  ELSE IF \A j \in 1..Len(model) : SameVal(model[j], real[j]) THEN "ok"
  ELSE IF \A j \in 1..Len(model) : SameVal(model[j], real[j]) \/ Lenient(model[j], real[j]) THEN "lead-empty-as-nil"
  ELSE "MultiGet"
\* iterator results: when invalid only Valid() is compared (Key/Value are then unspecified)
IterVerdict(class, model, real) ==
  IF model.valid # real.valid THEN class
  ELSE IF ~model.valid THEN "ok"
  ELSE IF model.k = real.k /\ model.v = real.v THEN "ok" ELSE class

TInit == Init /\ l = 1 /\ ok = "ok"

Step(e) ==
  CASE e.name = "Reset" ->
         /\ kv' = EmptyMap /\ kvs' = <<>> /\ pending' = <<>>
         /\ readers' = [r \in Readers |-> ClosedReader]
         /\ iters' = [i \in Iters |-> ClosedIter]
         /\ act' = [name |-> "Init"]
         /\ ok' = "ok"
    [] e.name = "ExecuteBatch" ->
         /\ WellFormedBatch(e.ops)
         /\ ExecuteBatchOf(e.ops)
         /\ ok' = "ok"
    [] e.name = "ReaderOpen"  -> ReaderOpen(e.r)  /\ ok' = "ok"
    [] e.name = "ReaderClose" -> ReaderClose(e.r) /\ ok' = "ok"
    [] e.name = "Get" ->
         /\ Get(e.r, e.k) /\ ok' = GetVerdict(act'.ret, e.ret)
    [] e.name = "MultiGet" ->
         /\ MultiGet(e.r, e.ks) /\ ok' = MultiGetVerdict(act'.ret, e.ret)
    [] e.name = "ScanReader" ->
         /\ ScanReader(e.r) /\ ok' = Verdict("ScanReader", act'.ret, e.ret)
    [] e.name = "ScanStore" ->
         /\ ScanStore /\ ok' = Verdict("ScanStore", act'.ret, e.ret)
    [] e.name = "IterOpen" ->
         /\ IterOpen(e.i, e.r, e.kind, e.lo, e.hi)
         /\ ok' = IterVerdict("IterOpen", act'.ret, e.ret)
    [] e.name = "Seek" ->
         /\ Seek(e.i, e.k) /\ ok' = IterVerdict("Seek", act'.ret, e.ret)
    [] e.name = "Next" ->
         /\ NextI(e.i) /\ ok' = IterVerdict("Next", act'.ret, e.ret)
    [] e.name = "IterClose" -> IterClose(e.i) /\ ok' = "ok"

TNext == l <= Len(Trace) /\ l' = l + 1 /\ Step(Trace[l])
TSpec == TInit /\ [][TNext]_tvars

\* one invariant per clause of the property, so the failing clause is identifiable
GetOK        == ok # "Get"
MultiGetOK   == ok # "MultiGet"
ScanReaderOK == ok # "ScanReader"      \* reader isolation + byte order
ScanStoreOK  == ok # "ScanStore"       \* batch semantics + byte order
IterOpenOK   == ok # "IterOpen"
SeekOK       == ok # "Seek"
NextOK       == ok # "Next"
\* not part of the property: reported as a lead only
EmptyNotNil  == ok # "lead-empty-as-nil"
=============================================================================
