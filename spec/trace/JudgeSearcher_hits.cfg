SPECIFICATION Spec
INVARIANT EnumIsHits
INVARIANT LeafPostings
CHECK_DEADLOCK FALSE
