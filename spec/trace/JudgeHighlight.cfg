SPECIFICATION JSpec
CONSTANTS Alphabet = {97} MaxValue = 0
INVARIANTS MarkupWellFormed FragmentIsSlice SpansAtLocations
CHECK_DEADLOCK FALSE
