--------------------------- MODULE JudgeFacets ---------------------------
(* C10, Engine B: TLC judges facet results returned by the real Index.Search.
   One record per (search, facet):
     kind   "terms" | "range"
     docs   distinct values of the facet field of every MATCHING document
            (terms: ranks; numbers / dates: their integer pre-images)
     pass   ranks of the terms passing the request's prefix / regexp filter (terms)
     ranges [id, hasLo, lo, hasHi, hi] of the request (range)
     size   facet size
     got    [total, missing, other, list] returned by bleve, in the same encoding
   The oracle is FacetOps' declarative meaning (DeclTerms / DeclRanges), the one
   Facets.tla proves the builder algorithm equal to.  One invariant per clause of
   the property. *)
EXTENDS FacetOps, IOUtils, Json

Trace == ndJsonDeserialize(IOEnv.VERIF_TRACE)
VARIABLE l
Init == l = 1
Next == l <= Len(Trace) /\ l' = l + 1
Spec == Init /\ [][Next]_l

Vals(r) == [d \in 1..Len(r.docs) |-> Range(r.docs[d])]
D(r)    == 1..Len(r.docs)

Expected(r) ==
  IF r.kind = "terms"
  THEN Visible(DeclTerms(Vals(r), D(r), Range(r.pass), r.size))
  ELSE Visible(DeclRanges(Vals(r), D(r), Range(r.ranges), r.size))

TrueCount(r, k) ==
  IF r.kind = "terms" THEN TermCount(Vals(r), D(r), k)
  ELSE LET rg == CHOOSE x \in Range(r.ranges) : x.id = k IN RangeCount(Vals(r), D(r), rg)

KnownKey(r, k) ==
  IF r.kind = "terms" THEN k \in Range(r.pass) ELSE \E x \in Range(r.ranges) : x.id = k

(* each listed term / range reports the true number of matching documents / values *)
CountsOk(r)  == \A i \in DOMAIN r.got.list :
                   KnownKey(r, r.got.list[i].k) /\ r.got.list[i].c = TrueCount(r, r.got.list[i].k)
(* count descending, then term ascending; at most `size` entries; the listed ones are the top ones *)
OrderOk(r)   == IsSortedEntries(r.got.list) /\ Len(r.got.list) <= r.size
KeySeq(list) == [i \in DOMAIN list |-> list[i].k]
TopOk(r)     == KeySeq(r.got.list) = KeySeq(Expected(r).list)
TotalOk(r)   == r.got.total = Expected(r).total
MissingOk(r) == r.got.missing = Expected(r).missing
(* Total = Other + sum of the listed counts *)
BalanceOk(r) == BalanceOK(r.got) /\ r.got.other = Expected(r).other
WholeOk(r)   == r.got = Expected(r)

Judge(P(_)) == l <= Len(Trace) => P(Trace[l])

FacetTotal   == Judge(TotalOk)
FacetMissing == Judge(MissingOk)
FacetCounts  == Judge(CountsOk)
FacetOrder   == Judge(OrderOk)
FacetTopN    == Judge(TopOk)
FacetBalance == Judge(BalanceOk)
FacetWhole   == Judge(WholeOk)
=============================================================================
