SPECIFICATION Spec
INVARIANT HitsEqualAsCoded
CHECK_DEADLOCK FALSE
