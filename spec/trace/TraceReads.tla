----------------------------- MODULE TraceReads ------------------------------
(***************************************************************************)
(* Trace specification for C04: concurrent clients read a REAL index while *)
(* writers, persister, merger and purger run; every read and every         *)
(* observation of a long-lived reader is judged against the replay of the  *)
(* recorded introduction order (ScorchOps!ReplayOf).                       *)
(*                                                                         *)
(* Every batch also writes the marker document "m" (version = batch        *)
(* number), so ONE search (one snapshot) returns the whole content and      *)
(* identifies the prefix it corresponds to.                                *)
(*                                                                         *)
(* Events (one global order: sequence numbers taken under the recorder     *)
(* lock; IntroSegment is emitted inside rootLock right after the swap):    *)
(*   Reset / Submit{b,puts,dels} / IntroSegment{b} / Return{b}             *)
(*   ReadBegin{c}           client c is about to issue one search          *)
(*   ReadEnd{c,docs}        its result: docs = [[id, ver]] of ALL hits     *)
(*   TermRead{c,b,docs}    result of a term query on the version term of  *)
(*                          batch b, docs = [[id, stored version]]          *)
(*   ReaderOpenBegin{r}     a low-level reader is about to be obtained     *)
(*   ReaderObs{r,docs,count,seq}  everything read through reader r         *)
(*   ReaderClose{r}                                                        *)
(***************************************************************************)
EXTENDS Integers, Sequences, FiniteSets, TLC, IOUtils, Json, ScorchOps

Trace == ndJsonDeserialize(IOEnv.VERIF_TRACE)
Clients == 1..4
Readers == 1..400

VARIABLES l, bt, io, returned,
          retAt,    \* client -> batches that had returned when its current read began
          lastK,    \* client -> prefix length of its previous read (monotonic reads)
          openAt,   \* reader -> batches that had returned when it was opened
          firstObs  \* reader -> its first observation (<<>> = none yet)
vars == <<l, bt, io, returned, retAt, lastK, openAt, firstObs>>

SetOf(seq) == { seq[i] : i \in DOMAIN seq }
DocsOf(seq) == { <<seq[i][1], seq[i][2]>> : i \in DOMAIN seq }
NoObs == [docs |-> {}, count |-> 0 - 1, seq |-> 0 - 1]

Init == /\ l = 1 /\ bt = <<>> /\ io = <<>> /\ returned = {}
        /\ retAt = [c \in Clients |-> {}] /\ lastK = [c \in Clients |-> 0]
        /\ openAt = [r \in Readers |-> {}] /\ firstObs = [r \in Readers |-> NoObs]

E == Trace[l]
Replay(k) == ReplayOf(bt, io, k)
Prefix(k) == { io[i] : i \in 1..k }
\* Which prefix lengths can a content stand for?  With the internal value seq
\* (readers) the prefix is the position of that batch; with the marker document
\* "m" (version = batch number) likewise; otherwise every k whose replay equals
\* the content.
PosOf(b) == IF b = 0 THEN 0
            ELSE IF \E i \in 1..Len(io) : io[i] = b THEN CHOOSE i \in 1..Len(io) : io[i] = b ELSE Len(io) + 1
MarkerOf(docs) == LET ms == { d \in docs : d[1] = "m" } IN IF ms = {} THEN 0 - 1 ELSE (CHOOSE d \in ms : TRUE)[2]
Cands(docs, seq) == IF seq >= 0 THEN {PosOf(seq)}
                    ELSE IF MarkerOf(docs) >= 0 THEN {PosOf(MarkerOf(docs))}
                    ELSE 0..Len(io)
Good(docs, seq) == { k \in Cands(docs, seq) : k <= Len(io) /\ docs = Replay(k) }
\* prefixes that also satisfy read-your-writes (must) and monotonicity (from)
Fits(docs, seq, must, from) == { k \in Good(docs, seq) : must \subseteq Prefix(k) /\ k >= from }
MinOf(S) == CHOOSE x \in S : \A y \in S : x <= y

Step ==
  /\ l <= Len(Trace)
  /\ l' = l + 1
  /\ CASE E.ev = "Reset" ->
            /\ bt' = <<>> /\ io' = <<>> /\ returned' = {}
            /\ retAt' = [c \in Clients |-> {}] /\ lastK' = [c \in Clients |-> 0]
            /\ openAt' = [r \in Readers |-> {}] /\ firstObs' = [r \in Readers |-> NoObs]
       [] E.ev = "Submit" ->
            /\ E.b = Len(bt) + 1
            /\ bt' = Append(bt, [puts |-> SetOf(E.puts), dels |-> SetOf(E.dels)])
            /\ UNCHANGED <<io, returned, retAt, lastK, openAt, firstObs>>
       [] E.ev = "IntroSegment" ->
            /\ io' = IF E.b = 0 THEN io ELSE Append(io, E.b)
            /\ UNCHANGED <<bt, returned, retAt, lastK, openAt, firstObs>>
       [] E.ev = "Return" -> returned' = returned \cup {E.b} /\ UNCHANGED <<bt, io, retAt, lastK, openAt, firstObs>>
       [] E.ev = "ReadBegin" -> retAt' = [retAt EXCEPT ![E.c] = returned] /\ UNCHANGED <<bt, io, returned, lastK, openAt, firstObs>>
       [] E.ev = "ReadEnd" ->
            /\ lastK' = [lastK EXCEPT ![E.c] = LET f == Fits(DocsOf(E.docs), 0 - 1, retAt[E.c], lastK[E.c]) IN
                                                  IF f = {} THEN @ ELSE MinOf(f)]
            /\ UNCHANGED <<bt, io, returned, retAt, openAt, firstObs>>
       [] E.ev = "ReaderOpenBegin" -> openAt' = [openAt EXCEPT ![E.r] = returned] /\ firstObs' = [firstObs EXCEPT ![E.r] = NoObs]
                                 /\ UNCHANGED <<bt, io, returned, retAt, lastK>>
       [] E.ev = "ReaderObs" -> firstObs' = [firstObs EXCEPT ![E.r] = IF @ = NoObs THEN [docs |-> DocsOf(E.docs), count |-> E.count, seq |-> E.seq] ELSE @]
                                /\ UNCHANGED <<bt, io, returned, retAt, lastK, openAt>>
       [] OTHER -> UNCHANGED <<bt, io, returned, retAt, lastK, openAt, firstObs>>

Spec == Init /\ [][Step]_vars

-----------------------------------------------------------------------------
\* invariants look at the record about to be consumed (state before it)
IsRead == l <= Len(Trace) /\ E.ev = "ReadEnd"
IsObs == l <= Len(Trace) /\ E.ev = "ReaderObs"

\* never part of a batch, never out of order: the content is the replay of a prefix
ReadIsPrefix == IsRead => Good(DocsOf(E.docs), 0 - 1) # {}
\* never older than a batch whose call had returned when the read began
ReadSeesReturned == IsRead => Fits(DocsOf(E.docs), 0 - 1, retAt[E.c], 0) # {}
\* successive reads by one client never go backwards
ReadsMonotonic == IsRead => Fits(DocsOf(E.docs), 0 - 1, retAt[E.c], lastK[E.c]) # {}

\* a search on a healthy, open index does not fail: a read that ends in an error
\* ("index read inconsistency detected": the hits and what was loaded for them
\* belong to different states) observed no state at all
ReadsSucceed == l <= Len(Trace) => E.ev # "ReadError"

\* a search that matches on the version term of batch b returns hits whose STORED
\* version is b too, and exactly the documents some prefix holds at version b
IsTermRead == l <= Len(Trace) /\ E.ev = "TermRead"
TermReadOneSnapshot == IsTermRead =>
   /\ \A d \in DocsOf(E.docs) : d[2] = E.b
   /\ \E k \in 0..Len(io) : DocsOf(E.docs) = { d \in Replay(k) : d[2] = E.b }

\* a reader is a point-in-time view: a prefix, not older than what had returned when it was obtained ...
ReaderIsPrefix == IsObs => LET d == DocsOf(E.docs) IN
                    /\ Fits(d, E.seq, openAt[E.r], 0) # {}
                    /\ E.count = Cardinality(d)
\* ... and it returns identical answers for its whole lifetime
ReaderStable == (IsObs /\ firstObs[E.r] # NoObs) =>
                    firstObs[E.r] = [docs |-> DocsOf(E.docs), count |-> E.count, seq |-> E.seq]
=============================================================================
