SPECIFICATION Spec
INVARIANT Forward
INVARIANT EnumAscending
INVARIANT Ascending
INVARIANT OnlyMatches
INVARIANT TailContract
CHECK_DEADLOCK FALSE
