----------------------------- MODULE TraceScorch -----------------------------
(***************************************************************************)
(* Step-by-step conformance of the REAL scorch introducer with the          *)
(* transition functions of ScorchOps.tla (the same functions the design    *)
(* spec ScorchDisk.tla is built from).                                     *)
(*                                                                         *)
(* The recorder emits, inside rootLock right after every root swap, the    *)
(* new root's summary: epoch and per segment (id, physical doc count,      *)
(* cardinality of the deleted bitmap, file or memory).  This spec          *)
(* recomputes every root from the batches (Submit events) with             *)
(* IntroSegmentResult / IntroPersistResult / IntroMergeMulti and demands   *)
(* that the real summary equals the model's.  What the real code chose     *)
(* freely (segment ids, epochs, which segments a merge takes, when) is     *)
(* taken from the event; what it must COMPUTE (obsoletions, dropped empty  *)
(* segments, deletions re-applied to a merged segment, skipped merges,     *)
(* order of segments) is compared.                                         *)
(*                                                                         *)
(* Events: Reset, Submit{b,puts,dels}, IntroSegment{b,sid,epoch,segs},     *)
(* IntroPersist{epoch,segs}, MergeTake, PersistTake,                       *)
(* MergeRequest{filemerge,new,inputs,task} (before the request is sent),   *)
(* IntroMerge{filemerge,new,skipped,epoch,segs}                            *)
(* segs = [[id,count,deleted,file(0/1)]]                                   *)
(***************************************************************************)
EXTENDS Naturals, Sequences, FiniteSets, TLC, IOUtils, Json, ScorchOps

Trace == ndJsonDeserialize(IOEnv.VERIF_TRACE)

VARIABLES l, bt, io,
          segdocs,   \* sid -> set of documents <<id, b>> (grows with the trace)
          root,      \* model root [ep, segs, k]
          mSnap, pSnap,  \* snapshots the merger / the persister took last
          mReq, pReq,    \* last merge request handed to the introducer by the merger / persister
          logged,    \* summary logged with the last root swap
          skipLog, skipModel
vars == <<l, bt, io, segdocs, root, mSnap, pSnap, mReq, pReq, logged, skipLog, skipModel>>

SetOf(seq) == { seq[i] : i \in DOMAIN seq }
Summary(r) == [ i \in DOMAIN r.segs |-> << r.segs[i].sid, Cardinality(segdocs[r.segs[i].sid]),
                                          Cardinality(r.segs[i].del), IF r.segs[i].f THEN 1 ELSE 0 >> ]
SummaryWith(sd, r) == [ i \in DOMAIN r.segs |-> << r.segs[i].sid, Cardinality(sd[r.segs[i].sid]),
                                          Cardinality(r.segs[i].del), IF r.segs[i].f THEN 1 ELSE 0 >> ]
LoggedOf(e) == [ i \in DOMAIN e.segs |-> << e.segs[i][1], e.segs[i][2], e.segs[i][3], e.segs[i][4] >> ]
Ext(f, x, v) == [ y \in DOMAIN f \cup {x} |-> IF y = x THEN v ELSE f[y] ]

NoReq == [inputs |-> <<>>, task |-> <<>>, new |-> <<>>]
Init == /\ l = 1 /\ bt = <<>> /\ io = <<>> /\ segdocs = [s \in {} |-> {}]
        /\ root = NoSnap /\ mSnap = NoSnap /\ pSnap = NoSnap /\ mReq = NoReq /\ pReq = NoReq
        /\ logged = <<>> /\ skipLog = <<>> /\ skipModel = <<>>

E == Trace[l]

DoReset == /\ bt' = <<>> /\ io' = <<>> /\ segdocs' = [s \in {} |-> {}]
           /\ root' = NoSnap /\ mSnap' = NoSnap /\ pSnap' = NoSnap /\ mReq' = NoReq /\ pReq' = NoReq
           /\ logged' = <<>> /\ skipLog' = <<>> /\ skipModel' = <<>>

DoSubmit == /\ E.b = Len(bt) + 1
            /\ bt' = Append(bt, [puts |-> SetOf(E.puts), dels |-> SetOf(E.dels)])
            /\ UNCHANGED <<io, segdocs, root, mSnap, pSnap, mReq, pReq, logged, skipLog, skipModel>>

\* introduceSegment: all obsoletes recomputed against the current root (TLC shows in
\* ScorchDisk.tla that optimistic stale obsoletes + recomputation of the missing ones
\* give the same result)
DoIntroSegment ==
  LET b == E.b
      batch == IF b = 0 THEN [puts |-> {}, dels |-> {}] ELSE bt[b]
      sd == IF batch.puts = {} THEN segdocs ELSE Ext(segdocs, E.sid, { <<id, b>> : id \in batch.puts })
      r == IntroSegmentResult(sd, root, batch, E.sid, <<>>)
  IN /\ segdocs' = sd
     /\ root' = [ep |-> E.epoch, segs |-> r.segs, k |-> IF b = 0 THEN root.k ELSE root.k + 1]
     /\ io' = IF b = 0 THEN io ELSE Append(io, b)
     /\ logged' = LoggedOf(E) /\ skipLog' = <<>> /\ skipModel' = <<>>
     /\ UNCHANGED <<bt, mSnap, pSnap, mReq, pReq>>

\* introducePersist: the segments whose logged flag turned to "file"
DoIntroPersist ==
  LET lg == LoggedOf(E)
      persisted == { lg[i][1] : i \in { j \in DOMAIN lg : lg[j][4] = 1 } } \cap MemSids(root)
  IN /\ root' = [ep |-> E.epoch, segs |-> IntroPersistResult(root, persisted), k |-> root.k]
     /\ logged' = lg /\ skipLog' = <<>> /\ skipModel' = <<>>
     /\ UNCHANGED <<bt, io, segdocs, mSnap, pSnap, mReq, pReq>>

DoTake == /\ IF E.ev = "MergeTake" THEN mSnap' = root /\ UNCHANGED pSnap ELSE pSnap' = root /\ UNCHANGED mSnap
          /\ UNCHANGED <<bt, io, segdocs, root, mReq, pReq, logged, skipLog, skipModel>>

\* the merger / persister hands its request (full input list) to the introducer
DoMergeRequest ==
  /\ IF E.filemerge THEN mReq' = [inputs |-> E.inputs, task |-> E.task, new |-> E.new] /\ UNCHANGED pReq
                    ELSE pReq' = [inputs |-> E.inputs, task |-> E.task, new |-> E.new] /\ UNCHANGED mReq
  /\ UNCHANGED <<bt, io, segdocs, root, mSnap, pSnap, logged, skipLog, skipModel>>

\* introduceMerge: all tasks in one swap
DoIntroMerge ==
  LET snap == IF E.filemerge THEN mSnap ELSE pSnap
      req == IF E.filemerge THEN mReq ELSE pReq
      ntasks == Len(E.new)
      insOf(t) == { req.inputs[i] : i \in { j \in DOMAIN req.inputs : req.task[j] = t - 1 } }
      docsOf(t) == MergedDocsOf(segdocs, snap, insOf(t) \cap Sids(snap))
      tasks == [ t \in 1..ntasks |-> [ins |-> insOf(t), new |-> E.new[t], docs |-> docsOf(t)] ]
      sd == [ y \in DOMAIN segdocs \cup { E.new[t] : t \in 1..ntasks } |->
                IF \E t \in 1..ntasks : E.new[t] = y THEN docsOf(CHOOSE t \in 1..ntasks : E.new[t] = y) ELSE segdocs[y] ]
      r == IntroMergeMulti(sd, root, tasks, TRUE)
  IN /\ segdocs' = sd
     /\ root' = [ep |-> E.epoch, segs |-> r.segs, k |-> root.k]
     /\ logged' = LoggedOf(E)
     /\ skipLog' = E.skipped /\ skipModel' = r.skipped
     /\ UNCHANGED <<bt, io, mSnap, pSnap, mReq, pReq>>

Step ==
  /\ l <= Len(Trace) /\ l' = l + 1
  /\ CASE E.ev = "Reset" -> DoReset
       [] E.ev = "Submit" -> DoSubmit
       [] E.ev = "IntroSegment" -> DoIntroSegment
       [] E.ev = "IntroPersist" -> DoIntroPersist
       [] E.ev \in {"MergeTake", "PersistTake"} -> DoTake
       [] E.ev = "MergeRequest" -> DoMergeRequest
       [] E.ev = "IntroMerge" -> DoIntroMerge
       [] OTHER -> UNCHANGED <<bt, io, segdocs, root, mSnap, pSnap, mReq, pReq, logged, skipLog, skipModel>>
Spec == Init /\ [][Step]_vars

-----------------------------------------------------------------------------
\* the real root equals the root the spec's transition functions compute
RootConforms == Summary(root) = logged
\* merged segments that lost all their documents meanwhile are skipped exactly when the spec says so
SkipsConform == skipLog = skipModel
\* ... and therefore the real root is the last-write-wins replay of everything introduced
ContentIsReplay == LiveDocsOf(segdocs, root) = ReplayOf(bt, io, Len(io))
UniqueLive == \A d1, d2 \in LiveDocsOf(segdocs, root) : d1[1] = d2[1] => d1 = d2
=============================================================================
