\* open-ended date range queries on the corpus holding timestamps beyond the
\* sortable images of -Inf/+Inf: judged in a run of their own (open finding)
CONSTANTS
  B = 16
  L = 16
  G = 7
  ShiftStart = 32
  FE = 11
SPECIFICATION Spec
CHECK_DEADLOCK FALSE
INVARIANTS QueryExact
