\* open-ended date range queries on the corpus holding timestamps beyond the
\* sortable images of -Inf/+Inf: judged in a run of their own (open finding)
SPECIFICATION Spec
CHECK_DEADLOCK FALSE
INVARIANTS QueryExact
