SPECIFICATION Spec
INVARIANTS AliasHits AliasTotal AliasFacets AliasAlgorithm
CHECK_DEADLOCK FALSE
