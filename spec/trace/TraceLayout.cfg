SPECIFICATION Spec
INVARIANTS SameHits SameScores SameExtras SameFacets
CHECK_DEADLOCK FALSE
