--------------------------- MODULE JudgeMergePlan ---------------------------
(* The merge planner's contract, as far as ScorchDisk's merge actions rely   *)
(* on it (MPlanWrite / IntroMergeMulti take the tasks of ONE plan as pairwise *)
(* disjoint sets of segments of the snapshot that was planned):              *)
(* "A segment will be assigned to at most a single MergeTask" (Plan's doc).   *)
(* Record: {segs: [ids given to Plan], tasks: [[ids], ...]}                   *)
EXTENDS Naturals, Sequences, FiniteSets, TLC, IOUtils, Json
Trace == ndJsonDeserialize(IOEnv.VERIF_TRACE)
VARIABLE l
Init == l = 1
Next == l <= Len(Trace) /\ l' = l + 1
Spec == Init /\ [][Next]_l
E == Trace[l]
SetOf(s) == { s[i] : i \in DOMAIN s }
TasksDisjoint == l <= Len(Trace) =>
   \A i, j \in DOMAIN E.tasks : i # j => SetOf(E.tasks[i]) \cap SetOf(E.tasks[j]) = {}
TasksFromTheSnapshot == l <= Len(Trace) =>
   \A i \in DOMAIN E.tasks : SetOf(E.tasks[i]) \subseteq SetOf(E.segs)
NoSegmentTwiceInATask == l <= Len(Trace) =>
   \A i \in DOMAIN E.tasks : Cardinality(SetOf(E.tasks[i])) = Len(E.tasks[i])
=============================================================================
