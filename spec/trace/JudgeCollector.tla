--------------------------- MODULE JudgeCollector ---------------------------
(***************************************************************************)
(* C06 Engine B judge.  Every record is one real Index.Search request on a *)
(* real index (scorch or upsidedown) together with the matches of its      *)
(* query in arrival (natural) order, obtained by draining the query's      *)
(* searcher directly -- scores are passed as dense ranks (1 = lowest       *)
(* distinct score), sort field values as small integers:                   *)
(*                                                                         *)
(*  [sort, seen, mode, size, skip, key, hits, total, maxs]                 *)
(*                                                                         *)
(* The record is decided with the operators of CollectorOps: the MEANING   *)
(* (PART 1) gives the verdict on the property, the ALGORITHM model (PART   *)
(* 2) is run on the same input as a conformance check.                     *)
(***************************************************************************)
EXTENDS CollectorOps, IOUtils, Json

Trace == ndJsonDeserialize(IOEnv.VERIF_TRACE)

VARIABLE l
Init == l = 1
Next == l <= Len(Trace) /\ l' = l + 1
Spec == Init /\ [][Next]_l

Rq(r) == [sort |-> r.sort, size |-> r.size, skip |-> r.skip, mode |-> r.mode, key |-> r.key]

Ids(r, hs) == [x \in 1..Len(hs) |-> r.seen[hs[x]].id]

\* the generator only issues search-after/before under total orders
WellFormed(r) ==
  /\ r.mode \in {"page", "after", "before"}
  /\ r.mode # "page" => (IsTotal(r.sort) /\ Len(r.key) = 1 /\ Len(r.key[1]) = Len(r.sort) /\ r.skip = 0)
  /\ \A i, j \in DOMAIN r.seen : i # j => r.seen[i].id # r.seen[j].id

\* hits = the requested slice of the fully sorted match list / the following /
\* the preceding page
HitsOK(r)     == r.hits = Ids(r, Meaning(r.seen, Rq(r)))
TotalOK(r)    == r.total = Len(r.seen)
MaxScoreOK(r) == r.maxs = MaxScoreOf(r.seen)
\* conformance: the algorithm model (slice/heap store, shortcut, reverse + re-sort)
\* computes the same hits from the same arrivals
ModelOK(r)    == r.hits = Ids(r, SearchHits(r.seen, Rq(r), 10))

RecWellFormed == l <= Len(Trace) => WellFormed(Trace[l])
RecHits       == l <= Len(Trace) => HitsOK(Trace[l])
RecTotal      == l <= Len(Trace) => TotalOK(Trace[l])
RecMaxScore   == l <= Len(Trace) => MaxScoreOK(Trace[l])
RecModel      == l <= Len(Trace) => ModelOK(Trace[l])
=============================================================================
