----------------------------- MODULE TraceCrash -----------------------------
(***************************************************************************)
(* Trace specification for C03 (and the recovery side of C13/C14): judges  *)
(* what a REAL index contained after a real kill / clean close / copy /    *)
(* rollback against the last-write-wins replay of ScorchOps.               *)
(*                                                                         *)
(* A trace file is a concatenation of runs, each starting with Reset.      *)
(* Events (recorded by the harness and, for IntroSegment, by the scorch    *)
(* hook inside rootLock right after the root swap):                        *)
(*   Reset{safe}              new run; safe = Batch returns after persist  *)
(*   Submit{b,puts,dels}      batch b (numbered 1,2,.. per run) handed to  *)
(*                            Index.Batch; puts/dels are its collapsed ops *)
(*   IntroSegment{b,epoch}    the introducer published batch b as root     *)
(*                            epoch (0 = not recorded)                     *)
(*   PersistCommitted{epoch}  the bolt transaction persisting the snapshot *)
(*                            of that epoch was committed                  *)
(*   Return{b}                Index.Batch(b) returned without error        *)
(*   Callback{b}              b's persisted-callback fired                 *)
(*   Recovered{min,opened,docs,seq,count,matchall}                         *)
(*                            the directory (after the kill, or the copy   *)
(*                            destination, or after Rollback) was opened;  *)
(*                            docs = [[id, ver]] live documents,           *)
(*                            seq = internal key "seq" (0 = absent);       *)
(*                            min = lower bound on the prefix length that  *)
(*                            the harness knows must be contained          *)
(*   PostWrite{b,puts,dels,docs,seq,count}                                 *)
(*                            one more batch was applied to the reopened   *)
(*                            index and it was observed again              *)
(***************************************************************************)
EXTENDS Integers, Sequences, FiniteSets, TLC, IOUtils, Json, ScorchOps

Trace == ndJsonDeserialize(IOEnv.VERIF_TRACE)

VARIABLES l,        \* index of the next record
          safe,
          bt,       \* Seq of [puts, dels]: bt[b] = collapsed ops of batch b
          io,       \* introduction order
          returned, cbs,
          rec,      \* batches that had returned when the last online copy began (CopyBegin)
          ieps,     \* set of <<b, epoch>>: the root epoch that first contained batch b
          maxc      \* highest snapshot epoch whose bolt commit has been recorded
vars == <<l, safe, bt, io, returned, cbs, rec, ieps, maxc>>

SetOf(seq) == { seq[i] : i \in DOMAIN seq }
DocsOf(seq) == { <<seq[i][1], seq[i][2]>> : i \in DOMAIN seq }

Init == l = 1 /\ safe = TRUE /\ bt = <<>> /\ io = <<>> /\ returned = {} /\ cbs = {} /\ rec = {} /\ ieps = {} /\ maxc = 0

E == Trace[l]

Step ==
  /\ l <= Len(Trace)
  /\ l' = l + 1
  /\ CASE E.ev = "Reset" ->
            /\ safe' = E.safe /\ bt' = <<>> /\ io' = <<>> /\ returned' = {} /\ cbs' = {} /\ rec' = {} /\ ieps' = {} /\ maxc' = 0
       [] E.ev = "Submit" ->
            /\ E.b = Len(bt) + 1     \* batches are numbered in submission order
            /\ bt' = Append(bt, [puts |-> SetOf(E.puts), dels |-> SetOf(E.dels)])
            /\ UNCHANGED <<safe, io, returned, cbs, rec, ieps, maxc>>
       [] E.ev = "IntroSegment" ->
            /\ io' = IF E.b = 0 THEN io ELSE Append(io, E.b)
            /\ ieps' = IF E.b = 0 THEN ieps ELSE ieps \cup {<<E.b, E.epoch>>}
            /\ UNCHANGED <<safe, bt, returned, cbs, rec, maxc>>
       [] E.ev = "PersistCommitted" -> maxc' = (IF E.epoch > maxc THEN E.epoch ELSE maxc) /\ UNCHANGED <<safe, bt, io, returned, cbs, rec, ieps>>
       [] E.ev = "Return" -> returned' = returned \cup {E.b} /\ UNCHANGED <<safe, bt, io, cbs, rec, ieps, maxc>>
       [] E.ev = "Callback" -> cbs' = cbs \cup {E.b} /\ UNCHANGED <<safe, bt, io, returned, rec, ieps, maxc>>
       [] E.ev = "CopyBegin" -> rec' = returned /\ UNCHANGED <<safe, bt, io, returned, cbs, ieps, maxc>>
       [] OTHER -> UNCHANGED <<safe, bt, io, returned, cbs, rec, ieps, maxc>>

Spec == Init /\ [][Step]_vars

-----------------------------------------------------------------------------
Ids == UNION { bt[b].puts \cup bt[b].dels : b \in 1..Len(bt) }
Replay(k) == ReplayOf(bt, io, k)
Prefix(k) == { io[i] : i \in 1..k }
\* batches the property promises are durable after a kill
Durable == (IF safe THEN returned ELSE {}) \cup cbs

\* prefix lengths that explain an observation
Explains(k, docs, seq) == /\ docs = Replay(k)
                          /\ seq = (IF k = 0 THEN 0 ELSE io[k])
Ks(docs, seq) == { k \in 0..Len(io) : Explains(k, docs, seq) }

J == Trace[l - 1]          \* the record just consumed
IsRec == l > 1 /\ J.ev = "Recovered"
IsPost == l > 1 /\ J.ev = "PostWrite"

\* C03 without needing a kill: a batch is acknowledged (its call returns in safe
\* mode / its persisted-callback fires) only after a bolt snapshot that contains
\* it has been committed (IntroSegment carries the epoch of the first root that
\* contains the batch; PersistCommitted the epoch of the committed snapshot)
IsAck == l > 1 /\ (J.ev = "Callback" \/ (J.ev = "Return" /\ safe))
AckedAfterCommit == IsAck => \A p \in ieps : p[1] = J.b => p[2] <= maxc

\* every introduced batch was submitted, each at most once
IntroOrderOK == /\ \A i \in 1..Len(io) : io[i] \in 1..Len(bt)
                /\ \A i, j \in 1..Len(io) : i # j => io[i] # io[j]

\* C03: the index can be opened again
RecoveredOpens == IsRec => J.opened

\* C03: contents = replay of a prefix of the introduction order, no partial batch
RecoveredIsPrefix == (IsRec /\ J.opened) => Ks(DocsOf(J.docs), J.seq) # {}

\* C03: the prefix contains every batch acknowledged before the kill
\* (returned in safe mode / persisted-callback fired), and at least the
\* lower bound the harness knows (J.min, e.g. batches returned before a copy began)
\* C14: an online copy contains every batch acknowledged (returned) before the
\* copy began.  C13: after Rollback to a point the content is the state that
\* point identifies by its internal value (J.point = its "seq").
MustHave == CASE J.kind = "copy" -> rec
              [] J.kind = "rollback" -> {}
              [] OTHER -> Durable
RecoveredHasAcked == (IsRec /\ J.opened) =>
   \E k \in Ks(DocsOf(J.docs), J.seq) : MustHave \subseteq Prefix(k) /\ k >= J.min
RollbackExact == (IsRec /\ J.opened /\ J.kind = "rollback") => J.seq = J.point

\* C13: the rollback points offered (newest first, identified by their
\* internal "seq" values) are states the index really had, in order, include
\* the most recent persisted state, and honour numSnapshotsToKeep
IsPoints == l > 1 /\ J.ev = "Points"
PosOf(b) == IF b = 0 THEN 0 ELSE CHOOSE i \in 1..Len(io) : io[i] = b
PointsAreStates == IsPoints => \A i \in DOMAIN J.seqs : J.seqs[i] = 0 \/ \E j \in 1..Len(io) : io[j] = J.seqs[i]
PointsOrdered == IsPoints => \A i, j \in DOMAIN J.seqs : i < j => PosOf(J.seqs[i]) >= PosOf(J.seqs[j])
PointsIncludeNewest == (IsPoints /\ J.settled) => (Len(J.seqs) > 0 /\ PosOf(J.seqs[1]) = Len(io))
PointsHonourKeep == (IsPoints /\ J.settled) => Len(J.seqs) <= J.keep
\* the source of an online copy is unaffected: it still holds everything introduced
IsSource == l > 1 /\ J.ev = "SourceAfter"
SourceUnaffected == IsSource => (DocsOf(J.docs) = Replay(Len(io)) /\ J.seq = (IF Len(io) = 0 THEN 0 ELSE io[Len(io)]))

\* C13 / C03, at the step: when the persister merges the in-memory segments of the
\* snapshot it took, it records an EQUIVALENT snapshot under the epoch it took
\* (ScorchDisk!PMMCommit).  Equivalent: same epoch, same internal values, the file
\* segments unchanged, the new segments without deletions, the same number of
\* live documents.  segs = [[id, count, deleted, isfile], ...]
IsEquiv == l > 1 /\ J.ev = "MemMergeEquiv"
RECURSIVE LiveCount(_)
LiveCount(segs) == IF segs = <<>> THEN 0 ELSE (Head(segs)[2] - Head(segs)[3]) + LiveCount(Tail(segs))
EquivIsTheTakenState == IsEquiv =>
   /\ J.eepoch = J.sepoch /\ J.eseq = J.sseq
   /\ LiveCount(J.esegs) = LiveCount(J.ssegs)
   /\ \A i \in DOMAIN J.ssegs : J.ssegs[i][4] = 1 => \E j \in DOMAIN J.esegs : J.esegs[j] = J.ssegs[i]
   /\ \A j \in DOMAIN J.esegs : (\A i \in DOMAIN J.ssegs : J.ssegs[i][1] # J.esegs[j][1]) => J.esegs[j][3] = 0

\* ScorchDisk!PCommit / PMMCommit at the step: the snapshot recorded in the metadata
\* store under an epoch names exactly one file per segment of the snapshot the
\* persister took for that epoch (read back right after the bolt commit)
IsCommit == l > 1 /\ J.ev = "PersistCommitted" /\ J.checked
CommitNamesTheTakenSnapshot == IsCommit => SetOf(J.boltids) = SetOf(J.segids)

\* the observation is self-consistent (C01 on the reopened index)
RecoveredConsistent == (IsRec /\ J.opened) =>
   /\ J.count = Cardinality(DocsOf(J.docs))
   /\ SetOf(J.matchall) = { d[1] : d \in DocsOf(J.docs) }
   /\ Len(J.matchall) = J.count

\* C03: the reopened index accepts further writes correctly: the new batch
\* applies on top of the recovered prefix
PostWriteOK == IsPost =>
   LET nb == [puts |-> SetOf(J.puts), dels |-> SetOf(J.dels)]
       bt2 == Append(bt, nb)
   IN \E k \in 0..Len(io) :
        /\ DocsOf(J.docs) = ReplayOf(bt2, SubSeq(io, 1, k) \o <<Len(bt2)>>, k + 1)
        /\ DocsOf(J.prev) = Replay(k)
        /\ J.seq = Len(bt2) /\ J.count = Cardinality(DocsOf(J.docs))
=============================================================================
