SPECIFICATION Spec
INVARIANTS TasksDisjoint TasksFromTheSnapshot NoSegmentTwiceInATask
CHECK_DEADLOCK FALSE
