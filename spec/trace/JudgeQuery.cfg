SPECIFICATION Spec
INVARIANT NoneMissed
INVARIANT NoExtra
INVARIANT NoDuplicate
INVARIANT TotalOK
INVARIANT VariantsAgree
CHECK_DEADLOCK FALSE
