---------------------------- MODULE JudgeNumeric ----------------------------
(***************************************************************************)
(* Judge for property C07 at the real width: Numeric.tla with B = 16,      *)
(* L = 16 (64-bit words as 16 nibbles), 7-bit term bytes, shift byte 0x20, *)
(* binary64 floats (11 exponent bits).                                     *)
(*                                                                         *)
(* Every line of the ndjson file is one record produced by the real bleve  *)
(* code (harness/internal/c07).  64-bit words arrive as arrays of 16       *)
(* nibbles (most significant first), terms as arrays of byte values.       *)
(*                                                                         *)
(*  kind = "split"   min, max, ranges = <<  <<startTerm, endTerm>>, ... >>  *)
(*                   from searcher.VerifSplitInt64Range(min, max, 4)        *)
(*  kind = "float"   a, b float64 bit patterns, lt = Go's a < b,            *)
(*                   ia, ib = Float64ToInt64, ra = bits(Int64ToFloat64(ia)),*)
(*                   ta, tb = NewPrefixCodedInt64(ia|ib, 0)                 *)
(*  kind = "prefix"  v, shift, t = NewPrefixCodedInt64(v, shift),           *)
(*                   dec = t.Int64(), sh = t.Shift(), valid                 *)
(*  kind = "corpus"  id, docs = << <<value, ...>>, ... >>  (no judgement)   *)
(*  kind = "query"   corpus, typ ("num": values are float bit patterns,     *)
(*                   "date": values are int64 nanoseconds), hasMin, min,    *)
(*                   incMin, hasMax, max, incMax (0 = nil, 1 = false,       *)
(*                   2 = true), hits[d] = 1 iff document d was returned     *)
(*  kind = "sort"    corpus, typ, desc, mode, order = documents as returned *)
(*                                                                         *)
(* Property-level invariants come first in the cfg (TLC reports the first  *)
(* violated one); the *Agrees invariants compare with the transcription    *)
(* bit by bit and alone only indicate loss of conformance.                 *)
(***************************************************************************)
(* The module EXTENDS Numeric (constants bound in the cfg: B = 16, L = 16,  *)
(* G = 7, ShiftStart = 32, FE = 11) rather than instantiating it, so that  *)
(* TLC evaluates the derived constants (DB, W, chunk sizes) once.          *)
EXTENDS Numeric, TLC, IOUtils, Json

Trace == ndJsonDeserialize(IOEnv.VERIF_TRACE)

VARIABLE l
Init == l = 1
Next == l <= Len(Trace) /\ l' = l + 1
Spec == Init /\ [][Next]_l

Is(kind) == l <= Len(Trace) /\ Trace[l].kind = kind
R == Trace[l]

-----------------------------------------------------------------------------
(* split *)
RangeWF(p) ==
  /\ ValidTerm(p[1]) /\ ValidTerm(p[2])
  /\ TermShift(p[1]) = TermShift(p[2])
  /\ TermShift(p[1]) % 4 = 0
Decoded(p) ==
  LET k == TermShift(p[1]) \div 4
  IN [k |-> k, lo |-> DecodeTermD(p[1]), hi |-> FillLow(DecodeTermD(p[2]), k)]

SplitWellFormed == Is("split") => \A i \in 1..Len(R.ranges) : RangeWF(R.ranges[i])
(* the emitted term ranges are pairwise disjoint and cover exactly [min,max] *)
SplitCover ==
  Is("split") /\ (\A i \in 1..Len(R.ranges) : RangeWF(R.ranges[i])) =>
     ChainCover([i \in 1..Len(R.ranges) |-> Decoded(R.ranges[i])], R.min, R.max)
(* ... and are term for term what the transcription computes *)
SplitAgrees ==
  Is("split") =>
     LET s == Split(R.min, R.max)
     IN /\ Len(s) = Len(R.ranges)
        /\ \A i \in 1..Len(s) : /\ R.ranges[i][1] = RngStart(s[i])
                                /\ R.ranges[i][2] = RngEnd(s[i])

(* "terminates": termRange.Enumerate walks every emitted range term by term; *)
(* by the enumeration model of Numeric.tla the walk over each range is short *)
SplitEnumBounded ==
  Is("split") /\ (\A i \in 1..Len(R.ranges) : RangeWF(R.ranges[i])) =>
     \A i \in 1..Len(R.ranges) : EnumWithin(R.ranges[i][1], R.ranges[i][2], 2 * B + BB)
(* the property-level form: whatever the exact shape of the ranges, no walk *)
(* is longer than about a million steps (the tight bound above only says    *)
(* that the ranges have the shape the transcription produces)               *)
SplitEnumTerminates ==
  Is("split") /\ (\A i \in 1..Len(R.ranges) : RangeWF(R.ranges[i])) =>
     \A i \in 1..Len(R.ranges) : EnumWithin(R.ranges[i][1], R.ranges[i][2], 1048576)

-----------------------------------------------------------------------------
(* float <-> sortable int64, prefix coding *)
FloatOrderModel == Is("float") => (R.lt <=> FloatLess(R.a, R.b))
FloatInverse    == Is("float") => R.ra = R.a
FloatMonotone   == Is("float") /\ R.lt => SLess(R.ia, R.ib) /\ BytesLess(R.ta, R.tb)
FloatDigitsModel == Is("float") => (FloatLessD(R.a, R.b) <=> FloatLess(R.a, R.b))
FloatAgrees     == Is("float") => /\ R.ia = FloatToSortable(R.a)
                                  /\ R.ib = FloatToSortable(R.b)
                                  /\ R.ta = PrefixCode(R.ia, 0)

PrefixDecode == Is("prefix") => /\ R.valid
                                /\ R.sh = R.shift
                                /\ R.dec = TruncBits(R.v, R.shift)
PrefixAgrees == Is("prefix") => R.t = PrefixCode(R.v, R.shift)

-----------------------------------------------------------------------------
(* end to end: range queries and sort on real indexes *)
NCorpus == 8       \* corpus records are the first lines of the file
Corpus(id) == Trace[CHOOSE i \in 1..NCorpus : Trace[i].kind = "corpus" /\ Trace[i].id = id]

Less(typ, x, y) == IF typ = "num" THEN FloatLessD(x, y) ELSE SLess(x, y)
Leq(typ, x, y)  == IF typ = "num" THEN FloatLeqD(x, y)  ELSE SLeq(x, y)

(* nil inclusive flags default to: min inclusive, max exclusive.  An open   *)
(* end is the end of the number line of that side with its flag: -Inf/+Inf  *)
(* for numbers, the first/last representable nanosecond for dates.          *)
IncMin(r) == r.incMin # 1
IncMax(r) == r.incMax = 2
PosInf == <<7, 15, 15>> \o [i \in 1..13 |-> 0]
NegInf == <<15, 15, 15>> \o [i \in 1..13 |-> 0]

AboveMin(r, v) ==
  IF r.hasMin THEN (IF IncMin(r) THEN Leq(r.typ, r.min, v) ELSE Less(r.typ, r.min, v))
  ELSE IncMin(r) \/ Less(r.typ, IF r.typ = "date" THEN MinVal ELSE NegInf, v)
BelowMax(r, v) ==
  IF r.hasMax THEN (IF IncMax(r) THEN Leq(r.typ, v, r.max) ELSE Less(r.typ, v, r.max))
  ELSE IncMax(r) \/ Less(r.typ, v, IF r.typ = "date" THEN MaxVal ELSE PosInf)

DocMatches(r, vals) == \E j \in 1..Len(vals) : AboveMin(r, vals[j]) /\ BelowMax(r, vals[j])

(* a document is returned iff one of its values lies in the range *)
QueryExact ==
  Is("query") =>
    LET docs == Corpus(R.corpus).docs
    IN /\ Len(R.hits) = Len(docs)
       /\ \A d \in 1..Len(docs) : (R.hits[d] = 1) <=> DocMatches(R, docs[d])

(* sorting by the field orders hits numerically *)
RECURSIVE Extreme(_, _, _, _)
Extreme(typ, vals, n, wantMax) ==
  IF n = 1 THEN vals[1]
  ELSE LET e == Extreme(typ, vals, n-1, wantMax)
       IN IF wantMax THEN (IF Less(typ, e, vals[n]) THEN vals[n] ELSE e)
                     ELSE (IF Less(typ, vals[n], e) THEN vals[n] ELSE e)
Key(r, vals) == IF r.mode = "max" THEN Extreme(r.typ, vals, Len(vals), TRUE)
                ELSE IF r.mode = "min" THEN Extreme(r.typ, vals, Len(vals), FALSE)
                ELSE vals[1]

SortComplete ==
  Is("sort") =>
    LET n == Len(Corpus(R.corpus).docs)
    IN Len(R.order) = n /\ {R.order[i] : i \in 1..n} = 1..n
SortOrdered ==
  Is("sort") =>
    LET docs == Corpus(R.corpus).docs
    IN \A i \in 1..(Len(R.order)-1) :
         LET x == Key(R, docs[R.order[i]])  y == Key(R, docs[R.order[i+1]])
         IN IF R.desc THEN ~Less(R.typ, x, y) ELSE ~Less(R.typ, y, x)

=============================================================================
