SPECIFICATION JSpec
CONSTANTS N = 1  K = 1
INVARIANTS CancelledSearchEnds IndexStaysUsable
CHECK_DEADLOCK FALSE
