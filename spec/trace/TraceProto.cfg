SPECIFICATION Spec
INVARIANTS WellFormed NoPanicNoHang AfterCloseClosed ClosedOnlyIfCloseBegan CancelledOnlyWithCtx
  StatsNeverFail DictOpsSucceed CloseOkOrClosedOnce PreCancelledFails UsableAfterCancel
  ReaderExcludesWriter LoopQuietAfterWait CloseWaitsForReaders NoLeakAfterClose
CHECK_DEADLOCK FALSE
