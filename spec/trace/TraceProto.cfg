SPECIFICATION Spec
INVARIANTS WellFormed NoPanicNoHang AfterCloseClosed ClosedOnlyIfCloseBegan CancelledOnlyWithCtx
  StatsNeverFail DictOpsSucceed FirstCloseOk PreCancelledFails UsableAfterCancel
  ReaderExcludesWriter LoopQuietAfterWait CloseWaitsForReaders NoLeakAfterClose
CHECK_DEADLOCK FALSE
