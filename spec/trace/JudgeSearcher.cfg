SPECIFICATION Spec
INVARIANT Forward
INVARIANT EnumAscending
INVARIANT Ascending
INVARIANT OnlyMatches
INVARIANT AdvanceLands
INVARIANT NextIsNext
CHECK_DEADLOCK FALSE
