--------------------------- MODULE JudgeAlias ---------------------------
(* C09, Engine B: TLC judges results returned by the real IndexAlias.Search on
   seeded partitions.  One record per search:
     key    per document (1..N): sort key, 0 = field missing
     m      documents matched by the query
     shard  per document: the leaf index holding it
     root   the alias tree ([kind |-> "leaf", shard] / [kind |-> "alias", kids])
     req    [from, size, sort : <<[by, desc, mfirst]>>, mode, cursor]
     fs     facet sizes requested; ranges: the numeric ranges requested
     got    [hits : <<[id, sv]>>, total, ft : <<[s, fr]>>, fn : <<[s, fr]>>] from bleve
   Oracle: AliasOps!Single -- the same request on ONE index holding all documents
   (the meaning of C09); AliasOps!Search -- the design's alias algorithm -- must
   agree as well (conformance). *)
EXTENDS AliasOps, IOUtils, Json

Trace == ndJsonDeserialize(IOEnv.VERIF_TRACE)
VARIABLE l
Init == l = 1
Next == l <= Len(Trace) /\ l' = l + 1
Spec == Init /\ [][Next]_l

XOf(r) == [key |-> r.key, m |-> Range(r.m), shard |-> r.shard,
           fs |-> Range(r.fs), ranges |-> Range(r.ranges), quirk |-> FALSE]

HitsOk(r)  == r.got.hits = Single(XOf(r), r.req).hits
TotalOk(r) == r.got.total = Single(XOf(r), r.req).total
FacetsOk(r) ==
  LET X == XOf(r)  e == Single(X, r.req) IN
  /\ \A i \in DOMAIN r.got.ft : Covers(X, r.got.ft[i].s) => r.got.ft[i].fr = Visible(e.ft[r.got.ft[i].s])
  /\ \A i \in DOMAIN r.got.fn : Covers(X, r.got.fn[i].s) => r.got.fn[i].fr = Visible(e.fn[r.got.fn[i].s])
(* conformance to the design algorithm (not a property clause) *)
AlgOk(r) ==
  LET o == Search(XOf(r), r.root, r.req) IN r.got.hits = o.hits /\ r.got.total = o.total

Judge(P(_)) == l <= Len(Trace) => P(Trace[l])
AliasHits   == Judge(HitsOk)
AliasTotal  == Judge(TotalOk)
AliasFacets == Judge(FacetsOk)
AliasAlgorithm == Judge(AlgOk)
=============================================================================
