SPECIFICATION JSpec
CONSTANTS MaxLen = 0 MaxTokens = 0 MaxPos = 0
INVARIANTS OffsetsInInput PositionPositive StartMonotone PositionMonotone MonitorAgrees
CHECK_DEADLOCK FALSE
