------------------------- MODULE JudgeQueryString -------------------------
(***************************************************************************)
(* C17, engine B.  Every record is what the REAL query-string parser made  *)
(* of a seeded random input (longer than the exhaustive enumeration, over  *)
(* a wider alphabet):                                                      *)
(*   [w |-> code points, ok |-> accepted, none |-> MatchNone,              *)
(*    shape |-> the parsed query has the boolean shape of the syntax,      *)
(*    cl |-> clauses grouped must / should / must-not, each                *)
(*           [occ, kind, field, text, op, hasBoost]]                       *)
(* TLC judges it against QueryString!Result.  Numeric literals (fuzziness, *)
(* boost values, comparison bounds) are compared by the harness in engine  *)
(* A; here only their presence is.                                         *)
(***************************************************************************)
EXTENDS QueryString, IOUtils, Json

Trace == ndJsonDeserialize(IOEnv.VERIF_TRACE)

VARIABLES l, exp
Expected(i) == IF i <= Len(Trace) THEN Result(Trace[i].w) ELSE Reject
Init == l = 1 /\ exp = Expected(1)
Next == l <= Len(Trace) /\ l' = l + 1 /\ exp' = Expected(l + 1)
Spec == Init /\ [][Next]_<<l, exp>>

Real == Trace[l]

\* the real boolean query lists required, then optional, then excluded clauses
Grouped(cl) == SelectSeq(cl, LAMBDA c : c.occ = "must")
               \o SelectSeq(cl, LAMBDA c : c.occ = "should")
               \o SelectSeq(cl, LAMBDA c : c.occ = "mustnot")
Proj(c) == [occ |-> c.occ, kind |-> c.kind,
            field |-> IF c.hasField THEN c.field ELSE <<>>,
            text |-> IF c.kind \in {"range", "date"} THEN <<>> ELSE c.text,
            op |-> c.op, hasBoost |-> c.boost # <<>>]
ProjReal(c) == [c EXCEPT !.text = IF c.kind \in {"range", "date"} THEN <<>> ELSE @]

AcceptOK  == l <= Len(Trace) => (Real.ok = exp.ok /\ Real.none = exp.none)
ClausesOK == l <= Len(Trace) /\ Real.ok /\ exp.ok =>
               /\ Real.shape
               /\ Len(Real.cl) = Len(exp.cl)
               /\ \A i \in 1..Len(exp.cl) : ProjReal(Real.cl[i]) = Proj(Grouped(exp.cl)[i])
=============================================================================
