CONSTANTS
  B = 16
  L = 16
  G = 7
  ShiftStart = 32
  FE = 11
SPECIFICATION Spec
CHECK_DEADLOCK FALSE
INVARIANTS
  SplitWellFormed SplitCover SplitEnumTerminates
  FloatOrderModel FloatDigitsModel FloatInverse FloatMonotone
  PrefixDecode
  QueryExact SortComplete SortOrdered
  SplitEnumBounded SplitAgrees FloatAgrees PrefixAgrees
