SPECIFICATION Spec
CHECK_DEADLOCK FALSE
INVARIANTS
  SplitWellFormed SplitCover
  FloatOrderModel FloatDigitsModel FloatInverse FloatMonotone
  PrefixDecode
  QueryExact SortComplete SortOrdered
  SplitAgrees FloatAgrees PrefixAgrees
