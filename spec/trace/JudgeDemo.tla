---- MODULE JudgeDemo ----
\* Self-test of the judge-spec convention (see harness/internal/core/trace.go).
EXTENDS Naturals, Sequences, TLC, IOUtils, Json
Trace == ndJsonDeserialize(IOEnv.VERIF_TRACE)
VARIABLE l
Init == l = 1
Next == l <= Len(Trace) /\ l' = l + 1
Spec == Init /\ [][Next]_l
RecordOK == l <= Len(Trace) => Trace[l].sum = Trace[l].a + Trace[l].b
====
