SPECIFICATION Spec
INVARIANTS PurgeRemovesOnlyUnneeded MergedRootFilesProtected BoltFilesOnDisk RootFilesOnDisk CopyFilesOnDisk NoOrphansWhenQuiescent NothingIneligibleWhenQuiescent RetentionWhenQuiescent NewestIsRoot NoOpenFilesAfterClose
CHECK_DEADLOCK FALSE
