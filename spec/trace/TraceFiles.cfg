SPECIFICATION Spec
INVARIANTS BoltFilesOnDisk RootFilesOnDisk CopyFilesOnDisk NoOrphansWhenQuiescent NothingIneligibleWhenQuiescent RetentionWhenQuiescent NewestIsRoot NoOpenFilesAfterClose
CHECK_DEADLOCK FALSE
