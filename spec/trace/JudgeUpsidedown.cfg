SPECIFICATION Spec
INVARIANTS DictMatchesTF BackMatchesTF CountMatchesBack LiveDocsAreBackRows VersionTermsCurrent
CHECK_DEADLOCK FALSE
