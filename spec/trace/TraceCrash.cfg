SPECIFICATION Spec
INVARIANTS IntroOrderOK RecoveredOpens RecoveredIsPrefix RecoveredHasAcked RecoveredConsistent PostWriteOK RollbackExact PointsAreStates PointsOrdered PointsIncludeNewest PointsHonourKeep SourceUnaffected
CHECK_DEADLOCK FALSE
