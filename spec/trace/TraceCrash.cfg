SPECIFICATION Spec
INVARIANTS CommitNamesTheTakenSnapshot EquivIsTheTakenState AckedAfterCommit IntroOrderOK RecoveredOpens RecoveredIsPrefix RecoveredHasAcked RecoveredConsistent PostWriteOK RollbackExact PointsAreStates PointsOrdered PointsIncludeNewest PointsHonourKeep SourceUnaffected
CHECK_DEADLOCK FALSE
