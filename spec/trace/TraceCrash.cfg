SPECIFICATION Spec
INVARIANTS IntroOrderOK RecoveredOpens RecoveredIsPrefix RecoveredHasAcked RecoveredConsistent PostWriteOK
CHECK_DEADLOCK FALSE
