SPECIFICATION Spec
INVARIANTS CountIsLiveIds MatchAllIsLiveIds FieldsOfOneWrittenVersion DeletedByAllIsAbsent
CHECK_DEADLOCK FALSE
