----------------------------- MODULE JudgeFinal -----------------------------
(* C01 under concurrent writers: whatever order the index serialised the    *)
(* writers' operations in, the final state is a state of Index.tla:         *)
(*   - DocCount = number of live ids = number of match_all hits (each once), *)
(*   - every live id carries exactly the stored fields of ONE version that   *)
(*     some writer wrote for it (fieldsOf = the version its fields spell,    *)
(*     0 if they are a mixture of versions),                                 *)
(*   - an id whose last operation of EVERY writer was a delete is absent.    *)
(* Record: {count, matchall: [ids], live: [[id, fieldsOf]], written:         *)
(*          [[id, ver]], lastdel: [ids]}                                     *)
EXTENDS Naturals, Sequences, FiniteSets, TLC, IOUtils, Json
Trace == ndJsonDeserialize(IOEnv.VERIF_TRACE)
VARIABLE l
Init == l = 1
Next == l <= Len(Trace) /\ l' = l + 1
Spec == Init /\ [][Next]_l
E == Trace[l]
SetOf(s) == { s[i] : i \in DOMAIN s }
LiveIds == { p[1] : p \in SetOf(E.live) }
CountIsLiveIds   == l <= Len(Trace) => (E.count = Cardinality(LiveIds) /\ Len(E.live) = E.count)
MatchAllIsLiveIds == l <= Len(Trace) => (SetOf(E.matchall) = LiveIds /\ Len(E.matchall) = E.count)
FieldsOfOneWrittenVersion == l <= Len(Trace) => \A p \in SetOf(E.live) : <<p[1], p[2]>> \in SetOf(E.written)
DeletedByAllIsAbsent == l <= Len(Trace) => SetOf(E.lastdel) \cap LiveIds = {}
=============================================================================
