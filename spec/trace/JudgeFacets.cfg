SPECIFICATION Spec
INVARIANTS FacetTotal FacetMissing FacetCounts FacetOrder FacetTopN FacetBalance FacetWhole
CHECK_DEADLOCK FALSE
