----------------------------- MODULE TraceFiles ------------------------------
(***************************************************************************)
(* Judge specification for C12: every Sample record is one consistent      *)
(* observation of a REAL scorch directory taken while writers, persister,  *)
(* merger, purger, readers and copies run (see sx.Run.Sample for why the   *)
(* observation is consistent), plus the observation at quiescence and the  *)
(* open file descriptors after Close.  The invariants are the file-level   *)
(* invariants of ScorchDisk.tla (BoltFilesOnDisk, RootFilesOnDisk,         *)
(* ReaderFilesOnDisk, CopyFilesOnDisk, NoOrphansWhenQuiescent) stated over *)
(* file NAMES as observed.                                                 *)
(***************************************************************************)
EXTENDS Naturals, Sequences, FiniteSets, TLC, IOUtils, Json

Trace == ndJsonDeserialize(IOEnv.VERIF_TRACE)
VARIABLES l,
          mergeOut   \* names of the files produced by file merges so far (MergeRequest events)
E == Trace[l]
Init == l = 1 /\ mergeOut = {}
Next == /\ l <= Len(Trace) /\ l' = l + 1
        /\ mergeOut' = CASE E.ev = "Reset" -> {}
                          [] E.ev = "MergeRequest" -> mergeOut \cup { E.files[i] : i \in DOMAIN E.files }
                          [] OTHER -> mergeOut
Spec == Init /\ [][Next]_<<l, mergeOut>>

SetOf(seq) == { seq[i] : i \in DOMAIN seq }
IsSample == l <= Len(Trace) /\ E.ev = "Sample"
Disk == SetOf(E.disk)
Named == UNION { SetOf(E.bolt[i].files) : i \in DOMAIN E.bolt }

\* a file produced by a merge that sits in the root is protected from the purger
\* at every moment: either a bolt snapshot names it or it is marked ineligible
\* for removal (mark before write; un-mark only after the commit that names it)
\* - whether or not a purge round happens to run right now
MergedRootFilesProtected == (IsSample /\ E.rootStable) =>
   \A f \in SetOf(E.root) \cap mergeOut : f \in SetOf(E.namedAny) \/ f \in SetOf(E.inelAny)

\* the purger's step itself: a file it removes is, at that very moment (inside its
\* root-lock section), neither used by the root, nor named by a recorded snapshot,
\* nor marked ineligible, nor scheduled for a running copy
IsPurge == l <= Len(Trace) /\ E.ev = "PurgeZap"
PurgeRemovesOnlyUnneeded == IsPurge =>
   /\ E.file \notin SetOf(E.rootfiles) /\ E.file \notin SetOf(E.named)
   /\ E.file \notin SetOf(E.inel) /\ E.file \notin SetOf(E.copysched)

\* every file a snapshot recorded in the metadata store names exists
BoltFilesOnDisk == IsSample => \A i \in DOMAIN E.bolt : SetOf(E.bolt[i].files) \subseteq Disk
\* every file segment of the current root exists
RootFilesOnDisk == (IsSample /\ E.rootStable) => SetOf(E.root) \subseteq Disk
\* every file of a snapshot an open reader holds exists
ReaderFilesOnDisk == IsSample => \A i \in DOMAIN E.readers : SetOf(E.readers[i]) \subseteq Disk
\* every already-persisted file of a snapshot being copied exists until the copy ends
CopyFilesOnDisk == IsSample => SetOf(E.copyheld) \subseteq Disk

\* once writing stopped and background work settled: only files of retained
\* snapshots remain, nothing is still marked ineligible, and the number of
\* retained snapshots honours numSnapshotsToKeep
IsQuiet == IsSample /\ E.tag = "quiescent"
NoOrphansWhenQuiescent == IsQuiet => Disk \subseteq Named
NothingIneligibleWhenQuiescent == IsQuiet => Len(E.inel) = 0
RetentionWhenQuiescent == IsQuiet => Len(E.bolt) <= E.keep
\* the newest snapshot in the store is the current root's content (nothing newer was lost)
NewestIsRoot == IsQuiet => (Len(E.bolt) > 0 /\ \E i \in DOMAIN E.bolt : E.bolt[i].epoch = E.rootEpoch)

\* after Close no file of the index remains open
IsClosed == l <= Len(Trace) /\ E.ev = "Closed"
NoOpenFilesAfterClose == IsClosed => Len(E.fds) = 0
=============================================================================
