--------------------------- MODULE JudgeHighlight ---------------------------
(***************************************************************************)
(* Engine B for C19: fragments produced by REAL searches with highlighting *)
(* are judged against the Highlight monitor.  One record per fragment:     *)
(* {fmt, value: [bytes], frag: [bytes], locs: [[start,end],...]} where     *)
(* locs are the hit's term locations of the field.                         *)
(***************************************************************************)
EXTENDS Highlight, Json, IOUtils
Trace == ndJsonDeserialize(IOEnv.VERIF_TRACE)
VARIABLE l
JInit == l = 1 /\ value = <<>> /\ fs = 0 /\ fe = 0 /\ locs = <<>> /\ fmt = "html"
JNext == l <= Len(Trace) /\ l' = l + 1 /\ UNCHANGED hvars
JSpec == JInit /\ [][JNext]_<<l, value, fs, fe, locs, fmt>>

Cur == Trace[l]
MarkupWellFormed == l <= Len(Trace) => WellMarked(Cur.fmt, Cur.frag)
FragmentIsSlice  == l <= Len(Trace) => (WellMarked(Cur.fmt, Cur.frag) => IsSlice(Cur.fmt, Cur.value, Cur.frag))
SpansAtLocations == l <= Len(Trace) => (WellMarked(Cur.fmt, Cur.frag) /\ IsSlice(Cur.fmt, Cur.value, Cur.frag)
                                          => SpansAreLocations(Cur.fmt, Cur.value, Cur.frag, Cur.locs))
=============================================================================
