--------------------------- MODULE JudgeHighlight ---------------------------
(***************************************************************************)
(* Engine B for C19: fragments produced by REAL searches with highlighting *)
(* are judged against the Highlight monitor.  One record per fragment:     *)
(* {fmt, frag: [bytes], values: [[bytes],...], alocs: [[[start,end],...],...]}*)
(* values / alocs: per array element of the field (one for a plain field)  *)
(* the stored value and the hit's term locations inside it.                *)
(***************************************************************************)
EXTENDS Highlight, Json, IOUtils
Trace == ndJsonDeserialize(IOEnv.VERIF_TRACE)
VARIABLE l
JInit == l = 1 /\ value = <<>> /\ fs = 0 /\ fe = 0 /\ locs = <<>> /\ fmt = "html"
JNext == l <= Len(Trace) /\ l' = l + 1 /\ UNCHANGED hvars
JSpec == JInit /\ [][JNext]_<<l, value, fs, fe, locs, fmt>>

Cur == Trace[l]
\* a field may hold an array of values: values[e] is the stored value of element e,
\* alocs[e] the hit's term locations inside that element (a plain field has one
\* element).  A fragment is a piece of ONE element, marked at THAT element's locations.
Elems == DOMAIN Cur.values
MarkupWellFormed == l <= Len(Trace) => WellMarked(Cur.fmt, Cur.frag)
FragmentIsSlice  == l <= Len(Trace) => (WellMarked(Cur.fmt, Cur.frag) => \E e \in Elems : IsSlice(Cur.fmt, Cur.values[e], Cur.frag))
SpansAtLocations == l <= Len(Trace) => (WellMarked(Cur.fmt, Cur.frag) /\ (\E e \in Elems : IsSlice(Cur.fmt, Cur.values[e], Cur.frag))
                                          => \E e \in Elems : /\ IsSlice(Cur.fmt, Cur.values[e], Cur.frag)
                                                               /\ SpansAreLocations(Cur.fmt, Cur.values[e], Cur.frag, Cur.alocs[e]))
=============================================================================
