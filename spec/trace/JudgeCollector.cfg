SPECIFICATION Spec
INVARIANTS RecWellFormed RecTotal RecMaxScore RecHits RecModel
CHECK_DEADLOCK FALSE
