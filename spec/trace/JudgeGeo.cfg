SPECIFICATION Spec
CHECK_DEADLOCK FALSE
INVARIANTS MortonInterleaved RoundTripWithinResolution CellPrefix
