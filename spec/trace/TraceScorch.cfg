SPECIFICATION Spec
INVARIANTS RootConforms SkipsConform ContentIsReplay UniqueLive
CHECK_DEADLOCK FALSE
