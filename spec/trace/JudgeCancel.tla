---------------------------- MODULE JudgeCancel ----------------------------
(* Real searches whose context was cancelled when the searcher had handed   *)
(* out `c` hits, judged against CancelSearch!RunOK: {n, k, c, pulled, outcome} *)
EXTENDS CancelSearch, Sequences, Json, IOUtils
Trace == ndJsonDeserialize(IOEnv.VERIF_TRACE)
VARIABLE l
JInit == l = 1 /\ Init
JNext == l <= Len(Trace) /\ l' = l + 1 /\ UNCHANGED vars
JSpec == JInit /\ [][JNext]_<<l, vars>>
E == Trace[l]
CancelledSearchEnds == l <= Len(Trace) => RunOK(E.n, E.k, E.c, E.pulled, E.outcome)
IndexStaysUsable    == l <= Len(Trace) => E.usable
=============================================================================
