SPECIFICATION Spec
CONSTANT ValidDates = {}
INVARIANT AcceptOK
INVARIANT ClausesOK
CHECK_DEADLOCK FALSE
