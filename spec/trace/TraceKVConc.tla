---------------------------- MODULE TraceKVConc ----------------------------
(***************************************************************************)
(* C15, concurrent clause: "batches are applied ATOMICALLY in order" and   *)
(* "a reader sees the contents as of its creation".                        *)
(*                                                                         *)
(* A recorded run of a REAL KV store in which one goroutine executes       *)
(* batches while others keep opening readers and scanning them.  Events    *)
(* are totally ordered by the recorder's own lock:                         *)
(*   BatchBegin(ops)  before ExecuteBatch is called                        *)
(*   BatchEnd         after it returned                                    *)
(*   ROpenBegin(r)    before KVStore.Reader() is called                    *)
(*   ROpenEnd(r)      after it returned                                    *)
(*   RScan(r, ret)    a full scan through reader r                         *)
(*   RClose(r)                                                             *)
(* The batch takes effect at ONE instant between BatchBegin and BatchEnd   *)
(* (KVStore!ExecuteBatchOf: kv' = Meaning(kv, ops)), the reader is created *)
(* at one instant between ROpenBegin and ROpenEnd.  cand[r] is the set of  *)
(* maps the reader may therefore legally show: the map at ROpenBegin plus  *)
(* the result of every batch in flight while it was being opened.  A scan  *)
(* that equals none of them saw a state the design never has (half a       *)
(* batch, or later writes); every further scan of the same reader must     *)
(* show the same map again.                                                *)
(***************************************************************************)
EXTENDS KVStore, Json, IOUtils

Trace == ndJsonDeserialize(IOEnv.VERIF_TRACE)

VARIABLES l, busy, nextkv, cand, opening, ok
tvars == <<kv, kvs, pending, readers, iters, act, l, busy, nextkv, cand, opening, ok>>

TInit == /\ Init /\ l = 1 /\ busy = FALSE /\ nextkv = EmptyMap
         /\ cand = [r \in Readers |-> {}] /\ opening = {} /\ ok = "ok"

Step(e) ==
  CASE e.name = "Reset" ->
         /\ kv' = EmptyMap /\ busy' = FALSE /\ nextkv' = EmptyMap
         /\ cand' = [r \in Readers |-> {}] /\ opening' = {} /\ ok' = "ok"
    [] e.name = "BatchBegin" ->
         /\ ~busy
         /\ nextkv' = Meaning(kv, e.ops) /\ busy' = TRUE
         /\ cand' = [r \in Readers |-> IF r \in opening THEN cand[r] \cup {nextkv'} ELSE cand[r]]
         /\ ok' = "ok" /\ UNCHANGED <<kv, opening>>
    [] e.name = "BatchEnd" ->
         /\ busy /\ kv' = nextkv /\ busy' = FALSE
         /\ ok' = "ok" /\ UNCHANGED <<nextkv, cand, opening>>
    [] e.name = "ROpenBegin" ->
         /\ e.r \notin opening
         /\ opening' = opening \cup {e.r}
         /\ cand' = [cand EXCEPT ![e.r] = {kv} \cup (IF busy THEN {nextkv} ELSE {})]
         /\ ok' = "ok" /\ UNCHANGED <<kv, busy, nextkv>>
    [] e.name = "ROpenEnd" ->
         /\ opening' = opening \ {e.r}
         /\ ok' = "ok" /\ UNCHANGED <<kv, busy, nextkv, cand>>
    [] e.name = "RScan" ->
         LET S == { m \in cand[e.r] : Scan(m) = e.ret } IN
         /\ ok' = IF S = {} THEN "ReaderAtomicView" ELSE "ok"
         /\ cand' = [cand EXCEPT ![e.r] = IF S = {} THEN cand[e.r] ELSE S]
         /\ UNCHANGED <<kv, busy, nextkv, opening>>
    [] e.name = "RClose" ->
         /\ cand' = [cand EXCEPT ![e.r] = {}]
         /\ ok' = "ok" /\ UNCHANGED <<kv, busy, nextkv, opening>>

TNext == /\ l <= Len(Trace) /\ l' = l + 1 /\ Step(Trace[l])
         /\ UNCHANGED <<kvs, pending, readers, iters, act>>
TSpec == TInit /\ [][TNext]_tvars

\* a reader shows the map of ONE instant of its creation window: whole batches only
ReaderAtomicView == ok # "ReaderAtomicView"
=============================================================================
