SPECIFICATION Spec
INVARIANTS ReaderFilesOnDisk
CHECK_DEADLOCK FALSE
