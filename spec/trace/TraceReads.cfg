SPECIFICATION Spec
INVARIANTS TermReadOneSnapshot ReadIsPrefix ReadSeesReturned ReadsMonotonic ReaderIsPrefix ReaderStable
CHECK_DEADLOCK FALSE
