SPECIFICATION Spec
INVARIANTS ReadIsPrefix ReadSeesReturned ReadsMonotonic ReaderIsPrefix ReaderStable
CHECK_DEADLOCK FALSE
