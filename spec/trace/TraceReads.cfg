SPECIFICATION Spec
INVARIANTS ReadsSucceed TermReadOneSnapshot ReadIsPrefix ReadSeesReturned ReadsMonotonic ReaderIsPrefix ReaderStable
CHECK_DEADLOCK FALSE
