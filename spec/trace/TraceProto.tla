---------------------------- MODULE TraceProto ----------------------------
(***************************************************************************)
(* Validates call/return/hook events recorded from the REAL bleve code     *)
(* (harness/internal/c11) against the observable contract of Proto         *)
(* (module ProtoObs, which TLC proves of the design model Proto.tla).      *)
(*                                                                         *)
(* One ndjson record per event, in the order of ONE atomic sequence        *)
(* counter that every goroutine increments when it records:                *)
(*   sc   scenario number (a "reset" record starts a scenario)             *)
(*   g    goroutine (worker) number                                        *)
(*   ev   "b" call begins | "e" call ended | "h" scorch VerifHook point    *)
(*        | "leak" resource census after Close | "reset"                   *)
(*   op   operation ("index", "search", "close", ...; ProtoObs!AllOps)     *)
(*   res  result class of an ended call (ProtoObs!Results)                 *)
(*   ctx  0 none, 1 context cancelled/expiring during the call,            *)
(*        2 context already cancelled/expired when the call began          *)
(*   ac   1: plain search issued right after a cancelled search            *)
(*   role of a hook: "client" (fired inside a client call that holds the   *)
(*        read lock: batch.send/applied/persisted, copy.open),             *)
(*        "loop" (introducer/persister/merger), "closebegin",              *)
(*        "closewaited"                                                    *)
(*   n    leak census: number of leaked goroutines / fds / mappings        *)
(*                                                                         *)
(* begin/end are recorded by the calling goroutine immediately before the  *)
(* call and immediately after it returned, so                              *)
(*    seq(begin) < every instant of the call < seq(end).                   *)
(***************************************************************************)
EXTENDS Naturals, Sequences, FiniteSets, TLC, IOUtils, Json

Obs == INSTANCE ProtoObs

Trace == ndJsonDeserialize(IOEnv.VERIF_TRACE)

VARIABLES
    l,        \* index of the next record
    phase,    \* 0 no Close begun, 1 a Close begun, 2 a Close returned
    wheld,    \* the closer is known to hold the write lock
    waited,   \* asyncTasks.Wait() has returned
    fdHeld,   \* goroutines known to hold the read lock through an open dictionary
    infl,     \* goroutine -> the call in flight
    chk       \* verdict on the record just consumed, one field per clause

vars == <<l, phase, wheld, waited, fdHeld, infl, chk>>

AllTrue == [nopanic |-> TRUE, afterclose |-> TRUE, closedonly |-> TRUE, cancelonly |-> TRUE,
            free |-> TRUE, dict |-> TRUE, firstclose |-> TRUE, precancel |-> TRUE, usable |-> TRUE,
            rdr |-> TRUE, quiet |-> TRUE, closewaits |-> TRUE, leak |-> TRUE, wf |-> TRUE]

Fresh == /\ phase = 0 /\ wheld = FALSE /\ waited = FALSE /\ fdHeld = {}
         /\ infl = <<>> /\ chk = AllTrue

Init == l = 1 /\ Fresh

Reset(e) == /\ phase' = 0 /\ wheld' = FALSE /\ waited' = FALSE /\ fdHeld' = {}
            /\ infl' = <<>> /\ chk' = AllTrue

BeginCall(e) ==
    /\ infl' = (e.g :> [op |-> e.op, pb |-> phase, ctx |-> e.ctx, ac |-> e.ac]) @@ infl
    /\ phase' = IF e.op = "close" /\ phase = 0 THEN 1 ELSE phase
    /\ fdHeld' = IF e.op = "fdclose" THEN fdHeld \ {e.g} ELSE fdHeld
    /\ chk' = [AllTrue EXCEPT
                 !.wf  = e.op \in Obs!AllOps,
                 !.rdr = Obs!ReaderExcludesWriter(e.g \in fdHeld, wheld)]
    /\ UNCHANGED <<wheld, waited>>

EndCall(e) ==
    LET known == e.g \in DOMAIN infl
        c  == IF known THEN infl[e.g] ELSE [op |-> "none", pb |-> 0, ctx |-> 0, ac |-> 0]
        closeOk == c.op = "close" /\ e.res = "ok"
        pe == IF closeOk THEN 2 ELSE phase
        fdOk == c.op = "fielddict" /\ e.res = "ok"
    IN
    /\ phase' = pe
    /\ wheld' = IF closeOk THEN FALSE ELSE wheld
    /\ fdHeld' = IF fdOk THEN fdHeld \cup {e.g} ELSE fdHeld
    /\ infl' = infl
    /\ chk' = [AllTrue EXCEPT
                 !.wf         = known /\ e.res \in Obs!Results,
                 !.nopanic    = Obs!NoPanicNoHang(e.res),
                 !.afterclose = Obs!AfterCloseClosed(c.op, c.pb, e.res),
                 !.closedonly = Obs!ClosedOnlyIfCloseBegan(c.op, pe, e.res),
                 !.cancelonly = Obs!CancelledOnlyWithCtx(c.op, e.res, c.ctx >= 1),
                 !.free       = Obs!FreeOpsNeverFail(c.op, e.res),
                 !.dict       = Obs!DictOpsSucceed(c.op, e.res),
                 !.firstclose = Obs!CloseResult(c.op, e.res) /\ Obs!CloseOkOnce(c.op, phase, e.res),
                 !.precancel  = Obs!PreCancelledFails(c.ctx = 2, e.res),
                 !.usable     = Obs!UsableAfterCancel(c.ac = 1, pe, e.res),
                 \* a dictionary obtained successfully is held with `open` true: the writer cannot be inside
                 !.rdr        = Obs!ReaderExcludesWriter(fdOk, wheld),
                 \* Close returns only when every reader has left
                 !.closewaits = (closeOk => fdHeld = {})]
    /\ UNCHANGED waited

Hook(e) ==
    /\ wheld'  = IF e.role = "closebegin"  THEN TRUE ELSE wheld
    /\ waited' = IF e.role = "closewaited" THEN TRUE ELSE waited
    /\ chk' = [AllTrue EXCEPT
                 !.rdr   = Obs!ReaderExcludesWriter(e.role = "client", wheld),
                 !.quiet = Obs!LoopQuietAfterWait(e.role = "loop", waited)]
    /\ UNCHANGED <<phase, fdHeld, infl>>

Leak(e) ==
    /\ chk' = [AllTrue EXCEPT !.leak = (e.n = 0)]
    /\ UNCHANGED <<phase, wheld, waited, fdHeld, infl>>

Next ==
    /\ l <= Len(Trace)
    /\ l' = l + 1
    /\ LET e == Trace[l] IN
         CASE e.ev = "reset" -> Reset(e)
           [] e.ev = "b"     -> BeginCall(e)
           [] e.ev = "e"     -> EndCall(e)
           [] e.ev = "h"     -> Hook(e)
           [] e.ev = "leak"  -> Leak(e)

Spec == Init /\ [][Next]_vars

\* one invariant per clause, so that a rejection names the clause
WellFormed              == chk.wf
NoPanicNoHang           == chk.nopanic
AfterCloseClosed        == chk.afterclose
ClosedOnlyIfCloseBegan  == chk.closedonly
CancelledOnlyWithCtx    == chk.cancelonly
StatsNeverFail          == chk.free
DictOpsSucceed          == chk.dict
CloseOkOrClosedOnce     == chk.firstclose
PreCancelledFails       == chk.precancel
UsableAfterCancel       == chk.usable
ReaderExcludesWriter    == chk.rdr
LoopQuietAfterWait      == chk.quiet
CloseWaitsForReaders    == chk.closewaits
NoLeakAfterClose        == chk.leak
=============================================================================
