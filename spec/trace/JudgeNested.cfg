SPECIFICATION Spec
INVARIANT ClassAgrees
INVARIANT HitsAreParents
INVARIANT HitsOnce
INVARIANT TotalCountsParents
INVARIANT DocCountCountsParents
INVARIANT HitsEqualMeaning_core
INVARIANT HitsEqualMeaning_boolx
INVARIANT HitsEqualMeaning_disjx
CHECK_DEADLOCK FALSE
