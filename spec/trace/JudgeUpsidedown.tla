--------------------------- MODULE JudgeUpsidedown ---------------------------
(***************************************************************************)
(* Judge for the row level of a REAL upsidedown index: after every action   *)
(* of a replayed history the harness dumps all KV rows (IndexReader.DumpAll)*)
(* and TLC checks the row invariants of Upsidedown.tla on them, plus that   *)
(* the rows describe exactly the documents Index.tla's state says are live. *)
(*   tf    [[field, term, doc]]        dict [[field, term, count]]          *)
(*   back  [[doc, [[field, term], ..]]] count = DocCount()                  *)
(*   live  [[doc, vterm]]  expected live documents with the term their      *)
(*                         version field must carry; vfield = its field id  *)
(***************************************************************************)
EXTENDS Naturals, Sequences, FiniteSets, TLC, IOUtils, Json
Trace == ndJsonDeserialize(IOEnv.VERIF_TRACE)
VARIABLE l
Init == l = 1
Next == l <= Len(Trace) /\ l' = l + 1
Spec == Init /\ [][Next]_l
E == Trace[l]
On == l <= Len(Trace)
TF == { <<E.tf[i][1], E.tf[i][2], E.tf[i][3]>> : i \in DOMAIN E.tf }
DictRows == { <<E.dict[i][1], E.dict[i][2], E.dict[i][3]>> : i \in DOMAIN E.dict }
BackDocs == { E.back[i][1] : i \in DOMAIN E.back }
BackTerms(i) == { <<E.back[i][2][j][1], E.back[i][2][j][2]>> : j \in DOMAIN E.back[i][2] }
Live == { <<E.live[i][1], E.live[i][2]>> : i \in DOMAIN E.live }

\* Dict(f,t) = number of documents with a TF row for (f,t); a (f,t) with TF rows must have a dictionary row
DictMatchesTF == On =>
   /\ \A r \in DictRows : r[3] = Cardinality({ x \in TF : x[1] = r[1] /\ x[2] = r[2] })
   /\ \A x \in TF : \E r \in DictRows : r[1] = x[1] /\ r[2] = x[2]
\* Back(d) lists exactly d's TF rows
BackMatchesTF == On =>
   /\ \A i \in DOMAIN E.back : BackTerms(i) = { <<x[1], x[2]>> : x \in { y \in TF : y[3] = E.back[i][1] } }
   /\ \A x \in TF : x[3] \in BackDocs
CountMatchesBack == On => E.count = Cardinality(BackDocs)
\* the rows describe exactly the live documents of the abstract state ...
LiveDocsAreBackRows == On => BackDocs = { p[1] : p \in Live }
\* ... each with the terms of its LATEST version only (no stale row of an older version)
VersionTermsCurrent == On => \A p \in Live :
   { x[2] : x \in { y \in TF : y[3] = p[1] /\ y[1] = E.vfield } } = {p[2]}
=============================================================================
