SPECIFICATION Spec
INVARIANT IndexedOK
INVARIANT FieldsOK
INVARIANT AllFieldOK
INVARIANT NestedOK
CHECK_DEADLOCK FALSE
