SPECIFICATION Spec
INVARIANT RecordOK
CHECK_DEADLOCK FALSE
