---------------------------- MODULE JudgeNested ----------------------------
(***************************************************************************)
(* C20, Engine B: TLC judges records of searches on REAL scorch indexes.   *)
(* One record per line of the ndjson file:                                 *)
(*   [kind  |-> <<arrays mapped nested>>,                                   *)
(*    docs  |-> << [id |-> n, doc |-> tree], ... >>   the live parents      *)
(*    q     |-> query tree,  cls |-> the harness's idea of the query class, *)
(*    hits  |-> << [id |-> parent id, sub |-> returned id is an element's] >>,*)
(*    total |-> SearchResult.Total,  docCount |-> Index.DocCount()]         *)
(* The expected answer is Nested!MeaningHits -- the declarative meaning on *)
(* the trees; nothing of the harness takes part in it.                     *)
(***************************************************************************)
EXTENDS Nested, IOUtils, Json

Trace == ndJsonDeserialize(IOEnv.VERIF_TRACE)

VARIABLE l
Init == l = 1
Next == l <= Len(Trace) /\ l' = l + 1
Spec == Init /\ [][Next]_l

KindSet(r) == Range(r.kind)
DocIds(r) == {r.docs[i].id : i \in DOMAIN r.docs}
DocFn(r) == [id \in DocIds(r) |-> r.docs[CHOOSE i \in DOMAIN r.docs : r.docs[i].id = id].doc]
HitSet(r) == {[rid |-> r.hits[i].id, sub |-> r.hits[i].sub] : i \in DOMAIN r.hits}
Expected(r) == MeaningHits(r.q, DocFn(r), KindSet(r))
Class(r) == QClass(r.q, KindSet(r))

\* the snapshot a single segment holding the live parents in id order would be
RECURSIVE SnapOf(_, _, _, _)
SnapOf(r, ids, K, acc) ==
  IF ids = {} THEN acc
  ELSE LET id == MinOf(ids) IN
       SnapOf(r, ids \ {id}, K, acc \o FlattenDoc(DocFn(r)[id], K, id, Len(acc)))
AsCoded(r) == AlgHits(r.q, SnapOf(r, DocIds(r), KindSet(r), <<>>), KindSet(r))

\* the first line of the file is a header (so that no record is judged in the
\* initial state, for which TLC prints no numbered counterexample)
Judge(P(_)) == (1 < l /\ l <= Len(Trace)) => P(Trace[l])

(* property clauses, one invariant each *)
HitsAreParents == Judge(LAMBDA r : \A i \in DOMAIN r.hits : ~r.hits[i].sub)
HitsOnce == Judge(LAMBDA r : \A i, j \in DOMAIN r.hits :
                     (i < j /\ ~r.hits[i].sub /\ ~r.hits[j].sub) => r.hits[i].id # r.hits[j].id)
TotalCountsParents == Judge(LAMBDA r : r.total = Len(r.hits))
DocCountCountsParents == Judge(LAMBDA r : r.docCount = Len(r.docs))
HitsEqualMeaning_core == Judge(LAMBDA r : Class(r) = "core" => HitSet(r) = Expected(r))
HitsEqualMeaning_boolx == Judge(LAMBDA r : Class(r) = "boolx" => HitSet(r) = Expected(r))
HitsEqualMeaning_disjx == Judge(LAMBDA r : Class(r) = "disjx" => HitSet(r) = Expected(r))

(* machinery guards *)
ClassAgrees == Judge(LAMBDA r : r.cls = Class(r))

(* labelling: does the as-coded model of Nested.tla explain the observation? *)
HitsEqualAsCoded == Judge(LAMBDA r : HitSet(r) = AsCoded(r))
=============================================================================
