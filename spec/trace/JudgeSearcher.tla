---------------------------- MODULE JudgeSearcher ----------------------------
(***************************************************************************)
(* Engine B judge for property C08: every record is one program of         *)
(* Next / Advance calls executed against a REAL searcher obtained from     *)
(* query.Query.Searcher over a reader of a real index,                     *)
(*                                                                         *)
(*   [ corpus |-> <<doc, ...>>  the live documents IN INTERNAL-ID ORDER;   *)
(*                              doc.id = the document's RANK (0, 1, ...)   *)
(*                              among the live internal ids, so every id   *)
(*                              below is a rank: order-isomorphic to the   *)
(*                              real internal ids, independent of how doc  *)
(*                              numbers were assigned                      *)
(*     q      |-> query tree    (module Query)                             *)
(*     enum   |-> <<rank, ...>> Next-only enumeration of a fresh searcher  *)
(*     leaves |-> << [q |-> leaf query, post |-> <<rank, ...>>], ... >>    *)
(*                              per-leaf postings read back from the index *)
(*     prog   |-> << [op |-> "next" | "adv", t |-> target rank (= number   *)
(*                    of live ids below the real target; -1 for next),     *)
(*                    r |-> returned rank, -1 = nothing], ... >> ]         *)
(*                                                                         *)
(* The contract is the declarative one of Searchers.tla (ResultOK there):  *)
(* a cursor lo; Next returns the first match >= lo, Advance(t) the first   *)
(* match >= max(lo, t); the cursor moves behind the returned match.  The   *)
(* matches are the searcher's own Next-only enumeration, which must in     *)
(* turn be Query!Hits.                                                     *)
(***************************************************************************)
EXTENDS Naturals, Integers, Sequences, FiniteSets, TLC, IOUtils, Json

Q == INSTANCE Query

Trace == ndJsonDeserialize(IOEnv.VERIF_TRACE)

VARIABLE l
Init == l = 1
Next == l <= Len(Trace) /\ l' = l + 1
Spec == Init /\ [][Next]_l

Nil == -1
Big == 1000000
SetOf(s) == { s[i] : i \in DOMAIN s }
Max2(a, b) == IF a >= b THEN a ELSE b
FirstFrom(H, lo) == IF { h \in H : h >= lo } = {} THEN Nil
                    ELSE CHOOSE x \in { h \in H : h >= lo } : \A y \in { h \in H : h >= lo } : x <= y

StrictlyAscending(s) == \A i \in DOMAIN s : \A j \in DOMAIN s : i < j => s[i] < s[j]

M(rec) == SetOf(rec.enum)

\* the contract's cursor before call i, and what call i must return
RECURSIVE Cursor(_, _)
Bound(rec, i)  == IF rec.prog[i].op = "adv" THEN Max2(Cursor(rec, i), rec.prog[i].t) ELSE Cursor(rec, i)
Demand(rec, i) == FirstFrom(M(rec), Bound(rec, i))
Cursor(rec, i) == IF i = 1 THEN 0
                  ELSE IF Demand(rec, i - 1) >= 0 THEN Demand(rec, i - 1) + 1 ELSE Big

\* --- harness sanity: only forward, non-repeated targets were generated
ForwardRec(rec) ==
    \A i \in DOMAIN rec.prog :
        rec.prog[i].op = "adv" =>
            \A j \in 1..(i - 1) : rec.prog[i].t > rec.prog[j].r /\ rec.prog[i].t > rec.prog[j].t

\* --- the property, clause by clause
EnumAscendingRec(rec) == StrictlyAscending(rec.enum)
AscendingRec(rec) ==
    \A i \in DOMAIN rec.prog : \A j \in DOMAIN rec.prog :
        (i < j /\ rec.prog[i].r >= 0 /\ rec.prog[j].r >= 0) => rec.prog[i].r < rec.prog[j].r
OnlyMatchesRec(rec) == \A i \in DOMAIN rec.prog : rec.prog[i].r >= 0 => rec.prog[i].r \in M(rec)
AdvanceLandsRec(rec) ==
    \A i \in DOMAIN rec.prog : rec.prog[i].op = "adv" => rec.prog[i].r = Demand(rec, i)
NextIsNextRec(rec) ==
    \A i \in DOMAIN rec.prog : rec.prog[i].op = "next" => rec.prog[i].r = Demand(rec, i)
\* the enumeration is the declarative answer, and so is every leaf's posting list
EnumIsHitsRec(rec) == M(rec) = Q!Hits(rec.q, rec.corpus)
LeavesRec(rec) == \A i \in DOMAIN rec.leaves : SetOf(rec.leaves[i].post) = Q!Hits(rec.leaves[i].q, rec.corpus)

Forward       == l <= Len(Trace) => ForwardRec(Trace[l])
EnumAscending == l <= Len(Trace) => EnumAscendingRec(Trace[l])
Ascending     == l <= Len(Trace) => AscendingRec(Trace[l])
OnlyMatches   == l <= Len(Trace) => OnlyMatchesRec(Trace[l])
AdvanceLands  == l <= Len(Trace) => AdvanceLandsRec(Trace[l])
NextIsNext    == l <= Len(Trace) => NextIsNextRec(Trace[l])
EnumIsHits    == l <= Len(Trace) => EnumIsHitsRec(Trace[l])
LeafPostings  == l <= Len(Trace) => LeavesRec(Trace[l])
=============================================================================
