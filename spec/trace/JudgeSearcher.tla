---------------------------- MODULE JudgeSearcher ----------------------------
(***************************************************************************)
(* Engine B judge for property C08: every record is one program of         *)
(* Next / Advance calls executed against a REAL searcher obtained from     *)
(* query.Query.Searcher over a reader of a real index,                     *)
(*                                                                         *)
(*   [ corpus |-> <<doc, ...>>  the live documents IN INTERNAL-ID ORDER;   *)
(*                              doc.id = the document's RANK (0, 1, ...)   *)
(*                              among the live internal ids, so every id   *)
(*                              below is a rank: order-isomorphic to the   *)
(*                              real internal ids, independent of how doc  *)
(*                              numbers were assigned                      *)
(*     q      |-> query tree    (module Query)                             *)
(*     enum   |-> <<rank, ...>> Next-only enumeration of a fresh searcher  *)
(*     leaves |-> << [q |-> leaf query, post |-> <<rank, ...>>], ... >>    *)
(*                              per-leaf postings read back from the index *)
(*     progs  |-> << program, ... >>, each run on a fresh searcher:        *)
(*                 << [op |-> "next" | "adv", t |-> target rank (= number  *)
(*                    of live ids below the real target; -1 for next),     *)
(*                    r |-> returned rank, -1 = nothing], ... >> ]         *)
(*                                                                         *)
(* The contract is the declarative one of Searchers.tla (ResultOK there):  *)
(* a cursor lo; Next returns the first match >= lo, Advance(t) the first   *)
(* match >= max(lo, t); the cursor moves behind the returned match.  The   *)
(* matches are the searcher's own Next-only enumeration, which must in     *)
(* turn be Query!Hits.                                                     *)
(***************************************************************************)
EXTENDS Naturals, Integers, Sequences, FiniteSets, TLC, IOUtils, Json

Q == INSTANCE Query

Trace == ndJsonDeserialize(IOEnv.VERIF_TRACE)

VARIABLE l
Init == l = 1
Next == l <= Len(Trace) /\ l' = l + 1
Spec == Init /\ [][Next]_l

Nil == -1
Big == 1000000
SetOf(s) == { s[i] : i \in DOMAIN s }
Max2(a, b) == IF a >= b THEN a ELSE b
FirstFrom(H, lo) == IF { h \in H : h >= lo } = {} THEN Nil
                    ELSE CHOOSE x \in { h \in H : h >= lo } : \A y \in { h \in H : h >= lo } : x <= y

StrictlyAscending(s) == \A i \in DOMAIN s : \A j \in DOMAIN s : i < j => s[i] < s[j]

M(rec) == SetOf(rec.enum)

\* the contract's cursor before call i of program p, and what call i must return
RECURSIVE Cursor(_, _, _)
Bound(rec, p, i)  == IF p[i].op = "adv" THEN Max2(Cursor(rec, p, i), p[i].t) ELSE Cursor(rec, p, i)
Demand(rec, p, i) == FirstFrom(M(rec), Bound(rec, p, i))
Cursor(rec, p, i) == IF i = 1 THEN 0
                     ELSE IF Demand(rec, p, i - 1) >= 0 THEN Demand(rec, p, i - 1) + 1 ELSE Big

Progs(rec) == { rec.progs[k] : k \in DOMAIN rec.progs }

\* --- harness sanity: only forward, non-repeated targets were generated
ForwardRec(rec) ==
    \A p \in Progs(rec) : \A i \in DOMAIN p :
        p[i].op = "adv" => \A j \in 1..(i - 1) : p[i].t > p[j].r /\ p[i].t >= p[j].t

\* --- the property, clause by clause
EnumAscendingRec(rec) == StrictlyAscending(rec.enum)
AscendingRec(rec) ==
    \A p \in Progs(rec) : \A i \in DOMAIN p : \A j \in DOMAIN p :
        (i < j /\ p[i].r >= 0 /\ p[j].r >= 0) => p[i].r < p[j].r
OnlyMatchesRec(rec) == \A p \in Progs(rec) : \A i \in DOMAIN p : p[i].r >= 0 => p[i].r \in M(rec)
AdvanceLandsRec(rec) ==
    \A p \in Progs(rec) : \A i \in DOMAIN p : p[i].op = "adv" => p[i].r = Demand(rec, p, i)
NextIsNextRec(rec) ==
    \A p \in Progs(rec) : \A i \in DOMAIN p : p[i].op = "next" => p[i].r = Demand(rec, p, i)
\* the enumeration is the declarative answer, and so is every leaf's posting list
EnumIsHitsRec(rec) == M(rec) = Q!Hits(rec.q, rec.corpus)
LeavesRec(rec) == \A i \in DOMAIN rec.leaves : SetOf(rec.leaves[i].post) = Q!Hits(rec.leaves[i].q, rec.corpus)

\* classification only (JudgeSearcher_q2.cfg): programs whose FIRST call is an
\* Advance on a tree containing a boolean with must and should(min >= 1) are
\* prone to the deviation modelled in Searchers.tla (configuration c08_q2): the
\* first result may skip matches.  Everything after the first call, and every
\* other clause, is still demanded.
RECURSIVE CursorT(_, _, _)
BoundT(rec, p, i)  == IF p[i].op = "adv" THEN Max2(CursorT(rec, p, i), p[i].t) ELSE CursorT(rec, p, i)
DemandT(rec, p, i) == IF i = 1 THEN p[1].r ELSE FirstFrom(M(rec), BoundT(rec, p, i))
CursorT(rec, p, i) == IF i = 1 THEN 0
                      ELSE IF DemandT(rec, p, i - 1) >= 0 THEN DemandT(rec, p, i - 1) + 1 ELSE Big
TailContractRec(rec) ==
    \A p \in Progs(rec) :
        /\ \A i \in DOMAIN p : p[i].r = DemandT(rec, p, i)
        /\ (p[1].r >= 0 => p[1].r >= p[1].t)

Forward       == l <= Len(Trace) => ForwardRec(Trace[l])
EnumAscending == l <= Len(Trace) => EnumAscendingRec(Trace[l])
Ascending     == l <= Len(Trace) => AscendingRec(Trace[l])
OnlyMatches   == l <= Len(Trace) => OnlyMatchesRec(Trace[l])
AdvanceLands  == l <= Len(Trace) => AdvanceLandsRec(Trace[l])
NextIsNext    == l <= Len(Trace) => NextIsNextRec(Trace[l])
EnumIsHits    == l <= Len(Trace) => EnumIsHitsRec(Trace[l])
LeafPostings  == l <= Len(Trace) => LeavesRec(Trace[l])
TailContract  == l <= Len(Trace) => TailContractRec(Trace[l])
=============================================================================
