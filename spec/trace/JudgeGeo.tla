------------------------------ MODULE JudgeGeo ------------------------------
(***************************************************************************)
(* Judge for the encoding clause of property C18: records produced by the  *)
(* real geo.MortonHash / numeric.Deinterleave / geo.MortonUnhashLon|Lat.    *)
(*                                                                         *)
(*  kind = "morton"  hash  = 64 bits of geo.MortonHash(lon, lat)            *)
(*                   lonq  = 32 bits of numeric.Deinterleave(hash)          *)
(*                   latq  = 32 bits of numeric.Deinterleave(hash >> 1)     *)
(*                   elon, elat = lon - MortonUnhashLon(hash) and the same  *)
(*                   for lat, in nano-degrees (rounded)                     *)
(*                   nb, cx, cy: the point is the centre of cell (cx, cy)   *)
(*                   of the 2^nb x 2^nb grid (nb = 0: arbitrary point)      *)
(* Bits are most significant first.                                        *)
(***************************************************************************)
EXTENDS Naturals, Integers, Sequences, GeoBits, TLC, IOUtils, Json

Trace == ndJsonDeserialize(IOEnv.VERIF_TRACE)
VARIABLE l
Init == l = 1
Next == l <= Len(Trace) /\ l' = l + 1
Spec == Init /\ [][Next]_l

Is(kind) == l <= Len(Trace) /\ Trace[l].kind = kind
R == Trace[l]

(* resolution of the encoding: one lattice unit, 360/(2^32-1) and          *)
(* 180/(2^32-1) degrees, rounded up to whole nano-degrees; scaleLon/Lat    *)
(* truncate, so the decoded point is never beyond the original             *)
ResLon == 84
ResLat == 42

(* the code is the bit interleaving of the two lattice coordinates         *)
MortonInterleaved ==
  Is("morton") => /\ Len(R.hash) = 64 /\ Len(R.lonq) = 32 /\ Len(R.latq) = 32
                  /\ R.hash = InterleaveBits(R.lonq, R.latq)
                  /\ EvenBits(R.hash) = R.lonq /\ OddBits(R.hash) = R.latq
(* decode(encode(p)) is within one lattice unit of p (1 nano-degree slack  *)
(* for the rounding of the recorded difference)                            *)
RoundTripWithinResolution ==
  Is("morton") => /\ R.elon >= -1 /\ R.elon <= ResLon + 1
                  /\ R.elat >= -1 /\ R.elat <= ResLat + 1
(* the centre of a cell of the 2^nb grid is encoded inside that cell: the  *)
(* top nb bits of each coordinate are the cell index (cells nest as code   *)
(* prefixes, which is what the term cover relies on)                       *)
CellPrefix ==
  Is("morton") /\ R.nb > 0 => /\ ValOf(R.lonq, R.nb) = R.cx
                              /\ ValOf(R.latq, R.nb) = R.cy
=============================================================================
