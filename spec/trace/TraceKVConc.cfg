SPECIFICATION TSpec
CONSTANTS
  Bytes = {0, 97, 255}
  Keys <- KeysAll3
  Probes <- KeysAll3
  PrefixSet <- KeysAll3
  RangeSet <- NoRanges
  Vals <- ValsWide
  MergeKeys <- KeysAll3
  Operands <- OperandsWide
  MaxCount = 120
  Readers = {1, 2, 3}
  Iters = {1, 2, 3}
  MaxBatch = 8
  AtomicBatch = TRUE
  RepeatKeys = FALSE
  ReadActions = TRUE
  MultiGetLen = 3
INVARIANTS ReaderAtomicView
CHECK_DEADLOCK FALSE
