--------------------------- MODULE JudgeMapping ---------------------------
(***************************************************************************)
(* C16, engine B.  Every record is                                         *)
(*   [m |-> abstract mapping, d |-> document, out |-> what the REAL         *)
(*    round-tripped mapping.IndexMappingImpl produced for d]                *)
(* recorded by harness/internal/c16 for seeded random mappings that are    *)
(* bigger than the exhaustive case space.  TLC judges the real field list  *)
(* against Mapping!MapDocument.  Fields are compared as bags (Go map        *)
(* iteration order is not part of the property).                           *)
(***************************************************************************)
EXTENDS Mapping, IOUtils, Json

Trace == ndJsonDeserialize(IOEnv.VERIF_TRACE)

VARIABLES l,       \* 1-based index of the record being judged
          exp      \* Mapping!MapDocument of that record

Range(s) == {s[i] : i \in 1..Len(s)}
Norm(m)  == [m EXCEPT !.customAnalyzers = Range(@), !.customDateParsers = Range(@)]
Expected(i) == IF i <= Len(Trace) THEN MapDocument(Norm(Trace[i].m), Trace[i].d)
               ELSE NotIndexed

Init == l = 1 /\ exp = Expected(1)
Next == l <= Len(Trace) /\ l' = l + 1 /\ exp' = Expected(l + 1)
Spec == Init /\ [][Next]_<<l, exp>>

Count(s, x) == Cardinality({i \in 1..Len(s) : s[i] = x})
BagEq(s, t) == Len(s) = Len(t) /\ \A i \in 1..Len(s) : Count(s, s[i]) = Count(t, s[i])

RECURSIVE NestedEq(_, _)
NestedEq(a, b) ==
  /\ Len(a) = Len(b)
  /\ \A i \in 1..Len(a) : \E j \in 1..Len(b) :
        /\ a[i].path = b[j].path /\ a[i].i = b[j].i
        /\ BagEq(a[i].fields, b[j].fields)
        /\ NestedEq(a[i].nested, b[j].nested)

Real == Trace[l].out

IndexedOK == l <= Len(Trace) => Real.indexed = exp.indexed
FieldsOK  == l <= Len(Trace) => BagEq(exp.fields, Real.fields)
AllFieldOK == l <= Len(Trace) =>
                /\ Real.hasAll = exp.hasAll
                /\ exp.hasAll => Range(Real.excl) = exp.excl
NestedOK  == l <= Len(Trace) => NestedEq(exp.nested, Real.nested)
=============================================================================
