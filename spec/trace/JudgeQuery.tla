----------------------------- MODULE JudgeQuery -----------------------------
(***************************************************************************)
(* Engine B judge for property C02: every record is one search case        *)
(* executed by the REAL engines,                                           *)
(*                                                                         *)
(*   [ corpus |-> <<doc, ...>>    the live documents (analysed tokens per  *)
(*                                field, see module Query), ids distinct   *)
(*     q      |-> query tree      (module Query)                           *)
(*     runs   |-> << [eng, score, loc, expl, hits |-> <<id,...>>,          *)
(*                    total |-> Int], ... >> ]                             *)
(*                                one entry per engine x request variant   *)
(*                                                                         *)
(* and TLC evaluates the declarative meaning Query!Hits(q, corpus) and      *)
(* compares.  One named invariant per clause of the property.              *)
(***************************************************************************)
EXTENDS Naturals, Integers, Sequences, FiniteSets, TLC, IOUtils, Json

Q == INSTANCE Query

Trace == ndJsonDeserialize(IOEnv.VERIF_TRACE)

VARIABLE l
Init == l = 1
Next == l <= Len(Trace) /\ l' = l + 1
Spec == Init /\ [][Next]_l

SetOf(s) == { s[i] : i \in DOMAIN s }

Expected(rec) == Q!Hits(rec.q, rec.corpus)
\* the observed deviations an engine / request variant is known to be prone to
\* (see module Query, "mode"); classification only
ModeOf(run) ==
    IF run.eng \in {"scorch", "scorch-merged"}
    THEN [transp |-> TRUE, k1 |-> (run.score = "none" /\ run.loc = 0), k1f |-> TRUE, lmf |-> FALSE]
    ELSE [transp |-> FALSE, k1 |-> FALSE, k1f |-> FALSE, lmf |-> TRUE]

\* "No matching live document is missed"
NoneMissedRec(rec) == \A i \in DOMAIN rec.runs : Expected(rec) \subseteq SetOf(rec.runs[i].hits)
\* "no non-matching or deleted document is returned"
NoExtraRec(rec)    == \A i \in DOMAIN rec.runs : SetOf(rec.runs[i].hits) \subseteq Expected(rec)
\* "none is returned twice"
NoDuplicateRec(rec) == \A i \in DOMAIN rec.runs :
                          Cardinality(SetOf(rec.runs[i].hits)) = Len(rec.runs[i].hits)
\* "the hit set and Total equal the set obtained by evaluating the documented meaning"
TotalOKRec(rec)    == \A i \in DOMAIN rec.runs : rec.runs[i].total = Cardinality(Expected(rec))
\* "the answer is the same whether or not scoring, term locations or explanations are
\* requested" (and on both engines)
VariantsAgreeRec(rec) ==
    \A i \in DOMAIN rec.runs : \A j \in DOMAIN rec.runs :
        /\ SetOf(rec.runs[i].hits) = SetOf(rec.runs[j].hits)
        /\ rec.runs[i].total = rec.runs[j].total

NoneMissed    == l <= Len(Trace) => NoneMissedRec(Trace[l])
NoExtra       == l <= Len(Trace) => NoExtraRec(Trace[l])
NoDuplicate   == l <= Len(Trace) => NoDuplicateRec(Trace[l])
TotalOK       == l <= Len(Trace) => TotalOKRec(Trace[l])
VariantsAgree == l <= Len(Trace) => VariantsAgreeRec(Trace[l])

\* classification only (JudgeQuery_tolerant.cfg), for the runs that are prone to
\* a deviation described in module Query: every such run either has the
\* documented answer, or exactly the answer the described deviation produces.
\* A record that violates the property (the invariants above) but satisfies
\* this is an instance of that deviation and is reported under its key; one
\* that violates this too is something else.
HitsExactEither ==
    l <= Len(Trace) =>
        \A i \in DOMAIN Trace[l].runs :
            /\ \/ SetOf(Trace[l].runs[i].hits) = Expected(Trace[l])
               \/ SetOf(Trace[l].runs[i].hits) = Q!HitsMode(Trace[l].q, Trace[l].corpus, ModeOf(Trace[l].runs[i]))
            /\ Trace[l].runs[i].total = Len(Trace[l].runs[i].hits)
            /\ Cardinality(SetOf(Trace[l].runs[i].hits)) = Len(Trace[l].runs[i].hits)
=============================================================================
