----------------------------- MODULE TraceLayout -----------------------------
(***************************************************************************)
(* Judge for C05: "for a fixed logical content every request returns the   *)
(* same answer whatever the physical segment layout".                      *)
(*                                                                         *)
(* The equivalence classes come from the model: every record carries the   *)
(* identifier h of a TLC-generated history of spec/Index.tla; all layouts  *)
(* of one history reach the same abstract state (Index!BatchingIndependent *)
(* for batch partitions; ScorchDisk!LayoutStutters for persist / merge /   *)
(* reopen steps), so all answers to one request must be equal.             *)
(*                                                                         *)
(* Record: [h, layout, req, ids, scores, total, extras, facets]            *)
(*   ids     hit ids in returned order (sorts are made total with _id)     *)
(*   scores  per hit, exact decimal rendering of the float64 score         *)
(*   extras  per hit, digest of sort keys, stored fields, locations,       *)
(*           fragments                                                     *)
(*   facets  digest of the facet results                                   *)
(***************************************************************************)
EXTENDS Naturals, Sequences, FiniteSets, TLC, IOUtils, Json

Trace == ndJsonDeserialize(IOEnv.VERIF_TRACE)
VARIABLES l, first     \* first: set of the first record seen per (h, req)
vars == <<l, first>>
Init == l = 1 /\ first = {}
E == Trace[l]
Key(r) == <<r.h, r.req>>
Seen(r) == \E f \in first : Key(f) = Key(r)
FirstOf(r) == CHOOSE f \in first : Key(f) = Key(r)
Next == /\ l <= Len(Trace) /\ l' = l + 1
        /\ first' = IF Seen(E) THEN first ELSE first \cup {E}
Spec == Init /\ [][Next]_vars

Cmp == l <= Len(Trace) /\ Seen(E)
SameHits   == Cmp => (E.ids = FirstOf(E).ids /\ E.total = FirstOf(E).total)
SameScores == Cmp => E.scores = FirstOf(E).scores
SameExtras == Cmp => E.extras = FirstOf(E).extras
SameFacets == Cmp => E.facets = FirstOf(E).facets
=============================================================================
