\* cost of enumerating the emitted term ranges (open finding: judged in a run of its own)
CONSTANTS
  B = 16
  L = 16
  G = 7
  ShiftStart = 32
  FE = 11
SPECIFICATION Spec
CHECK_DEADLOCK FALSE
INVARIANTS SplitEnumBounded
