\* cost of enumerating the emitted term ranges (open finding: judged in a run of its own)
SPECIFICATION Spec
CHECK_DEADLOCK FALSE
INVARIANTS SplitEnumBounded
