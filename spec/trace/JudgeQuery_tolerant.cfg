SPECIFICATION Spec
INVARIANT HitsExactTolerant
CHECK_DEADLOCK FALSE
