SPECIFICATION Spec
INVARIANT HitsExactEither
CHECK_DEADLOCK FALSE
