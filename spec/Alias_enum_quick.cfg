\* Engine A case enumeration (run with -dump): hits / totals of the single index for every case
SPECIFICATION EnumSpec
CONSTANTS
  NDocs = 4
  PatIds = {1, 2}
  TreeIds = {1, 3, 4, 6}
  SortIds = {1, 2, 3, 4}
  MaxFrom = 2
  MaxSize = 2
  CursorSizes = {2}
  WithFacets = FALSE
  Quirk = FALSE
CHECK_DEADLOCK FALSE
