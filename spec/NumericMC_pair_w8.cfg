\* thorough: all pairs of 8-bit words as 2 nibbles, real 7-bit groups
CONSTANTS
  B = 16
  L = 2
  G = 7
  ShiftStart = 32
  FE = 3
SPECIFICATION PairSpec
CHECK_DEADLOCK FALSE
INVARIANTS StepMeaning PrefixOrder PrefixFast PrefixSeparate FloatInvolution FloatMonotone FloatDigits FloatEdges
