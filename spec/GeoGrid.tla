------------------------------- MODULE GeoGrid -------------------------------
(***************************************************************************)
(* Property C18 (partial): geo point queries on the quantised grid.        *)
(*                                                                         *)
(* bleve stores a point as the Morton code of two NB-bit lattice           *)
(* coordinates (code: NB = 32; lon in the even bits, lat in the odd bits), *)
(* indexes that code prefix-coded at shifts 0, Step, 2*Step, ... (code:    *)
(* Step = 9) and answers a bounding box by recursive subdivision of the    *)
(* code space (search_geoboundingbox.go ComputeGeoRange /                  *)
(* relateAndRecurse): a cell inside the box yields a term when its shift   *)
(* is an indexed one; subdivision stops at shift MaxShift (code: 36), where *)
(* cells that merely intersect the box yield "boundary" terms whose hits   *)
(* are post-filtered on the decoded point.  The query layer splits a box   *)
(* that crosses the date line (right < left) into [-180,right] and         *)
(* [left,180].                                                             *)
(*                                                                         *)
(* This module is the pure, parametric transcription over an NB-bit        *)
(* lattice.  Lattice points are 0..2^NB-1 per dimension; box edges are     *)
(* taken BETWEEN lattice points: edge e in 0..2^NB stands for the real     *)
(* coordinate e - 1/2, so the box [e1,e2] holds the lattice points         *)
(* e1 <= p < e2 and no point ever lies on an edge (the property excludes   *)
(* what it calls points not "clearly" inside/outside).  Everything here is *)
(* integer arithmetic; nothing about real-valued spherical geometry        *)
(* (haversine, arbitrary polygons, s2 coverings) is modelled: see          *)
(* DESIGN.md section 5.                                                    *)
(***************************************************************************)
EXTENDS Naturals, Sequences, FiniteSets, GeoBits

CONSTANTS NB,        \* bits per coordinate                 (code: 32)
          Step,      \* document.GeoPrecisionStep           (code: 9)
          MaxShift   \* geoMaxShift = 4 * GeoPrecisionStep  (code: 36)

ASSUME NB \in Nat \ {0} /\ Step \in Nat \ {0}
ASSUME MaxShift % Step = 0 /\ MaxShift < 2 * NB /\ (2 * NB - MaxShift) % 2 = 0

Side        == 2 ^ NB                         \* lattice points per dimension
Coord       == 0..(Side - 1)
Edge        == 0..Side
Points      == Coord \X Coord                 \* <<x, y>> = <<lon index, lat index>>
DetailLevel == (2 * NB - MaxShift) \div 2     \* geoDetailLevel

-----------------------------------------------------------------------------
(* Morton code: numeric.Interleave(lon, lat) = lat bits in the odd, lon    *)
(* bits in the even positions.                                             *)

Bit(v, i) == (v \div 2 ^ i) % 2

RECURSIVE Interleave(_, _, _)
Interleave(x, y, n) ==            \* n low bits of x and y
  IF n = 0 THEN 0
  ELSE 4 * Interleave(x \div 2, y \div 2, n - 1) + 2 * (y % 2) + (x % 2)
\* a table built once (EXCEPT forces TLC to tabulate the function; only used on small lattices)
MortonTable == LET f == [p \in Points |-> Interleave(p[1], p[2], NB)]
               IN [f EXCEPT ![<<0, 0>>] = f[<<0, 0>>]]
Morton(p) == MortonTable[p]

RECURSIVE Deinterleave(_, _)      \* numeric.Deinterleave: the even bits of c
Deinterleave(c, n) ==
  IF n = 0 THEN 0 ELSE 2 * Deinterleave(c \div 4, n - 1) + (c % 2)
UnhashLon(c) == Deinterleave(c, NB)            \* MortonUnhashLon before unscaling
UnhashLat(c) == Deinterleave(c \div 2, NB)     \* MortonUnhashLat

(* the same on bit sequences: InterleaveBits / BitsOf of module GeoBits      *)

(* terms document/field_geopoint.go Analyze indexes for a point (without   *)
(* the s2 plugin): the code at every shift 0, Step, 2*Step, ... < 2*NB,    *)
(* kept as (shift, code >> shift)                                          *)
IndexedShifts == {s \in 0..(2 * NB - 1) : s % Step = 0}
TermsOf(p)    == {<<s, Morton(p) \div 2 ^ s>> : s \in IndexedShifts}

-----------------------------------------------------------------------------
(* Boxes.  rect = [x1, x2, y1, y2] in edges, x1 <= x2, y1 <= y2.            *)

InRect(p, r) == r.x1 <= p[1] /\ p[1] < r.x2 /\ r.y1 <= p[2] /\ p[2] < r.y2

(* geo.RectWithin / geo.RectIntersects of the cell with lattice corners    *)
(* (cx1,cy1)..(cx2,cy2) against the box (edges are half-integers, so no    *)
(* comparison is ever an equality)                                         *)
CellWithin(cx1, cy1, cx2, cy2, r) ==
  r.x1 <= cx1 /\ r.y1 <= cy1 /\ cx2 < r.x2 /\ cy2 < r.y2
CellIntersects(cx1, cy1, cx2, cy2, r) ==
  ~(cx2 < r.x1 \/ cx1 >= r.x2 \/ cy2 < r.y1 \/ cy1 >= r.y2)

(* computeGeoRange(term, shift) / relateAndRecurse(start, end, res):       *)
(* result = set of [s |-> shift, v |-> code >> shift, boundary |-> BOOLEAN] *)
RECURSIVE ComputeRange(_, _, _), Relate(_, _, _, _)
ComputeRange(term, shift, r) ==
  LET split    == term + 2 ^ shift                 \* term | 1<<shift
      upperMax == term + 2 ^ (shift + 1) - 1
      lowerMax == split - 1
  IN Relate(term, lowerMax, shift, r) \cup Relate(split, upperMax, shift, r)
Relate(start, end, res, r) ==
  LET minLon == UnhashLon(start)   minLat == UnhashLat(start)
      maxLon == UnhashLon(end)     maxLat == UnhashLat(end)
      level  == (2 * NB - res) \div 2
      within == res % Step = 0 /\ CellWithin(minLon, minLat, maxLon, maxLat, r)
      meets  == CellIntersects(minLon, minLat, maxLon, maxLat, r)
  IN IF within \/ (level = DetailLevel /\ meets)
     THEN {[s |-> res, v |-> start \div 2 ^ res, boundary |-> ~within]}
     ELSE IF level < DetailLevel /\ meets THEN ComputeRange(start, res - 1, r)
     ELSE {}

BoxTerms(r) == ComputeRange(0, 2 * NB - 1, r)   \* ComputeGeoRange(0, GeoBitsShift1Minus1, ...)

TermHolds(p, t) == t.s % Step = 0 /\ Morton(p) \div 2 ^ t.s = t.v   \* <<t.s, t.v>> \in TermsOf(p)

(* NewGeoBoundingBoxSearcher: documents (sets of points) reached through a *)
(* term; hits reached only through boundary terms pass the rectangle       *)
(* filter (buildRectFilter) when checkBoundaries is set                    *)
BoxSearch(r, docs, checkBoundaries) ==
  LET T        == BoxTerms(r)
      \* points reached through a term whose hits are taken as they are ...
      plain    == {p \in Points : \E t \in T : (~t.boundary \/ ~checkBoundaries) /\ TermHolds(p, t)}
      \* ... and through a boundary term (their documents go through the filter)
      boundary == {p \in Points : \E t \in T : t.boundary /\ TermHolds(p, t)}
      inside   == {p \in Points : InRect(p, r)}
  IN {d \in docs : \/ d \cap plain # {}
                   \/ d \cap boundary # {} /\ d \cap inside # {}}

(* GeoBoundingBoxQuery.Searcher: box = [left, right, bottom, top] in edges; *)
(* right < left crosses the date line                                      *)
BoxQuery(b, docs) ==
  IF b.right < b.left
  THEN BoxSearch([x1 |-> 0, x2 |-> b.right, y1 |-> b.bottom, y2 |-> b.top], docs, TRUE)
       \cup BoxSearch([x1 |-> b.left, x2 |-> Side, y1 |-> b.bottom, y2 |-> b.top], docs, TRUE)
  ELSE BoxSearch([x1 |-> b.left, x2 |-> b.right, y1 |-> b.bottom, y2 |-> b.top], docs, TRUE)

(* the meaning *)
InBox(p, b) ==
  /\ b.bottom <= p[2] /\ p[2] < b.top
  /\ IF b.right < b.left THEN p[1] >= b.left \/ p[1] < b.right
                         ELSE b.left <= p[1] /\ p[1] < b.right
BoxMeaning(b, docs) == {d \in docs : \E p \in d : InBox(p, b)}

(* NewGeoBoundedPolygonSearcher for a rectangle-shaped polygon: candidates  *)
(* of the bounding rectangle, every candidate filtered point by point       *)
PolygonQuery(b, docs) ==
  {d \in BoxSearch([x1 |-> b.left, x2 |-> b.right, y1 |-> b.bottom, y2 |-> b.top], docs, TRUE) :
      \E p \in d : InBox(p, b)}

(* Distance queries, only in the two classes decidable without real        *)
(* geometry: a radius far below the lattice spacing selects the documents   *)
(* holding the centre point itself, a radius of at least half the           *)
(* circumference selects every document.                                    *)
DistanceTiny(c, docs) == {d \in docs : c \in d}
DistanceAll(docs)     == docs

=============================================================================
