SPECIFICATION Spec
CONSTANTS
 Docs = {"a", "b"}
 Terms = {"x", "y", "z"}
 MaxOps = 3
INVARIANTS DictMatchesTF BackMatchesTF CountMatchesBack RefinesIndex
CHECK_DEADLOCK FALSE
