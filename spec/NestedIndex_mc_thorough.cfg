SPECIFICATION Spec
CONSTANTS
  NI = 2
  Versions <- Versions4
  KindNames = {"nested", "flat", "outer", "inner"}
  MaxBatches = 4
  MaxMerges = 2
  PairMerges = TRUE
  KeepHist = FALSE
  Probes <- ProbeList
VIEW view
INVARIANT LiveIsCurrent
INVARIANT NoOrphans
INVARIANT DocCountIsParents
INVARIANT MatchAllIsParents
INVARIANT ProbesAnswerMeaning
CHECK_DEADLOCK FALSE
