----------------------------- MODULE Searchers -----------------------------
(***************************************************************************)
(* ALGORITHMIC models of bleve's searchers, one operator per method,       *)
(* written after the code (properties C02 and C08):                        *)
(*                                                                         *)
(*   term field reader   index/scorch/snapshot_index_tfr.go  Next/Advance  *)
(*                       over a multi-segment snapshot (segment offsets,   *)
(*                       per-segment postings iterators, deleted bitmaps,  *)
(*                       1-hit / bitmap / empty iterators, the re-seek of  *)
(*                       a backward Advance, index/scorch/unadorned.go)    *)
(*   doc-id reader       index/scorch/snapshot_index_doc.go (match-all,    *)
(*                       doc-id; Advance = Next until >= target)           *)
(*   conjunction         search/searcher/search_conjunction.go             *)
(*   disjunction         search_disjunction_slice.go, _heap.go (min)       *)
(*   boolean             search_boolean.go (currMust/currShould/           *)
(*                       currMustNot/currentID/done; Advance re-advances   *)
(*                       the should searcher only if it trails the target  *)
(*                       - unconditionally in the code as found, see the   *)
(*                       repair switches)                                  *)
(*   filter              search_filter.go + the filter closure of          *)
(*                       search/query/boolean.go                           *)
(*   construction        search/query/{conjunction,disjunction,boolean}.go *)
(*                       Searcher(): clause shortcuts, MatchNone handling, *)
(*                       and under score:none the "unadorned" AND / OR     *)
(*                       bitmap optimisation of index/scorch/optimize.go   *)
(*                       with its {empty, 1-hit, bitmap} case analysis,    *)
(*                       and under scoring the conjunction push-down.      *)
(*                                                                         *)
(* Every method is an operator  state -> [s |-> state', r |-> result]      *)
(* (Nil = nothing).  A searcher's state is a record that contains the      *)
(* states of its children, as the Go structs do.                           *)
(*                                                                         *)
(* The state machine at the end runs a program of Next / Advance(target)   *)
(* calls (forward targets only, Advance allowed as the very first call,    *)
(* targets beyond the last document) against the searcher built for a      *)
(* query q over postings post, and TLC checks every result against the     *)
(* DECLARATIVE contract computed from Query!Hits (module Query).           *)
(***************************************************************************)
EXTENDS Naturals, Integers, Sequences, FiniteSets, TLC

CONSTANTS
    SegSizes,      \* <<n1, n2, ...>> documents per segment, in snapshot order
    Deleted,       \* global doc numbers that are deleted (in their segment's bitmap)
    OneHitEnc,     \* TRUE: a postings list with exactly one document is "1-hit" encoded
    ScoreNone,     \* TRUE: searchers are built with Score = "none" (unadorned optimisations)
    HeapTakeover,  \* a disjunction with more children than this uses the heap variant
    MaxCalls,      \* length of the Next/Advance programs
    Queries,       \* the query family of the configuration
    NTerms,        \* term ids 1..NTerms
    FirstAdvanceOK(_), \* may Advance be the very first call on this query (see MCSearchers)
    \* Repair switches.  FALSE = the code as found (the three deviations below are
    \* modelled as they are, and refuted by TLC in configurations of their own);
    \* TRUE = the obvious repair, for the day the code is fixed:
    FixEmptySnapshot,  \* TfrAdv on a snapshot without segments returns nothing instead of indexing offsets[-1]
    FixBoolAdvance,    \* BooleanSearcher.Advance re-advances the should searcher only when it trails the target
    FixShouldMin       \* the unadorned disjunction optimisation is not applied when a minimum >= 1 is requested

Q == INSTANCE Query

Nil   == -1        \* "no (more) document"
Panic == -2        \* the real code panics (index out of range) -- see TfrAdv
Big   == 1000000

Max2(a, b) == IF a >= b THEN a ELSE b
MinOf(S) == CHOOSE x \in S : \A y \in S : x <= y

RECURSIVE SortedSeq(_), SeqOf(_)
SortedSeq(S) == IF S = {} THEN << >> ELSE << MinOf(S) >> \o SortedSeq(S \ {MinOf(S)})
SeqOf(S) == IF S = {} THEN << >>
            ELSE LET x == CHOOSE y \in S : TRUE IN << x >> \o SeqOf(S \ {x})

(***************************************************************************)
(* The snapshot layout.  Global doc number = segment offset + local doc    *)
(* number; segments are numbered 1..NSeg here (0-based in the code).       *)
(***************************************************************************)
NSeg == Len(SegSizes)

RECURSIVE SumFirst(_)
SumFirst(k) == IF k = 0 THEN 0 ELSE SumFirst(k - 1) + SegSizes[k]

Off(i) == SumFirst(i - 1)            \* IndexSnapshot.offsets[i-1]
N      == SumFirst(NSeg)
Docs   == 0 .. (N - 1)
Live   == Docs \ Deleted

\* segmentIndexAndLocalDocNumFromGlobal: sort.Search(offsets[x] > d) - 1.
\* 0 here is the code's -1 (no segment): the caller indexes offsets[-1].
SegOf(d) == IF NSeg = 0 THEN 0
            ELSE LET c == { i \in 1..NSeg : Off(i) <= d } IN
                 IF c = {} THEN 0 ELSE CHOOSE i \in c : \A j \in c : j <= i

Local(S, i) == { d - Off(i) : d \in { x \in S : Off(i) <= x /\ x < Off(i + 1) } }

(***************************************************************************)
(* Postings iterators of one segment.                                      *)
(*   [ik |-> "nil"]                        term absent from the segment    *)
(*   [ik |-> "empty"]                      scorch's emptyPostingsIterator  *)
(*   [ik |-> "one", d, fin, un]            1-hit; fin = consumed (a        *)
(*                                         deleted 1-hit starts consumed)  *)
(*   [ik |-> "bm", s, nx]                  bitmap = postings \ deleted,    *)
(*                                         nx = the iterator's position    *)
(***************************************************************************)
ZapIt(P, i) ==
    LET raw == Local(P, i)
        del == Local(Deleted, i)
    IN  IF raw = {} THEN [ik |-> "nil"]
        ELSE IF OneHitEnc /\ Cardinality(raw) = 1
             THEN LET d == CHOOSE x \in raw : TRUE IN
                  [ik |-> "one", d |-> d, fin |-> (d \in del), un |-> FALSE]
        ELSE [ik |-> "bm", s |-> raw \ del, nx |-> 0]

\* nextAtOrAfter(l) of zapx PostingsIterator / unadornedPostingsIterator{Bitmap,1Hit}
ItAdv(it, l) ==
    CASE it.ik \in {"nil", "empty"} -> [it |-> it, r |-> Nil]
      [] it.ik = "one" ->
           IF it.fin THEN [it |-> it, r |-> Nil]
           ELSE IF it.d < l THEN [it |-> [it EXCEPT !.fin = TRUE], r |-> Nil]
           ELSE [it |-> [it EXCEPT !.fin = TRUE], r |-> it.d]
      [] it.ik = "bm" ->
           LET lo == Max2(it.nx, l)
               c  == { x \in it.s : x >= lo }
           IN  IF c = {} THEN [it |-> [it EXCEPT !.nx = Big], r |-> Nil]
               ELSE [it |-> [it EXCEPT !.nx = MinOf(c) + 1], r |-> MinOf(c)]

ItNext(it) == ItAdv(it, 0)

\* ResetablePostingsIterator.ResetIterator (unadorned iterators only)
ItReset(it) ==
    CASE it.ik = "one" -> [it EXCEPT !.fin = FALSE]
      [] it.ik = "bm"  -> [it EXCEPT !.nx = 0]
      [] OTHER -> it

\* what optimize.go asks an iterator
Has1Hit(it)   == it.ik = "one" /\ (it.un \/ ~it.fin)      \* DocNum1Hit() ok
HasBitmap(it) == it.ik = "bm"                             \* ActualBitmap() # nil

(***************************************************************************)
(* IndexSnapshotTermFieldReader.                                           *)
(***************************************************************************)
MkTfr(P) ==
    LET its == [i \in 1..NSeg |-> ZapIt(P, i)] IN
    [k |-> "tfr", un |-> FALSE, its |-> its, orig |-> its, seg |-> 1, cur |-> Nil, umin |-> 0]

\* umin: what Min() reports (a term searcher reports 0 whatever disjunction it replaced)
MkUTfr(its, umin) ==
    [k |-> "tfr", un |-> TRUE, its |-> its, orig |-> its, seg |-> 1, cur |-> Nil, umin |-> umin]

RECURSIVE TfrNext(_)
TfrNext(s) ==
    IF s.seg > Len(s.its) THEN [s |-> s, r |-> Nil]
    ELSE LET a == ItNext(s.its[s.seg]) IN
         IF a.r # Nil
         THEN LET g == Off(s.seg) + a.r IN
              [s |-> [s EXCEPT !.its[s.seg] = a.it, !.cur = g], r |-> g]
         ELSE TfrNext([s EXCEPT !.its[s.seg] = a.it, !.seg = s.seg + 1])

TfrAdv(s, id) ==
    LET \* "if we need to seek backwards, then restart from the beginning"
        s0 == IF s.cur # Nil /\ s.cur >= id
              THEN IF s.un
                   THEN [s EXCEPT !.its = [i \in DOMAIN s.its |-> ItReset(s.its[i])]]
                   ELSE [s EXCEPT !.its = s.orig, !.seg = 1, !.cur = Nil]
              ELSE s
        si == SegOf(id)
    IN  IF si = 0 THEN [s |-> s0, r |-> IF FixEmptySnapshot THEN Nil ELSE Panic]   \* offsets[-1]: index out of range
        ELSE LET a  == ItAdv(s0.its[si], id - Off(si))
                 s1 == [s0 EXCEPT !.seg = si, !.its[si] = a.it]
             IN  IF a.r = Nil THEN TfrNext(s1)
                 ELSE [s |-> [s1 EXCEPT !.cur = Off(si) + a.r], r |-> Off(si) + a.r]

(***************************************************************************)
(* IndexSnapshotDocIDReader (match-all and doc-id searchers).              *)
(***************************************************************************)
MkDr(S) == [k |-> "dr", docs |-> (S \cap Docs) \ Deleted, pos |-> 0]

DrNext(s) ==
    LET c == { x \in s.docs : x >= s.pos } IN
    IF c = {} THEN [s |-> [s EXCEPT !.pos = Big], r |-> Nil]
    ELSE [s |-> [s EXCEPT !.pos = MinOf(c) + 1], r |-> MinOf(c)]

RECURSIVE DrAdv(_, _)
DrAdv(s, id) ==          \* "FIXME do something better": Next() until >= ID
    LET a == DrNext(s) IN
    IF a.r = Nil THEN a
    ELSE IF a.r < id THEN DrAdv(a.s, id)
    ELSE a

(***************************************************************************)
(* index/scorch/optimize.go: the unadorned AND / OR of term field readers. *)
(* tfrs = the children's reader states (fresh), result = iterator list of  *)
(* the synthetic reader.                                                   *)
(***************************************************************************)
RECURSIVE ConjSeg(_, _, _, _, _)
\* one segment of OptimizeTFRConjunctionUnadorned.Finish: walk the children
\* (j), remembering the last 1-hit doc (h, Nil = none) and the collected
\* bitmaps (bms)
ConjSeg(tfrs, i, j, h, bms) ==
    IF j > Len(tfrs)
    THEN IF h # Nil
         THEN IF \A b \in DOMAIN bms : h \in bms[b]
              THEN [ik |-> "one", d |-> h, fin |-> FALSE, un |-> TRUE]
              ELSE [ik |-> "empty"]
         ELSE IF Len(bms) = 0 THEN [ik |-> "empty"]
         ELSE [ik |-> "bm", nx |-> 0,
               s |-> { x \in bms[1] : \A b \in DOMAIN bms : x \in bms[b] }]
    ELSE LET it == tfrs[j].its[i] IN
         IF it.ik = "empty" THEN [ik |-> "empty"]
         ELSE IF Has1Hit(it)
              THEN IF h # Nil /\ h # it.d THEN [ik |-> "empty"]
                   ELSE ConjSeg(tfrs, i, j + 1, it.d, bms)
         ELSE IF ~HasBitmap(it) THEN [ik |-> "empty"]
         ELSE ConjSeg(tfrs, i, j + 1, h, Append(bms, it.s))

OptConj(tfrs) == [i \in 1..NSeg |-> ConjSeg(tfrs, i, 1, Nil, << >>)]

\* one segment of OptimizeTFRDisjunctionUnadorned.Finish
DisjSeg(tfrs, i) ==
    LET ones == { tfrs[j].its[i].d : j \in { x \in DOMAIN tfrs : Has1Hit(tfrs[x].its[i]) } }
        nOne == Cardinality({ x \in DOMAIN tfrs : Has1Hit(tfrs[x].its[i]) })
        bmj  == { j \in DOMAIN tfrs : ~Has1Hit(tfrs[j].its[i]) /\ HasBitmap(tfrs[j].its[i]) }
        un   == UNION { tfrs[j].its[i].s : j \in bmj }
    IN  IF bmj # {} THEN [ik |-> "bm", s |-> un \cup ones, nx |-> 0]
        ELSE IF nOne = 0 THEN [ik |-> "empty"]
        ELSE IF nOne = 1 THEN [ik |-> "one", d |-> CHOOSE x \in ones : TRUE, fin |-> FALSE, un |-> TRUE]
        ELSE [ik |-> "bm", s |-> ones, nx |-> 0]

OptDisj(tfrs) == [i \in 1..NSeg |-> DisjSeg(tfrs, i)]

\* OptimizeTFRConjunction.Finish (scored path): the bitmap iterators of a
\* segment are replaced by the AND of the children's bitmaps, when the first
\* two children have bitmaps there
PushSeg(tfrs, i) ==
    IF HasBitmap(tfrs[1].its[i]) /\ HasBitmap(tfrs[2].its[i])
    THEN LET bs == { j \in DOMAIN tfrs : HasBitmap(tfrs[j].its[i]) }
             bm == { x \in tfrs[1].its[i].s : \A j \in bs : x \in tfrs[j].its[i].s }
         IN  [j \in DOMAIN tfrs |->
                IF j \in bs THEN [tfrs[j].its[i] EXCEPT !.s = bm, !.nx = 0] ELSE tfrs[j].its[i]]
    ELSE [j \in DOMAIN tfrs |-> tfrs[j].its[i]]

OptPush(tfrs) ==
    [j \in DOMAIN tfrs |->
        LET its == [i \in 1..NSeg |-> PushSeg(tfrs, i)[j]] IN
        [tfrs[j] EXCEPT !.its = its, !.orig = tfrs[j].orig]]

(***************************************************************************)
(* Construction (Query.Searcher).  P: term id -> raw postings.              *)
(***************************************************************************)
None == [k |-> "none"]

\* index.Optimizable: a term searcher, or a disjunction wrapping exactly one
\* optimizable child
RECURSIVE Optimizable(_), TfrOf(_)
Optimizable(s) == \/ s.k = "tfr"
                  \/ (s.k = "disj" /\ Len(s.kids) = 1 /\ Optimizable(s.kids[1]))
TfrOf(s) == IF s.k = "tfr" THEN s ELSE TfrOf(s.kids[1])

MkConj(kids, none) ==
    IF Len(kids) = 0 THEN None
    ELSE IF Len(kids) > 1 /\ \A i \in DOMAIN kids : Optimizable(kids[i])
         THEN IF none
              THEN MkUTfr(OptConj([i \in DOMAIN kids |-> TfrOf(kids[i])]), 0)
              ELSE \* push-down: only when every child IS a reader (a wrapping
                   \* disjunction keeps its own struct around the replaced reader)
                   IF \A i \in DOMAIN kids : kids[i].k = "tfr"
                   THEN [k |-> "conj", kids |-> OptPush(kids),
                         currs |-> [i \in DOMAIN kids |-> Nil], maxIdx |-> 1, init |-> FALSE]
                   ELSE [k |-> "conj", kids |-> kids,
                         currs |-> [i \in DOMAIN kids |-> Nil], maxIdx |-> 1, init |-> FALSE]
    ELSE [k |-> "conj", kids |-> kids,
          currs |-> [i \in DOMAIN kids |-> Nil], maxIdx |-> 1, init |-> FALSE]

MkDisj(kids, min, none) ==
    IF Len(kids) = 0 THEN None
    \* "len(qsearchers) > 1 && min < 1" since a0964f3; as found "min <= 1": the
    \* optimised term searcher reports Min() = 0, so a boolean searcher
    \* consulting Min() treated an explicit should-minimum of 1 as optional
    ELSE IF none /\ Len(kids) > 1 /\ (IF FixShouldMin THEN min < 1 ELSE min <= 1)
            /\ \A i \in DOMAIN kids : Optimizable(kids[i])
         THEN MkUTfr(OptDisj([i \in DOMAIN kids |-> TfrOf(kids[i])]), 0)
    ELSE [k |-> "disj", heap |-> (Len(kids) > HeapTakeover), kids |-> kids, min |-> min,
          currs |-> [i \in DOMAIN kids |-> Nil], inheap |-> {}, matching |-> << >>,
          init |-> FALSE]

\* search.Searcher.Min()
MinOfSearcher(s) == IF s.k = "disj" THEN s.min ELSE IF s.k = "tfr" THEN s.umin ELSE 0

MkBool(mu, sh, mn) ==
    [k |-> "bool", must |-> mu, should |-> sh, mustnot |-> mn,
     cm |-> Nil, cs |-> Nil, cn |-> Nil, cur |-> Nil, init |-> FALSE, done |-> FALSE]

MkFilter(kid, fk) == [k |-> "filter", kid |-> kid, fk |-> fk, finit |-> FALSE, ref |-> Nil]

RECURSIVE Build(_, _, _)
BuildAll(qs, P, none) == [i \in DOMAIN qs |-> Build(qs[i], P, none)]

Build(q, P, none) ==
  CASE q.type = "term"  -> MkTfr(P[q.term[1]])
    [] q.type = "all"   -> MkDr(Docs)
    [] q.type = "docid" -> MkDr({ q.ids[i] : i \in DOMAIN q.ids })
    [] q.type = "none"  -> None
    [] q.type = "conj"  -> MkConj(BuildAll(q.qs, P, none), none)
    [] q.type = "disj"  -> MkDisj(BuildAll(q.qs, P, none), q.min, none)
    [] q.type = "boolean" ->
         LET mn0 == IF Len(q.mustnot) = 0 THEN << >> ELSE << MkDisj(BuildAll(q.mustnot, P, none), 0, none) >>
             mu0 == IF Len(q.must) = 0 THEN << >> ELSE << MkConj(BuildAll(q.must, P, none), none) >>
             sh0 == IF Len(q.should) = 0 THEN << >> ELSE << MkDisj(BuildAll(q.should, P, none), q.min, none) >>
             fl  == IF Len(q.filter) = 0 THEN << >> ELSE << Build(q.filter[1], P, TRUE) >>   \* filters never score
         IN  IF mu0 = << >> /\ sh0 = << >> /\ mn0 = << >> /\ fl = << >> THEN None
             ELSE IF mu0 # << >> /\ sh0 = << >> /\ mn0 = << >> /\ fl = << >> THEN mu0[1]
             ELSE IF mu0 = << >> /\ sh0 # << >> /\ mn0 = << >> /\ fl = << >> THEN sh0[1]
             ELSE IF mu0 = << >> /\ sh0 = << >> /\ mn0 = << >> THEN MkFilter(MkDr(Docs), fl[1])
             ELSE LET mu == IF mu0 = << >> /\ sh0 = << >> THEN << MkDr(Docs) >> ELSE mu0
                      bs == MkBool(mu, sh0, mn0)
                  IN  IF fl # << >> THEN MkFilter(bs, fl[1]) ELSE bs

(***************************************************************************)
(* The methods.                                                            *)
(***************************************************************************)
RECURSIVE Nxt(_), Adv(_, _)

---------------------------------------------------------------------------
\* ConjunctionSearcher
RECURSIVE ConjInitFrom(_, _), ConjOuter(_), ConjInner(_, _), ConjAdvRange(_, _, _, _),
          ConjNextAll(_, _), ConjAdvLoop(_, _, _)

ConjInitFrom(s, i) ==
    IF i > Len(s.kids) THEN [s EXCEPT !.init = TRUE]
    ELSE LET a == Nxt(s.kids[i]) IN
         ConjInitFrom([s EXCEPT !.kids[i] = a.s, !.currs[i] = a.r], i + 1)

ConjInit(s) == IF s.init THEN s ELSE ConjInitFrom(s, 1)

ConjAdvChild(s, i, id) ==
    LET a == Adv(s.kids[i], id) IN [s EXCEPT !.kids[i] = a.s, !.currs[i] = a.r]

ConjAdvRange(s, lo, hi, id) ==
    IF lo > hi THEN s ELSE ConjAdvRange(ConjAdvChild(s, lo, id), lo + 1, hi, id)

ConjNextAll(s, i) ==
    IF i > Len(s.kids) THEN s
    ELSE LET a == Nxt(s.kids[i]) IN
         ConjNextAll([s EXCEPT !.kids[i] = a.s, !.currs[i] = a.r], i + 1)

\* OUTER: for s.maxIDIdx < len(s.currs) && s.currs[s.maxIDIdx] != nil
ConjOuter(s) ==
    IF s.currs[s.maxIdx] = Nil THEN [s |-> s, r |-> Nil] ELSE ConjInner(s, 1)

ConjInner(s, i) ==
    LET maxID == s.currs[s.maxIdx] IN
    IF i > Len(s.currs)
    THEN [s |-> ConjNextAll(s, 1), r |-> maxID]            \* a doc matched all readers
    ELSE IF s.currs[i] = Nil THEN [s |-> s, r |-> Nil]
    ELSE IF i = s.maxIdx \/ s.currs[i] = maxID THEN ConjInner(s, i + 1)
    ELSE IF maxID < s.currs[i]
         THEN \* new maxIDIdx; advance [0, i) to it; continue OUTER
              ConjOuter(ConjAdvRange([s EXCEPT !.maxIdx = i], 1, i - 1, s.currs[i]))
    ELSE ConjInner(ConjAdvChild(s, i, maxID), i)           \* don't bump i

ConjNext(s) == ConjOuter(ConjInit(s))

ConjAdvLoop(s, i, id) ==
    IF i > Len(s.kids) THEN s
    ELSE IF s.currs[i] # Nil /\ s.currs[i] >= id THEN ConjAdvLoop(s, i + 1, id)
    ELSE ConjAdvLoop(ConjAdvChild(s, i, id), i + 1, id)

ConjAdv(s, id) == ConjOuter(ConjAdvLoop(ConjInit(s), 1, id))

---------------------------------------------------------------------------
\* DisjunctionSliceSearcher
RECURSIVE DisjInitFrom(_, _), SliceLoop(_, _, _), SliceNextMatching(_, _),
          SliceAdvLoop(_, _, _)

\* updateMatches (slice): the indices holding the smallest current id
SliceUpdate(s) ==
    LET live == { i \in DOMAIN s.currs : s.currs[i] # Nil } IN
    IF live = {} THEN [s EXCEPT !.matching = << >>]
    ELSE LET m == MinOf({ s.currs[i] : i \in live })
             idx == { i \in live : s.currs[i] = m }
         IN  [s EXCEPT !.matching = SortedSeq(idx)]

DisjInitFrom(s, i) ==
    IF i > Len(s.kids) THEN s
    ELSE LET a == Nxt(s.kids[i]) IN
         DisjInitFrom([s EXCEPT !.kids[i] = a.s, !.currs[i] = a.r], i + 1)

SliceInit(s) == IF s.init THEN s ELSE [SliceUpdate(DisjInitFrom(s, 1)) EXCEPT !.init = TRUE]

\* "invoke next on all the matching searchers"
SliceNextMatching(s, j) ==
    IF j > Len(s.matching) THEN s
    ELSE LET i == s.matching[j]
             a == Nxt(s.kids[i])
         IN  SliceNextMatching([s EXCEPT !.kids[i] = a.s, !.currs[i] = a.r], j + 1)

\* for !found && len(s.matching) > 0
SliceLoop(s, found, rv) ==
    IF found \/ Len(s.matching) = 0 THEN [s |-> s, r |-> rv]
    ELSE LET hit == Len(s.matching) >= s.min
             id  == s.currs[s.matching[1]]
             s1  == SliceUpdate(SliceNextMatching(s, 1))
         IN  SliceLoop(s1, hit, IF hit THEN id ELSE rv)

SliceNext(s) == SliceLoop(SliceInit(s), FALSE, Nil)

SliceAdvLoop(s, i, id) ==
    IF i > Len(s.kids) THEN s
    ELSE IF s.currs[i] # Nil /\ s.currs[i] >= id THEN SliceAdvLoop(s, i + 1, id)
    ELSE LET a == Adv(s.kids[i], id) IN
         SliceAdvLoop([s EXCEPT !.kids[i] = a.s, !.currs[i] = a.r], i + 1, id)

SliceAdv(s, id) == SliceLoop(SliceUpdate(SliceAdvLoop(SliceInit(s), 1, id)), FALSE, Nil)

---------------------------------------------------------------------------
\* DisjunctionHeapSearcher.  inheap = indices on the heap (their current id
\* in currs); matching = the popped group (matchingCurrs).
RECURSIVE HeapInitFrom(_, _), HeapLoop(_, _, _), HeapNextMatching(_, _), HeapAdvPop(_, _, _)

HeapUpdate(s) ==
    IF s.inheap = {} THEN [s EXCEPT !.matching = << >>]
    ELSE LET m == MinOf({ s.currs[i] : i \in s.inheap })
             idx == { i \in s.inheap : s.currs[i] = m }
         IN  [s EXCEPT !.matching = SortedSeq(idx), !.inheap = s.inheap \ idx]

HeapInitFrom(s, i) ==
    IF i > Len(s.kids) THEN s
    ELSE LET a == Nxt(s.kids[i]) IN
         HeapInitFrom([s EXCEPT !.kids[i] = a.s, !.currs[i] = a.r,
                                !.inheap = IF a.r # Nil THEN s.inheap \cup {i} ELSE s.inheap], i + 1)

HeapInit(s) == IF s.init THEN s ELSE [HeapUpdate(HeapInitFrom(s, 1)) EXCEPT !.init = TRUE]

HeapNextMatching(s, j) ==
    IF j > Len(s.matching) THEN s
    ELSE LET i == s.matching[j]
             a == Nxt(s.kids[i])
         IN  HeapNextMatching([s EXCEPT !.kids[i] = a.s,
                                        !.currs[i] = IF a.r # Nil THEN a.r ELSE s.currs[i],
                                        !.inheap = IF a.r # Nil THEN s.inheap \cup {i} ELSE s.inheap], j + 1)

HeapLoop(s, found, rv) ==
    IF found \/ Len(s.matching) = 0 THEN [s |-> s, r |-> rv]
    ELSE LET hit == Len(s.matching) >= s.min
             id  == s.currs[s.matching[1]]
             s1  == HeapUpdate(HeapNextMatching(s, 1))
         IN  HeapLoop(s1, hit, IF hit THEN id ELSE rv)

HeapNext(s) == HeapLoop(HeapInit(s), FALSE, Nil)

\* pop everything below the target, advance it, collect what is still alive (tmp)
HeapAdvPop(s, id, tmp) ==
    IF s.inheap = {} \/ MinOf({ s.currs[i] : i \in s.inheap }) >= id
    THEN [s EXCEPT !.inheap = s.inheap \cup tmp]            \* push the advanced ones back
    ELSE LET m == MinOf({ s.currs[i] : i \in s.inheap })
             i == MinOf({ x \in s.inheap : s.currs[x] = m })
             a == Adv(s.kids[i], id)
             s1 == [s EXCEPT !.kids[i] = a.s, !.inheap = s.inheap \ {i},
                             !.currs[i] = IF a.r # Nil THEN a.r ELSE s.currs[i]]
         IN  HeapAdvPop(s1, id, IF a.r # Nil THEN tmp \cup {i} ELSE tmp)

HeapAdv(s, id) ==
    LET s0 == HeapInit(s)
        \* "if there is anything in matching, toss it back onto the heap"
        s1 == [s0 EXCEPT !.inheap = s0.inheap \cup { s0.matching[j] : j \in DOMAIN s0.matching },
                         !.matching = << >>]
    IN  HeapLoop(HeapUpdate(HeapAdvPop(s1, id, {})), FALSE, Nil)

---------------------------------------------------------------------------
\* BooleanSearcher
RECURSIVE BoolLoop(_), BoolShould(_)

HasMust(s) == s.must # << >>
HasShould(s) == s.should # << >>
HasMustNot(s) == s.mustnot # << >>

BoolCur(s) == IF HasMust(s) /\ s.cm # Nil THEN s.cm
              ELSE IF ~HasMust(s) /\ s.cs # Nil THEN s.cs
              ELSE Nil

BoolInit(s) ==
    IF s.init THEN s
    ELSE LET s1 == IF HasMust(s) THEN LET a == Nxt(s.must[1]) IN [s EXCEPT !.must[1] = a.s, !.cm = a.r] ELSE s
             s2 == IF HasShould(s1) THEN LET a == Nxt(s1.should[1]) IN [s1 EXCEPT !.should[1] = a.s, !.cs = a.r] ELSE s1
             s3 == IF HasMustNot(s2) THEN LET a == Nxt(s2.mustnot[1]) IN [s2 EXCEPT !.mustnot[1] = a.s, !.cn = a.r] ELSE s2
         IN  [s3 EXCEPT !.cur = BoolCur(s3), !.init = TRUE]

AdvanceNextMust(s) ==
    LET s1 == IF HasMust(s)
              THEN LET a == Nxt(s.must[1]) IN [s EXCEPT !.must[1] = a.s, !.cm = a.r]
              ELSE LET a == Nxt(s.should[1]) IN [s EXCEPT !.should[1] = a.s, !.cs = a.r]
    IN  [s1 EXCEPT !.cur = BoolCur(s1)]

BoolMatch(s) == [s |-> AdvanceNextMust(s), r |-> s.cur]

\* for s.currentID != nil { ... }  -- the must-not part
BoolLoop(s) ==
    IF s.cur = Nil THEN [s |-> [s EXCEPT !.done = TRUE], r |-> Nil]
    ELSE IF s.cn # Nil /\ s.cn < s.cur
         THEN LET a  == Adv(s.mustnot[1], s.cur)
                  s1 == [s EXCEPT !.mustnot[1] = a.s, !.cn = a.r]
              IN  IF a.r = s.cur THEN BoolLoop(AdvanceNextMust(s1))     \* the candidate is excluded
                  ELSE BoolShould(s1)
    ELSE IF s.cn # Nil /\ s.cn = s.cur THEN BoolLoop(AdvanceNextMust(s))
    ELSE BoolShould(s)

\* ... the should part
BoolShould(s) ==
    LET smin == IF HasShould(s) THEN MinOfSearcher(s.should[1]) ELSE 0 IN
    IF s.cs # Nil /\ s.cs < s.cur
    THEN LET a  == Adv(s.should[1], s.cur)
             s1 == [s EXCEPT !.should[1] = a.s, !.cs = a.r]
         IN  IF a.r = s.cur THEN BoolMatch(s1)                          \* score bonus matches should
             ELSE IF smin = 0 THEN BoolMatch(s1)                        \* match is OK anyway
             ELSE BoolLoop(AdvanceNextMust(s1))
    ELSE IF s.cs # Nil /\ s.cs = s.cur THEN BoolMatch(s)
    ELSE IF ~HasShould(s) \/ smin = 0 THEN BoolMatch(s)
    ELSE BoolLoop(AdvanceNextMust(s))

BoolNext(s) == IF s.done THEN [s |-> s, r |-> Nil] ELSE BoolLoop(BoolInit(s))

BoolAdv(s, id) ==
    IF s.done THEN [s |-> s, r |-> Nil]
    ELSE LET s0 == BoolInit(s) IN
         IF s0.cur = Nil \/ s0.cur < id
         THEN LET s1 == IF HasMust(s0) THEN LET a == Adv(s0.must[1], id) IN [s0 EXCEPT !.must[1] = a.s, !.cm = a.r] ELSE s0
                  \* as found, the should searcher was advanced unconditionally, even
                  \* when currShould was already at or after the target (the match it
                  \* stood on was lost); repaired: only if it is nil or behind
                  s2 == IF HasShould(s1) /\ (~FixBoolAdvance \/ s1.cs = Nil \/ s1.cs < id)
                        THEN LET a == Adv(s1.should[1], id) IN [s1 EXCEPT !.should[1] = a.s, !.cs = a.r] ELSE s1
                  s3 == IF HasMustNot(s2) /\ (s2.cn = Nil \/ s2.cn < id)
                        THEN LET a == Adv(s2.mustnot[1], id) IN [s2 EXCEPT !.mustnot[1] = a.s, !.cn = a.r]
                        ELSE s2
              IN  BoolLoop([s3 EXCEPT !.cur = BoolCur(s3)])
         ELSE BoolLoop(s0)

---------------------------------------------------------------------------
\* FilteringSearcher with the filter closure of BooleanQuery.Searcher
RECURSIVE FilterLoop(_, _)

\* filterFunc(d): [s |-> s', ok |-> BOOLEAN]
Accept(s, d) ==
    LET s1 == IF s.finit THEN s
              ELSE LET a == Nxt(s.fk) IN [s EXCEPT !.fk = a.s, !.ref = a.r, !.finit = TRUE]
    IN  IF s1.ref = Nil THEN [s |-> s1, ok |-> FALSE]
        ELSE IF s1.ref < d
             THEN LET a  == Adv(s1.fk, d)
                      s2 == [s1 EXCEPT !.fk = a.s, !.ref = a.r]
                  IN  [s |-> s2, ok |-> (a.r = d)]
        ELSE [s |-> s1, ok |-> (s1.ref = d)]

\* loop of Next: cand = the child's result just obtained
FilterLoop(s, cand) ==
    IF cand = Nil THEN [s |-> s, r |-> Nil]
    ELSE LET a == Accept(s, cand) IN
         IF a.ok THEN [s |-> a.s, r |-> cand]
         ELSE LET b == Nxt(a.s.kid) IN FilterLoop([a.s EXCEPT !.kid = b.s], b.r)

FilterNext(s) == LET b == Nxt(s.kid) IN FilterLoop([s EXCEPT !.kid = b.s], b.r)

FilterAdv(s, id) ==
    LET b  == Adv(s.kid, id)
        s1 == [s EXCEPT !.kid = b.s]
    IN  IF b.r = Nil THEN [s |-> s1, r |-> Nil]
        ELSE LET a == Accept(s1, b.r) IN
             IF a.ok THEN [s |-> a.s, r |-> b.r] ELSE FilterNext(a.s)

---------------------------------------------------------------------------
Nxt(s) ==
  CASE s.k = "tfr"    -> TfrNext(s)
    [] s.k = "dr"     -> DrNext(s)
    [] s.k = "none"   -> [s |-> s, r |-> Nil]
    [] s.k = "conj"   -> ConjNext(s)
    [] s.k = "disj"   -> IF s.heap THEN HeapNext(s) ELSE SliceNext(s)
    [] s.k = "bool"   -> BoolNext(s)
    [] s.k = "filter" -> FilterNext(s)

Adv(s, id) ==
  CASE s.k = "tfr"    -> TfrAdv(s, id)
    [] s.k = "dr"     -> DrAdv(s, id)
    [] s.k = "none"   -> [s |-> s, r |-> Nil]
    [] s.k = "conj"   -> ConjAdv(s, id)
    [] s.k = "disj"   -> IF s.heap THEN HeapAdv(s, id) ELSE SliceAdv(s, id)
    [] s.k = "bool"   -> BoolAdv(s, id)
    [] s.k = "filter" -> FilterAdv(s, id)

\* Next until exhausted (at most N + 1 calls)
RECURSIVE Drain(_, _)
Drain(s, fuel) ==
    IF fuel = 0 THEN << >>
    ELSE LET a == Nxt(s) IN IF a.r = Nil THEN << >> ELSE << a.r >> \o Drain(a.s, fuel - 1)

(***************************************************************************)
(* The declarative side: the corpus the postings describe, as module       *)
(* Query sees it.  Document d carries token <<t>> in field "f" iff d is in *)
(* the postings of term t; deleted documents are not part of the corpus.   *)
(***************************************************************************)
CorpusOf(P) ==
    LET live == SortedSeq(Live) IN
    [j \in DOMAIN live |->
        [id  |-> live[j],
         txt |-> [f |-> << SeqOf({ << t >> : t \in { x \in DOMAIN P : live[j] \in P[x] } }) >>],
         num |-> [x |-> << >>]]]

HitsOf(q, P) == Q!Hits(q, CorpusOf(P))

\* first match at or after lo
FirstFrom(H, lo) == IF { h \in H : h >= lo } = {} THEN Nil ELSE MinOf({ h \in H : h >= lo })

(***************************************************************************)
(* The state machine: one searcher, a program of calls.                    *)
(***************************************************************************)
VARIABLES
    q,      \* the query
    post,   \* term id -> raw postings (may contain deleted documents)
    hits,   \* Query!Hits(q, corpus of post): the declarative answer (constant)
    s,      \* the searcher state
    last,   \* max(last id returned, last Advance target), Nil before: the next
            \* Advance target must lie beyond it (forward, non-repeated targets)
    lo,     \* the cursor the contract implies: no match below lo may be returned any more
    calls,  \* number of calls made
    prog,   \* the calls and their results: <<[op, t, r, exp], ...>>
    r,      \* result of the latest call
    exp     \* what the contract demands of the latest call

vars == << q, post, hits, s, last, lo, calls, prog, r, exp >>

\* canonical term use: a query over k distinct terms uses terms 1..k
RECURSIVE TermsIn(_)
TermsIn(x) ==
  CASE x.type = "term" -> { x.term[1] }
    [] x.type \in {"conj", "disj"} -> UNION { TermsIn(x.qs[i]) : i \in DOMAIN x.qs }
    [] x.type = "boolean" ->
         UNION { TermsIn(y) : y \in { (x.must \o x.should \o x.mustnot \o x.filter)[i] :
                                       i \in DOMAIN (x.must \o x.should \o x.mustnot \o x.filter) } }
    [] OTHER -> {}

Init ==
    /\ q \in Queries
    /\ post \in { [t \in 1..NTerms |-> IF t \in TermsIn(q) THEN f[t] ELSE {}] :
                    f \in [TermsIn(q) -> SUBSET Docs] }
    /\ hits = HitsOf(q, post)
    /\ s = Build(q, post, ScoreNone)
    /\ last = Nil
    /\ lo = 0
    /\ calls = 0
    /\ prog = << >>
    /\ r = Nil
    /\ exp = Nil

\* the contract: a call returns the first match at or after the cursor (Next)
\* resp. at or after max(cursor, target) (Advance); the cursor moves behind the
\* returned match, or to the end when nothing was left
After(e) == IF e >= 0 THEN e + 1 ELSE Big

DoNext ==
    LET a == Nxt(s)
        e == FirstFrom(hits, lo)
    IN  /\ s' = a.s
        /\ r' = a.r
        /\ exp' = e
        /\ lo' = After(e)
        /\ last' = Max2(last, a.r)
        /\ prog' = Append(prog, [op |-> "next", t |-> Nil, r |-> a.r, exp |-> e])

\* forward targets only: beyond the last returned id and beyond the previous
\* target (backward or repeated targets are outside the contract: readers
\* re-seek, compound searchers do not); any target as the very first call
DoAdvance(t) ==
    /\ t > last
    /\ calls = 0 => FirstAdvanceOK(q)
    /\ LET a == Adv(s, t)
           e == FirstFrom(hits, Max2(lo, t))
       IN  /\ s' = a.s
           /\ r' = a.r
           /\ exp' = e
           /\ lo' = After(e)
           /\ last' = Max2(t, a.r)
           /\ prog' = Append(prog, [op |-> "adv", t |-> t, r |-> a.r, exp |-> e])

Next ==
    /\ calls < MaxCalls
    /\ calls' = calls + 1
    /\ UNCHANGED << q, post, hits >>
    /\ (DoNext \/ \E t \in 0..N : DoAdvance(t))

Spec == Init /\ [][Next]_vars

\* exhaustive configurations identify states that differ only in history
View == << q, post, hits, s, last, lo, calls, r, exp >>

(***************************************************************************)
(* What TLC checks (C08, and the algorithm half of C02).                   *)
(***************************************************************************)
\* every call returns what the declarative contract demands: Next the first
\* match after the last returned id, Advance(t) = min{d >= t : Eval}
ResultOK == r = exp

\* results are strictly ascending
Ascending ==
    \A i \in DOMAIN prog : \A j \in DOMAIN prog :
        (i < j /\ prog[i].r >= 0 /\ prog[j].r >= 0) => prog[i].r < prog[j].r

\* the real code would not panic
NoPanic == r # Panic

\* the Next-only enumeration of a fresh searcher is exactly Query!Hits
EnumIsHits ==
    calls = 0 => Drain(s, N + 1) = SortedSeq(hits)

\* any interleaving visits a subsequence of the enumeration that contains
\* every match at or after each requested target: between the lower bound of
\* a call (its target, or the id after the previously returned one) and its
\* result there is no match, and a call returns nothing only if none is left
LowerBound(i) ==
    LET prev == { j \in 1..(i-1) : prog[j].r >= 0 }
        after == IF prev = {} THEN 0 ELSE prog[CHOOSE j \in prev : \A y \in prev : y <= j].r + 1
    IN  IF prog[i].op = "adv" THEN Max2(after, prog[i].t) ELSE after

Exhausted(i) == \E j \in 1..(i-1) : prog[j].r = Nil

NothingSkipped ==
    \A i \in DOMAIN prog :
        \A h \in hits :
            (h >= LowerBound(i) /\ ~Exhausted(i)) => (prog[i].r >= 0 /\ prog[i].r <= h)

\* everything returned is a match
OnlyMatches == \A i \in DOMAIN prog : prog[i].r >= 0 => prog[i].r \in hits

\* the score:none construction returns the same documents as the scored one
NoneEqualsScored ==
    calls = 0 => Drain(Build(q, post, TRUE), N + 1) = Drain(Build(q, post, FALSE), N + 1)
=============================================================================
