\* generated with the builder script of C02/C08; families: MCSearchers.tla
SPECIFICATION Spec
CONSTANTS
  SegSizes <- Segs13
  Deleted = {2}
  OneHitEnc = FALSE
  ScoreNone = TRUE
  HeapTakeover = 10
  MaxCalls = 0
  NTerms = 2
  Family = "flat2"
  DropK1 = TRUE
  Queries <- MCQueries
  FixEmptySnapshot = FALSE
  FixBoolAdvance = FALSE
  FixShouldMin = FALSE
  FirstAdvanceOK <- FirstAdvNoQ2
VIEW View
INVARIANT EnumIsHits
INVARIANT NoneEqualsScored
CHECK_DEADLOCK FALSE
