\* C06 simulation: long arrival sequences, size+skip around the real slice/heap
\* switch (10), all sort specs; behaviours are replayed step-wise into the real collector.
SPECIFICATION SimSpec
CONSTANTS
  Sorts <- SortsSim
  Sizes = {0, 1, 2, 3, 4, 5, 6, 7, 8, 9, 10, 11, 12, 13}
  Skips = {0, 1, 2, 3, 4, 5, 6, 7, 8, 9, 10, 11, 12}
  Totals = {2, 5, 9, 10, 11, 12, 13}
  AfterSizes = {2, 11}
  ReqModes = {"page", "after", "before"}
  MaxN = 18
  MaxN1 = 18
  MaxN2 = 18
  ScoresSorted = {0, 1, 2}
  ScoresOther = {0, 1}
  SingleVals <- TSingle
  MultiVals <- TMulti
  FirstMultiVals <- TMulti
  NF = 2
  HeapThreshold = 10
  PageSizes = {1}
INVARIANTS
  TotalIsAll MaxScoreIsMax StoreIsTopK SliceIsSorted HeapIsHeap
  LowestIsBestEvicted ResultsArePage HitsAreMeaning FromAHit
CHECK_DEADLOCK FALSE
