SPECIFICATION Spec
CONSTANTS
  NI = 2
  Versions <- Versions2
  KindNames = {"nested", "flat"}
  MaxBatches = 2
  MaxMerges = 1
  PairMerges = FALSE
  KeepHist = TRUE
  Probes <- ProbeList
INVARIANT DocCountIsParents
INVARIANT MatchAllIsParents
INVARIANT ProbesAnswerMeaning
CHECK_DEADLOCK FALSE
