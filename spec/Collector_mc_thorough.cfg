\* C06 thorough: exhaustive, longer arrival sequences, more sizes/skips and sorts; dumped and replayed
SPECIFICATION Spec
CONSTANTS
  Sorts <- SortsThorough
  Sizes = {0, 1, 2, 3}
  Skips = {0, 1, 2}
  Totals = {}
  AfterSizes = {2}
  ReqModes = {"page", "after", "before"}
  MaxN = 6
  MaxN1 = 5
  MaxN2 = 4
  ScoresSorted = {0, 1, 2}
  ScoresOther = {1}
  SingleVals <- QSingle
  MultiVals <- QMulti
  FirstMultiVals <- QNone
  NF = 2
  HeapThreshold = 10
  PageSizes = {1}
INVARIANTS
  CmpIsOrder RevIsReverse TotalIsAll MaxScoreIsMax StoreIsTopK SliceIsSorted HeapIsHeap
  LowestIsBestEvicted ResultsArePage HitsAreMeaning FromAHit
CHECK_DEADLOCK FALSE
