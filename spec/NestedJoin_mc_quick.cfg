SPECIFICATION Spec
CONSTANTS
  MaxN = 5
  NS = 2
  AdvMode = "none"
INVARIANT CallOK
INVARIANT QueueOK
INVARIANT TypeOK
CHECK_DEADLOCK FALSE
