\* generated by the builder of C02/C08; see MCSearchers.tla for the families
SPECIFICATION Spec
CONSTANTS
  SegSizes <- Segs22
  Deleted = {1}
  OneHitEnc = TRUE
  ScoreNone = TRUE
  HeapTakeover = 10
  MaxCalls = 3
  NTerms = 2
  Queries <- QFlat2NoK1
  FirstAdvanceOK <- FirstAdvNoQ2
VIEW View
INVARIANT ResultOK
INVARIANT NoPanic
INVARIANT EnumIsHits
CHECK_DEADLOCK FALSE
