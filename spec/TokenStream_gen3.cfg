\* input generation: all class strings of length <= 3 (1885 states)
SPECIFICATION GenSpec
CONSTANTS MaxLen = 3 MaxTokens = 0 MaxPos = 0
INVARIANT GenTypeOK
CHECK_DEADLOCK FALSE
