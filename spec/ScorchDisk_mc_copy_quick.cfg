SPECIFICATION Spec
CONSTANTS
 Ids = {"a", "b"}
 MaxB = 2
 BatchShapes <- Shapes2
 Writers = {w1}
 Safe = FALSE
 KeepN = 1
 MaxEp = 6
 MaxSid = 4
 WithReader = FALSE
 WithCopy = TRUE
 WithMerger = TRUE
 WithPurge = TRUE
 WithMemMerge = FALSE
 MaxMergeInputs = 2
 AsyncRelease = FALSE
  WithMergeFail = FALSE
 MaxRestarts = 0
 SidFromRoot = FALSE
 ForgetInherited = FALSE
 BuilderBase = FALSE
 CopySchedById = FALSE
 MaxOpens = 1
CONSTRAINT Bound
INVARIANTS RootIsReplay HeldAreReplays BoltFilesOnDisk RootFilesOnDisk CopyFilesOnDisk CopyIsPrefix
PROPERTIES LayoutStutters ReaderStable
CHECK_DEADLOCK FALSE
