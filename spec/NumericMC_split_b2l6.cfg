\* thorough: base 2, 6 levels (longer carry chains): all 4096 (min,max)
CONSTANTS
  B = 2
  L = 6
  G = 3
  ShiftStart = 32
  FE = 1
SPECIFICATION SplitSpec
CHECK_DEADLOCK FALSE
INVARIANTS TypeOK LoopInv Disjoint ExactCover Chain SameAsSplit Bounded MatchIff ChainSound EnumCountOK EnumLinear
PROPERTY Termination
