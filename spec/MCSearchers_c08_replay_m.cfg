\* generated with the builder script of C02/C08; families: MCSearchers.tla
SPECIFICATION Spec
CONSTANTS
  SegSizes <- Segs4
  Deleted = {1}
  OneHitEnc = TRUE
  ScoreNone = FALSE
  HeapTakeover = 10
  MaxCalls = 2
  NTerms = 2
  Family = "core2"
  DropK1 = FALSE
  Queries <- MCQueries
  FixEmptySnapshot = FALSE
  FixBoolAdvance = FALSE
  FixShouldMin = FALSE
  FirstAdvanceOK <- FirstAdvNoQ2
INVARIANT ResultOK
INVARIANT NoPanic
INVARIANT Ascending
INVARIANT NothingSkipped
INVARIANT OnlyMatches
CHECK_DEADLOCK FALSE
