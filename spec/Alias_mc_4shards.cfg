\* C09 thorough: 4 shards under two nested aliases, 4 documents
SPECIFICATION Spec
CONSTANTS
  NDocs = 4
  PatIds = {1, 2, 3}
  TreeIds = {7}
  SortIds = {1, 2, 3, 4}
  MaxFrom = 2
  MaxSize = 2
  CursorSizes = {2}
  WithFacets = FALSE
  Quirk = FALSE
INVARIANTS TypeOK ChildRequestOK TotalIsSum PageEqSizePos PageEqSize0 ActionsMatchOperator
CHECK_DEADLOCK FALSE
