\* generated by mkcfg_searchers.py; families and layouts: MCSearchers.tla
SPECIFICATION Spec
CONSTANTS
  SegSizes <- Segs22
  Deleted = {1}
  OneHitEnc = TRUE
  ScoreNone = FALSE
  HeapTakeover = 10
  MaxCalls = 2
  NTerms = 3
  Family = "flat"
  DropK1 = FALSE
  Queries <- MCQueries
  FixEmptySnapshot = TRUE
  FixBoolAdvance = TRUE
  FixShouldMin = TRUE
  FirstAdvanceOK <- FirstAdvAlways
VIEW View
INVARIANT ResultOK
INVARIANT NoPanic
INVARIANT EnumIsHits
CHECK_DEADLOCK FALSE
