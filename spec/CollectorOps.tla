--------------------------- MODULE CollectorOps ---------------------------
(***************************************************************************)
(* Property C06 -- operator layer (no variables, no constants).            *)
(*                                                                         *)
(* Two independent descriptions of "the hits of a search":                 *)
(*                                                                         *)
(*  PART 1  the MEANING: a declarative order on matches (sort keys,        *)
(*          ascending/descending, missing first/last, min/max mode, ties   *)
(*          broken by arrival number = natural index order), SortAll and   *)
(*          Page.  Nothing of the implementation appears here.             *)
(*                                                                         *)
(*  PART 2  the ALGORITHM, transcribed from bleve:                         *)
(*          search/sort.go      SortField.Value (HighTerm/LowTerm for      *)
(*                              missing), SortOrder.Compare,               *)
(*                              CompareScoreDescending, Reverse            *)
(*          search/collector/slice.go, heap.go (container/heap up/down)    *)
(*          search/collector/topn.go  MakeTopNDocumentMatchHandler         *)
(*                              (search-after filter, lowest-outside       *)
(*                              shortcut, add, evict, update lowest),      *)
(*                              basicPrepare (total, maxScore), Final      *)
(*          index_impl.go       SearchBefore = reversed sort + search      *)
(*                              after + re-sort                            *)
(*                                                                         *)
(* Collector.tla is the state machine over PART 2 whose invariants say     *)
(* that it computes PART 1; trace/JudgeCollector.tla judges pages recorded *)
(* from real indexes with the same operators.                              *)
(*                                                                         *)
(* Data.  A match is [id |-> Int, s |-> Int, k |-> <<vals_1, ..>>]:        *)
(* external id, score, and per sort field f the sequence k[f] of the       *)
(* field's values in doc-value visiting order (<<>> = field missing).      *)
(* `seen` is the sequence of matches in arrival order; a hit is named by   *)
(* its hit number i (index into seen), exactly DocumentMatch.HitNumber.    *)
(* A sort is a sequence of key specs                                       *)
(*   [kind |-> "score"|"id"|"field", f, desc, mfirst, mode |-> "first"|    *)
(*    "min"|"max"].                                                        *)
(***************************************************************************)
EXTENDS Integers, Sequences, FiniteSets, TLC

Low  == -1         \* search.LowTerm  (sorts before every real value)
High == 1000000    \* search.HighTerm (sorts after every real value)

Range(s)   == {s[i] : i \in DOMAIN s}
SetMin(S)  == CHOOSE x \in S : \A y \in S : x <= y
SetMax(S)  == CHOOSE x \in S : \A y \in S : x >= y
Min2(a, b) == IF a < b THEN a ELSE b
Max2(a, b) == IF a > b THEN a ELSE b
Sign(x)    == IF x < 0 THEN -1 ELSE IF x > 0 THEN 1 ELSE 0

\* key-spec constructors
KScore(desc)                == [kind |-> "score", f |-> 0, desc |-> desc, mfirst |-> FALSE, mode |-> "first"]
KId(desc)                   == [kind |-> "id",    f |-> 0, desc |-> desc, mfirst |-> FALSE, mode |-> "first"]
KField(f, desc, mfirst, md) == [kind |-> "field", f |-> f, desc |-> desc, mfirst |-> mfirst, mode |-> md]

UsesScore(sort)    == \E x \in DOMAIN sort : sort[x].kind = "score"
UsesId(sort)       == \E x \in DOMAIN sort : sort[x].kind = "id"
UsesField(sort, f) == \E x \in DOMAIN sort : sort[x].kind = "field" /\ sort[x].f = f
\* ids are unique, so a sort mentioning _id is a total order on keys
IsTotal(sort)      == UsesId(sort)

(***************************************************************************)
(* PART 1 -- meaning                                                       *)
(***************************************************************************)
HasVal(m, ks) == ks.kind # "field" \/ Len(m.k[ks.f]) > 0

\* the value a key spec looks at (only when HasVal)
Picked(m, ks) ==
  CASE ks.kind = "score" -> m.s
    [] ks.kind = "id"    -> m.id
    [] OTHER -> LET vs == m.k[ks.f] IN
                IF ks.mode = "min" THEN SetMin(Range(vs))
                ELSE IF ks.mode = "max" THEN SetMax(Range(vs))
                ELSE vs[1]

\* -1: a sorts before b on this key, 0: indistinguishable, 1: after
KeyOrder(a, b, ks) ==
  IF ~HasVal(a, ks) /\ ~HasVal(b, ks) THEN 0
  ELSE IF ~HasVal(a, ks) THEN (IF ks.mfirst THEN -1 ELSE 1)
  ELSE IF ~HasVal(b, ks) THEN (IF ks.mfirst THEN 1 ELSE -1)
  ELSE LET x == Picked(a, ks)  y == Picked(b, ks) IN
       IF x = y THEN 0
       ELSE IF (x < y) = (~ks.desc) THEN -1 ELSE 1

RECURSIVE LexOrder(_, _, _, _)
LexOrder(a, b, sort, x) ==
  IF x > Len(sort) THEN 0
  ELSE LET c == KeyOrder(a, b, sort[x]) IN
       IF c # 0 THEN c ELSE LexOrder(a, b, sort, x + 1)

\* hit i sorts strictly before hit j: keys first, then natural (arrival) order
Before(seen, i, j, sort) ==
  LET c == LexOrder(seen[i], seen[j], sort, 1) IN c < 0 \/ (c = 0 /\ i < j)

SameKeys(seen, i, j, sort) == LexOrder(seen[i], seen[j], sort, 1) = 0

\* the hit numbers of H, fully sorted by Before (a strict total order, so the
\* result is unique: position = 1 + number of hits of H before it)
SortAll(seen, H, sort) ==
  SortSeq(SelectSeq([i \in 1..Len(seen) |-> i], LAMBDA i : i \in H),
          LAMBDA i, j : Before(seen, i, j, sort))

\* the same, spelled out (used to cross-check SortSeq in the small configs)
SortAllByRank(seen, H, sort) ==
  [r \in 1..Cardinality(H) |->
     CHOOSE i \in H : Cardinality({j \in H : Before(seen, j, i, sort)}) = r - 1]

Page(seq, from, size) == SubSeq(seq, from + 1, Min2(from + size, Len(seq)))

AllHits(seen) == 1..Len(seen)

PosOf(seq, x) == CHOOSE r \in DOMAIN seq : seq[r] = x

MaxScoreOf(seen) == SetMax({0} \cup {seen[i].s : i \in DOMAIN seen})

RECURSIVE ConcatAll(_)
ConcatAll(ss) == IF ss = <<>> THEN <<>> ELSE Head(ss) \o ConcatAll(Tail(ss))

(***************************************************************************)
(* PART 2 -- algorithm                                                     *)
(***************************************************************************)

\* ---- search/sort.go: SortField.Value -> filterTermsByMode
FieldValue(m, ks) ==
  LET terms == m.k[ks.f] IN
  IF Len(terms) = 1 \/ (Len(terms) > 1 /\ ks.mode = "first") THEN terms[1]
  ELSE IF Len(terms) > 1 THEN
       (IF ks.mode = "min" THEN SetMin(Range(terms)) ELSE SetMax(Range(terms)))
  \* handle missing terms
  ELSE IF ~ks.mfirst THEN (IF ks.desc THEN Low ELSE High)      \* SortFieldMissingLast
  ELSE (IF ks.desc THEN High ELSE Low)                         \* SortFieldMissingFirst

\* SortOrder.Value: DocumentMatch.Sort (for a score key the comparison reads
\* DocumentMatch.Score; the slot carries the score here)
SortValue(m, sort) ==
  [x \in 1..Len(sort) |->
     CASE sort[x].kind = "score" -> m.s
       [] sort[x].kind = "id"    -> m.id
       [] OTHER                  -> FieldValue(m, sort[x])]

\* a prepared DocumentMatch: HitNumber, Score, Sort
Doc(seen, i, sort) == [hn |-> i, s |-> seen[i].s, v |-> SortValue(seen[i], sort)]

Docs(seen, sort) == [i \in 1..Len(seen) |-> Doc(seen, i, sort)]

\* ---- SortOrder.Compare
RECURSIVE CompareFrom(_, _, _, _)
CompareFrom(a, b, sort, x) ==
  IF x > Len(sort)
  THEN \* same on all keys: impose natural order
       IF a.hn = b.hn THEN 0 ELSE IF a.hn > b.hn THEN 1 ELSE -1
  ELSE LET c == IF sort[x].kind = "score" THEN Sign(a.s - b.s)
                ELSE Sign(a.v[x] - b.v[x]) IN
       IF c = 0 THEN CompareFrom(a, b, sort, x + 1)
       ELSE IF sort[x].desc THEN -c ELSE c

Compare(a, b, sort) == CompareFrom(a, b, sort, 1)

\* ---- CompareScoreDescending (specialisation chosen by getOptimalCollectorCompare)
CompareScoreDescending(a, b) ==
  IF a.s < b.s THEN 1
  ELSE IF a.s > b.s THEN -1
  ELSE IF a.hn > b.hn THEN 1
  ELSE IF a.hn < b.hn THEN -1
  ELSE 0

Cmp(a, b, sort) ==
  IF Len(sort) = 1 /\ sort[1].kind = "score" /\ sort[1].desc
  THEN CompareScoreDescending(a, b)
  ELSE Compare(a, b, sort)

\* stores hold hit numbers (the code holds *DocumentMatch); dc = [d |-> Docs, sort |-> sort]
CmpH(dc, i, j) == Cmp(dc.d[i], dc.d[j], dc.sort)

\* ---- SortOrder.Reverse (SortField.Reverse flips Desc and Missing)
RevKey(ks) == IF ks.kind = "field"
              THEN [ks EXCEPT !.desc = ~@, !.mfirst = ~@]
              ELSE [ks EXCEPT !.desc = ~@]
Rev(sort)  == [x \in 1..Len(sort) |-> RevKey(sort[x])]

\* ---- slice.go
RECURSIVE SliceInsPos(_, _, _, _)
SliceInsPos(dc, sl, h, i) ==     \* "find where to insert, starting at end (lowest)"
  IF i > 0 /\ CmpH(dc, h, sl[i]) < 0 THEN SliceInsPos(dc, sl, h, i - 1) ELSE i

SliceAdd(dc, sl, h) ==
  LET i == SliceInsPos(dc, sl, h, Len(sl)) IN
  SubSeq(sl, 1, i) \o <<h>> \o SubSeq(sl, i + 1, Len(sl))

SliceRemoveLast(sl) == [x |-> sl[Len(sl)], st |-> SubSeq(sl, 1, Len(sl) - 1)]

SliceFinal(sl, skip) == IF skip <= Len(sl) THEN SubSeq(sl, skip + 1, Len(sl)) ELSE <<>>

\* ---- heap.go over container/heap (1-based here; the worst hit is the root)
HeapLess(dc, h, i, j) == CmpH(dc, h[i], h[j]) > 0
Swap(h, i, j)         == [h EXCEPT ![i] = h[j], ![j] = h[i]]

RECURSIVE HeapUp(_, _, _)
HeapUp(dc, h, j) ==
  IF j = 1 THEN h
  ELSE LET i == j \div 2 IN                   \* parent
       IF ~HeapLess(dc, h, j, i) THEN h ELSE HeapUp(dc, Swap(h, i, j), i)

RECURSIVE HeapDown(_, _, _, _)
HeapDown(dc, h, i, n) ==
  LET j1 == 2 * i IN                           \* left child
  IF j1 > n THEN h
  ELSE LET j == IF j1 + 1 <= n /\ HeapLess(dc, h, j1 + 1, j1) THEN j1 + 1 ELSE j1 IN
       IF ~HeapLess(dc, h, j, i) THEN h ELSE HeapDown(dc, Swap(h, i, j), j, n)

HeapPush(dc, h, x) == HeapUp(dc, Append(h, x), Len(h) + 1)

HeapPop(dc, h) ==          \* heap.Pop: Swap(0,n); down(0,n); Pop()
  LET n  == Len(h)
      dn == HeapDown(dc, Swap(h, 1, n), 1, n - 1)
  IN [x |-> dn[n], st |-> SubSeq(dn, 1, n - 1)]

RECURSIVE HeapDrain(_, _, _)
HeapDrain(dc, h, k) ==     \* Final: "for i := size-1; i >= 0; i-- { rv[i] = heap.Pop }"
  IF k = 0 THEN <<>>
  ELSE LET r == HeapPop(dc, h) IN HeapDrain(dc, r.st, k - 1) \o <<r.x>>

HeapFinal(dc, h, skip) ==
  LET size == Len(h) - skip IN IF size <= 0 THEN <<>> ELSE HeapDrain(dc, h, size)

\* ---- collectorStore interface
StoreAdd(dc, st, h, heap)     == IF heap THEN HeapPush(dc, st, h) ELSE SliceAdd(dc, st, h)
StoreRemoveLast(dc, st, heap) == IF heap THEN HeapPop(dc, st) ELSE SliceRemoveLast(st)
StoreFinal(dc, st, skip, heap) == IF heap THEN HeapFinal(dc, st, skip) ELSE SliceFinal(st, skip)

\* ---- topn.go
\* Collector parameters P = [sort, size, skip, after, heap]:
\*   after = <<>> or <<key>> with key = tuple of encoded sort values
\*   heap  = (size + skip > 10) in getOptimalCollectorStore
\* Collector state cs = [store, lowest, total, maxScore]; lowest = <<>> or <<hn>>.
InitCS == [store |-> <<>>, lowest |-> <<>>, total |-> 0, maxScore |-> 0]

\* createSearchAfterDocument: Sort = after, Score = the score slot (if any);
\* the handler sets its HitNumber to the hit's ("we pretend")
AfterScore(sort, key) ==
  IF UsesScore(sort)
  THEN key[SetMax({x \in DOMAIN sort : sort[x].kind = "score"})]   \* last score slot wins
  ELSE 0
AfterDoc(sort, key, hn) == [hn |-> hn, s |-> AfterScore(sort, key), v |-> key]

\* one hit through basicPrepare + the TopN document match handler.
\* seen2 = matches including the new one; its hit number is total+1.
OfferStep(cs, seen2, P) ==
  LET hn   == cs.total + 1                                   \* hc.total++; d.HitNumber = hc.total
      dc   == [d |-> Docs(seen2, P.sort), sort |-> P.sort]
      d    == dc.d[hn]
      cs1  == [cs EXCEPT !.total = hn,
                         !.maxScore = IF d.s > @ THEN d.s ELSE @]
  IN
  \* support search after based pagination: skip if hit <= the search after key
  IF P.after # <<>> /\ Cmp(d, AfterDoc(P.sort, P.after[1], hn), P.sort) <= 0 THEN cs1
  \* optimization: not better than the lowest hit already removed
  ELSE IF cs1.lowest # <<>> /\ CmpH(dc, hn, cs1.lowest[1]) >= 0 THEN cs1
  ELSE
    LET added   == StoreAdd(dc, cs1.store, hn, P.heap)
        over    == Len(added) > P.size + P.skip           \* AddNotExceedingSize
        rm      == IF over THEN StoreRemoveLast(dc, added, P.heap) ELSE [x |-> 0, st |-> added]
        lowest2 == IF ~over THEN cs1.lowest
                   ELSE IF cs1.lowest = <<>> THEN <<rm.x>>
                   ELSE IF CmpH(dc, rm.x, cs1.lowest[1]) < 0 THEN <<rm.x>>
                   ELSE cs1.lowest
    IN [cs1 EXCEPT !.store = rm.st, !.lowest = lowest2]

\* finalizeResults
FinalResults(cs, seen, P) ==
  StoreFinal([d |-> Docs(seen, P.sort), sort |-> P.sort], cs.store, P.skip, P.heap)

\* the collector run over a whole arrival sequence (Collect)
RECURSIVE RunN(_, _, _)
RunN(seen, n, P) ==
  IF n = 0 THEN InitCS ELSE OfferStep(RunN(seen, n - 1, P), SubSeq(seen, 1, n), P)

Run(seen, P) == RunN(seen, Len(seen), P)

RunResults(seen, P) == FinalResults(Run(seen, P), seen, P)

\* ---- index_impl.go: requests.  A request is
\*   [sort, size, skip, mode |-> "page"|"after"|"before", key |-> <<>> or <<tuple>>]
\* and thr is the slice/heap switch (10 in getOptimalCollectorStore).
EffSort(rq) == IF rq.mode = "before" THEN Rev(rq.sort) ELSE rq.sort   \* req.Sort.Reverse()

Params(rq, thr) ==
  [sort  |-> EffSort(rq),
   size  |-> rq.size,
   skip  |-> IF rq.mode = "page" THEN rq.skip ELSE 0,       \* NewTopNCollectorAfter: skip 0
   after |-> IF rq.mode = "page" THEN <<>> ELSE rq.key,
   heap  |-> (rq.size + (IF rq.mode = "page" THEN rq.skip ELSE 0)) > thr]

\* sort.Sort(searchHitSorter) under the original order (Compare incl. hit numbers)
ResortHits(seen, hs, sort) ==
  LET dc == [d |-> Docs(seen, sort), sort |-> sort]
      H  == Range(hs)
  IN [r \in 1..Len(hs) |->
        CHOOSE i \in H : Cardinality({j \in H : Compare(dc.d[j], dc.d[i], sort) < 0}) = r - 1]

\* what SearchInContext returns for collector results `res`
ApiHits(seen, res, rq) ==
  IF rq.mode = "before" THEN ResortHits(seen, res, rq.sort) ELSE res

SearchHits(seen, rq, thr) == ApiHits(seen, RunResults(seen, Params(rq, thr)), rq)

(***************************************************************************)
(* Meaning of a request (PART 1 vocabulary), used by the invariants of     *)
(* Collector.tla and by the judge.                                         *)
(***************************************************************************)
\* hit i compared with an encoded key under the ORIGINAL sort of the request:
\* <0 before the key, 0 same key, >0 after
KeyCmp(seen, i, key, sort) ==
  LET d == Doc(seen, i, sort) IN
  Compare(d, AfterDoc(sort, key, i), sort)

HitsAfterKey(seen, key, sort)  == {i \in AllHits(seen) : KeyCmp(seen, i, key, sort) > 0}
HitsBeforeKey(seen, key, sort) == {i \in AllHits(seen) : KeyCmp(seen, i, key, sort) < 0}

LastN(seq, n) == SubSeq(seq, Max2(1, Len(seq) - n + 1), Len(seq))

\* the hits a request should return
Meaning(seen, rq) ==
  CASE rq.mode = "page"  -> Page(SortAll(seen, AllHits(seen), rq.sort), rq.skip, rq.size)
    [] rq.mode = "after" -> Page(SortAll(seen, HitsAfterKey(seen, rq.key[1], rq.sort), rq.sort), 0, rq.size)
    [] OTHER             -> LastN(SortAll(seen, HitsBeforeKey(seen, rq.key[1], rq.sort), rq.sort), rq.size)
=============================================================================
