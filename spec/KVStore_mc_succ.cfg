\* finding-isolating config: keys that are the byte-successor of a 0xff-terminated prefix
\* (prefix <<97,255>> vs key <<98>>). Kept apart so that an adapter failing here does not cut
\* short the exploration of the other configs (DESIGN 3.4).
SPECIFICATION Spec
CONSTANTS
  Bytes = {0, 97, 98, 255}
  Keys <- KeysSucc4
  Probes <- ProbesSucc
  PrefixSet <- PrefixSucc
  RangeSet <- NoRanges
  Vals <- ValsOne
  MergeKeys <- NoKeys
  Operands <- OperandsNone
  MaxCount = 1
  Readers = {1}
  Iters = {1}
  MaxBatch = 1
  AtomicBatch = TRUE
  RepeatKeys = FALSE
  ReadActions = FALSE
  MultiGetLen = 1
INVARIANTS TypeOK ReadsInByteOrder IterRefines IterInView
CHECK_DEADLOCK FALSE
