---------------------------- MODULE NestedQuery ----------------------------
(***************************************************************************)
(* C20, exhaustive part over inputs: TLC enumerates                        *)
(*     query shape  x  mapping kind  x  document tree                      *)
(* (every tree over the fields the query mentions, within the bounds) and  *)
(* checks in every such state that the search AS CODED (Nested!AlgHits on  *)
(* the preorder snapshot of the tree) returns exactly what the MEANING     *)
(* (Nested!Matches on the tree) says -- for the query class named by the   *)
(* constant Classes.  Each state is also one Engine A case: the harness    *)
(* reads the dump, indexes the trees into real scorch indexes with the     *)
(* mapping of the kind and compares the real hits with `exp`.              *)
(***************************************************************************)
EXTENDS Nested

CONSTANTS
  KindNames,   \* subset of {"nested","flat","outer","inner","aonly","bonly"}
  QFieldSeq,   \* fields that queries may mention (a tuple)
  MaxA, MaxC, MaxB, MaxNodes,   \* tree bounds
  L2Forms,     \* which "compound as a clause of a larger query" forms are generated
  Ordered,     \* TRUE: both orders of every pair of leaves
  Classes,     \* query classes admitted to this configuration
  WithMin      \* TRUE: disjunction min 2 / should min 1 variants are generated

\* field tuples for the configuration files (cfg syntax has no tuples)
FS4 == <<"t", "x", "u", "z">>
FS5 == <<"t", "x", "y", "u", "z">>
FS6 == <<"t", "x", "y", "u", "v", "z">>
FS7 == <<"t", "x", "y", "u", "v", "z", "w">>

VARIABLES ph, kn, q, d, exp, cod, cls

vars == <<ph, kn, q, d, exp, cod, cls>>

KindOf(n) == CASE n = "nested" -> {"a", "c", "b"}
               [] n = "flat" -> {}
               [] n = "outer" -> {"a", "b"}
               [] n = "inner" -> {"c"}
               [] n = "aonly" -> {"a"}
               [] n = "bonly" -> {"b"}
               [] n = "ac" -> {"a", "c"}
               [] n = "cb" -> {"c", "b"}

-----------------------------------------------------------------------------
(* trees over a set of mentioned fields *)
SeqsUpTo(S, n) == UNION {[1..k -> S] : k \in 0..n}

TV(f, fs) == IF f \in fs THEN {<<>>, <<1>>} ELSE {<<>>}
Rel(p, fs) == \E f \in fs : p \in PathUp(FieldArr(f))
Lim(p, fs, m) == IF Rel(p, fs) THEN m ELSE IF m > 0 THEN 1 ELSE 0

CSpace(fs) == [u : TV("u", fs), v : TV("v", fs)]
ASpace(fs) == [x : TV("x", fs), y : TV("y", fs), c : SeqsUpTo(CSpace(fs), Lim("c", fs, MaxC))]
BSpace(fs) == [z : TV("z", fs), w : TV("w", fs)]

RECURSIVE SumLen(_)
SumLen(s) == IF s = <<>> THEN 0 ELSE Len(Head(s).c) + SumLen(Tail(s))
NodeCount(x) == Len(x.a) + SumLen(x.a) + Len(x.b)

DocSpace(fs) ==
  {x \in [t : TV("t", fs),
          a : SeqsUpTo(ASpace(fs), Lim("a", fs, MaxA)),
          b : SeqsUpTo(BSpace(fs), Lim("b", fs, MaxB))] : NodeCount(x) <= MaxNodes}

-----------------------------------------------------------------------------
(* query shapes *)
Term(f) == [op |-> "term", f |-> f, v |-> 1]
All == [op |-> "all"]
NF == Len(QFieldSeq)
LeafAt(i) == IF i = 0 THEN All ELSE Term(QFieldSeq[i])
Leaves == {LeafAt(i) : i \in 0..NF}
TLeaves == {LeafAt(i) : i \in 1..NF}

Conj(s) == [op |-> "conj", qs |-> s]
Disj(s, m) == [op |-> "disj", qs |-> s, min |-> m]
Bool(m, s, n, k) == [op |-> "bool", must |-> m, should |-> s, mustnot |-> n, min |-> k]

Opt(S) == {<<>>} \cup {<<x>> : x \in S}
Mins == IF WithMin THEN {0, 2} ELSE {0}
SMins == IF WithMin THEN {0, 1} ELSE {0}

\* pairs of leaves; unordered (i <= j) unless Ordered
LeafPairs(lo) == {<<LeafAt(i), LeafAt(j)>> : i \in lo..NF, j \in lo..NF} 
UPairs(lo) == UNION {{<<LeafAt(i), LeafAt(j)>> : j \in i..NF} : i \in lo..NF}
PairsOf(lo) == IF Ordered THEN LeafPairs(lo) ELSE UPairs(lo)

L1Conj == {Conj(s) : s \in PairsOf(0)}
L1Disj == {Disj(s, m) : s \in PairsOf(0), m \in Mins}
L1Bool == UNION {{Bool(m, s, n, k) : k \in (IF s = <<>> THEN {0} ELSE SMins)} :
                    m \in Opt(Leaves), s \in Opt(Leaves), n \in Opt(Leaves)}
            \ {Bool(<<>>, <<>>, <<>>, 0)}
L1BoolMM == {Bool(s, <<>>, <<z>>, 0) : s \in PairsOf(0), z \in Leaves}
\* a must group of two with a should clause from anywhere (the should clause
\* must not drag the must conjunction out of its element)
L1BoolMS == {Bool(s, <<z>>, <<>>, k) : s \in PairsOf(0), z \in Leaves, k \in SMins}
L1BoolSS == {Bool(m, s, <<>>, k) : m \in Opt(Leaves), s \in PairsOf(0), k \in Mins}

Level1 == L1Conj \cup L1Disj \cup L1Bool \cup L1BoolMM \cup L1BoolMS \cup L1BoolSS

\* a compound as a clause of a larger query
InnerC == {Conj(s) : s \in PairsOf(1)}
InnerD == {Disj(s, 0) : s \in PairsOf(1)}
InnerB == {Bool(<<x>>, <<>>, <<y>>, 0) : x \in TLeaves, y \in TLeaves}
Inner == InnerC \cup InnerD

L2(form) ==
  CASE form = "conj-il" -> {Conj(<<i, l>>) : i \in Inner \cup InnerB, l \in Leaves}
    [] form = "conj-li" -> {Conj(<<l, i>>) : i \in Inner, l \in TLeaves}
    [] form = "disj-il" -> {Disj(<<i, l>>, 0) : i \in Inner, l \in TLeaves}
    [] form = "must-i-not-l" -> {Bool(<<i>>, <<>>, <<l>>, 0) : i \in Inner, l \in TLeaves}
    [] form = "must-l-not-i" -> {Bool(<<l>>, <<>>, <<i>>, 0) : i \in Inner, l \in Leaves}
    [] form = "must-l-should-i" -> {Bool(<<l>>, <<i>>, <<>>, k) : i \in Inner, l \in Leaves, k \in SMins}
    [] form = "conj-cc" -> {Conj(<<i, j>>) : i \in InnerC, j \in InnerC}
    [] form = "conj-cd" -> {Conj(<<i, j>>) : i \in InnerC, j \in InnerD}
    [] form = "disj-cc" -> {Disj(<<i, j>>, 0) : i \in InnerC, j \in InnerC}

Level2 == UNION {L2(f) : f \in L2Forms}

Queries == Leaves \cup Level1 \cup Level2

-----------------------------------------------------------------------------
Snap(x, K) == FlattenDoc(x, K, 1, 0)

\* Two phases only so that TLC's workers share the enumeration: the initial
\* states fix the query, the successors add kind and tree.
Init ==
  /\ ph = "q"
  /\ q \in Queries
  /\ kn = "-" /\ d = <<>> /\ exp = FALSE /\ cod = {} /\ cls = "-"

Case ==
  /\ ph = "q"
  /\ ph' = "case"
  /\ q' = q
  /\ kn' \in KindNames
  /\ cls' = QClass(q, KindOf(kn'))
  /\ cls' \in Classes
  /\ d' \in DocSpace(QFieldsCode(q) \ {"_id"})
  /\ exp' = Matches(q, d', KindOf(kn'))
  /\ cod' = AlgHits(q, Snap(d', KindOf(kn')), KindOf(kn'))

Next == Case

Spec == Init /\ [][Next]_vars

-----------------------------------------------------------------------------
(* what TLC checks in every enumerated state *)

\* the search as coded answers exactly what the meaning says
CodedEqualsMeaning ==
  ph = "case" => cod = (IF exp THEN {[rid |-> 1, sub |-> FALSE]} ELSE {})

\* hits are parents, each once (cod is a set of [rid, sub]; a sub hit or two
\* hits for the one document would show here)
HitsAreParents == \A h \in cod : ~h.sub

\* no nested conjunction is asked to join above one of its inputs
JoinDepthsFit == ph = "case" => JoinsWellFormed(q, Snap(d, KindOf(kn)), KindOf(kn))

\* flat mapping: every clause is met by some element (plain boolean meaning
\* over the flattened fields)
RECURSIVE FlatHolds(_, _)
FlatHolds(qq, x) ==
  CASE qq.op = "term" -> \E e \in Elems(x) : qq.v \in ElemVals(x, e, qq.f)
    [] qq.op = "all" -> TRUE
    [] qq.op = "conj" -> \A i \in DOMAIN qq.qs : FlatHolds(qq.qs[i], x)
    [] qq.op = "disj" -> Cardinality({i \in DOMAIN qq.qs : FlatHolds(qq.qs[i], x)})
                           >= (IF qq.min = 0 THEN 1 ELSE qq.min)
    [] qq.op = "bool" ->
         LET ns == Cardinality({i \in DOMAIN qq.should : FlatHolds(qq.should[i], x)}) IN
         /\ \A i \in DOMAIN qq.must : FlatHolds(qq.must[i], x)
         /\ \A i \in DOMAIN qq.mustnot : ~FlatHolds(qq.mustnot[i], x)
         /\ IF qq.should = <<>> THEN TRUE
            ELSE IF qq.must = <<>> THEN ns >= (IF qq.min = 0 THEN 1 ELSE qq.min)
            ELSE ns >= qq.min
FlatIsPlain == (ph = "case" /\ kn = "flat") => exp = FlatHolds(q, d)

\* the headline clause: a conjunction of two terms on ONE nested array
\* matches iff one element carries both
SameArrayConj ==
  (ph = "case" /\ q.op = "conj" /\ Len(q.qs) = 2 /\ q.qs[1].op = "term" /\ q.qs[2].op = "term"
   /\ FieldArr(q.qs[1].f) = FieldArr(q.qs[2].f) /\ FieldArr(q.qs[1].f) \in KindOf(kn))
  => exp = \E e \in Elems(d) : /\ e.arr = FieldArr(q.qs[1].f)
                               /\ q.qs[1].v \in ElemVals(d, e, q.qs[1].f)
                               /\ q.qs[2].v \in ElemVals(d, e, q.qs[2].f)

=============================================================================
