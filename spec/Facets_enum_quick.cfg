\* Engine A case enumeration (run with -dump): one state per corpus
SPECIFICATION EnumSpec
CONSTANTS
  NDocs = 3
  Vals = {1, 2, 3}
  Sizes = {0, 1, 2, 3, 4, 5}
  Pages <- PagesOne
CHECK_DEADLOCK FALSE
