\* exhaustive + state-graph dump for Engine A replay: values, merges, 2-op batches, one reader, no iterators
SPECIFICATION Spec
CONSTANTS
  Bytes = {0, 97, 255}
  Keys <- KeysTwo
  Probes <- ProbesTiny
  PrefixSet <- NoKeys
  RangeSet <- NoRanges
  Vals <- ValsTiny
  MergeKeys <- KeysTwo
  Operands <- OperandsTwo
  MaxCount = 2
  Readers = {1}
  Iters = {}
  MaxBatch = 2
  AtomicBatch = TRUE
  RepeatKeys = FALSE
  ReadActions = FALSE
  MultiGetLen = 1
INVARIANTS TypeOK ReadsInByteOrder IterRefines IterInView
PROPERTIES ReaderIsolation IterIsolation BatchAtomic BatchAlgRefines ReaderSeesWholeBatches
CHECK_DEADLOCK FALSE
