\* C09 quick, hits and totals: 4 documents, every assignment to the leaves of 4 tree shapes
\* (flat, nested with a single-member alias, single-member root over a 3-member alias, single
\* leaf), 2 corpora, pages From,Size <= 2, search-after/before from every document
SPECIFICATION Spec
CONSTANTS
  NDocs = 4
  PatIds = {1, 2}
  TreeIds = {1, 3, 4, 6}
  SortIds = {1, 2, 3, 4}
  MaxFrom = 2
  MaxSize = 2
  CursorSizes = {2}
  WithFacets = FALSE
  Quirk = FALSE
INVARIANTS TypeOK ChildRequestOK TotalIsSum PageEqSizePos PageEqSize0 ActionsMatchOperator
CHECK_DEADLOCK FALSE
