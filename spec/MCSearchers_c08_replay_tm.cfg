\* generated by mkcfg_searchers.py; families and layouts: MCSearchers.tla
SPECIFICATION Spec
CONSTANTS
  SegSizes <- Segs4
  Deleted = {1}
  OneHitEnc = TRUE
  ScoreNone = FALSE
  HeapTakeover = 10
  MaxCalls = 3
  NTerms = 2
  Family = "core2"
  DropK1 = FALSE
  Queries <- MCQueries
  FixEmptySnapshot = TRUE
  FixBoolAdvance = TRUE
  FixShouldMin = TRUE
  FirstAdvanceOK <- FirstAdvAlways
INVARIANT ResultOK
INVARIANT NoPanic
INVARIANT Ascending
INVARIANT NothingSkipped
INVARIANT OnlyMatches
CHECK_DEADLOCK FALSE
