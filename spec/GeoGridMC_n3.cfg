\* 8x8 lattice, terms at shifts 0,2,4, detail cells 2x2 (replayed into the real indexes)
CONSTANTS
  NB = 3
  Step = 2
  MaxShift = 2
SPECIFICATION Spec
CHECK_DEADLOCK FALSE
INVARIANTS BoxExact PolyExact CoverSound DistanceClasses
