--------------------------- MODULE QueryJSONCases ---------------------------
(***************************************************************************)
(* C17: the finite case space for QueryJSON.tla.  Kinds of cases:          *)
(*   "row"   one row of the key table: (query type, legal subset of its    *)
(*           optional keys) -- ALL rows;                                   *)
(*   "tree"  nested conjunction / disjunction / boolean trees over a pool  *)
(*           of leaf rows (depth <= 2, <= 2 children per list);            *)
(*   "sort"  every single sort key form;                                   *)
(*   "req"   search requests: every combination of at most two            *)
(*           non-default settings among sort, paging, explain, locations,  *)
(*           score, highlight, fields, facets, search_after/before.        *)
(* Init picks the case, the step computes what the model expects (keys and *)
(* Dispatch of a row, the DispatchTree of a tree, the JSON form of a sort  *)
(* key or request); the invariants are the model-level properties.         *)
(***************************************************************************)
EXTENDS QueryJSON

CONSTANT Thorough

VARIABLES c, exp, done

\* ------------------------------------------------------------------- rows
TableRowSet == UNION {{[kind |-> "row", type |-> t, opts |-> o] : o \in LegalOpts(t)} : t \in QueryTypes}

\* ------------------------------------------------------------------ trees
Conj(ks, o)    == [type |-> "conjunction", opts |-> o, min |-> 0,
                   kids |-> [i \in 1..Len(ks) |-> Kid("", ks[i])]]
Disj(ks, o, m) == [type |-> "disjunction", opts |-> o, min |-> m,
                   kids |-> [i \in 1..Len(ks) |-> Kid("", ks[i])]]
Opt1(role, s)  == IF s = <<>> THEN <<>> ELSE <<Kid(role, s[1])>>
Bool(m, s, n, f, o) == [type |-> "boolean", opts |-> o, min |-> 0,
                        kids |-> Opt1("must", m) \o Opt1("should", s) \o Opt1("must_not", n) \o Opt1("filter", f)]
Pairs(S) == {<<a>> : a \in S} \cup {<<a, b>> : a \in S, b \in S}

LeavesQuick ==
  { Leaf("term", {"field", "boost"}), Leaf("match", {"field", "operator"}), Leaf("fuzzy", {}), Leaf("fuzzy", {"@auto", "field"}),
    Leaf("numeric_range", {"min", "max", "inclusive_min", "field"}), Leaf("match_all", {}),
    Leaf("docid", {"boost"}), Leaf("date_range", {"field", "inclusive_end"}),
    Leaf("phrase", {"field"}) }
LeavesMore ==
  { Leaf("query_string", {}), Leaf("term_range", {"min", "field"}), Leaf("multi_phrase", {"field", "boost"}),
    Leaf("match_phrase", {"field", "analyzer"}), Leaf("bool_field", {"field"}), Leaf("prefix", {"field"}),
    Leaf("regexp", {"field", "boost"}), Leaf("wildcard", {"field"}), Leaf("match_none", {}),
    Leaf("date_range_string", {"start", "end", "field", "datetime_parser"}),
    Leaf("geo_bbox", {"field"}), Leaf("geo_distance", {"field"}), Leaf("ip_range", {"field"}) }
LeavesA == IF Thorough THEN LeavesQuick \cup LeavesMore ELSE LeavesQuick
LeavesB == { Leaf("term", {"field"}), Leaf("numeric_range", {"max", "inclusive_max", "field"}) }
           \cup (IF Thorough THEN {Leaf("match", {"field", "boost"})} ELSE {})

Boosts == {{}, {"boost"}}
D1Conj == {Conj(ks, o) : ks \in Pairs(LeavesA), o \in Boosts}
D1Disj == {Disj(ks, o, m) : ks \in Pairs(LeavesA), o \in Boosts, m \in 0..2}
SmallConj == {Conj(ks, {}) : ks \in Pairs(LeavesB)}
SmallDisj == {Disj(ks, {}, m) : ks \in Pairs(LeavesB), m \in 0..1}
Bools ==
  { Bool(m, s, n, f, o)
    : m \in {<<>>} \cup {<<x>> : x \in SmallConj},
      s \in {<<>>} \cup {<<x>> : x \in SmallDisj},
      n \in {<<>>} \cup {<<Disj(<<l>>, {}, 0)>> : l \in LeavesB},
      f \in {<<>>} \cup {<<l>> : l \in LeavesB} \cup {<<Conj(<<l>>, {"boost"})>> : l \in LeavesB},
      o \in Boosts } \ {Bool(<<>>, <<>>, <<>>, <<>>, o) : o \in Boosts}
OneLeaf == Leaf("term", {"field"})
SomeBools ==
  IF Thorough
  THEN {Bool(m, s, <<>>, f, {}) : m \in {<<>>} \cup {<<x>> : x \in SmallConj},
                                  s \in {<<x>> : x \in SmallDisj}, f \in {<<>>, <<OneLeaf>>}}
  ELSE {Bool(m, s, <<>>, f, {}) : m \in {<<>>, <<Conj(<<OneLeaf>>, {})>>},
                                  s \in {<<Disj(<<OneLeaf>>, {}, 0)>>, <<Disj(<<OneLeaf, OneLeaf>>, {}, 1)>>},
                                  f \in {<<>>, <<OneLeaf>>}}
D2 == {Conj(<<a, b>>, {"boost"}) : a \in SmallDisj \cup SomeBools, b \in LeavesB}
      \cup {Disj(<<a, b>>, {}, 1) : a \in SmallConj \cup SomeBools, b \in SmallDisj}
      \cup {Bool(<<Conj(<<a>>, {})>>, <<>>, <<Disj(<<b>>, {}, 0)>>, <<>>, {}) : a \in SomeBools, b \in SmallConj}
Trees == D1Conj \cup {d \in D1Disj : d.min <= Len(d.kids)} \cup Bools \cup D2
TreeCases == {[kind |-> "tree", tree |-> t] : t \in Trees}

\* ------------------------------------------------------------------ sorts
SortKeys ==
  {SField(f, d, ty, mo, mi) : f \in {"t", "p"}, d \in BOOLEAN, ty \in SortTypes, mo \in SortModes, mi \in SortMissing}
  \cup {SId(d) : d \in BOOLEAN} \cup {SScore(d) : d \in BOOLEAN}
SortCases == {[kind |-> "sort", sort |-> s] : s \in SortKeys}

\* --------------------------------------------------------------- requests
DefaultReq == [size |-> 10, from |-> 0, explain |-> FALSE, locations |-> FALSE, score |-> "",
               sort |-> <<SScore(TRUE)>>, highlight |-> "none", fields |-> "none",
               facets |-> "none", after |-> "none", before |-> "none"]
SortLists ==
  { <<SScore(TRUE)>>, <<SField("t", FALSE, "auto", "default", "last")>>,
    <<SField("p", TRUE, "number", "min", "first")>>,
    <<SField("t", FALSE, "string", "max", "last"), SId(TRUE)>>,
    <<SField("d", TRUE, "date", "default", "first"), SScore(FALSE)>>,
    <<SId(FALSE)>>, <<SField("p", FALSE, "auto", "default", "first"), SField("t", TRUE, "auto", "default", "last")>> }
ReqSpace ==
  [size : {10, 3, 0}, from : {0, 2}, explain : BOOLEAN, locations : BOOLEAN, score : {"", "none"},
   sort : SortLists, highlight : {"none", "default", "style", "style_fields", "fields"},
   fields : {"none", "t", "star"}, facets : {"none", "terms", "numeric", "dates", "datestrings"},
   after : {"none", "key"}, before : {"none", "key"}]
NonDefault(r) == Cardinality({k \in DOMAIN r : r[k] # DefaultReq[k]})
Requests == {r \in ReqSpace : NonDefault(r) <= (IF Thorough THEN 3 ELSE 2) /\ ~(r.after # "none" /\ r.before # "none")}
ReqCases == {[kind |-> "req", req |-> r] : r \in Requests}

Cases == TableRowSet \cup TreeCases \cup SortCases \cup ReqCases

\* ------------------------------------------------------------------- spec
Expected(x) ==
  CASE x.kind = "row"  -> [keys |-> Keys(x.type, x.opts), dispatch |-> Dispatch(Keys(x.type, x.opts))]
    [] x.kind = "tree" -> [dtree |-> DispatchTree(x.tree)]
    [] x.kind = "sort" -> [json |-> SortToJSON(x.sort)]
    [] x.kind = "req"  -> [json |-> ReqToJSON(x.req)]

Init == c \in Cases /\ exp = <<>> /\ done = FALSE
Next == ~done /\ done' = TRUE /\ exp' = Expected(c) /\ UNCHANGED c
Spec == Init /\ [][Next]_<<c, exp, done>>

\* -------------------------------------------------------------- invariants
DispatchOK ==
  done /\ c.kind = "row" => exp.dispatch \in EquivalentTypes(c.type)

\* two rows with the same key set (and kinds) are the same type: the JSON
\* form is unambiguous
Unambiguous ==
  done /\ c.kind = "row" =>
    \A r \in TableRowSet : Keys(r.type, r.opts) = exp.keys => EquivalentTypes(r.type) = EquivalentTypes(c.type)

TreeOK == done /\ c.kind = "tree" => TreeOKRec(c.tree)

SortRoundTrip == done /\ c.kind = "sort" => SortFromJSON(exp.json) = c.sort

RequestRoundTrip == done /\ c.kind = "req" => ReqFromJSON(exp.json) = c.req
=============================================================================
