\* generated by the builder of C02/C08; see MCSearchers.tla for the families
SPECIFICATION Spec
CONSTANTS
  SegSizes <- Segs21
  Deleted = {}
  OneHitEnc = TRUE
  ScoreNone = FALSE
  HeapTakeover = 10
  MaxCalls = 1
  NTerms = 3
  Queries <- QQ2
  FirstAdvanceOK <- FirstAdvAlways
VIEW View
INVARIANT ResultOK
CHECK_DEADLOCK FALSE
