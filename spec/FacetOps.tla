--------------------------- MODULE FacetOps ---------------------------
(* Constant-free operators of the facet design (properties C10, C09).

   Two layers, both used by Facets.tla (state machine of the collector's
   facet path), Alias.tla (facet merge of the alias) and the judge specs
   under spec/trace:

   1. MEANING   what a facet result is, as a function of the matching
                documents only (Decl* operators);
   2. ALGORITHM the builders transcribed from bleve:
                  search/facet/facet_builder_terms.go     Terms*
                  search/facet/facet_builder_numeric.go   Range*   (also _datetime.go)
                  search/facets_builder.go                MergeFR / Fixup

   Values are small integers.  A term is its rank in byte order (the binding
   uses term strings whose byte order equals the rank order), a numeric value
   is the integer itself, a date is an integer number of days.  A range is a
   record [id, hasLo, lo, hasHi, hi] meaning [lo, hi) with optional ends;
   `id` is the rank of the range *name* (results are ordered by name on ties).

   A facet entry is [k |-> key, c |-> count];  a facet result is
     [total, missing, other, list (sequence of entries), hidden]
   where `hidden` models search.TermFacets.termLookup: the terms that were
   trimmed from termFacets but are still in the lookup map (this only matters
   for Merge after a trim, see MergeFR).
*)
EXTENDS Naturals, Integers, Sequences, FiniteSets, TLC

Range(s) == {s[i] : i \in DOMAIN s}
MinI(a, b) == IF a < b THEN a ELSE b

RECURSIVE SumFn(_, _)
SumFn(f, S) == IF S = {} THEN 0
               ELSE LET x == CHOOSE x \in S : TRUE IN f[x] + SumFn(f, S \ {x})

RECURSIVE SumC(_)
SumC(list) == IF list = <<>> THEN 0 ELSE Head(list).c + SumC(Tail(list))

Take(s, n) == SubSeq(s, 1, MinI(n, Len(s)))
Drop(s, n) == SubSeq(s, MinI(n, Len(s)) + 1, Len(s))

(* search.TermFacets.Less / NumericRangeFacets.Less / DateRangeFacets.Less:
   count descending, then term (resp. range name) ascending. *)
EntryLess(a, b) == a.c > b.c \/ (a.c = b.c /\ a.k < b.k)

RECURSIVE SortEntries(_)
SortEntries(S) ==
  IF S = {} THEN <<>>
  ELSE LET x == CHOOSE x \in S : \A y \in S \ {x} : EntryLess(x, y)
       IN <<x>> \o SortEntries(S \ {x})

IsSortedEntries(list) ==
  \A i \in 1..(Len(list) - 1) : EntryLess(list[i], list[i + 1])

Keys(list) == {list[i].k : i \in DOMAIN list}

-----------------------------------------------------------------------------
(* 1. MEANING.  `vals` is a function from documents to finite sets of values
   (the set of DISTINCT values of the facet field in the document: a value
   occurring twice in a document counts once), D the set of matching documents. *)

TermCount(vals, D, t) == Cardinality({d \in D : t \in vals[d]})

(* every (matching document, distinct term) pair, filtered or not *)
TermsTotal(vals, D) == SumFn([d \in D |-> Cardinality(vals[d])], D)

(* matching documents without a value passing the term filter *)
TermsMissing(vals, D, pass) == Cardinality({d \in D : vals[d] \cap pass = {}})

TermBuckets(vals, D, pass) ==
  {[k |-> t, c |-> TermCount(vals, D, t)] : t \in (UNION {vals[d] : d \in D}) \cap pass}

(* an untrimmed result [total, missing, full] cut to `size` entries:
   Other = total - listed; the cut entries stay in the lookup (hidden) *)
Cut(u, size, keepHidden) ==
  LET lst == Take(u.full, size)
  IN [total |-> u.total, missing |-> u.missing, other |-> u.total - SumC(lst), list |-> lst,
      hidden |-> IF keepHidden THEN Keys(Drop(u.full, size)) ELSE {}]

DeclTermsFull(vals, D, pass) ==
  [total |-> TermsTotal(vals, D), missing |-> TermsMissing(vals, D, pass),
   full |-> SortEntries(TermBuckets(vals, D, pass))]

DeclTerms(vals, D, pass, size) == Cut(DeclTermsFull(vals, D, pass), size, TRUE)

InRange(v, r) == (~r.hasLo \/ v >= r.lo) /\ (~r.hasHi \/ v < r.hi)

(* number of VALUES of matching documents in [lo,hi) *)
RangeCount(vals, D, r) ==
  SumFn([d \in D |-> Cardinality({v \in vals[d] : InRange(v, r)})], D)

RangeBuckets(vals, D, ranges) ==
  {e \in {[k |-> r.id, c |-> RangeCount(vals, D, r)] : r \in ranges} : e.c > 0}

DeclRangesFull(vals, D, ranges) ==
  LET bk == RangeBuckets(vals, D, ranges)
  IN [total |-> SumFn([e \in bk |-> e.c], bk), missing |-> Cardinality({d \in D : vals[d] = {}}),
      full |-> SortEntries(bk)]

DeclRanges(vals, D, ranges, size) == Cut(DeclRangesFull(vals, D, ranges), size, FALSE)

(* statements of the property text about ONE result, usable by the judges *)
BalanceOK(fr) == fr.total = fr.other + SumC(fr.list)
OrderOK(fr)   == IsSortedEntries(fr.list)

-----------------------------------------------------------------------------
(* 2. ALGORITHM. *)

Bump(cnt, k) == IF k \in DOMAIN cnt THEN [cnt EXCEPT ![k] = @ + 1] ELSE cnt @@ (k :> 1)

NewBuilder == [cnt |-> <<>>, total |-> 0, missing |-> 0, saw |-> FALSE]

(* StartDoc / EndDoc are the same in the three builders *)
BStart(b) == [b EXCEPT !.saw = FALSE]
BEnd(b)   == IF b.saw THEN b ELSE [b EXCEPT !.missing = @ + 1]

(* TermsFacetBuilder.UpdateVisitor: total counts every visited term; the
   prefix / regexp filter (abstracted as the set `pass`) gates sawValue and
   the per-term tally. *)
TermsVisit(b, t, pass) ==
  LET b1 == [b EXCEPT !.total = @ + 1]
  IN IF t \in pass THEN [b1 EXCEPT !.saw = TRUE, !.cnt = Bump(@, t)] ELSE b1

(* TermsFacetBuilder.Result: sort, TrimToTopN(min(size, len)), Other = total - listed.
   The trimmed terms stay in termLookup (hidden). *)
BuilderEntries(b) == {[k |-> k, c |-> b.cnt[k]] : k \in DOMAIN b.cnt}

BuilderFull(b) == [total |-> b.total, missing |-> b.missing, full |-> SortEntries(BuilderEntries(b))]

TermsResult(b, size) == Cut(BuilderFull(b), size, TRUE)

(* Numeric/DateTimeFacetBuilder.UpdateVisitor.  A numeric or date value is
   indexed as several prefix-coded terms; the builder sets sawValue for each
   of them but tallies only the term with shift 0, once per range containing
   the value; total counts (value, range) pairs. *)
RECURSIVE RangeHits(_, _, _)
RangeHits(b, v, rs) ==
  IF rs = {} THEN b
  ELSE LET r  == CHOOSE r \in rs : TRUE
           b1 == IF InRange(v, r)
                 THEN [b EXCEPT !.cnt = Bump(@, r.id), !.total = @ + 1]
                 ELSE b
       IN RangeHits(b1, v, rs \ {r})

RangeVisit(b, v, shift, ranges) ==
  LET b1 == [b EXCEPT !.saw = TRUE]
  IN IF shift = 0 THEN RangeHits(b1, v, ranges) ELSE b1

RangeResult(b, size) == Cut(BuilderFull(b), size, FALSE)

(* search.TermFacets.Add (one facet at a time, as Merge calls it): a term
   present in termLookup gets the count added -- if that entry was trimmed
   from termFacets earlier the addition is invisible (lost); otherwise the
   entry is appended.  NumericRangeFacets.Add / DateRangeFacets.Add match on
   (min,max), which is the range identity here. *)
AddEntry(fr, e) ==
  IF \E i \in DOMAIN fr.list : fr.list[i].k = e.k
  THEN LET i == CHOOSE i \in DOMAIN fr.list : fr.list[i].k = e.k
       IN [fr EXCEPT !.list[i].c = @ + e.c]
  ELSE IF e.k \in fr.hidden THEN fr
  ELSE [fr EXCEPT !.list = Append(@, e)]

RECURSIVE AddEntries(_, _)
AddEntries(fr, list) ==
  IF list = <<>> THEN fr ELSE AddEntries(AddEntry(fr, Head(list)), Tail(list))

(* search.FacetResult.Merge *)
MergeFR(a, b) ==
  AddEntries([a EXCEPT !.total = @ + b.total, !.missing = @ + b.missing,
                       !.other = @ + b.other], b.list)

(* search.FacetResult.Fixup *)
Fixup(fr, size) ==
  LET s == SortEntries(Range(fr.list))
  IN IF Len(s) > size
     THEN [fr EXCEPT !.other = @ + SumC(Drop(s, size)), !.list = Take(s, size),
                     !.hidden = @ \cup Keys(Drop(s, size))]
     ELSE [fr EXCEPT !.list = s]

(* what is compared between results: everything but the lookup residue *)
Visible(fr) == [total |-> fr.total, missing |-> fr.missing, other |-> fr.other, list |-> fr.list]
=============================================================================
