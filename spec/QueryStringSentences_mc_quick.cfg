\* C17: sentences of the documented grammar (one part, or one part + a part of a small pool)
SPECIFICATION Spec
CONSTANT Wide = FALSE
CONSTANT DateOnly = FALSE
CONSTANT ValidDates <- SentenceDates
INVARIANT WellFormedAccepted
CHECK_DEADLOCK FALSE
