----------------------------- MODULE NestedFold -----------------------------
(***************************************************************************)
(* C20, the fold: a step-wise transcription of                             *)
(*   search/collector/nested.go  collectStoreNested.ProcessNestedDocument  *)
(*   search/collector/topn.go    TopNCollector.Collect (the loop over the  *)
(*                               searcher and the flush of the interim     *)
(*                               root after it)                            *)
(* run against every small forest of sub-documents and every ascending     *)
(* stream of doc numbers a searcher can deliver.                           *)
(*                                                                         *)
(* Checked: the documents handed to the hit handler are exactly the roots  *)
(* of the delivered doc numbers, each once, in ascending order, the last   *)
(* one included; Total counts them.  This is what Nested!FoldSet states.   *)
(***************************************************************************)
EXTENDS Nested

CONSTANTS MaxN

VARIABLES F,        \* forest: F[n] = parent doc number, 0 for a root
          stream,   \* set of doc numbers the searcher delivers (ascending)
          pos,      \* last doc number taken from the searcher (0: none yet)
          currRoot, \* interim root (0 = nil)
          desc,     \* descendants merged into the interim root
          hits,     \* sequence of [root, desc] handed to dmHandler
          total, pc

vars == <<F, stream, pos, currRoot, desc, hits, total, pc>>

N == Len(F)
S == [n \in 1..N |-> [par |-> F[n]]]

RECURSIVE Dep(_, _)
Dep(f, n) == IF f[n] = 0 THEN 0 ELSE 1 + Dep(f, f[n])
RECURSIVE Ancs(_, _)
Ancs(f, n) == IF f[n] = 0 THEN {n} ELSE {n} \cup Ancs(f, f[n])

Forests(n) ==
  {f \in [1..n -> 0..(n - 1)] :
     /\ f[1] = 0
     /\ \A k \in 2..n : /\ f[k] < k
                        /\ f[k] = 0 \/ f[k] \in Ancs(f, k - 1)
                        /\ Dep(f, k) <= 2}

Init ==
  /\ \E n \in 1..MaxN : F \in Forests(n)
  /\ stream \in SUBSET (1..Len(F))
  /\ pos = 0 /\ currRoot = 0 /\ desc = {} /\ hits = <<>> /\ total = 0
  /\ pc = "loop"

Handle(r, ds) == /\ hits' = Append(hits, [root |-> r, desc |-> ds])
                 /\ total' = total + 1

\* one iteration of  for next != nil { ProcessNestedDocument; dmHandler }
Step ==
  /\ pc = "loop"
  /\ UNCHANGED <<F, stream>>
  /\ LET rest == {n \in stream : n > pos} IN
     IF rest = {}
     THEN pc' = "flush" /\ UNCHANGED <<pos, currRoot, desc, hits, total>>
     ELSE
       LET doc == MinOf(rest)
           anc == AncSeq(S, doc)
           rootID == anc[Len(anc)]
       IN /\ pos' = doc /\ pc' = "loop"
          /\ IF currRoot # 0 /\ currRoot = rootID
             THEN \* belongs to the interim root: descAdder
                  /\ desc' = IF doc = currRoot THEN desc ELSE desc \cup {doc}
                  /\ UNCHANGED <<currRoot, hits, total>>
             ELSE \* a new root begins; the previous interim root is complete
                  /\ IF currRoot # 0 THEN Handle(currRoot, desc)
                                     ELSE UNCHANGED <<hits, total>>
                  /\ currRoot' = rootID
                  /\ desc' = IF Len(anc) = 1 THEN {} ELSE {doc}

\* after the loop: the interim root, if any, is handed over
Flush ==
  /\ pc = "flush"
  /\ UNCHANGED <<F, stream, pos>>
  /\ pc' = "done"
  /\ IF currRoot # 0
     THEN Handle(currRoot, desc) /\ currRoot' = 0 /\ desc' = {}
     ELSE UNCHANGED <<currRoot, desc, hits, total>>

Next == Step \/ Flush

Spec == Init /\ [][Next]_vars

-----------------------------------------------------------------------------
HitRoots == {hits[i].root : i \in DOMAIN hits}

\* never the same parent twice, always parents, always ascending
HitsOnceAndParents ==
  /\ \A i, j \in DOMAIN hits : i < j => hits[i].root < hits[j].root
  /\ \A i \in DOMAIN hits : F[hits[i].root] = 0

\* at the end: exactly the roots of what the searcher delivered, with their
\* delivered descendants, and Total counts parents
FoldComplete ==
  pc = "done" =>
    /\ HitRoots = FoldSet(S, stream)
    /\ total = Cardinality(FoldSet(S, stream))
    /\ \A i \in DOMAIN hits :
         hits[i].desc = {n \in stream : RootOf(S, n) = hits[i].root /\ n # hits[i].root}

\* while running: what has been handed over is right so far
FoldPrefix ==
  \A i \in DOMAIN hits : hits[i].root \in FoldSet(S, {n \in stream : n <= pos})

=============================================================================
