---------------------------- MODULE NestedIndex ----------------------------
(***************************************************************************)
(* C20, the index part: parents live and die together with their nested    *)
(* elements.  Histories of batches (create / replace / delete / re-create  *)
(* a parent), which produce one segment each, and merges, over the segment *)
(* structure scorch and zap keep:                                          *)
(*   segment  = sub-documents in preorder + child->parent edge list        *)
(*   snapshot = segments + one deleted set per segment                     *)
(* Transcribed steps:                                                      *)
(*   Batch  - index/scorch/introducer.go introduceSegment: for every old   *)
(*            segment  delta = DocNumbers(batch ids)  (these are numbers   *)
(*            of PARENTS: the ids of nested elements are never in a batch),*)
(*            deleted' = deleted OR delta, then AddNestedDocuments closes  *)
(*            deleted' under descendants; segments without live documents  *)
(*            are dropped; the batch's documents (analyze ->               *)
(*            VisitNestedDocuments) form the new segment                   *)
(*   Merge  - zap merge: live sub-documents of the inputs are renumbered,  *)
(*            edges are kept when both ends survive                        *)
(*   DocCount - snapshot_index.go DocCount = sum of CountRoot,             *)
(*            CountRoot = (docs - edges) - (deleted - deleted children)    *)
(* Checked in every reachable state: the live sub-documents are exactly    *)
(* the elements of the current version of every live parent; DocCount is   *)
(* the number of parents; match_all and a list of probe queries, evaluated *)
(* AS CODED (Nested!AlgHits) on the multi-segment snapshot, return what    *)
(* the MEANING says on the current documents.                              *)
(*                                                                         *)
(* With KeepHist the history is part of the state: the dump of that        *)
(* configuration is the Engine A case list (every history up to the bound, *)
(* with the expected observables `exp`).                                   *)
(***************************************************************************)
EXTENDS Nested

CONSTANTS NI,          \* parent ids 1..NI
          Versions,    \* tuple of document trees a parent can be given
          KindNames,
          MaxBatches, MaxMerges,
          PairMerges,  \* TRUE: any subset of segments can be merged; FALSE: only all (ForceMerge)
          KeepHist,
          Probes       \* tuple of probe queries

VARIABLES kn, docs, segs, nb, nm, hist, exp

vars == <<kn, docs, segs, nb, nm, hist, exp>>
view == <<kn, docs, segs, nb, nm>>

Ids == 1..NI
NV == Len(Versions)

KindOf(n) == CASE n = "nested" -> {"a", "c", "b"}
               [] n = "flat" -> {}
               [] n = "outer" -> {"a", "b"}
               [] n = "inner" -> {"c"}

K == KindOf(kn)

RECURSIVE SetToSeq(_)
SetToSeq(X) == IF X = {} THEN <<>> ELSE LET m == MinOf(X) IN <<m>> \o SetToSeq(X \ {m})

-----------------------------------------------------------------------------
(* segments *)

\* the new segment of a batch: its documents with their nested documents
\* (constant tables, evaluated once by TLC: the flattening and the meaning
\* depend only on version and kind)
FlatTab == [k \in KindNames |-> [v \in 1..Len(Versions) |-> FlattenDoc(Versions[v], KindOf(k), 0, 0)]]
MatchTab == [k \in KindNames |-> [v \in 1..Len(Versions) |->
               [p \in 1..Len(Probes) |-> Matches(Probes[p], Versions[v], KindOf(k))]]]

Placed(kname, v, id, base) ==
  LET fl == FlatTab[kname][v] IN
  [p \in 1..Len(fl) |-> [fl[p] EXCEPT !.rid = id, !.par = IF @ = 0 THEN 0 ELSE @ + base]]

RECURSIVE BuildNodes(_, _, _, _)
BuildNodes(ops, kname, i, acc) ==
  IF i > NI THEN acc
  ELSE IF i \in DOMAIN ops /\ ops[i] # 0
       THEN BuildNodes(ops, kname, i + 1, acc \o Placed(kname, ops[i], i, Len(acc)))
       ELSE BuildNodes(ops, kname, i + 1, acc)

\* SegmentBase.AddNestedDocuments: close a deleted set under descendants
AddNested(sg, del) ==
  del \cup {n \in DOMAIN sg.nodes : \E r \in del : r \in Range(AncSeq(sg.nodes, n))}

\* DocNumbers(ids) restricted to live documents: the parents with these ids
DocNumbers(sg, ids) ==
  {n \in DOMAIN sg.nodes : sg.nodes[n].par = 0 /\ sg.nodes[n].rid \in ids /\ n \notin sg.del}

Obsolete(sg, ids) == [sg EXCEPT !.del = AddNested(sg, sg.del \cup DocNumbers(sg, ids))]

LiveCount(sg) == Len(sg.nodes) - Cardinality(sg.del)

\* zap CountRoot
CountRoot(sg) ==
  LET edges == {n \in DOMAIN sg.nodes : sg.nodes[n].par # 0}
  IN (Len(sg.nodes) - Cardinality(edges)) - (Cardinality(sg.del) - Cardinality(sg.del \cap edges))

\* live sub-documents of one segment, renumbered from base+1
Compact(sg, base) ==
  LET lv == SetToSeq(DOMAIN sg.nodes \ sg.del)
      newnum(n) == base + IndexOf(lv, n)
  IN [p \in 1..Len(lv) |->
        [sg.nodes[lv[p]] EXCEPT !.par = IF @ = 0 THEN 0
                                        ELSE IF @ \in sg.del THEN 0 ELSE newnum(@)]]

RECURSIVE MergeNodes(_, _, _)
MergeNodes(ss, ks, acc) ==
  IF ks = <<>> THEN acc
  ELSE MergeNodes(ss, Tail(ks), acc \o Compact(ss[Head(ks)], Len(acc)))

\* the global snapshot: doc numbers and edges shifted by the segment offsets
RECURSIVE SnapFrom(_, _, _)
SnapFrom(ss, k, acc) ==
  IF k > Len(ss) THEN acc
  ELSE LET off == Len(acc)
           sg == ss[k]
       IN SnapFrom(ss, k + 1,
             acc \o [n \in 1..Len(sg.nodes) |->
                       [sg.nodes[n] EXCEPT !.par = IF @ = 0 THEN 0 ELSE @ + off,
                                           !.live = n \notin sg.del]])
Snapshot == SnapFrom(segs, 1, <<>>)

-----------------------------------------------------------------------------
LiveIds(dd) == {i \in Ids : dd[i] # 0}
CurDocs(dd) == [i \in LiveIds(dd) |-> Versions[dd[i]]]

\* expected observables, from the MEANING side only
ExpOf(dd, kname) ==
  [dc |-> Cardinality(LiveIds(dd)),
   live |-> LiveIds(dd),
   hits |-> [p \in 1..Len(Probes) |-> {i \in LiveIds(dd) : MatchTab[kname][dd[i]][p]}]]

Init ==
  /\ kn \in KindNames
  /\ docs = [i \in Ids |-> 0]
  /\ segs = <<>>
  /\ nb = 0 /\ nm = 0
  \* with KeepHist every dumped state is a self-contained replay case: the
  \* first history entry carries the constants it refers to
  /\ hist = IF KeepHist THEN <<[op |-> "consts", versions |-> Versions, probes |-> Probes]>> ELSE <<>>
  /\ exp = ExpOf([i \in Ids |-> 0], kn)

Remember(a) == hist' = IF KeepHist THEN Append(hist, a) ELSE hist

Batch(ops) ==
  /\ nb < MaxBatches
  /\ nb' = nb + 1 /\ UNCHANGED <<kn, nm>>
  /\ docs' = [i \in Ids |-> IF i \in DOMAIN ops THEN ops[i] ELSE docs[i]]
  /\ LET old == [k \in 1..Len(segs) |-> Obsolete(segs[k], DOMAIN ops)]
         kept == SelectSeq(old, LAMBDA sg : LiveCount(sg) > 0)
         nodes == BuildNodes(ops, kn, 1, <<>>)
     IN segs' = IF nodes = <<>> THEN kept ELSE Append(kept, [nodes |-> nodes, del |-> {}])
  /\ Remember([op |-> "batch", ops |-> ops])
  /\ exp' = ExpOf(docs', kn)

Merge(I) ==
  /\ nm < MaxMerges
  /\ nm' = nm + 1 /\ UNCHANGED <<kn, nb, docs>>
  /\ LET rest == SelectSeq([k \in 1..Len(segs) |-> [k |-> k, sg |-> segs[k]]],
                           LAMBDA e : e.k \notin I)
         merged == MergeNodes(segs, SetToSeq(I), <<>>)
     IN segs' = [k \in 1..Len(rest) |-> rest[k].sg]
                \o (IF merged = <<>> THEN <<>> ELSE <<[nodes |-> merged, del |-> {}]>>)
  /\ Remember([op |-> "merge", n |-> Cardinality(I)])
  /\ exp' = exp

Next ==
  \/ \E B \in SUBSET Ids \ {{}} : \E ops \in [B -> 0..NV] : Batch(ops)
  \/ /\ Len(segs) >= 1
     /\ \E I \in SUBSET (1..Len(segs)) \ {{}} :
          /\ PairMerges \/ I = 1..Len(segs)
          /\ Merge(I)

Spec == Init /\ [][Next]_vars

-----------------------------------------------------------------------------
\* (invariants bind the snapshot once: TLC re-evaluates operators, not LETs)

\* the live sub-documents are exactly the elements of the current version of
\* every live parent, each once, hanging on the right parent
LiveIsCurrentOn(S) ==
  \A i \in Ids :
    LET mine == {n \in LiveSet(S) : S[n].rid = i} IN
    IF docs[i] = 0 THEN mine = {}
    ELSE LET want == FlatTab[kn][docs[i]] IN
         /\ Cardinality(mine) = Len(want)
         /\ {[obj |-> S[n].obj, vals |-> S[n].vals] : n \in mine}
              = {[obj |-> want[p].obj, vals |-> want[p].vals] : p \in DOMAIN want}
         /\ \A n \in mine :
              IF S[n].obj.arr = "r" THEN S[n].par = 0
              ELSE /\ S[n].par \in mine
                   /\ S[S[n].par].obj = SubParent(S[n].obj, K)
LiveIsCurrent == LET S == Snapshot IN LiveIsCurrentOn(S)

\* nothing live below a deleted sub-document
NoOrphans == LET S == Snapshot IN \A n \in LiveSet(S) : S[n].par = 0 \/ S[n].par \in LiveSet(S)

RECURSIVE SumRoots(_)
SumRoots(k) == IF k = 0 THEN 0 ELSE CountRoot(segs[k]) + SumRoots(k - 1)
DocCountIsParents == SumRoots(Len(segs)) = exp.dc

AllQ == [op |-> "all"]
MatchAllIsParents ==
  LET S == Snapshot IN AlgHits(AllQ, S, K) = {[rid |-> i, sub |-> FALSE] : i \in exp.live}

ProbesAnswerMeaning ==
  LET S == Snapshot IN
  \A p \in 1..Len(Probes) :
    AlgHits(Probes[p], S, K) = {[rid |-> i, sub |-> FALSE] : i \in exp.hits[p]}

ExpIsMeaning == exp = ExpOf(docs, kn)

-----------------------------------------------------------------------------
(* constants for the configuration files *)
T(f) == [op |-> "term", f |-> f, v |-> 1]
E0 == <<>>
E1 == <<1>>

\* two a-elements that only together carry x and y; a second level; one b
V1 == [t |-> E1,
       a |-> <<[x |-> E1, y |-> E0, c |-> <<>>],
               [x |-> E0, y |-> E1, c |-> <<[u |-> E1, v |-> E0], [u |-> E0, v |-> E1]>>]>>,
       b |-> <<[z |-> E1, w |-> E0]>>]
\* one element carrying everything
V2 == [t |-> E0,
       a |-> <<[x |-> E1, y |-> E1, c |-> <<[u |-> E1, v |-> E1]>>]>>,
       b |-> <<>>]
\* no arrays at all
V3 == [t |-> E1, a |-> <<>>, b |-> <<>>]
\* x and u in different a-elements, two b elements
V4 == [t |-> E0,
       a |-> <<[x |-> E1, y |-> E0, c |-> <<>>], [x |-> E0, y |-> E0, c |-> <<[u |-> E1, v |-> E0]>>]>>,
       b |-> <<[z |-> E0, w |-> E1], [z |-> E1, w |-> E1]>>]

Versions4 == <<V1, V2, V3, V4>>
Versions3 == <<V1, V2, V3>>
Versions2 == <<V1, V2>>

ProbeList ==
  << [op |-> "conj", qs |-> <<T("x"), T("y")>>],
     [op |-> "conj", qs |-> <<T("u"), T("v")>>],
     [op |-> "conj", qs |-> <<T("x"), T("u")>>],
     [op |-> "conj", qs |-> <<T("t"), T("z")>>],
     [op |-> "conj", qs |-> <<T("y"), T("w")>>],
     [op |-> "disj", qs |-> <<T("v"), T("w")>>, min |-> 0],
     T("u"),
     [op |-> "bool", must |-> <<T("x")>>, should |-> <<>>, mustnot |-> <<T("y")>>, min |-> 0],
     [op |-> "conj", qs |-> <<[op |-> "conj", qs |-> <<T("z"), T("w")>>], T("x")>>] >>

=============================================================================
