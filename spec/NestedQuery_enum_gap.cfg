SPECIFICATION Spec
CONSTANTS
  KindNames = {"nested"}
  QFieldSeq <- FS4
  MaxA = 2
  MaxC = 1
  MaxB = 1
  MaxNodes = 2
  L2Forms = {}
  Ordered = FALSE
  Classes = {"boolx", "disjx"}
  WithMin = TRUE
CHECK_DEADLOCK FALSE
