------------------------------ MODULE GeoGridMC ------------------------------
(***************************************************************************)
(* Exhaustive model checking of GeoGrid.tla on a small lattice, and the    *)
(* enumeration of query cases (with the hit set the algorithm model        *)
(* computes) that the harness replays into real bleve indexes (engine A).  *)
(*                                                                         *)
(* Documents: one document per lattice point plus, for every point, a      *)
(* two-point document {p, opposite(p)} ("one of its indexed points").      *)
(* Queries: every box in edge coordinates including boxes that cross the   *)
(* date line (right < left), rows touching the poles (bottom = 0,          *)
(* top = Side) and empty boxes; every rectangle-shaped polygon; for every  *)
(* point the two decidable distance classes and the distance sort.         *)
(* A query is chosen in two steps so that TLC's workers share the work;    *)
(* the harness replays the states with phase = "ready".                    *)
(***************************************************************************)
EXTENDS GeoGrid, TLC

VARIABLES q,         \* the query
          expected,  \* documents the algorithm model returns
          phase      \* "pick" | "ready"
vars == <<q, expected, phase>>

Opp(p)  == <<Side - 1 - p[1], Side - 1 - p[2]>>
Singles == {{p} : p \in Points}
Pairs   == {{p, Opp(p)} : p \in Points}
Docs    == Singles \cup Pairs

Alg(qq) ==
  CASE qq.kind = "box"  -> BoxQuery(qq, Docs)
    [] qq.kind = "poly" -> PolygonQuery(qq, Docs)
    [] qq.kind = "tiny" -> DistanceTiny(<<qq.x, qq.y>>, Docs)
    [] qq.kind = "all"  -> DistanceAll(Docs)
    [] qq.kind = "sort" -> DistanceTiny(<<qq.x, qq.y>>, Singles)   \* must come first among single-point documents

Init ==
  /\ phase = "pick" /\ expected = {}
  /\ q \in [kind : {"box", "poly"}, left : Edge] \cup [kind : {"tiny", "all", "sort"}, x : Coord]

Pick ==
  /\ phase = "pick" /\ phase' = "ready"
  /\ \/ /\ q.kind = "box"
        /\ \E r \in Edge, b \in Edge, t \in Edge :
              /\ b <= t     \* GeoBoundingBoxQuery.Validate: top left must not be below bottom right
              /\ q' = [kind |-> "box", left |-> q.left, right |-> r, bottom |-> b, top |-> t]
     \/ /\ q.kind = "poly"
        /\ \E r \in Edge, b \in Edge, t \in Edge :
              /\ q.left < r /\ b < t
              /\ q' = [kind |-> "poly", left |-> q.left, right |-> r, bottom |-> b, top |-> t]
     \/ /\ q.kind \in {"tiny", "all", "sort"}
        /\ \E y \in Coord : q' = [kind |-> q.kind, x |-> q.x, y |-> y]
  /\ expected' = Alg(q')

Spec == Init /\ [][Pick]_vars

-----------------------------------------------------------------------------
Ready(k) == phase = "ready" /\ q.kind = k

(* hits = points inside, for every box incl. date-line wrap and pole rows  *)
BoxExact  == Ready("box")  => expected = BoxMeaning(q, Docs)
(* a rectangle-shaped polygon answers like the box                         *)
PolyExact == Ready("poly") => expected = BoxMeaning(q, Docs) /\ expected = BoxQuery(q, Docs)
(* the cover argument itself: terms that are not boundary terms only reach *)
(* points inside; every point inside is reached by some term; boundary      *)
(* terms exist only at the detail shift                                     *)
CoverSound ==
  Ready("box") /\ q.left <= q.right =>
    LET r == [x1 |-> q.left, x2 |-> q.right, y1 |-> q.bottom, y2 |-> q.top]
        T == BoxTerms(r)
    IN /\ \A t \in T : t.s \in IndexedShifts
       /\ \A t \in T : t.boundary => t.s = MaxShift
       /\ \A t \in T : ~t.boundary => \A p \in Points : TermHolds(p, t) => InRect(p, r)
       /\ \A p \in Points : InRect(p, r) => \E t \in T : TermHolds(p, t)
       /\ \A p \in Points : Cardinality({t \in T : TermHolds(p, t)}) <= 1   \* cells are disjoint
DistanceClasses ==
  /\ Ready("tiny") => expected = {d \in Docs : <<q.x, q.y>> \in d}
  /\ Ready("all")  => expected = Docs

(* encoding: round trip within one lattice cell, bit-level interleaving,   *)
(* and a point's term at shift s is the prefix of its code (cell nesting)  *)
MortonRoundTrip ==
  \A p \in Points :
    /\ UnhashLon(Morton(p)) = p[1] /\ UnhashLat(Morton(p)) = p[2]
    /\ BitsOf(Morton(p), 2 * NB) = InterleaveBits(BitsOf(p[1], NB), BitsOf(p[2], NB))
    /\ \A p2 \in Points : p # p2 => Morton(p) # Morton(p2)
ASSUME MortonRoundTrip

=============================================================================
