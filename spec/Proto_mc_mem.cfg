\* C11: in-memory scorch (introducer only, unsafe batches, no merger loop: ForceMerge is rejected at once)
SPECIFICATION Spec
CONSTANTS
  Callers = {c1, c2}
  MaxOps = 2
  LateOps = 1
  Ops = {"batchS", "batchU", "search", "fielddict", "forcemerge", "copyto", "doccount", "stats", "close"}
  Engine = "mem"
  MaxMerges = 0
  PauseMode = "none"
  HazFD = FALSE
  LegacyClose2 = FALSE
  LegacyFMMem = FALSE
SYMMETRY Symm
VIEW View
INVARIANTS TypeOK RWExclusion LockBalanced NoPanic ContractHolds
  CloseReturnMeansStopped WriterMeansQuiescent BatchNeverSeesClose NoOrphanAck ForceMergeSingle
CHECK_DEADLOCK TRUE
