SPECIFICATION Spec
CONSTANTS
  Boxes <- BoxesMC
  Offs <- OffsMC
INVARIANTS Disjoint BothKinds CrossingSeen
CHECK_DEADLOCK FALSE
