\* C11: upsidedown (no background goroutines: the index RW lock and the open flag only)
SPECIFICATION Spec
CONSTANTS
  Callers = {c1, c2}
  MaxOps = 2
  LateOps = 1
  Ops = {"batchS", "batchU", "search", "fielddict", "copyto", "doccount", "stats", "close"}
  Engine = "ud"
  MaxMerges = 0
  PauseMode = "none"
  HazFD = FALSE
  LegacyClose2 = FALSE
  LegacyFMMem = FALSE
SYMMETRY Symm
VIEW View
INVARIANTS TypeOK RWExclusion LockBalanced NoPanic ContractHolds
  CloseReturnMeansStopped WriterMeansQuiescent BatchNeverSeesClose NoOrphanAck ForceMergeSingle
CHECK_DEADLOCK TRUE
