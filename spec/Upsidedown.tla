----------------------------- MODULE Upsidedown ------------------------------
(***************************************************************************)
(* The upsidedown index (index/upsidedown/upsidedown.go) at the level of   *)
(* its KV rows: term-frequency rows TF(field, term, doc), dictionary rows   *)
(* Dict(field, term) = number of documents containing the term (maintained *)
(* with a merge operator: +1 / -1 operands, saturating at 0), back-index    *)
(* rows Back(doc) = the TF rows (and stored rows) written for the document, *)
(* and the cached docCount.                                                *)
(*                                                                         *)
(* Update / Delete / Batch compute a DIFF between the document's old back   *)
(* index row and its new rows (mergeOldAndNew): rows in both are updated in *)
(* place, new ones are added (+1 on the dictionary), vanished ones deleted  *)
(* (-1).  A single field is modelled (rows of different fields never        *)
(* interact); a document's content is its set of terms.                     *)
(*                                                                         *)
(* Refinement target: Index.tla's map (doc -> latest content).              *)
(***************************************************************************)
EXTENDS Naturals, FiniteSets, Sequences, TLC

CONSTANTS Docs, Terms, MaxOps

VARIABLES tf,        \* set of <<term, doc>>        (TermFrequencyRow keys)
          dict,      \* [Terms -> Nat]              (DictionaryRow counts; a row with count 0 may linger)
          back,      \* [Docs -> [p, ts]]   (BackIndexRow: present?, the terms written for the doc)
          docCount,  \* cached count of documents
          content,   \* [Docs -> [p, ts]]   abstract map (what Index.tla calls docs)
          nops
vars == <<tf, dict, back, docCount, content, nops>>

\* a document slot: present or not, with its set of terms (TLC cannot compare a
\* set with a string, hence records)
Gone == [p |-> FALSE, ts |-> {}]
Has(ts) == [p |-> TRUE, ts |-> ts]
Contents == (SUBSET Terms) \ {{}}      \* every real document has at least the _id term

Init == /\ tf = {} /\ dict = [t \in Terms |-> 0] /\ back = [d \in Docs |-> Gone]
        /\ docCount = 0 /\ content = [d \in Docs |-> Gone] /\ nops = 0

\* diff of one document: mergeOldAndNew(backIndexRow, new rows)
Old(d) == back[d].ts
AddRows(d, ts) == ts \ Old(d)
DelRows(d, ts) == Old(d) \ ts

\* A batch maps every document to keep / delete / put(new content).
\* All diffs are computed against the back index as it was when the batch
\* started, the dictionary deltas are summed per term and applied with the
\* saturating merge operator (row_merge.go FullMerge), and everything is
\* written in one KV batch.
Ops == [Docs -> [k : {"keep", "del"}, ts : {{}}] \cup [k : {"put"}, ts : Contents]]
NewTerms(op, d) == IF op[d].k = "keep" THEN Old(d) ELSE op[d].ts
Touched(op) == { d \in Docs : op[d].k # "keep" }
Delta(op, t) == Cardinality({ d \in Touched(op) : t \in AddRows(d, NewTerms(op, d)) })
Minus(op, t) == Cardinality({ d \in Touched(op) : t \in DelRows(d, NewTerms(op, d)) })

Batch(op) ==
  /\ nops < MaxOps
  /\ tf' = (tf \ { <<t, d>> \in Terms \X Docs : d \in Touched(op) /\ t \in DelRows(d, NewTerms(op, d)) })
               \cup { <<t, d>> \in Terms \X Docs : d \in Touched(op) /\ t \in NewTerms(op, d) }
  /\ dict' = [ t \in Terms |-> LET plus == Delta(op, t) minus == Minus(op, t) IN
                 IF minus > dict[t] + plus THEN 0 ELSE (dict[t] + plus) - minus ]
  /\ back' = [ d \in Docs |-> CASE op[d].k = "keep" -> back[d]
                                [] op[d].k = "del" -> Gone
                                [] OTHER -> Has(op[d].ts) ]
  /\ docCount' = (docCount + Cardinality({ d \in Docs : op[d].k = "put" /\ ~back[d].p }))
                          - Cardinality({ d \in Docs : op[d].k = "del" /\ back[d].p })
  /\ content' = [ d \in Docs |-> CASE op[d].k = "keep" -> content[d]
                                   [] op[d].k = "del" -> Gone
                                   [] OTHER -> Has(op[d].ts) ]
  /\ nops' = nops + 1

Next == \E op \in Ops : Batch(op)
Spec == Init /\ [][Next]_vars

-----------------------------------------------------------------------------
\* row-level invariants
DictMatchesTF == \A t \in Terms : dict[t] = Cardinality({ d \in Docs : <<t, d>> \in tf })
BackMatchesTF == \A d \in Docs : Old(d) = { t \in Terms : <<t, d>> \in tf }
CountMatchesBack == docCount = Cardinality({ d \in Docs : back[d].p })
\* refinement of the abstract map: the rows describe exactly the latest content
RefinesIndex == \A d \in Docs : back[d] = content[d]
=============================================================================
