SPECIFICATION Spec
CONSTANTS
 Ids = {"a", "b"}
 MaxB = 2
 BatchShapes <- Shapes2
 Writers = {w1}
 Safe = TRUE
 KeepN = 1
 MaxEp = 7
 MaxSid = 4
 WithReader = FALSE
 WithCopy = FALSE
 WithMerger = TRUE
 WithPurge = TRUE
 WithMemMerge = FALSE
 MaxMergeInputs = 2
 AsyncRelease = FALSE
  WithMergeFail = TRUE
 MaxRestarts = 0
 SidFromRoot = FALSE
 ForgetInherited = FALSE
 BuilderBase = FALSE
 CopySchedById = FALSE
 MaxOpens = 2
CONSTRAINT Bound
INVARIANTS RootIsReplay UniqueLive HeldAreReplays EveryBoltIsAState Durable NewestLoads BoltFilesOnDisk RootFilesOnDisk RootFilesProtected NoOrphansWhenQuiescent RollbackOK RetentionWhenQuiescent NewNamesUnused
PROPERTIES LayoutStutters ReaderStable
CHECK_DEADLOCK FALSE
