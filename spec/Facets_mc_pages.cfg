\* C10 thorough: 3 documents, 3 values, 6 page settings (Size/From 0..10, both directions)
SPECIFICATION Spec
CONSTANTS
  NDocs = 3
  Vals = {1, 2, 3}
  Sizes = {0, 1, 2, 3, 4, 5}
  Pages <- PagesFull
INVARIANTS TypeOK Refines TallyBeforeStore FacetsAreTheMeaning CountsAreDocCounts Ordered Balanced Accounted PageOK
CHECK_DEADLOCK FALSE
