SPECIFICATION Spec
CONSTANTS
 Ids = {"a", "b"}
 MaxB = 2
 BatchShapes <- Shapes2
 Writers = {w1}
 Safe = FALSE
 KeepN = 1
 MaxEp = 7
 MaxSid = 4
 WithReader = TRUE
 WithCopy = FALSE
 WithMerger = TRUE
 WithPurge = TRUE
 WithMemMerge = FALSE
 MaxMergeInputs = 2
 AsyncRelease = FALSE
  WithMergeFail = FALSE
 MaxRestarts = 0
 SidFromRoot = FALSE
 ForgetInherited = FALSE
 BuilderBase = FALSE
 CopySchedById = FALSE
 MaxOpens = 1
CONSTRAINT Bound
INVARIANTS ReaderFilesOnDisk
PROPERTIES LayoutStutters ReaderStable
CHECK_DEADLOCK FALSE
