\* C17: key table (all rows), query trees, sort keys, search requests
SPECIFICATION Spec
CONSTANT Thorough = FALSE
INVARIANT DispatchOK
INVARIANT Unambiguous
INVARIANT TreeOK
INVARIANT SortRoundTrip
INVARIANT RequestRoundTrip
CHECK_DEADLOCK FALSE
