SPECIFICATION Spec
CONSTANTS
  MaxN = 5
  NS = 2
  AdvMode = "keys"
INVARIANT CallOK
INVARIANT QueueOK
INVARIANT TypeOK
CHECK_DEADLOCK FALSE
