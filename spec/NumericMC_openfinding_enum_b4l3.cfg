\* OPEN FINDING demonstration: expected to be violated (enumeration blow-up), not a passing config
CONSTANTS
  B = 4
  L = 3
  G = 2
  ShiftStart = 32
  FE = 2
SPECIFICATION SplitSpec
CHECK_DEADLOCK FALSE
INVARIANTS EnumLinear
