\* generated by the builder of C02/C08; see MCSearchers.tla for the families
SPECIFICATION Spec
CONSTANTS
  SegSizes <- Segs0
  Deleted = {}
  OneHitEnc = TRUE
  ScoreNone = FALSE
  HeapTakeover = 10
  MaxCalls = 1
  NTerms = 1
  Queries <- QTerm
  FirstAdvanceOK <- FirstAdvAlways
VIEW View
INVARIANT NoPanic
CHECK_DEADLOCK FALSE
