\* generated with the builder script of C02/C08; families: MCSearchers.tla
SPECIFICATION Spec
CONSTANTS
  SegSizes <- Segs0
  Deleted = {}
  OneHitEnc = TRUE
  ScoreNone = FALSE
  HeapTakeover = 10
  MaxCalls = 1
  NTerms = 1
  Family = "term"
  DropK1 = FALSE
  Queries <- MCQueries
  FixEmptySnapshot = FALSE
  FixBoolAdvance = FALSE
  FixShouldMin = FALSE
  FirstAdvanceOK <- FirstAdvAlways
VIEW View
INVARIANT NoPanic
CHECK_DEADLOCK FALSE
