// Package c12: "Needed segment files are never removed; unneeded files do not
// accumulate".
//
// Model decides: spec/ScorchDisk.tla — BoltFilesOnDisk, RootFilesOnDisk,
// CopyFilesOnDisk, ReaderFilesOnDisk (own config: open known finding),
// NewestLoads, NoOrphansWhenQuiescent over every interleaving of persister,
// merger, purger, reader and copy steps (configs disk / reader / copy).
//
// Code is bound by: in-process runs of seeded workloads on disk scorch with
// the verif hooks (seeded pauses at the steps between "file written",
// "introduced", "committed", "purged"), a sampler that continuously takes
// consistent observations of (bolt snapshots, root, held readers, running
// copies) versus the directory listing, the observation at quiescence and the
// open file descriptors after Close; TLC judges every observation
// (spec/trace/TraceFiles.tla).
package c12

import (
	"fmt"
	"math/rand"
	"os"
	"path/filepath"
	"strings"
	"sync"
	"time"

	bleve "github.com/blevesearch/bleve/v2"
	"github.com/blevesearch/bleve/v2/index/scorch"
	"sync/atomic"

	"verif/harness/internal/core"
	"verif/harness/internal/sx"
)

func init() {
	core.Register(&core.Check{Prop: "C12", Level: "model_checking", Run: run})
}

type scenario struct {
	Name    string
	WL      sx.Workload
	Readers bool
	Copies  bool
	Merges  bool
	Perturb float64
	Restart bool // the index is closed and opened again half way (ScorchDisk!Restart)
}

func scenarios(c *core.Ctx) []scenario {
	rng := rand.New(rand.NewSource(c.Seed * 7919))
	var out []scenario
	add := func(name string, nb, writers int, safe bool, kv map[string]interface{}, readers, copies, merges bool) {
		wl := sx.RandomWorkload(rng, nb, writers, safe, kv)
		wl.Name = name
		out = append(out, scenario{Name: name, WL: wl, Readers: readers, Copies: copies, Merges: merges, Perturb: 0.5})
	}
	n := c.Pick(1, 6)
	for i := 0; i < n; i++ {
		add(fmt.Sprintf("unsafe-2w-%d", i), c.Pick(14, 40), 2, false, nil, true, true, true)
		add(fmt.Sprintf("safe-2w-keep3-%d", i), c.Pick(8, 20), 2, true, map[string]interface{}{"numSnapshotsToKeep": 3}, true, false, true)
		add(fmt.Sprintf("unsafe-3workers-%d", i), c.Pick(14, 40), 2, false, map[string]interface{}{"scorchPersisterOptions": map[string]interface{}{
			"NumPersisterWorkers": 3, "MaxSizeInMemoryMergePerWorker": 1}}, false, true, true)
		add(fmt.Sprintf("unsafe-1w-keep2-%d", i), c.Pick(12, 30), 1, false, map[string]interface{}{"numSnapshotsToKeep": 2}, true, true, false)
	}
	// the application vetoes merges for a while through scorch's event callback
	registerVeto()
	for i := 0; i < n; i++ {
		add(fmt.Sprintf("unsafe-2w-veto-%d", i), c.Pick(14, 40), 2, false, map[string]interface{}{"eventCallbackName": "verif-c12-veto"}, true, false, true)
	}
	// ScorchDisk!Restart (ScorchDisk_mc_restart.cfg, RetentionWhenQuiescent): the snapshots a new
	// process life inherits are eligible for removal like the ones it makes itself
	for i := 0; i < n; i++ {
		add(fmt.Sprintf("safe-1w-keep3-restart-%d", i), c.Pick(12, 24), 1, true, map[string]interface{}{"numSnapshotsToKeep": 3}, true, false, false)
		out[len(out)-1].Restart = true
	}
	if c.Thorough() {
		add("long-unsafe", 300, 2, false, nil, true, true, true)
	}
	return out
}

var vetoOnce sync.Once
var vetoCount int64

// registerVeto installs an application callback that vetoes two out of three
// merge attempts (EventKindPreMergeCheck) — a documented use of the callback.
func registerVeto() {
	vetoOnce.Do(func() {
		scorch.RegistryEventCallbacks["verif-c12-veto"] = func(e scorch.Event) bool {
			if e.Kind == scorch.EventKindPreMergeCheck {
				n := atomic.AddInt64(&vetoCount, 1)
				if n%3 != 0 {
					time.Sleep(200 * time.Microsecond)
					return false
				}
			}
			return true
		}
	})
}

// runScenario executes one scenario and returns the records for TraceFiles.
func runScenario(c *core.Ctx, sc scenario, seed int64) ([]any, error) {
	dir := filepath.Join(c.TempDir("c12"), "idx")
	defer os.RemoveAll(filepath.Dir(dir))
	r, err := sx.Start(dir, sc.WL, seed, sc.Perturb)
	if err != nil {
		return nil, err
	}
	rng := rand.New(rand.NewSource(seed))
	r.SetHolds(sx.DefaultHolds)
	r.Think = 4 * time.Millisecond
	r.StartSampler(300 * time.Microsecond)
	stop := make(chan struct{})
	var wg sync.WaitGroup
	var reopenGate sync.RWMutex
	if sc.Readers {
		wg.Add(1)
		go func() {
			defer wg.Done()
			for {
				select {
				case <-stop:
					return
				default:
				}
				reopenGate.RLock() // no reader is opened or closed while the index is being reopened
				id, err := r.OpenReader()
				if err == nil {
					time.Sleep(time.Duration(rng.Intn(4000)) * time.Microsecond)
					r.CloseReader(id)
				}
				reopenGate.RUnlock()
				time.Sleep(time.Duration(rng.Intn(1500)) * time.Microsecond)
			}
		}()
	}
	var copyErr error
	var copyMu sync.Mutex
	if sc.Copies {
		wg.Add(1)
		go func() {
			defer wg.Done()
			n := 0
			for {
				select {
				case <-stop:
					return
				default:
				}
				time.Sleep(time.Duration(2000+rng.Intn(6000)) * time.Microsecond)
				dest := filepath.Join(filepath.Dir(dir), fmt.Sprintf("copy-%d", n))
				n++
				if cp, ok := r.Idx.(bleve.IndexCopyable); ok {
					// two overlapping copies (usually of the same root epoch)
					var cwg sync.WaitGroup
					for k := 0; k < 2; k++ {
						cwg.Add(1)
						go func(k int) {
							defer cwg.Done()
							d := fmt.Sprintf("%s-%d", dest, k)
							if err := cp.CopyTo(bleve.FileSystemDirectory(d)); err != nil {
								copyMu.Lock()
								if copyErr == nil {
									copyErr = err
								}
								copyMu.Unlock()
							}
							_ = os.RemoveAll(d)
						}(k)
					}
					cwg.Wait()
				}
			}
		}()
	}
	if sc.Merges {
		wg.Add(1)
		go func() {
			defer wg.Done()
			for {
				select {
				case <-stop:
					return
				default:
				}
				time.Sleep(time.Duration(3000+rng.Intn(8000)) * time.Microsecond)
				switch rng.Intn(4) {
				case 0:
					_ = r.ForceMergeCancelled(0) // a merge that is cancelled before it starts
				case 1:
					_ = r.ForceMergeCancelled(time.Duration(rng.Intn(1500)) * time.Microsecond) // ... or half way
				default:
					_ = r.ForceMerge()
				}
			}
		}()
	}
	var werr error
	if sc.Restart {
		all := r.WL.Batches
		r.WL.Batches = all[:len(all)/2]
		werr = r.RunWriters()
		if werr == nil {
			r.Quiesce(20 * time.Second)
			r.StopSampler()
			reopenGate.Lock()
			err := r.Reopen()
			reopenGate.Unlock()
			if err != nil {
				return nil, fmt.Errorf("%s: reopen: %v", sc.Name, err)
			}
			r.StartSampler(300 * time.Microsecond)
			r.WL.Batches = all[len(all)/2:]
			werr = r.RunWriters()
		}
		r.WL.Batches = all
	} else {
		werr = r.RunWriters()
	}
	close(stop)
	wg.Wait()
	if werr != nil {
		_ = r.Close()
		return nil, fmt.Errorf("%s: batch failed: %v", sc.Name, werr)
	}
	r.StopSampler()
	quiet := r.Settle(30 * time.Second)
	if quiet {
		r.Sample("quiescent")
	}
	if err := r.Close(); err != nil {
		return nil, fmt.Errorf("%s: close: %v", sc.Name, err)
	}
	if !quiet {
		return nil, fmt.Errorf("%s: index did not quiesce within 30s", sc.Name)
	}
	recs := filesRecords(r.Rec.Events())
	if copyErr != nil {
		// a copy that fails while the index is healthy means a file it needed vanished
		c.Violation("c12/copy-failed", fmt.Sprintf("%s: CopyTo failed during the run: %v", sc.Name, copyErr), map[string]any{"scenario": sc.Name, "seed": seed})
	}
	return recs, nil
}

var markOnly, mergeOutInRoot, mergeReqs, purgeSteps int64

// filesRecords projects recorded events onto the vocabulary of TraceFiles.tla.
func filesRecords(evs []sx.Event) []any {
	recs := []any{map[string]any{"ev": "Reset"}}
	mergeOut := map[string]bool{}
	for _, ev := range evs {
		switch ev["ev"] {
		case "Sample", "Closed":
			recs = append(recs, map[string]any(ev))
			if ev["ev"] == "Sample" {
				// vacuity accounting for MergedRootFilesProtected: samples in which a merge
				// output sits in the root protected by its ineligible mark alone
				named := map[string]bool{}
				if l, ok := ev["namedAny"].([]any); ok {
					for _, f := range l {
						named[fmt.Sprint(f)] = true
					}
				}
				if l, ok := ev["root"].([]any); ok {
					for _, f := range l {
						if mergeOut[fmt.Sprint(f)] {
							atomic.AddInt64(&mergeOutInRoot, 1)
						}
						if mergeOut[fmt.Sprint(f)] && !named[fmt.Sprint(f)] {
							atomic.AddInt64(&markOnly, 1)
							break
						}
					}
				}
			}
		case "PurgeZap":
			if _, ok := ev["rootfiles"]; ok {
				atomic.AddInt64(&purgeSteps, 1)
				recs = append(recs, map[string]any{"ev": "PurgeZap", "file": ev["file"], "rootfiles": ev["rootfiles"], "named": ev["named"], "inel": ev["inel"], "copysched": ev["copysched"]})
			}
		case "MergeRequest":
			if fm, _ := ev["filemerge"].(bool); fm {
				files := []any{}
				atomic.AddInt64(&mergeReqs, 1)
				if ids, ok := ev["new"].([]any); ok {
					for _, id := range ids {
						if n, ok := id.(int); ok {
							mergeOut[fmt.Sprintf("%012x.zap", n)] = true
							files = append(files, fmt.Sprintf("%012x.zap", n))
						}
					}
				}
				recs = append(recs, map[string]any{"ev": "MergeRequest", "files": files})
			}
		}
	}
	return recs
}

func run(c *core.Ctx) error {
	c.SetRule("one evaluation = one consistent observation (bolt snapshots ∩ two reads, root, held readers, running copies vs directory listing) of a real disk scorch index taken while seeded workloads, readers, copies and forced merges run with pauses injected at the persist/merge/purge steps; plus one quiescent observation and one fd check per run. " +
		"distinct_nontrivial = distinct (bolt epochs+files, disk listing, root files, reader files, copy files) observations in which some needed-file set is non-empty")
	c.Assume("Linux: an unlinked file stays readable through an existing mmap; the check looks at directory entries")
	// 1. the model decides
	// builder: the index was made by the offline builder (the id of its segment is not the
	// number of its file) and is then written, merged, purged and copied online
	// restart: the process dies at any instant and the index is opened again (KeepN = 2)
	cfgs := []string{"ScorchDisk_mc_disk.cfg", "ScorchDisk_mc_reader.cfg", "ScorchDisk_mc_builder.cfg", "ScorchDisk_mc_restart.cfg"}
	if c.Thorough() {
		// async release of epochs (2.1M states), the larger bounds (1.0M) and the in-memory
		// merge of the persister with unsafe batches (1.6M): about 2 minutes each on 8 workers
		cfgs = append(cfgs, "ScorchDisk_mc_copy.cfg", "ScorchDisk_mc_disk_thorough.cfg", "ScorchDisk_mc_disk_thorough_big.cfg", "ScorchDisk_mc_memmerge_thorough.cfg", "ScorchDisk_mc_restart_thorough.cfg", "ScorchDisk_mc_builder_restart.cfg")
	}
	for _, cfg := range cfgs {
		if _, ok := c.ModelCheck("ScorchDisk", cfg, core.Workers(8), core.Timeout(25*time.Minute), core.Heap(8000)); !ok {
			return nil
		}
	}
	// a new process life that does not register the snapshots it inherits as eligible for
	// removal keeps them for ever: refuted (RetentionWhenQuiescent)
	if _, ok := c.ModelRefutes("ScorchDisk", "ScorchDisk_mc_restart_forget.cfg", "RetentionWhenQuiescent", core.Workers(8), core.Timeout(25*time.Minute), core.Heap(8000)); !ok {
		return nil
	}
	// the reader clause has an open known finding: TLC refutes it in a config of
	// its own; the counterexample is the schedule the directed scenario replays
	if res, ok := c.ModelRefutes("ScorchDisk", "ScorchDisk_mc_readerfinding.cfg", "ReaderFilesOnDisk", core.Workers(8), core.Timeout(25*time.Minute), core.Heap(8000)); ok && res != nil {
		var sched []string
		for _, st := range res.CounterEx {
			sched = append(sched, st.Action)
		}
		c.Extra("reader_finding_model_schedule", sched)
	} else if !ok {
		return nil
	}
	// 2. observations of the real code
	var all []any
	owner := []string{}
	for i, sc := range scenarios(c) {
		recs, err := runScenario(c, sc, c.Seed*1000+int64(i))
		if err != nil {
			return err
		}
		c.Logf("scenario %s: %d observations", sc.Name, len(recs))
		for _, r := range recs {
			all = append(all, r)
			owner = append(owner, sc.Name)
			m := r.(map[string]any)
			if m["ev"] == "Sample" {
				c.Eval(1)
				if len(m["bolt"].([]any))+len(m["root"].([]any))+len(m["readers"].([]any))+len(m["copyheld"].([]any)) > 0 {
					c.Distinct(core.Canon([]any{m["bolt"], m["disk"], m["root"], m["readers"], m["copyheld"]}))
				}
			}
		}
		if i == 0 {
			for _, r := range recs {
				m := r.(map[string]any)
				if m["ev"] == "Sample" && len(m["bolt"].([]any)) > 0 && len(m["root"].([]any)) > 0 {
					c.Sample(m)
					break
				}
			}
		}
	}
	// Engine S: TLC-generated schedules (persister, merger, purger, copy and reader
	// steps interleaved as in simulated behaviours of ScorchDisk.tla), one
	// consistent observation after every step
	for _, safe := range []bool{false, true} {
		scheds, err := sx.SimulatedSchedules(c, c.Pick(5, 50), c.Pick(60, 80), c.Seed*3+7, safe)
		if err != nil {
			return err
		}
		nobs := 0
		for i, sch := range scheds {
			base := c.TempDir("c12s")
			name := fmt.Sprintf("tlc-schedule-%d(safe=%v)", i, safe)
			r, sched, err := sx.RunSchedule(filepath.Join(base, "idx"), sch, c.Seed, func(r *sx.Run, i int, st sx.SchedStep) {
				r.Sample("step")
			})
			if err != nil {
				return err
			}
			if sched.CopyErr != nil {
				c.Violation("c12/copy-failed", fmt.Sprintf("%s: CopyTo failed: %v", name, sched.CopyErr), map[string]any{"scenario": name, "schedule": sch})
			}
			if r.Settle(30 * time.Second) {
				r.Sample("quiescent")
			}
			if err := r.Close(); err != nil {
				return err
			}
			os.RemoveAll(base)
			for _, rec := range filesRecords(r.Rec.Events()) {
				{
					m := rec.(map[string]any)
					ev := m
					all = append(all, m)
					owner = append(owner, name)
					if ev["ev"] == "Sample" {
						nobs++
						c.Eval(1)
						if len(m["bolt"].([]any))+len(m["root"].([]any))+len(m["readers"].([]any))+len(m["copyheld"].([]any)) > 0 {
							c.Distinct(core.Canon([]any{m["bolt"], m["disk"], m["root"], m["readers"], m["copyheld"]}))
						}
					}
				}
			}
		}
		c.Logf("%d TLC-generated schedules executed (safe=%v): %d observations", len(scheds), safe, nobs)
	}
	for _, mode := range []string{"directed-reader", "directed-copy", "directed-copy-builder-base"} {
		useCopy := mode != "directed-reader"
		var dres *sx.DirectedResult
		var err error
		if mode == "directed-copy-builder-base" {
			dres, err = sx.DirectedHeldEpochBuilt(c.TempDir("c12d"), c.Seed)
		} else {
			dres, err = sx.DirectedHeldEpoch(c.TempDir("c12d"), c.Seed, useCopy)
		}
		if err != nil {
			return err
		}
		if dres.CopyErr != nil {
			c.Violation("c12/copy-failed", fmt.Sprintf("%s: CopyTo failed although its files were scheduled: %v", mode, dres.CopyErr), map[string]any{"scenario": mode})
		}
		recs := dres.Samples
		name := mode
		c.Logf("scenario %s: %d observations", name, len(recs))
		for _, r := range recs {
			all = append(all, r)
			owner = append(owner, name)
			c.Eval(1)
			m := r.(map[string]any)
			c.Distinct(core.Canon([]any{m["bolt"], m["disk"], m["root"], m["readers"], m["copyheld"]}))
		}
	}
	// Close arrives while the persister stands between "segment files written and opened" and
	// "handed to the introducer" (ScorchDisk: Close enabled in every persister state): nothing
	// of the index may stay open afterwards
	// ... and the same for the file merger standing between "merged file written and opened"
	// and "handed to the introducer" (ScorchDisk: MPlanWrite done, MIntro not yet)
	for k := 0; k < c.Pick(9, 20); k++ {
		base := c.TempDir("c12c")
		wl := sx.Workload{Name: "close-mid-persist", Writers: 1, Safe: false, KVConfig: map[string]interface{}{"unsafe_batch": true,
			"scorchMergePlanOptions": map[string]interface{}{"FloorSegmentSize": 1}}}
		r, err := sx.Start(filepath.Join(base, "idx"), wl, c.Seed+int64(k), 0)
		if err != nil {
			return err
		}
		r.Quiesce(20 * time.Second)
		point := []string{"persist.beforeIntro", "persist.filesWritten", "persist.beforeCommit", "merge.beforeIntro", "merge.beforeIntro", "merge.written"}[k%6]
		if strings.HasPrefix(point, "merge.") {
			for _, id := range []string{"a", "b", "c"} {
				if _, err := r.Submit(sx.BatchSpec{W: 1, Puts: []string{id}, Dels: []string{}}); err != nil {
					return err
				}
				r.Quiesce(20 * time.Second)
			}
		}
		r.SetHolds([]sx.HoldRule{{Point: point, Until: "CloseBegin", Count: 1, Timeout: 10 * time.Second, Prob: 1, Once: true}})
		if strings.HasPrefix(point, "merge.") {
			go func() { _ = r.ForceMerge() }()
		} else if _, err := r.Submit(sx.BatchSpec{W: 1, Puts: []string{"a", "b"}, Dels: []string{}}); err != nil {
			return err
		}
		parked := r.WaitParked(point, 1, 10*time.Second)
		if err := r.Close(); err != nil {
			return err
		}
		os.RemoveAll(base)
		name := "close-mid-persist@" + point
		n := 0
		for _, rec := range filesRecords(r.Rec.Events()) {
			m := rec.(map[string]any)
			if m["ev"] == "Closed" || m["ev"] == "Reset" {
				all = append(all, m)
				owner = append(owner, name)
				n++
			}
		}
		if parked {
			c.AddExtra("closes_while_the_persister_or_merger_was_parked_mid_round", 1)
		}
		c.Eval(1)
	}
	// merge outputs the persister never recorded drop out of the root (everything deleted)
	for k := 0; k < c.Pick(2, 5); k++ {
		dres, err := sx.DirectedDroppedMergeOutput(c.TempDir("c12w"), c.Seed+int64(k))
		if err != nil {
			return err
		}
		name := "directed-merge-output-dropped"
		for _, r := range filesRecords(dres.Events) {
			all = append(all, r)
			owner = append(owner, name)
			if m := r.(map[string]any); m["ev"] == "Sample" {
				c.Eval(1)
			}
		}
	}
	// the failed-merge schedule of ScorchDisk's MFail action
	for k := 0; k < c.Pick(2, 6); k++ {
		fres, err := sx.DirectedFailedMerge(c.TempDir("c12f"), c.Seed+int64(k))
		if err != nil {
			return err
		}
		name := "directed-mergefail"
		recs := filesRecords(fres.Events)
		c.Logf("scenario %s: %d observations, first merge introduced %d file(s), %d merge(s) failed", name, len(recs), fres.Merged, fres.FailedMerges)
		c.AddExtra("directed_mergefail_runs", 1)
		if fres.FailedMerges > 0 && fres.Merged > 0 {
			c.AddExtra("directed_mergefail_runs_with_a_failed_merge_over_unrecorded_merge_outputs", 1)
		}
		if ap := fres.AtPurge; ap != nil {
			if op, _ := ap["opened"].(bool); !op {
				c.Violation("c12/mergefail-reopen-at-purge", fmt.Sprintf("directed-mergefail: a copy of the directory taken right after the purge does not open: %v", ap["err"]), map[string]any{"scenario": name, "seed": c.Seed + int64(k)})
			} else if n, _ := ap["count"].(int); n != 6 {
				c.Violation("c12/mergefail-reopen-at-purge", fmt.Sprintf("directed-mergefail: a copy of the directory taken right after the purge opens with %d of 6 documents (silent fallback to older data)", n), map[string]any{"scenario": name, "seed": c.Seed + int64(k), "reopen": ap})
			}
		}
		if fres.Reopen != nil {
			if op, _ := fres.Reopen["opened"].(bool); !op {
				c.Violation("c12/mergefail-reopen", fmt.Sprintf("directed-mergefail: reopening after a failed merge and a purge failed: %v", fres.Reopen["err"]), map[string]any{"scenario": name, "seed": c.Seed + int64(k)})
			} else if n, _ := fres.Reopen["count"].(int); n != 6 {
				c.Violation("c12/mergefail-reopen", fmt.Sprintf("directed-mergefail: reopening after a failed merge and a purge found %d of 6 documents", n), map[string]any{"scenario": name, "seed": c.Seed + int64(k), "reopen": fres.Reopen})
			}
		}
		for _, r := range recs {
			all = append(all, r)
			owner = append(owner, name)
			m := r.(map[string]any)
			if m["ev"] == "Sample" {
				c.Eval(1)
				c.Distinct(core.Canon([]any{m["bolt"], m["disk"], m["root"], m["readers"], m["copyheld"]}))
			}
		}
	}
	judge(c, "TraceFiles.cfg", all, owner)
	judge(c, "TraceFilesReader.cfg", all, owner)
	c.Extra("samples_with_a_merge_output_in_root_protected_by_mark_only", atomic.LoadInt64(&markOnly))
	c.Extra("file_merges_recorded", atomic.LoadInt64(&mergeReqs))
	c.Extra("purge_steps_judged", atomic.LoadInt64(&purgeSteps))
	c.Extra("sample_root_files_that_are_merge_outputs", atomic.LoadInt64(&mergeOutInRoot))
	c.SetExhaustive(false)
	return nil
}

func judge(c *core.Ctx, cfg string, all []any, owner []string) {
	bad, err := c.JudgeRecords("TraceFiles", cfg, all, 8, core.Timeout(10*time.Minute))
	if err != nil {
		c.Inconclusive(err.Error())
		return
	}
	c.Traces(1)
	for i, inv := range bad {
		m := all[i].(map[string]any)
		sig := "c12/" + inv
		if inv == "ReaderFilesOnDisk" {
			sig = "reader-held-unpersisted-epoch-file-unlinked"
		}
		c.Violation(sig, fmt.Sprintf("%s violated in scenario %s (observation tag %v)", inv, owner[i], m["tag"]), map[string]any{"scenario": owner[i], "observation": m})
	}
}
