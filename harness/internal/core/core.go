// Package core is the shared runtime of all property checks: tier/seed
// handling, scratch directories, TLC invocation with evidence accounting,
// verdict discipline (VIOLATION / KNOWN-FINDING / DRIFT / inconclusive) and
// the evidence file.
package core

import (
	"crypto/sha1"
	"encoding/hex"
	"encoding/json"
	"fmt"
	"math/rand"
	"os"
	"path/filepath"
	"sort"
	"strconv"
	"strings"
	"sync"
	"time"

	"verif/harness/internal/tlc"
)

const VerifRoot = "/verif"

type CheckFunc func(c *Ctx) error

type Check struct {
	Prop  string
	Level string // evidence "level"
	Run   CheckFunc
	// Replay re-executes a saved replay artefact; optional.
	Replay func(c *Ctx, path string) error
}

var registry = map[string]*Check{}

func Register(ch *Check) { registry[ch.Prop] = ch }

func Lookup(prop string) *Check { return registry[prop] }

func Props() []string {
	var out []string
	for k := range registry {
		out = append(out, k)
	}
	sort.Strings(out)
	return out
}

type KnownFinding struct {
	Property string `json:"property"`
	Key      string `json:"key"`
	What     string `json:"what"`
	Status   string `json:"status"` // open | fixed
	Commit   string `json:"commit,omitempty"`
	Line     string `json:"line,omitempty"`
}

type tlcRun struct {
	Module    string  `json:"module"`
	Config    string  `json:"config"`
	Mode      string  `json:"mode"`
	Generated int64   `json:"states_generated"`
	Distinct  int64   `json:"distinct_states"`
	Depth     int     `json:"depth,omitempty"`
	WallS     float64 `json:"wall_s"`
	OK        bool    `json:"ok"`
}

type Ctx struct {
	Prop    string
	Level   string
	Tier    string
	Seed    int64
	SpecDir string
	Scratch string
	Rand    *rand.Rand

	start time.Time
	mu    sync.Mutex

	states, transitions int64
	traces              int64
	evaluations         int64
	distinct            map[string]struct{}
	samples             []any
	maxSamples          int
	rule                string
	exhaustive          *bool
	tlcRuns             []tlcRun
	extra               map[string]any
	assumptions         []string
	drift               []string
	violations          []violation
	knownHit            map[string]bool
	inconclusive        []string
	known               []KnownFinding
}

type violation struct {
	Sig, What, Replay string
}

func NewCtx(prop, level string) (*Ctx, error) {
	tier := os.Getenv("VERIF_TIER")
	if tier != "thorough" {
		tier = "quick"
	}
	seed := int64(1)
	if s := os.Getenv("VERIF_SEED"); s != "" {
		if v, err := strconv.ParseInt(s, 10, 64); err == nil {
			seed = v
		}
	}
	base := os.Getenv("VERIF_SCRATCH_BASE")
	if base == "" {
		base = "/dev/shm"
		if st, err := os.Stat(base); err != nil || !st.IsDir() {
			base = os.TempDir()
		}
	}
	scratch, err := os.MkdirTemp(base, "verif-"+prop+"-")
	if err != nil {
		return nil, err
	}
	c := &Ctx{
		Prop: prop, Level: level, Tier: tier, Seed: seed,
		SpecDir: filepath.Join(VerifRoot, "spec"), Scratch: scratch,
		Rand:  rand.New(rand.NewSource(seed)),
		start: time.Now(), distinct: map[string]struct{}{}, maxSamples: 6,
		extra: map[string]any{}, knownHit: map[string]bool{},
	}
	c.loadKnown()
	return c, nil
}

func (c *Ctx) loadKnown() {
	b, err := os.ReadFile(filepath.Join(VerifRoot, "known_findings.json"))
	if err != nil {
		return
	}
	var f struct {
		Findings []KnownFinding `json:"findings"`
	}
	if json.Unmarshal(b, &f) == nil {
		c.known = f.Findings
	}
}

func (c *Ctx) Quick() bool    { return c.Tier == "quick" }
func (c *Ctx) Thorough() bool { return c.Tier == "thorough" }

// Pick returns q in the quick tier and t in the thorough tier.
func (c *Ctx) Pick(q, t int) int {
	if c.Quick() {
		return q
	}
	return t
}

func (c *Ctx) Logf(format string, a ...any) {
	fmt.Fprintf(os.Stderr, "[%s %6.1fs] %s\n", c.Prop, time.Since(c.start).Seconds(), fmt.Sprintf(format, a...))
}

// TempDir makes a fresh directory under the scratch area.
func (c *Ctx) TempDir(prefix string) string {
	d, err := os.MkdirTemp(c.Scratch, prefix+"-")
	if err != nil {
		panic(err)
	}
	return d
}

// ---- evidence accounting

func (c *Ctx) SetRule(r string)     { c.mu.Lock(); c.rule = r; c.mu.Unlock() }
func (c *Ctx) SetExhaustive(b bool) { c.mu.Lock(); c.exhaustive = &b; c.mu.Unlock() }
func (c *Ctx) Assume(a string)      { c.mu.Lock(); c.assumptions = append(c.assumptions, a); c.mu.Unlock() }
func (c *Ctx) Extra(k string, v any) {
	c.mu.Lock()
	c.extra[k] = v
	c.mu.Unlock()
}
func (c *Ctx) AddExtra(k string, n int64) {
	c.mu.Lock()
	old, _ := c.extra[k].(int64)
	c.extra[k] = old + n
	c.mu.Unlock()
}
func (c *Ctx) Eval(n int)   { c.mu.Lock(); c.evaluations += int64(n); c.mu.Unlock() }
func (c *Ctx) Traces(n int) { c.mu.Lock(); c.traces += int64(n); c.mu.Unlock() }

// Distinct registers a non-trivial case by a canonical key; duplicates are
// counted once.
func (c *Ctx) Distinct(key string) {
	h := sha1.Sum([]byte(key))
	c.mu.Lock()
	c.distinct[string(h[:8])] = struct{}{}
	c.mu.Unlock()
}

func (c *Ctx) Sample(v any) {
	c.mu.Lock()
	if len(c.samples) < c.maxSamples {
		c.samples = append(c.samples, v)
	}
	c.mu.Unlock()
}

// ---- TLC

type TLCOpt func(*tlc.Opts)

func Workers(n int) TLCOpt            { return func(o *tlc.Opts) { o.Workers = n } }
func Timeout(d time.Duration) TLCOpt  { return func(o *tlc.Opts) { o.Timeout = d } }
func Env(k, v string) TLCOpt          { return func(o *tlc.Opts) { if o.Env == nil { o.Env = map[string]string{} }; o.Env[k] = v } }
func Args(a ...string) TLCOpt         { return func(o *tlc.Opts) { o.Args = append(o.Args, a...) } }
func DFS() TLCOpt                     { return func(o *tlc.Opts) { o.DFS = true } }
func Heap(mb int) TLCOpt              { return func(o *tlc.Opts) { o.HeapMB = mb } }
func Stack(mb int) TLCOpt             { return func(o *tlc.Opts) { o.StackMB = mb } }
func SpecSubdir(d string) TLCOpt      { return func(o *tlc.Opts) { o.SpecDir = filepath.Join(o.SpecDir, d) } }
func Coverage() TLCOpt                { return func(o *tlc.Opts) { o.Coverage = true } }

func (c *Ctx) tlcOpts(module, cfg string, opts []TLCOpt) tlc.Opts {
	o := tlc.Opts{SpecDir: c.SpecDir, Module: module, Config: cfg, Scratch: c.Scratch}
	for _, f := range opts {
		f(&o)
	}
	return o
}

func (c *Ctx) account(module, cfg, mode string, res *tlc.Result) {
	if res == nil {
		return
	}
	c.mu.Lock()
	defer c.mu.Unlock()
	c.states += res.Distinct
	c.transitions += res.Generated
	c.tlcRuns = append(c.tlcRuns, tlcRun{Module: module, Config: cfg, Mode: mode,
		Generated: res.Generated, Distinct: res.Distinct, Depth: res.Depth,
		WallS: res.Wall.Seconds(), OK: res.OK})
}

// ModelCheck runs an exhaustive TLC check of a design config. The model is
// expected to hold on the unchanged specification: a failure here is a
// machinery/spec defect (exit 2), never a VIOLATION by itself (DESIGN §3.4).
func (c *Ctx) ModelCheck(module, cfg string, opts ...TLCOpt) (*tlc.Result, bool) {
	if os.Getenv("VERIF_DEV_SKIP_MODEL") != "" { // development only; never set by registered commands
		c.Inconclusive("VERIF_DEV_SKIP_MODEL set: design model not checked")
		return nil, true
	}
	o := c.tlcOpts(module, cfg, opts)
	res, err := tlc.Run(o)
	c.account(module, cfg, "exhaustive", res)
	if err != nil {
		c.Inconclusive(fmt.Sprintf("TLC %s/%s: %v", module, cfg, err))
		return res, false
	}
	if !res.OK {
		c.Inconclusive(fmt.Sprintf("TLC %s/%s did not pass (violated=%q exit=%d): %s", module, cfg, res.Violated, res.ExitCode, firstLines(res.ErrorText, 6)))
		return res, false
	}
	c.Logf("model %s/%s: %d generated, %d distinct, depth %d, %.1fs", module, cfg, res.Generated, res.Distinct, res.Depth, res.Wall.Seconds())
	return res, true
}

// ModelRefutes runs an exhaustive config that TLC is EXPECTED to refute (the
// design admits the listed open finding): it must report a violation of inv.
// The counterexample is returned so that the caller can replay its schedule
// on the real code. Anything else is a machinery/spec defect (inconclusive).
func (c *Ctx) ModelRefutes(module, cfg, inv string, opts ...TLCOpt) (*tlc.Result, bool) {
	if os.Getenv("VERIF_DEV_SKIP_MODEL") != "" {
		return nil, true
	}
	o := c.tlcOpts(module, cfg, opts)
	res, err := tlc.Run(o)
	c.account(module, cfg, "exhaustive-expected-counterexample", res)
	if err != nil {
		c.Inconclusive(fmt.Sprintf("TLC %s/%s: %v", module, cfg, err))
		return res, false
	}
	if res.Violated != inv {
		c.Inconclusive(fmt.Sprintf("TLC %s/%s was expected to refute %s but reported violated=%q ok=%v", module, cfg, inv, res.Violated, res.OK))
		return res, false
	}
	c.Logf("model %s/%s refutes %s as expected with a %d-step schedule (%d distinct states)", module, cfg, inv, len(res.CounterEx), res.Distinct)
	return res, true
}

// RunTLC runs TLC and returns the raw result (for trace validation where the
// caller interprets failures).
func (c *Ctx) RunTLC(mode, module, cfg string, opts ...TLCOpt) (*tlc.Result, error) {
	o := c.tlcOpts(module, cfg, opts)
	res, err := tlc.Run(o)
	c.account(module, cfg, mode, res)
	return res, err
}

func (c *Ctx) Simulate(module, cfg string, num, depth int, seed int64, opts ...TLCOpt) ([]tlc.Behaviour, error) {
	o := c.tlcOpts(module, cfg, opts)
	behs, res, err := tlc.Simulate(o, num, depth, seed)
	c.account(module, cfg, "simulate", res)
	if err != nil {
		return nil, err
	}
	if res != nil && !res.OK {
		return nil, fmt.Errorf("TLC simulate %s/%s failed: %s", module, cfg, firstLines(res.ErrorText, 6))
	}
	return behs, nil
}

func (c *Ctx) TLCOpts(module, cfg string, opts ...TLCOpt) tlc.Opts { return c.tlcOpts(module, cfg, opts) }
func (c *Ctx) Account(module, cfg, mode string, res *tlc.Result)   { c.account(module, cfg, mode, res) }

func firstLines(s string, n int) string {
	ls := strings.Split(s, "\n")
	if len(ls) > n {
		ls = ls[:n]
	}
	return strings.Join(ls, " | ")
}

// ---- verdicts

// Violation records that a property-level invariant failed on real
// observations. sig identifies the failure class (matched against
// known_findings.json keys); replay is saved as an artefact.
func (c *Ctx) Violation(sig, what string, replay any) {
	c.mu.Lock()
	defer c.mu.Unlock()
	for _, k := range c.known {
		if k.Property == c.Prop && k.Status == "open" && k.Key == sig {
			if !c.knownHit[sig] {
				c.knownHit[sig] = true
				fmt.Printf("KNOWN-FINDING: property=%s %s\n", c.Prop, k.What)
			}
			return
		}
	}
	for _, v := range c.violations {
		if v.Sig == sig {
			return // one report per signature
		}
	}
	dir := filepath.Join(VerifRoot, "replays", c.Prop)
	if d := os.Getenv("VERIF_EVIDENCE_DIR"); d != "" {
		dir = filepath.Join(d, "replays", c.Prop)
	}
	_ = os.MkdirAll(dir, 0o755)
	h := sha1.Sum([]byte(sig + what))
	path := filepath.Join(dir, hex.EncodeToString(h[:6])+".json")
	b, _ := json.MarshalIndent(map[string]any{"property": c.Prop, "signature": sig, "what": what,
		"seed": c.Seed, "tier": c.Tier, "replay": replay}, "", " ")
	_ = os.WriteFile(path, b, 0o644)
	c.violations = append(c.violations, violation{sig, what, path})
	fmt.Fprintf(os.Stderr, "[%s] violation %s: %s\n", c.Prop, sig, what)
}

func (c *Ctx) Violations() int { c.mu.Lock(); defer c.mu.Unlock(); return len(c.violations) }

// Drift: the run did not conform to the design actions although every
// property invariant held (exit 0, recorded).
func (c *Ctx) Drift(what string) {
	c.mu.Lock()
	if len(c.drift) < 20 {
		c.drift = append(c.drift, what)
	}
	c.mu.Unlock()
	fmt.Fprintf(os.Stderr, "[%s] DRIFT: %s\n", c.Prop, what)
}

func (c *Ctx) Inconclusive(msg string) {
	c.mu.Lock()
	c.inconclusive = append(c.inconclusive, msg)
	c.mu.Unlock()
	fmt.Fprintf(os.Stderr, "[%s] INCONCLUSIVE: %s\n", c.Prop, msg)
}

// Finish writes the evidence file, prints verdict lines and returns the exit
// code.
func (c *Ctx) Finish(runErr error) int {
	defer os.RemoveAll(c.Scratch)
	if runErr != nil {
		c.Inconclusive(runErr.Error())
	}
	c.mu.Lock()
	defer c.mu.Unlock()
	cov := map[string]any{}
	for k, v := range c.extra {
		cov[k] = v
	}
	cov["evaluations"] = c.evaluations
	cov["distinct_nontrivial"] = len(c.distinct)
	cov["rule"] = c.rule
	samples := c.samples
	if len(samples) == 0 {
		samples = []any{"(no sample recorded)"}
	}
	cov["samples"] = samples
	if c.states > 0 {
		cov["states"] = c.states
		cov["transitions"] = c.transitions
	}
	cov["traces_validated_against_impl"] = c.traces
	if c.exhaustive != nil {
		cov["exhaustive"] = *c.exhaustive
	}
	cov["tlc_runs"] = c.tlcRuns
	cov["conformance"] = len(c.drift) == 0
	if len(c.drift) > 0 {
		cov["drift"] = c.drift
	}
	if len(c.inconclusive) > 0 {
		cov["inconclusive"] = c.inconclusive
	}
	var kf []string
	for k := range c.knownHit {
		kf = append(kf, k)
	}
	sort.Strings(kf)
	if len(kf) > 0 {
		cov["known_findings_exhibited"] = kf
	}
	ev := map[string]any{
		"property_id": c.Prop, "tier": c.Tier, "seed": c.Seed, "level": c.Level,
		"coverage": cov, "assumptions": c.assumptions,
		"wall_s": time.Since(c.start).Seconds(), "violations": len(c.violations),
	}
	if len(c.assumptions) == 0 {
		ev["assumptions"] = []string{}
	}
	b, _ := json.MarshalIndent(ev, "", " ")
	evDir := filepath.Join(VerifRoot, "evidence")
	if d := os.Getenv("VERIF_EVIDENCE_DIR"); d != "" { // runs against scratch trees (seeded changes) keep /verif/evidence intact
		evDir = d
	}
	_ = os.MkdirAll(evDir, 0o755)
	if err := os.WriteFile(filepath.Join(evDir, c.Prop+".json"), b, 0o644); err != nil {
		fmt.Fprintf(os.Stderr, "cannot write evidence: %v\n", err)
		return 2
	}
	if len(c.violations) > 0 {
		for _, v := range c.violations {
			fmt.Printf("VIOLATION property=%s replay=%s\n", c.Prop, v.Replay)
		}
		return 1
	}
	if len(c.inconclusive) > 0 {
		fmt.Printf("INCONCLUSIVE property=%s %s\n", c.Prop, c.inconclusive[0])
		return 2
	}
	fmt.Printf("OK property=%s tier=%s seed=%d evaluations=%d distinct=%d states=%d traces=%d wall=%.1fs\n",
		c.Prop, c.Tier, c.Seed, c.evaluations, len(c.distinct), c.states, c.traces, time.Since(c.start).Seconds())
	return 0
}

// JSON canonicalisation helper for Distinct keys and comparisons.
func Canon(v any) string {
	b, _ := json.Marshal(v)
	return string(b)
}

// Child-process entry points (vcheck child:<name> args...).
var children = map[string]func(args []string) int{}

func RegisterChild(name string, fn func(args []string) int) { children["child:"+name] = fn }
func LookupChild(name string) func(args []string) int        { return children[name] }

// SelfExe returns the path of the running vcheck binary (to spawn children).
func SelfExe() string {
	p, err := os.Executable()
	if err != nil {
		return os.Args[0]
	}
	return p
}
