// Main is the entry point of every per-property binary:  <bin> <Cxx> [--replay <file>]
// Tier from VERIF_TIER (quick|thorough), seed from VERIF_SEED.
package core

import (
	"fmt"
	"os"
	"runtime/debug"
	"strings"

)

func Main() {
	if len(os.Args) < 2 {
		fmt.Fprintf(os.Stderr, "usage: vcheck <property> [--replay file]\nregistered: %s\n", strings.Join(Props(), " "))
		os.Exit(2)
	}
	// child-process entry points (crash workloads etc.) register themselves
	// under names starting with "child:"
	if fn := LookupChild(os.Args[1]); fn != nil {
		os.Exit(fn(os.Args[2:]))
	}
	prop := os.Args[1]
	ch := Lookup(prop)
	if ch == nil {
		fmt.Fprintf(os.Stderr, "unknown property %q; registered: %s\n", prop, strings.Join(Props(), " "))
		os.Exit(2)
	}
	c, err := NewCtx(prop, ch.Level)
	if err != nil {
		fmt.Fprintln(os.Stderr, err)
		os.Exit(2)
	}
	var runErr error
	func() {
		defer func() {
			if r := recover(); r != nil {
				runErr = fmt.Errorf("harness panic: %v\n%s", r, debug.Stack())
			}
		}()
		if len(os.Args) >= 4 && os.Args[2] == "--replay" {
			if ch.Replay == nil {
				runErr = fmt.Errorf("no replay support for %s", prop)
				return
			}
			runErr = ch.Replay(c, os.Args[3])
			return
		}
		runErr = ch.Run(c)
	}()
	os.Exit(c.Finish(runErr))
}
