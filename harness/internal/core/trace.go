package core

import (
	"bufio"
	"encoding/json"
	"fmt"
	"os"
	"path/filepath"
	"strings"

	"verif/harness/internal/tlaval"
)

// TraceFailure describes why TLC rejected a recorded trace / record file.
type TraceFailure struct {
	Invariant string // violated invariant or property ("" if the trace was not accepted to its end)
	Line      int    // 1-based index of the record being judged (value of `l` in the last state), 0 if unknown
	Depth     int    // diameter reached
	Text      string
	State     tlaval.State
}

// WriteNDJSON writes one JSON document per line.
func WriteNDJSON(path string, records []any) error {
	f, err := os.Create(path)
	if err != nil {
		return err
	}
	w := bufio.NewWriterSize(f, 1<<20)
	enc := json.NewEncoder(w)
	for _, r := range records {
		if err := enc.Encode(r); err != nil {
			f.Close()
			return err
		}
	}
	if err := w.Flush(); err != nil {
		f.Close()
		return err
	}
	return f.Close()
}

// ValidateTrace feeds records to a trace specification (spec/trace/<module>.tla
// with config cfg). Convention of every trace spec here:
//
//	Trace == ndJsonDeserialize(IOEnv.VERIF_TRACE)
//	VARIABLE l            \* 1-based index of the record being consumed/judged
//	invariants are evaluated on the state reached after consuming l-1 records
//	(stateless "judge" specs: INVARIANT RecordOK == l <= Len(Trace) => Ok(Trace[l]))
//	acceptance: the search reaches l = Len(Trace)+1 (checked through the diameter)
//
// Returns nil when TLC accepts the whole file with every invariant holding;
// a *TraceFailure when an invariant failed or the trace was not consumed to
// its end; err for machinery problems.
func (c *Ctx) ValidateTrace(module, cfg string, records []any, opts ...TLCOpt) (*TraceFailure, error) {
	dir := c.TempDir("trace")
	defer os.RemoveAll(dir)
	path := filepath.Join(dir, "trace.ndjson")
	if err := WriteNDJSON(path, records); err != nil {
		return nil, err
	}
	return c.ValidateTraceFile(module, cfg, path, len(records), opts...)
}

func (c *Ctx) ValidateTraceFile(module, cfg, path string, n int, opts ...TLCOpt) (*TraceFailure, error) {
	// the runner copies spec/*.tla next to spec/trace/<cfg>, so trace specs can
	// EXTEND / INSTANCE the design modules
	all := append([]TLCOpt{Env("VERIF_TRACE", path), Workers(1), Stack(256)}, opts...)
	res, err := c.RunTLC("trace-validation", module, "trace/"+cfg, all...)
	if err != nil {
		return nil, err
	}
	if res.Violated != "" {
		tf := &TraceFailure{Invariant: res.Violated, Depth: res.Depth, Text: firstLines(res.ErrorText, 4)}
		if k := len(res.CounterEx); k > 0 {
			tf.State = res.CounterEx[k-1].State
			if lv, ok := tf.State["l"].(int64); ok {
				tf.Line = int(lv)
			}
		} else if strings.Contains(res.Output, "is violated by the initial state") {
			tf.Line = 1 // TLC prints the initial state without a "State 1:" header
		}
		return tf, nil
	}
	if !res.OK {
		return nil, fmt.Errorf("TLC trace validation %s/%s failed: exit=%d %s", module, cfg, res.ExitCode, firstLines(res.ErrorText, 8))
	}
	if res.Depth != n+1 {
		return &TraceFailure{Depth: res.Depth, Line: res.Depth, Text: fmt.Sprintf("trace not accepted: consumed %d of %d records", res.Depth-1, n)}, nil
	}
	return nil, nil
}

// JudgeRecords validates independent records with a stateless judge spec and
// returns every failing record index (0-based) with the invariant that failed:
// after each rejection the offending record is dropped and validation repeats
// (at most maxFail times).
func (c *Ctx) JudgeRecords(module, cfg string, records []any, maxFail int, opts ...TLCOpt) (map[int]string, error) {
	bad := map[int]string{}
	idx := make([]int, len(records))
	for i := range idx {
		idx[i] = i
	}
	cur := records
	for round := 0; ; round++ {
		tf, err := c.ValidateTrace(module, cfg, cur, opts...)
		if err != nil {
			return bad, err
		}
		if tf == nil {
			return bad, nil
		}
		if tf.Line < 1 || tf.Line > len(cur) {
			return bad, fmt.Errorf("judge %s/%s rejected without a record index: %s", module, cfg, tf.Text)
		}
		bad[idx[tf.Line-1]] = tf.Invariant
		if len(bad) >= maxFail {
			return bad, nil
		}
		cur = append(append([]any{}, cur[:tf.Line-1]...), cur[tf.Line:]...)
		idx = append(append([]int{}, idx[:tf.Line-1]...), idx[tf.Line:]...)
		if len(cur) == 0 {
			return bad, nil
		}
	}
}
