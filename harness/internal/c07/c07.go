// Package c07 checks property C07 (numeric and date values sort and
// range-match exactly as numbers).
//
// The model decides: spec/Numeric.tla + spec/NumericMC.tla are model-checked
// exhaustively for scaled-down (base, levels).
// The code is bound (engine B): the real splitter, the real float/prefix
// coding and real indexes of both engines are driven with boundary-biased
// inputs; every input/output pair is written as one ndjson record and TLC
// judges it with spec/trace/JudgeNumeric.tla, i.e. with the operators of
// Numeric.tla instantiated at the real width (16 nibbles). No expected value
// is computed in Go.
package c07

import (
	"encoding/json"
	"fmt"
	"math"
	"os"
	"sort"
	"strings"
	"sync"
	"sync/atomic"
	"time"

	"github.com/blevesearch/bleve/v2/numeric"
	"github.com/blevesearch/bleve/v2/search/searcher"

	"verif/harness/internal/core"
)

func init() {
	core.Register(&core.Check{Prop: "C07", Level: "model_checking", Run: run, Replay: replay})
}

// caseSpec is everything needed to re-execute one case on the real code.
type caseSpec struct {
	Kind   string     `json:"kind"`
	Min    int64      `json:"min,omitempty"`
	Max    int64      `json:"max,omitempty"`
	A      uint64     `json:"a,omitempty"`
	B      uint64     `json:"b,omitempty"`
	V      int64      `json:"v,omitempty"`
	Shift  uint       `json:"shift,omitempty"`
	Corpus *corpus    `json:"corpus,omitempty"`
	Query  *querySpec `json:"query,omitempty"`
	Sort   *sortSpec  `json:"sort,omitempty"`
}

type record struct {
	m     map[string]any
	cs    caseSpec
	key   string // canonical key of a non-trivial case ("" = trivial)
	class string // signature class
}

// guarded runs fn, converting a panic or a hang into an error.
func guarded(limit time.Duration, fn func()) (err error) {
	done := make(chan error, 1)
	go func() {
		defer func() {
			if r := recover(); r != nil {
				done <- fmt.Errorf("panic: %v", r)
			}
		}()
		fn()
		done <- nil
	}()
	select {
	case e := <-done:
		return e
	case <-time.After(limit):
		return fmt.Errorf("no result after %s", limit)
	}
}

func splitRecord(mn, mx int64) (record, error) {
	var trs []searcher.VerifTermRange
	err := guarded(20*time.Second, func() { trs = searcher.VerifSplitInt64Range(mn, mx, 4) })
	if err != nil {
		return record{cs: caseSpec{Kind: "split", Min: mn, Max: mx}}, err
	}
	ranges := make([]any, 0, len(trs))
	for _, tr := range trs {
		ranges = append(ranges, []any{byteInts(tr.Start), byteInts(tr.End)})
	}
	key := ""
	if mn <= mx {
		key = fmt.Sprintf("split/%d/%d", mn, mx)
	}
	return record{
		m:   map[string]any{"kind": "split", "min": nibbles(uint64(mn)), "max": nibbles(uint64(mx)), "ranges": ranges},
		cs:  caseSpec{Kind: "split", Min: mn, Max: mx},
		key: key, class: "split",
	}, nil
}

func floatRecord(a, b uint64) record {
	fa, fb := math.Float64frombits(a), math.Float64frombits(b)
	ia, ib := numeric.Float64ToInt64(fa), numeric.Float64ToInt64(fb)
	ra := math.Float64bits(numeric.Int64ToFloat64(ia))
	ta, _ := numeric.NewPrefixCodedInt64(ia, 0)
	tb, _ := numeric.NewPrefixCodedInt64(ib, 0)
	return record{
		m: map[string]any{"kind": "float", "a": nibbles(a), "b": nibbles(b), "lt": fa < fb,
			"ia": nibbles(uint64(ia)), "ib": nibbles(uint64(ib)), "ra": nibbles(ra),
			"ta": byteInts(ta), "tb": byteInts(tb)},
		cs:  caseSpec{Kind: "float", A: a, B: b},
		key: fmt.Sprintf("float/%x/%x", a, b), class: "float",
	}
}

func prefixRecord(v int64, shift uint) record {
	t, err := numeric.NewPrefixCodedInt64(v, shift)
	dec, derr := t.Int64()
	sh, serr := t.Shift()
	valid, vshift := numeric.ValidPrefixCodedTermBytes(t)
	return record{
		m: map[string]any{"kind": "prefix", "v": nibbles(uint64(v)), "shift": int(shift), "t": byteInts(t),
			"dec": nibbles(uint64(dec)), "sh": int(sh),
			"valid": err == nil && derr == nil && serr == nil && valid && vshift == int(shift)},
		cs:  caseSpec{Kind: "prefix", V: v, Shift: shift},
		key: fmt.Sprintf("prefix/%d/%d", v, shift), class: "prefix",
	}
}

// ---- judging

var propertyLevel = map[string]bool{
	"SplitWellFormed": true, "SplitCover": true, "SplitEnumTerminates": true, "FloatInverse": true, "FloatMonotone": true,
	"PrefixDecode": true, "QueryExact": true, "SortComplete": true, "SortOrdered": true,
}
var modelAssumption = map[string]bool{"FloatOrderModel": true, "FloatDigitsModel": true}

func report(c *core.Ctx, r record, inv string) {
	switch {
	case propertyLevel[inv]:
		b, _ := json.Marshal(r.m)
		what := fmt.Sprintf("%s fails on a real observation (%s): %s", inv, r.class, abbreviate(string(b), 600))
		c.Violation("c07/"+r.class+"/"+inv, what, map[string]any{"case": r.cs, "record": r.m})
	case modelAssumption[inv]:
		c.Inconclusive(fmt.Sprintf("model assumption %s does not hold for %v", inv, r.cs))
	default:
		c.Drift(fmt.Sprintf("%s: the real output is not what the transcription computes (bit for bit / range shape) while the property invariants hold (%s)", inv, abbreviate(core.Canon(r.cs), 300)))
	}
}

func abbreviate(s string, n int) string {
	if len(s) > n {
		return s[:n] + "..."
	}
	return s
}

// judgeAll splits recs into chunks judged by parallel TLC runs; header records
// (the corpora) are prepended to every chunk.
func judgeAll(c *core.Ctx, cfg string, header []record, recs []record, chunk, par int) error {
	return judgeAllN(c, cfg, header, recs, chunk, par, 12)
}

var dumpSeq int32

// slots bounds the number of TLC worker threads running at any time (budget: 8).
type slotPool struct {
	mu sync.Mutex
	ch chan struct{}
}

func newSlots(n int) *slotPool {
	p := &slotPool{ch: make(chan struct{}, n)}
	for i := 0; i < n; i++ {
		p.ch <- struct{}{}
	}
	return p
}
func (p *slotPool) acquire(n int) {
	p.mu.Lock() // one multi-slot acquirer at a time: no partial-hold deadlock
	for i := 0; i < n; i++ {
		<-p.ch
	}
	p.mu.Unlock()
}
func (p *slotPool) release(n int) {
	for i := 0; i < n; i++ {
		p.ch <- struct{}{}
	}
}

var slots = newSlots(8)

func judgeAllN(c *core.Ctx, cfg string, header []record, recs []record, chunk, par, maxFail int) error {
	if len(recs) == 0 {
		return nil
	}
	if len(header) == 0 {
		// TLC reports a violation in the initial state without a state number:
		// keep judged records off the first line
		header = []record{{m: map[string]any{"kind": "corpus", "id": 0, "typ": "none", "docs": []any{}}}}
	}
	type job struct{ lo, hi int }
	var jobs []job
	for lo := 0; lo < len(recs); lo += chunk {
		hi := lo + chunk
		if hi > len(recs) {
			hi = len(recs)
		}
		jobs = append(jobs, job{lo, hi})
	}
	_ = par
	var wg sync.WaitGroup
	var mu sync.Mutex
	var firstErr error
	for _, j := range jobs {
		wg.Add(1)
		go func(j job) {
			defer wg.Done()
			slots.acquire(1)
			defer slots.release(1)
			var list []any
			for _, h := range header {
				list = append(list, h.m)
			}
			for _, r := range recs[j.lo:j.hi] {
				list = append(list, r.m)
			}
			if d := os.Getenv("VERIF_C07_DUMP"); d != "" { // development aid
				_ = core.WriteNDJSON(fmt.Sprintf("%s/%s-%d.ndjson", d, cfg, atomic.AddInt32(&dumpSeq, 1)), list)
			}
			bad, err := c.JudgeRecords("JudgeNumeric", cfg, list, maxFail, core.Timeout(25*time.Minute), core.Heap(3000))
			mu.Lock()
			defer mu.Unlock()
			if err != nil && firstErr == nil {
				firstErr = err
			}
			for idx, inv := range bad {
				if idx < len(header) {
					firstErr = fmt.Errorf("judge rejected a corpus record (%s)", inv)
					continue
				}
				report(c, recs[j.lo+idx-len(header)], inv)
			}
			c.Traces(1)
		}(j)
	}
	wg.Wait()
	return firstErr
}

// ---- the check

func run(c *core.Ctx) error {
	if os.Getenv("VERIF_C07_MERGED_BASE") == "" {
		base := c.TempDir("c07m")
		os.Setenv("VERIF_C07_MERGED_BASE", base)
		defer os.RemoveAll(base)
	}
	c.SetRule("distinct non-trivial = distinct non-empty (min,max) handed to the real splitter + distinct adjacent float pairs + distinct (value,shift) codings + distinct (corpus,engine,bounds,flags) range queries that are not empty by construction + distinct sort requests")
	c.SetExhaustive(false)
	c.Assume("IEEE-754 binary64 `<` on non-NaN words is the sign-magnitude order (re-validated against Go's `<` on every recorded pair)")
	c.Assume("an open end of a numeric range means the infinity of that side with the given inclusive flag (as documented in NewNumericRangeSearcher); NaN and -0 are excluded as the property states")

	// 1. the model decides (concurrently with the Go side)
	type mc struct {
		cfg     string
		workers int
	}
	models := []mc{{"NumericMC_pair_w7.cfg", 3}, {"NumericMC_split_b4l3g2.cfg", 2}, {"NumericMC_pair_w6.cfg", 1}, {"NumericMC_split_b2l4.cfg", 1}}
	if c.Thorough() {
		models = append(models, mc{"NumericMC_split_b4l3.cfg", 2}, mc{"NumericMC_split_b2l6.cfg", 2}, mc{"NumericMC_split_b16l2.cfg", 4}, mc{"NumericMC_pair_w8.cfg", 4})
	}
	if os.Getenv("VERIF_C07_DEV_NOMODELS") != "" { // development aid for mutant runs; makes the run inconclusive
		models = nil
		c.Inconclusive("development run without the model checks")
	}
	var mwg sync.WaitGroup
	for _, m := range models {
		mwg.Add(1)
		go func(m mc) {
			defer mwg.Done()
			slots.acquire(m.workers)
			defer slots.release(m.workers)
			c.ModelCheck("NumericMC", m.cfg, core.Workers(m.workers), core.Timeout(25*time.Minute), core.Heap(3000))
		}(m)
	}

	// 2. real code -> records
	r := c.Rand
	pool := interestingInts(r, numeric.Float64ToInt64, c.Pick(300, 3000))
	var splits []record
	nSplit := c.Pick(3600, 40000)
	ends := endPairs()
	for i := 0; i < nSplit; i++ {
		var mn, mx int64
		if i < len(ends) {
			mn, mx = ends[i][0], ends[i][1]
		} else if j := i - len(ends); j < len(pool) {
			mn, mx = pool[j], pool[(j*7+3)%len(pool)]
			if j%2 == 0 && mn > mx {
				mn, mx = mx, mn
			}
		} else {
			mn, mx = splitPair(r, pool)
		}
		rec, err := splitRecord(mn, mx)
		c.Eval(1)
		if err != nil {
			c.Violation("c07/split/terminates", fmt.Sprintf("splitInt64Range(%d,%d,4): %v", mn, mx, err), map[string]any{"case": rec.cs})
			continue
		}
		if rec.key != "" {
			c.Distinct(rec.key)
		}
		splits = append(splits, rec)
	}
	c.Sample(splits[len(splits)/2].m)

	floats := interestingFloats(r, c.Pick(150, 3000))
	var fl []record
	for i := 0; i+1 < len(floats); i++ {
		rec := floatRecord(math.Float64bits(floats[i]), math.Float64bits(floats[i+1]))
		fl = append(fl, rec)
		c.Distinct(rec.key)
		c.Eval(1)
	}
	// -Inf < everything < +Inf directly, and pairs far apart
	for i := 0; i < c.Pick(200, 2000); i++ {
		a, b := floats[r.Intn(len(floats))], floats[r.Intn(len(floats))]
		if a == b {
			continue
		}
		if b < a {
			a, b = b, a
		}
		rec := floatRecord(math.Float64bits(a), math.Float64bits(b))
		fl = append(fl, rec)
		c.Distinct(rec.key)
		c.Eval(1)
	}
	c.Sample(fl[len(fl)/3].m)

	var pf []record
	sortedInts := append([]int64{}, pool...)
	sort.Slice(sortedInts, func(i, j int) bool { return sortedInts[i] < sortedInts[j] })
	for i, v := range sortedInts {
		if c.Quick() && i%4 != 0 {
			continue
		}
		shifts := []uint{0, uint(4 * r.Intn(16)), uint(r.Intn(63)), uint(9 * r.Intn(7))}
		for _, s := range shifts {
			rec := prefixRecord(v, s)
			pf = append(pf, rec)
			c.Distinct(rec.key)
			c.Eval(1)
		}
	}
	c.Sample(pf[len(pf)/2].m)
	c.Logf("records: %d split, %d float, %d prefix", len(splits), len(fl), len(pf))

	// 3. end to end on real indexes
	e2e, err := buildE2E(c)
	if err != nil {
		return err
	}
	c.Logf("records: %d corpora, %d query, %d open-end date query, %d sort", len(e2e.header), len(e2e.queries), len(e2e.openEnd), len(e2e.sorts))

	c.Extra("risky_queries_run_in_child_process", len(e2e.blowups))

	// 4. TLC judges
	par := 5
	var jwg sync.WaitGroup
	var jmu sync.Mutex
	var jerr error
	judge := func(cfg string, header, recs []record, chunk, p int) {
		jwg.Add(1)
		go func() {
			defer jwg.Done()
			if err := judgeAll(c, cfg, header, recs, chunk, p); err != nil {
				jmu.Lock()
				if jerr == nil {
					jerr = err
				}
				jmu.Unlock()
			}
		}()
	}
	judge("JudgeNumeric.cfg", nil, splits, c.Pick(600, 2500), par)
	judge("JudgeNumeric.cfg", nil, append(append([]record{}, fl...), pf...), c.Pick(800, 4000), 2)
	judge("JudgeNumeric.cfg", e2e.header, append(append([]record{}, e2e.queries...), e2e.sorts...), c.Pick(400, 1500), 3)
	// an invariant with an open known finding is judged in a run of its own (DESIGN 3.4)
	jwg.Add(1)
	go func() {
		defer jwg.Done()
		if err := judgeAllN(c, "JudgeNumeric_query.cfg", e2e.header, e2e.openEnd, 1000, 1, 1); err != nil {
			jmu.Lock()
			if jerr == nil {
				jerr = err
			}
			jmu.Unlock()
		}
	}()
	berr := checkBlowups(c, e2e)
	jwg.Wait()
	mwg.Wait()
	if jerr != nil {
		return jerr
	}
	return berr
}

// checkBlowups handles the queries whose term ranges are far apart as byte
// strings ("terminates" clause). Before /repo bec9de5 termRange.Enumerate
// walked such ranges byte string by byte string and never answered, so they
// are executed in a child process with a deadline (Go cannot cancel a search
// in-process). The judge's enumeration model (SplitEnumBounded on the real
// splitter output) says every walk is short; a query that gives no answer
// contradicts it on the real code: violation. An answer is judged like that
// of any other query.
func checkBlowups(c *core.Ctx, e2e *e2eRecords) error {
	limit := c.Pick(10, 40)
	// canonical cases were appended last: take from the end
	cases := e2e.blowups
	if len(cases) > limit {
		c.Extra("risky_queries_not_executed", len(cases)-limit)
		cases = cases[len(cases)-limit:]
	}
	var wg sync.WaitGroup
	errs := make([]error, len(cases))
	recs := make([]*record, len(cases))
	sem := make(chan struct{}, 4)
	for i, bc := range cases {
		wg.Add(1)
		go func(i int, bc blowupCase) {
			defer wg.Done()
			sem <- struct{}{}
			defer func() { <-sem }()
			recs[i], errs[i] = checkBlowup(c, bc)
		}(i, bc)
	}
	wg.Wait()
	byCorpus := map[int][]record{}
	hdr := map[int]record{}
	for i, e := range errs {
		if e != nil {
			return e
		}
		if recs[i] != nil {
			id := cases[i].cs.Corpus.ID
			byCorpus[id] = append(byCorpus[id], *recs[i])
			hdr[id] = cases[i].cs.Corpus.record()
		}
	}
	for id, rs := range byCorpus {
		if err := judgeAll(c, "JudgeNumeric.cfg", []record{hdr[id]}, rs, 1000, 1); err != nil {
			return err
		}
	}
	return nil
}

const childDeadline = 20 * time.Second

func checkBlowup(c *core.Ctx, bc blowupCase) (*record, error) {
	res, err := queryInChild(c, bc.cs, childDeadline)
	c.Eval(1)
	if err != nil {
		return nil, err
	}
	q := bc.cs.Query
	switch {
	case res.answered && res.errText != "":
		c.Violation("c07/query/"+bc.cs.Corpus.Typ+"/error", res.errText, map[string]any{"case": bc.cs})
	case res.answered:
		c.Distinct(fmt.Sprintf("query/%d/%s/%v/%x/%d/%v/%x/%d/child", bc.cs.Corpus.ID, q.Eng, q.HasMin, q.Min, q.IncMin, q.HasMax, q.Max, q.IncMax))
		class := "query/" + bc.cs.Corpus.Typ
		if bc.cs.Corpus.Name == "date-edge" && (!q.HasMin || !q.HasMax) {
			class = "query/date/open-end-cut"
		}
		return &record{m: res.record, cs: bc.cs, class: class}, nil
	default:
		c.Logf("query with byte distance %s between its term range ends: no answer after %.1fs", bc.walk, res.waited.Seconds())
		c.Violation("c07/range-enumeration-blowup",
			fmt.Sprintf("%s range query on %s (min bits %#x, max bits %#x, flags %d/%d; integer bounds [%d,%d]) gives no answer within %s although every emitted term range is short by the enumeration model (SplitEnumBounded); base-256 distance of the range ends: %s",
				bc.cs.Corpus.Typ, q.Eng, q.Min, q.Max, q.IncMin, q.IncMax, bc.mn, bc.mx, childDeadline, bc.walk),
			map[string]any{"case": bc.cs})
	}
	return nil, nil
}

// replay re-executes one saved case on the real code and has TLC judge it again.
func replay(c *core.Ctx, path string) error {
	b, err := os.ReadFile(path)
	if err != nil {
		return err
	}
	var f struct {
		Replay struct {
			Case caseSpec `json:"case"`
		} `json:"replay"`
	}
	if err := json.Unmarshal(b, &f); err != nil {
		return err
	}
	cs := f.Replay.Case
	c.SetRule("replay of one saved case")
	var header, recs []record
	switch cs.Kind {
	case "split":
		rec, err := splitRecord(cs.Min, cs.Max)
		c.Eval(1)
		if err != nil {
			c.Violation("c07/split/terminates", err.Error(), map[string]any{"case": cs})
			return nil
		}
		recs = []record{rec}
	case "float":
		recs = []record{floatRecord(cs.A, cs.B)}
		c.Eval(1)
	case "prefix":
		recs = []record{prefixRecord(cs.V, cs.Shift)}
		c.Eval(1)
	case "query":
		if cs.Corpus == nil || cs.Query == nil {
			return fmt.Errorf("replay file has no corpus/query")
		}
		mn, mx := queryIntBounds(cs.Corpus, *cs.Query)
		rec, err := checkBlowup(c, blowupCase{cs: cs, mn: mn, mx: mx, walk: walkLength(mn, mx).String()})
		if err != nil {
			return err
		}
		if rec == nil {
			return nil // verdict already given
		}
		header = []record{cs.Corpus.record()}
		recs = []record{*rec}
	case "sort":
		if cs.Corpus == nil || cs.Sort == nil {
			return fmt.Errorf("replay file has no corpus/sort")
		}
		idx, err := openIndex(cs.Sort.Eng, cs.Corpus)
		if err != nil {
			return err
		}
		defer idx.Close()
		rec, err := runSort(idx, cs.Corpus, *cs.Sort)
		c.Eval(1)
		if err != nil {
			c.Violation("c07/sort/"+cs.Corpus.Typ+"/error", err.Error(), map[string]any{"case": cs})
			return nil
		}
		header = []record{cs.Corpus.record()}
		recs = []record{rec}
	default:
		return fmt.Errorf("unknown replay kind %q", cs.Kind)
	}
	c.Sample(recs[0].m)
	cfg := "JudgeNumeric.cfg"
	if strings.HasSuffix(recs[0].class, "open-end-cut") {
		cfg = "JudgeNumeric_query.cfg"
	}
	return judgeAll(c, cfg, header, recs, 10, 1)
}
