package c07

import (
	"context"
	"encoding/json"
	"fmt"
	"math"
	"math/big"
	"os"
	"os/exec"
	"path/filepath"
	"time"

	"github.com/blevesearch/bleve/v2/numeric"
	"github.com/blevesearch/bleve/v2/search/searcher"

	"verif/harness/internal/core"
)

// Scheduling aid (not an oracle): the base-256 distance between the ends of
// the term ranges a query is turned into. termRange.Enumerate used to walk
// that many byte strings (open finding c07/range-enumeration-blowup, repaired
// in /repo bec9de5). Should that behaviour return, such a query can never be
// executed inside this process (Go cannot cancel the search; upsidedown also
// accumulates every visited term), so it runs in a child process with a
// deadline.

// queryIntBounds mirrors the argument preparation of NewNumericRangeSearcher
// only to find out which term ranges the real splitter will hand to Enumerate.
func queryIntBounds(cp *corpus, q querySpec) (int64, int64) {
	mn, mx := numeric.Float64ToInt64(math.Inf(-1)), numeric.Float64ToInt64(math.Inf(1))
	if q.HasMin {
		if cp.Typ == "num" {
			mn = numeric.Float64ToInt64(math.Float64frombits(q.Min))
		} else {
			mn = int64(q.Min)
		}
	}
	if q.HasMax {
		if cp.Typ == "num" {
			mx = numeric.Float64ToInt64(math.Float64frombits(q.Max))
		} else {
			mx = int64(q.Max)
		}
	}
	if q.IncMin == 1 && mn != math.MaxInt64 {
		mn++
	}
	if q.IncMax != 2 && mx != math.MinInt64 {
		mx--
	}
	return mn, mx
}

func walkLength(mn, mx int64) *big.Int {
	total := new(big.Int)
	for _, tr := range searcher.VerifSplitInt64Range(mn, mx, 4) {
		s, e := new(big.Int).SetBytes(tr.Start), new(big.Int).SetBytes(tr.End)
		if e.Cmp(s) >= 0 {
			d := new(big.Int).Sub(e, s)
			total.Add(total, d.Add(d, big.NewInt(1)))
		}
	}
	return total
}

// executed in-process when the byte distance is below this (a base-256 walk of
// that length, the behaviour before the repair, still finishes in seconds)
var walkInProcess = big.NewInt(1 << 20)

func init() {
	core.RegisterChild("c07query", childQuery)
}

// childQuery: <case.json> -> prints the query record as JSON on stdout.
func childQuery(args []string) int {
	if len(args) != 1 {
		return 2
	}
	b, err := os.ReadFile(args[0])
	if err != nil {
		fmt.Fprintln(os.Stderr, err)
		return 2
	}
	var cs caseSpec
	if err := json.Unmarshal(b, &cs); err != nil || cs.Corpus == nil || cs.Query == nil {
		fmt.Fprintln(os.Stderr, "bad case file", err)
		return 2
	}
	idx, err := openIndex(cs.Query.Eng, cs.Corpus)
	if err != nil {
		fmt.Fprintln(os.Stderr, err)
		return 2
	}
	fmt.Println("READY")
	rec, err := runQuery(idx, cs.Corpus, *cs.Query)
	if err != nil {
		fmt.Println("ERROR " + err.Error())
		return 0
	}
	out, _ := json.Marshal(rec.m)
	fmt.Println("RECORD " + string(out))
	return 0
}

type childResult struct {
	answered bool
	record   map[string]any
	errText  string
	waited   time.Duration
}

// queryInChild runs one query in a child process that is killed at the deadline.
func queryInChild(c *core.Ctx, cs caseSpec, deadline time.Duration) (*childResult, error) {
	dir := c.TempDir("child")
	defer os.RemoveAll(dir)
	path := filepath.Join(dir, "case.json")
	b, _ := json.Marshal(cs)
	if err := os.WriteFile(path, b, 0o644); err != nil {
		return nil, err
	}
	ctx, cancel := context.WithTimeout(context.Background(), deadline+20*time.Second)
	defer cancel()
	cmd := exec.CommandContext(ctx, core.SelfExe(), "child:c07query", path)
	cmd.Env = append(os.Environ(), "GOMEMLIMIT=2GiB", "GOMAXPROCS=2")
	stdout, err := cmd.StdoutPipe()
	if err != nil {
		return nil, err
	}
	cmd.Stderr = os.Stderr
	if err := cmd.Start(); err != nil {
		return nil, err
	}
	lines := make(chan string, 4)
	go func() {
		defer close(lines)
		buf := make([]byte, 0, 1<<16)
		tmp := make([]byte, 1<<16)
		for {
			n, err := stdout.Read(tmp)
			buf = append(buf, tmp[:n]...)
			for {
				i := -1
				for k, ch := range buf {
					if ch == '\n' {
						i = k
						break
					}
				}
				if i < 0 {
					break
				}
				lines <- string(buf[:i])
				buf = buf[i+1:]
			}
			if err != nil {
				return
			}
		}
	}()
	res := &childResult{}
	// wait for READY (index built), then start the clock
	select {
	case ln, ok := <-lines:
		if !ok || ln != "READY" {
			_ = cmd.Process.Kill()
			_ = cmd.Wait()
			return nil, fmt.Errorf("child did not become ready (%q)", ln)
		}
	case <-time.After(60 * time.Second):
		_ = cmd.Process.Kill()
		_ = cmd.Wait()
		return nil, fmt.Errorf("child did not become ready in 60s")
	}
	t0 := time.Now()
	select {
	case ln, ok := <-lines:
		res.waited = time.Since(t0)
		if ok && len(ln) > 7 && ln[:7] == "RECORD " {
			res.answered = true
			if err := json.Unmarshal([]byte(ln[7:]), &res.record); err != nil {
				return nil, err
			}
		} else if ok && len(ln) > 6 && ln[:6] == "ERROR " {
			res.answered = true
			res.errText = ln[6:]
		} else {
			_ = cmd.Process.Kill()
			_ = cmd.Wait()
			return nil, fmt.Errorf("child died without an answer (%q)", ln)
		}
	case <-time.After(deadline):
		res.waited = time.Since(t0)
	}
	_ = cmd.Process.Kill()
	_ = cmd.Wait()
	return res, nil
}
