package c07

import (
	"context"
	"fmt"
	"math"
	"math/rand"
	"os"
	"path/filepath"
	"sort"
	"strings"
	"sync"
	"time"

	"github.com/blevesearch/bleve/v2"
	"github.com/blevesearch/bleve/v2/index/scorch"
	"github.com/blevesearch/bleve/v2/numeric"
	"github.com/blevesearch/bleve/v2/search"
	"github.com/blevesearch/bleve/v2/search/query"

	"verif/harness/internal/core"
)

// corpus: documents of one index. Values are float64 bit patterns (typ "num",
// field n) or int64 nanoseconds since the epoch (typ "date", field t).
type corpus struct {
	ID   int        `json:"id"`
	Typ  string     `json:"typ"`
	Docs [][]uint64 `json:"docs"`
	// AsString[d]: date document d is handed to bleve as RFC3339Nano text
	// (parsed by the date time parser) instead of time.Time
	AsString []bool `json:"as_string,omitempty"`
	Name     string `json:"name"`
}

type querySpec struct {
	Eng    string `json:"eng"`
	HasMin bool   `json:"has_min"`
	HasMax bool   `json:"has_max"`
	Min    uint64 `json:"min"`
	Max    uint64 `json:"max"`
	IncMin int    `json:"inc_min"` // 0 nil, 1 false, 2 true
	IncMax int    `json:"inc_max"`
	JSON   bool   `json:"json"` // date query built from its JSON form
}

type sortSpec struct {
	Eng  string `json:"eng"`
	Desc bool   `json:"desc"`
	Mode string `json:"mode"` // default | min | max
	Type string `json:"type"` // auto | typed | string-syntax
}

func (cp *corpus) record() record {
	docs := make([]any, len(cp.Docs))
	for i, d := range cp.Docs {
		vs := make([]any, len(d))
		for j, v := range d {
			vs[j] = nibbles(v)
		}
		docs[i] = vs
	}
	return record{m: map[string]any{"kind": "corpus", "id": cp.ID, "typ": cp.Typ, "docs": docs}, class: "corpus"}
}

var mergedDirs []string

// scratchBase: the parent check sets VERIF_C07_MERGED_BASE (a directory it removes at
// the end) so that indexes created by children that get killed do not stay behind
func scratchBase() string {
	if b := os.Getenv("VERIF_C07_MERGED_BASE"); b != "" {
		return b
	}
	if b := os.Getenv("VERIF_SCRATCH_BASE"); b != "" {
		return b
	}
	return ""
}

func docID(i int) string { return fmt.Sprintf("d%04d", i) }

// scorch-merged: a disk index whose first part was force-merged into one segment (zap then
// encodes single-hit terms specially) followed by unmerged batches; its queries run with
// score "none" (the unadorned conjunction / disjunction optimisations over term ranges)
var engines = []string{"scorch", "upsidedown", "scorch-merged"}

func openIndex(eng string, cp *corpus) (bleve.Index, error) {
	m := bleve.NewIndexMapping()
	dm := bleve.NewDocumentMapping()
	dm.AddFieldMappingsAt("n", bleve.NewNumericFieldMapping())
	dm.AddFieldMappingsAt("t", bleve.NewDateTimeFieldMapping())
	m.DefaultMapping = dm
	var idx bleve.Index
	var err error
	switch eng {
	case "scorch":
		idx, err = bleve.NewUsing("", m, scorch.Name, scorch.Name, nil)
	case "upsidedown":
		idx, err = bleve.NewMemOnly(m) // upsidedown over gtreap
	case "scorch-merged":
		dir, derr := os.MkdirTemp(scratchBase(), "c07m-")
		if derr != nil {
			return nil, derr
		}
		mergedDirs = append(mergedDirs, dir)
		idx, err = bleve.NewUsing(filepath.Join(dir, "idx"), m, scorch.Name, scorch.Name, map[string]interface{}{
			"scorchMergePlanOptions": map[string]interface{}{"FloorSegmentSize": 1}}) // passive background planner
	default:
		return nil, fmt.Errorf("unknown engine %q", eng)
	}
	if err != nil {
		return nil, err
	}
	mergeAt := -1
	if eng == "scorch-merged" {
		mergeAt = len(cp.Docs) * 6 / 10
	}
	b := idx.NewBatch()
	for i, vals := range cp.Docs {
		if i == mergeAt {
			if err := idx.Batch(b); err != nil {
				return nil, err
			}
			b = idx.NewBatch()
			if adv, aerr := idx.Advanced(); aerr == nil {
				if sc, ok := adv.(*scorch.Scorch); ok {
					deadline := time.Now().Add(30 * time.Second)
					for time.Now().Before(deadline) {
						sm := sc.StatsMap()
						if n, _ := sm["num_root_memorysegments"].(uint64); n == 0 {
							break
						}
						time.Sleep(2 * time.Millisecond)
					}
					if err := sc.ForceMerge(context.Background(), nil); err != nil {
						return nil, err
					}
				}
			}
		}
		var vs []interface{}
		for _, v := range vals {
			if cp.Typ == "num" {
				vs = append(vs, math.Float64frombits(v))
			} else {
				t := time.Unix(0, int64(v)).UTC()
				if i < len(cp.AsString) && cp.AsString[i] {
					vs = append(vs, t.Format(time.RFC3339Nano))
				} else {
					vs = append(vs, t)
				}
			}
		}
		field := "n"
		if cp.Typ == "date" {
			field = "t"
		}
		var doc map[string]interface{}
		if len(vs) == 1 {
			doc = map[string]interface{}{field: vs[0]}
		} else {
			doc = map[string]interface{}{field: vs}
		}
		if err := b.Index(docID(i), doc); err != nil {
			return nil, err
		}
		if b.Size() >= 40 {
			if err := idx.Batch(b); err != nil {
				return nil, err
			}
			b = idx.NewBatch()
		}
	}
	// documents whose only date lies outside what an int64 of nanoseconds can hold: the field
	// is not indexed for them, so they match no range and must never come back as hits
	extras := 0
	if cp.Typ == "date" {
		for k, v := range []interface{}{time.Date(2500, 1, 1, 0, 0, 0, 0, time.UTC), "1500-03-01T00:00:00Z", time.Date(9999, 12, 31, 0, 0, 0, 0, time.UTC), "3000-01-01T00:00:00Z"} {
			if err := b.Index(fmt.Sprintf("x%04d", k), map[string]interface{}{"t": v}); err != nil {
				return nil, err
			}
			extras++
		}
	}
	if err := idx.Batch(b); err != nil {
		return nil, err
	}
	if os.Getenv("VERIF_C07_DEBUG") != "" && eng == "scorch-merged" {
		if adv, aerr := idx.Advanced(); aerr == nil {
			if sc, ok := adv.(*scorch.Scorch); ok {
				sm := sc.StatsMap()
				fmt.Fprintf(os.Stderr, "DEBUG %s: file segs %v mem segs %v merges %v\n", cp.Name, sm["num_root_filesegments"], sm["num_root_memorysegments"], sm["TotFileMergeForceOpsCompleted"])
			}
		}
	}
	if n, _ := idx.DocCount(); int(n) != len(cp.Docs)+extras {
		return nil, fmt.Errorf("index %s/%s holds %d of %d documents", eng, cp.Name, n, len(cp.Docs))
	}
	return idx, nil
}

func flagPtr(f int) *bool {
	switch f {
	case 1:
		v := false
		return &v
	case 2:
		v := true
		return &v
	}
	return nil
}

func buildQuery(cp *corpus, q querySpec) (query.Query, error) {
	if cp.Typ == "num" {
		var mn, mx *float64
		if q.HasMin {
			v := math.Float64frombits(q.Min)
			mn = &v
		}
		if q.HasMax {
			v := math.Float64frombits(q.Max)
			mx = &v
		}
		nq := bleve.NewNumericRangeInclusiveQuery(mn, mx, flagPtr(q.IncMin), flagPtr(q.IncMax))
		nq.SetField("n")
		return nq, nil
	}
	var st, en time.Time
	if q.HasMin {
		st = time.Unix(0, int64(q.Min)).UTC()
	}
	if q.HasMax {
		en = time.Unix(0, int64(q.Max)).UTC()
	}
	if q.JSON {
		var parts []string
		if q.HasMin {
			parts = append(parts, fmt.Sprintf(`"start":%q`, st.Format(time.RFC3339Nano)))
		}
		if q.HasMax {
			parts = append(parts, fmt.Sprintf(`"end":%q`, en.Format(time.RFC3339Nano)))
		}
		if f := flagPtr(q.IncMin); f != nil {
			parts = append(parts, fmt.Sprintf(`"inclusive_start":%v`, *f))
		}
		if f := flagPtr(q.IncMax); f != nil {
			parts = append(parts, fmt.Sprintf(`"inclusive_end":%v`, *f))
		}
		parts = append(parts, `"field":"t"`)
		return query.ParseQuery([]byte("{" + strings.Join(parts, ",") + "}"))
	}
	dq := bleve.NewDateRangeInclusiveQuery(st, en, flagPtr(q.IncMin), flagPtr(q.IncMax))
	dq.SetField("t")
	return dq, nil
}

func runQuery(idx bleve.Index, cp *corpus, q querySpec) (record, error) {
	cs := caseSpec{Kind: "query", Corpus: cp, Query: &q}
	bq, err := buildQuery(cp, q)
	if err != nil {
		return record{cs: cs}, fmt.Errorf("building query: %v", err)
	}
	req := bleve.NewSearchRequestOptions(bq, len(cp.Docs)+10, 0, false)
	if q.Eng == "scorch-merged" {
		req.Score = "none"
	}
	var res *bleve.SearchResult
	if gerr := guarded(120*time.Second, func() { res, err = idx.Search(req) }); gerr != nil {
		return record{cs: cs}, gerr
	}
	if err != nil {
		return record{cs: cs}, err
	}
	hits := make([]int, len(cp.Docs))
	for _, h := range res.Hits {
		var d int
		if _, err := fmt.Sscanf(h.ID, "d%04d", &d); err != nil || d < 0 || d >= len(hits) || hits[d] == 1 {
			return record{cs: cs}, fmt.Errorf("unexpected or repeated hit id %q", h.ID)
		}
		hits[d] = 1
	}
	if int(res.Total) != len(res.Hits) {
		return record{cs: cs}, fmt.Errorf("total %d but %d hits returned", res.Total, len(res.Hits))
	}
	class := "query/" + cp.Typ
	if cp.Name == "date-edge" && (!q.HasMin || !q.HasMax) {
		class = "query/date/open-end-cut"
	}
	return record{
		m: map[string]any{"kind": "query", "corpus": cp.ID, "eng": q.Eng, "typ": cp.Typ,
			"hasMin": q.HasMin, "min": nibbles(q.Min), "incMin": q.IncMin,
			"hasMax": q.HasMax, "max": nibbles(q.Max), "incMax": q.IncMax, "hits": hits},
		cs:    cs,
		key:   fmt.Sprintf("query/%d/%s/%v/%x/%d/%v/%x/%d/%v", cp.ID, q.Eng, q.HasMin, q.Min, q.IncMin, q.HasMax, q.Max, q.IncMax, q.JSON),
		class: class,
	}, nil
}

func runSort(idx bleve.Index, cp *corpus, s sortSpec) (record, error) {
	cs := caseSpec{Kind: "sort", Corpus: cp, Sort: &s}
	field := "n"
	if cp.Typ == "date" {
		field = "t"
	}
	req := bleve.NewSearchRequestOptions(bleve.NewMatchAllQuery(), len(cp.Docs)+10, 0, false)
	if s.Type == "string-syntax" {
		f := field
		if s.Desc {
			f = "-" + f
		}
		req.SortBy([]string{f, "_id"})
	} else {
		sf := &search.SortField{Field: field, Desc: s.Desc}
		if s.Type == "typed" {
			sf.Type = search.SortFieldAsNumber
			if cp.Typ == "date" {
				sf.Type = search.SortFieldAsDate
			}
		}
		switch s.Mode {
		case "min":
			sf.Mode = search.SortFieldMin
		case "max":
			sf.Mode = search.SortFieldMax
		}
		req.SortByCustom(search.SortOrder{sf, &search.SortDocID{}})
	}
	var res *bleve.SearchResult
	var err error
	if gerr := guarded(120*time.Second, func() { res, err = idx.Search(req) }); gerr != nil {
		return record{cs: cs}, gerr
	}
	if err != nil {
		return record{cs: cs}, err
	}
	order := make([]int, 0, len(res.Hits))
	for _, h := range res.Hits {
		var d int
		if strings.HasPrefix(h.ID, "x") {
			continue // the documents without an indexable date: they hold no value of the field
		}
		if _, err := fmt.Sscanf(h.ID, "d%04d", &d); err != nil {
			return record{cs: cs}, fmt.Errorf("unexpected hit id %q", h.ID)
		}
		order = append(order, d+1)
	}
	return record{
		m:     map[string]any{"kind": "sort", "corpus": cp.ID, "eng": s.Eng, "typ": cp.Typ, "desc": s.Desc, "mode": s.Mode, "order": order},
		cs:    cs,
		key:   fmt.Sprintf("sort/%d/%s/%v/%s/%s", cp.ID, s.Eng, s.Desc, s.Mode, s.Type),
		class: "sort/" + cp.Typ,
	}, nil
}

// ---- corpora and query generation

// the sortable images of -Inf/+Inf: open-ended date ranges are cut there (finding)
var cutLo, cutHi = numeric.Float64ToInt64(math.Inf(-1)), numeric.Float64ToInt64(math.Inf(1))

var minQueryNanos = time.Date(1677, 12, 1, 0, 0, 0, 0, time.UTC).UnixNano()
var maxQueryNanos = time.Date(2262, 4, 11, 11, 59, 59, 0, time.UTC).UnixNano()

func numCorpus(r *rand.Rand, id int, name string, n int, multi bool) *corpus {
	cp := &corpus{ID: id, Typ: "num", Name: name}
	anchors := []float64{0, 1, -1, math.Inf(1), math.Inf(-1), math.MaxFloat64, -math.MaxFloat64,
		math.SmallestNonzeroFloat64, -math.SmallestNonzeroFloat64, 2.2250738585072014e-308, -2.2250738585072014e-308,
		16, 255, 256, 4096, 65536, 0.1, -0.1, 1e15, -1e15, 9007199254740992}
	for len(anchors) < n/3 {
		switch r.Intn(3) {
		case 0:
			// sortable integer on a nibble boundary
			k := uint(r.Intn(15))
			i := int64(r.Uint64())&^lowMask(k+1) | int64(r.Intn(2)*0xF)<<(4*k)
			anchors = append(anchors, numeric.Int64ToFloat64(i))
		case 1:
			anchors = append(anchors, float64(r.Intn(2000)-1000)/8)
		default:
			anchors = append(anchors, r.NormFloat64()*math.Ldexp(1, r.Intn(120)-60))
		}
	}
	var vals []float64
	for _, a := range anchors {
		for _, f := range []float64{a, math.Nextafter(a, math.Inf(1)), math.Nextafter(a, math.Inf(-1))} {
			if ordinaryFloatBits(math.Float64bits(f)) {
				vals = append(vals, f)
			}
		}
	}
	vals = sortDedupFloats(vals)
	r.Shuffle(len(vals), func(i, j int) { vals[i], vals[j] = vals[j], vals[i] })
	if len(vals) > n {
		vals = vals[:n]
	}
	for i, v := range vals {
		d := []uint64{math.Float64bits(v)}
		if multi && i%3 == 0 {
			for k := 0; k < 1+r.Intn(2); k++ {
				d = append(d, math.Float64bits(vals[r.Intn(len(vals))]))
			}
		}
		cp.Docs = append(cp.Docs, d)
	}
	return cp
}

// groupEdgeCorpus: values whose sortable integers sit at the edges of the 7-bit groups the
// terms are made of (…7e, …7f, …00, …01 in the three lowest groups): narrow ranges between
// neighbours make the term enumeration carry from one group into the next
func groupEdgeCorpus(r *rand.Rand, id int, name string) *corpus {
	cp := &corpus{ID: id, Typ: "num", Name: name}
	edge := []int64{0x7e, 0x7f, 0x00, 0x01}
	for _, h := range []int64{numeric.Float64ToInt64(1.5) >> 21, numeric.Float64ToInt64(-3.25) >> 21} {
		for _, a := range edge {
			for _, b := range edge {
				for _, c := range edge {
					i := h<<21 | a<<14 | b<<7 | c
					f := numeric.Int64ToFloat64(i)
					if ordinaryFloatBits(math.Float64bits(f)) {
						cp.Docs = append(cp.Docs, []uint64{math.Float64bits(f)})
					}
				}
			}
		}
	}
	r.Shuffle(len(cp.Docs), func(i, j int) { cp.Docs[i], cp.Docs[j] = cp.Docs[j], cp.Docs[i] })
	return cp
}

func dateCorpus(r *rand.Rand, id int, name string, n int, multi, edge bool) *corpus {
	cp := &corpus{ID: id, Typ: "date", Name: name}
	anchors := []int64{0, 1, -1, 1_000_000_000, -1_000_000_000, 1_700_000_000_123_456_789, 946684800_000_000_000,
		minQueryNanos, maxQueryNanos, cutLo + 2, cutHi - 2, -6_000_000_000_000_000_000, 9_000_000_000_000_000_000}
	if edge {
		anchors = append(anchors, math.MinInt64+1, math.MaxInt64-1, cutLo, cutHi, cutLo-1000, cutHi+1000,
			maxQueryNanos+1_000_000_000, minQueryNanos-1_000_000_000)
	}
	for len(anchors) < n/3 {
		switch r.Intn(3) {
		case 0:
			k := uint(r.Intn(15))
			anchors = append(anchors, int64(r.Uint64())&^lowMask(k+1)|int64(r.Intn(2)*0xF)<<(4*k))
		case 1:
			anchors = append(anchors, 1_600_000_000_000_000_000+r.Int63n(200_000_000_000_000_000))
		default:
			anchors = append(anchors, int64(r.Uint64()))
		}
	}
	seen := map[int64]bool{}
	var vals []int64
	for _, a := range anchors {
		for _, v := range []int64{a - 1, a, a + 1} {
			if !edge && (v <= cutLo || v >= cutHi) {
				continue
			}
			if !seen[v] {
				seen[v] = true
				vals = append(vals, v)
			}
		}
	}
	r.Shuffle(len(vals), func(i, j int) { vals[i], vals[j] = vals[j], vals[i] })
	if len(vals) > n {
		vals = vals[:n]
	}
	for i, v := range vals {
		d := []uint64{uint64(v)}
		if multi && i%3 == 0 {
			for k := 0; k < 1+r.Intn(2); k++ {
				d = append(d, uint64(vals[r.Intn(len(vals))]))
			}
		}
		cp.Docs = append(cp.Docs, d)
		cp.AsString = append(cp.AsString, i%2 == 1)
	}
	return cp
}

func (cp *corpus) allValues() []uint64 {
	var out []uint64
	for _, d := range cp.Docs {
		out = append(out, d...)
	}
	return out
}

// bound picks a query bound: a document value, its neighbour, an infinity
// (numeric), or something unrelated.
func numBound(r *rand.Rand, vals []uint64) uint64 {
	for {
		v := vals[r.Intn(len(vals))]
		f := math.Float64frombits(v)
		switch r.Intn(10) {
		case 0, 1, 2, 3:
		case 4, 5:
			f = math.Nextafter(f, math.Inf(1))
		case 6, 7:
			f = math.Nextafter(f, math.Inf(-1))
		case 8:
			f = math.Inf(1 - 2*r.Intn(2))
		default:
			f = r.NormFloat64() * math.Ldexp(1, r.Intn(80)-40)
		}
		if ordinaryFloatBits(math.Float64bits(f)) {
			return math.Float64bits(f)
		}
	}
}

func dateBound(r *rand.Rand, vals []uint64) uint64 {
	for {
		v := int64(vals[r.Intn(len(vals))])
		switch r.Intn(10) {
		case 0, 1, 2, 3:
		case 4, 5:
			v++
		case 6, 7:
			v--
		case 8:
			v = []int64{minQueryNanos, maxQueryNanos, cutHi - 1, cutHi, cutHi + 1}[r.Intn(5)]
		default:
			v = int64(r.Uint64())
		}
		// bounds outside [1677-12-01, 2262-04-11T11:59:59] are rejected by the query (documented)
		if v >= minQueryNanos && v <= maxQueryNanos {
			return uint64(v)
		}
	}
}

type e2eRecords struct {
	header  []record
	queries []record
	openEnd []record
	sorts   []record
	// queries executed in a child process with a deadline: (case, integer bounds)
	blowups []blowupCase
}

type blowupCase struct {
	cs     caseSpec
	mn, mx int64
	walk   string
}

func buildE2E(c *core.Ctx) (*e2eRecords, error) {
	defer func() { // registered first: runs after the indexes were closed
		for _, d := range mergedDirs {
			_ = os.RemoveAll(d)
		}
		mergedDirs = nil
	}()
	r := c.Rand
	nDocs := c.Pick(90, 160)
	corpora := []*corpus{
		numCorpus(r, 1, "num-single", nDocs, false),
		numCorpus(r, 2, "num-multi", nDocs, true),
		dateCorpus(r, 3, "date-core", nDocs, true, false),
		dateCorpus(r, 4, "date-edge", c.Pick(60, 100), false, true),
		groupEdgeCorpus(r, 5, "num-group-edges"),
	}
	out := &e2eRecords{}
	for _, cp := range corpora {
		out.header = append(out.header, cp.record())
	}
	nQ := c.Pick(130, 900) // per corpus and engine
	type task struct {
		cp  *corpus
		eng string
		idx bleve.Index
	}
	var tasks []task
	for _, cp := range corpora {
		for _, eng := range engines {
			idx, err := openIndex(eng, cp)
			if err != nil {
				return nil, fmt.Errorf("open %s/%s: %v", eng, cp.Name, err)
			}
			defer idx.Close()
			tasks = append(tasks, task{cp, eng, idx})
		}
	}
	// generate the specs sequentially (seeded), execute in parallel
	type qjob struct {
		t task
		q *querySpec
		s *sortSpec
	}
	var jobs []qjob
	for _, t := range tasks {
		vals := t.cp.allValues()
		for i := 0; i < nQ; i++ {
			q := querySpec{Eng: t.eng, HasMin: r.Intn(8) != 0, HasMax: r.Intn(8) != 0, IncMin: r.Intn(3), IncMax: r.Intn(3)}
			if !q.HasMin && !q.HasMax {
				q.HasMin = true
			}
			if t.cp.Typ == "num" {
				q.Min, q.Max = numBound(r, vals), numBound(r, vals)
			} else {
				q.Min, q.Max = dateBound(r, vals), dateBound(r, vals)
				q.JSON = r.Intn(3) == 0
			}
			// mostly min <= max, sometimes equal, sometimes reversed
			less := func(a, b uint64) bool {
				if t.cp.Typ == "num" {
					return math.Float64frombits(a) < math.Float64frombits(b)
				}
				return int64(a) < int64(b)
			}
			switch k := r.Intn(10); {
			case k < 7:
				if less(q.Max, q.Min) {
					q.Min, q.Max = q.Max, q.Min
				}
			case k == 7:
				q.Max = q.Min
			}
			if !q.HasMin {
				q.Min = 0
			}
			if !q.HasMax {
				q.Max = 0
			}
			qq := q
			jobs = append(jobs, qjob{t: t, q: &qq})
		}
		for _, desc := range []bool{false, true} {
			modes := []string{"min", "max"}
			if t.cp.Name == "num-single" || t.cp.Name == "date-edge" {
				modes = []string{"default", "min", "max"}
			}
			for _, mode := range modes {
				for _, typ := range []string{"auto", "typed", "string-syntax"} {
					if typ == "string-syntax" && mode != "default" {
						continue
					}
					s := sortSpec{Eng: t.eng, Desc: desc, Mode: mode, Type: typ}
					jobs = append(jobs, qjob{t: t, s: &s})
				}
			}
		}
	}
	// canonical members of the open finding "range enumeration blow-up": always present
	two, below2 := math.Float64bits(2), math.Float64bits(math.Nextafter(2, 0))
	for _, t := range tasks {
		switch t.cp.Name {
		case "num-single":
			jobs = append(jobs, qjob{t: t, q: &querySpec{Eng: t.eng, HasMin: true, HasMax: true, Min: below2, Max: two, IncMin: 2, IncMax: 2}})
		case "date-core":
			jobs = append(jobs, qjob{t: t, q: &querySpec{Eng: t.eng, HasMin: true, HasMax: true, Min: 0x0FFFFFFFFFFFFFFF, Max: 0x1000000000000000, IncMin: 2, IncMax: 2}})
		}
	}
	// schedule by the length of the term-range walk the real splitter implies
	kept := jobs[:0]
	for _, j := range jobs {
		if j.q != nil {
			mn, mx := queryIntBounds(j.t.cp, *j.q)
			w := walkLength(mn, mx)
			if w.Cmp(walkInProcess) > 0 {
				out.blowups = append(out.blowups, blowupCase{cs: caseSpec{Kind: "query", Corpus: j.t.cp, Query: j.q}, mn: mn, mx: mx, walk: w.String()})
				continue
			}
		}
		kept = append(kept, j)
	}
	jobs = kept
	recs := make([]record, len(jobs))
	errs := make([]error, len(jobs))
	var wg sync.WaitGroup
	sem := make(chan struct{}, 8)
	for i := range jobs {
		wg.Add(1)
		sem <- struct{}{}
		go func(i int) {
			defer wg.Done()
			defer func() { <-sem }()
			j := jobs[i]
			if j.q != nil {
				recs[i], errs[i] = runQuery(j.t.idx, j.t.cp, *j.q)
			} else {
				recs[i], errs[i] = runSort(j.t.idx, j.t.cp, *j.s)
			}
		}(i)
	}
	wg.Wait()
	sampled := map[string]bool{}
	for i, rec := range recs {
		c.Eval(1)
		if errs[i] != nil {
			kind := "query"
			if jobs[i].s != nil {
				kind = "sort"
			}
			c.Violation("c07/"+kind+"/"+jobs[i].t.cp.Typ+"/error",
				fmt.Sprintf("%s on %s/%s failed: %v", kind, jobs[i].t.eng, jobs[i].t.cp.Name, errs[i]), map[string]any{"case": rec.cs})
			continue
		}
		nontrivial := true
		if q := jobs[i].q; q != nil && q.HasMin && q.HasMax {
			if jobs[i].t.cp.Typ == "num" {
				nontrivial = math.Float64frombits(q.Min) <= math.Float64frombits(q.Max)
			} else {
				nontrivial = int64(q.Min) <= int64(q.Max)
			}
		}
		if nontrivial {
			c.Distinct(rec.key)
		}
		switch {
		case jobs[i].s != nil:
			out.sorts = append(out.sorts, rec)
		case strings.HasSuffix(rec.class, "open-end-cut"):
			out.openEnd = append(out.openEnd, rec)
		default:
			out.queries = append(out.queries, rec)
		}
		if !sampled[rec.class] && i%7 == 3 {
			sampled[rec.class] = true
			m := map[string]any{}
			for k, v := range rec.m {
				m[k] = v
			}
			if h, ok := m["hits"].([]int); ok {
				n := 0
				for _, x := range h {
					n += x
				}
				m["hits"] = fmt.Sprintf("%d of %d documents", n, len(h))
			}
			c.Sample(m)
		}
	}
	sort.SliceStable(out.queries, func(i, j int) bool { return out.queries[i].class < out.queries[j].class })
	return out, nil
}
