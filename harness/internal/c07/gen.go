package c07

import (
	"math"
	"math/rand"
	"sort"
)

// ---- encodings shared with spec/trace/JudgeNumeric.tla

// nibbles returns the 16 base-16 digits of a 64-bit word, most significant first.
func nibbles(u uint64) []int {
	out := make([]int, 16)
	for i := 0; i < 16; i++ {
		out[i] = int(u>>(60-4*uint(i))) & 0xF
	}
	return out
}

func byteInts(b []byte) []int {
	out := make([]int, len(b))
	for i, x := range b {
		out[i] = int(x)
	}
	return out
}

func isNaNBits(u uint64) bool {
	return u&0x7FF0000000000000 == 0x7FF0000000000000 && u&0x000FFFFFFFFFFFFF != 0
}
func isNegZeroBits(u uint64) bool { return u == 0x8000000000000000 }
func ordinaryFloatBits(u uint64) bool {
	return !isNaNBits(u) && !isNegZeroBits(u)
}

// ---- boundary-biased generators (inputs only; no expected values are computed here)

func lowMask(k uint) int64 { // k nibbles
	if k >= 16 {
		return -1
	}
	return int64(1)<<(4*k) - 1
}

// interestingFloats: all signs, infinities, subnormals, 1-ulp neighbours, powers of two.
func interestingFloats(r *rand.Rand, extra int) []float64 {
	base := []float64{0, 1, 2, 0.5, 0.1, 1.5, 3, 10, 100, 255, 256, 257, 1e3, 65535, 65536, 1e6, 1e9,
		4294967295, 4294967296, 1e15, 9007199254740991, 9007199254740992, 9007199254740993, 1e18, 1e100, 1e300,
		math.MaxFloat64, math.SmallestNonzeroFloat64, 2.2250738585072014e-308, 2.225073858507201e-308,
		math.Pi, math.E, 1e-3, 1e-9, 1e-100, 1e-300, 1e-310, 1e-320, math.MaxInt64, math.MaxInt32, math.Inf(1)}
	var out []float64
	add := func(f float64) {
		if math.IsNaN(f) || (f == 0 && math.Signbit(f)) {
			return
		}
		out = append(out, f)
	}
	addN := func(f float64) {
		add(f)
		add(math.Nextafter(f, math.Inf(1)))
		add(math.Nextafter(f, math.Inf(-1)))
	}
	for _, f := range base {
		addN(f)
		addN(-f)
	}
	for e := -1074; e <= 1023; e += 1 + r.Intn(40) {
		f := math.Ldexp(1, e)
		addN(f)
		addN(-f)
	}
	for i := 0; i < extra; i++ {
		switch r.Intn(4) {
		case 0:
			addN(r.NormFloat64() * math.Ldexp(1, r.Intn(200)-100))
		case 1:
			addN(float64(r.Int63n(1<<53) - 1<<52))
		case 2:
			// bit patterns with a nibble boundary in the low part
			k := uint(r.Intn(13))
			u := r.Uint64() &^ uint64(lowMask(k))
			addN(math.Float64frombits(u))
		default:
			addN(math.Float64frombits(r.Uint64()))
		}
	}
	return sortDedupFloats(out)
}

func sortDedupFloats(in []float64) []float64 {
	sort.Float64s(in)
	out := in[:0]
	for i, f := range in {
		if i > 0 && f == in[i-1] {
			continue
		}
		out = append(out, f)
	}
	return out
}

// interestingInts: MinInt64/MaxInt64, every nibble boundary +-1, sortable images of
// special floats, random.
func interestingInts(r *rand.Rand, floatToInt func(float64) int64, extra int) []int64 {
	out := []int64{math.MinInt64, math.MinInt64 + 1, math.MinInt64 + 15, math.MinInt64 + 16, math.MinInt64 + 17,
		math.MaxInt64, math.MaxInt64 - 1, math.MaxInt64 - 15, math.MaxInt64 - 16, math.MaxInt64 - 17, 0, 1, -1, 2, -2, 15, 16, 17, -15, -16, -17}
	for k := uint(0); k < 16; k++ {
		p := int64(1) << (4 * k)
		for _, v := range []int64{p, -p, lowMask(k), ^lowMask(k), int64(0xF) << (4 * k), int64(0x8) << (4 * k), int64(0x7) << (4 * k)} {
			out = append(out, v-1, v, v+1)
		}
		for j := 0; j < 2; j++ {
			hi := int64(r.Uint64()) &^ lowMask(k+1)
			for _, d := range []int64{0, 1, 0xE, 0xF} {
				base := hi | d<<(4*k)
				out = append(out, base, base|lowMask(k), base|lowMask(k)-1, base+1, base-1)
			}
		}
	}
	for _, f := range []float64{math.Inf(1), math.Inf(-1), math.MaxFloat64, -math.MaxFloat64, math.SmallestNonzeroFloat64,
		-math.SmallestNonzeroFloat64, 2.2250738585072014e-308, -2.2250738585072014e-308, 1, -1, 0.1, 1e15} {
		i := floatToInt(f)
		out = append(out, i-1, i, i+1)
	}
	for i := 0; i < extra; i++ {
		out = append(out, int64(r.Uint64()))
	}
	return out
}

var deltas = func() []int64 {
	d := []int64{0, 1, 2, 3, 14, 15, 16, 17, 30, 31, 32, 33, 254, 255, 256, 257, 271, 272, 273, 511, 512}
	for k := uint(2); k < 16; k++ {
		p := int64(1) << (4 * k)
		d = append(d, p-1, p, p+1, 2*p-1, 2*p, 2*p+1, 15*p, 16*p-1, 17*p)
	}
	return d
}()

// endPairs: ranges hugging the two ends of the number line, where the wrap
// guards of the splitter (nextMin < min, nextMax > max) decide.
func endPairs() [][2]int64 {
	var out [][2]int64
	for i, d := range deltas {
		e := deltas[(i*5+2)%len(deltas)]
		out = append(out,
			[2]int64{math.MinInt64, math.MinInt64 + d},
			[2]int64{math.MaxInt64 - d, math.MaxInt64},
			[2]int64{math.MinInt64 + d, math.MaxInt64 - e},
			[2]int64{math.MinInt64, math.MaxInt64 - e},
			[2]int64{math.MinInt64 + d, math.MaxInt64})
		if d <= e {
			out = append(out, [2]int64{math.MinInt64 + d, math.MinInt64 + e}, [2]int64{math.MaxInt64 - e, math.MaxInt64 - d})
		}
	}
	return out
}

// splitPair draws one (min,max) for the splitter.
func splitPair(r *rand.Rand, pool []int64) (int64, int64) {
	a := pool[r.Intn(len(pool))]
	var b int64
	switch r.Intn(8) {
	case 0:
		b = pool[r.Intn(len(pool))]
	case 1, 2, 3:
		b = a + deltas[r.Intn(len(deltas))] // wraps now and then: min > max
	case 4:
		k := uint(r.Intn(16))
		b = a | lowMask(k)
	case 5:
		k := uint(r.Intn(16))
		b = a
		a = a &^ lowMask(k)
	case 6:
		k := uint(r.Intn(15)) + 1
		a = a&^lowMask(k) - int64(r.Intn(3)) + 1
		b = (a + deltas[r.Intn(len(deltas))]) | lowMask(k) + int64(r.Intn(3)) - 1
	default:
		b = a - deltas[r.Intn(len(deltas))]
		a, b = b, a
		if r.Intn(6) == 0 {
			a, b = b, a
		}
	}
	// exclusive-bound stepping exactly as a caller with flags would do it
	if r.Intn(3) == 0 && a != math.MaxInt64 {
		a++
	}
	if r.Intn(3) == 0 && b != math.MinInt64 {
		b--
	}
	return a, b
}
