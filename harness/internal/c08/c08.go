// Package c08 checks property C08: "Searchers yield ascending ids; Advance
// lands on the first match at/after target".
//
//	model:    spec/Searchers.tla: algorithmic models of the term field reader
//	          over a multi-segment snapshot, doc-id reader, conjunction,
//	          disjunction (slice / heap), boolean, filter and the unadorned
//	          bitmap optimisations; TLC runs every program of Next/Advance
//	          calls with forward targets and checks each result against the
//	          declarative contract over Query!Hits
//	engine A: TLC's programs (with the results the model computed) replayed on
//	          indexes whose internal id order is the model's
//	engine B: seeded programs on real multi-segment indexes with deletions
//	          (scorch) and on upsidedown, logged in rank space, judged by TLC
//	          (trace/JudgeSearcher.tla)
package c08

import (
	"context"
	"encoding/json"
	"fmt"
	"math/rand"
	"os"
	"path/filepath"
	"sort"
	"strings"
	"sync"
	"time"

	bleve "github.com/blevesearch/bleve/v2"
	"github.com/blevesearch/bleve/v2/search"
	"github.com/blevesearch/bleve/v2/search/query"
	"github.com/blevesearch/bleve/v2/search/searcher"
	index "github.com/blevesearch/bleve_index_api"

	"verif/harness/internal/core"
	"verif/harness/internal/qs"
	"verif/harness/internal/tlaval"
)

func init() {
	core.Register(&core.Check{Prop: "C08", Level: "model_checking", Run: run, Replay: replay})
}

const (
	// Advance (as the first call, or after Next returned nothing) on a scorch
	// snapshot without segments (DESIGN lead 4): index out of range [-1]
	SigEmpty = "advance-panics-on-snapshot-without-segments(scorch)"
	// BooleanSearcher.Advance as the very first call, must + should(min>=1):
	// initSearchers moved the should searcher past the target's match
	SigQ2 = "boolean-advance-as-first-call-skips-match(must+should-min)"
)

type optsT struct {
	Score   string
	Explain bool
	TV      bool
}

func (o optsT) so() search.SearcherOptions {
	return search.SearcherOptions{Explain: o.Explain, IncludeTermVectors: o.TV, Score: o.Score}
}
func (o optsT) String() string {
	return fmt.Sprintf("score=%q/explain=%v/tv=%v", o.Score, o.Explain, o.TV)
}

var allOpts = []optsT{{"", false, false}, {"none", false, false}, {"", true, true}, {"none", false, true}}

// ---- running programs in rank space

type callT struct {
	Op string `json:"op"`
	T  int    `json:"t"` // rank-space target (number of live ids below the real target), -1 for next
	R  int    `json:"r"` // returned rank, -1 nothing
	// replay information (not judged)
	Raw string `json:"raw,omitempty"` // the real target (hex of the internal id)
}

type env struct {
	eng  string
	idx  bleve.Index
	rd   index.IndexReader
	live []qs.LiveEntry
	// all candidate raw targets in ascending order (live ids, ids between and beyond)
	targets []index.IndexInternalID
}

func newSearcher(e *env, q query.Query, o optsT) (search.Searcher, *search.SearchContext, error) {
	s, err := q.Searcher(context.Background(), e.rd, e.idx.Mapping(), o.so())
	if err != nil {
		return nil, nil, err
	}
	sctx := &search.SearchContext{DocumentMatchPool: search.NewDocumentMatchPool(s.DocumentMatchPoolSize()+64, 0)}
	return s, sctx, nil
}

type panicErr struct{ msg string }

func (p *panicErr) Error() string { return "panic: " + p.msg }

func callNext(s search.Searcher, sctx *search.SearchContext) (id index.IndexInternalID, err error) {
	defer func() {
		if p := recover(); p != nil {
			err = &panicErr{fmt.Sprint(p)}
		}
	}()
	dm, err := s.Next(sctx)
	if err != nil || dm == nil {
		return nil, err
	}
	return append(index.IndexInternalID{}, dm.IndexInternalID...), nil
}

func callAdvance(s search.Searcher, sctx *search.SearchContext, t index.IndexInternalID) (id index.IndexInternalID, err error) {
	defer func() {
		if p := recover(); p != nil {
			err = &panicErr{fmt.Sprint(p)}
		}
	}()
	dm, err := s.Advance(sctx, t)
	if err != nil || dm == nil {
		return nil, err
	}
	return append(index.IndexInternalID{}, dm.IndexInternalID...), nil
}

// enumerate: Next until nothing, as ranks. A result that is not a live
// document's id is reported through bad.
func enumerate(e *env, q query.Query, o optsT) (ranks []int, bad string, err error) {
	s, sctx, err := newSearcher(e, q, o)
	if err != nil {
		return nil, "", err
	}
	defer s.Close()
	for i := 0; i <= len(e.live)+1; i++ {
		id, err := callNext(s, sctx)
		if pe, ok := err.(*panicErr); ok {
			return ranks, "panic: " + pe.msg, nil
		}
		if err != nil {
			return nil, "", err
		}
		if id == nil {
			return ranks, "", nil
		}
		r := qs.RankOf(e.live, id)
		if r < 0 {
			return ranks, fmt.Sprintf("Next returned internal id %x which is no live document", []byte(id)), nil
		}
		ranks = append(ranks, r)
	}
	return ranks, "enumeration longer than the number of live documents", nil
}

// genProgram runs a random forward program against a fresh searcher.
// matches: the enumeration (ranks), used only to aim targets at, just behind
// and between matches.
func genProgram(r *rand.Rand, e *env, q query.Query, o optsT, maxCalls int, matches []int, firstAdvP float64) (prog []callT, bad string, err error) {
	s, sctx, err := newSearcher(e, q, o)
	if err != nil {
		return nil, "", err
	}
	defer s.Close()
	var hi index.IndexInternalID // max(last returned, last target); nil = nothing yet
	n := 1 + r.Intn(maxCalls)
	for i := 0; i < n; i++ {
		adv := r.Float64() < 0.55
		if i == 0 {
			adv = r.Float64() < firstAdvP
		}
		var cands []index.IndexInternalID
		if adv {
			for _, t := range e.targets {
				if hi == nil || t.Compare(hi) > 0 {
					cands = append(cands, t)
				}
			}
			if len(cands) == 0 {
				adv = false
			}
		}
		if !adv {
			id, err := callNext(s, sctx)
			if pe, ok := err.(*panicErr); ok {
				prog = append(prog, callT{Op: "next", T: -1, R: -2})
				return prog, "panic: " + pe.msg, nil
			}
			if err != nil {
				return prog, "", err
			}
			c := callT{Op: "next", T: -1, R: -1}
			if id != nil {
				c.R = qs.RankOf(e.live, id)
				if c.R < 0 {
					return prog, fmt.Sprintf("Next returned internal id %x which is no live document", []byte(id)), nil
				}
				if hi == nil || id.Compare(hi) > 0 {
					hi = id
				}
			}
			prog = append(prog, c)
			continue
		}
		// aim: at a match, just behind a match, anywhere, beyond everything
		var t index.IndexInternalID
		switch r.Intn(5) {
		case 0, 1: // at a later match
			var ms []index.IndexInternalID
			for _, m := range matches {
				if hi == nil || e.live[m].Internal.Compare(hi) > 0 {
					ms = append(ms, e.live[m].Internal)
				}
			}
			if len(ms) > 0 {
				t = ms[r.Intn(min(len(ms), 3))]
			}
		case 2: // the candidate right behind a later match
			var behind []index.IndexInternalID
			for k := 1; k < len(cands); k++ {
				for _, m := range matches {
					if e.live[m].Internal.Equals(cands[k-1]) {
						behind = append(behind, cands[k])
					}
				}
			}
			if len(behind) > 0 {
				t = behind[r.Intn(min(len(behind), 3))]
			}
		case 3: // beyond
			t = cands[len(cands)-1]
		}
		if t == nil {
			t = cands[r.Intn(len(cands))]
		}
		id, err := callAdvance(s, sctx, t)
		if err != nil {
			if pe, ok := err.(*panicErr); ok {
				prog = append(prog, callT{Op: "adv", T: qs.RankBelow(e.live, t), R: -2, Raw: fmt.Sprintf("%x", []byte(t))})
				return prog, "panic: " + pe.msg, nil
			}
			return prog, "", err
		}
		c := callT{Op: "adv", T: qs.RankBelow(e.live, t), R: -1, Raw: fmt.Sprintf("%x", []byte(t))}
		hi = t
		if id != nil {
			c.R = qs.RankOf(e.live, id)
			if c.R < 0 {
				return prog, fmt.Sprintf("Advance returned internal id %x which is no live document", []byte(id)), nil
			}
			if id.Compare(hi) > 0 {
				hi = id
			}
		}
		prog = append(prog, c)
	}
	return prog, "", nil
}

// newEnv opens a reader, lists the live ids and builds the target universe.
func newEnv(eng string, idx bleve.Index, nids int) (*env, error) {
	adv, err := idx.Advanced()
	if err != nil {
		return nil, err
	}
	rd, err := adv.Reader()
	if err != nil {
		return nil, err
	}
	live, err := qs.LiveInternal(rd)
	if err != nil {
		rd.Close()
		return nil, err
	}
	e := &env{eng: eng, idx: idx, rd: rd, live: live}
	if qs.IsScorch(eng) {
		// every doc number from 0 to two beyond the largest live one: live
		// documents, deleted ones between them, segment boundaries, beyond
		top := uint64(1)
		if len(live) > 0 {
			top = live[len(live)-1].Internal.Value() + 2
		}
		for d := uint64(0); d <= top; d++ {
			e.targets = append(e.targets, index.NewIndexInternalID(nil, d))
		}
	} else {
		// upsidedown: internal id = external id bytes. Every id of the id
		// space (live or not), an id between each two, one beyond
		for d := 0; d <= nids; d++ {
			e.targets = append(e.targets, index.IndexInternalID(qs.DocID(d)), index.IndexInternalID(qs.DocID(d)+"x"))
		}
		e.targets = append([]index.IndexInternalID{index.IndexInternalID("a")}, e.targets...)
		e.targets = append(e.targets, index.IndexInternalID("z"))
	}
	return e, nil
}

// ---- one judged record: corpus (rank order), query, enumeration, leaves, programs

type recT struct {
	Seed    int64
	Hist    qs.History
	Eng     string
	Opts    optsT
	Heap    int
	Q       *qs.Node
	Corpus  []any
	QJSON   map[string]any
	Enum    []int
	Leaves  []any
	Progs   [][]callT
	Q2Prone [][]callT // programs whose first call is Advance on a Q2 tree
	NLive   int
	Prone   []string // C02 deviation classes this run is prone to (EnumIsHits is not demanded then)
}

func (rc *recT) record(progs [][]callT, withLeaves bool) map[string]any {
	enum := []int{}
	enum = append(enum, rc.Enum...)
	ps := []any{}
	for _, p := range progs {
		cs := []any{}
		for _, c := range p {
			cs = append(cs, map[string]any{"op": c.Op, "t": c.T, "r": c.R})
		}
		ps = append(ps, cs)
	}
	leaves := []any{}
	if withLeaves {
		leaves = rc.Leaves
	}
	corpus := rc.Corpus
	if corpus == nil {
		corpus = []any{}
	}
	return map[string]any{"corpus": corpus, "q": rc.QJSON, "enum": enum, "leaves": leaves, "progs": ps}
}

func mustJSON(v any) string {
	b, _ := json.Marshal(v)
	return string(b)
}

type corpusT struct {
	seed int64
	hist qs.History
	live map[int]*qs.Doc
	nids int
	idx  map[string]bleve.Index
	envs map[string]*env
	// corpus JSON per engine, in that engine's rank order
	corpus map[string][]any
	rankOf map[string]map[int]int // engine -> external doc id -> rank
	dirs   []string
}

func (ct *corpusT) close() {
	for _, e := range ct.envs {
		e.rd.Close()
	}
	for _, i := range ct.idx {
		i.Close()
	}
	for _, d := range ct.dirs {
		os.RemoveAll(d)
	}
}

var errCorpusJudged = fmt.Errorf("corpus rejected by a reported violation")

// matchAllNotIncreasing runs a real match_all searcher with Next until it is
// exhausted and returns a description of the first result whose internal id is
// not greater than its predecessor's ("" when all increase strictly).
func matchAllNotIncreasing(idx bleve.Index) string {
	adv, err := idx.Advanced()
	if err != nil {
		return ""
	}
	rd, err := adv.Reader()
	if err != nil {
		return ""
	}
	defer rd.Close()
	s, err := query.NewMatchAllQuery().Searcher(context.Background(), rd, idx.Mapping(), search.SearcherOptions{})
	if err != nil {
		return ""
	}
	defer s.Close()
	sctx := &search.SearchContext{DocumentMatchPool: search.NewDocumentMatchPool(s.DocumentMatchPoolSize()+64, 0)}
	var prev index.IndexInternalID
	for n := 0; n < 1<<20; n++ {
		id, err := callNext(s, sctx)
		if err != nil || id == nil {
			return ""
		}
		if prev != nil && prev.Compare(id) >= 0 {
			pe, _ := rd.ExternalID(prev)
			ce, _ := rd.ExternalID(id)
			return fmt.Sprintf("result %d has internal id %v (document %q) after %v (document %q)", n, []byte(id), ce, []byte(prev), pe)
		}
		prev = id
	}
	return ""
}

func liveOf(h qs.History) map[int]*qs.Doc {
	live := map[int]*qs.Doc{}
	for _, b := range h {
		for _, op := range b {
			if op.Del {
				delete(live, op.ID)
			} else {
				live[op.ID] = op.Doc
			}
		}
	}
	return live
}

func buildCorpus(c *core.Ctx, seed int64, hist qs.History, nids int) (*corpusT, error) {
	im := qs.Mapping()
	live := liveOf(hist)
	ct := &corpusT{seed: seed, hist: hist, live: live, nids: nids, idx: map[string]bleve.Index{}, envs: map[string]*env{},
		corpus: map[string][]any{}, rankOf: map[string]map[int]int{}}
	for _, eng := range qs.Engines {
		r := rand.New(rand.NewSource(seed ^ 0x5eed))
		dir := ""
		mergeAfter := -1
		if eng == qs.EngScorchMerged {
			dir = c.TempDir("c08idx")
			ct.dirs = append(ct.dirs, dir)
			mergeAfter = len(hist)/2 + int(uint64(seed)%2)
		}
		idx, err := qs.NewIndex(eng, im, dir)
		if err != nil {
			return nil, err
		}
		ct.idx[eng] = idx
		if err := qs.ApplyMerging(idx, hist, r, mergeAfter); err != nil {
			return nil, err
		}
		if eng == qs.EngScorchMerged && uint64(seed)%3 != 1 {
			// the searchers then run over the snapshot rebuilt from disk (a restart):
			// a merged segment followed by the later batches' segments, with their deletions
			if err := idx.Close(); err != nil {
				return nil, err
			}
			idx, err = bleve.OpenUsing(filepath.Join(dir, "idx"), map[string]interface{}{
				"scorchMergePlanOptions": map[string]interface{}{"FloorSegmentSize": 1}})
			if err != nil {
				return nil, fmt.Errorf("reopen: %v", err)
			}
			ct.idx[eng] = idx
		}
		e, err := newEnv(eng, idx, nids)
		if err != nil {
			if strings.Contains(err.Error(), "not strictly ascending") {
				// the id walk the harness ranks documents with is what a match-all searcher
				// returns: judge it through the searcher itself
				if what := matchAllNotIncreasing(idx); what != "" {
					c.Violation("next-not-increasing(match_all)/"+eng, "a match_all searcher driven by Next alone over the index built from the history: "+what,
						map[string]any{"kind": "corpus", "seed": seed, "history": hist, "engine": eng, "nids": nids})
					ct.close()
					return nil, errCorpusJudged
				}
			}
			return nil, err
		}
		ct.envs[eng] = e
		if len(e.live) != len(live) {
			return nil, fmt.Errorf("engine %s: %d live ids, history says %d", eng, len(e.live), len(live))
		}
		ct.rankOf[eng] = map[int]int{}
		for rank, le := range e.live {
			id, ok := qs.ParseDocID(le.External)
			if !ok || live[id] == nil {
				return nil, fmt.Errorf("engine %s: live id %q unknown to the history", eng, le.External)
			}
			ad, err := live[id].Analysed(im)
			if err != nil {
				return nil, err
			}
			ct.corpus[eng] = append(ct.corpus[eng], ad.JSON(rank))
			ct.rankOf[eng][id] = rank
		}
	}
	return ct, nil
}

func leavesOf(q *qs.Node) []*qs.Node {
	var out []*qs.Node
	q.Walk(func(x *qs.Node) {
		if len(x.Kids()) == 0 && x.Type != "conj" && x.Type != "disj" && x.Type != "boolean" {
			out = append(out, x)
		}
	})
	return out
}

// runQuery produces the record of one (engine, options, query).
func (ct *corpusT) runQuery(r *rand.Rand, eng string, o optsT, q *qs.Node, nprog, maxCalls int) (*recT, string, error) {
	e := ct.envs[eng]
	idmap := func(id int) (int, bool) { rk, ok := ct.rankOf[eng][id]; return rk, ok }
	rc := &recT{Seed: ct.seed, Hist: ct.hist, Eng: eng, Opts: o, Q: q, Corpus: ct.corpus[eng], QJSON: q.JSONMap(idmap), NLive: len(e.live)}
	var k1 qs.K1Set
	if qs.IsScorch(eng) {
		var err error
		if k1, err = qs.AnnotateK1(q, ct.idx[eng]); err != nil {
			return rc, "", err
		}
	}
	rc.Prone = qs.ProneTo(qs.FeaturesOf(q, k1), eng, o.Score == "none" && !o.TV)
	bq := q.Bleve(nil)
	enum, bad, err := enumerate(e, bq, o)
	if err != nil || bad != "" {
		return rc, bad, err
	}
	rc.Enum = enum
	for _, lf := range leavesOf(q) {
		post, bad, err := enumerate(e, lf.Bleve(nil), o)
		if err != nil || bad != "" {
			return rc, bad, err
		}
		p := []int{}
		p = append(p, post...)
		rc.Leaves = append(rc.Leaves, map[string]any{"q": lf.JSONMap(idmap), "post": p})
	}
	if rc.Leaves == nil {
		rc.Leaves = []any{}
	}
	q2 := qs.HasMustShouldMin(q)
	firstAdvP := 0.45
	for k := 0; k < nprog; k++ {
		prog, bad, err := genProgram(r, e, bq, o, maxCalls, enum, firstAdvP)
		if err != nil {
			return rc, "", err
		}
		if bad != "" {
			rc.Progs = append(rc.Progs, prog)
			return rc, bad, nil
		}
		if q2 && len(prog) > 0 && prog[0].Op == "adv" {
			rc.Q2Prone = append(rc.Q2Prone, prog)
		} else {
			rc.Progs = append(rc.Progs, prog)
		}
	}
	return rc, "", nil
}

// ---- the check

type modelCfg struct {
	cfg     string
	workers int
	timeout time.Duration
}

func run(c *core.Ctx) error {
	c.SetRule("a case = (index layout, query tree, searcher options, program of Next/Advance calls); counted once per distinct (rank-ordered corpus, query, options, program) whose program has >= 2 calls or one Advance, on an index with >= 2 live documents")
	c.SetExhaustive(false)
	c.Assume("targets are forward: beyond the last returned id and beyond the previous target (backward / repeated targets are outside the contract)")
	c.Assume("internal ids are compared only through IndexInternalID.Compare / ranks among the live ids; scorch in memory (every batch a segment, deletions as bitmaps) and upsidedown over gtreap")
	c.Assume("the nested-conjunction searcher and the nested collector are the subject of C20, the k-NN and geo searchers are outside the query family of C02/C08")

	models := []modelCfg{
		{"MCSearchers_c08_q_zero.cfg", 1, 8 * time.Minute},
		{"MCSearchers_c08_q_q2.cfg", 1, 8 * time.Minute},
		{"MCSearchers_c08_q_tfr.cfg", 2, 8 * time.Minute},
		{"MCSearchers_c08_q_tfr_bm.cfg", 2, 8 * time.Minute},
		{"MCSearchers_c08_q_core_none.cfg", 3, 8 * time.Minute},
		{"MCSearchers_c08_q_heap.cfg", 2, 8 * time.Minute},
		{"MCSearchers_c08_q_deep.cfg", 3, 8 * time.Minute},
	}
	if c.Thorough() {
		models = append(models,
			modelCfg{"MCSearchers_c08_q_core.cfg", 2, 29 * time.Minute},
			modelCfg{"MCSearchers_c08_t_flat.cfg", 3, 29 * time.Minute},
			modelCfg{"MCSearchers_c08_t_flat2.cfg", 3, 29 * time.Minute},
			modelCfg{"MCSearchers_c08_t_none.cfg", 3, 29 * time.Minute},
			modelCfg{"MCSearchers_c08_t_heap.cfg", 2, 29 * time.Minute},
			modelCfg{"MCSearchers_c08_t_deepq.cfg", 2, 29 * time.Minute},
			modelCfg{"MCSearchers_c08_t_deep.cfg", 3, 29 * time.Minute},
			modelCfg{"MCSearchers_c08_t_deep_none.cfg", 3, 29 * time.Minute},
			modelCfg{"MCSearchers_c08_t_hist.cfg", 2, 29 * time.Minute})
	}
	if os.Getenv("VERIF_DEV_SKIP_MODEL") != "" { // development aid (mutant runs): the model does not depend on the code
		models = nil
	}
	var wg sync.WaitGroup
	for _, m := range models {
		wg.Add(1)
		go func(m modelCfg) {
			defer wg.Done()
			c.ModelCheck("MCSearchers", m.cfg, core.Workers(m.workers), core.Timeout(m.timeout))
		}(m)
	}
	defer wg.Wait()

	// the two configurations that model the code AS FOUND (before the repairs
	// e665ba9 and b5b6d7b): TLC is expected to refute them, and their
	// counterexamples are executed on the real code as regression detectors
	var fwg sync.WaitGroup
	var ferr [2]error
	fwg.Add(2)
	go func() { defer fwg.Done(); ferr[0] = modelFindingEmpty(c) }()
	go func() { defer fwg.Done(); ferr[1] = modelFindingQ2(c) }()

	errB := engineB(c)
	fwg.Wait()
	if errB != nil {
		return errB
	}
	for _, e := range ferr {
		if e != nil {
			return e
		}
	}
	return engineA(c)
}

// ---- engine B

func engineB(c *core.Ctx) error {
	phases := []struct {
		heap  int
		nCorp int
	}{{0, c.Pick(14, 300)}, {1, c.Pick(5, 80)}}
	nQ := c.Pick(9, 12)
	nProg := c.Pick(4, 6)
	maxCalls := c.Pick(4, 8)
	depth := c.Pick(2, 3)
	var all []*recT
	type badT struct {
		rc  *recT
		msg string
	}
	var bads []badT
	for pi, ph := range phases {
		old := searcher.DisjunctionHeapTakeover
		if ph.heap > 0 {
			searcher.DisjunctionHeapTakeover = ph.heap
		}
		var mu sync.Mutex
		var firstErr error
		jobs := make(chan int, ph.nCorp)
		for i := 0; i < ph.nCorp; i++ {
			jobs <- i
		}
		close(jobs)
		var wg sync.WaitGroup
		for w := 0; w < 6; w++ {
			wg.Add(1)
			go func() {
				defer wg.Done()
				for i := range jobs {
					seed := c.Seed*1000003 + int64(pi)*500009 + int64(i)
					r := rand.New(rand.NewSource(seed))
					nids := 4 + r.Intn(9)
					h, _ := qs.GenHistory(r, nids, 3+r.Intn(5))
					if i%9 == 4 {
						// a history that ends with every document deleted: the
						// scorch snapshot has no segment at all
						var last []qs.Op
						for id := range liveOf(h) {
							last = append(last, qs.Op{Del: true, ID: id})
						}
						sort.Slice(last, func(a, b int) bool { return last[a].ID < last[b].ID })
						if len(last) > 0 {
							h = append(h, last)
						}
					}
					ct, err := buildCorpus(c, seed, h, nids)
					if err == errCorpusJudged {
						continue
					}
					if err != nil {
						mu.Lock()
						if firstErr == nil {
							firstErr = err
						}
						mu.Unlock()
						return
					}
					var liveDocs []*qs.Doc
					{
						lv := liveOf(h)
						var ids []int
						for id := range lv {
							ids = append(ids, id)
						}
						sort.Ints(ids)
						for _, id := range ids {
							liveDocs = append(liveDocs, lv[id])
						}
					}
					var local []*recT
					var localBad []badT
					for k := 0; k < nQ; k++ {
						q := qs.GenQuery(r, qs.Facts{NIDs: nids, Docs: liveDocs}, depth)
						for _, eng := range qs.Engines {
							o := allOpts[r.Intn(len(allOpts))]
							rc, bad, err := ct.runQuery(r, eng, o, q, nProg, maxCalls)
							if err != nil {
								mu.Lock()
								if firstErr == nil {
									firstErr = fmt.Errorf("%s %s %s: %v", eng, o, mustJSON(q.JSON()), err)
								}
								mu.Unlock()
								continue
							}
							rc.Heap = ph.heap
							if bad != "" {
								localBad = append(localBad, badT{rc, bad})
								continue
							}
							local = append(local, rc)
						}
					}
					ct.close()
					mu.Lock()
					all = append(all, local...)
					bads = append(bads, localBad...)
					mu.Unlock()
				}
			}()
		}
		wg.Wait()
		searcher.DisjunctionHeapTakeover = old
		if firstErr != nil {
			return firstErr
		}
	}
	sort.SliceStable(all, func(i, j int) bool {
		if all[i].Seed != all[j].Seed {
			return all[i].Seed < all[j].Seed
		}
		return all[i].Eng < all[j].Eng
	})
	for _, b := range bads {
		reportBad(c, b.rc, b.msg)
	}
	return judge(c, all, true)
}

// reportBad: failures that need no judge - a panic, an id that is no live
// document, an endless enumeration.
func reportBad(c *core.Ctx, rc *recT, msg string) {
	var last []callT
	if n := len(rc.Progs); n > 0 {
		last = rc.Progs[n-1]
	}
	sig := ""
	switch {
	case strings.HasPrefix(msg, "panic:") && qs.IsScorch(rc.Eng) && rc.NLive == 0 && len(last) > 0 && last[len(last)-1].Op == "adv":
		sig = SigEmpty
	case strings.HasPrefix(msg, "panic:"):
		sig = fmt.Sprintf("panic:%s:%s", rc.Eng, rc.Q.Shape())
	default:
		sig = fmt.Sprintf("not-a-live-document:%s:%s", rc.Eng, rc.Q.Shape())
	}
	what := fmt.Sprintf("%s: engine %s %s query %s over %d live documents, program %s", msg, rc.Eng, rc.Opts, mustJSON(rc.Q.JSON()), rc.NLive, mustJSON(last))
	c.Violation(sig, what, replayData(rc, [][]callT{last}))
}

func replayData(rc *recT, progs [][]callT) map[string]any {
	return map[string]any{"kind": "engineB", "corpus_seed": rc.Seed, "history": rc.Hist, "engine": rc.Eng, "options": rc.Opts,
		"heap_takeover": rc.Heap, "query": rc.Q, "programs": progs, "enum": rc.Enum}
}

func judge(c *core.Ctx, all []*recT, account bool) error {
	var strict, q2, hits []*recT
	for _, rc := range all {
		if len(rc.Progs) > 0 || len(rc.Q2Prone) == 0 {
			strict = append(strict, rc)
		}
		if len(rc.Q2Prone) > 0 {
			q2 = append(q2, rc)
		}
		if len(rc.Prone) == 0 {
			hits = append(hits, rc)
		}
		if account {
			for _, p := range append(append([][]callT{}, rc.Progs...), rc.Q2Prone...) {
				c.Eval(1)
				nadv := 0
				for _, cl := range p {
					if cl.Op == "adv" {
						nadv++
					}
				}
				if rc.NLive >= 2 && (len(p) >= 2 || nadv >= 1) {
					c.Distinct(rc.Eng + rc.Opts.String() + mustJSON(rc.Corpus) + mustJSON(rc.QJSON) + mustJSON(p))
				}
			}
		}
	}
	if account && len(all) > 0 {
		for _, i := range []int{0, len(all) / 2, len(all) - 1} {
			rc := all[i]
			c.Sample(map[string]any{"engine": rc.Eng, "options": rc.Opts.String(), "query": rc.QJSON, "live_docs": rc.NLive,
				"enumeration_ranks": rc.Enum, "programs_ranks": append(append([][]callT{}, rc.Progs...), rc.Q2Prone...)})
		}
	}
	type failT struct {
		rc    *recT
		inv   string
		progs [][]callT
		class string
	}
	var mu sync.Mutex
	var fails []failT
	var jerr error
	var wg sync.WaitGroup
	sem := make(chan struct{}, 3)
	runJudge := func(cfg string, part []*recT, progsOf func(*recT) [][]callT, withLeaves bool, maxFail int, class string) {
		wg.Add(1)
		go func() {
			defer wg.Done()
			sem <- struct{}{}
			defer func() { <-sem }()
			recs := make([]any, len(part))
			for i, rc := range part {
				recs[i] = rc.record(progsOf(rc), withLeaves)
			}
			if len(recs) == 0 {
				return
			}
			bad, err := qs.Judge(c, "JudgeSearcher", cfg, qs.DummySearcher, recs, maxFail, core.Timeout(25*time.Minute))
			mu.Lock()
			defer mu.Unlock()
			if err != nil {
				if jerr == nil {
					jerr = err
				}
				return
			}
			c.Traces(1)
			for i, inv := range bad {
				fails = append(fails, failT{part[i], inv, progsOf(part[i]), class})
			}
		}()
	}
	const chunk = 1200
	for lo := 0; lo < len(strict); lo += chunk {
		hi := min(lo+chunk, len(strict))
		runJudge("JudgeSearcher.cfg", strict[lo:hi], func(rc *recT) [][]callT { return rc.Progs }, false, 8, "")
	}
	for lo := 0; lo < len(hits); lo += chunk {
		hi := min(lo+chunk, len(hits))
		runJudge("JudgeSearcher_hits.cfg", hits[lo:hi], func(rc *recT) [][]callT { return nil }, true, 8, "hits")
	}
	// programs prone to the first-call-Advance deviation: everything but the
	// first landing is demanded ...
	runJudge("JudgeSearcher_q2.cfg", q2, func(rc *recT) [][]callT { return rc.Q2Prone }, false, 8, "q2-tolerant")
	// ... and the first one that breaks the strict contract exhibits the finding
	runJudge("JudgeSearcher.cfg", q2, func(rc *recT) [][]callT { return rc.Q2Prone }, false, 1, "q2-strict")
	wg.Wait()
	if jerr != nil {
		return jerr
	}
	c.AddExtra("records_judged_contract", int64(len(strict)))
	c.AddExtra("records_judged_enum_is_hits", int64(len(hits)))
	c.AddExtra("records_prone_to:"+SigQ2, int64(len(q2)))
	sigSeen := map[string]bool{}
	detailed := 0
	tolerantFailed := map[*recT]bool{}
	for _, f := range fails {
		if f.class == "q2-tolerant" {
			tolerantFailed[f.rc] = true
		}
	}
	for _, f := range fails {
		switch f.class {
		case "q2-strict":
			if tolerantFailed[f.rc] {
				continue
			}
			what := fmt.Sprintf("%s violated: engine %s %s query %s over %d live documents (enumeration ranks %v): program(s) %s start with Advance and the first landing skips a match",
				f.inv, f.rc.Eng, f.rc.Opts, mustJSON(f.rc.QJSON), f.rc.NLive, f.rc.Enum, mustJSON(f.progs))
			c.Violation(SigQ2, what, replayData(f.rc, f.progs))
		case "hits":
			sig := fmt.Sprintf("%s:%s:%s", f.inv, f.rc.Eng, f.rc.Q.Shape())
			what := fmt.Sprintf("%s violated: engine %s %s query %s over %d live documents: Next-only enumeration (ranks) %v / leaf postings differ from the documented meaning",
				f.inv, f.rc.Eng, f.rc.Opts, mustJSON(f.rc.QJSON), f.rc.NLive, f.rc.Enum)
			c.Violation(sig, what, replayData(f.rc, nil))
		default:
			if f.inv == "Forward" {
				c.Inconclusive(fmt.Sprintf("harness generated a non-forward program (engine %s, query %s): %s", f.rc.Eng, mustJSON(f.rc.QJSON), mustJSON(f.progs)))
				continue
			}
			inv := f.inv
			if f.class == "q2-tolerant" {
				inv += "(beyond:" + SigQ2 + ")"
			}
			sig := fmt.Sprintf("%s:%s:%s:%s", inv, f.rc.Eng, scoreName(f.rc.Opts.Score), f.rc.Q.Shape())
			if sigSeen[sig] {
				continue
			}
			sigSeen[sig] = true
			var bad []callT
			if len(f.progs) > 0 {
				bad = f.progs[0]
			}
			if detailed < 3 { // one more TLC run per failure: only for the first few
				detailed++
				bad = firstBadProgram(c, f.rc, f.progs)
			}
			what := fmt.Sprintf("%s violated: engine %s %s query %s over %d live documents (enumeration ranks %v): program %s",
				inv, f.rc.Eng, f.rc.Opts, mustJSON(f.rc.QJSON), f.rc.NLive, f.rc.Enum, mustJSON(bad))
			c.Violation(sig, what, replayData(f.rc, [][]callT{bad}))
		}
	}
	return nil
}

func scoreName(s string) string {
	if s == "" {
		return "scored"
	}
	return s
}

// firstBadProgram lets TLC judge the programs of a rejected record one by one.
func firstBadProgram(c *core.Ctx, rc *recT, progs [][]callT) []callT {
	if len(progs) <= 1 {
		if len(progs) == 1 {
			return progs[0]
		}
		return nil
	}
	var recs []any
	for _, p := range progs {
		recs = append(recs, rc.record([][]callT{p}, false))
	}
	bad, err := qs.Judge(c, "JudgeSearcher", "JudgeSearcher.cfg", qs.DummySearcher, recs, 1)
	if err == nil {
		for i := range bad {
			return progs[i]
		}
	}
	return progs[0]
}

// ---- engine A: the model's programs on controlled indexes

type caseA struct {
	q    any
	post map[int][]int
	prog []qs.Call
}

type srcA struct {
	cfg    string
	layout qs.Layout // = SegSizes / Deleted of the cfg
	engs   []string
	calls  int // = MaxCalls of the cfg: complete programs are replayed
}

func engineA(c *core.Ctx) error {
	mem := []string{qs.EngScorch, qs.EngUpside}
	mrg := []string{qs.EngScorchMerged} // one merged segment: the 1-hit postings iterators
	srcs := []srcA{
		{"MCSearchers_c08_replay_q.cfg", qs.Layout{Segs: []int{2, 1}, Deleted: []int{1}}, mem, 3},
		{"MCSearchers_c08_replay_m.cfg", qs.Layout{Segs: []int{3}, Deleted: []int{1}}, mrg, 3},
		// a force-merged first segment followed by a fresh one: per-segment state of the
		// unadorned (score none) optimisations
		{"MCSearchers_c08_replay_t.cfg", qs.Layout{Segs: []int{2, 2}, Deleted: []int{1}}, mrg, 3},
	}
	if c.Thorough() {
		srcs = []srcA{
			{"MCSearchers_c08_replay_t.cfg", qs.Layout{Segs: []int{2, 2}, Deleted: []int{1}}, mem, 3},
			{"MCSearchers_c08_replay_tm.cfg", qs.Layout{Segs: []int{4}, Deleted: []int{1}}, mrg, 3},
			{"MCSearchers_c08_replay_t.cfg", qs.Layout{Segs: []int{2, 2}, Deleted: []int{1}}, mrg, 3},
			{"MCSearchers_c08_replay_td.cfg", qs.Layout{Segs: []int{2, 1}, Deleted: []int{1}}, mem, 2},
		}
	}
	for _, src := range srcs {
		if err := engineAOne(c, src, src.calls); err != nil {
			return err
		}
	}
	return nil
}

func engineAOne(c *core.Ctx, src srcA, maxCalls int) error {
	cfg, layout := src.cfg, src.layout
	var cases []caseA
	_, err := qs.DumpVars(c, "MCSearchers", cfg, []string{"q", "post", "prog", "calls"}, func(st map[string]any) error {
		if tlaval.Int(st["calls"]) != maxCalls {
			return nil
		}
		cases = append(cases, caseA{st["q"], qs.PostOf(st["post"]), qs.ProgOf(st["prog"])})
		return nil
	}, core.Workers(4), core.Timeout(25*time.Minute))
	if err != nil {
		return err
	}
	if len(cases) == 0 {
		return fmt.Errorf("engine A: no complete program in the dump of %s", cfg)
	}
	for _, heap := range []int{0, 1} {
		old := searcher.DisjunctionHeapTakeover
		if heap > 0 {
			searcher.DisjunctionHeapTakeover = heap
		}
		for _, eng := range src.engs {
			dir := ""
			if eng == qs.EngScorchMerged {
				dir = c.TempDir("c08a")
			}
			a, err := qs.BuildIndexA(eng, layout, dir)
			if err != nil {
				searcher.DisjunctionHeapTakeover = old
				return fmt.Errorf("engine A index (%s): %v", eng, err)
			}
			var wg sync.WaitGroup
			var mu sync.Mutex
			var ferr error
			n := 8
			for w := 0; w < n; w++ {
				wg.Add(1)
				go func(w int) {
					defer wg.Done()
					for i := w; i < len(cases); i += n {
						if heap > 0 && i%3 != 0 {
							continue // the heap pass replays a third
						}
						cs := cases[i]
						bq, err := qs.QueryA(cs.q, cs.post)
						if err != nil {
							mu.Lock()
							ferr = err
							mu.Unlock()
							return
						}
						// the model's results hold for the scored and for the score:none
						// construction (TLC checks ResultOK for both)
						for _, o := range []search.SearcherOptions{{}, {Score: "none"}} {
							got, err := a.RunProgram(bq, o, cs.prog)
							if err != nil {
								mu.Lock()
								ferr = fmt.Errorf("engine A program: %v", err)
								mu.Unlock()
								return
							}
							c.Eval(1)
							for k := range got {
								if got[k] != cs.prog[k].R {
									reportA(c, eng+"/"+scoreName(o.Score), heap, cs, got, layout)
									break
								}
							}
						}
					}
				}(w)
			}
			wg.Wait()
			a.Close()
			if dir != "" {
				os.RemoveAll(dir)
			}
			if ferr != nil {
				searcher.DisjunctionHeapTakeover = old
				return ferr
			}
		}
		searcher.DisjunctionHeapTakeover = old
	}
	for _, cs := range cases {
		c.Distinct("A|" + fmt.Sprint(layout) + mustJSON(tlaval.ToJSON(cs.q)) + mustJSON(cs.post) + mustJSON(cs.prog))
	}
	c.AddExtra("engineA_programs", int64(len(cases)))
	k := len(cases) / 3
	c.Sample(map[string]any{"engineA_query": tlaval.ToJSON(cases[k].q), "postings": cases[k].post, "program_with_spec_results": cases[k].prog, "layout": fmt.Sprint(layout)})
	return nil
}

func reportA(c *core.Ctx, eng string, heap int, cs caseA, got []int, layout qs.Layout) {
	qj := tlaval.ToJSON(cs.q)
	sig := fmt.Sprintf("engineA:%s:%s", eng, shapeA(cs.q))
	if strings.HasPrefix(eng, "scorch") && strings.HasSuffix(eng, "/none") && qs.HasK1ShapeTLA(cs.q) {
		sig = qs.SigK1 // the C02 finding repaired in a0964f3 is back
	}
	what := fmt.Sprintf("engine %s (heap takeover %d): query %s over postings %v (layout %v): program %s returned %v; spec/Searchers.tla (checked against the contract) computes the r fields",
		eng, heap, mustJSON(qj), cs.post, layout, mustJSON(cs.prog), got)
	c.Violation(sig, what, map[string]any{"kind": "engineA", "engine": eng, "query": qj, "post": cs.post, "program": cs.prog, "got": got})
}

func shapeA(v any) string {
	m := tlaval.Map(v)
	list := func(name string) string {
		var ss []string
		for _, k := range tlaval.List(m[name]) {
			ss = append(ss, shapeA(k))
		}
		return strings.Join(ss, ",")
	}
	switch t := tlaval.Str(m["type"]); t {
	case "conj":
		return "conj(" + list("qs") + ")"
	case "disj":
		return fmt.Sprintf("disj%d(%s)", tlaval.Int(m["min"]), list("qs"))
	case "boolean":
		return fmt.Sprintf("bool(must[%s],should%d[%s],not[%s],filter[%s])", list("must"), tlaval.Int(m["min"]), list("should"), list("mustnot"), list("filter"))
	default:
		return t
	}
}

// ---- the model's counterexamples for the open findings, on the real code

// modelFindingEmpty: configuration c08_asfound_zero (a snapshot without
// segments, FixEmptySnapshot = FALSE). TLC is EXPECTED to refute NoPanic:
// TfrAdv as found indexed offsets[-1].
func modelFindingEmpty(c *core.Ctx) error {
	res, err := c.RunTLC("exhaustive(expected-counterexample)", "MCSearchers", "MCSearchers_c08_asfound_zero.cfg", core.Workers(1), core.Timeout(8*time.Minute))
	if err != nil {
		return err
	}
	if res.Violated != "NoPanic" {
		if res.OK {
			c.Extra("empty_snapshot_model", "the model no longer refutes NoPanic for a snapshot without segments")
			return nil
		}
		return fmt.Errorf("c08_asfound_zero configuration failed: violated=%q %s", res.Violated, res.ErrorText)
	}
	st, ok := qs.FirstBadState(res)
	if !ok {
		return fmt.Errorf("c08_asfound_zero counterexample not parsed")
	}
	prog := qs.ProgOf(st["prog"])
	// the real input: index one document, delete it (the only segment is
	// dropped), term searcher, the program of the counterexample
	idx, err := qs.NewIndex(qs.EngScorch, qs.Mapping(), "")
	if err != nil {
		return err
	}
	defer idx.Close()
	d := &qs.Doc{ID: 0, Txt: map[string][][]qs.Term{qs.FK1: {{qs.Term{1}}}}}
	if err := idx.Index(qs.DocID(0), d.Bleve()); err != nil {
		return err
	}
	if err := idx.Delete(qs.DocID(0)); err != nil {
		return err
	}
	e, err := newEnv(qs.EngScorch, idx, 1)
	if err != nil {
		return err
	}
	defer e.rd.Close()
	q := &qs.Node{Type: "term", Field: qs.FK1, Term: qs.Term{1}}
	s, sctx, err := newSearcher(e, q.Bleve(nil), optsT{})
	if err != nil {
		return err
	}
	defer s.Close()
	c.Eval(1)
	for _, cl := range prog {
		var perr error
		if cl.Op == "next" {
			_, perr = callNext(s, sctx)
		} else {
			_, perr = callAdvance(s, sctx, index.NewIndexInternalID(nil, uint64(cl.T)))
		}
		if pe, ok := perr.(*panicErr); ok {
			what := fmt.Sprintf("model counterexample reproduced: scorch index whose only document was deleted (snapshot without segments), term searcher, program %s: %s (IndexSnapshotTermFieldReader.Advance -> segmentIndexAndLocalDocNumFromGlobal indexes offsets[-1])", mustJSON(prog), pe.msg)
			c.Violation(SigEmpty, what, map[string]any{"kind": "model-counterexample", "program": prog})
			return nil
		} else if perr != nil {
			return perr
		}
	}
	c.Extra("empty_snapshot_asfound", "the as-found model's counterexample (Advance on a snapshot without segments panics) does not reproduce: repaired in the code")
	return nil
}

// modelFindingQ2: configuration c08_asfound_q2 (boolean must + should(min>=1),
// Advance as the first call, FixBoolAdvance = FALSE). TLC is EXPECTED to
// refute ResultOK.
func modelFindingQ2(c *core.Ctx) error {
	res, err := c.RunTLC("exhaustive(expected-counterexample)", "MCSearchers", "MCSearchers_c08_asfound_q2.cfg", core.Workers(1), core.Timeout(8*time.Minute))
	if err != nil {
		return err
	}
	if res.Violated != "ResultOK" {
		if res.OK {
			c.Extra("q2_model", "the model no longer refutes ResultOK for Advance-first on boolean must+should(min)")
			return nil
		}
		return fmt.Errorf("c08_asfound_q2 configuration failed: violated=%q %s", res.Violated, res.ErrorText)
	}
	st, ok := qs.FirstBadState(res)
	if !ok {
		return fmt.Errorf("c08_asfound_q2 counterexample not parsed")
	}
	post := qs.PostOf(st["post"])
	prog := qs.ProgOf(st["prog"])
	bq, err := qs.QueryA(st["q"], post)
	if err != nil {
		return err
	}
	reproduced := 0
	for _, eng := range []string{qs.EngScorch, qs.EngUpside} {
		a, err := qs.BuildIndexA(eng, qs.Layout{Segs: []int{2, 1}}, "")
		if err != nil {
			return err
		}
		got, err := a.RunProgram(bq, search.SearcherOptions{}, prog)
		a.Close()
		if err != nil {
			return err
		}
		c.Eval(1)
		exp := tlaval.Int(st["exp"])
		if len(got) == len(prog) && got[len(got)-1] != exp {
			reproduced++
			what := fmt.Sprintf("model counterexample reproduced on %s: query %s over postings %v, program %s returned %v; the first match at/after the target is %d",
				eng, mustJSON(tlaval.ToJSON(st["q"])), post, mustJSON(prog), got, exp)
			c.Violation(SigQ2, what, map[string]any{"kind": "model-counterexample", "engine": eng, "query": tlaval.ToJSON(st["q"]), "post": post, "program": prog, "got": got, "expected": exp})
		}
	}
	if reproduced == 0 {
		c.Extra("q2_asfound", "the as-found model's counterexample (boolean Advance as first call skips a match) does not reproduce: repaired in the code")
	}
	return nil
}

// ---- replay

func replay(c *core.Ctx, path string) error {
	b, err := os.ReadFile(path)
	if err != nil {
		return err
	}
	var f struct {
		Replay struct {
			Kind     string     `json:"kind"`
			Seed     int64      `json:"corpus_seed"`
			History  qs.History `json:"history"`
			Engine   string     `json:"engine"`
			NIDs     int        `json:"nids"`
			Options  optsT      `json:"options"`
			Heap     int        `json:"heap_takeover"`
			Query    *qs.Node   `json:"query"`
			Programs [][]callT  `json:"programs"`
		} `json:"replay"`
	}
	if err := json.Unmarshal(b, &f); err != nil {
		return err
	}
	c.SetRule("replay of one saved case")
	switch f.Replay.Kind {
	case "model-counterexample":
		if err := modelFindingEmpty(c); err != nil {
			return err
		}
		return modelFindingQ2(c)
	case "engineB":
	case "corpus":
		ct, err := buildCorpus(c, f.Replay.Seed, f.Replay.History, f.Replay.NIDs)
		if err == errCorpusJudged {
			return nil
		}
		if err == nil {
			ct.close()
		}
		return err
	default:
		return fmt.Errorf("replay of kind %q: re-run the check (engine A cases are enumerated deterministically by TLC)", f.Replay.Kind)
	}
	if f.Replay.Heap > 0 {
		searcher.DisjunctionHeapTakeover = f.Replay.Heap
	}
	nids := 0
	for _, bt := range f.Replay.History {
		for _, op := range bt {
			if op.ID+1 > nids {
				nids = op.ID + 1
			}
		}
	}
	ct, err := buildCorpus(c, f.Replay.Seed, f.Replay.History, nids)
	if err != nil {
		return err
	}
	defer ct.close()
	e := ct.envs[f.Replay.Engine]
	q := f.Replay.Query
	// re-run the saved programs (their raw targets) on a fresh searcher each
	rc, bad, err := ct.runQuery(rand.New(rand.NewSource(1)), f.Replay.Engine, f.Replay.Options, q, 0, 1)
	if err != nil {
		return err
	}
	rc.Heap = f.Replay.Heap
	if bad != "" {
		reportBad(c, rc, bad)
		return nil
	}
	for _, p := range f.Replay.Programs {
		s, sctx, err := newSearcher(e, q.Bleve(nil), f.Replay.Options)
		if err != nil {
			return err
		}
		var out []callT
		for _, cl := range p {
			var id index.IndexInternalID
			var cerr error
			if cl.Op == "next" {
				id, cerr = callNext(s, sctx)
			} else {
				var raw []byte
				fmt.Sscanf(cl.Raw, "%x", &raw)
				id, cerr = callAdvance(s, sctx, index.IndexInternalID(raw))
			}
			if pe, ok := cerr.(*panicErr); ok {
				out = append(out, callT{Op: cl.Op, T: cl.T, R: -2, Raw: cl.Raw})
				rc.Progs = [][]callT{out}
				reportBad(c, rc, "panic: "+pe.msg)
				s.Close()
				return nil
			} else if cerr != nil {
				s.Close()
				return cerr
			}
			nc := callT{Op: cl.Op, T: cl.T, R: -1, Raw: cl.Raw}
			if id != nil {
				nc.R = qs.RankOf(e.live, id)
			}
			out = append(out, nc)
		}
		s.Close()
		c.Logf("replay program %s", mustJSON(out))
		if qs.HasMustShouldMin(q) && len(out) > 0 && out[0].Op == "adv" {
			rc.Q2Prone = append(rc.Q2Prone, out)
		} else {
			rc.Progs = append(rc.Progs, out)
		}
	}
	return judge(c, []*recT{rc}, true)
}
