package c17

import (
	"encoding/json"
	"fmt"
	"math"
	"path/filepath"
	"sort"
	"strings"

	"github.com/blevesearch/bleve/v2"
	_ "github.com/blevesearch/bleve/v2/config"
	"github.com/blevesearch/bleve/v2/mapping"
	"github.com/blevesearch/bleve/v2/search/query"
)

// The small real index every query of this check is executed on. Its default
// analyzer "ws" (whitespace tokenizer + lower case) has no stop words and
// keeps digits and punctuation, so that every word of the enumerated query
// strings is a term. Field names a, aa, a1 exist because the alphabet strings
// scope clauses to them (a:1, aa:a ...); t, p, d, b, g, ip are the text,
// number, date, boolean, geo point and IP fields of the JSON cases.
func buildIndex(dir string) (bleve.Index, error) {
	im := mapping.NewIndexMapping()
	if err := im.AddCustomAnalyzer("ws", map[string]interface{}{
		"type": "custom", "tokenizer": "whitespace", "token_filters": []interface{}{"to_lower"}}); err != nil {
		return nil, err
	}
	if err := im.AddCustomDateTimeParser("cdate", map[string]interface{}{
		"type": "flexiblego", "layouts": []interface{}{"2006/01/02"}}); err != nil {
		return nil, err
	}
	im.DefaultAnalyzer = "ws"
	g := mapping.NewGeoPointFieldMapping()
	im.DefaultMapping.AddFieldMappingsAt("g", g)
	ip := mapping.NewIPFieldMapping()
	im.DefaultMapping.AddFieldMappingsAt("ip", ip)
	idx, err := bleve.New(filepath.Join(dir, "q.bleve"), im)
	if err != nil {
		return nil, err
	}
	docs := map[string]map[string]interface{}{
		"d01": {"t": "cat dog", "p": 10, "d": "2020-01-02T03:04:05Z", "b": true, "a": "a", "g": map[string]interface{}{"lon": 1.0, "lat": 1.0}, "ip": "192.168.1.1"},
		"d02": {"t": "cat", "p": 2.5, "d": "2020-01-02T00:00:00Z", "b": false, "a": "aa a1", "g": map[string]interface{}{"lon": 10.0, "lat": 10.0}, "ip": "10.0.0.1"},
		"d03": {"t": "dog cat dog", "p": -10, "d": "2019-12-31T00:00:00Z", "a": 1},
		"d04": {"t": "cot cut", "p": 11, "a": 11, "aa": "a"},
		"d05": {"t": "cat:dog", "p": -2.5, "a": 1.1, "aa": "1"},
		"d06": {"t": "+cat c\\at", "aa": "a a", "a1": "1 a"},
		"d07": {"t": "caterpillar", "a": "1", "p": 0},
		"d08": {"t": "the cat", "a": "-1", "p": 1, "b": true},
		"d09": {"a": -1, "t": "soon", "d": "2021-06-01T00:00:00Z"},
		"d10": {"a": "a.a a* /a/", "aa": "a:a", "p": 2.5},
		"d11": {"t": "10 2.5", "a": "1.", "p": 100},
		"d12": {"t": "dog", "a": ".1 1.1 11", "p": 3, "d": "2020-01-02T03:04:06Z"},
		"d13": {"t": "cat dog cat dog", "a": "a 1", "aa": "aa", "a1": "a1", "p": 10},
		"d14": {"t": "cat\"dog", "a": "a\\a", "p": -1},
	}
	ids := make([]string, 0, len(docs))
	for id := range docs {
		ids = append(ids, id)
	}
	sort.Strings(ids)
	b := idx.NewBatch()
	for _, id := range ids {
		if err := b.Index(id, docs[id]); err != nil {
			return nil, err
		}
	}
	if err := idx.Batch(b); err != nil {
		return nil, err
	}
	return idx, nil
}

// outcome of executing a query or a request: everything a caller can see,
// without timings.
type execResult struct {
	Err  bool
	View string
}

func round(f float64) float64 {
	if f == 0 || math.IsNaN(f) || math.IsInf(f, 0) {
		return f
	}
	m := math.Pow(10, 9-math.Ceil(math.Log10(math.Abs(f))))
	return math.Round(f*m) / m
}

// runQuery executes q (all hits, ordered by score then id) and renders the
// hits with their scores (rounded to 9 significant digits).
func runQuery(idx bleve.Index, q query.Query) (res execResult) {
	defer func() {
		if r := recover(); r != nil {
			res = execResult{Err: true, View: fmt.Sprintf("PANIC: %v", r)}
		}
	}()
	req := bleve.NewSearchRequestOptions(q, 100, 0, false)
	req.SortBy([]string{"-_score", "_id"})
	sr, err := idx.Search(req)
	if err != nil {
		return execResult{Err: true, View: "error"}
	}
	var sb strings.Builder
	fmt.Fprintf(&sb, "total=%d;", sr.Total)
	for _, h := range sr.Hits {
		fmt.Fprintf(&sb, "%s:%g;", h.ID, round(h.Score))
	}
	return execResult{View: sb.String()}
}

// runRequest executes a full search request and renders the whole result
// (hits with fields, fragments, locations, sort keys, explanation; facets;
// totals) as JSON without the timing and cost figures.
func runRequest(idx bleve.Index, req *bleve.SearchRequest) (res execResult) {
	defer func() {
		if r := recover(); r != nil {
			res = execResult{Err: true, View: fmt.Sprintf("PANIC: %v", r)}
		}
	}()
	sr, err := idx.Search(req)
	if err != nil {
		return execResult{Err: true, View: "error"}
	}
	sr.Took = 0
	sr.Cost = 0
	sr.Request = nil
	b, err := json.Marshal(sr)
	if err != nil {
		return execResult{Err: true, View: "marshal error: " + err.Error()}
	}
	return execResult{View: string(b)}
}
