// Package c17 checks property C17 "Queries and requests keep their meaning
// across JSON and the query-string syntax".
//
// The model decides: spec/QueryString.tla transcribes the query-string lexer
// (one operator per lexState function) and the yacc grammar with its semantic
// actions; QueryStringLex.tla runs the lexer as a state machine over EVERY
// input up to a length bound over the lexer-significant alphabet, checks its
// invariants (never stuck) and computes the expected outcome of every input;
// QueryStringSentences.tla does the same for inputs generated from the
// documented grammar. spec/QueryJSON.tla transcribes ParseQuery's key-presence
// decision chain and the keys every query type emits, the two JSON forms of a
// sort key and the defaults of SearchRequest.UnmarshalJSON; QueryJSONCases.tla
// checks the whole table, nested trees, sort keys and requests.
//
// The code is bound (Engine A): every enumerated input is parsed by the real
// parser under recover(), accept/reject and the normalised query are compared
// with the model's, accepted ones are executed on a small real index against
// the directly constructed query; every enumerated query / tree / sort key /
// request is marshalled, parsed back, re-marshalled, type-checked against
// Dispatch and executed. Engine B: longer seeded random strings are parsed by
// the real parser and judged by TLC (spec/trace/JudgeQueryString.tla).
// Arbitrary byte strings: seeded sampling with a panic-only oracle.
package c17

import (
	"encoding/json"
	"fmt"
	"github.com/blevesearch/bleve/v2/analysis"
	"github.com/blevesearch/bleve/v2/analysis/datetime/flexible"
	"github.com/blevesearch/bleve/v2/registry"
	"math/rand"
	"os"
	"path/filepath"
	"runtime"
	"sort"
	"strings"
	"sync"
	"sync/atomic"
	"time"

	"github.com/blevesearch/bleve/v2"
	"github.com/blevesearch/bleve/v2/search/query"

	"verif/harness/internal/core"
	"verif/harness/internal/tlaval"
	"verif/harness/internal/tlc"
)

func init() {
	core.Register(&core.Check{Prop: "C17", Level: "model_checking", Run: run, Replay: replay})
}

type qsCase struct {
	S    string  `json:"input"`
	Want outcome `json:"model"`
}

type checker struct {
	c   *core.Ctx
	idx bleve.Index
	mu  sync.Mutex
	err error
}

func (k *checker) fail(err error) {
	k.mu.Lock()
	if k.err == nil {
		k.err = err
	}
	k.mu.Unlock()
}

func (k *checker) report(kind string, probs []jsonProblem, rep any) {
	for _, p := range probs {
		if p.sig == "DRIFT" {
			k.c.Drift(p.what)
			continue
		}
		k.c.Violation("C17/"+p.sig, p.what, map[string]any{"kind": kind, "case": rep})
	}
}

// stringsFromTLC streams the states of a query-string spec (variables w, res
// and possibly done) to fn.
func (k *checker) stringsFromTLC(module, cfg string, workers int, fn func(qsCase)) error {
	res, err := tlc.DumpStates(k.c.TLCOpts(module, cfg, core.Workers(workers), core.Timeout(28*time.Minute)), func(st tlaval.State) error {
		if d, ok := st["done"].(bool); ok && !d {
			return nil
		}
		fn(qsCase{S: codesToString(st["w"]), Want: cvOutcome(st["res"])})
		return nil
	})
	k.c.Account(module, cfg, "exhaustive+dump", res)
	if err != nil {
		return fmt.Errorf("TLC %s/%s: %v", module, cfg, err)
	}
	if !res.OK {
		k.c.Inconclusive(fmt.Sprintf("TLC %s/%s did not pass (violated=%q): %s", module, cfg, res.Violated, res.ErrorText))
		return nil
	}
	k.c.Logf("model %s/%s: %d generated, %d distinct states, %.1fs", module, cfg, res.Generated, res.Distinct, res.Wall.Seconds())
	return nil
}

// runQueryStrings replays the cases arriving on ch into the real parser.
func (k *checker) runQueryStrings(ch <-chan qsCase, label string, wg *sync.WaitGroup, stats *qsStats) {
	nw := runtime.NumCPU() / 2
	if nw > 6 {
		nw = 6
	}
	if nw < 2 {
		nw = 2
	}
	for w := 0; w < nw; w++ {
		wg.Add(1)
		go func() {
			defer wg.Done()
			for cs := range ch {
				probs, accepted, err := checkQueryString(k.idx, cs.S, cs.Want, true)
				if err != nil {
					k.fail(fmt.Errorf("%s %q: %v", label, cs.S, err))
					continue
				}
				for _, p := range probs {
					k.c.Violation("C17/"+p.sig, p.what, map[string]any{"kind": "querystring", "case": cs})
				}
				k.c.Eval(1)
				atomic.AddInt64(&stats.total, 1)
				if accepted {
					atomic.AddInt64(&stats.accepted, 1)
				}
				// non-trivial: the input is lexed into at least one token (accepted, or
				// rejected by the grammar / a semantic action rather than being blank)
				if strings.TrimSpace(cs.S) != "" {
					k.c.Distinct("qs:" + cs.S)
				}
			}
		}()
	}
}

type qsStats struct{ total, accepted int64 }

func run(c *core.Ctx) error {
	dir := c.TempDir("qidx")
	idx, err := buildIndex(dir)
	if err != nil {
		return fmt.Errorf("building the test index: %v", err)
	}
	defer idx.Close()
	k := &checker{c: c, idx: idx}
	if err := checkAssumptions(idx); err != nil {
		return fmt.Errorf("model assumptions do not hold on this tree: %v", err)
	}
	c.Assume("numeric literals are kept as text in the model; the harness converts them with strconv.ParseFloat (trusted) before comparing with the real query")
	c.Assume("the model's ValidDates are accepted and all other enumerated phrases rejected by the real dateTimeOptional parser (checked at start for the sentence lexemes; alphabet strings up to the length bound cannot spell a date)")
	c.Assume("hits are compared between two executions on the same real index (parsed vs directly constructed, original vs JSON round trip); no independent query semantics is used here")

	lexCfg, sentCfg, jsonCfg := "QueryStringLex_mc_quick.cfg", "QueryStringSentences_mc_quick.cfg", "QueryJSONCases_mc_quick.cfg"
	if c.Thorough() {
		lexCfg, sentCfg, jsonCfg = "QueryStringLex_mc_thorough.cfg", "QueryStringSentences_mc_thorough.cfg", "QueryJSONCases_mc_thorough.cfg"
	}

	// ---- 1+2a. query strings: TLC enumerates, the real parser is replayed
	var lexStats, sentStats qsStats
	var wgW sync.WaitGroup
	lexCh := make(chan qsCase, 4096)
	sentCh := make(chan qsCase, 4096)
	k.runQueryStrings(lexCh, "alphabet string", &wgW, &lexStats)
	k.runQueryStrings(sentCh, "sentence", &wgW, &sentStats)
	var samples []qsCase
	var wgT sync.WaitGroup
	var tlcErr [3]error
	wgT.Add(3)
	go func() {
		defer wgT.Done()
		n := 0
		tlcErr[0] = k.stringsFromTLC("QueryStringLex", lexCfg, 4, func(cs qsCase) {
			n++
			if n%20011 == 7 && len(samples) < 2 {
				samples = append(samples, cs)
			}
			lexCh <- cs
		})
		close(lexCh)
	}()
	var sentSample []qsCase
	go func() {
		defer wgT.Done()
		n := 0
		tlcErr[1] = k.stringsFromTLC("QueryStringSentences", sentCfg, 2, func(cs qsCase) {
			n++
			if n%1777 == 5 && len(sentSample) < 2 {
				sentSample = append(sentSample, cs)
			}
			sentCh <- cs
		})
		close(sentCh)
	}()

	// ---- 1+2a'. JSON: table rows, trees, sort keys, requests
	var jsonStats struct{ rows, trees, sorts, reqs int64 }
	var jsonSample []any
	go func() {
		defer wgT.Done()
		tlcErr[2] = k.jsonFromTLC(jsonCfg, &jsonStats.rows, &jsonStats.trees, &jsonStats.sorts, &jsonStats.reqs, &jsonSample)
	}()
	wgT.Wait()
	wgW.Wait()
	for _, e := range tlcErr {
		if e != nil {
			return e
		}
	}
	if k.err != nil {
		return k.err
	}
	c.Logf("engine A: %d alphabet strings (%d accepted), %d sentences (%d accepted), %d table rows, %d trees, %d sort keys, %d requests",
		lexStats.total, lexStats.accepted, sentStats.total, sentStats.accepted, jsonStats.rows, jsonStats.trees, jsonStats.sorts, jsonStats.reqs)
	c.Extra("alphabet_strings", lexStats.total)
	c.Extra("alphabet_strings_accepted", lexStats.accepted)
	c.Extra("grammar_sentences", sentStats.total)
	c.Extra("grammar_sentences_accepted", sentStats.accepted)
	c.Extra("json_table_rows", jsonStats.rows)
	c.Extra("json_trees", jsonStats.trees)
	c.Extra("json_sort_keys", jsonStats.sorts)
	c.Extra("json_requests", jsonStats.reqs)
	for _, s := range samples {
		c.Sample(map[string]any{"kind": "alphabet string", "input": s.S, "model_outcome": s.Want})
	}
	for _, s := range sentSample {
		c.Sample(map[string]any{"kind": "grammar sentence", "input": s.S, "model_outcome": s.Want})
	}
	for _, s := range jsonSample {
		c.Sample(s)
	}

	// ---- 2a''. the date parser of the syntax is a configuration (query.QueryDateTimeParser,
	// the model's constant ValidDates): the sentences with a date comparison once more, after
	// the knob was turned to a parser that accepts only the full RFC 3339 time stamp
	if err := k.altDateParserPass(); err != nil {
		return err
	}
	// ---- 2b. Engine B: longer random strings judged by TLC
	if err := k.randomJudged(); err != nil {
		return err
	}
	// ---- exploration: arbitrary byte strings, panic-only oracle
	k.randomBytes()
	k.extraProbes()
	if k.err != nil {
		return k.err
	}

	c.SetRule("query strings: every string over the 16 lexer-significant characters up to the tier's length bound (TLC state machine) + sentences of the documented grammar + seeded random longer strings judged by TLC; distinct = distinct non-blank input. JSON: every row of the (query type x optional keys) table, TLC-enumerated nested trees, sort keys and search requests; distinct = distinct case. Random byte strings (panic-only oracle) are counted as evaluations only")
	c.SetExhaustive(true)
	c.Extra("exhaustive_scope", "alphabet strings up to the length bound, the key table, the enumerated trees/sort keys/requests are complete enumerations; random strings and byte strings are seeded samples (exploration)")
	return nil
}

var altParserOnce sync.Once

const altParserName = "verif-rfc3339-only"

func (k *checker) altDateParserPass() error {
	altParserOnce.Do(func() {
		registry.RegisterDateTimeParser(altParserName, func(config map[string]interface{}, cache *registry.Cache) (analysis.DateTimeParser, error) {
			return flexible.New([]string{time.RFC3339}), nil
		})
	})
	old := query.QueryDateTimeParser
	query.QueryDateTimeParser = altParserName
	defer func() { query.QueryDateTimeParser = old }()
	if _, err := optionalParser("2020-01-02T03:04:05Z"); err != nil {
		return fmt.Errorf("alternative date parser rejects the time stamp: %v", err)
	}
	if _, err := optionalParser("2020-01-02"); err == nil {
		return fmt.Errorf("alternative date parser accepts the bare day, the model's StampOnlyDates says it does not")
	}
	var st qsStats
	var wg sync.WaitGroup
	ch := make(chan qsCase, 1024)
	k.runQueryStrings(ch, "sentence under the alternative date parser", &wg, &st)
	err := k.stringsFromTLC("QueryStringSentences", "QueryStringSentences_mc_altparser.cfg", 2, func(cs qsCase) { ch <- cs })
	close(ch)
	wg.Wait()
	if err != nil {
		return err
	}
	k.c.Logf("engine A: %d date sentences (%d accepted) replayed with query.QueryDateTimeParser = %s", st.total, st.accepted, altParserName)
	k.c.Extra("date_sentences_alt_parser", st.total)
	return nil
}

func checkAssumptions(idx bleve.Index) error {
	for _, s := range []string{"2020-01-02", "2020-01-02T03:04:05Z"} {
		if _, err := optionalParser(s); err != nil {
			return fmt.Errorf("ValidDates: %q rejected by the real parser: %v", s, err)
		}
	}
	for _, s := range []string{"soon", "", "1", "11.1", "a", "1-1", "1:1", "-1", "+1"} {
		if _, err := optionalParser(s); err == nil {
			return fmt.Errorf("phrase %q is a date for the real parser, the model says it is not", s)
		}
	}
	r := runQuery(idx, bleve.NewMatchAllQuery())
	if r.Err || !strings.HasPrefix(r.View, "total=14;") {
		return fmt.Errorf("test index does not answer match_all as expected: %s", r.View)
	}
	return nil
}

// ---------------------------------------------------------------- JSON cases

func (k *checker) jsonFromTLC(cfg string, rows, trees, sorts, reqs *int64, samples *[]any) error {
	type job func()
	jobs := make(chan job, 1024)
	var wg sync.WaitGroup
	for w := 0; w < 4; w++ {
		wg.Add(1)
		go func() {
			defer wg.Done()
			for j := range jobs {
				j()
			}
		}()
	}
	run := func(q query.Query) execResult { return runQuery(k.idx, q) }
	n := 0
	res, err := tlc.DumpStates(k.c.TLCOpts("QueryJSONCases", cfg, core.Workers(2), core.Timeout(25*time.Minute)), func(st tlaval.State) error {
		if d, ok := st["done"].(bool); !ok || !d {
			return nil
		}
		n++
		variant := int(k.c.Seed)*31 + n
		cm := tlaval.Map(st["c"])
		em := tlaval.Map(st["exp"])
		switch tlaval.Str(cm["kind"]) {
		case "row":
			typ, opts := tlaval.Str(cm["type"]), cvStrSet(cm["opts"])
			keys := map[string]string{}
			for kk, kv := range tlaval.Map(em["keys"]) {
				keys[kk] = tlaval.Str(kv)
			}
			want := &dnode{Type: tlaval.Str(em["dispatch"])}
			rep := map[string]any{"type": typ, "opts": opts, "variant": variant}
			if len(*samples) < 1 {
				*samples = append(*samples, map[string]any{"kind": "table row", "type": typ, "optional_keys": opts, "model_keys": keys, "model_dispatch": want.Type})
			}
			jobs <- func() {
				n := &node{Type: typ, Opts: opts}
				if typ == "boolean" || typ == "conjunction" || typ == "disjunction" {
					n = compoundRow(typ, opts)
				}
				q, err := buildTree(n, variant)
				if err != nil {
					k.fail(err)
					return
				}
				wt := want
				if len(n.Kids) > 0 {
					wt = nil // children of a compound row: only the top type is in the table
					j, _ := json.Marshal(q)
					if back, err := query.ParseQuery(j); err == nil && goTypeName(back) != want.Type {
						k.report("row", []jsonProblem{{"json-dispatch", fmt.Sprintf("row %s%v: ParseQuery(%s) chose %s, QueryJSON!Dispatch says %s", typ, opts, j, goTypeName(back), want.Type)}}, rep)
					}
				}
				k.report("row", checkQueryJSON(run, q, wt, keys, fmt.Sprintf("row %s%v", typ, opts)), rep)
				k.c.Eval(1)
				k.c.Distinct(fmt.Sprintf("row:%s:%v", typ, opts))
				atomic.AddInt64(rows, 1)
			}
		case "tree":
			tree, want := cvNode(cm["tree"]), cvDNode(em["dtree"])
			if len(*samples) < 2 && n%700 == 3 {
				*samples = append(*samples, map[string]any{"kind": "query tree", "tree": tree, "model_types": want})
			}
			jobs <- func() {
				q, err := buildTree(tree, variant)
				if err != nil {
					k.fail(err)
					return
				}
				tj, _ := json.Marshal(tree)
				k.report("tree", checkQueryJSON(run, q, want, nil, "tree "+string(tj)), map[string]any{"tree": tree, "variant": variant})
				k.c.Eval(1)
				k.c.Distinct("tree:" + string(tj))
				atomic.AddInt64(trees, 1)
			}
		case "sort":
			spec, want := cvSort(cm["sort"]), cvSortJSON(em["json"])
			jobs <- func() {
				k.report("sort", checkSort(spec, want), map[string]any{"sort": spec})
				k.c.Eval(1)
				k.c.Distinct(fmt.Sprintf("sort:%+v", spec))
				atomic.AddInt64(sorts, 1)
			}
		case "req":
			spec := cvReq(cm["req"])
			jm := tlaval.Map(em["json"])
			var keys []string
			for kk := range jm {
				keys = append(keys, kk)
			}
			var wantSort []sortJSON
			for _, s := range tlaval.List(jm["sort"]) {
				wantSort = append(wantSort, cvSortJSON(s))
			}
			if len(*samples) < 3 && n%150 == 11 {
				*samples = append(*samples, map[string]any{"kind": "search request", "request": spec, "model_json_keys": keys})
			}
			jobs <- func() {
				k.report("req", checkRequest(k.idx, spec, keys, wantSort, variant), map[string]any{"request": spec, "variant": variant})
				k.c.Eval(1)
				k.c.Distinct(fmt.Sprintf("req:%+v", spec))
				atomic.AddInt64(reqs, 1)
			}
		}
		return nil
	})
	close(jobs)
	wg.Wait()
	k.c.Account("QueryJSONCases", cfg, "exhaustive+dump", res)
	if err != nil {
		return fmt.Errorf("TLC QueryJSONCases/%s: %v", cfg, err)
	}
	if !res.OK {
		k.c.Inconclusive(fmt.Sprintf("TLC QueryJSONCases/%s did not pass (violated=%q): %s", cfg, res.Violated, res.ErrorText))
		return nil
	}
	k.c.Logf("model QueryJSONCases/%s: %d generated, %d distinct states, %.1fs", cfg, res.Generated, res.Distinct, res.Wall.Seconds())
	return nil
}

// compoundRow gives a table row of a compound type concrete children.
func compoundRow(typ string, opts []string) *node {
	leaf := func() *node { return &node{Type: "term", Opts: []string{"field"}} }
	n := &node{Type: typ}
	switch typ {
	case "conjunction":
		n.Kids = []kid{{"", leaf()}, {"", leaf()}}
	case "disjunction":
		n.Kids = []kid{{"", leaf()}, {"", leaf()}}
		n.Min = 1
	case "boolean":
		for _, o := range opts {
			switch o {
			case "must":
				n.Kids = append(n.Kids, kid{"must", &node{Type: "conjunction", Kids: []kid{{"", leaf()}}}})
			case "should":
				n.Kids = append(n.Kids, kid{"should", &node{Type: "disjunction", Kids: []kid{{"", leaf()}, {"", leaf()}}}})
			case "must_not":
				n.Kids = append(n.Kids, kid{"must_not", &node{Type: "disjunction", Kids: []kid{{"", leaf()}}}})
			case "filter":
				n.Kids = append(n.Kids, kid{"filter", &node{Type: "numeric_range", Opts: []string{"field", "max"}}})
			}
		}
	}
	if has(opts, "boost") {
		n.Opts = []string{"boost"}
	}
	return n
}

// ------------------------------------------------- engine B: judged strings

var judgeAlphabet = []rune("a1. +-:\"^~\\><=*/bcTZ023?()!&|\t{}[]")

func (k *checker) randomJudged() error {
	n := k.c.Pick(2500, 20000)
	r := rand.New(rand.NewSource(k.c.Seed*104729 + 17))
	var records []any
	var inputs []string
	seen := map[string]bool{}
	for len(records) < n {
		l := 5 + r.Intn(5)
		rs := make([]rune, l)
		for i := range rs {
			if r.Intn(100) < 70 {
				rs[i] = judgeAlphabet[r.Intn(16)]
			} else {
				rs[i] = judgeAlphabet[r.Intn(len(judgeAlphabet))]
			}
		}
		s := string(rs)
		if seen[s] {
			continue
		}
		seen[s] = true
		_, acc, none, cls, shape, panicked := realParse(s)
		if panicked != nil {
			k.c.Violation("C17/qs-panic", fmt.Sprintf("query string %q: panic escaped the parser: %v", s, panicked), map[string]any{"kind": "querystring-random", "input": s})
			continue
		}
		codes := make([]int, len(rs))
		for i, c := range rs {
			codes[i] = int(c)
		}
		rec := map[string]any{"w": codes, "ok": acc, "none": none, "shape": shape == "", "cl": []any{}}
		cl := []any{}
		for _, c := range cls {
			if c.Problem != "" {
				rec["shape"] = false
			}
			cl = append(cl, map[string]any{"occ": c.Occ, "kind": c.Kind, "field": toCodes(c.Field), "text": toCodes(c.Text),
				"op": c.Op, "hasBoost": c.HasBoost})
		}
		rec["cl"] = cl
		records = append(records, rec)
		inputs = append(inputs, s)
		k.c.Eval(1)
		k.c.Distinct("qs:" + s)
	}
	withDesign := core.TLCOpt(func(o *tlc.Opts) {
		o.SpecDir = k.c.SpecDir
		o.Config = filepath.Join("trace", "JudgeQueryString.cfg")
	})
	bad, err := k.c.JudgeRecords("JudgeQueryString", "JudgeQueryString.cfg", records, 10, withDesign, core.Timeout(20*time.Minute))
	if err != nil {
		return err
	}
	k.c.Traces(1)
	idxs := make([]int, 0, len(bad))
	for i := range bad {
		idxs = append(idxs, i)
	}
	sort.Ints(idxs)
	for _, i := range idxs {
		b, _ := json.Marshal(records[i])
		k.c.Violation("C17/qs-judge:"+bad[i], fmt.Sprintf("TLC (JudgeQueryString!%s) rejects what the real parser made of %q: %s", bad[i], inputs[i], b),
			map[string]any{"kind": "querystring-random", "input": inputs[i]})
	}
	k.c.Extra("random_strings_judged", len(records))
	k.c.Logf("engine B: %d random strings judged by TLC, %d rejected", len(records), len(bad))
	return nil
}

func toCodes(s string) []int {
	out := []int{}
	for _, c := range s {
		out = append(out, int(c))
	}
	return out
}

// ---------------------------------- exploration: arbitrary bytes, panic only

func (k *checker) randomBytes() {
	n := k.c.Pick(20000, 400000)
	r := rand.New(rand.NewSource(k.c.Seed*15485863 + 3))
	special := []byte("a1. +-:\"^~\\><=*/")
	searched := 0
	for i := 0; i < n; i++ {
		l := r.Intn(24)
		b := make([]byte, l)
		for j := range b {
			switch x := r.Intn(100); {
			case x < 55:
				b[j] = special[r.Intn(len(special))]
			case x < 75:
				b[j] = byte(0x20 + r.Intn(0x5f))
			case x < 90:
				b[j] = byte(0x80 + r.Intn(0x80)) // continuation / invalid UTF-8 / lead bytes
			default:
				b[j] = byte(r.Intn(256))
			}
		}
		s := string(b)
		parsed, acc, _, _, _, panicked := realParse(s)
		if panicked != nil {
			k.c.Violation("C17/qs-panic", fmt.Sprintf("byte string %q: panic escaped the parser: %v", s, panicked), map[string]any{"kind": "bytes", "input_bytes": b})
			continue
		}
		if acc && parsed != nil && i%8 == 0 {
			searched++
			if res := runQuery(k.idx, bleve.NewQueryStringQuery(s)); strings.HasPrefix(res.View, "PANIC") {
				k.c.Violation("C17/qs-search-panic", fmt.Sprintf("byte string %q: searching panics: %s", s, res.View), map[string]any{"kind": "bytes", "input_bytes": b})
			}
		}
		k.c.Eval(1)
	}
	k.c.Extra("random_byte_strings_panic_oracle_only", n)
	k.c.Extra("random_byte_strings_searched", searched)
	k.c.Logf("exploration: %d random byte strings parsed (%d also searched), panic-only oracle", n, searched)
}

// extraProbes: a few directed inputs outside the enumerations.
func (k *checker) extraProbes() {
	// a date range whose bound is not a whole second (the enumerated JSON cases
	// use whole seconds): the test index has dates at 03:04:05 and 03:04:06
	for i, st := range []time.Time{time.Date(2020, 1, 2, 3, 4, 5, 500000000, time.UTC), time.Date(2020, 1, 2, 3, 4, 5, 1, time.UTC)} {
		dq := bleve.NewDateRangeQuery(st, time.Time{})
		dq.SetField("d")
		j, err := json.Marshal(dq)
		if err != nil {
			continue
		}
		back, err := query.ParseQuery(j)
		if err != nil {
			k.c.Violation("C17/json-parse-back-fails", fmt.Sprintf("date range %s: %v", j, err), map[string]any{"kind": "daterange-subsecond", "nanos": st.Nanosecond()})
			continue
		}
		if r1, r2 := runQuery(k.idx, dq), runQuery(k.idx, back); r1 != r2 {
			k.c.Violation("C17/daterange-subsecond-truncated",
				fmt.Sprintf("DateRangeQuery(start=%s) serialises to %s (whole seconds) and parses back to a query with other hits\n original:   %s\n round trip: %s", st.Format(time.RFC3339Nano), j, r1.View, r2.View),
				map[string]any{"kind": "daterange-subsecond", "nanos": st.Nanosecond()})
		}
		k.c.Eval(1)
		k.c.Distinct(fmt.Sprintf("daterange-subsecond:%d", i))
	}
	for _, s := range []string{"\\", "\"", "a\\", "\"a\\", "^", "~", "a:\"", "/", "a:/", strings.Repeat("\\", 33), strings.Repeat("\"", 7),
		strings.Repeat("a:", 40), "a^" + strings.Repeat("9", 400), "a~" + strings.Repeat("9", 400), "a:>" + strings.Repeat("9", 400),
		"\xff\xfe:\xfd", "a\x00b", "+\x00", "\u00a0a\u0085b", "a:>=\"2020-01-02\"^2", "１２３", "a:１"} {
		_, _, _, _, _, panicked := realParse(s)
		if panicked != nil {
			k.c.Violation("C17/qs-panic", fmt.Sprintf("probe %q: panic escaped the parser: %v", s, panicked), map[string]any{"kind": "bytes", "input_bytes": []byte(s)})
		}
		if res := runQuery(k.idx, bleve.NewQueryStringQuery(s)); strings.HasPrefix(res.View, "PANIC") {
			k.c.Violation("C17/qs-search-panic", fmt.Sprintf("probe %q: searching panics: %s", s, res.View), map[string]any{"kind": "bytes", "input_bytes": []byte(s)})
		}
		k.c.Eval(1)
	}
}

// ------------------------------------------------------------------- replay

func replay(c *core.Ctx, path string) error {
	b, err := os.ReadFile(path)
	if err != nil {
		return err
	}
	var f struct {
		Replay struct {
			Kind       string          `json:"kind"`
			Case       json.RawMessage `json:"case"`
			Input      string          `json:"input"`
			InputBytes []byte          `json:"input_bytes"`
		} `json:"replay"`
	}
	if err := json.Unmarshal(b, &f); err != nil {
		return err
	}
	idx, err := buildIndex(c.TempDir("qidx"))
	if err != nil {
		return err
	}
	defer idx.Close()
	k := &checker{c: c, idx: idx}
	run := func(q query.Query) execResult { return runQuery(idx, q) }
	switch f.Replay.Kind {
	case "querystring":
		var cs qsCase
		if err := json.Unmarshal(f.Replay.Case, &cs); err != nil {
			return err
		}
		probs, _, err := checkQueryString(idx, cs.S, cs.Want, true)
		if err != nil {
			return err
		}
		for _, p := range probs {
			c.Violation("C17/"+p.sig, p.what, f.Replay)
		}
	case "querystring-random", "bytes":
		s := f.Replay.Input
		if f.Replay.Kind == "bytes" {
			s = string(f.Replay.InputBytes)
		}
		if _, _, _, _, _, p := realParse(s); p != nil {
			c.Violation("C17/qs-panic", fmt.Sprintf("%q: panic escaped the parser: %v", s, p), f.Replay)
		}
		if res := runQuery(idx, bleve.NewQueryStringQuery(s)); strings.HasPrefix(res.View, "PANIC") {
			c.Violation("C17/qs-search-panic", fmt.Sprintf("%q: searching panics: %s", s, res.View), f.Replay)
		}
	case "tree", "row":
		var cs struct {
			Tree    *node    `json:"tree"`
			Type    string   `json:"type"`
			Opts    []string `json:"opts"`
			Variant int      `json:"variant"`
		}
		if err := json.Unmarshal(f.Replay.Case, &cs); err != nil {
			return err
		}
		n := cs.Tree
		if n == nil {
			n = &node{Type: cs.Type, Opts: cs.Opts}
			if cs.Type == "boolean" || cs.Type == "conjunction" || cs.Type == "disjunction" {
				n = compoundRow(cs.Type, cs.Opts)
			}
		}
		q, err := buildTree(n, cs.Variant)
		if err != nil {
			return err
		}
		k.report(f.Replay.Kind, checkQueryJSON(run, q, nil, nil, "replay"), cs)
	case "sort":
		var cs struct {
			Sort sortSpec `json:"sort"`
		}
		if err := json.Unmarshal(f.Replay.Case, &cs); err != nil {
			return err
		}
		for _, p := range checkSort(cs.Sort, sortJSON{}) {
			if p.sig != "DRIFT" {
				c.Violation("C17/"+p.sig, p.what, cs)
			}
		}
	case "req":
		var cs struct {
			Request reqSpec `json:"request"`
			Variant int     `json:"variant"`
		}
		if err := json.Unmarshal(f.Replay.Case, &cs); err != nil {
			return err
		}
		for _, p := range checkRequest(idx, cs.Request, nil, nil, cs.Variant) {
			if p.sig != "DRIFT" {
				c.Violation("C17/"+p.sig, p.what, cs)
			}
		}
	case "daterange-subsecond":
		k.extraProbes()
	default:
		return fmt.Errorf("unknown replay kind %q", f.Replay.Kind)
	}
	c.Eval(1)
	c.Distinct("replay")
	c.Distinct(string(f.Replay.Case) + f.Replay.Input)
	c.Sample(f.Replay)
	c.SetRule("replay of one saved case")
	return nil
}
