package c17

import (
	"bytes"
	"encoding/json"
	"fmt"
	"sort"
	"strings"
	"time"

	"github.com/blevesearch/bleve/v2"
	"github.com/blevesearch/bleve/v2/geo"
	"github.com/blevesearch/bleve/v2/search/query"

	"verif/harness/internal/tlaval"
)

// node mirrors the tree nodes of spec/QueryJSON.tla / QueryJSONCases.tla.
type node struct {
	Type string   `json:"type"`
	Opts []string `json:"opts"`
	Min  int      `json:"min"`
	Kids []kid    `json:"kids"`
}

type kid struct {
	Role string `json:"role"`
	Node *node  `json:"node"`
}

// dnode is the model's DispatchTree: the concrete type ParseQuery must pick
// at every node.
type dnode struct {
	Type string `json:"type"`
	Kids []dkid `json:"kids"`
}

type dkid struct {
	Role string `json:"role"`
	Node *dnode `json:"node"`
}

func cvStrSet(v any) []string {
	out := []string{}
	for _, e := range tlaval.List(v) {
		out = append(out, tlaval.Str(e))
	}
	sort.Strings(out)
	return out
}

func cvNode(v any) *node {
	m := tlaval.Map(v)
	n := &node{Type: tlaval.Str(m["type"]), Opts: cvStrSet(m["opts"]), Min: tlaval.Int(m["min"])}
	for _, k := range tlaval.List(m["kids"]) {
		km := tlaval.Map(k)
		n.Kids = append(n.Kids, kid{Role: tlaval.Str(km["role"]), Node: cvNode(km["node"])})
	}
	return n
}

func cvDNode(v any) *dnode {
	m := tlaval.Map(v)
	n := &dnode{Type: tlaval.Str(m["type"])}
	for _, k := range tlaval.List(m["kids"]) {
		km := tlaval.Map(k)
		n.Kids = append(n.Kids, dkid{Role: tlaval.Str(km["role"]), Node: cvDNode(km["node"])})
	}
	return n
}

func has(opts []string, k string) bool {
	for _, o := range opts {
		if o == k {
			return true
		}
	}
	return false
}

func boolp(b bool) *bool      { return &b }
func f64p(f float64) *float64 { return &f }

var (
	tStart = time.Date(2020, 1, 2, 0, 0, 0, 0, time.UTC)
	tEnd   = time.Date(2020, 1, 2, 3, 4, 5, 0, time.UTC)
)

// buildLeaf makes a real query of the given type with exactly the optional
// parts of opts set (to non-default values) and everything else left at the
// constructor's defaults. variant varies the concrete values.
func buildLeaf(typ string, opts []string, variant int) (query.Query, error) {
	v := variant
	if v < 0 {
		v = -v
	}
	boost := []float64{2, 0.5, 3.25}[v%3]
	var q query.Query
	switch typ {
	case "term":
		q = bleve.NewTermQuery([]string{"cat", "dog", "a"}[v%3])
	case "fuzzy":
		f := bleve.NewFuzzyQuery([]string{"cot", "dag", "cat"}[v%3])
		f.SetFuzziness(1 + v%2)
		f.SetPrefix(v % 2)
		if has(opts, "@auto") {
			f.SetAutoFuzziness(true)
		}
		q = f
	case "match":
		m := bleve.NewMatchQuery([]string{"cat dog", "dog", "Cat"}[v%3])
		m.SetFuzziness(v % 2)
		m.SetPrefix((v / 2) % 2)
		if has(opts, "@auto") {
			m.SetAutoFuzziness(true)
		}
		if has(opts, "analyzer") {
			m.Analyzer = []string{"simple", "keyword", "standard"}[v%3]
		}
		if has(opts, "operator") {
			m.SetOperator(query.MatchQueryOperatorAnd)
		}
		q = m
	case "match_phrase":
		m := bleve.NewMatchPhraseQuery([]string{"cat dog", "dog cat"}[v%2])
		m.SetFuzziness(v % 2)
		if has(opts, "@auto") {
			m.SetAutoFuzziness(true)
		}
		if has(opts, "analyzer") {
			m.Analyzer = []string{"simple", "standard"}[v%2]
		}
		q = m
	case "phrase":
		p := query.NewPhraseQuery([]string{"cat", "dog"}, "")
		p.SetFuzziness(v % 2)
		if has(opts, "@auto") {
			p.SetAutoFuzziness(true)
		}
		q = p
	case "multi_phrase":
		p := query.NewMultiPhraseQuery([][]string{{"cat", "cot"}, {"dog"}}, "")
		p.SetFuzziness(v % 2)
		if has(opts, "@auto") {
			p.SetAutoFuzziness(true)
		}
		q = p
	case "query_string":
		q = bleve.NewQueryStringQuery([]string{"+cat dog^2", "t:cat -p:>5", "\"cat dog\" a:1"}[v%3])
	case "numeric_range":
		var min, max *float64
		var imin, imax *bool
		if has(opts, "min") {
			min = f64p([]float64{2.5, -10, 0}[v%3])
		}
		if has(opts, "max") {
			max = f64p([]float64{10, 11, 2.5}[v%3])
		}
		if has(opts, "inclusive_min") {
			imin = boolp(v%2 == 0)
		}
		if has(opts, "inclusive_max") {
			imax = boolp(v%2 == 1)
		}
		q = bleve.NewNumericRangeInclusiveQuery(min, max, imin, imax)
	case "term_range":
		var min, max string
		var imin, imax *bool
		if has(opts, "min") {
			min = "cat"
		}
		if has(opts, "max") {
			max = []string{"dog", "cot"}[v%2]
		}
		if has(opts, "inclusive_min") {
			imin = boolp(v%2 == 0)
		}
		if has(opts, "inclusive_max") {
			imax = boolp(v%2 == 1)
		}
		q = bleve.NewTermRangeInclusiveQuery(min, max, imin, imax)
	case "date_range":
		var is, ie *bool
		if has(opts, "inclusive_start") {
			is = boolp(v%2 == 0)
		}
		if has(opts, "inclusive_end") {
			ie = boolp(v%2 == 1)
		}
		s, e := tStart, tEnd
		switch v % 3 {
		case 1:
			s = time.Time{}
		case 2:
			e = time.Time{}
		}
		q = bleve.NewDateRangeInclusiveQuery(s, e, is, ie)
	case "date_range_string":
		var s, e string
		var is, ie *bool
		custom := has(opts, "datetime_parser")
		if has(opts, "start") {
			s = map[bool]string{false: "2020-01-02", true: "2020/01/02"}[custom]
		}
		if has(opts, "end") {
			e = map[bool]string{false: "2020-01-02T03:04:05Z", true: "2020/01/03"}[custom]
		}
		if has(opts, "inclusive_start") {
			is = boolp(v%2 == 0)
		}
		if has(opts, "inclusive_end") {
			ie = boolp(v%2 == 1)
		}
		d := bleve.NewDateRangeInclusiveStringQuery(s, e, is, ie)
		if custom {
			d.SetDateTimeParser("cdate")
		}
		q = d
	case "prefix":
		q = bleve.NewPrefixQuery([]string{"ca", "d"}[v%2])
	case "regexp":
		q = bleve.NewRegexpQuery([]string{"c.t", "do.*"}[v%2])
	case "wildcard":
		q = bleve.NewWildcardQuery([]string{"c*t", "d?g"}[v%2])
	case "match_all":
		q = bleve.NewMatchAllQuery()
	case "match_none":
		q = bleve.NewMatchNoneQuery()
	case "docid":
		q = bleve.NewDocIDQuery([][]string{{"d01", "d03"}, {"d12"}, {"d02", "zz"}}[v%3])
	case "bool_field":
		q = bleve.NewBoolFieldQuery(v%2 == 0)
	case "geo_bbox":
		q = bleve.NewGeoBoundingBoxQuery(0, 5, 5, 0)
	case "geo_distance":
		q = bleve.NewGeoDistanceQuery(1, 1, "100km")
	case "geo_polygon":
		q = query.NewGeoBoundingPolygonQuery([]geo.Point{{Lon: 0, Lat: 0}, {Lon: 0, Lat: 5}, {Lon: 5, Lat: 5}, {Lon: 5, Lat: 0}})
	case "geo_shape":
		g, err := bleve.NewGeoShapeQuery([][][][]float64{{{{1, 1}}}}, geo.PointType, "intersects")
		if err != nil {
			return nil, err
		}
		q = g
	case "ip_range":
		q = bleve.NewIPRangeQuery([]string{"192.168.0.0/16", "10.0.0.1"}[v%2])
	default:
		return nil, fmt.Errorf("buildLeaf: unknown type %q", typ)
	}
	if has(opts, "field") {
		f := map[string]string{"numeric_range": "p", "date_range": "d", "date_range_string": "d", "bool_field": "b",
			"geo_bbox": "g", "geo_distance": "g", "geo_polygon": "g", "geo_shape": "g", "ip_range": "ip"}[typ]
		if f == "" {
			f = []string{"t", "a"}[v%2]
		}
		fq, ok := q.(query.FieldableQuery)
		if !ok {
			return nil, fmt.Errorf("%s is not fieldable", typ)
		}
		fq.SetField(f)
	}
	if has(opts, "boost") {
		bq, ok := q.(query.BoostableQuery)
		if !ok {
			return nil, fmt.Errorf("%s is not boostable", typ)
		}
		bq.SetBoost(boost)
	}
	return q, nil
}

// buildTree makes the real query for a model tree node.
func buildTree(n *node, variant int) (query.Query, error) {
	kids := func(role string) ([]query.Query, error) {
		var out []query.Query
		for i, k := range n.Kids {
			if k.Role == role {
				q, err := buildTree(k.Node, variant+i+1)
				if err != nil {
					return nil, err
				}
				out = append(out, q)
			}
		}
		return out, nil
	}
	boost := []float64{2, 0.5}[((variant%2)+2)%2]
	switch n.Type {
	case "conjunction":
		ks, err := kids("")
		if err != nil {
			return nil, err
		}
		q := bleve.NewConjunctionQuery(ks...)
		if has(n.Opts, "boost") {
			q.SetBoost(boost)
		}
		return q, nil
	case "disjunction":
		ks, err := kids("")
		if err != nil {
			return nil, err
		}
		q := bleve.NewDisjunctionQuery(ks...)
		q.SetMin(float64(n.Min))
		if has(n.Opts, "boost") {
			q.SetBoost(boost)
		}
		return q, nil
	case "boolean":
		q := bleve.NewBooleanQuery()
		for _, role := range []string{"must", "should", "must_not", "filter"} {
			ks, err := kids(role)
			if err != nil {
				return nil, err
			}
			if len(ks) == 0 {
				continue
			}
			switch role {
			case "must":
				q.Must = ks[0]
			case "should":
				q.Should = ks[0]
			case "must_not":
				q.MustNot = ks[0]
			case "filter":
				q.AddFilter(ks[0])
			}
		}
		if has(n.Opts, "boost") {
			q.SetBoost(boost)
		}
		return q, nil
	}
	return buildLeaf(n.Type, n.Opts, variant)
}

func goTypeName(q query.Query) string {
	switch q.(type) {
	case *query.TermQuery:
		return "term"
	case *query.FuzzyQuery:
		return "fuzzy"
	case *query.MatchQuery:
		return "match"
	case *query.MatchPhraseQuery:
		return "match_phrase"
	case *query.PhraseQuery:
		return "phrase"
	case *query.MultiPhraseQuery:
		return "multi_phrase"
	case *query.BooleanQuery:
		return "boolean"
	case *query.ConjunctionQuery:
		return "conjunction"
	case *query.DisjunctionQuery:
		return "disjunction"
	case *query.QueryStringQuery:
		return "query_string"
	case *query.NumericRangeQuery:
		return "numeric_range"
	case *query.TermRangeQuery:
		return "term_range"
	case *query.DateRangeQuery:
		return "date_range"
	case *query.DateRangeStringQuery:
		return "date_range_string"
	case *query.PrefixQuery:
		return "prefix"
	case *query.RegexpQuery:
		return "regexp"
	case *query.WildcardQuery:
		return "wildcard"
	case *query.MatchAllQuery:
		return "match_all"
	case *query.MatchNoneQuery:
		return "match_none"
	case *query.DocIDQuery:
		return "docid"
	case *query.BoolFieldQuery:
		return "bool_field"
	case *query.GeoBoundingBoxQuery:
		return "geo_bbox"
	case *query.GeoDistanceQuery:
		return "geo_distance"
	case *query.GeoBoundingPolygonQuery:
		return "geo_polygon"
	case *query.GeoShapeQuery:
		return "geo_shape"
	case *query.IPRangeQuery:
		return "ip_range"
	}
	return fmt.Sprintf("%T", q)
}

// realTypeTree reads the concrete types of a parsed query tree in the shape
// of the model's DispatchTree.
func realTypeTree(q query.Query) *dnode {
	n := &dnode{Type: goTypeName(q)}
	switch x := q.(type) {
	case *query.ConjunctionQuery:
		for _, c := range x.Conjuncts {
			n.Kids = append(n.Kids, dkid{Role: "", Node: realTypeTree(c)})
		}
	case *query.DisjunctionQuery:
		for _, c := range x.Disjuncts {
			n.Kids = append(n.Kids, dkid{Role: "", Node: realTypeTree(c)})
		}
	case *query.BooleanQuery:
		for _, p := range []struct {
			role string
			q    query.Query
		}{{"must", x.Must}, {"should", x.Should}, {"must_not", x.MustNot}, {"filter", x.Filter}} {
			if p.q != nil {
				n.Kids = append(n.Kids, dkid{Role: p.role, Node: realTypeTree(p.q)})
			}
		}
	}
	return n
}

func jsonKind(raw json.RawMessage) string {
	var v any
	if json.Unmarshal(raw, &v) != nil {
		return "any"
	}
	switch x := v.(type) {
	case float64:
		return "num"
	case string:
		return "str"
	case []any:
		if len(x) == 0 {
			return "any"
		}
		allStr, allArr := true, true
		for _, e := range x {
			if _, ok := e.(string); !ok {
				allStr = false
			}
			if _, ok := e.([]any); !ok {
				allArr = false
			}
		}
		if allStr {
			return "strs"
		}
		if allArr {
			return "strss"
		}
	}
	return "any"
}

type jsonProblem struct {
	sig, what string
}

// checkQueryJSON: marshal q, parse it back with query.ParseQuery, and check
// (i) the re-marshalled JSON is equal, (ii) both queries return the same
// results on the real index, (iii) the concrete types chosen equal the
// model's Dispatch (wantTypes), and for table rows (iv) the emitted key set
// equals the model's Keys (wantKeys: key -> kind).
func checkQueryJSON(idxRun func(query.Query) execResult, q query.Query, wantTypes *dnode, wantKeys map[string]string, label string) []jsonProblem {
	var probs []jsonProblem
	j1, err := json.Marshal(q)
	if err != nil {
		return []jsonProblem{{"json-marshal-fails", fmt.Sprintf("%s: Marshal: %v", label, err)}}
	}
	if wantKeys != nil {
		var top map[string]json.RawMessage
		if err := json.Unmarshal(j1, &top); err != nil {
			return []jsonProblem{{"json-not-an-object", fmt.Sprintf("%s: %s", label, j1)}}
		}
		var diffs []string
		for k, kind := range wantKeys {
			raw, ok := top[k]
			if !ok {
				diffs = append(diffs, "missing key "+k)
				continue
			}
			if kind != "any" && jsonKind(raw) != kind {
				diffs = append(diffs, fmt.Sprintf("key %s has kind %s, model says %s", k, jsonKind(raw), kind))
			}
		}
		for k := range top {
			if _, ok := wantKeys[k]; !ok {
				diffs = append(diffs, "extra key "+k)
			}
		}
		if len(diffs) > 0 {
			sort.Strings(diffs)
			// the key table is part of the transcription: the property-level
			// consequences (type, bytes, results) are checked below
			probs = append(probs, jsonProblem{"DRIFT", fmt.Sprintf("%s: marshalled keys differ from QueryJSON!Keys: %s; JSON %s", label, strings.Join(diffs, "; "), j1)})
		}
	}
	back, err := query.ParseQuery(j1)
	if err != nil {
		return append(probs, jsonProblem{"json-parse-back-fails", fmt.Sprintf("%s: ParseQuery(%s): %v", label, j1, err)})
	}
	if wantTypes != nil {
		wt, _ := json.Marshal(wantTypes)
		rt, _ := json.Marshal(realTypeTree(back))
		if !bytes.Equal(wt, rt) {
			probs = append(probs, jsonProblem{"json-dispatch", fmt.Sprintf("%s: ParseQuery(%s) chose %s, QueryJSON!Dispatch says %s", label, j1, rt, wt)})
		}
	}
	j2, err := json.Marshal(back)
	if err != nil {
		return append(probs, jsonProblem{"json-remarshal-fails", fmt.Sprintf("%s: %v", label, err)})
	}
	if !bytes.Equal(j1, j2) {
		probs = append(probs, jsonProblem{"json-remarshal-differs", fmt.Sprintf("%s: re-marshalled JSON differs\n first:  %s\n second: %s", label, j1, j2)})
	}
	r1, r2 := idxRun(q), idxRun(back)
	if r1 != r2 {
		probs = append(probs, jsonProblem{"json-results-differ", fmt.Sprintf("%s: query and its JSON round trip %s return different results\n original:   %s\n round trip: %s", label, j1, r1.View, r2.View)})
	}
	return probs
}
