package c17

import (
	"encoding/json"
	"fmt"
	"strconv"
	"strings"
	"time"

	"github.com/blevesearch/bleve/v2"
	"github.com/blevesearch/bleve/v2/search/query"

	"verif/harness/internal/tlaval"
)

// clause mirrors the clause record of spec/QueryString.tla.
type clause struct {
	Occ      string `json:"occ"`
	Kind     string `json:"kind"`
	HasField bool   `json:"hasField"`
	Field    string `json:"field"`
	Text     string `json:"text"`
	Op       string `json:"op"`
	Fuzz     string `json:"fuzz"`  // literal, "" when absent
	Boost    string `json:"boost"` // literal, "" when absent
}

// outcome mirrors the res record: Reject / AcceptNone / Accept(clauses).
type outcome struct {
	OK   bool     `json:"ok"`
	None bool     `json:"none"`
	Cl   []clause `json:"cl"`
}

func codesToString(v any) string {
	l := tlaval.List(v)
	b := make([]rune, len(l))
	for i, c := range l {
		b[i] = rune(tlaval.Int(c))
	}
	return string(b)
}

func cvOutcome(v any) outcome {
	m := tlaval.Map(v)
	o := outcome{OK: tlaval.Bool(m["ok"]), None: tlaval.Bool(m["none"])}
	for _, c := range tlaval.List(m["cl"]) {
		cm := tlaval.Map(c)
		o.Cl = append(o.Cl, clause{Occ: tlaval.Str(cm["occ"]), Kind: tlaval.Str(cm["kind"]),
			HasField: tlaval.Bool(cm["hasField"]), Field: codesToString(cm["field"]), Text: codesToString(cm["text"]),
			Op: tlaval.Str(cm["op"]), Fuzz: codesToString(cm["fuzz"]), Boost: codesToString(cm["boost"])})
	}
	return o
}

// realClause is the normal form of one clause of the really parsed query.
type realClause struct {
	Occ, Kind, Field, Text, Op string
	Fuzz                       int
	HasBoost                   bool
	Boost                      float64
	Problem                    string // the real clause has a shape the syntax does not produce
}

func boostOf(b *query.Boost) (bool, float64) {
	if b == nil {
		return false, 0
	}
	return true, float64(*b)
}

func fmtFloat(f float64) string { return strconv.FormatFloat(f, 'g', -1, 64) }

func normClause(occ string, q query.Query) realClause {
	rc := realClause{Occ: occ}
	switch x := q.(type) {
	case *query.MatchQuery:
		rc.Kind, rc.Field, rc.Text, rc.Fuzz = "match", x.FieldVal, x.Match, x.Fuzziness
		rc.HasBoost, rc.Boost = boostOf(x.BoostVal)
		if x.Analyzer != "" || x.Prefix != 0 || x.Operator != query.MatchQueryOperatorOr {
			rc.Problem = "match query with analyzer/prefix/operator"
		}
	case *query.RegexpQuery:
		rc.Kind, rc.Field, rc.Text = "regexp", x.FieldVal, x.Regexp
		rc.HasBoost, rc.Boost = boostOf(x.BoostVal)
	case *query.WildcardQuery:
		rc.Kind, rc.Field, rc.Text = "wildcard", x.FieldVal, x.Wildcard
		rc.HasBoost, rc.Boost = boostOf(x.BoostVal)
	case *query.MatchPhraseQuery:
		rc.Kind, rc.Field, rc.Text = "phrase", x.FieldVal, x.MatchPhrase
		rc.HasBoost, rc.Boost = boostOf(x.BoostVal)
		if x.Analyzer != "" || x.Fuzziness != 0 {
			rc.Problem = "phrase query with analyzer/fuzziness"
		}
	case *query.DisjunctionQuery:
		rc.Kind = "numeq"
		rc.HasBoost, rc.Boost = boostOf(x.BoostVal)
		if len(x.Disjuncts) != 2 || x.Min != 0 {
			rc.Problem = "number clause is not a two-way disjunction"
			break
		}
		mq, ok1 := x.Disjuncts[0].(*query.MatchQuery)
		nq, ok2 := x.Disjuncts[1].(*query.NumericRangeQuery)
		if !ok1 || !ok2 {
			rc.Problem = "number clause is not match + numeric range"
			break
		}
		rc.Field, rc.Text = mq.FieldVal, mq.Match
		want, err := strconv.ParseFloat(mq.Match, 64)
		if err != nil || nq.Min == nil || nq.Max == nil || *nq.Min != want || *nq.Max != want ||
			nq.InclusiveMin == nil || !*nq.InclusiveMin || nq.InclusiveMax == nil || !*nq.InclusiveMax ||
			nq.FieldVal != mq.FieldVal || mq.BoostVal != nil || nq.BoostVal != nil || mq.Fuzziness != 0 {
			rc.Problem = "number clause: numeric range is not [value, value] inclusive on the same field"
		}
	case *query.NumericRangeQuery:
		rc.Kind, rc.Field = "range", x.FieldVal
		rc.HasBoost, rc.Boost = boostOf(x.BoostVal)
		switch {
		case x.Min != nil && x.Max == nil && x.InclusiveMin != nil && x.InclusiveMax == nil:
			rc.Text = fmtFloat(*x.Min)
			rc.Op = map[bool]string{true: "ge", false: "gt"}[*x.InclusiveMin]
		case x.Max != nil && x.Min == nil && x.InclusiveMax != nil && x.InclusiveMin == nil:
			rc.Text = fmtFloat(*x.Max)
			rc.Op = map[bool]string{true: "le", false: "lt"}[*x.InclusiveMax]
		default:
			rc.Problem = "comparison clause with unexpected bounds"
		}
	case *query.DateRangeQuery:
		rc.Kind, rc.Field = "date", x.FieldVal
		rc.HasBoost, rc.Boost = boostOf(x.BoostVal)
		switch {
		case !x.Start.IsZero() && x.End.IsZero() && x.InclusiveStart != nil && x.InclusiveEnd == nil:
			rc.Text = x.Start.Time.UTC().Format(time.RFC3339Nano)
			rc.Op = map[bool]string{true: "ge", false: "gt"}[*x.InclusiveStart]
		case !x.End.IsZero() && x.Start.IsZero() && x.InclusiveEnd != nil && x.InclusiveStart == nil:
			rc.Text = x.End.Time.UTC().Format(time.RFC3339Nano)
			rc.Op = map[bool]string{true: "le", false: "lt"}[*x.InclusiveEnd]
		default:
			rc.Problem = "date comparison clause with unexpected bounds"
		}
	default:
		rc.Kind = fmt.Sprintf("%T", q)
		rc.Problem = "unexpected clause type"
	}
	return rc
}

// realParse parses s with the real parser. A panic escaping the parser is
// reported in panicked.
func realParse(s string) (parsed query.Query, accepted, none bool, cls []realClause, shape string, panicked any) {
	defer func() {
		if r := recover(); r != nil {
			panicked = r
		}
	}()
	q, err := query.NewQueryStringQuery(s).Parse()
	if err != nil {
		return nil, false, false, nil, "", nil
	}
	switch x := q.(type) {
	case *query.MatchNoneQuery:
		return q, true, true, nil, "", nil
	case *query.BooleanQuery:
		if x.Filter != nil || x.BoostVal != nil {
			shape = "parsed boolean query has a filter or a boost"
		}
		if x.Must != nil {
			cq, ok := x.Must.(*query.ConjunctionQuery)
			if !ok {
				return q, true, false, nil, "must is not a conjunction", nil
			}
			for _, c := range cq.Conjuncts {
				cls = append(cls, normClause("must", c))
			}
		}
		if x.Should != nil {
			dq, ok := x.Should.(*query.DisjunctionQuery)
			if !ok {
				return q, true, false, nil, "should is not a disjunction", nil
			}
			if dq.Min != 0 {
				shape = "should has a minimum"
			}
			for _, c := range dq.Disjuncts {
				cls = append(cls, normClause("should", c))
			}
		}
		if x.MustNot != nil {
			dq, ok := x.MustNot.(*query.DisjunctionQuery)
			if !ok {
				return q, true, false, nil, "must_not is not a disjunction", nil
			}
			for _, c := range dq.Disjuncts {
				cls = append(cls, normClause("mustnot", c))
			}
		}
		return q, true, false, cls, shape, nil
	}
	return q, true, false, nil, fmt.Sprintf("parsed query is a %T", q), nil
}

// optionalParser is the date parser the grammar uses (query.QueryDateTimeParser,
// "dateTimeOptional"), reached through the exported BleveQueryTime.
func optionalParser(s string) (time.Time, error) {
	var t query.BleveQueryTime
	b, _ := json.Marshal(s)
	err := t.UnmarshalJSON(b)
	return t.Time, err
}

// expectedNorm renders the model's clause list in the normal form of
// realClause: occurrences grouped must / should / mustnot in order of
// appearance, numeric literals converted with strconv (trusted).
func expectedNorm(o outcome) ([]realClause, error) {
	var out []realClause
	for _, occ := range []string{"must", "should", "mustnot"} {
		for _, c := range o.Cl {
			if c.Occ != occ {
				continue
			}
			rc := realClause{Occ: c.Occ, Kind: c.Kind, Text: c.Text, Op: c.Op}
			if c.HasField {
				rc.Field = c.Field
			}
			if c.Fuzz != "" {
				f, err := strconv.ParseFloat(c.Fuzz, 64)
				if err != nil {
					return nil, fmt.Errorf("model accepted fuzziness literal %q that strconv rejects", c.Fuzz)
				}
				rc.Fuzz = int(f)
			}
			if c.Boost != "" {
				f, err := strconv.ParseFloat(c.Boost, 64)
				if err != nil {
					return nil, fmt.Errorf("model accepted boost literal %q that strconv rejects", c.Boost)
				}
				rc.HasBoost, rc.Boost = true, f
			}
			switch c.Kind {
			case "range":
				f, err := strconv.ParseFloat(c.Text, 64)
				if err != nil {
					return nil, fmt.Errorf("model produced number literal %q that strconv rejects", c.Text)
				}
				rc.Text = fmtFloat(f)
			case "date":
				t, err := optionalParser(c.Text)
				if err != nil {
					return nil, fmt.Errorf("model's ValidDates contains %q which the real date parser rejects", c.Text)
				}
				rc.Text = t.UTC().Format(time.RFC3339Nano)
			}
			out = append(out, rc)
		}
	}
	return out, nil
}

func sameClauses(a, b []realClause) (bool, string) {
	if len(a) != len(b) {
		return false, "clause-count"
	}
	for i := range a {
		x, y := a[i], b[i]
		switch {
		case y.Problem != "":
			return false, "clause-shape"
		case x.Occ != y.Occ:
			return false, "occurrence"
		case x.Kind != y.Kind:
			return false, "clause-kind"
		case x.Field != y.Field:
			return false, "field"
		case x.Text != y.Text:
			return false, "text"
		case x.Op != y.Op:
			return false, "comparison"
		case x.Fuzz != y.Fuzz:
			return false, "fuzziness"
		case x.HasBoost != y.HasBoost || x.Boost != y.Boost:
			return false, "boost"
		}
	}
	return true, ""
}

// documentedQuery builds, through the public API, the query the syntax
// documents for the model's clause list: a boolean query in query-string mode
// with the required, optional and excluded clauses.
func documentedQuery(o outcome) (query.Query, error) {
	if o.None {
		return bleve.NewMatchNoneQuery(), nil
	}
	var must, should, mustNot []query.Query
	for _, c := range o.Cl {
		var q query.Query
		switch c.Kind {
		case "match":
			m := bleve.NewMatchQuery(c.Text)
			if c.Fuzz != "" {
				f, _ := strconv.ParseFloat(c.Fuzz, 64)
				m.SetFuzziness(int(f))
			}
			q = m
		case "regexp":
			q = bleve.NewRegexpQuery(c.Text)
		case "wildcard":
			q = bleve.NewWildcardQuery(c.Text)
		case "phrase":
			q = bleve.NewMatchPhraseQuery(c.Text)
		case "numeq":
			v, err := strconv.ParseFloat(c.Text, 64)
			if err != nil {
				return nil, err
			}
			m := bleve.NewMatchQuery(c.Text)
			incl := true
			n := bleve.NewNumericRangeInclusiveQuery(&v, &v, &incl, &incl)
			if c.HasField {
				m.SetField(c.Field)
				n.SetField(c.Field)
			}
			q = bleve.NewDisjunctionQuery(m, n)
		case "range":
			v, err := strconv.ParseFloat(c.Text, 64)
			if err != nil {
				return nil, err
			}
			incl := c.Op == "ge" || c.Op == "le"
			if c.Op == "gt" || c.Op == "ge" {
				q = bleve.NewNumericRangeInclusiveQuery(&v, nil, &incl, nil)
			} else {
				q = bleve.NewNumericRangeInclusiveQuery(nil, &v, nil, &incl)
			}
		case "date":
			t, err := optionalParser(c.Text)
			if err != nil {
				return nil, err
			}
			incl := c.Op == "ge" || c.Op == "le"
			if c.Op == "gt" || c.Op == "ge" {
				q = bleve.NewDateRangeInclusiveQuery(t, time.Time{}, &incl, nil)
			} else {
				q = bleve.NewDateRangeInclusiveQuery(time.Time{}, t, nil, &incl)
			}
		default:
			return nil, fmt.Errorf("unknown clause kind %q", c.Kind)
		}
		if c.HasField && c.Kind != "numeq" {
			q.(query.FieldableQuery).SetField(c.Field)
		}
		if c.Boost != "" {
			f, _ := strconv.ParseFloat(c.Boost, 64)
			q.(query.BoostableQuery).SetBoost(f)
		}
		switch c.Occ {
		case "must":
			must = append(must, q)
		case "should":
			should = append(should, q)
		default:
			mustNot = append(mustNot, q)
		}
	}
	return query.NewBooleanQueryForQueryString(must, should, mustNot), nil
}

// plainBoolean builds the model's clauses as an ordinary boolean query (what
// the JSON form of the parsed query describes when read back).
func plainBoolean(o outcome) (query.Query, error) {
	doc, err := documentedQuery(o)
	if err != nil {
		return nil, err
	}
	b, ok := doc.(*query.BooleanQuery)
	if !ok {
		return doc, nil
	}
	var must, should, mustNot []query.Query
	if b.Must != nil {
		must = b.Must.(*query.ConjunctionQuery).Conjuncts
	}
	if b.Should != nil {
		should = b.Should.(*query.DisjunctionQuery).Disjuncts
	}
	if b.MustNot != nil {
		mustNot = b.MustNot.(*query.DisjunctionQuery).Disjuncts
	}
	return query.NewBooleanQuery(must, should, mustNot), nil
}

func describe(cls []realClause) string {
	var sb strings.Builder
	for _, c := range cls {
		fmt.Fprintf(&sb, "[%s %s field=%q text=%q op=%s fuzz=%d boost=%v/%g %s]", c.Occ, c.Kind, c.Field, c.Text, c.Op, c.Fuzz, c.HasBoost, c.Boost, c.Problem)
	}
	return sb.String()
}

// qsProblem is a property-level failure found for one input string.
type qsProblem struct {
	sig, what string
}

// checkQueryString compares the real parser with the model's outcome for s
// and, when both accept, the hits of the parsed query with those of the
// documented query and of the JSON round trip of the parsed query.
func checkQueryString(idx bleve.Index, s string, want outcome, execute bool) (probs []qsProblem, accepted bool, err error) {
	parsed, acc, none, cls, shape, panicked := realParse(s)
	if panicked != nil {
		return []qsProblem{{"qs-panic", fmt.Sprintf("query string %q: panic escaped the parser: %v", s, panicked)}}, false, nil
	}
	if acc != want.OK {
		return []qsProblem{{"qs-accept-reject", fmt.Sprintf("query string %q: real parser accepts=%v, model (QueryString!Result) accepts=%v", s, acc, want.OK)}}, acc, nil
	}
	if !acc {
		return nil, false, nil
	}
	if none != want.None {
		return []qsProblem{{"qs-structure:none", fmt.Sprintf("query string %q: real MatchNone=%v, model=%v", s, none, want.None)}}, true, nil
	}
	if shape != "" {
		probs = append(probs, qsProblem{"qs-structure:shape", fmt.Sprintf("query string %q: %s", s, shape)})
	}
	exp, err := expectedNorm(want)
	if err != nil {
		return nil, true, err
	}
	if same, aspect := sameClauses(exp, cls); !same {
		probs = append(probs, qsProblem{"qs-structure:" + aspect,
			fmt.Sprintf("query string %q parses to a different query than the syntax documents\n model: %s\n real:  %s", s, describe(exp), describe(cls))})
		return probs, true, nil
	}
	if !execute {
		return probs, true, nil
	}
	doc, err := documentedQuery(want)
	if err != nil {
		return nil, true, err
	}
	r1 := runQuery(idx, bleve.NewQueryStringQuery(s))
	r2 := runQuery(idx, doc)
	if strings.HasPrefix(r1.View, "PANIC") {
		probs = append(probs, qsProblem{"qs-search-panic", fmt.Sprintf("query string %q: searching panics: %s", s, r1.View)})
		return probs, true, nil
	}
	if r1 != r2 {
		probs = append(probs, qsProblem{"qs-results-differ",
			fmt.Sprintf("query string %q returns other hits than the directly constructed query\n parsed:      %s\n constructed: %s", s, r1.View, r2.View)})
	}
	// the parsed query is a query value too: its JSON form must parse back to a
	// query with the same results
	if j, err := json.Marshal(parsed); err != nil {
		probs = append(probs, qsProblem{"qs-parsed-json:marshal", fmt.Sprintf("query string %q: parsed query does not marshal: %v", s, err)})
	} else if back, err := query.ParseQuery(j); err != nil {
		probs = append(probs, qsProblem{"qs-parsed-json:parse", fmt.Sprintf("query string %q: JSON of the parsed query %s does not parse back: %v", s, j, err)})
	} else if r3 := runQuery(idx, back); r3 != r1 {
		// Which part of the meaning was lost? If the round trip behaves exactly like
		// the same clauses in a plain (not query-string-mode) boolean query, the only
		// thing lost is the unexported queryStringMode flag of the parsed query.
		sig := "qs-parsed-json:results"
		if plain, err := plainBoolean(want); err == nil && runQuery(idx, plain) == r3 {
			sig = "qs-parsed-json:query-string-mode-lost"
		}
		probs = append(probs, qsProblem{sig,
			fmt.Sprintf("query string %q: the parsed query (QueryStringQuery.Parse) and its JSON round trip %s return different results\n parsed:     %s\n round trip: %s", s, j, r1.View, r3.View)})
	}
	return probs, true, nil
}
