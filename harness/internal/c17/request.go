package c17

import (
	"bytes"
	"encoding/json"
	"fmt"
	"reflect"
	"sort"
	"strings"

	"github.com/blevesearch/bleve/v2"
	"github.com/blevesearch/bleve/v2/search"

	"verif/harness/internal/tlaval"
)

// sortSpec mirrors SField / SId / SScore of spec/QueryJSON.tla.
type sortSpec struct {
	By      string `json:"by"`
	Field   string `json:"field"`
	Desc    bool   `json:"desc"`
	Type    string `json:"type"`
	Mode    string `json:"mode"`
	Missing string `json:"missing"`
}

// sortJSON mirrors SortToJSON: the string form or the object form.
type sortJSON struct {
	Form  string         `json:"form"`
	Str   string         `json:"str,omitempty"`
	Minus bool           `json:"minus,omitempty"`
	Obj   map[string]any `json:"obj,omitempty"`
}

type reqSpec struct {
	Size      int        `json:"size"`
	From      int        `json:"from"`
	Explain   bool       `json:"explain"`
	Locations bool       `json:"locations"`
	Score     string     `json:"score"`
	Sort      []sortSpec `json:"sort"`
	Highlight string     `json:"highlight"`
	Fields    string     `json:"fields"`
	Facets    string     `json:"facets"`
	After     string     `json:"after"`
	Before    string     `json:"before"`
}

func cvSort(v any) sortSpec {
	m := tlaval.Map(v)
	return sortSpec{By: tlaval.Str(m["by"]), Field: tlaval.Str(m["field"]), Desc: tlaval.Bool(m["desc"]),
		Type: tlaval.Str(m["type"]), Mode: tlaval.Str(m["mode"]), Missing: tlaval.Str(m["missing"])}
}

func cvSortJSON(v any) sortJSON {
	m := tlaval.Map(v)
	j := sortJSON{Form: tlaval.Str(m["form"])}
	if j.Form == "string" {
		j.Str, j.Minus = tlaval.Str(m["str"]), tlaval.Bool(m["minus"])
		return j
	}
	j.Obj = map[string]any{}
	for k, x := range tlaval.Map(m["obj"]) {
		j.Obj[k] = tlaval.ToJSON(x)
	}
	return j
}

func cvReq(v any) reqSpec {
	m := tlaval.Map(v)
	r := reqSpec{Size: tlaval.Int(m["size"]), From: tlaval.Int(m["from"]), Explain: tlaval.Bool(m["explain"]),
		Locations: tlaval.Bool(m["locations"]), Score: tlaval.Str(m["score"]), Highlight: tlaval.Str(m["highlight"]),
		Fields: tlaval.Str(m["fields"]), Facets: tlaval.Str(m["facets"]), After: tlaval.Str(m["after"]), Before: tlaval.Str(m["before"])}
	for _, s := range tlaval.List(m["sort"]) {
		r.Sort = append(r.Sort, cvSort(s))
	}
	return r
}

func buildSort(s sortSpec) search.SearchSort {
	switch s.By {
	case "id":
		return &search.SortDocID{Desc: s.Desc}
	case "score":
		return &search.SortScore{Desc: s.Desc}
	}
	f := &search.SortField{Field: s.Field, Desc: s.Desc}
	f.Type = map[string]search.SortFieldType{"auto": search.SortFieldAuto, "string": search.SortFieldAsString,
		"number": search.SortFieldAsNumber, "date": search.SortFieldAsDate}[s.Type]
	f.Mode = map[string]search.SortFieldMode{"default": search.SortFieldDefault, "min": search.SortFieldMin, "max": search.SortFieldMax}[s.Mode]
	f.Missing = map[string]search.SortFieldMissing{"last": search.SortFieldMissingLast, "first": search.SortFieldMissingFirst}[s.Missing]
	return f
}

// sortView renders the exported settings of a sort key.
func sortView(s search.SearchSort) string {
	switch x := s.(type) {
	case *search.SortField:
		return fmt.Sprintf("field(%s desc=%v type=%d mode=%d missing=%d)", x.Field, x.Desc, x.Type, x.Mode, x.Missing)
	case *search.SortDocID:
		return fmt.Sprintf("id(desc=%v)", x.Desc)
	case *search.SortScore:
		return fmt.Sprintf("score(desc=%v)", x.Desc)
	}
	return fmt.Sprintf("%T %+v", s, s)
}

// modelSortJSONBytes renders the model's JSON form of a sort key as the real
// marshaller would write it (string, or object with sorted keys).
func modelSortJSONBytes(j sortJSON) []byte {
	if j.Form == "string" {
		s := j.Str
		if j.Minus {
			s = "-" + s
		}
		b, _ := json.Marshal(s)
		return b
	}
	b, _ := json.Marshal(j.Obj)
	return b
}

// checkSort: one sort key, marshalled, compared with the model's JSON form,
// parsed back, compared with the original.
func checkSort(spec sortSpec, want sortJSON) []jsonProblem {
	var probs []jsonProblem
	s := buildSort(spec)
	j1, err := json.Marshal(s)
	if err != nil {
		return []jsonProblem{{"sort-marshal-fails", err.Error()}}
	}
	if mj := modelSortJSONBytes(want); !bytes.Equal(mj, j1) {
		probs = append(probs, jsonProblem{"DRIFT", fmt.Sprintf("sort %s marshals as %s, QueryJSON!SortToJSON says %s", sortView(s), j1, mj)})
	}
	back, err := search.ParseSearchSortJSON(j1)
	if err != nil {
		return append(probs, jsonProblem{"sort-parse-back-fails", fmt.Sprintf("sort %s: JSON %s does not parse: %v", sortView(s), j1, err)})
	}
	if sortView(back) != sortView(s) {
		probs = append(probs, jsonProblem{"sort-roundtrip-differs", fmt.Sprintf("sort %s comes back from %s as %s", sortView(s), j1, sortView(back))})
	}
	j2, _ := json.Marshal(back)
	if !bytes.Equal(j1, j2) {
		probs = append(probs, jsonProblem{"sort-remarshal-differs", fmt.Sprintf("sort %s: %s then %s", sortView(s), j1, j2)})
	}
	return probs
}

func pagingKey(s sortSpec) string {
	switch {
	case s.By == "id":
		return "d05"
	case s.By == "score":
		return "0.5"
	case s.Type == "number" || s.Field == "p":
		return "3"
	case s.Type == "date" || s.Field == "d":
		return "2020-01-02T00:00:00Z"
	}
	return "cat"
}

// buildRequest makes the real search request for a model request.
func buildRequest(r reqSpec, variant int) *bleve.SearchRequest {
	typ := []string{"match", "match_all", "term"}[((variant%3)+3)%3]
	opts := []string{"field"}
	if typ == "match_all" {
		opts = nil
	}
	q, err := buildLeaf(typ, opts, variant)
	if err != nil {
		panic(err)
	}
	req := bleve.NewSearchRequestOptions(q, r.Size, r.From, r.Explain)
	req.IncludeLocations = r.Locations
	req.Score = r.Score
	var so search.SortOrder
	for _, s := range r.Sort {
		so = append(so, buildSort(s))
	}
	req.SortByCustom(so)
	switch r.Highlight {
	case "default":
		req.Highlight = bleve.NewHighlight()
	case "style":
		req.Highlight = bleve.NewHighlightWithStyle("html")
	case "style_fields":
		req.Highlight = bleve.NewHighlightWithStyle("ansi")
		req.Highlight.AddField("t")
	case "fields":
		req.Highlight = bleve.NewHighlight()
		req.Highlight.AddField("t")
		req.Highlight.AddField("a")
	}
	switch r.Fields {
	case "t":
		req.Fields = []string{"t", "p"}
	case "star":
		req.Fields = []string{"*"}
	}
	switch r.Facets {
	case "terms":
		req.AddFacet("terms", bleve.NewFacetRequest("t", 3))
	case "numeric":
		f := bleve.NewFacetRequest("p", 5)
		lo, hi := 0.0, 10.0
		f.AddNumericRange("neg", nil, &lo)
		f.AddNumericRange("mid", &lo, &hi)
		f.AddNumericRange("big", &hi, nil)
		req.AddFacet("prices", f)
	case "dates":
		f := bleve.NewFacetRequest("d", 5)
		f.AddDateTimeRange("old", tStart.AddDate(-5, 0, 0), tStart)
		f.AddDateTimeRange("new", tStart, tStart.AddDate(5, 0, 0))
		req.AddFacet("when", f)
		req.AddFacet("terms", bleve.NewFacetRequest("a", 2))
	case "datestrings":
		f := bleve.NewFacetRequest("d", 5)
		a, b := "2020-01-02", "2020-01-02T03:04:06Z"
		f.AddDateTimeRangeString("before", nil, &a)
		f.AddDateTimeRangeString("between", &a, &b)
		c, d := "2020/01/02", "2021/01/01"
		f.AddDateTimeRangeStringWithParser("custom", &c, &d, "cdate")
		req.AddFacet("when", f)
	}
	keys := []string{}
	for _, s := range r.Sort {
		keys = append(keys, pagingKey(s))
	}
	if r.After == "key" {
		req.SetSearchAfter(keys)
	}
	if r.Before == "key" {
		req.SetSearchBefore(keys)
	}
	return req
}

// requestView renders the settings of a request that are part of its meaning.
func requestView(r *bleve.SearchRequest) string {
	var so []string
	for _, s := range r.Sort {
		so = append(so, sortView(s))
	}
	hl := "nil"
	if r.Highlight != nil {
		st := "<nil>"
		if r.Highlight.Style != nil {
			st = *r.Highlight.Style
		}
		hl = fmt.Sprintf("style=%s fields=%v", st, r.Highlight.Fields)
	}
	var fs []string
	for name, f := range r.Facets {
		b, _ := json.Marshal(f)
		fs = append(fs, name+"="+string(b))
	}
	sort.Strings(fs)
	qj, _ := json.Marshal(r.Query)
	return fmt.Sprintf("query=%s size=%d from=%d explain=%v locations=%v score=%q sort=[%s] highlight={%s} fields=%v facets=[%s] after=%v before=%v",
		qj, r.Size, r.From, r.Explain, r.IncludeLocations, r.Score, strings.Join(so, ","), hl, r.Fields, strings.Join(fs, ","), r.SearchAfter, r.SearchBefore)
}

// checkRequest: a search request, marshalled, key set compared with the
// model's, parsed back, settings compared, re-marshalled, both executed.
func checkRequest(idx bleve.Index, spec reqSpec, wantKeys []string, wantSort []sortJSON, variant int) []jsonProblem {
	var probs []jsonProblem
	req := buildRequest(spec, variant)
	j1, err := json.Marshal(req)
	if err != nil {
		return []jsonProblem{{"request-marshal-fails", err.Error()}}
	}
	var top map[string]json.RawMessage
	if err := json.Unmarshal(j1, &top); err != nil {
		return []jsonProblem{{"request-not-an-object", string(j1)}}
	}
	got := []string{}
	for k := range top {
		if k != "query" {
			got = append(got, k)
		}
	}
	sort.Strings(got)
	want := append([]string{}, wantKeys...)
	sort.Strings(want)
	if !reflect.DeepEqual(got, want) {
		probs = append(probs, jsonProblem{"DRIFT", fmt.Sprintf("request marshals with keys %v, QueryJSON!ReqToJSON says %v; JSON %s", got, want, j1)})
	} else {
		var elems []json.RawMessage
		_ = json.Unmarshal(top["sort"], &elems)
		if len(elems) != len(wantSort) {
			probs = append(probs, jsonProblem{"DRIFT", fmt.Sprintf("request sort has %d elements, model %d", len(elems), len(wantSort))})
		} else {
			for i := range elems {
				if mj := modelSortJSONBytes(wantSort[i]); !bytes.Equal(mj, elems[i]) {
					probs = append(probs, jsonProblem{"DRIFT", fmt.Sprintf("request sort element %d marshals as %s, model says %s", i, elems[i], mj)})
				}
			}
		}
	}
	var back bleve.SearchRequest
	if err := json.Unmarshal(j1, &back); err != nil {
		return append(probs, jsonProblem{"request-parse-back-fails", fmt.Sprintf("request JSON %s does not parse: %v", j1, err)})
	}
	if v1, v2 := requestView(req), requestView(&back); v1 != v2 {
		probs = append(probs, jsonProblem{"request-roundtrip-differs", fmt.Sprintf("request settings differ after the JSON round trip\n original:   %s\n round trip: %s", v1, v2)})
	}
	j2, err := json.Marshal(&back)
	if err != nil {
		return append(probs, jsonProblem{"request-remarshal-fails", err.Error()})
	}
	if !bytes.Equal(j1, j2) {
		probs = append(probs, jsonProblem{"request-remarshal-differs", fmt.Sprintf("request re-marshals differently\n first:  %s\n second: %s", j1, j2)})
	}
	r1, r2 := runRequest(idx, req), runRequest(idx, &back)
	if r1 != r2 {
		probs = append(probs, jsonProblem{"request-results-differ", fmt.Sprintf("request and its JSON round trip return different results; JSON %s\n original:   %.600s\n round trip: %.600s", j1, r1.View, r2.View)})
	}
	// the hand-written form: a key whose value is the documented default is left out
	// (QueryJSON!ReqFromJSON: sort missing -> [-_score], size missing -> 10, from missing -> 0).
	// Before it, a request of the same sparse form that FAILS (search_before with the default
	// sort, a query naming an analyzer that does not exist): one request's failure must not
	// change what the next parsed request means.
	if ss, ok := singleScoreDesc(req.Sort); ok && ss {
		var poison bleve.SearchRequest
		if err := json.Unmarshal([]byte(`{"query":{"match":"cat","field":"t","analyzer":"verif-no-such-analyzer"},"search_before":["1"]}`), &poison); err == nil {
			_, _ = idx.Search(&poison)
		}
		sparse := map[string]json.RawMessage{}
		for k, v := range top {
			sparse[k] = v
		}
		delete(sparse, "sort")
		if req.Size == 10 {
			delete(sparse, "size")
		}
		if req.From == 0 {
			delete(sparse, "from")
		}
		j3, _ := json.Marshal(sparse)
		var back3 bleve.SearchRequest
		if err := json.Unmarshal(j3, &back3); err != nil {
			return append(probs, jsonProblem{"request-sparse-parse-fails", fmt.Sprintf("request JSON %s does not parse: %v", j3, err)})
		}
		if v1, v3 := requestView(req), requestView(&back3); v1 != v3 {
			probs = append(probs, jsonProblem{"request-sparse-differs", fmt.Sprintf("request settings differ when default-valued keys are left out of the JSON\n original: %s\n parsed:   %s", v1, v3)})
		}
		if r3 := runRequest(idx, &back3); r1 != r3 {
			probs = append(probs, jsonProblem{"request-sparse-results-differ", fmt.Sprintf("request and its JSON form without the default-valued keys return different results; JSON %s\n original: %.600s\n parsed:   %.600s", j3, r1.View, r3.View)})
		}
	}
	return probs
}

// singleScoreDesc: the sort is the default one (score, descending).
func singleScoreDesc(so search.SortOrder) (bool, bool) {
	if len(so) != 1 {
		return false, true
	}
	sc, ok := so[0].(*search.SortScore)
	return ok && sc.Desc, true
}
