// Package c06 checks property C06 ("hits are the requested slice of the fully
// sorted match list") by binding spec/Collector.tla + spec/CollectorOps.tla
// to the real TopN collector (Engine A) and to Index.Search on real indexes
// (Engine B, judged by spec/trace/JudgeCollector.tla).
package c06

import (
	"fmt"
	"strconv"

	"github.com/blevesearch/bleve/v2/search"

	"verif/harness/internal/tlaval"
)

// values of the specification (CollectorOps.tla)
const (
	specLow  = -1
	specHigh = 1000000
)

// KeySpec is one sort key of the specification.
type KeySpec struct {
	Kind   string `json:"kind"` // score | id | field
	F      int    `json:"f"`
	Desc   bool   `json:"desc"`
	MFirst bool   `json:"mfirst"`
	Mode   string `json:"mode"` // first | min | max
}

// Match is one arriving match: external id, score, values per sort field.
type Match struct {
	ID int     `json:"id"`
	S  int     `json:"s"`
	K  [][]int `json:"k"`
}

// Request is one search request in the vocabulary of the specification.
type Request struct {
	Sort []KeySpec `json:"sort"`
	Size int       `json:"size"`
	Skip int       `json:"skip"`
	Mode string    `json:"mode"` // page | after | before
	Key  [][]int   `json:"key"`  // [] or [tuple]
}

// Expect holds the values the specification computed for a state.
type Expect struct {
	Store    []int `json:"store"`
	Lowest   []int `json:"lowest"`
	Total    int   `json:"total"`
	MaxScore int   `json:"max_score"`
	Results  []int `json:"results"`
	Hits     []int `json:"hits"`
}

// Case = request + arrivals + expectation (one TLC state).
type Case struct {
	Rq   Request `json:"rq"`
	Seen []Match `json:"seen"`
	Exp  Expect  `json:"exp"`
}

func (r Request) total() bool {
	for _, k := range r.Sort {
		if k.Kind == "id" {
			return true
		}
	}
	return false
}

func ints(v any) []int {
	l := tlaval.List(v)
	out := make([]int, len(l))
	for i, e := range l {
		out[i] = tlaval.Int(e)
	}
	return out
}

func parseRequest(v any) Request {
	m := tlaval.Map(v)
	rq := Request{Size: tlaval.Int(m["size"]), Skip: tlaval.Int(m["skip"]), Mode: tlaval.Str(m["mode"]), Key: [][]int{}}
	for _, ks := range tlaval.List(m["sort"]) {
		km := tlaval.Map(ks)
		rq.Sort = append(rq.Sort, KeySpec{Kind: tlaval.Str(km["kind"]), F: tlaval.Int(km["f"]),
			Desc: tlaval.Bool(km["desc"]), MFirst: tlaval.Bool(km["mfirst"]), Mode: tlaval.Str(km["mode"])})
	}
	for _, k := range tlaval.List(m["key"]) {
		rq.Key = append(rq.Key, ints(k))
	}
	return rq
}

func parseSeen(v any) []Match {
	var out []Match
	for _, e := range tlaval.List(v) {
		m := tlaval.Map(e)
		mt := Match{ID: tlaval.Int(m["id"]), S: tlaval.Int(m["s"])}
		for _, vs := range tlaval.List(m["k"]) {
			mt.K = append(mt.K, ints(vs))
		}
		out = append(out, mt)
	}
	return out
}

func parseExpect(st tlaval.State) Expect {
	return Expect{Store: ints(st["store"]), Lowest: ints(st["lowest"]), Total: tlaval.Int(st["total"]),
		MaxScore: tlaval.Int(st["maxScore"]), Results: ints(st["results"]), Hits: ints(st["hits"])}
}

func parseCase(st tlaval.State) (c Case, err error) {
	defer func() {
		if r := recover(); r != nil {
			err = fmt.Errorf("cannot interpret TLC state: %v", r)
		}
	}()
	for _, v := range []string{"rq", "seen", "store", "lowest", "total", "maxScore", "results", "hits"} {
		if _, ok := st[v]; !ok {
			return c, fmt.Errorf("TLC state lacks variable %s", v)
		}
	}
	c.Rq = parseRequest(st["rq"])
	c.Seen = parseSeen(st["seen"])
	c.Exp = parseExpect(st)
	return c, nil
}

// ---- encoding of specification values into bleve values

func fieldName(f int) string { return "f" + strconv.Itoa(f) }

// term of a field value: order-preserving for 0 <= v < 100
func fieldTerm(v int) string { return fmt.Sprintf("v%02d", v) }

func idString(id int) string { return fmt.Sprintf("d%04d", id) }

// encoded sort value (as found in DocumentMatch.Sort / given as search-after key)
func keyString(ks KeySpec, v int) string {
	switch ks.Kind {
	case "score":
		return strconv.FormatFloat(float64(v), 'f', -1, 64)
	case "id":
		return idString(v)
	}
	switch v {
	case specLow:
		return search.LowTerm
	case specHigh:
		return search.HighTerm
	}
	return fieldTerm(v)
}

func buildSort(spec []KeySpec, fieldOf func(f int) (string, search.SortFieldType)) search.SortOrder {
	var so search.SortOrder
	for _, ks := range spec {
		switch ks.Kind {
		case "score":
			so = append(so, &search.SortScore{Desc: ks.Desc})
		case "id":
			so = append(so, &search.SortDocID{Desc: ks.Desc})
		default:
			name, typ := fieldOf(ks.F)
			sf := &search.SortField{Field: name, Desc: ks.Desc, Type: typ}
			switch ks.Mode {
			case "min":
				sf.Mode = search.SortFieldMin
			case "max":
				sf.Mode = search.SortFieldMax
			default:
				sf.Mode = search.SortFieldDefault
			}
			if ks.MFirst {
				sf.Missing = search.SortFieldMissingFirst
			} else {
				sf.Missing = search.SortFieldMissingLast
			}
			so = append(so, sf)
		}
	}
	return so
}

func sortLabel(spec []KeySpec) string {
	s := ""
	for i, ks := range spec {
		if i > 0 {
			s += ","
		}
		if ks.Desc {
			s += "-"
		}
		switch ks.Kind {
		case "score":
			s += "_score"
		case "id":
			s += "_id"
		default:
			s += fieldName(ks.F)
			if ks.MFirst {
				s += "^"
			}
			if ks.Mode != "first" {
				s += ":" + ks.Mode
			}
		}
	}
	return s
}

func eqInts(a, b []int) bool {
	if len(a) != len(b) {
		return false
	}
	for i := range a {
		if a[i] != b[i] {
			return false
		}
	}
	return true
}

func sameSet(a, b []int) bool {
	if len(a) != len(b) {
		return false
	}
	m := map[int]int{}
	for _, x := range a {
		m[x]++
	}
	for _, x := range b {
		m[x]--
	}
	for _, n := range m {
		if n != 0 {
			return false
		}
	}
	return true
}
