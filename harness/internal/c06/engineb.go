package c06

import (
	"context"
	"encoding/json"
	"fmt"
	"math/rand"
	"sort"
	"strconv"
	"strings"
	"sync"
	"sync/atomic"
	"time"

	"github.com/blevesearch/bleve/v2"
	"github.com/blevesearch/bleve/v2/analysis/analyzer/keyword"
	"github.com/blevesearch/bleve/v2/analysis/analyzer/simple"
	"github.com/blevesearch/bleve/v2/index/scorch"
	"github.com/blevesearch/bleve/v2/mapping"
	"github.com/blevesearch/bleve/v2/search"
	"github.com/blevesearch/bleve/v2/search/query"
	index "github.com/blevesearch/bleve_index_api"

	"verif/harness/internal/core"
)

// ---- Engine B: real indexes, Index.Search, pages judged by TLC

// BDoc is a document whose sort keys are known by construction.
// f1: keyword field, possibly multi-valued (only sorted with mode min/max);
// f2: keyword field, single-valued; f3: numeric field, single-valued.
// Values are even integers so that odd integers are "between" keys.
type BDoc struct {
	ID  int   `json:"id"`
	F1  []int `json:"f1"`
	F2  []int `json:"f2"`
	F3  []int `json:"f3"`
	F4  []int `json:"f4"` // date field, single-valued: value v is dateOf(v), with a sub-second part
	TFx int   `json:"tfx"`
	TFz int   `json:"tfz"`
	Pad int   `json:"pad"`
}

// BOp is one operation of a batch.
type BOp struct {
	Del bool `json:"del"`
	Doc BDoc `json:"doc"`
}

// BIndex is the recipe of an index (rebuilt identically for --replay).
type BIndex struct {
	Kind    string  `json:"kind"` // scorch | upsidedown
	Batches [][]BOp `json:"batches"`
}

func (d BDoc) body() string {
	var w []string
	for i := 0; i < d.TFx; i++ {
		w = append(w, "x")
	}
	for i := 0; i < d.TFz; i++ {
		w = append(w, "z")
	}
	for i := 0; i < d.Pad; i++ {
		w = append(w, "y")
	}
	if len(w) == 0 {
		w = append(w, "y")
	}
	return strings.Join(w, " ")
}

func (d BDoc) fields() map[string]interface{} {
	m := map[string]interface{}{"body": d.body()}
	strs := func(vs []int) interface{} {
		if len(vs) == 1 {
			return fieldTerm(vs[0])
		}
		out := make([]interface{}, len(vs))
		for i, v := range vs {
			out[i] = fieldTerm(v)
		}
		return out
	}
	if len(d.F1) > 0 {
		m["f1"] = strs(d.F1)
	}
	if len(d.F2) > 0 {
		m["f2"] = strs(d.F2)
	}
	if len(d.F3) > 0 {
		m["f3"] = float64(d.F3[0])
	}
	if len(d.F4) > 0 {
		m["f4"] = dateOf(d.F4[0])
	}
	return m
}

// dateOf: value v of the date field (sub-second part: date-typed sort keys are
// RFC3339Nano strings in SearchAfter / SearchBefore cursors)
func dateOf(v int) time.Time {
	return time.Date(2020, 1, 1, 0, 0, v, 250000000+v*1000, time.UTC)
}

func bMapping() mapping.IndexMapping {
	im := bleve.NewIndexMapping()
	dm := bleve.NewDocumentStaticMapping()
	kw := func() *mapping.FieldMapping {
		f := bleve.NewTextFieldMapping()
		f.Analyzer = keyword.Name
		f.Store = false
		f.IncludeInAll = false
		f.IncludeTermVectors = false
		f.DocValues = true
		return f
	}
	dm.AddFieldMappingsAt("f1", kw())
	dm.AddFieldMappingsAt("f2", kw())
	nf := bleve.NewNumericFieldMapping()
	nf.Store = false
	nf.IncludeInAll = false
	nf.DocValues = true
	dm.AddFieldMappingsAt("f3", nf)
	df := bleve.NewDateTimeFieldMapping()
	df.Store = false
	df.IncludeInAll = false
	df.DocValues = true
	dm.AddFieldMappingsAt("f4", df)
	body := bleve.NewTextFieldMapping()
	body.Analyzer = simple.Name
	body.Store = false
	body.IncludeInAll = false
	dm.AddFieldMappingsAt("body", body)
	im.DefaultMapping = dm
	return im
}

// bMappingMixed: two document types map the SAME field names, type "A" with doc
// values and type "B" without; batches are homogeneous (the type follows the batch
// number), so segments that hold the sort fields as doc values alternate with
// segments that hold them in the inverted index only.
func bMappingMixed() mapping.IndexMapping {
	im := bleve.NewIndexMapping()
	for _, t := range []struct {
		name string
		dv   bool
	}{{"A", true}, {"B", false}} {
		dm := bleve.NewDocumentStaticMapping()
		kw := func() *mapping.FieldMapping {
			f := bleve.NewTextFieldMapping()
			f.Analyzer = keyword.Name
			f.Store = false
			f.IncludeInAll = false
			f.IncludeTermVectors = false
			f.DocValues = t.dv
			return f
		}
		dm.AddFieldMappingsAt("f1", kw())
		dm.AddFieldMappingsAt("f2", kw())
		nf := bleve.NewNumericFieldMapping()
		nf.Store = false
		nf.IncludeInAll = false
		nf.DocValues = t.dv
		dm.AddFieldMappingsAt("f3", nf)
		df := bleve.NewDateTimeFieldMapping()
		df.Store = false
		df.IncludeInAll = false
		df.DocValues = t.dv
		dm.AddFieldMappingsAt("f4", df)
		body := bleve.NewTextFieldMapping()
		body.Analyzer = simple.Name
		body.Store = false
		body.IncludeInAll = false
		dm.AddFieldMappingsAt("body", body)
		im.AddDocumentMapping(t.name, dm)
	}
	im.TypeField = "kind"
	im.DefaultType = "A"
	return im
}

func buildIndex(rec BIndex) (bleve.Index, map[int]BDoc, error) {
	var idx bleve.Index
	var err error
	switch rec.Kind {
	case "scorch-mixed-dv":
		idx, err = bleve.NewUsing("", bMappingMixed(), scorch.Name, scorch.Name, nil)
	case "scorch", "scorch-big":
		idx, err = bleve.NewUsing("", bMapping(), scorch.Name, scorch.Name, nil)
	case "upsidedown":
		idx, err = bleve.NewMemOnly(bMapping())
	default:
		err = fmt.Errorf("unknown index kind %q", rec.Kind)
	}
	if err != nil {
		return nil, nil, err
	}
	live := map[int]BDoc{}
	for bi, ops := range rec.Batches {
		b := idx.NewBatch()
		for _, op := range ops {
			if op.Del {
				b.Delete(idString(op.Doc.ID))
				delete(live, op.Doc.ID)
			} else {
				fields := op.Doc.fields()
				if rec.Kind == "scorch-mixed-dv" {
					fields["kind"] = []string{"A", "B"}[bi%2]
				}
				if err := b.Index(idString(op.Doc.ID), fields); err != nil {
					idx.Close()
					return nil, nil, err
				}
				live[op.Doc.ID] = op.Doc
			}
		}
		if err := idx.Batch(b); err != nil {
			idx.Close()
			return nil, nil, err
		}
	}
	return idx, live, nil
}

func genIndex(rng *rand.Rand, kind string, ndocs int) BIndex {
	rec := BIndex{Kind: kind}
	vals := []int{0, 2, 4}
	mk := func(id int) BDoc {
		d := BDoc{ID: id, F1: []int{}, F2: []int{}, F3: []int{}, F4: []int{}}
		switch r := rng.Intn(10); {
		case r < 2: // missing
		case r < 7:
			d.F1 = []int{vals[rng.Intn(3)]}
		default:
			a, b := vals[rng.Intn(3)], vals[rng.Intn(3)]
			for b == a {
				b = vals[rng.Intn(3)]
			}
			d.F1 = []int{a, b}
		}
		if rng.Intn(4) > 0 {
			d.F2 = []int{vals[rng.Intn(2)]}
		}
		if rng.Intn(4) > 0 {
			d.F3 = []int{2 + 2*rng.Intn(3)}
		}
		if rng.Intn(4) > 0 {
			d.F4 = []int{2 + 2*rng.Intn(4)}
		}
		d.TFx = rng.Intn(4)
		d.TFz = rng.Intn(3) / 2
		d.Pad = rng.Intn(3)
		if kind == "scorch-big" {
			// few matches among many documents: the matches of one query lie in
			// different doc-value chunks (1024 documents each) of ONE segment
			if rng.Intn(40) > 0 {
				d.TFx = 0
			}
			if rng.Intn(90) > 0 {
				d.TFz = 0
			}
		}
		return d
	}
	perm := rng.Perm(ndocs)
	nb := 1 + rng.Intn(4)
	if kind == "scorch-big" {
		nb = 1
	}
	batches := make([][]BOp, nb)
	for i, p := range perm {
		b := i * nb / ndocs
		batches[b] = append(batches[b], BOp{Doc: mk(p + 1)})
	}
	// a later batch re-indexes some documents (they move in the natural order
	// of scorch) and deletes a few
	if kind != "scorch-big" && rng.Intn(3) > 0 {
		var ops []BOp
		for i := 0; i < 1+ndocs/6; i++ {
			id := 1 + rng.Intn(ndocs)
			if rng.Intn(3) == 0 {
				ops = append(ops, BOp{Del: true, Doc: BDoc{ID: id}})
			} else {
				ops = append(ops, BOp{Doc: mk(id)})
			}
		}
		batches = append(batches, ops)
	}
	rec.Batches = batches
	return rec
}

// ---- queries with match sets known by construction

type bQuery struct {
	Name    string
	Q       func() query.Query
	Matches func(d BDoc) bool
}

var bQueries = []bQuery{
	{"match_all", func() query.Query { return bleve.NewMatchAllQuery() }, func(d BDoc) bool { return true }},
	{"term_x", func() query.Query { q := bleve.NewTermQuery("x"); q.SetField("body"); return q }, func(d BDoc) bool { return d.TFx > 0 }},
	{"x_or_z", func() query.Query {
		a := bleve.NewTermQuery("x")
		a.SetField("body")
		b := bleve.NewTermQuery("z")
		b.SetField("body")
		return bleve.NewDisjunctionQuery(a, b)
	}, func(d BDoc) bool { return d.TFx > 0 || d.TFz > 0 }},
	{"x_and_y", func() query.Query {
		a := bleve.NewTermQuery("x")
		a.SetField("body")
		b := bleve.NewTermQuery("y")
		b.SetField("body")
		return bleve.NewConjunctionQuery(a, b)
	}, func(d BDoc) bool { return d.TFx > 0 && d.Pad > 0 }},
	{"none", func() query.Query { q := bleve.NewTermQuery("absent"); q.SetField("body"); return q }, func(d BDoc) bool { return false }},
}

func queryByName(n string) *bQuery {
	for i := range bQueries {
		if bQueries[i].Name == n {
			return &bQueries[i]
		}
	}
	return nil
}

type arrival struct {
	ID    int
	Score float64
}

// drain runs the query's searcher directly (no collector) and returns the
// matches in arrival order with their scores.
func drain(idx bleve.Index, q query.Query) ([]arrival, error) {
	adv, err := idx.Advanced()
	if err != nil {
		return nil, err
	}
	r, err := adv.Reader()
	if err != nil {
		return nil, err
	}
	defer r.Close()
	ctx := context.WithValue(context.Background(), search.GetScoringModelCallbackKey,
		search.GetScoringModelCallbackFn(func() string { return index.DefaultScoringModel }))
	s, err := q.Searcher(ctx, r, idx.Mapping(), search.SearcherOptions{})
	if err != nil {
		return nil, err
	}
	defer s.Close()
	sc := &search.SearchContext{DocumentMatchPool: search.NewDocumentMatchPool(s.DocumentMatchPoolSize()+8, 0), IndexReader: r}
	var out []arrival
	for {
		dm, err := s.Next(sc)
		if err != nil {
			return nil, err
		}
		if dm == nil {
			break
		}
		ext, err := r.ExternalID(dm.IndexInternalID)
		if err != nil {
			return nil, err
		}
		id, err := parseID(ext)
		if err != nil {
			return nil, err
		}
		out = append(out, arrival{ID: id, Score: dm.Score})
		sc.DocumentMatchPool.Put(dm)
	}
	return out, nil
}

func parseID(s string) (int, error) {
	if len(s) < 2 || s[0] != 'd' {
		return 0, fmt.Errorf("unexpected document id %q", s)
	}
	return strconv.Atoi(s[1:])
}

// ---- requests

func bField(f int) (string, search.SortFieldType) {
	switch f {
	case 2:
		return "f2", search.SortFieldAsString
	case 3:
		return "f3", search.SortFieldAsNumber
	case 4:
		return "f4", search.SortFieldAsDate
	}
	return "f1", search.SortFieldAuto
}

func genSort(rng *rand.Rand, needTotal bool) []KeySpec {
	mk := func() KeySpec {
		switch rng.Intn(7) {
		case 6:
			return KeySpec{Kind: "field", F: 4, Desc: rng.Intn(2) == 0, MFirst: rng.Intn(2) == 0, Mode: "first"}
		case 0:
			return KeySpec{Kind: "score", Desc: rng.Intn(3) > 0, Mode: "first"}
		case 1:
			return KeySpec{Kind: "id", Desc: rng.Intn(2) == 0, Mode: "first"}
		case 2, 3:
			return KeySpec{Kind: "field", F: 1, Desc: rng.Intn(2) == 0, MFirst: rng.Intn(2) == 0, Mode: []string{"min", "max"}[rng.Intn(2)]}
		case 4:
			return KeySpec{Kind: "field", F: 2, Desc: rng.Intn(2) == 0, MFirst: rng.Intn(2) == 0, Mode: []string{"first", "min", "max"}[rng.Intn(3)]}
		}
		return KeySpec{Kind: "field", F: 3, Desc: rng.Intn(2) == 0, MFirst: rng.Intn(2) == 0, Mode: "first"}
	}
	n := 1 + rng.Intn(3)
	var out []KeySpec
	used := map[string]bool{}
	for len(out) < n {
		k := mk()
		tag := k.Kind + strconv.Itoa(k.F)
		if used[tag] {
			continue
		}
		used[tag] = true
		out = append(out, k)
		if k.Kind == "id" {
			break // keys after _id never matter
		}
	}
	if needTotal && !used["id0"] {
		out = append(out, KeySpec{Kind: "id", Desc: rng.Intn(2) == 0, Mode: "first"})
	}
	return out
}

func pick(rng *rand.Rand, xs ...int) int { return xs[rng.Intn(len(xs))] }

func clampNonNeg(x int) int {
	if x < 0 {
		return 0
	}
	return x
}

// specValue is the encoded sort value of the specification (CollectorOps!SortValue)
// for one key, computed only to name a hit's key as a search-after key; the
// order semantics stay in TLA+.
func specKeyOfHit(ks KeySpec, m Match) (int, bool) {
	switch ks.Kind {
	case "score":
		return m.S, true
	case "id":
		return m.ID, true
	}
	vs := m.K[ks.F-1]
	if len(vs) == 0 {
		return 0, false // missing: the caller decides how to name it
	}
	v := vs[0]
	for _, x := range vs {
		if ks.Mode == "min" && x < v || ks.Mode == "max" && x > v {
			v = x
		}
	}
	return v, true
}

type bRecord struct {
	Index   int            `json:"-"`
	Query   string         `json:"-"`
	Rq      Request        `json:"-"`
	KeyStrs []string       `json:"-"`
	Rec     map[string]any `json:"-"`
}

type bGroup struct {
	rec   BIndex
	idx   bleve.Index
	live  map[int]BDoc
	seen  map[string][]Match // per query: arrivals with rank scores
	score map[string]map[int]float64
	ranks map[string][]float64 // sorted distinct scores
}

func rankOf(sorted []float64, v float64) int {
	for i, x := range sorted {
		if x == v {
			return i + 1
		}
	}
	return -1
}

func (g *bGroup) prepare(c *core.Ctx) error {
	g.seen = map[string][]Match{}
	g.score = map[string]map[int]float64{}
	g.ranks = map[string][]float64{}
	for _, bq := range bQueries {
		arr, err := drain(g.idx, bq.Q())
		if err != nil {
			return fmt.Errorf("engine B: draining searcher of %s: %v", bq.Name, err)
		}
		// the arrivals must be the constructed match set (C02 territory: if not,
		// the reference is unusable, not a C06 verdict)
		want := map[int]bool{}
		for id, d := range g.live {
			if bq.Matches(d) {
				want[id] = true
			}
		}
		got := map[int]bool{}
		for _, a := range arr {
			if got[a.ID] {
				return fmt.Errorf("engine B: searcher of %s yields document %d twice", bq.Name, a.ID)
			}
			got[a.ID] = true
		}
		if len(got) != len(want) {
			return fmt.Errorf("engine B: searcher of %s yields %d matches, construction says %d", bq.Name, len(got), len(want))
		}
		for id := range want {
			if !got[id] {
				return fmt.Errorf("engine B: searcher of %s misses document %d", bq.Name, id)
			}
		}
		dist := map[float64]bool{}
		sm := map[int]float64{}
		for _, a := range arr {
			dist[a.Score] = true
			sm[a.ID] = a.Score
		}
		var sorted []float64
		for v := range dist {
			sorted = append(sorted, v)
		}
		sort.Float64s(sorted)
		var seen []Match
		for _, a := range arr {
			d := g.live[a.ID]
			seen = append(seen, Match{ID: a.ID, S: rankOf(sorted, a.Score), K: [][]int{d.F1, d.F2, d.F3, d.F4}})
		}
		g.seen[bq.Name] = seen
		g.score[bq.Name] = sm
		g.ranks[bq.Name] = sorted
	}
	return nil
}

// keyStrings renders a specification key for the real API.
func (g *bGroup) keyStrings(qname string, sortSpec []KeySpec, key []int) ([]string, error) {
	out := make([]string, len(sortSpec))
	for i, ks := range sortSpec {
		v := key[i]
		switch {
		case ks.Kind == "score":
			r := g.ranks[qname]
			if v < 1 || v > len(r) {
				return nil, fmt.Errorf("score rank %d out of range", v)
			}
			out[i] = strconv.FormatFloat(r[v-1], 'g', -1, 64)
		case ks.Kind == "id":
			out[i] = idString(v)
		case ks.F == 3:
			if v == specLow || v == specHigh {
				return nil, fmt.Errorf("numeric search-after key cannot name a missing value")
			}
			out[i] = strconv.Itoa(v)
		case ks.F == 4:
			if v == specLow || v == specHigh {
				return nil, fmt.Errorf("date search-after key cannot name a missing value")
			}
			out[i] = dateOf(v).Format(time.RFC3339Nano)
		default:
			out[i] = keyString(ks, v)
		}
	}
	return out, nil
}

func missingValue(ks KeySpec) int {
	// CollectorOps!FieldValue for a missing field
	if !ks.MFirst {
		if ks.Desc {
			return specLow
		}
		return specHigh
	}
	if ks.Desc {
		return specHigh
	}
	return specLow
}

func (g *bGroup) genRequest(rng *rand.Rand, qname string) (Request, []string) {
	seen := g.seen[qname]
	n := len(seen)
	if rng.Intn(5) < 3 || n == 0 {
		rq := Request{Sort: genSort(rng, rng.Intn(3) == 0), Mode: "page", Key: [][]int{}}
		rq.Size = clampNonNeg(pick(rng, 0, 1, 2, 3, 5, 9, 10, 11, 12, n-1, n, n+3))
		rq.Skip = clampNonNeg(pick(rng, 0, 0, 1, 2, 3, n-2, n-1, n, n+1, 10-rq.Size, 11-rq.Size, 9, 10, 11))
		return rq, nil
	}
	for {
		rq := Request{Sort: genSort(rng, true), Mode: []string{"after", "before"}[rng.Intn(2)]}
		rq.Size = clampNonNeg(pick(rng, 1, 1, 2, 3, 5, 10, 11, 12, n))
		h := seen[rng.Intn(n)]
		key := make([]int, len(rq.Sort))
		for i, ks := range rq.Sort {
			v, ok := specKeyOfHit(ks, h)
			if !ok {
				if ks.F == 3 || ks.F == 4 {
					v = pick(rng, 1, 2, 3, 4, 5, 6, 7) // a numeric / date key cannot name "missing"
				} else {
					v = missingValue(ks)
				}
			} else if rng.Intn(6) == 0 && ks.Kind != "score" {
				v += pick(rng, -1, 1) // a key between / outside the values present
				if v < 0 {
					v = 1
				}
			}
			key[i] = v
		}
		rq.Key = [][]int{key}
		strs, err := g.keyStrings(qname, rq.Sort, key)
		if err != nil {
			continue
		}
		return rq, strs
	}
}

type bObserved struct {
	Hits     []int
	Total    int
	MaxScore float64
	Scores   []float64
	// the last hit's sort key as the hit itself renders it for a cursor (DecodedSort
	// where bleve provides it, else Sort)
	LastCursor []string
}

func (g *bGroup) search(qname string, rq Request, keyStrs []string) (obs bObserved, err error) {
	defer func() {
		if r := recover(); r != nil {
			err = fmt.Errorf("panic in Index.Search: %v", r)
		}
	}()
	bq := queryByName(qname)
	req := bleve.NewSearchRequestOptions(bq.Q(), rq.Size, 0, false)
	req.SortByCustom(buildSort(rq.Sort, bField))
	switch rq.Mode {
	case "page":
		req.From = rq.Skip
	case "after":
		req.SetSearchAfter(keyStrs)
	case "before":
		req.SetSearchBefore(keyStrs)
	}
	if rq.Mode == "page" && (rq.Skip+rq.Size)%2 == 0 {
		// the SAME request object is used first for a SearchBefore whose page is empty (the
		// cursor is the very first hit of the ordering), then for the page itself: a search
		// must leave the caller's request as it found it
		first := bleve.NewSearchRequestOptions(bq.Q(), 1, 0, false)
		first.SortByCustom(buildSort(rq.Sort, bField))
		if fr, ferr := g.idx.Search(first); ferr == nil && len(fr.Hits) == 1 {
			cur := fr.Hits[0].Sort
			if len(fr.Hits[0].DecodedSort) == len(cur) {
				cur = fr.Hits[0].DecodedSort
			}
			from := req.From
			req.From = 0
			req.SetSearchBefore(append([]string{}, cur...))
			if _, berr := g.idx.Search(req); berr == nil {
				atomic.AddInt64(&reusedRequests, 1)
			}
			req.SearchBefore = nil
			req.From = from
		}
	}
	res, err := g.idx.Search(req)
	if err != nil {
		return bObserved{}, err
	}
	obs = bObserved{Total: int(res.Total), MaxScore: res.MaxScore, Hits: []int{}}
	for _, h := range res.Hits {
		id, err := parseID(h.ID)
		if err != nil {
			return obs, err
		}
		obs.Hits = append(obs.Hits, id)
		obs.Scores = append(obs.Scores, h.Score)
		obs.LastCursor = append([]string{}, h.Sort...)
		if len(h.DecodedSort) == len(h.Sort) {
			obs.LastCursor = append([]string{}, h.DecodedSort...)
		}
	}
	return obs, nil
}

func (g *bGroup) record(qname string, rq Request, obs bObserved) map[string]any {
	maxs := 0
	if obs.MaxScore != 0 || len(g.seen[qname]) > 0 {
		maxs = rankOf(g.ranks[qname], obs.MaxScore)
	}
	seen := g.seen[qname]
	if seen == nil {
		seen = []Match{}
	}
	return map[string]any{
		"sort": rq.Sort, "seen": seen, "mode": rq.Mode, "size": rq.Size, "skip": rq.Skip, "key": rq.Key,
		"hits": obs.Hits, "total": obs.Total, "maxs": maxs,
	}
}

var reusedRequests, chainedCursors int64

type bArtefact struct {
	Index BIndex   `json:"index"`
	Query string   `json:"query"`
	Rq    Request  `json:"rq"`
	Keys  []string `json:"keys"`
}

func engineB(c *core.Ctx) error {
	rng := rand.New(rand.NewSource(c.Seed*7919 + 17))
	type plan struct {
		kind  string
		ndocs int
	}
	plans := []plan{{"scorch", 14}, {"scorch", 33}, {"upsidedown", 26}, {"scorch-mixed-dv", 24}, {"scorch-big", 2300}}
	if c.Thorough() {
		plans = []plan{{"scorch", 9}, {"scorch", 14}, {"scorch", 23}, {"scorch", 33}, {"scorch", 40}, {"scorch", 31},
			{"upsidedown", 12}, {"upsidedown", 26}, {"upsidedown", 37}, {"scorch-mixed-dv", 16}, {"scorch-mixed-dv", 24}, {"scorch-mixed-dv", 36},
			{"scorch-big", 1500}, {"scorch-big", 2300}, {"scorch-big", 3500}}
	}
	perQuery := c.Pick(45, 100)

	var groups []*bGroup
	defer func() {
		for _, g := range groups {
			g.idx.Close()
		}
	}()
	var recs []bRecord
	for gi, p := range plans {
		rec := genIndex(rng, p.kind, p.ndocs+rng.Intn(3))
		idx, live, err := buildIndex(rec)
		if err != nil {
			return fmt.Errorf("engine B: building %s index: %v", p.kind, err)
		}
		g := &bGroup{rec: rec, idx: idx, live: live}
		groups = append(groups, g)
		if err := g.prepare(c); err != nil {
			return err
		}
		for _, bq := range bQueries {
			n := perQuery
			if len(g.seen[bq.Name]) == 0 {
				n = 4
			}
			if p.kind == "scorch-big" {
				// the judge sorts the whole match list: only the sparse queries
				if len(g.seen[bq.Name]) > 120 {
					continue
				}
				n = perQuery / 3
			}
			for k := 0; k < n; k++ {
				rq, strs := g.genRequest(rng, bq.Name)
				obs, err := g.search(bq.Name, rq, strs)
				if err != nil {
					// a legal request failed (error, panic, hit without id): reproduce, then report
					if _, err2 := g.search(bq.Name, rq, strs); err2 != nil {
						c.Violation("B/search-error/"+rq.Mode, fmt.Sprintf("Index.Search fails on %s index, query %s, request %s: %v", g.rec.Kind, bq.Name, core.Canon(rq), err),
							map[string]any{"engine": "B", "b": bArtefact{Index: g.rec, Query: bq.Name, Rq: rq, Keys: strs}})
						c.Eval(1)
						continue
					}
					return fmt.Errorf("engine B: Search failed once (%s, %s): %v", bq.Name, core.Canon(rq), err)
				}
				// the reference scores must be the scores Search reports (else the
				// rank encoding would be meaningless)
				for i, id := range obs.Hits {
					if ref, ok := g.score[bq.Name][id]; ok && ref != obs.Scores[i] {
						c.Drift(fmt.Sprintf("B/score-reference: hit %d of %s has score %v in Search, %v from the drained searcher", id, bq.Name, obs.Scores[i], ref))
					}
				}
				recs = append(recs, bRecord{Index: gi, Query: bq.Name, Rq: rq, KeyStrs: strs, Rec: g.record(bq.Name, rq, obs)})
				c.Eval(1)
				// "SearchAfter started from any hit": the page after the last hit of this answer,
				// asked for with the cursor the hit itself carries; in model terms the cursor is
				// that hit's sort key
				if n := len(obs.Hits); n > 0 && rq.total() && len(obs.LastCursor) == len(rq.Sort) && rq.Mode != "before" {
					var last *Match
					for i := range g.seen[bq.Name] {
						if g.seen[bq.Name][i].ID == obs.Hits[n-1] {
							last = &g.seen[bq.Name][i]
						}
					}
					if last != nil {
						key := make([]int, len(rq.Sort))
						nameable := true
						for i, ks := range rq.Sort {
							v, ok := specKeyOfHit(ks, *last)
							if !ok {
								if ks.F == 3 || ks.F == 4 {
									nameable = false // a numeric / date cursor cannot name "missing"
								}
								v = missingValue(ks)
							}
							key[i] = v
						}
						if nameable {
							// a score key is not carried by the hit's sort values (they hold the literal
							// "_score", DESIGN 11.3 leads): the caller substitutes hit.Score
							for i, ks := range rq.Sort {
								if ks.Kind == "score" {
									obs.LastCursor[i] = strconv.FormatFloat(obs.Scores[n-1], 'g', -1, 64)
								}
							}
							rq2 := Request{Sort: rq.Sort, Size: rq.Size, Mode: "after", Key: [][]int{key}}
							if rq2.Size == 0 {
								rq2.Size = 2
							}
							if obs2, err := g.search(bq.Name, rq2, obs.LastCursor); err == nil {
								recs = append(recs, bRecord{Index: gi, Query: bq.Name, Rq: rq2, KeyStrs: obs.LastCursor, Rec: g.record(bq.Name, rq2, obs2)})
								c.Eval(1)
								atomic.AddInt64(&chainedCursors, 1)
							}
						}
					}
				}
				if len(g.seen[bq.Name]) >= 2 {
					c.Distinct(fmt.Sprintf("B|%d|%s|%s", gi, bq.Name, core.Canon(rq)))
				}
			}
		}
	}
	// one real record in the evidence
	for _, r := range recs {
		if r.Rq.Mode != "page" && len(tolist(r.Rec["hits"])) >= 2 {
			c.Sample(map[string]any{"engine": "B", "index": groups[r.Index].rec.Kind, "query": r.Query, "record": r.Rec, "search_key": r.KeyStrs})
			break
		}
	}

	// judge in chunks, in parallel; every chunk carries a corrupted canary
	// record that TLC must reject (vacuity guard)
	const chunk = 250
	const maxJudgeFail = 5 // rejected records reported per chunk (each costs one more TLC pass)
	type job struct{ lo, hi int }
	var jobs []job
	for lo := 0; lo < len(recs); lo += chunk {
		hi := lo + chunk
		if hi > len(recs) {
			hi = len(recs)
		}
		jobs = append(jobs, job{lo, hi})
	}
	var mu sync.Mutex
	var firstErr error
	var wg sync.WaitGroup
	sem := make(chan struct{}, 4)
	for _, j := range jobs {
		wg.Add(1)
		go func(j job) {
			defer wg.Done()
			sem <- struct{}{}
			defer func() { <-sem }()
			// records[0] is a neutral record (TLC reports a failure of the very first
			// record as "violated by the initial state" without a counterexample the
			// runtime can index), the last one is the canary
			records := []any{neutralRecord()}
			for _, r := range recs[j.lo:j.hi] {
				records = append(records, r.Rec)
			}
			records = append(records, canaryRecord())
			canary := len(records) - 1
			bad, err := c.JudgeRecords("JudgeCollector", "JudgeCollector.cfg", records, maxJudgeFail, core.Timeout(scaled(15*time.Minute)))
			mu.Lock()
			defer mu.Unlock()
			if err != nil {
				if firstErr == nil {
					firstErr = fmt.Errorf("engine B: judge: %v", err)
				}
				return
			}
			c.Traces(1)
			if bad[canary] != "RecHits" && len(bad) < maxJudgeFail {
				if firstErr == nil {
					firstErr = fmt.Errorf("engine B: the judge accepted the corrupted canary record, verdict %q", bad[canary])
				}
				return
			}
			delete(bad, canary)
			for bi, inv := range bad {
				if bi == 0 {
					if firstErr == nil {
						firstErr = fmt.Errorf("engine B: the judge rejected the neutral record (%s)", inv)
					}
					continue
				}
				r := recs[j.lo+bi-1]
				g := groups[r.Index]
				what := fmt.Sprintf("%s on %s index, query %s, request %s: hits %v total %v maxscore-rank %v rejected by judge invariant %s",
					r.Rq.Mode, g.rec.Kind, r.Query, core.Canon(r.Rq), r.Rec["hits"], r.Rec["total"], r.Rec["maxs"], inv)
				switch inv {
				case "RecHits", "RecTotal", "RecMaxScore":
					// reproduce on the still-open index
					obs, err := g.search(r.Query, r.Rq, r.KeyStrs)
					if err != nil || !eqInts(obs.Hits, tolist(r.Rec["hits"])) || obs.Total != r.Rec["total"].(int) {
						c.Inconclusive("engine B: rejected record did not reproduce: " + what)
						continue
					}
					c.Violation("B/"+inv+"/"+r.Rq.Mode, what, map[string]any{"engine": "B",
						"b": bArtefact{Index: g.rec, Query: r.Query, Rq: r.Rq, Keys: r.KeyStrs}, "record": r.Rec})
				case "RecModel":
					c.Drift("B/RecModel: the algorithm model computes other hits than the real search although the page is right: " + what)
				default:
					if firstErr == nil {
						firstErr = fmt.Errorf("engine B: judge rejected a record as %s (harness defect): %s", inv, what)
					}
				}
			}
		}(j)
	}
	wg.Wait()
	c.Extra("engineB_judge_note", "every record file starts with a neutral record and ends with a corrupted canary record; the first TLC pass over a file must reject the canary (ok=false in tlc_runs), the second pass judges the file without it")
	c.Extra("engineB_requests", len(recs))
	c.Extra("engineB_indexes", len(groups))
	return firstErr
}

func scoreDesc() []KeySpec { return []KeySpec{{Kind: "score", Desc: true, Mode: "first"}} }

// neutralRecord is accepted by every invariant of the judge.
func neutralRecord() map[string]any {
	return map[string]any{"sort": scoreDesc(), "seen": []Match{}, "mode": "page", "size": 1, "skip": 0,
		"key": [][]int{}, "hits": []int{}, "total": 0, "maxs": 0}
}

// canaryRecord must be rejected by RecHits: the two hits are swapped (the
// best-scoring match 3 has to come first).
func canaryRecord() map[string]any {
	e := [][]int{{}, {}, {}}
	return map[string]any{"sort": scoreDesc(), "seen": []Match{{ID: 1, S: 1, K: e}, {ID: 2, S: 1, K: e}, {ID: 3, S: 2, K: e}},
		"mode": "page", "size": 2, "skip": 0, "key": [][]int{}, "hits": []int{1, 3}, "total": 3, "maxs": 2}
}

func tolist(v any) []int {
	switch x := v.(type) {
	case []int:
		return x
	case []any:
		out := make([]int, len(x))
		for i, e := range x {
			switch n := e.(type) {
			case float64:
				out[i] = int(n)
			case int:
				out[i] = n
			}
		}
		return out
	}
	return nil
}

// replayB rebuilds the index of a saved violation, repeats the request and has
// TLC judge it again.
func replayB(c *core.Ctx, raw json.RawMessage) error {
	var art bArtefact
	if err := json.Unmarshal(raw, &art); err != nil {
		return err
	}
	idx, live, err := buildIndex(art.Index)
	if err != nil {
		return err
	}
	defer idx.Close()
	g := &bGroup{rec: art.Index, idx: idx, live: live}
	if err := g.prepare(c); err != nil {
		return err
	}
	if queryByName(art.Query) == nil {
		return fmt.Errorf("unknown query %q", art.Query)
	}
	obs, err := g.search(art.Query, art.Rq, art.Keys)
	if err != nil {
		c.Violation("B/search-error/"+art.Rq.Mode, fmt.Sprintf("replayed request %s fails: %v", core.Canon(art.Rq), err), map[string]any{"engine": "B", "b": art})
		return nil
	}
	rec := g.record(art.Query, art.Rq, obs)
	c.Eval(1)
	c.Sample(rec)
	bad, err := c.JudgeRecords("JudgeCollector", "JudgeCollector.cfg", []any{neutralRecord(), rec}, 1)
	if err != nil {
		return err
	}
	c.Traces(1)
	if inv, ok := bad[1]; ok {
		what := fmt.Sprintf("replayed %s request %s: hits %v total %v rejected by %s", art.Rq.Mode, core.Canon(art.Rq), rec["hits"], rec["total"], inv)
		if inv == "RecModel" {
			c.Drift(what)
		} else {
			c.Violation("B/"+inv+"/"+art.Rq.Mode, what, map[string]any{"engine": "B", "b": art, "record": rec})
		}
	} else {
		c.Logf("replay: the judge accepts the page now")
	}
	return nil
}
