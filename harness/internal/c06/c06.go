package c06

import (
	"encoding/json"
	"fmt"
	"os"
	"strings"
	"sync"
	"time"

	"github.com/blevesearch/bleve/v2/search/collector"

	"verif/harness/internal/core"
)

func init() {
	core.Register(&core.Check{Prop: "C06", Level: "model_checking", Run: run, Replay: replay})
}

var timeoutScale = 1

func scaled(d time.Duration) time.Duration { return d * time.Duration(timeoutScale) }

func currentCap() int { return collector.PreAllocSizeSkipCap }

func run(c *core.Ctx) error {
	c.SetRule("a case is non-trivial when at least two matches arrive (Engine A: one TLC state or simulated prefix = request + arrival sequence; " +
		"Engine B: one Index.Search request over a query with >= 2 matches); distinct by (request, arrival sequence) resp. (index, query, request)")
	c.SetExhaustive(true)
	c.Assume("Engine A trusts the synthetic searcher/reader to play the role of a real searcher (ascending internal ids, doc values visited in the listed order)")
	c.Assume("scores are small non-negative integers in Engine A; in Engine B real tf-idf floats are passed to TLC as dense ranks")
	c.Assume("a sort is treated as total iff it contains _id (ids are unique)")
	c.Assume("multi-valued fields with mode 'first' are only exercised in Engine A (the doc-value visiting order of a real index is not fixed by the property)")

	workers := 8
	if os.Getenv("VERIF_TLC_WORKERS") != "" {
		fmt.Sscanf(os.Getenv("VERIF_TLC_WORKERS"), "%d", &workers)
	}

	// VERIF_TIMEOUT_SCALE=<n> multiplies every TLC time limit (for runs on a heavily shared machine)
	if v := os.Getenv("VERIF_TIMEOUT_SCALE"); v != "" {
		fmt.Sscanf(v, "%d", &timeoutScale)
		if timeoutScale < 1 {
			timeoutScale = 1
		}
	}

	// development aid: VERIF_C06_PHASES=side,a,sim,b restricts the phases (default: all)
	phase := func(name string) bool {
		v := os.Getenv("VERIF_C06_PHASES")
		return v == "" || strings.Contains(","+v+",", ","+name+",")
	}
	if os.Getenv("VERIF_C06_PHASES") != "" {
		c.Assume("partial run: VERIF_C06_PHASES=" + os.Getenv("VERIF_C06_PHASES"))
	}

	var wg sync.WaitGroup
	errs := make(chan error, 8)

	// 1. the model decides: side configs (heap store, paging corollaries)
	side := func(cfg string, w int, to time.Duration) {
		defer wg.Done()
		c.ModelCheck("Collector", cfg, core.Workers(w), core.Timeout(scaled(to)))
	}
	if phase("side") {
		wg.Add(2)
		go side("Collector_mc_heap.cfg", 2, 25*time.Minute)
		go side("Collector_mc_paging.cfg", 2, 25*time.Minute)
	}

	// 2. Engine B runs beside TLC (mostly Go + single-worker judge runs)
	if phase("b") {
		wg.Add(1)
		go func() {
			defer wg.Done()
			if err := engineB(c); err != nil {
				errs <- err
			}
		}()
	}

	// 3. Engine A
	ea := &engineA{c: c, drifts: map[string]bool{}}
	mainCfg := "Collector_mc_quick.cfg"
	to := 12 * time.Minute
	if c.Thorough() {
		mainCfg = "Collector_mc_thorough.cfg"
		to = 28 * time.Minute
	}
	var sims [][]Case
	if phase("sim") {
		wg.Add(1)
	}
	go func() {
		if !phase("sim") {
			return
		}
		defer wg.Done()
		nseeds := 4
		seeds := make([]int64, nseeds)
		for i := range seeds {
			seeds[i] = c.Seed*1000 + int64(i)
		}
		if err := ea.simulateAndReplay("Collector", "Collector_sim.cfg", c.Pick(120, 800), 40, seeds, &sims); err != nil {
			errs <- err
		}
	}()
	if phase("a") {
		if err := ea.dumpAndReplay("Collector", mainCfg, workers, scaled(to)); err != nil {
			errs <- err
		}
	}
	wg.Wait()
	close(errs)
	for err := range errs {
		return err
	}

	// 4. cross the preallocation cap: PreAllocSizeSkipCap is a package variable,
	// so this phase runs alone; the simulated behaviours (size+skip up to 13)
	// are replayed again with the cap lowered to 4 (store and pool then grow on demand)
	if len(sims) > 0 {
		old := collector.PreAllocSizeSkipCap
		collector.PreAllocSizeSkipCap = 4
		before := ea.cases
		err := ea.replayBehaviours(sims, false)
		collector.PreAllocSizeSkipCap = old
		if err != nil {
			return err
		}
		c.Extra("engineA_cases_with_prealloc_cap_4", ea.cases-before)
		c.Eval(int(ea.cases - before))
	}
	c.Extra("engineA_cases", ea.cases)
	c.Extra("engineA_heap_store_cases", ea.heapRuns)
	c.Extra("engineA_cases_with_evictions", ea.evicting)
	c.Extra("engineA_search_after_before_cases", ea.afterRun)
	c.Extra("engineA_drift_findings", ea.driftN)
	if ea.heapRuns == 0 && phase("sim") {
		c.Inconclusive("no simulated case crossed the slice/heap switch")
	}
	c.Traces(len(sims))
	return nil
}

// replay re-executes a saved violation artefact.
func replay(c *core.Ctx, path string) error {
	b, err := os.ReadFile(path)
	if err != nil {
		return err
	}
	var art struct {
		Signature string `json:"signature"`
		What      string `json:"what"`
		Replay    struct {
			Engine string          `json:"engine"`
			Case   *Case           `json:"case"`
			Cap    int             `json:"pre_alloc_cap"`
			B      json.RawMessage `json:"b"`
		} `json:"replay"`
	}
	if err := json.Unmarshal(b, &art); err != nil {
		return err
	}
	switch art.Replay.Engine {
	case "A":
		if art.Replay.Case == nil {
			return fmt.Errorf("artefact has no case")
		}
		if art.Replay.Cap > 0 {
			collector.PreAllocSizeSkipCap = art.Replay.Cap
		}
		cs := *art.Replay.Case
		obs, err := runReal(cs.Rq, cs.Seen, false)
		if err != nil {
			c.Violation("A/collector-error", fmt.Sprintf("real collector fails: %v", err), map[string]any{"engine": "A", "case": cs})
			return nil
		}
		c.Eval(1)
		c.Sample(map[string]any{"case": cs, "observed": obs})
		ea := &engineA{c: c, drifts: map[string]bool{}}
		fs := compare(cs, obs, nil)
		ea.report(cs, obs, fs)
		if len(fs) == 0 {
			c.Logf("replay: the real collector now agrees with the specification")
		}
		return nil
	case "B":
		return replayB(c, art.Replay.B)
	}
	return fmt.Errorf("unknown artefact engine %q", art.Replay.Engine)
}
