package c06

import (
	"context"
	"encoding/binary"
	"fmt"
	"sort"

	"github.com/blevesearch/bleve/v2/search"
	"github.com/blevesearch/bleve/v2/search/collector"
	index "github.com/blevesearch/bleve_index_api"
)

// ---- synthetic searcher: yields the matches of a Case in arrival order.
// Before handing out the next match (and when exhausted) it photographs the
// collector's store through the verif accessor: that is the state after the
// previous match went through the document match handler.

type step struct {
	Store  []int `json:"store"`
	Lowest []int `json:"lowest"`
}

type synthSearcher struct {
	seen  []Match
	pos   int
	coll  *collector.TopNCollector
	steps []step // steps[k] = store/lowest after k offers (k >= 1), only when watch
	watch bool
	last  step // state when the searcher was exhausted (before Final)
}

func (s *synthSearcher) snap() step {
	st, low := s.coll.VerifStore()
	out := step{Store: make([]int, len(st)), Lowest: []int{}}
	for i, h := range st {
		out.Store[i] = int(h)
	}
	if low != 0 {
		out.Lowest = []int{int(low)}
	}
	return out
}

func internalID(hn int) index.IndexInternalID {
	b := make([]byte, 8)
	binary.BigEndian.PutUint64(b, uint64(hn))
	return b
}

func (s *synthSearcher) Next(ctx *search.SearchContext) (*search.DocumentMatch, error) {
	if s.pos > 0 && s.watch {
		s.steps = append(s.steps, s.snap())
	}
	if s.pos >= len(s.seen) {
		s.last = s.snap()
		return nil, nil
	}
	m := s.seen[s.pos]
	s.pos++
	dm := ctx.DocumentMatchPool.Get()
	dm.IndexInternalID = append(dm.IndexInternalID[:0], internalID(s.pos)...)
	dm.Score = float64(m.S)
	return dm, nil
}

func (s *synthSearcher) Advance(ctx *search.SearchContext, ID index.IndexInternalID) (*search.DocumentMatch, error) {
	return nil, fmt.Errorf("synthSearcher: Advance not expected")
}
func (s *synthSearcher) Close() error               { return nil }
func (s *synthSearcher) Weight() float64            { return 0 }
func (s *synthSearcher) SetQueryNorm(float64)       {}
func (s *synthSearcher) Count() uint64              { return uint64(len(s.seen)) }
func (s *synthSearcher) Min() int                   { return 0 }
func (s *synthSearcher) Size() int                  { return 0 }
func (s *synthSearcher) DocumentMatchPoolSize() int { return 0 }

// ---- stub index reader: external ids and doc values of the Case's matches

type synthReader struct {
	seen []Match
}

func (r *synthReader) match(id index.IndexInternalID) (*Match, error) {
	if len(id) != 8 {
		return nil, fmt.Errorf("synthReader: bad internal id %x", []byte(id))
	}
	hn := int(binary.BigEndian.Uint64(id))
	if hn < 1 || hn > len(r.seen) {
		return nil, fmt.Errorf("synthReader: unknown internal id %d", hn)
	}
	return &r.seen[hn-1], nil
}

func (r *synthReader) TermFieldReader(ctx context.Context, term []byte, field string, includeFreq, includeNorm, includeTermVectors bool) (index.TermFieldReader, error) {
	return nil, fmt.Errorf("not supported")
}
func (r *synthReader) DocIDReaderAll() (index.DocIDReader, error) {
	return nil, fmt.Errorf("not supported")
}
func (r *synthReader) DocIDReaderOnly(ids []string) (index.DocIDReader, error) {
	return nil, fmt.Errorf("not supported")
}
func (r *synthReader) FieldDict(field string) (index.FieldDict, error) {
	return nil, fmt.Errorf("not supported")
}
func (r *synthReader) FieldDictRange(field string, startTerm []byte, endTerm []byte) (index.FieldDict, error) {
	return nil, fmt.Errorf("not supported")
}
func (r *synthReader) FieldDictPrefix(field string, termPrefix []byte) (index.FieldDict, error) {
	return nil, fmt.Errorf("not supported")
}
func (r *synthReader) Document(id string) (index.Document, error) { return nil, nil }
func (r *synthReader) Fields() ([]string, error)                  { return nil, nil }
func (r *synthReader) GetInternal(key []byte) ([]byte, error)     { return nil, nil }
func (r *synthReader) DocCount() (uint64, error)                  { return uint64(len(r.seen)), nil }
func (r *synthReader) ExternalID(id index.IndexInternalID) (string, error) {
	m, err := r.match(id)
	if err != nil {
		return "", err
	}
	return idString(m.ID), nil
}
func (r *synthReader) InternalID(id string) (index.IndexInternalID, error) {
	for i := range r.seen {
		if idString(r.seen[i].ID) == id {
			return internalID(i + 1), nil
		}
	}
	return nil, nil
}
func (r *synthReader) Close() error { return nil }

func (r *synthReader) DocValueReader(fields []string) (index.DocValueReader, error) {
	return &synthDVR{r: r, fields: fields}, nil
}

type synthDVR struct {
	r      *synthReader
	fields []string
}

func (d *synthDVR) VisitDocValues(id index.IndexInternalID, visitor index.DocValueVisitor) error {
	m, err := d.r.match(id)
	if err != nil {
		return err
	}
	for _, f := range d.fields {
		for fi := range m.K {
			if fieldName(fi+1) == f {
				for _, v := range m.K[fi] {
					visitor(f, []byte(fieldTerm(v)))
				}
			}
		}
	}
	return nil
}
func (d *synthDVR) BytesRead() uint64 { return 0 }

// ---- running the real collector on a Case

// Observed is what the real code produced.
type Observed struct {
	Results    []int    `json:"results"` // hit numbers of TopNCollector.Results()
	ResultIDs  []string `json:"result_ids"`
	Hits       []int    `json:"hits"` // after the search-before re-sort (as index_impl.go does)
	Total      int      `json:"total"`
	MaxScore   float64  `json:"max_score"`
	Final      step     `json:"final_store"` // store/lowest when the searcher was exhausted
	Steps      []step   `json:"steps,omitempty"`
	IDMismatch string   `json:"id_mismatch,omitempty"`
}

func synthField(f int) (string, search.SortFieldType) {
	if f == 2 {
		return fieldName(f), search.SortFieldAsString
	}
	return fieldName(f), search.SortFieldAuto
}

func runReal(rq Request, seen []Match, watch bool) (obs Observed, err error) {
	defer func() {
		if r := recover(); r != nil {
			err = fmt.Errorf("panic in real collector: %v", r)
		}
	}()
	so := buildSort(rq.Sort, synthField)
	var coll *collector.TopNCollector
	switch rq.Mode {
	case "page":
		coll = collector.NewTopNCollector(rq.Size, rq.Skip, so)
	case "after", "before":
		if rq.Mode == "before" {
			so.Reverse() // index_impl.go: req.Sort.Reverse(); req.SearchAfter = req.SearchBefore
		}
		after := make([]string, len(rq.Sort))
		for i, ks := range rq.Sort {
			after[i] = keyString(ks, rq.Key[0][i])
		}
		coll = collector.NewTopNCollectorAfter(rq.Size, so, after)
	default:
		return obs, fmt.Errorf("unknown request mode %q", rq.Mode)
	}
	ss := &synthSearcher{seen: seen, coll: coll, watch: watch}
	rd := &synthReader{seen: seen}
	if err := coll.Collect(context.Background(), ss, rd); err != nil {
		return obs, err
	}
	res := coll.Results()
	obs.Results = make([]int, len(res))
	obs.ResultIDs = make([]string, len(res))
	for i, dm := range res {
		obs.Results[i] = int(dm.HitNumber)
		obs.ResultIDs[i] = dm.ID
		hn := int(dm.HitNumber)
		if hn < 1 || hn > len(seen) || dm.ID != idString(seen[hn-1].ID) || dm.Score != float64(seen[hn-1].S) {
			obs.IDMismatch = fmt.Sprintf("result %d: hit number %d carries id %q score %v", i, hn, dm.ID, dm.Score)
		}
	}
	hits := append(search.DocumentMatchCollection{}, res...)
	if rq.Mode == "before" {
		// index_impl.go: reverse the sort back to the original, resort using the original order
		so.Reverse()
		cs, cd := so.CacheIsScore(), so.CacheDescending()
		sort.Sort(&hitSorter{so: so, hits: hits, cs: cs, cd: cd})
	}
	obs.Hits = make([]int, len(hits))
	for i, dm := range hits {
		obs.Hits[i] = int(dm.HitNumber)
	}
	obs.Total = int(coll.Total())
	obs.MaxScore = coll.MaxScore()
	obs.Final = ss.last
	obs.Steps = ss.steps
	return obs, nil
}

// same shape as index_impl.go searchHitSorter
type hitSorter struct {
	so     search.SortOrder
	hits   search.DocumentMatchCollection
	cs, cd []bool
}

func (m *hitSorter) Len() int      { return len(m.hits) }
func (m *hitSorter) Swap(i, j int) { m.hits[i], m.hits[j] = m.hits[j], m.hits[i] }
func (m *hitSorter) Less(i, j int) bool {
	return m.so.Compare(m.cs, m.cd, m.hits[i], m.hits[j]) < 0
}
