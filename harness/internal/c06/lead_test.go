package c06

import (
	"fmt"
	"math/rand"
	"testing"

	"github.com/blevesearch/bleve/v2"
)

// Observation (lead, not part of the registered check): paging with
// SearchAfter = the previous page's last hit.Sort verbatim, as docs/pagination.md
// describes, under a sort that contains _score.
func TestLeadScoreKeyVerbatim(t *testing.T) {
	rec := genIndex(rand.New(rand.NewSource(5)), "scorch", 20)
	idx, _, err := buildIndex(rec)
	if err != nil {
		t.Fatal(err)
	}
	defer idx.Close()
	q := queryByName("term_x").Q()
	all := bleve.NewSearchRequestOptions(q, 100, 0, false)
	all.SortBy([]string{"-_score", "_id"})
	ra, _ := idx.Search(all)
	var ids []string
	for _, h := range ra.Hits {
		ids = append(ids, fmt.Sprintf("%s(%.4f)", h.ID, h.Score))
	}
	fmt.Println("full order:", ids)
	p1 := bleve.NewSearchRequestOptions(q, 3, 0, false)
	p1.SortBy([]string{"-_score", "_id"})
	r1, _ := idx.Search(p1)
	last := r1.Hits[len(r1.Hits)-1]
	fmt.Printf("page 1 last hit %s Sort=%q DecodedSort=%q\n", last.ID, last.Sort, last.DecodedSort)
	p2 := bleve.NewSearchRequestOptions(q, 3, 0, false)
	p2.SortBy([]string{"-_score", "_id"})
	p2.SetSearchAfter(last.Sort)
	r2, err := idx.Search(p2)
	if err != nil {
		t.Fatal(err)
	}
	var got []string
	for _, h := range r2.Hits {
		got = append(got, h.ID)
	}
	fmt.Println("page 2 via SearchAfter(hit.Sort):", got)
}
