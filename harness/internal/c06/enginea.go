package c06

import (
	"bufio"
	"encoding/json"
	"fmt"
	"io"
	"os"
	"path/filepath"
	"runtime"
	"strings"
	"sync"
	"sync/atomic"
	"time"

	"verif/harness/internal/core"
	"verif/harness/internal/tlaval"
	"verif/harness/internal/tlc"
)

// discrepancy classes
const (
	clsViolation = "violation" // property-level observable differs from the specification
	clsDrift     = "drift"     // internal projection (store layout, lowest) or an observable the property does not fix
)

type finding struct {
	Class string
	Sig   string
	What  string
}

// compare decides one replayed case. Property-level: hits of page requests
// (any sort, natural-order ties), hits of search-after/before under a total
// order, Total, MaxScore. Everything else (store content, lowest, hits of
// search-after/before under a non-total order) is conformance only.
func compare(cs Case, obs Observed, stepsExp []step) []finding {
	var out []finding
	rq := cs.Rq
	lab := fmt.Sprintf("%s sort=[%s] size=%d skip=%d key=%v n=%d", rq.Mode, sortLabel(rq.Sort), rq.Size, rq.Skip, rq.Key, len(cs.Seen))
	propLevelHits := rq.Mode == "page" || rq.total()
	if !eqInts(obs.Hits, cs.Exp.Hits) {
		cl, tot := clsDrift, "nontotal"
		if propLevelHits {
			cl = clsViolation
		}
		if rq.total() {
			tot = "total"
		}
		out = append(out, finding{cl, "A/hits/" + rq.Mode + "/" + tot,
			fmt.Sprintf("hits (hit numbers) %v, specification %v; %s", obs.Hits, cs.Exp.Hits, lab)})
	}
	if obs.IDMismatch != "" {
		out = append(out, finding{clsViolation, "A/hit-identity", obs.IDMismatch + "; " + lab})
	}
	if obs.Total != cs.Exp.Total {
		out = append(out, finding{clsViolation, "A/total", fmt.Sprintf("Total()=%d, specification %d; %s", obs.Total, cs.Exp.Total, lab)})
	}
	if obs.MaxScore != float64(cs.Exp.MaxScore) {
		out = append(out, finding{clsViolation, "A/maxscore", fmt.Sprintf("MaxScore()=%v, specification %d; %s", obs.MaxScore, cs.Exp.MaxScore, lab)})
	}
	if !eqInts(obs.Results, cs.Exp.Results) && eqInts(obs.Hits, cs.Exp.Hits) {
		out = append(out, finding{clsDrift, "A/results", fmt.Sprintf("collector Results() %v, specification %v; %s", obs.Results, cs.Exp.Results, lab)})
	}
	chk := func(k int, got, exp step) {
		if !eqInts(got.Store, exp.Store) {
			how := "layout"
			if !sameSet(got.Store, exp.Store) {
				how = "content"
			}
			out = append(out, finding{clsDrift, "A/store-" + how, fmt.Sprintf("store after %d offers %v, specification %v; %s", k, got.Store, exp.Store, lab)})
		}
		if !eqInts(got.Lowest, exp.Lowest) {
			out = append(out, finding{clsDrift, "A/lowest", fmt.Sprintf("lowestMatchOutsideResults after %d offers %v, specification %v; %s", k, got.Lowest, exp.Lowest, lab)})
		}
	}
	chk(len(cs.Seen), obs.Final, step{Store: cs.Exp.Store, Lowest: cs.Exp.Lowest})
	for k := 1; k <= len(stepsExp) && k <= len(obs.Steps); k++ {
		if len(out) > 6 {
			break
		}
		chk(k, obs.Steps[k-1], stepsExp[k-1])
	}
	return out
}

type engineA struct {
	c        *core.Ctx
	cases    int64
	heapRuns int64
	evicting int64
	afterRun int64
	driftN   int64
	mu       sync.Mutex
	drifts   map[string]bool
}

func (e *engineA) report(cs Case, obs Observed, fs []finding) {
	for _, f := range fs {
		switch f.Class {
		case clsViolation:
			// reproduce once before reporting
			again, err := runReal(cs.Rq, cs.Seen, false)
			if err != nil || !eqInts(again.Hits, obs.Hits) || again.Total != obs.Total || again.MaxScore != obs.MaxScore {
				e.c.Inconclusive("engine A: discrepancy did not reproduce: " + f.What)
				continue
			}
			e.c.Violation(f.Sig, f.What, map[string]any{"engine": "A", "case": cs, "observed": obs,
				"pre_alloc_cap": currentCap()})
		default:
			atomic.AddInt64(&e.driftN, 1)
			e.mu.Lock()
			first := !e.drifts[f.Sig]
			e.drifts[f.Sig] = true
			e.mu.Unlock()
			if first {
				e.c.Drift(f.Sig + ": " + f.What)
			}
		}
	}
}

func (e *engineA) replay(cs Case, stepsExp []step) error {
	obs, err := runReal(cs.Rq, cs.Seen, len(stepsExp) > 0)
	if err != nil {
		// the real collector failed (error or panic) on a legal request: reproduce, then report
		if _, err2 := runReal(cs.Rq, cs.Seen, false); err2 != nil {
			e.c.Violation("A/collector-error", fmt.Sprintf("real collector fails: %v; request %s over %d matches", err, core.Canon(cs.Rq), len(cs.Seen)),
				map[string]any{"engine": "A", "case": cs, "pre_alloc_cap": currentCap()})
			atomic.AddInt64(&e.cases, 1)
			return nil
		}
		return fmt.Errorf("engine A: real collector failed once on %s: %v", core.Canon(cs.Rq), err)
	}
	atomic.AddInt64(&e.cases, 1)
	if cs.Rq.Mode == "page" && cs.Rq.Size+cs.Rq.Skip > 10 || cs.Rq.Mode != "page" && cs.Rq.Size > 10 {
		atomic.AddInt64(&e.heapRuns, 1)
	}
	if len(cs.Exp.Lowest) > 0 {
		atomic.AddInt64(&e.evicting, 1)
	}
	if cs.Rq.Mode != "page" {
		atomic.AddInt64(&e.afterRun, 1)
	}
	if fs := compare(cs, obs, stepsExp); len(fs) > 0 {
		e.report(cs, obs, fs)
	}
	return nil
}

// non-trivial = at least two matches arrived (an ordering question exists)
func (e *engineA) account(cs Case) {
	e.c.Eval(1)
	if len(cs.Seen) >= 2 {
		e.c.Distinct("A|" + core.Canon(cs.Rq) + "|" + core.Canon(cs.Seen))
	}
}

// dumpAndReplay runs the exhaustive TLC check of cfg with -dump, and replays
// every distinct state into the real collector (parsing and replay run in
// parallel workers).
func (e *engineA) dumpAndReplay(module, cfg string, workers int, timeout time.Duration) error {
	c := e.c
	// development aid (mutation testing): VERIF_C06_CACHE=<dir> keeps the TLC dump
	// between runs; a run that used the cache says so in its evidence.
	cache := os.Getenv("VERIF_C06_CACHE")
	cached := ""
	if cache != "" {
		cached = filepath.Join(cache, cfg+".dump")
	}
	var f *os.File
	var distinct int64 = -1
	if _, err := os.Stat(cached); cached != "" && err == nil {
		c.Assume("development run: states of " + cfg + " taken from VERIF_C06_CACHE, TLC not re-run")
		f, err = os.Open(cached)
		if err != nil {
			return err
		}
	} else {
		o := c.TLCOpts(module, cfg, core.Workers(workers), core.Timeout(timeout))
		o.KeepDir = true
		dumpDir := c.TempDir("dump")
		defer os.RemoveAll(dumpDir)
		dumpFile := filepath.Join(dumpDir, "states")
		o.Args = append(o.Args, "-dump", dumpFile)
		res, err := tlc.Run(o)
		c.Account(module, cfg, "exhaustive+dump", res)
		if res != nil {
			defer os.RemoveAll(res.RunDir)
		}
		if err != nil {
			return fmt.Errorf("TLC %s/%s: %v", module, cfg, err)
		}
		if !res.OK {
			// a counterexample in the model alone is never a violation (DESIGN 3.4)
			return fmt.Errorf("TLC %s/%s did not pass (violated=%q): %s", module, cfg, res.Violated, firstLines(res.ErrorText, 8))
		}
		distinct = res.Distinct
		c.Logf("model %s/%s: %d distinct states, depth %d, %.1fs; replaying", module, cfg, res.Distinct, res.Depth, res.Wall.Seconds())
		if cached != "" {
			if b, err := os.ReadFile(dumpFile + ".dump"); err == nil {
				_ = os.MkdirAll(cache, 0o755)
				_ = os.WriteFile(cached, b, 0o644)
			}
		}
		f, err = os.Open(dumpFile + ".dump")
		if err != nil {
			return err
		}
	}
	defer f.Close()

	bodies := make(chan string, 1024)
	var wg sync.WaitGroup
	var firstErr atomic.Value
	var sampled int32
	nw := runtime.NumCPU()
	if nw > 12 {
		nw = 12
	}
	for w := 0; w < nw; w++ {
		wg.Add(1)
		go func() {
			defer wg.Done()
			for body := range bodies {
				if firstErr.Load() != nil {
					continue
				}
				st, err := tlaval.ParseState(body)
				if err != nil {
					firstErr.Store(fmt.Errorf("dump parse: %v", err))
					continue
				}
				cs, err := parseCase(st)
				if err != nil {
					firstErr.Store(err)
					continue
				}
				if err := e.replay(cs, nil); err != nil {
					firstErr.Store(err)
					continue
				}
				e.account(cs)
				if len(cs.Seen) >= 3 && len(cs.Exp.Lowest) > 0 && atomic.AddInt32(&sampled, 1) <= 2 {
					c.Sample(map[string]any{"engine": "A-exhaustive", "config": cfg, "case": cs})
				}
			}
		}()
	}
	rd := bufio.NewReaderSize(f, 1<<20)
	var cur []string
	var n int64
	flush := func() {
		if len(cur) > 0 {
			bodies <- strings.Join(cur, "\n")
			n++
			cur = cur[:0]
		}
	}
	for {
		ln, err := rd.ReadString('\n')
		t := strings.TrimRight(ln, "\n")
		if strings.HasPrefix(t, "State ") && strings.HasSuffix(t, ":") {
			flush()
		} else if strings.TrimSpace(t) != "" {
			cur = append(cur, t)
		}
		if err == io.EOF {
			break
		}
		if err != nil {
			close(bodies)
			wg.Wait()
			return err
		}
	}
	flush()
	close(bodies)
	wg.Wait()
	if v := firstErr.Load(); v != nil {
		return v.(error)
	}
	if distinct >= 0 && n != distinct {
		return fmt.Errorf("engine A: dump of %s holds %d states, TLC reported %d distinct", cfg, n, distinct)
	}
	return nil
}

// simulateAndReplay draws behaviours of the simulation config and replays
// each one step-wise (store and lowest after every offer).
func (e *engineA) simulateAndReplay(module, cfg string, num, depth int, seeds []int64, keep *[][]Case) error {
	c := e.c
	cache := os.Getenv("VERIF_C06_CACHE")
	cached := ""
	if cache != "" {
		cached = filepath.Join(cache, fmt.Sprintf("%s.%d.%d.json", cfg, num, seeds[0]))
	}
	var all [][]Case
	if b, err := os.ReadFile(cached); cached != "" && err == nil {
		c.Assume("development run: behaviours of " + cfg + " taken from VERIF_C06_CACHE, TLC not re-run")
		if err := json.Unmarshal(b, &all); err != nil {
			return err
		}
	} else {
		type out struct {
			behs []tlc.Behaviour
			err  error
		}
		res := make([]out, len(seeds))
		var wg sync.WaitGroup
		for i, sd := range seeds {
			wg.Add(1)
			go func(i int, sd int64) {
				defer wg.Done()
				b, err := c.Simulate(module, cfg, num, depth, sd, core.Timeout(scaled(20*time.Minute)))
				res[i] = out{b, err}
			}(i, sd)
		}
		wg.Wait()
		for i := range res {
			if res[i].err != nil {
				return fmt.Errorf("TLC simulate %s/%s: %v", module, cfg, res[i].err)
			}
			for _, b := range res[i].behs {
				var cases []Case
				for _, st := range b {
					cs, err := parseCase(st)
					if err != nil {
						return err
					}
					cases = append(cases, cs)
				}
				if len(cases) > 0 {
					all = append(all, cases)
				}
			}
		}
		if cached != "" {
			if b, err := json.Marshal(all); err == nil {
				_ = os.MkdirAll(cache, 0o755)
				_ = os.WriteFile(cached, b, 0o644)
			}
		}
	}
	if len(all) == 0 {
		return fmt.Errorf("simulation %s/%s produced no behaviours", module, cfg)
	}
	c.Logf("simulation %s/%s: %d behaviours; replaying step-wise", module, cfg, len(all))
	if keep != nil {
		*keep = all
	}
	return e.replayBehaviours(all, true)
}

func (e *engineA) replayBehaviours(all [][]Case, count bool) error {
	c := e.c
	jobs := make(chan []Case, 64)
	var wg sync.WaitGroup
	var firstErr atomic.Value
	var sampled int32
	for w := 0; w < 8; w++ {
		wg.Add(1)
		go func() {
			defer wg.Done()
			for cases := range jobs {
				last := cases[len(cases)-1]
				// the behaviour must be a run of one request over growing arrivals
				var stepsExp []step
				ok := true
				for k := 1; k < len(cases); k++ {
					if len(cases[k].Seen) != k || core.Canon(cases[k].Rq) != core.Canon(last.Rq) {
						ok = false
					}
					stepsExp = append(stepsExp, step{Store: cases[k].Exp.Store, Lowest: cases[k].Exp.Lowest})
				}
				if !ok {
					firstErr.Store(fmt.Errorf("simulated behaviour is not a single growing search"))
					continue
				}
				if err := e.replay(last, stepsExp); err != nil {
					firstErr.Store(err)
					continue
				}
				// every prefix is a complete search too: compare its final observables
				for k := 2; k < len(cases)-1; k += 3 {
					if err := e.replay(cases[k], nil); err != nil {
						firstErr.Store(err)
					}
					if count {
						e.account(cases[k])
					}
				}
				if count {
					e.account(last)
					if (last.Rq.Size+last.Rq.Skip > 10) && atomic.AddInt32(&sampled, 1) <= 1 {
						c.Sample(map[string]any{"engine": "A-simulated", "case": last})
					}
				}
			}
		}()
	}
	for _, b := range all {
		jobs <- b
	}
	close(jobs)
	wg.Wait()
	if v := firstErr.Load(); v != nil {
		return v.(error)
	}
	return nil
}

func firstLines(s string, n int) string {
	ls := strings.Split(s, "\n")
	if len(ls) > n {
		ls = ls[:n]
	}
	return strings.Join(ls, " | ")
}
