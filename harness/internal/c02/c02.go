// Package c02 checks property C02: "A search returns exactly the live
// documents that satisfy the query".
//
//	model:    spec/Query.tla (declarative meaning) and spec/Searchers.tla
//	          (algorithmic searchers incl. the score:none bitmap optimisations),
//	          TLC: the algorithms return exactly Query!Hits, none == scored
//	engine B: seeded corpora / histories / query trees run on scorch and
//	          upsidedown under all request variants; TLC (trace/JudgeQuery.tla)
//	          judges every recorded case against Query!Hits
//	engine A: TLC-enumerated (postings, tree) cases of Searchers.tla replayed
//	          on indexes with controlled internal id order
package c02

import (
	"encoding/json"
	"fmt"
	"math/rand"
	"os"
	"sort"
	"strings"
	"sync"
	"time"

	bleve "github.com/blevesearch/bleve/v2"
	"github.com/blevesearch/bleve/v2/search/query"
	"github.com/blevesearch/bleve/v2/search/searcher"

	"verif/harness/internal/core"
	"verif/harness/internal/qs"
	"verif/harness/internal/tlaval"
)

func init() {
	core.Register(&core.Check{Prop: "C02", Level: "model_checking", Run: run, Replay: replay})
}

const (
	SigK1 = qs.SigK1
	SigK2 = qs.SigK2
	SigK3 = qs.SigK3
)

type variant struct {
	Eng   string
	Score string
	Loc   bool
	Expl  bool
}

func (v variant) String() string {
	return fmt.Sprintf("%s/score=%q/loc=%v/expl=%v", v.Eng, v.Score, v.Loc, v.Expl)
}

func variants() []variant {
	var out []variant
	for _, e := range qs.Engines {
		for _, sc := range []string{"", "none"} {
			for _, lo := range []bool{false, true} {
				for _, ex := range []bool{false, true} {
					out = append(out, variant{e, sc, lo, ex})
				}
			}
		}
	}
	return out
}

type runRec struct {
	V     variant
	Hits  []int
	Total int
	Err   string `json:",omitempty"` // the search failed with this error
}

func (r runRec) json() map[string]any {
	b2i := func(b bool) int {
		if b {
			return 1
		}
		return 0
	}
	hits := []int{}
	hits = append(hits, r.Hits...)
	return map[string]any{"eng": r.V.Eng, "score": r.V.Score, "loc": b2i(r.V.Loc), "expl": b2i(r.V.Expl),
		"hits": hits, "total": r.Total}
}

// one search case on one corpus
type caseT struct {
	Seed    int64
	Hist    qs.History
	Corpus  []any // analysed live documents, JSON form, ascending id
	Q       *qs.Node
	Runs    []runRec
	NLive   int
	heapTkv int
	k1      map[string]qs.K1Set // per scorch engine: boolean nodes whose should lost its Min()
}

// record renders the case with the given runs. annotate: the engine whose K1
// annotation the query carries ("" none: the strict judgement does not read it).
func (cs *caseT) record(runs []runRec, annotate string) map[string]any {
	rs := []any{}
	for _, r := range runs {
		rs = append(rs, r.json())
	}
	return map[string]any{"corpus": cs.Corpus, "q": cs.Q.JSONWith(nil, cs.k1[annotate]), "runs": rs}
}

func doSearch(idx bleve.Index, q query.Query, v variant, size int) ([]int, int, error) {
	req := bleve.NewSearchRequest(q)
	req.Size = size
	req.Score = v.Score
	req.IncludeLocations = v.Loc
	req.Explain = v.Expl
	res, err := idx.Search(req)
	if err != nil {
		return nil, 0, err
	}
	ids := make([]int, 0, len(res.Hits))
	for _, h := range res.Hits {
		id, ok := qs.ParseDocID(h.ID)
		if !ok {
			return nil, 0, fmt.Errorf("hit with foreign id %q", h.ID)
		}
		ids = append(ids, id)
	}
	return ids, int(res.Total), nil
}

func (cs *caseT) proneTo(v variant) []string {
	// the optimisation needs Score "none" and no term vectors (IncludeLocations
	// asks for them)
	return qs.ProneTo(qs.FeaturesOf(cs.Q, cs.k1[v.Eng]), v.Eng, v.Score == "none" && !v.Loc)
}

type corpusT struct {
	seed   int64
	hist   qs.History
	live   map[int]*qs.Doc
	corpus []any
	idx    map[string]bleve.Index
	nids   int
	dirs   []string
}

func (ct *corpusT) close() {
	for _, i := range ct.idx {
		i.Close()
	}
	for _, d := range ct.dirs {
		os.RemoveAll(d)
	}
}

func buildCorpus(c *core.Ctx, seed int64, hist qs.History, live map[int]*qs.Doc, nids int) (*corpusT, error) {
	im := qs.Mapping()
	ct := &corpusT{seed: seed, hist: hist, live: live, idx: map[string]bleve.Index{}, nids: nids}
	for _, e := range qs.Engines {
		r := rand.New(rand.NewSource(seed ^ 0x5eed))
		dir := ""
		mergeAfter := -1
		if e == qs.EngScorchMerged {
			dir = c.TempDir("c02idx")
			ct.dirs = append(ct.dirs, dir)
			// merge somewhere in the second half of the history, so that the merged
			// segment gets deletions and small segments follow it
			mergeAfter = len(hist)/2 + int(uint64(seed)%2)
		}
		idx, err := qs.NewIndex(e, im, dir)
		if err != nil {
			return nil, err
		}
		ct.idx[e] = idx
		if err := qs.ApplyMerging(idx, hist, r, mergeAfter); err != nil {
			return nil, err
		}
		n, err := idx.DocCount()
		if err != nil {
			return nil, err
		}
		if int(n) != len(live) {
			return nil, fmt.Errorf("engine %s: DocCount %d, history says %d live", e, n, len(live))
		}
	}
	var ids []int
	for id := range live {
		ids = append(ids, id)
	}
	sort.Ints(ids)
	for _, id := range ids {
		ad, err := live[id].Analysed(im)
		if err != nil {
			return nil, err
		}
		ct.corpus = append(ct.corpus, ad.JSON(id))
	}
	return ct, nil
}

func (ct *corpusT) runCase(q *qs.Node) (*caseT, error) {
	cs := &caseT{Seed: ct.seed, Hist: ct.hist, Corpus: ct.corpus, Q: q, NLive: len(ct.live), k1: map[string]qs.K1Set{}}
	for _, e := range qs.Engines {
		if qs.IsScorch(e) {
			k1, err := qs.AnnotateK1(q, ct.idx[e])
			if err != nil {
				return nil, err
			}
			cs.k1[e] = k1
		}
	}
	if cs.Corpus == nil {
		cs.Corpus = []any{}
	}
	bq := q.Bleve(nil)
	for _, v := range variants() {
		ids, total, err := doSearch(ct.idx[v.Eng], bq, v, len(ct.live)+5)
		if err != nil {
			// a query that FAILS on this engine/variant did not return its hit set: recorded
			// as an empty answer with Total -1, which the judge rejects (TotalOK)
			cs.Runs = append(cs.Runs, runRec{V: v, Hits: []int{}, Total: -1, Err: err.Error()})
			continue
		}
		cs.Runs = append(cs.Runs, runRec{V: v, Hits: ids, Total: total})
	}
	return cs, nil
}

func mustJSON(v any) string {
	b, _ := json.Marshal(v)
	return string(b)
}

// ---- the check

type modelCfg struct {
	cfg     string
	workers int
	timeout time.Duration
}

func run(c *core.Ctx) error {
	c.SetRule("a case = (live corpus after a history with updates/deletes over several batches, query tree); counted once per distinct (corpus, query) whose query has a compound node or a non-trivial leaf and whose corpus has >= 2 live documents; every case is executed under 16 engine x request variants")
	c.SetExhaustive(false)
	c.Assume("analysis is the identity on the model's tokens (checked at run time: every text value is run through the field's real analyzer and the resulting tokens are what TLC judges)")
	c.Assume("regexp / wildcard / fuzzy are exercised on the subset expressible in spec/Query.tla (letters a..c, tokens of length <= 4, edit distance <= 2)")
	c.Assume("scorch is exercised in memory (every batch one segment, deletions as bitmaps), upsidedown over gtreap; disk persistence and merging are property C05's subject")

	// 1. the model decides (runs concurrently with the engines)
	// (quick: the two configurations dumped for engine A below ARE the model
	// check - TLC verifies EnumIsHits / NoneEqualsScored while enumerating)
	models := []modelCfg{{"QueryLaws_mc.cfg", 1, 8 * time.Minute}} // sanity laws of the oracle itself
	if c.Thorough() {
		models = []modelCfg{
			{"QueryLaws_mc.cfg", 1, 8 * time.Minute},
			{"MCSearchers_c02_t_flat.cfg", 4, 28 * time.Minute},
			{"MCSearchers_c02_t_flat_bm.cfg", 2, 28 * time.Minute},
			{"MCSearchers_c02_t_heap.cfg", 2, 28 * time.Minute},
			{"MCSearchers_c02_t_deep.cfg", 4, 28 * time.Minute},
			{"MCSearchers_c02_t_flat5.cfg", 2, 28 * time.Minute},
		}
	}
	if os.Getenv("VERIF_DEV_SKIP_MODEL") != "" { // development aid (mutant runs): the model does not depend on the code
		models = nil
	}
	var wg sync.WaitGroup
	for _, m := range models {
		wg.Add(1)
		go func(m modelCfg) {
			defer wg.Done()
			mod := "MCSearchers"
			if strings.HasPrefix(m.cfg, "QueryLaws") {
				mod = "QueryLaws"
			}
			c.ModelCheck(mod, m.cfg, core.Workers(m.workers), core.Timeout(m.timeout))
		}(m)
	}
	defer wg.Wait()

	// 2. engine B
	if err := engineB(c); err != nil {
		return err
	}
	// 3. engine A
	if err := engineA(c); err != nil {
		return err
	}
	// 4. the model's counterexample for the open finding K1, executed on the real code
	return modelFindingK1(c)
}

func engineB(c *core.Ctx) error {
	nCorp := c.Pick(28, 500)
	nQ := c.Pick(15, 30)
	depth := c.Pick(2, 3)
	var mu sync.Mutex
	var cases []*caseT
	var firstErr error
	jobs := make(chan int, nCorp)
	for i := 0; i < nCorp; i++ {
		jobs <- i
	}
	close(jobs)
	var wg sync.WaitGroup
	for w := 0; w < 6; w++ {
		wg.Add(1)
		go func() {
			defer wg.Done()
			for i := range jobs {
				seed := c.Seed*1000003 + int64(i)
				r := rand.New(rand.NewSource(seed))
				nids := 4 + r.Intn(9)
				h, live := qs.GenHistory(r, nids, 3+r.Intn(5))
				ct, err := buildCorpus(c, seed, h, live, nids)
				if err != nil {
					mu.Lock()
					if firstErr == nil {
						firstErr = err
					}
					mu.Unlock()
					return
				}
				liveDocs := docsOf(live)
				var local []*caseT
				for k := 0; k < nQ; k++ {
					q := qs.GenQuery(r, qs.Facts{NIDs: nids, Docs: liveDocs}, depth)
					cs, err := ct.runCase(q)
					if err != nil {
						mu.Lock()
						if firstErr == nil {
							firstErr = err
						}
						mu.Unlock()
						ct.close()
						return
					}
					local = append(local, cs)
				}
				ct.close()
				mu.Lock()
				cases = append(cases, local...)
				mu.Unlock()
			}
		}()
	}
	wg.Wait()
	if firstErr != nil {
		return firstErr
	}
	// the heap disjunction: same cases again with DisjunctionHeapTakeover = 1
	// (a package-level setting; every worker above has finished)
	old := searcher.DisjunctionHeapTakeover
	searcher.DisjunctionHeapTakeover = 1
	heapCases, err := heapRound(c, c.Pick(8, 120), c.Pick(12, 25), depth)
	searcher.DisjunctionHeapTakeover = old
	if err != nil {
		return err
	}
	cases = append(cases, heapCases...)
	pinned, err := pinnedCases(c)
	if err != nil {
		return err
	}
	cases = append(cases, pinned...)
	sort.SliceStable(cases, func(i, j int) bool { return cases[i].Seed < cases[j].Seed })
	return judgeCases(c, cases, true)
}

// pinnedCases: one fixed minimal case per finding of this property (open or
// repaired), executed on every run so that an open finding is exhibited every
// time and a repaired one is noticed the moment it returns.
func pinnedCases(c *core.Ctx) ([]*caseT, error) {
	w := func(s string) qs.Term { t, _ := qs.TermOf(s); return t }
	doc := func(id int, f string, vals ...string) *qs.Doc {
		d := &qs.Doc{ID: id, Txt: map[string][][]qs.Term{}, Num: map[string][]int{}}
		for _, v := range vals {
			d.Txt[f] = append(d.Txt[f], []qs.Term{w(v)})
		}
		return d
	}
	term := func(f, t string) *qs.Node { return &qs.Node{Type: "term", Field: f, Term: w(t)} }
	var out []*caseT
	add := func(seed int64, docs []*qs.Doc, queries ...*qs.Node) error {
		var h qs.History
		live := map[int]*qs.Doc{}
		for i, d := range docs { // two batches: two segments on scorch
			if i%2 == 0 || len(h) == 0 {
				h = append(h, nil)
			}
			h[len(h)-1] = append(h[len(h)-1], qs.Op{ID: d.ID, Doc: d})
			live[d.ID] = d
		}
		ct, err := buildCorpus(c, seed, h, live, len(docs))
		if err != nil {
			return err
		}
		defer ct.close()
		for _, q := range queries {
			cs, err := ct.runCase(q)
			if err != nil {
				return err
			}
			out = append(out, cs)
		}
		return nil
	}
	// fuzzy: "ab"~1 against "ba" (one transposition = two Levenshtein edits)
	if err := add(-1, []*qs.Doc{doc(0, qs.FT1, "ab"), doc(1, qs.FT1, "ba"), doc(2, qs.FT1, "b"), doc(3, qs.FK1, "ba")},
		&qs.Node{Type: "fuzzy", Field: qs.FT1, Term: w("ab"), Fuzz: 1},
		&qs.Node{Type: "match", Field: qs.FT1, Terms: []qs.Term{w("ab")}, Op: "or", Fuzz: 1}); err != nil {
		return nil, err
	}
	// boolean must + should(min 1) of two terms, alone and inside a filter clause
	k1 := &qs.Node{Type: "boolean", Must: []*qs.Node{term(qs.FK1, "a")}, Should: []*qs.Node{term(qs.FK1, "b"), term(qs.FK1, "c")}, MinN: 1}
	k1b := *k1
	if err := add(-2, []*qs.Doc{doc(0, qs.FK1, "a"), doc(1, qs.FK1, "a", "b"), doc(2, qs.FK1, "a", "c"), doc(3, qs.FK1, "b")},
		k1, &qs.Node{Type: "boolean", Filter: []*qs.Node{&k1b}}); err != nil {
		return nil, err
	}
	// regexp a|ab against the term "ab"
	if err := add(-3, []*qs.Doc{doc(0, qs.FK1, "ab"), doc(1, qs.FK1, "a"), doc(2, qs.FK1, "b")},
		&qs.Node{Type: "regexp", Field: qs.FK1, Alts: [][]qs.Atom{{{Cls: []int{1}}}, {{Cls: []int{1}}, {Cls: []int{2}}}}}); err != nil {
		return nil, err
	}
	return out, nil
}

func heapRound(c *core.Ctx, nCorp, nQ, depth int) ([]*caseT, error) {
	var out []*caseT
	for i := 0; i < nCorp; i++ {
		seed := c.Seed*7000003 + int64(i)
		r := rand.New(rand.NewSource(seed))
		nids := 4 + r.Intn(9)
		h, live := qs.GenHistory(r, nids, 3+r.Intn(5))
		ct, err := buildCorpus(c, seed, h, live, nids)
		if err != nil {
			return nil, err
		}
		liveDocs := docsOf(live)
		for k := 0; k < nQ; k++ {
			q := qs.GenQuery(r, qs.Facts{NIDs: nids, Docs: liveDocs}, depth)
			hasDisj := false
			q.Walk(func(x *qs.Node) {
				if x.Type == "disj" || x.Type == "boolean" || x.Type == "match" || x.Type == "prefix" || x.Type == "termrange" {
					hasDisj = true
				}
			})
			if !hasDisj {
				continue
			}
			cs, err := ct.runCase(q)
			if err != nil {
				ct.close()
				return nil, err
			}
			cs.heapTkv = 1
			out = append(out, cs)
		}
		ct.close()
	}
	return out, nil
}

// judgeCases splits every case into the runs no described deviation applies
// to (judged strictly, cross-variant equality included) and, per deviation
// class, the runs prone to it (judged in batches of their own, DESIGN 3.4).
func judgeCases(c *core.Ctx, cases []*caseT, account bool) error {
	type recRef struct {
		cs   *caseT
		runs []runRec
		eng  string // prone records: the engine whose K1 annotation applies
	}
	var clean []recRef
	prone := map[string][]recRef{}
	for _, cs := range cases {
		var cleanRuns []runRec
		type ck struct{ class, eng string }
		byClass := map[ck][]runRec{}
		for _, r := range cs.Runs {
			cl := cs.proneTo(r.V)
			if len(cl) == 0 {
				cleanRuns = append(cleanRuns, r)
			} else {
				key := ck{strings.Join(cl, "+"), r.V.Eng}
				byClass[key] = append(byClass[key], r)
			}
		}
		if len(cleanRuns) > 0 {
			clean = append(clean, recRef{cs, cleanRuns, ""})
		}
		for k, rs := range byClass {
			prone[k.class] = append(prone[k.class], recRef{cs, rs, k.eng})
		}
		if account {
			c.Eval(len(cs.Runs))
			if cs.NLive >= 2 && (cs.Q.Depth() >= 1 || (cs.Q.Type != "all" && cs.Q.Type != "none")) {
				c.Distinct(mustJSON(cs.Corpus) + "|" + mustJSON(cs.Q.JSON()))
			}
		}
	}
	if account && len(cases) > 0 {
		for _, i := range []int{0, len(cases) / 2, len(cases) - 1} {
			cs := cases[i]
			c.Sample(map[string]any{"query": cs.Q.JSON(), "live_docs": cs.NLive, "hits_scorch_scored": cs.Runs[0].Hits, "total": cs.Runs[0].Total})
		}
	}
	toRecs := func(rs []recRef) []any {
		out := make([]any, len(rs))
		for i, r := range rs {
			out[i] = r.cs.record(r.runs, r.eng)
		}
		return out
	}
	// strict judgement of the clean runs, in chunks (parallel TLC runs)
	const chunk = 1500
	var wg sync.WaitGroup
	var mu sync.Mutex
	var jerr error
	sem := make(chan struct{}, 3)
	type failure struct {
		ref recRef
		inv string
	}
	var fails []failure
	for lo := 0; lo < len(clean); lo += chunk {
		hi := lo + chunk
		if hi > len(clean) {
			hi = len(clean)
		}
		wg.Add(1)
		go func(part []recRef) {
			defer wg.Done()
			sem <- struct{}{}
			defer func() { <-sem }()
			bad, err := qs.Judge(c, "JudgeQuery", "JudgeQuery.cfg", qs.DummyQuery, toRecs(part), 8, core.Timeout(20*time.Minute))
			mu.Lock()
			defer mu.Unlock()
			if err != nil && jerr == nil {
				jerr = err
			}
			for i, inv := range bad {
				fails = append(fails, failure{part[i], inv})
			}
			if err == nil {
				c.Traces(1)
			}
		}(clean[lo:hi])
	}
	// the prone runs: must satisfy the tolerant reading (else: something new) ...
	var proneKeys []string
	for k := range prone {
		proneKeys = append(proneKeys, k)
	}
	sort.Strings(proneKeys)
	type proneFail struct {
		ref    recRef
		class  string
		inv    string
		strict bool
	}
	var pfails []proneFail
	for _, k := range proneKeys {
		wg.Add(1)
		go func(k string, part []recRef) {
			defer wg.Done()
			sem <- struct{}{}
			defer func() { <-sem }()
			recs := toRecs(part)
			bad, err := qs.Judge(c, "JudgeQuery", "JudgeQuery_tolerant.cfg", qs.DummyQuery, recs, 6, core.Timeout(20*time.Minute))
			mu.Lock()
			if err != nil && jerr == nil {
				jerr = err
			}
			for i, inv := range bad {
				pfails = append(pfails, proneFail{part[i], k, inv, false})
			}
			mu.Unlock()
			if err != nil {
				return
			}
			// ... and the first one that breaks the strict reading exhibits the finding
			bad, err = qs.Judge(c, "JudgeQuery", "JudgeQuery.cfg", qs.DummyQuery, recs, 1, core.Timeout(20*time.Minute))
			mu.Lock()
			defer mu.Unlock()
			if err != nil && jerr == nil {
				jerr = err
			}
			for i, inv := range bad {
				pfails = append(pfails, proneFail{part[i], k, inv, true})
			}
			if err == nil {
				c.Traces(1)
			}
		}(k, prone[k])
	}
	wg.Wait()
	if jerr != nil {
		return jerr
	}
	c.AddExtra("records_judged_strict", int64(len(clean)))
	for _, k := range proneKeys {
		c.AddExtra("records_prone_to:"+k, int64(len(prone[k])))
	}
	for _, f := range fails {
		reportUnknown(c, f.ref.cs, f.ref.runs, f.inv)
	}
	tolerantFailed := map[*caseT]bool{}
	for _, f := range pfails {
		if !f.strict {
			tolerantFailed[f.ref.cs] = true
			reportUnknown(c, f.ref.cs, f.ref.runs, f.inv+"(beyond:"+f.class+")")
		}
	}
	for _, f := range pfails {
		if f.strict && !tolerantFailed[f.ref.cs] && !strings.Contains(f.class, "+") {
			what := fmt.Sprintf("%s violated by runs %s: query %s over %d live documents returns %v (total %d); the deviation is the one described in spec/Query.tla mode for %s",
				f.inv, runNames(f.ref.runs), mustJSON(f.ref.cs.Q.JSON()), f.ref.cs.NLive, f.ref.runs[0].Hits, f.ref.runs[0].Total, f.class)
			c.Violation(f.class, what, replayData(f.ref.cs, f.ref.runs))
		}
	}
	return nil
}

func runNames(rs []runRec) string {
	var ss []string
	for _, r := range rs {
		ss = append(ss, r.V.String())
	}
	return strings.Join(ss, ", ")
}

func replayData(cs *caseT, runs []runRec) map[string]any {
	var vs []variant
	for _, r := range runs {
		vs = append(vs, r.V)
	}
	return map[string]any{"kind": "engineB", "corpus_seed": cs.Seed, "history": cs.Hist, "query": cs.Q, "variants": vs,
		"heap_takeover": cs.heapTkv, "observed": runs}
}

// reportUnknown: a violation no described deviation accounts for. The
// signature names the failed clause, the engines/variants that fail it
// (grouped by answer, each group judged by TLC) and the shape of the query
// after shrinking.
var unknownMu sync.Mutex
var unknownSeen = map[string]bool{}
var unknownDetailed int

func reportUnknown(c *core.Ctx, cs *caseT, runs []runRec, inv string) {
	// classification and shrinking cost several TLC runs each: done for the
	// first three distinct (clause, shape) pairs only
	unknownMu.Lock()
	pre := inv + "|" + cs.Q.Shape()
	seen := unknownSeen[pre]
	unknownSeen[pre] = true
	detailed := !seen && unknownDetailed < 3
	if detailed {
		unknownDetailed++
	}
	unknownMu.Unlock()
	if seen {
		return
	}
	class := "unclassified"
	shape := cs.Q.Shape()
	if detailed {
		class = failingClass(c, cs, runs)
		if small := shrink(c, cs, runs); small != nil {
			shape = small.Shape()
		}
	}
	sig := fmt.Sprintf("%s:%s:%s", inv, class, shape)
	what := fmt.Sprintf("%s violated (%s): query %s over %d live documents; runs %s returned %v total %d",
		inv, class, mustJSON(cs.Q.JSON()), cs.NLive, runNames(runs), runs[0].Hits, runs[0].Total)
	c.Violation(sig, what, replayData(cs, runs))
}

// failingClass groups the runs by answer and lets TLC judge one record per
// group; returns e.g. "scorch/none", "scorch", "upsidedown", "all".
func failingClass(c *core.Ctx, cs *caseT, runs []runRec) string {
	groups := map[string][]runRec{}
	var keys []string
	for _, r := range runs {
		h := append([]int{}, r.Hits...)
		sort.Ints(h)
		k := fmt.Sprint(h, r.Total, len(r.Hits))
		if _, ok := groups[k]; !ok {
			keys = append(keys, k)
		}
		groups[k] = append(groups[k], r)
	}
	var recs []any
	for _, k := range keys {
		recs = append(recs, cs.record(groups[k], ""))
	}
	bad, err := qs.Judge(c, "JudgeQuery", "JudgeQuery.cfg", qs.DummyQuery, recs, len(recs))
	if err != nil {
		return "unclassified"
	}
	var failing []runRec
	for i := range bad {
		failing = append(failing, groups[keys[i]]...)
	}
	if len(failing) == 0 || len(failing) == len(cs.Runs) {
		return "all"
	}
	engs := map[string]bool{}
	scores := map[string]bool{}
	for _, r := range failing {
		engs[r.V.Eng] = true
		scores[r.V.Score] = true
	}
	var es []string
	for e := range engs {
		es = append(es, e)
	}
	sort.Strings(es)
	s := strings.Join(es, "+")
	// all variants of these engines?
	n := 0
	for _, r := range cs.Runs {
		if engs[r.V.Eng] {
			n++
		}
	}
	if n != len(failing) && len(scores) == 1 {
		for sc := range scores {
			if sc == "" {
				sc = "scored"
			}
			s += "/" + sc
		}
	} else if n != len(failing) {
		s += "/some"
	}
	return s
}

// shrink: greedy reduction of the query (replace by a sub-query, drop a
// child) while TLC still rejects the re-executed case. At most 6 rounds.
func shrink(c *core.Ctx, cs *caseT, runs []runRec) *qs.Node {
	ct, err := buildCorpus(c, cs.Seed, cs.Hist, liveOf(cs.Hist), 0)
	if err != nil {
		return nil
	}
	defer ct.close()
	old := searcher.DisjunctionHeapTakeover
	if cs.heapTkv > 0 {
		searcher.DisjunctionHeapTakeover = cs.heapTkv
	}
	defer func() { searcher.DisjunctionHeapTakeover = old }()
	cur := cs.Q
	for round := 0; round < 6; round++ {
		cands := reductions(cur)
		if len(cands) == 0 {
			break
		}
		var recs []any
		var ok []*qs.Node
		for _, q := range cands {
			k, err := ct.runCase(q)
			if err != nil {
				continue
			}
			var sel []runRec
			for _, r := range k.Runs {
				for _, o := range runs {
					if o.V == r.V {
						sel = append(sel, r)
					}
				}
			}
			recs = append(recs, k.record(sel, ""))
			ok = append(ok, q)
		}
		if len(recs) == 0 {
			break
		}
		bad, err := qs.Judge(c, "JudgeQuery", "JudgeQuery.cfg", qs.DummyQuery, recs, 1)
		if err != nil || len(bad) == 0 {
			break
		}
		for i := range bad {
			cur = ok[i]
		}
	}
	if cur == cs.Q {
		return nil
	}
	return cur
}

func docsOf(live map[int]*qs.Doc) []*qs.Doc {
	var ids []int
	for id := range live {
		ids = append(ids, id)
	}
	sort.Ints(ids)
	var out []*qs.Doc
	for _, id := range ids {
		out = append(out, live[id])
	}
	return out
}

func liveOf(h qs.History) map[int]*qs.Doc {
	live := map[int]*qs.Doc{}
	for _, b := range h {
		for _, op := range b {
			if op.Del {
				delete(live, op.ID)
			} else {
				live[op.ID] = op.Doc
			}
		}
	}
	return live
}

func reductions(q *qs.Node) []*qs.Node {
	var out []*qs.Node
	out = append(out, q.Kids()...)
	drop := func(xs []*qs.Node, i int) []*qs.Node {
		cp := append([]*qs.Node{}, xs[:i]...)
		return append(cp, xs[i+1:]...)
	}
	switch q.Type {
	case "conj", "disj":
		for i := range q.Qs {
			if len(q.Qs) > 1 {
				cp := *q
				cp.Qs = drop(q.Qs, i)
				if cp.MinN > len(cp.Qs) {
					cp.MinN = len(cp.Qs)
				}
				out = append(out, &cp)
			}
		}
	case "boolean":
		total := len(q.Must) + len(q.Should) + len(q.MustNot) + len(q.Filter)
		if total > 1 {
			for i := range q.Must {
				cp := *q
				cp.Must = drop(q.Must, i)
				out = append(out, &cp)
			}
			for i := range q.Should {
				cp := *q
				cp.Should = drop(q.Should, i)
				if cp.MinN > len(cp.Should) {
					cp.MinN = len(cp.Should)
				}
				out = append(out, &cp)
			}
			for i := range q.MustNot {
				cp := *q
				cp.MustNot = drop(q.MustNot, i)
				out = append(out, &cp)
			}
			if len(q.Filter) > 0 {
				cp := *q
				cp.Filter = nil
				out = append(out, &cp)
			}
		}
	}
	// reductions inside the children
	for i, k := range q.Kids() {
		for _, rk := range reductions(k) {
			out = append(out, withKid(q, i, rk))
		}
	}
	if len(out) > 40 {
		out = out[:40]
	}
	return out
}

func withKid(q *qs.Node, i int, k *qs.Node) *qs.Node {
	cp := *q
	repl := func(xs []*qs.Node, j int) []*qs.Node {
		ys := append([]*qs.Node{}, xs...)
		ys[j] = k
		return ys
	}
	switch q.Type {
	case "conj", "disj":
		cp.Qs = repl(q.Qs, i)
	case "boolean":
		switch {
		case i < len(q.Must):
			cp.Must = repl(q.Must, i)
		case i < len(q.Must)+len(q.Should):
			cp.Should = repl(q.Should, i-len(q.Must))
		case i < len(q.Must)+len(q.Should)+len(q.MustNot):
			cp.MustNot = repl(q.MustNot, i-len(q.Must)-len(q.Should))
		default:
			cp.Filter = repl(q.Filter, i-len(q.Must)-len(q.Should)-len(q.MustNot))
		}
	}
	return &cp
}

// ---- engine A: TLC-enumerated (postings, tree) cases on controlled indexes

type caseSrc struct {
	cfg    string
	layout qs.Layout // must equal SegSizes / Deleted of the cfg
	engs   []string
}

type caseA struct {
	q    any
	post map[int][]int
	hits []int
}

func engineA(c *core.Ctx) error {
	l22 := qs.Layout{Segs: []int{2, 2}, Deleted: []int{1}}
	l21 := qs.Layout{Segs: []int{2, 1}}
	l4 := qs.Layout{Segs: []int{4}, Deleted: []int{1}}
	mem := []string{qs.EngScorch, qs.EngUpside}
	// the one-segment layout is built by a forced merge on disk: the segment
	// zap writes 1-hit postings into
	srcs := []caseSrc{{"MCSearchers_c02_cases_q.cfg", l22, mem}, {"MCSearchers_c02_cases_deep_q.cfg", l21, mem},
		{"MCSearchers_c02_cases_m.cfg", l4, []string{qs.EngScorchMerged}},
		// a force-merged first segment followed by a fresh one (per-segment 1-hit state)
		{"MCSearchers_c02_cases_q.cfg", l22, []string{qs.EngScorchMerged}}}
	if c.Thorough() {
		srcs[0].cfg = "MCSearchers_c02_cases_t.cfg"
	}
	var wg sync.WaitGroup
	errs := make([]error, len(srcs))
	for i, s := range srcs {
		wg.Add(1)
		go func(i int, s caseSrc) {
			defer wg.Done()
			errs[i] = engineAOne(c, s.cfg, s.layout, s.engs)
		}(i, s)
	}
	wg.Wait()
	for _, e := range errs {
		if e != nil {
			return e
		}
	}
	return nil
}

func engineAOne(c *core.Ctx, cfg string, layoutA qs.Layout, engs []string) error {
	var cases []caseA
	_, err := qs.DumpVars(c, "MCSearchers", cfg, []string{"q", "post", "hits", "calls"}, func(st map[string]any) error {
		if tlaval.Int(st["calls"]) != 0 {
			return nil
		}
		var hits []int
		for _, h := range tlaval.List(st["hits"]) {
			hits = append(hits, tlaval.Int(h))
		}
		sort.Ints(hits)
		cases = append(cases, caseA{st["q"], qs.PostOf(st["post"]), hits})
		return nil
	}, core.Workers(4), core.Timeout(10*time.Minute))
	if err != nil {
		return err
	}
	for _, eng := range engs {
		dir := ""
		if eng == qs.EngScorchMerged {
			dir = c.TempDir("c02a")
		}
		a, err := qs.BuildIndexA(eng, layoutA, dir)
		if err != nil {
			return fmt.Errorf("engine A index (%s): %v", eng, err)
		}
		var wg sync.WaitGroup
		var mu sync.Mutex
		var ferr error
		n := 8
		for w := 0; w < n; w++ {
			wg.Add(1)
			go func(w int) {
				defer wg.Done()
				for i := w; i < len(cases); i += n {
					cs := cases[i]
					bq, err := qs.QueryA(cs.q, cs.post)
					if err != nil {
						mu.Lock()
						ferr = err
						mu.Unlock()
						return
					}
					for _, sc := range []string{"", "none"} {
						ids, total, err := doSearch(a.Idx, bq, variant{Eng: eng, Score: sc}, 10)
						if err != nil {
							mu.Lock()
							ferr = fmt.Errorf("engine A search: %v", err)
							mu.Unlock()
							return
						}
						sort.Ints(ids)
						c.Eval(1)
						if fmt.Sprint(ids) != fmt.Sprint(cs.hits) || total != len(cs.hits) {
							reportA(c, eng, sc, cs, ids, total, layoutA)
						}
					}
				}
			}(w)
		}
		wg.Wait()
		a.Close()
		if ferr != nil {
			return ferr
		}
	}
	for _, cs := range cases {
		c.Distinct("A|" + mustJSON(tlaval.ToJSON(cs.q)) + mustJSON(cs.post))
	}
	c.AddExtra("engineA_cases", int64(len(cases)))
	if len(cases) > 0 {
		c.Sample(map[string]any{"engineA_case": tlaval.ToJSON(cases[len(cases)/3].q), "postings": cases[len(cases)/3].post, "spec_hits": cases[len(cases)/3].hits})
	}
	return nil
}

func reportA(c *core.Ctx, eng, score string, cs caseA, ids []int, total int, layoutA qs.Layout) {
	qj := tlaval.ToJSON(cs.q)
	sig := fmt.Sprintf("engineA:%s/%s:%s", eng, scoreName(score), shapeA(cs.q))
	if qs.IsScorch(eng) && score == "none" && qs.HasK1ShapeTLA(cs.q) {
		sig = SigK1 // the finding repaired in a0964f3 is back
	}
	what := fmt.Sprintf("engine %s score=%q: query %s over postings %v (layout %v) returned %v total %d, Searchers/Query specification says %v",
		eng, score, mustJSON(qj), cs.post, layoutA, ids, total, cs.hits)
	c.Violation(sig, what, map[string]any{"kind": "engineA", "engine": eng, "score": score, "query": qj, "post": cs.post, "expected": cs.hits, "got": ids})
}

func scoreName(s string) string {
	if s == "" {
		return "scored"
	}
	return s
}

func shapeA(v any) string {
	m := tlaval.Map(v)
	list := func(name string) string {
		var ss []string
		for _, k := range tlaval.List(m[name]) {
			ss = append(ss, shapeA(k))
		}
		return strings.Join(ss, ",")
	}
	switch t := tlaval.Str(m["type"]); t {
	case "conj":
		return "conj(" + list("qs") + ")"
	case "disj":
		return fmt.Sprintf("disj%d(%s)", tlaval.Int(m["min"]), list("qs"))
	case "boolean":
		return fmt.Sprintf("bool(must[%s],should%d[%s],not[%s],filter[%s])", list("must"), tlaval.Int(m["min"]), list("should"), list("mustnot"), list("filter"))
	default:
		return t
	}
}

// modelFindingK1: the configuration that models the code AS FOUND (before the
// repair a0964f3) for boolean must + should(min 1) of >= 2 terms under
// score:none. TLC is EXPECTED to refute EnumIsHits there; its counterexample is
// executed on the real code as a regression detector, and only a reproduced
// real failure is reported (DESIGN 3.4).
func modelFindingK1(c *core.Ctx) error {
	res, err := c.RunTLC("exhaustive(expected-counterexample)", "MCSearchers", "MCSearchers_c02_asfound_k1.cfg", core.Workers(2), core.Timeout(8*time.Minute))
	if err != nil {
		return err
	}
	if res.Violated == "" {
		if res.OK {
			c.Extra("k1_model", "the model no longer refutes EnumIsHits for the K1 shapes")
			return nil
		}
		return fmt.Errorf("K1 configuration failed: %s", res.ErrorText)
	}
	st, ok := qs.FirstBadState(res)
	if !ok {
		return fmt.Errorf("K1 counterexample not parsed")
	}
	post := qs.PostOf(st["post"])
	var hits []int
	for _, h := range tlaval.List(st["hits"]) {
		hits = append(hits, tlaval.Int(h))
	}
	sort.Ints(hits)
	bq, err := qs.QueryA(st["q"], post)
	if err != nil {
		return err
	}
	a, err := qs.BuildIndexA(qs.EngScorch, qs.Layout{Segs: []int{2, 1}}, "")
	if err != nil {
		return err
	}
	defer a.Close()
	ids, total, err := doSearch(a.Idx, bq, variant{Eng: qs.EngScorch, Score: "none"}, 10)
	if err != nil {
		return err
	}
	sort.Ints(ids)
	c.Eval(1)
	if fmt.Sprint(ids) != fmt.Sprint(hits) || total != len(hits) {
		what := fmt.Sprintf("model counterexample reproduced on scorch score=none: query %s over postings %v returned %v total %d, documented meaning %v",
			mustJSON(tlaval.ToJSON(st["q"])), post, ids, total, hits)
		c.Violation(SigK1, what, map[string]any{"kind": "engineA", "engine": qs.EngScorch, "score": "none", "query": tlaval.ToJSON(st["q"]), "post": post, "expected": hits, "got": ids, "layout": "2,1"})
	} else {
		c.Extra("k1_asfound", "the as-found model's counterexample (should-minimum ignored under score:none) does not reproduce: repaired in the code")
	}
	return nil
}

// ---- replay

func replay(c *core.Ctx, path string) error {
	b, err := os.ReadFile(path)
	if err != nil {
		return err
	}
	var f struct {
		Signature string `json:"signature"`
		Replay    struct {
			Kind     string     `json:"kind"`
			Seed     int64      `json:"corpus_seed"`
			History  qs.History `json:"history"`
			Query    *qs.Node   `json:"query"`
			Variants []variant  `json:"variants"`
			Heap     int        `json:"heap_takeover"`
		} `json:"replay"`
	}
	if err := json.Unmarshal(b, &f); err != nil {
		return err
	}
	if f.Replay.Kind != "engineB" {
		return fmt.Errorf("replay of kind %q: re-run the check (engine A cases are enumerated deterministically by TLC)", f.Replay.Kind)
	}
	if f.Replay.Heap > 0 {
		searcher.DisjunctionHeapTakeover = f.Replay.Heap
	}
	ct, err := buildCorpus(c, f.Replay.Seed, f.Replay.History, liveOf(f.Replay.History), 0)
	if err != nil {
		return err
	}
	defer ct.close()
	cs, err := ct.runCase(f.Replay.Query)
	if err != nil {
		return err
	}
	cs.heapTkv = f.Replay.Heap
	var sel []runRec
	for _, r := range cs.Runs {
		for _, v := range f.Replay.Variants {
			if v == r.V {
				sel = append(sel, r)
			}
		}
	}
	cs.Runs = sel
	c.SetRule("replay of one saved case")
	for _, r := range sel {
		c.Logf("replay %s -> hits %v total %d", r.V, r.Hits, r.Total)
	}
	return judgeCases(c, []*caseT{cs}, true)
}
