package qs

import (
	"bytes"
	"fmt"
	"math/rand"

	bleve "github.com/blevesearch/bleve/v2"
	"github.com/blevesearch/bleve/v2/index/scorch"
	"github.com/blevesearch/bleve/v2/mapping"
	index "github.com/blevesearch/bleve_index_api"
)

const (
	EngScorch = "scorch"     // scorch, in memory: every batch is a segment, nothing merges
	EngUpside = "upsidedown" // upsidedown over gtreap (bleve.NewMemOnly)
)

var Engines = []string{EngScorch, EngUpside}

// NewIndex opens an in-memory index of the engine. NOTE bleve.NewMemOnly is
// upsidedown/gtreap; in-memory scorch is NewUsing("", ..., scorch, scorch).
func NewIndex(eng string, im mapping.IndexMapping) (bleve.Index, error) {
	switch eng {
	case EngScorch:
		return bleve.NewUsing("", im, scorch.Name, scorch.Name, nil)
	case EngUpside:
		return bleve.NewMemOnly(im)
	}
	return nil, fmt.Errorf("unknown engine %q", eng)
}

// Apply executes the history. A single-operation batch is sometimes issued
// through Index/Delete directly (r decides) - same meaning, other code path.
func Apply(idx bleve.Index, h History, r *rand.Rand) error {
	for _, ops := range h {
		if len(ops) == 1 && r != nil && r.Intn(2) == 0 {
			op := ops[0]
			var err error
			if op.Del {
				err = idx.Delete(DocID(op.ID))
			} else {
				err = idx.Index(DocID(op.ID), op.Doc.Bleve())
			}
			if err != nil {
				return err
			}
			continue
		}
		b := idx.NewBatch()
		for _, op := range ops {
			if op.Del {
				b.Delete(DocID(op.ID))
			} else if err := b.Index(DocID(op.ID), op.Doc.Bleve()); err != nil {
				return err
			}
		}
		if err := idx.Batch(b); err != nil {
			return err
		}
	}
	return nil
}

// LiveEntry is one live document in internal-id order.
type LiveEntry struct {
	Internal index.IndexInternalID
	External string
}

// LiveInternal lists the live documents of a reader in internal-id order
// (DocIDReaderAll), checking that the order is strictly ascending under
// IndexInternalID.Compare.
func LiveInternal(rd index.IndexReader) ([]LiveEntry, error) {
	dr, err := rd.DocIDReaderAll()
	if err != nil {
		return nil, err
	}
	defer dr.Close()
	var out []LiveEntry
	for {
		id, err := dr.Next()
		if err != nil {
			return nil, err
		}
		if id == nil {
			break
		}
		cp := append(index.IndexInternalID{}, id...)
		ext, err := rd.ExternalID(cp)
		if err != nil {
			return nil, err
		}
		if n := len(out); n > 0 && out[n-1].Internal.Compare(cp) >= 0 {
			return nil, fmt.Errorf("DocIDReaderAll not strictly ascending at %q", ext)
		}
		out = append(out, LiveEntry{Internal: cp, External: ext})
	}
	return out, nil
}

// RankOf returns the rank of an internal id among the live ids, -1 if the id
// is not a live document's id.
func RankOf(live []LiveEntry, id index.IndexInternalID) int {
	for i, e := range live {
		if bytes.Equal(e.Internal, id) {
			return i
		}
	}
	return -1
}

// RankBelow = number of live ids strictly below id: the rank-space
// equivalent of an arbitrary target id.
func RankBelow(live []LiveEntry, id index.IndexInternalID) int {
	n := 0
	for _, e := range live {
		if e.Internal.Compare(id) < 0 {
			n++
		}
	}
	return n
}
