package qs

import (
	"bytes"
	"context"
	"fmt"
	"math/rand"
	"path/filepath"

	bleve "github.com/blevesearch/bleve/v2"
	"github.com/blevesearch/bleve/v2/index/scorch"
	"github.com/blevesearch/bleve/v2/mapping"
	index "github.com/blevesearch/bleve_index_api"
)

const (
	EngScorch = "scorch" // scorch, in memory: every batch is a segment, nothing merges
	// scorch on disk with a forced merge in the middle of the history: merged
	// segments are the only ones zap writes "1-hit" postings into, so this is
	// the configuration that reaches the 1-hit cases of optimize.go/unadorned.go
	EngScorchMerged = "scorch-merged"
	EngUpside       = "upsidedown" // upsidedown over gtreap (bleve.NewMemOnly)
)

var Engines = []string{EngScorch, EngScorchMerged, EngUpside}

func IsScorch(eng string) bool { return eng == EngScorch || eng == EngScorchMerged }

// NewIndex opens an index of the engine (dir is used by the disk engine only).
// NOTE bleve.NewMemOnly is upsidedown/gtreap; in-memory scorch is
// NewUsing("", ..., scorch, scorch).
func NewIndex(eng string, im mapping.IndexMapping, dir string) (bleve.Index, error) {
	switch eng {
	case EngScorch:
		return bleve.NewUsing("", im, scorch.Name, scorch.Name, nil)
	case EngScorchMerged:
		if dir == "" {
			return nil, fmt.Errorf("engine %s needs a directory", eng)
		}
		// the background planner stays passive (merge budget = number of live documents):
		// merges happen where the harness forces them, and the small segments that follow
		// a merged one stay separate
		return bleve.NewUsing(filepath.Join(dir, "idx"), im, scorch.Name, scorch.Name, map[string]interface{}{
			"scorchMergePlanOptions": map[string]interface{}{"FloorSegmentSize": 1}})
	case EngUpside:
		return bleve.NewMemOnly(im)
	}
	return nil, fmt.Errorf("unknown engine %q", eng)
}

// ForceMerge merges the persisted segments of a scorch index into one.
func ForceMerge(idx bleve.Index) error {
	adv, err := idx.Advanced()
	if err != nil {
		return err
	}
	sc, ok := adv.(*scorch.Scorch)
	if !ok {
		return nil
	}
	return sc.ForceMerge(context.Background(), nil)
}

// Apply executes the history. A single-operation batch is sometimes issued
// through Index/Delete directly (r decides) - same meaning, other code path.
func Apply(idx bleve.Index, h History, r *rand.Rand) error {
	return ApplyMerging(idx, h, r, -1)
}

// ApplyMerging is Apply with a forced merge after batch number mergeAfter
// (0-based; -1 never).
func ApplyMerging(idx bleve.Index, h History, r *rand.Rand, mergeAfter int) error {
	for bi, ops := range h {
		if bi > 0 && bi-1 == mergeAfter {
			if err := ForceMerge(idx); err != nil {
				return err
			}
		}
		if len(ops) == 1 && r != nil && r.Intn(2) == 0 {
			op := ops[0]
			var err error
			if op.Del {
				err = idx.Delete(DocID(op.ID))
			} else {
				err = idx.Index(DocID(op.ID), op.Doc.Bleve())
			}
			if err != nil {
				return err
			}
			continue
		}
		b := idx.NewBatch()
		for _, op := range ops {
			if op.Del {
				b.Delete(DocID(op.ID))
			} else if err := b.Index(DocID(op.ID), op.Doc.Bleve()); err != nil {
				return err
			}
		}
		if err := idx.Batch(b); err != nil {
			return err
		}
	}
	if mergeAfter >= len(h)-1 && mergeAfter >= 0 {
		return ForceMerge(idx)
	}
	return nil
}

// LiveEntry is one live document in internal-id order.
type LiveEntry struct {
	Internal index.IndexInternalID
	External string
}

// LiveInternal lists the live documents of a reader in internal-id order
// (DocIDReaderAll), checking that the order is strictly ascending under
// IndexInternalID.Compare.
func LiveInternal(rd index.IndexReader) ([]LiveEntry, error) {
	dr, err := rd.DocIDReaderAll()
	if err != nil {
		return nil, err
	}
	defer dr.Close()
	var out []LiveEntry
	for {
		id, err := dr.Next()
		if err != nil {
			return nil, err
		}
		if id == nil {
			break
		}
		cp := append(index.IndexInternalID{}, id...)
		ext, err := rd.ExternalID(cp)
		if err != nil {
			return nil, err
		}
		if n := len(out); n > 0 && out[n-1].Internal.Compare(cp) >= 0 {
			return nil, fmt.Errorf("DocIDReaderAll not strictly ascending at %q", ext)
		}
		out = append(out, LiveEntry{Internal: cp, External: ext})
	}
	return out, nil
}

// RankOf returns the rank of an internal id among the live ids, -1 if the id
// is not a live document's id.
func RankOf(live []LiveEntry, id index.IndexInternalID) int {
	for i, e := range live {
		if bytes.Equal(e.Internal, id) {
			return i
		}
	}
	return -1
}

// RankBelow = number of live ids strictly below id: the rank-space
// equivalent of an arbitrary target id.
func RankBelow(live []LiveEntry, id index.IndexInternalID) int {
	n := 0
	for _, e := range live {
		if e.Internal.Compare(id) < 0 {
			n++
		}
	}
	return n
}
