package qs

import (
	"bufio"
	"context"
	"fmt"
	"os"
	"path/filepath"
	"strings"
	"time"

	bleve "github.com/blevesearch/bleve/v2"
	"github.com/blevesearch/bleve/v2/analysis/analyzer/keyword"
	"github.com/blevesearch/bleve/v2/index/scorch"
	"github.com/blevesearch/bleve/v2/mapping"
	"github.com/blevesearch/bleve/v2/search"
	"github.com/blevesearch/bleve/v2/search/query"
	index "github.com/blevesearch/bleve_index_api"

	"verif/harness/internal/core"
	"verif/harness/internal/tlaval"
	"verif/harness/internal/tlc"
)

// ---- streaming a TLC state dump, parsing only the variables asked for
// (the searcher state `s` of spec/Searchers.tla is large and not needed).

// DumpVars runs an exhaustive check of module/cfg with -dump and calls fn for
// every distinct state with the parsed values of vars. The TLC result is
// accounted in the evidence under mode "exhaustive+dump".
func DumpVars(c *core.Ctx, module, cfg string, vars []string, fn func(map[string]any) error, opts ...core.TLCOpt) (*tlc.Result, error) {
	dir := c.TempDir("dump")
	defer os.RemoveAll(dir)
	file := filepath.Join(dir, "states")
	all := append([]core.TLCOpt{core.Args("-dump", file)}, opts...)
	res, err := c.RunTLC("exhaustive+dump", module, cfg, all...)
	if err != nil {
		return res, err
	}
	if !res.OK {
		return res, fmt.Errorf("TLC %s/%s did not pass: violated=%q %s", module, cfg, res.Violated, firstLine(res.ErrorText))
	}
	f, err := os.Open(file + ".dump")
	if err != nil {
		return res, err
	}
	defer f.Close()
	want := map[string]bool{}
	for _, v := range vars {
		want[v] = true
	}
	rd := bufio.NewReaderSize(f, 1<<20)
	cur := map[string]*strings.Builder{}
	var name string
	flush := func() error {
		if len(cur) == 0 {
			return nil
		}
		st := map[string]any{}
		for k, sb := range cur {
			v, err := tlaval.Parse(strings.TrimSpace(sb.String()))
			if err != nil {
				return fmt.Errorf("dump var %s: %v", k, err)
			}
			st[k] = v
		}
		cur = map[string]*strings.Builder{}
		name = ""
		return fn(st)
	}
	for {
		ln, rerr := rd.ReadString('\n')
		t := strings.TrimRight(ln, "\n")
		switch {
		case strings.HasPrefix(t, "State ") && strings.HasSuffix(t, ":"):
			if err := flush(); err != nil {
				return res, err
			}
		case strings.HasPrefix(t, "/\\ "):
			eq := strings.Index(t, "=")
			name = ""
			if eq > 3 {
				n := strings.TrimSpace(t[3:eq])
				if want[n] {
					name = n
					sb := &strings.Builder{}
					sb.WriteString(t[eq+1:])
					cur[n] = sb
				}
			}
		case strings.TrimSpace(t) == "":
		default:
			if name != "" {
				cur[name].WriteString("\n")
				cur[name].WriteString(t)
			}
		}
		if rerr != nil {
			break
		}
	}
	return res, flush()
}

// FirstBadState returns the state TLC reported for a violated invariant: the
// initial state ("violated by the initial state:") or the last state of the
// counterexample.
func FirstBadState(res *tlc.Result) (tlaval.State, bool) {
	const mark = "is violated by the initial state:\n"
	if i := strings.Index(res.Output, mark); i >= 0 {
		body := res.Output[i+len(mark):]
		if j := strings.Index(body, "\n\n"); j >= 0 {
			body = body[:j]
		}
		st, err := tlaval.ParseState(strings.TrimSpace(body))
		if err == nil {
			return st, true
		}
		return nil, false
	}
	if n := len(res.CounterEx); n > 0 {
		return res.CounterEx[n-1].State, true
	}
	return nil, false
}

func firstLine(s string) string {
	if i := strings.Index(s, "\n"); i >= 0 {
		return s[:i]
	}
	return s
}

// ---- the model's query trees (spec/MCSearchers.tla) on a real index

// Layout is a snapshot layout of spec/Searchers.tla: documents per segment
// (global doc numbers 0..N-1 in segment order) and the deleted doc numbers.
type Layout struct {
	Segs    []int
	Deleted []int
}

func (l Layout) N() int {
	n := 0
	for _, s := range l.Segs {
		n += s
	}
	return n
}

func (l Layout) isDeleted(d int) bool {
	for _, x := range l.Deleted {
		if x == d {
			return true
		}
	}
	return false
}

// mergeToOne waits until everything is persisted and force-merges the file
// segments into one; it fails unless exactly one segment is left.
func mergeToOne(idx bleve.Index) error {
	adv, err := idx.Advanced()
	if err != nil {
		return err
	}
	sc, ok := adv.(*scorch.Scorch)
	if !ok {
		return fmt.Errorf("not a scorch index")
	}
	for round := 0; round < 20; round++ {
		deadline := time.Now().Add(20 * time.Second)
		for time.Now().Before(deadline) {
			sm := sc.StatsMap()
			if toInt(sm["num_root_memorysegments"]) == 0 && toInt(sm["TotPersistLoopBeg"]) > 0 {
				break
			}
			time.Sleep(2 * time.Millisecond)
		}
		if err := sc.ForceMerge(context.Background(), nil); err != nil {
			return err
		}
		sm := sc.StatsMap()
		if toInt(sm["num_root_memorysegments"]) == 0 && toInt(sm["num_root_filesegments"]) == 1 {
			return nil
		}
	}
	return fmt.Errorf("could not merge the first segment's documents into one file segment")
}

// PostTerm is the indexed term standing for "the posting list {d : bit d of
// mask}": document d carries the terms of all masks containing d, so every
// posting list over the layout's documents exists in ONE index.
func PostTerm(mask int) string { return fmt.Sprintf("m%d", mask) }

func MaskOf(docs []int) int {
	m := 0
	for _, d := range docs {
		m |= 1 << uint(d)
	}
	return m
}

const FieldA = "f"

func mappingA() mapping.IndexMapping {
	im := bleve.NewIndexMapping()
	dm := bleve.NewDocumentStaticMapping()
	fm := bleve.NewTextFieldMapping()
	fm.Analyzer = keyword.Name
	fm.Store, fm.IncludeTermVectors, fm.IncludeInAll, fm.DocValues = false, false, false, false
	dm.AddFieldMappingsAt(FieldA, fm)
	im.DefaultMapping = dm
	return im
}

func docA(d, n int) map[string]interface{} {
	var terms []interface{}
	for m := 1; m < 1<<uint(n); m++ {
		if m&(1<<uint(d)) != 0 {
			terms = append(terms, PostTerm(m))
		}
	}
	return map[string]interface{}{FieldA: terms}
}

// IndexA is a real index whose internal id order is the model's doc-number
// order: scorch in memory with exactly the layout's segments (verified by
// reading the internal ids back), or upsidedown (internal id = external id).
type IndexA struct {
	Eng    string
	Idx    bleve.Index
	Layout Layout
	Reader index.IndexReader
	// Internal[d] = internal id of model doc number d (also for deleted d and
	// for d = N, the target beyond the last document)
	Internal []index.IndexInternalID
}

func (a *IndexA) Close() {
	if a.Reader != nil {
		a.Reader.Close()
	}
	if a.Idx != nil {
		a.Idx.Close()
	}
}

// BuildIndexA builds the controlled index. For scorch the documents of one
// segment go into one batch; the doc numbers inside a batch depend on the
// analysis queue, so the build is repeated until the read-back order is the
// intended one (checked BEFORE the deletions, which are then applied in one
// batch and do not renumber anything as long as no segment becomes empty).
// For EngScorchMerged the layout must be one segment: the documents are
// indexed one per batch in order and force-merged into a single (1-hit
// encoding) segment under dir.
func BuildIndexA(eng string, l Layout, dir string) (*IndexA, error) {
	// EngScorchMerged with several segments: the FIRST segment is the force-merged
	// one (1-hit postings), the others are the batches indexed after the merge -
	// the layout in which per-segment state of the unadorned optimisations matters
	n := l.N()
	for _, sz := range l.Segs {
		if sz <= 0 {
			return nil, fmt.Errorf("layout with an empty segment")
		}
	}
	// a segment whose documents are all deleted would be dropped by scorch
	off := 0
	for _, sz := range l.Segs {
		livecnt := 0
		for d := off; d < off+sz; d++ {
			if !l.isDeleted(d) {
				livecnt++
			}
		}
		if livecnt == 0 {
			return nil, fmt.Errorf("layout deletes a whole segment")
		}
		off += sz
	}
	for attempt := 0; attempt < 200; attempt++ {
		adir := ""
		if dir != "" {
			adir = filepath.Join(dir, fmt.Sprintf("a%d", attempt))
			if err := os.MkdirAll(adir, 0o755); err != nil {
				return nil, err
			}
		}
		idx, err := NewIndex(eng, mappingA(), adir)
		if err != nil {
			return nil, err
		}
		off := 0
		for si, sz := range l.Segs {
			if eng == EngScorchMerged && si == 0 {
				for d := off; d < off+sz; d++ {
					if err := idx.Index(DocID(d), docA(d, n)); err != nil {
						return nil, err
					}
				}
				if len(l.Segs) > 1 {
					if err := mergeToOne(idx); err != nil {
						idx.Close()
						return nil, err
					}
				}
			} else {
				b := idx.NewBatch()
				for d := off; d < off+sz; d++ {
					if err := b.Index(DocID(d), docA(d, n)); err != nil {
						return nil, err
					}
				}
				if err := idx.Batch(b); err != nil {
					return nil, err
				}
			}
			off += sz
		}
		if eng == EngScorchMerged && len(l.Segs) == 1 {
			if err := ForceMerge(idx); err != nil {
				return nil, err
			}
		}
		ok, err := orderIs(idx, eng, n, nil)
		if err != nil {
			idx.Close()
			return nil, err
		}
		if !ok {
			idx.Close()
			continue
		}
		if len(l.Deleted) > 0 {
			b := idx.NewBatch()
			for _, d := range l.Deleted {
				b.Delete(DocID(d))
			}
			if err := idx.Batch(b); err != nil {
				return nil, err
			}
			ok, err = orderIs(idx, eng, n, l.Deleted)
			if err != nil || !ok {
				idx.Close()
				return nil, fmt.Errorf("layout changed by the deletions (err=%v)", err)
			}
		}
		adv, err := idx.Advanced()
		if err != nil {
			return nil, err
		}
		// the merged index has exactly one segment at the root (in memory every
		// batch is one segment by construction; the root statistics lag there)
		if sc, ok := adv.(*scorch.Scorch); ok && eng == EngScorchMerged {
			sm := sc.StatsMap()
			nseg := toInt(sm["num_root_memorysegments"]) + toInt(sm["num_root_filesegments"])
			if len(l.Segs) == 1 && nseg > 1 {
				idx.Close()
				return nil, fmt.Errorf("engine %s: %d segments at the root after the forced merge", eng, nseg)
			}
		}
		rd, err := adv.Reader()
		if err != nil {
			return nil, err
		}
		a := &IndexA{Eng: eng, Idx: idx, Layout: l, Reader: rd}
		for d := 0; d <= n; d++ {
			if IsScorch(eng) {
				a.Internal = append(a.Internal, index.NewIndexInternalID(nil, uint64(d)))
			} else {
				a.Internal = append(a.Internal, index.IndexInternalID(DocID(d)))
			}
		}
		return a, nil
	}
	return nil, fmt.Errorf("could not obtain the intended doc-number order in 200 attempts")
}

func toInt(v any) int {
	switch x := v.(type) {
	case uint64:
		return int(x)
	case int:
		return x
	case int64:
		return int(x)
	case float64:
		return int(x)
	}
	return -1
}

// orderIs: the live documents, in internal order, are exactly the layout's
// non-deleted documents, and (scorch) their doc numbers are the model's.
func orderIs(idx bleve.Index, eng string, n int, deleted []int) (bool, error) {
	adv, err := idx.Advanced()
	if err != nil {
		return false, err
	}
	rd, err := adv.Reader()
	if err != nil {
		return false, err
	}
	defer rd.Close()
	live, err := LiveInternal(rd)
	if err != nil {
		return false, err
	}
	del := map[int]bool{}
	for _, d := range deleted {
		del[d] = true
	}
	i := 0
	for d := 0; d < n; d++ {
		if del[d] {
			continue
		}
		if i >= len(live) || live[i].External != DocID(d) {
			return false, nil
		}
		if IsScorch(eng) {
			if int(live[i].Internal.Value()) != d {
				return false, nil
			}
		}
		i++
	}
	return i == len(live), nil
}

// QueryA translates a query of spec/MCSearchers.tla (parsed TLA+ value) into
// the real query over IndexA; post[t] = postings of term id t (doc numbers).
func QueryA(v any, post map[int][]int) (query.Query, error) {
	m := tlaval.Map(v)
	all := func(name string) ([]query.Query, error) {
		var out []query.Query
		for _, k := range tlaval.List(m[name]) {
			q, err := QueryA(k, post)
			if err != nil {
				return nil, err
			}
			out = append(out, q)
		}
		return out, nil
	}
	switch tlaval.Str(m["type"]) {
	case "term":
		t := tlaval.Int(tlaval.List(m["term"])[0])
		q := query.NewTermQuery(PostTerm(MaskOf(post[t])))
		q.SetField(FieldA)
		return q, nil
	case "all":
		return query.NewMatchAllQuery(), nil
	case "none":
		return query.NewMatchNoneQuery(), nil
	case "docid":
		var ids []string
		for _, x := range tlaval.List(m["ids"]) {
			ids = append(ids, DocID(tlaval.Int(x)))
		}
		return query.NewDocIDQuery(ids), nil
	case "conj":
		qs, err := all("qs")
		if err != nil {
			return nil, err
		}
		return query.NewConjunctionQuery(qs), nil
	case "disj":
		qs, err := all("qs")
		if err != nil {
			return nil, err
		}
		q := query.NewDisjunctionQuery(qs)
		q.SetMin(float64(tlaval.Int(m["min"])))
		return q, nil
	case "boolean":
		mu, err := all("must")
		if err != nil {
			return nil, err
		}
		sh, err := all("should")
		if err != nil {
			return nil, err
		}
		mn, err := all("mustnot")
		if err != nil {
			return nil, err
		}
		fl, err := all("filter")
		if err != nil {
			return nil, err
		}
		q := query.NewBooleanQuery(mu, sh, mn)
		if len(sh) > 0 {
			q.SetMinShould(float64(tlaval.Int(m["min"])))
		}
		if len(fl) > 0 {
			q.AddFilter(fl[0])
		}
		return q, nil
	}
	return nil, fmt.Errorf("QueryA: unknown type %v", m["type"])
}

// PostOf reads the spec's `post` variable: <<{..}, {..}, ...>>.
func PostOf(v any) map[int][]int {
	out := map[int][]int{}
	for i, s := range tlaval.List(v) {
		var ds []int
		for _, d := range tlaval.List(s) {
			ds = append(ds, tlaval.Int(d))
		}
		out[i+1] = ds
	}
	return out
}

// Call is one step of a program of spec/Searchers.tla.
type Call struct {
	Op string // "next" / "adv"
	T  int    // target doc number (adv)
	R  int    // the spec's result: doc number, -1 nothing, -2 panic
}

func ProgOf(v any) []Call {
	var out []Call
	for _, e := range tlaval.List(v) {
		m := tlaval.Map(e)
		out = append(out, Call{Op: tlaval.Str(m["op"]), T: tlaval.Int(m["t"]), R: tlaval.Int(m["r"])})
	}
	return out
}

// RunProgram executes the calls against a fresh searcher for q over the
// controlled index and returns the model doc numbers returned (-1 nothing,
// -2 panic, -3 an id that is no live document of the layout).
func (a *IndexA) RunProgram(q query.Query, opts search.SearcherOptions, prog []Call) (res []int, err error) {
	s, err := q.Searcher(context.Background(), a.Reader, a.Idx.Mapping(), opts)
	if err != nil {
		return nil, err
	}
	defer s.Close()
	sctx := &search.SearchContext{DocumentMatchPool: search.NewDocumentMatchPool(s.DocumentMatchPoolSize()+len(prog)+4, 0)}
	for _, c := range prog {
		r, perr := a.step(s, sctx, c)
		if perr != nil {
			return res, perr
		}
		res = append(res, r)
		if r == -2 {
			return res, nil
		}
	}
	return res, nil
}

func (a *IndexA) step(s search.Searcher, sctx *search.SearchContext, c Call) (r int, err error) {
	defer func() {
		if p := recover(); p != nil {
			r, err = -2, nil
		}
	}()
	var dm *search.DocumentMatch
	if c.Op == "next" {
		dm, err = s.Next(sctx)
	} else {
		dm, err = s.Advance(sctx, a.Internal[c.T])
	}
	if err != nil {
		return 0, err
	}
	if dm == nil {
		return -1, nil
	}
	for d := 0; d < a.Layout.N(); d++ {
		if !a.Layout.isDeleted(d) && a.Internal[d].Equals(dm.IndexInternalID) {
			return d, nil
		}
	}
	return -3, nil
}

// Judge wraps core.JudgeRecords for the judge specs of this package. TLC
// reports a violation in the INITIAL state (the first record failing) in a
// form the runtime does not map to a record index, so an always-valid dummy
// record is put first and the indices are shifted back.
func Judge(c *core.Ctx, module, cfg string, dummy map[string]any, records []any, maxFail int, opts ...core.TLCOpt) (map[int]string, error) {
	if len(records) == 0 {
		return map[int]string{}, nil
	}
	recs := append([]any{dummy}, records...)
	bad, err := c.JudgeRecords(module, cfg, recs, maxFail, opts...)
	out := map[int]string{}
	for i, inv := range bad {
		if i == 0 {
			return out, fmt.Errorf("judge %s/%s rejected the dummy record (%s)", module, cfg, inv)
		}
		out[i-1] = inv
	}
	return out, err
}

var DummyQuery = map[string]any{"corpus": []any{}, "q": map[string]any{"type": "none"}, "runs": []any{}}
var DummySearcher = map[string]any{"corpus": []any{}, "q": map[string]any{"type": "none"}, "enum": []any{}, "leaves": []any{}, "progs": []any{}}
