package qs

import (
	"context"

	bleve "github.com/blevesearch/bleve/v2"
	"github.com/blevesearch/bleve/v2/search"
	"github.com/blevesearch/bleve/v2/search/query"

	"verif/harness/internal/tlaval"
)

// Signatures of the deviations from the documented meaning that are described
// in spec/Query.tla ("mode") and spec/Searchers.tla. They are violations of
// C02; the checks give them these stable names.
const (
	SigK1 = "bool-should-min-ignored-when-should-is-unadorned-disjunction(scorch,score:none,no-locations)"
	SigK2 = "fuzzy-transposition-counts-as-one-edit(scorch)"
	SigK3 = "regexp-leftmost-first-match-must-span-term(upsidedown)"
)

// Features of a query that make a run prone to one of the deviations.
type Features struct {
	Fuzzy     bool // fuzzy matching with fuzziness >= 1 somewhere
	K1        bool // a boolean node whose should searcher lost its Min() (annotated)
	K1Filter  bool // ... below a filter clause (filters are always built score:none)
	RegexpAlt bool // a regexp with alternation
}

func FeaturesOf(n *Node, k1 K1Set) Features {
	var f Features
	var walk func(x *Node, underFilter bool)
	walk = func(x *Node, underFilter bool) {
		switch x.Type {
		case "fuzzy", "match":
			if x.Fuzz >= 1 {
				f.Fuzzy = true
			}
		case "regexp":
			if len(x.Alts) > 1 {
				f.RegexpAlt = true
			}
		case "boolean":
			if k1[x] {
				f.K1 = true
				if underFilter {
					f.K1Filter = true
				}
			}
			for _, k := range x.Must {
				walk(k, underFilter)
			}
			for _, k := range x.Should {
				walk(k, underFilter)
			}
			for _, k := range x.MustNot {
				walk(k, underFilter)
			}
			for _, k := range x.Filter {
				walk(k, true)
			}
			return
		}
		for _, k := range x.Kids() {
			walk(k, underFilter)
		}
	}
	walk(n, false)
	return f
}

// ProneTo returns the deviation classes a run may exhibit. unadorned = the
// searchers are built with Score "none" and without term vectors (the
// condition of the unadorned optimisations).
func ProneTo(f Features, eng string, unadorned bool) []string {
	var out []string
	if IsScorch(eng) {
		if f.Fuzzy {
			out = append(out, SigK2)
		}
		if (f.K1 && unadorned) || f.K1Filter {
			out = append(out, SigK1)
		}
	} else if f.RegexpAlt {
		out = append(out, SigK3)
	}
	return out
}

// AnnotateK1 marks the boolean nodes whose should clause, built as scorch
// builds it under score:none, reports a Min() below the requested minimum
// (the unadorned disjunction optimisation returns a term searcher).
func AnnotateK1(n *Node, sc bleve.Index) (K1Set, error) {
	out := K1Set{}
	adv, err := sc.Advanced()
	if err != nil {
		return nil, err
	}
	rd, err := adv.Reader()
	if err != nil {
		return nil, err
	}
	defer rd.Close()
	var ferr error
	n.Walk(func(x *Node) {
		if x.Type != "boolean" || len(x.Must) == 0 || len(x.Should) < 2 || x.MinN < 1 {
			return
		}
		var ds []query.Query
		for _, k := range x.Should {
			ds = append(ds, k.Bleve(nil))
		}
		dq := query.NewDisjunctionQuery(ds)
		dq.SetMin(float64(x.MinN))
		s, err := dq.Searcher(context.Background(), rd, sc.Mapping(), search.SearcherOptions{Score: "none"})
		if err != nil {
			ferr = err
			return
		}
		if s.Min() < x.MinN {
			out[x] = true
		}
		s.Close()
	})
	return out, ferr
}

// HasMustShouldMin: a boolean with must and should(min >= 1) somewhere: an
// Advance as the very first call on such a tree is prone to skipping a match
// (spec/Searchers.tla, configuration c08_q2).
func HasMustShouldMin(n *Node) bool {
	found := false
	n.Walk(func(x *Node) {
		if x.Type == "boolean" && len(x.Must) > 0 && len(x.Should) > 0 && x.MinN >= 1 {
			found = true
		}
	})
	return found
}

// HasK1ShapeTLA: a tree of spec/MCSearchers.tla (parsed TLA+ value) contains a
// boolean with must, >= 2 should clauses and should-minimum 1 (HasK1 there).
func HasK1ShapeTLA(v any) bool {
	m := tlaval.Map(v)
	kids := func(name string) []any {
		if x, ok := m[name]; ok {
			return tlaval.List(x)
		}
		return nil
	}
	switch tlaval.Str(m["type"]) {
	case "conj", "disj":
		for _, k := range kids("qs") {
			if HasK1ShapeTLA(k) {
				return true
			}
		}
	case "boolean":
		if len(kids("must")) > 0 && len(kids("should")) >= 2 && tlaval.Int(m["min"]) == 1 {
			return true
		}
		for _, n := range []string{"must", "should", "mustnot", "filter"} {
			for _, k := range kids(n) {
				if HasK1ShapeTLA(k) {
					return true
				}
			}
		}
	}
	return false
}
