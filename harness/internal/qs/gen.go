package qs

import (
	"math/rand"
)

// Vocabulary: few short words over {a, b, c} so that terms collide, with
// transposition pairs (ab/ba), prefix chains (a, ab, abc) and near misses.
var Vocab = []string{"a", "b", "ab", "ba", "abc", "bab", "c", "bb", "cab"}

func word(r *rand.Rand) Term {
	// skewed: the first words are frequent
	i := int(r.ExpFloat64() * 2.2)
	if i >= len(Vocab) {
		i = r.Intn(len(Vocab))
	}
	t, _ := TermOf(Vocab[i])
	return t
}

// nearWord: a vocabulary word, or a one-edit neighbour of one, or a random
// short string (mostly absent from the index).
func nearWord(r *rand.Rand) Term {
	w := append(Term{}, word(r)...)
	switch r.Intn(6) {
	case 0: // substitute
		w[r.Intn(len(w))] = 1 + r.Intn(3)
	case 1: // delete
		if len(w) > 1 {
			i := r.Intn(len(w))
			w = append(w[:i:i], w[i+1:]...)
		}
	case 2: // insert
		if len(w) < 4 {
			i := r.Intn(len(w) + 1)
			w = append(w[:i:i], append(Term{1 + r.Intn(3)}, w[i:]...)...)
		}
	case 3: // transpose
		if len(w) > 1 {
			i := r.Intn(len(w) - 1)
			w[i], w[i+1] = w[i+1], w[i]
		}
	}
	return w
}

// GenDoc makes a document over the fixed schema.
func GenDoc(r *rand.Rand, id int) *Doc {
	d := &Doc{ID: id, Txt: map[string][][]Term{}, Num: map[string][]int{}}
	for _, f := range PhraseFields {
		if r.Intn(7) == 0 {
			continue
		}
		nel := 1
		if r.Intn(3) == 0 {
			nel = 2
		}
		for e := 0; e < nel; e++ {
			n := 1 + r.Intn(4)
			var el []Term
			for i := 0; i < n; i++ {
				el = append(el, word(r))
			}
			d.Txt[f] = append(d.Txt[f], el)
		}
	}
	for k := r.Intn(3); k > 0; k-- {
		d.Txt[FK1] = append(d.Txt[FK1], []Term{word(r)})
	}
	for k := r.Intn(3); k > 0; k-- {
		d.Num[FN1] = append(d.Num[FN1], r.Intn(8)-2)
	}
	if r.Intn(3) > 0 {
		d.Num[FD1] = append(d.Num[FD1], r.Intn(7))
	}
	if r.Intn(3) > 0 {
		d.Num[FB1] = append(d.Num[FB1], r.Intn(2))
	}
	return d
}

// Op is one operation of a batch.
type Op struct {
	Del bool
	ID  int
	Doc *Doc
}

// History is a sequence of batches.
type History [][]Op

// GenHistory: nids document ids, nbatch batches; updates and deletes spread
// over the batches so that scorch ends with several segments and non-empty
// deleted bitmaps. Returns the history and the final live documents.
func GenHistory(r *rand.Rand, nids, nbatch int) (History, map[int]*Doc) {
	live := map[int]*Doc{}
	var h History
	for b := 0; b < nbatch; b++ {
		nops := 1 + r.Intn(4)
		if b == 0 {
			nops = 2 + r.Intn(4)
		}
		var batch []Op
		used := map[int]bool{}
		for o := 0; o < nops; o++ {
			id := r.Intn(nids)
			if used[id] {
				continue
			}
			used[id] = true
			if _, ok := live[id]; ok && r.Intn(3) == 0 || r.Intn(12) == 0 {
				batch = append(batch, Op{Del: true, ID: id})
				delete(live, id)
			} else {
				d := GenDoc(r, id)
				batch = append(batch, Op{ID: id, Doc: d})
				live[id] = d
			}
		}
		if len(batch) > 0 {
			h = append(h, batch)
		}
	}
	return h, live
}

// Corpus facts the query generator biases towards (boundaries).
type Facts struct {
	NIDs int    // size of the id space (ids 0..NIDs-1 may exist, NIDs never does)
	Docs []*Doc // the live documents: phrases are cut out of them, at and across array-element boundaries
}

// phraseFrom cuts a phrase out of a live document: inside one array element
// (a true phrase), or across two elements at consecutive positions (matches
// only if array positions are ignored), or with the order swapped.
func phraseFrom(r *rand.Rand, f Facts) (string, []Term, bool) {
	if len(f.Docs) == 0 {
		return "", nil, false
	}
	for try := 0; try < 6; try++ {
		d := f.Docs[r.Intn(len(f.Docs))]
		fld := PhraseFields[r.Intn(2)]
		els := d.Txt[fld]
		if len(els) == 0 {
			continue
		}
		switch r.Intn(4) {
		case 0, 1: // inside an element
			el := els[r.Intn(len(els))]
			p := r.Intn(len(el))
			n := 1 + r.Intn(3)
			if p+n > len(el) {
				n = len(el) - p
			}
			return fld, append([]Term{}, el[p:p+n]...), true
		case 2: // across elements: token at position p of one, p+1.. of another
			if len(els) < 2 {
				continue
			}
			a, b := els[0], els[1]
			if r.Intn(2) == 0 {
				a, b = b, a
			}
			p := r.Intn(len(a))
			if p+1 >= len(b) {
				continue
			}
			out := []Term{a[p], b[p+1]}
			if p+2 < len(b) && r.Intn(2) == 0 {
				out = append(out, b[p+2])
			}
			return fld, out, true
		default: // swapped order / a gap
			el := els[r.Intn(len(els))]
			if len(el) < 2 {
				continue
			}
			p := r.Intn(len(el) - 1)
			if p+2 < len(el) && r.Intn(2) == 0 {
				return fld, []Term{el[p], el[p+2]}, true
			}
			return fld, []Term{el[p+1], el[p]}, true
		}
	}
	return "", nil, false
}

func pickField(r *rand.Rand) string { return TextFields[r.Intn(len(TextFields))] }

func incFlag(r *rand.Rand) int {
	switch r.Intn(5) {
	case 0:
		return 2 // not given: defaults
	case 1, 2:
		return 1
	}
	return 0
}

func genAtom(r *rand.Rand, base int) Atom {
	a := Atom{}
	switch r.Intn(5) {
	case 0: // '.'
	case 1:
		a.Cls = []int{1, 2}
	case 2:
		a.Cls = []int{2, 3}
	default:
		a.Cls = []int{base}
	}
	switch r.Intn(6) {
	case 0:
		a.Rep = 1
	case 1:
		a.Rep = 2
	case 2:
		a.Rep = 3
	}
	return a
}

// GenLeaf makes a leaf query; parameters are drawn from the vocabulary and its
// neighbourhood, and range bounds from the value domain incl. its edges.
func GenLeaf(r *rand.Rand, f Facts) *Node {
	switch r.Intn(20) {
	case 0, 1, 2:
		return &Node{Type: "term", Field: pickField(r), Term: nearWord(r)}
	case 3, 4:
		n := &Node{Type: "match", Field: PhraseFields[r.Intn(2)], Op: "or"}
		if r.Intn(2) == 0 {
			n.Op = "and"
		}
		for k := 1 + r.Intn(3); k > 0; k-- {
			n.Terms = append(n.Terms, nearWord(r))
		}
		if r.Intn(4) == 0 {
			n.Fuzz = 1 + r.Intn(2)
			n.Prefix = r.Intn(3)
		}
		return n
	case 5, 6:
		n := &Node{Type: "phrase", Field: PhraseFields[r.Intn(2)]}
		if r.Intn(2) == 0 {
			n.Type = "match_phrase"
		}
		if fld, ts, ok := phraseFrom(r, f); ok && r.Intn(5) > 0 {
			n.Field, n.Terms = fld, ts
			return n
		}
		for k := 1 + r.Intn(3); k > 0; k-- {
			n.Terms = append(n.Terms, word(r))
		}
		return n
	case 7:
		w := word(r)
		return &Node{Type: "prefix", Field: pickField(r), Term: w[:1+r.Intn(len(w))]}
	case 8:
		w := append(Term{}, nearWord(r)...)
		pat := []int(w)
		switch r.Intn(4) {
		case 0:
			pat[r.Intn(len(pat))] = 0
		case 1:
			pat[r.Intn(len(pat))] = -1
		case 2:
			k := r.Intn(len(pat) + 1)
			pat = append(append([]int{}, pat[:k]...), -1)
		case 3:
			pat = append([]int{-1}, pat[r.Intn(len(pat)):]...)
		}
		return &Node{Type: "wildcard", Field: pickField(r), Pat: pat}
	case 9:
		n := &Node{Type: "regexp", Field: pickField(r)}
		nalts := 1
		if r.Intn(4) == 0 {
			nalts = 2
		}
		for a := 0; a < nalts; a++ {
			w := nearWord(r)
			var alt []Atom
			for _, c := range w {
				alt = append(alt, genAtom(r, c))
			}
			n.Alts = append(n.Alts, alt)
		}
		return n
	case 10, 11:
		return &Node{Type: "fuzzy", Field: pickField(r), Term: nearWord(r), Fuzz: r.Intn(3), Prefix: r.Intn(3)}
	case 12:
		n := &Node{Type: "termrange", Field: pickField(r), IncMin: incFlag(r), IncMax: incFlag(r)}
		a, b := nearWord(r), nearWord(r)
		switch r.Intn(4) {
		case 0:
			n.HasMin, n.TMin = 1, a
		case 1:
			n.HasMax, n.TMax = 1, a
		default:
			n.HasMin, n.TMin, n.HasMax, n.TMax = 1, a, 1, b
		}
		return n
	case 13, 14:
		n := &Node{Type: "numrange", Field: FN1, IncMin: incFlag(r), IncMax: incFlag(r)}
		a, b := r.Intn(10)-3, r.Intn(10)-3
		switch r.Intn(5) {
		case 0:
			n.HasMin, n.Min = 1, a
		case 1:
			n.HasMax, n.Max = 1, a
		case 2: // point range
			n.HasMin, n.Min, n.HasMax, n.Max = 1, a, 1, a
		default:
			if a > b && r.Intn(4) > 0 {
				a, b = b, a
			}
			n.HasMin, n.Min, n.HasMax, n.Max = 1, a, 1, b
		}
		return n
	case 15:
		n := &Node{Type: "daterange", Field: FD1, IncMin: incFlag(r), IncMax: incFlag(r)}
		a, b := r.Intn(9)-1, r.Intn(9)-1
		switch r.Intn(4) {
		case 0:
			n.HasMin, n.Min = 1, a
		case 1:
			n.HasMax, n.Max = 1, a
		default:
			if a > b {
				a, b = b, a
			}
			n.HasMin, n.Min, n.HasMax, n.Max = 1, a, 1, b
		}
		return n
	case 16:
		return &Node{Type: "boolfield", Field: FB1, Val: r.Intn(2)}
	case 17:
		n := &Node{Type: "docid"}
		seen := map[int]bool{}
		for k := r.Intn(4); k > 0; k-- {
			id := r.Intn(f.NIDs + 1) // incl. an id that never existed
			if !seen[id] {
				seen[id] = true
				n.IDs = append(n.IDs, id)
			}
		}
		return n
	case 18:
		return &Node{Type: "all"}
	default:
		if r.Intn(3) == 0 {
			return &Node{Type: "none"}
		}
		return &Node{Type: "term", Field: FK1, Term: word(r)}
	}
}

// GenTermLeaf: a leaf whose searcher is a plain term searcher (the operands
// of the unadorned bitmap optimisations).
func GenTermLeaf(r *rand.Rand) *Node {
	return &Node{Type: "term", Field: pickField(r), Term: word(r)}
}

func genKids(r *rand.Rand, f Facts, depth, lo, hi int, termBias bool) []*Node {
	n := lo
	if hi > lo {
		n += r.Intn(hi - lo + 1)
	}
	var out []*Node
	for i := 0; i < n; i++ {
		if termBias {
			out = append(out, GenTermLeaf(r))
		} else {
			out = append(out, GenQuery(r, f, depth))
		}
	}
	return out
}

// GenQuery makes a query tree of depth <= depth. A third of the compounds are
// made of plain term leaves only, the shape the score:none optimisations and
// the 1-hit / bitmap case analysis apply to.
func GenQuery(r *rand.Rand, f Facts, depth int) *Node {
	if depth <= 0 || r.Intn(5) == 0 {
		return GenLeaf(r, f)
	}
	termBias := r.Intn(3) == 0
	switch r.Intn(7) {
	case 0, 1:
		lo := 1
		if r.Intn(25) == 0 {
			lo = 0
		}
		return &Node{Type: "conj", Qs: genKids(r, f, depth-1, lo, 3, termBias)}
	case 2, 3:
		lo := 1
		if r.Intn(25) == 0 {
			lo = 0
		}
		n := &Node{Type: "disj", Qs: genKids(r, f, depth-1, lo, 3, termBias)}
		n.MinN = r.Intn(len(n.Qs) + 1)
		if r.Intn(3) == 0 {
			n.MinN = 0
		}
		return n
	default:
		n := &Node{Type: "boolean"}
		for len(n.Must)+len(n.Should)+len(n.MustNot)+len(n.Filter) == 0 {
			if r.Intn(3) > 0 {
				n.Must = genKids(r, f, depth-1, 1, 2, termBias)
			}
			if r.Intn(2) == 0 {
				n.Should = genKids(r, f, depth-1, 1, 3, termBias)
			}
			if r.Intn(3) == 0 {
				n.MustNot = genKids(r, f, depth-1, 1, 2, termBias)
			}
			if r.Intn(5) == 0 {
				n.Filter = genKids(r, f, depth-1, 1, 1, termBias)
			}
		}
		if len(n.Should) > 0 {
			n.MinN = r.Intn(len(n.Should) + 1)
		}
		return n
	}
}
