// Package qs holds what the query-semantics check (C02) and the searcher
// contract check (C08) share: the model-level documents and query trees of
// spec/Query.tla with their translation to real bleve documents / queries,
// the index mapping under which analysis is the identity on the model's
// tokens, seeded generators, and the index builders (scorch in memory with
// several segments and deletions, upsidedown over gtreap).
package qs

import (
	"fmt"
	"sort"
	"strings"
	"time"

	bleve "github.com/blevesearch/bleve/v2"
	"github.com/blevesearch/bleve/v2/analysis/analyzer/keyword"
	"github.com/blevesearch/bleve/v2/analysis/analyzer/simple"
	"github.com/blevesearch/bleve/v2/mapping"
	"github.com/blevesearch/bleve/v2/search/query"
)

// Term is a model term: letters 1.. (a=1, b=2, ...), spec/Query.tla.
type Term []int

func (t Term) String() string {
	var sb strings.Builder
	for _, l := range t {
		sb.WriteByte(byte('a' + l - 1))
	}
	return sb.String()
}

// TermOf maps an analysed token back to the model; ok=false if the token has
// a byte outside a..z (analysis was not the identity: harness defect).
func TermOf(s string) (Term, bool) {
	t := make(Term, 0, len(s))
	for i := 0; i < len(s); i++ {
		c := s[i]
		if c < 'a' || c > 'z' {
			return nil, false
		}
		t = append(t, int(c-'a')+1)
	}
	return t, true
}

func termJSON(t Term) []int {
	if t == nil {
		return []int{}
	}
	return []int(t)
}

// Field names of the fixed schema.
const (
	FT1 = "t1" // text, analyzer "simple", term vectors
	FT2 = "t2" // text, analyzer "simple", term vectors
	FK1 = "k1" // text, analyzer "keyword", no term vectors (1-hit postings in zap)
	FN1 = "n1" // numeric
	FD1 = "d1" // datetime (model: day number)
	FB1 = "b1" // boolean (model: 0/1)
)

var TextFields = []string{FT1, FT2, FK1}
var PhraseFields = []string{FT1, FT2}

// Doc is a model document: Txt[field] = array elements, each a token sequence;
// Num[field] = integer values (numbers, day numbers, booleans as 0/1).
type Doc struct {
	ID  int
	Txt map[string][][]Term
	Num map[string][]int
}

func DocID(id int) string { return fmt.Sprintf("d%02d", id) }

func ParseDocID(s string) (int, bool) {
	var n int
	if len(s) < 2 || s[0] != 'd' {
		return 0, false
	}
	for i := 1; i < len(s); i++ {
		if s[i] < '0' || s[i] > '9' {
			return 0, false
		}
		n = n*10 + int(s[i]-'0')
	}
	return n, true
}

var dayZero = time.Date(2001, 1, 1, 0, 0, 0, 0, time.UTC)

func DayTime(d int) time.Time { return dayZero.Add(time.Duration(d) * 24 * time.Hour) }

// Bleve renders the real document. A field with no element is absent; one
// element is a string, several an array (array positions).
func (d *Doc) Bleve() map[string]interface{} {
	m := map[string]interface{}{}
	for f, els := range d.Txt {
		var vals []interface{}
		for _, el := range els {
			ws := make([]string, len(el))
			for i, t := range el {
				ws[i] = t.String()
			}
			vals = append(vals, strings.Join(ws, " "))
		}
		switch len(vals) {
		case 0:
		case 1:
			m[f] = vals[0]
		default:
			m[f] = vals
		}
	}
	for f, vs := range d.Num {
		var vals []interface{}
		for _, v := range vs {
			switch f {
			case FD1:
				vals = append(vals, DayTime(v).Format(time.RFC3339))
			case FB1:
				vals = append(vals, v != 0)
			default:
				vals = append(vals, float64(v))
			}
		}
		switch len(vals) {
		case 0:
		case 1:
			m[f] = vals[0]
		default:
			m[f] = vals
		}
	}
	return m
}

// Mapping: static document mapping with the six fields; nothing goes to _all.
func Mapping() mapping.IndexMapping {
	im := bleve.NewIndexMapping()
	dm := bleve.NewDocumentStaticMapping()
	txt := func(an string, tv bool) *mapping.FieldMapping {
		fm := bleve.NewTextFieldMapping()
		fm.Analyzer = an
		fm.Store = false
		fm.IncludeTermVectors = tv
		fm.IncludeInAll = false
		fm.DocValues = false
		return fm
	}
	dm.AddFieldMappingsAt(FT1, txt(simple.Name, true))
	dm.AddFieldMappingsAt(FT2, txt(simple.Name, true))
	dm.AddFieldMappingsAt(FK1, txt(keyword.Name, false))
	n := bleve.NewNumericFieldMapping()
	n.Store, n.IncludeInAll, n.DocValues = false, false, false
	dm.AddFieldMappingsAt(FN1, n)
	dt := bleve.NewDateTimeFieldMapping()
	dt.Store, dt.IncludeInAll, dt.DocValues = false, false, false
	dm.AddFieldMappingsAt(FD1, dt)
	b := bleve.NewBooleanFieldMapping()
	b.Store, b.IncludeInAll, b.DocValues = false, false, false
	dm.AddFieldMappingsAt(FB1, b)
	im.DefaultMapping = dm
	return im
}

func analyzerOf(field string) string {
	if field == FK1 {
		return keyword.Name
	}
	return simple.Name
}

// Analysed returns the document as the REAL analyzers see it: every text
// element is run through the analyzer of its field and the resulting tokens
// (in position order) are mapped back to model terms. This is what goes into
// the judged record ("analysed field values of the live documents").
func (d *Doc) Analysed(im mapping.IndexMapping) (*Doc, error) {
	out := &Doc{ID: d.ID, Txt: map[string][][]Term{}, Num: d.Num}
	for f, els := range d.Txt {
		an := im.AnalyzerNamed(analyzerOf(f))
		if an == nil {
			return nil, fmt.Errorf("no analyzer for field %s", f)
		}
		var outEls [][]Term
		for _, el := range els {
			ws := make([]string, len(el))
			for i, t := range el {
				ws[i] = t.String()
			}
			toks := an.Analyze([]byte(strings.Join(ws, " ")))
			sort.SliceStable(toks, func(i, j int) bool { return toks[i].Position < toks[j].Position })
			var ts []Term
			for i, tk := range toks {
				if tk.Position != i+1 {
					return nil, fmt.Errorf("field %s: token positions not 1..n", f)
				}
				t, ok := TermOf(string(tk.Term))
				if !ok {
					return nil, fmt.Errorf("field %s: token %q outside the model alphabet", f, tk.Term)
				}
				ts = append(ts, t)
			}
			outEls = append(outEls, ts)
		}
		out.Txt[f] = outEls
	}
	return out, nil
}

// JSON renders the document for the judge specs (every field present).
func (d *Doc) JSON(id int) map[string]any {
	txt := map[string]any{}
	for _, f := range TextFields {
		els := [][][]int{}
		for _, el := range d.Txt[f] {
			ts := [][]int{}
			for _, t := range el {
				ts = append(ts, termJSON(t))
			}
			els = append(els, ts)
		}
		txt[f] = els
	}
	num := map[string]any{}
	for _, f := range []string{FN1, FD1, FB1} {
		vs := []int{}
		vs = append(vs, d.Num[f]...)
		num[f] = vs
	}
	return map[string]any{"id": id, "txt": txt, "num": num}
}

// ---- query trees

// Atom of the regexp subset: Cls empty = '.', Rep 0 one, 1 '*', 2 '+', 3 '?'.
type Atom struct {
	Cls []int
	Rep int
}

// Node is a query of spec/Query.tla.
type Node struct {
	Type   string
	Field  string
	Term   Term    // term, fuzzy, prefix (the prefix)
	Terms  []Term  // match, phrase, match_phrase
	Op     string  // match: "or" / "and"
	Fuzz   int     // fuzzy, match
	Prefix int     // fuzzy, match: prefix length
	Pat    []int   // wildcard: letter, 0 = '?', -1 = '*'
	Alts   [][]Atom
	HasMin, HasMax int
	Min, Max       int  // numrange, daterange
	TMin, TMax     Term // termrange
	IncMin, IncMax int  // 1 inclusive, 0 exclusive, 2 not given (defaults)
	Val    int          // boolfield
	IDs    []int        // docid
	Qs     []*Node      // conj, disj
	MinN   int          // disj: min; boolean: should min
	Must, Should, MustNot, Filter []*Node
}

// K1Set: the boolean nodes of a query whose should searcher, as a given scorch
// index builds it under score:none, reports a Min() below MinN (see
// AnnotateK1). Rendered as node field k1, which spec/Query.tla reads only in
// its classification mode.
type K1Set map[*Node]bool

// JSON renders exactly the fields spec/Query.tla reads for the node's type.
func (n *Node) JSON() map[string]any { return n.JSONWith(nil, nil) }

func (n *Node) JSONMap(idmap func(int) (int, bool)) map[string]any { return n.JSONWith(idmap, nil) }

// JSONMap is JSON with the document ids of doc-id queries translated (ids the
// map does not know - documents that are not live - are dropped: they cannot
// match).
func (n *Node) JSONWith(idmap func(int) (int, bool), k1 K1Set) map[string]any {
	nodesJSON := func(ns []*Node) []any {
		out := []any{}
		for _, k := range ns {
			out = append(out, k.JSONWith(idmap, k1))
		}
		return out
	}
	m := map[string]any{"type": n.Type}
	switch n.Type {
	case "term":
		m["field"], m["term"] = n.Field, termJSON(n.Term)
	case "match":
		ts := [][]int{}
		for _, t := range n.Terms {
			ts = append(ts, termJSON(t))
		}
		m["field"], m["terms"], m["op"], m["fuzz"], m["prefix"] = n.Field, ts, n.Op, n.Fuzz, n.Prefix
	case "phrase", "match_phrase":
		ts := [][]int{}
		for _, t := range n.Terms {
			ts = append(ts, termJSON(t))
		}
		m["field"], m["terms"] = n.Field, ts
	case "prefix":
		m["field"], m["prefix"] = n.Field, termJSON(n.Term)
	case "wildcard":
		p := []int{}
		p = append(p, n.Pat...)
		m["field"], m["pat"] = n.Field, p
	case "regexp":
		alts := []any{}
		for _, alt := range n.Alts {
			as := []any{}
			for _, a := range alt {
				cls := []int{}
				cls = append(cls, a.Cls...)
				as = append(as, map[string]any{"cls": cls, "rep": a.Rep})
			}
			alts = append(alts, as)
		}
		m["field"], m["alts"] = n.Field, alts
	case "fuzzy":
		m["field"], m["term"], m["fuzz"], m["prefix"] = n.Field, termJSON(n.Term), n.Fuzz, n.Prefix
	case "termrange":
		m["field"] = n.Field
		m["hasMin"], m["min"], m["incMin"] = n.HasMin, termJSON(n.TMin), n.IncMin
		m["hasMax"], m["max"], m["incMax"] = n.HasMax, termJSON(n.TMax), n.IncMax
	case "numrange", "daterange":
		m["field"] = n.Field
		m["hasMin"], m["min"], m["incMin"] = n.HasMin, n.Min, n.IncMin
		m["hasMax"], m["max"], m["incMax"] = n.HasMax, n.Max, n.IncMax
	case "boolfield":
		m["field"], m["val"] = n.Field, n.Val
	case "docid":
		ids := []int{}
		for _, id := range n.IDs {
			if idmap == nil {
				ids = append(ids, id)
			} else if r, ok := idmap(id); ok {
				ids = append(ids, r)
			}
		}
		m["ids"] = ids
	case "all", "none":
	case "conj":
		m["qs"] = nodesJSON(n.Qs)
	case "disj":
		m["qs"], m["min"] = nodesJSON(n.Qs), n.MinN
	case "boolean":
		m["must"], m["should"], m["min"] = nodesJSON(n.Must), nodesJSON(n.Should), n.MinN
		m["mustnot"], m["filter"] = nodesJSON(n.MustNot), nodesJSON(n.Filter)
		m["k1"] = 0
		if k1[n] {
			m["k1"] = 1
		}
	default:
		panic("qs: unknown node type " + n.Type)
	}
	return m
}

func boolPtr(inc int) *bool {
	switch inc {
	case 0:
		f := false
		return &f
	case 1:
		t := true
		return &t
	}
	return nil
}

func renderAtom(a Atom) string {
	var s string
	switch len(a.Cls) {
	case 0:
		s = "."
	case 1:
		s = Term(a.Cls).String()
	default:
		s = "[" + Term(a.Cls).String() + "]"
	}
	return s + []string{"", "*", "+", "?"}[a.Rep]
}

// RegexpString renders the regexp subset in Go syntax.
func (n *Node) RegexpString() string {
	var alts []string
	for _, alt := range n.Alts {
		var sb strings.Builder
		for _, a := range alt {
			sb.WriteString(renderAtom(a))
		}
		alts = append(alts, sb.String())
	}
	return strings.Join(alts, "|")
}

func (n *Node) WildcardString() string {
	var sb strings.Builder
	for _, c := range n.Pat {
		switch c {
		case 0:
			sb.WriteByte('?')
		case -1:
			sb.WriteByte('*')
		default:
			sb.WriteByte(byte('a' + c - 1))
		}
	}
	return sb.String()
}

func joinTerms(ts []Term) string {
	ws := make([]string, len(ts))
	for i, t := range ts {
		ws[i] = t.String()
	}
	return strings.Join(ws, " ")
}

func bleveAll(ns []*Node, idOf func(int) string) []query.Query {
	out := make([]query.Query, 0, len(ns))
	for _, n := range ns {
		out = append(out, n.Bleve(idOf))
	}
	return out
}

// Bleve builds the real query. idOf maps a model document id to the external
// id (nil = DocID).
func (n *Node) Bleve(idOf func(int) string) query.Query {
	if idOf == nil {
		idOf = DocID
	}
	switch n.Type {
	case "term":
		q := query.NewTermQuery(n.Term.String())
		q.SetField(n.Field)
		return q
	case "match":
		q := query.NewMatchQuery(joinTerms(n.Terms))
		q.SetField(n.Field)
		if n.Op == "and" {
			q.SetOperator(query.MatchQueryOperatorAnd)
		} else {
			q.SetOperator(query.MatchQueryOperatorOr)
		}
		q.SetFuzziness(n.Fuzz)
		q.SetPrefix(n.Prefix)
		return q
	case "phrase":
		ws := make([]string, len(n.Terms))
		for i, t := range n.Terms {
			ws[i] = t.String()
		}
		return query.NewPhraseQuery(ws, n.Field)
	case "match_phrase":
		q := query.NewMatchPhraseQuery(joinTerms(n.Terms))
		q.SetField(n.Field)
		return q
	case "prefix":
		q := query.NewPrefixQuery(n.Term.String())
		q.SetField(n.Field)
		return q
	case "wildcard":
		q := query.NewWildcardQuery(n.WildcardString())
		q.SetField(n.Field)
		return q
	case "regexp":
		q := query.NewRegexpQuery(n.RegexpString())
		q.SetField(n.Field)
		return q
	case "fuzzy":
		q := query.NewFuzzyQuery(n.Term.String())
		q.SetField(n.Field)
		q.SetFuzziness(n.Fuzz)
		q.SetPrefix(n.Prefix)
		return q
	case "termrange":
		min, max := "", ""
		if n.HasMin == 1 {
			min = n.TMin.String()
		}
		if n.HasMax == 1 {
			max = n.TMax.String()
		}
		q := query.NewTermRangeInclusiveQuery(min, max, boolPtr(n.IncMin), boolPtr(n.IncMax))
		q.SetField(n.Field)
		return q
	case "numrange":
		var min, max *float64
		if n.HasMin == 1 {
			v := float64(n.Min)
			min = &v
		}
		if n.HasMax == 1 {
			v := float64(n.Max)
			max = &v
		}
		q := query.NewNumericRangeInclusiveQuery(min, max, boolPtr(n.IncMin), boolPtr(n.IncMax))
		q.SetField(n.Field)
		return q
	case "daterange":
		var start, end time.Time
		if n.HasMin == 1 {
			start = DayTime(n.Min)
		}
		if n.HasMax == 1 {
			end = DayTime(n.Max)
		}
		q := query.NewDateRangeInclusiveQuery(start, end, boolPtr(n.IncMin), boolPtr(n.IncMax))
		q.SetField(n.Field)
		return q
	case "boolfield":
		q := query.NewBoolFieldQuery(n.Val != 0)
		q.SetField(n.Field)
		return q
	case "docid":
		ids := make([]string, len(n.IDs))
		for i, id := range n.IDs {
			ids[i] = idOf(id)
		}
		return query.NewDocIDQuery(ids)
	case "all":
		return query.NewMatchAllQuery()
	case "none":
		return query.NewMatchNoneQuery()
	case "conj":
		return query.NewConjunctionQuery(bleveAll(n.Qs, idOf))
	case "disj":
		q := query.NewDisjunctionQuery(bleveAll(n.Qs, idOf))
		q.SetMin(float64(n.MinN))
		return q
	case "boolean":
		q := query.NewBooleanQuery(bleveAll(n.Must, idOf), bleveAll(n.Should, idOf), bleveAll(n.MustNot, idOf))
		if len(n.Should) > 0 {
			q.SetMinShould(float64(n.MinN))
		}
		if len(n.Filter) > 0 {
			q.AddFilter(n.Filter[0].Bleve(idOf))
		}
		return q
	}
	panic("qs: unknown node type " + n.Type)
}

// Kids lists the direct sub-queries.
func (n *Node) Kids() []*Node {
	switch n.Type {
	case "conj", "disj":
		return n.Qs
	case "boolean":
		var out []*Node
		out = append(out, n.Must...)
		out = append(out, n.Should...)
		out = append(out, n.MustNot...)
		out = append(out, n.Filter...)
		return out
	}
	return nil
}

func (n *Node) Walk(fn func(*Node)) {
	fn(n)
	for _, k := range n.Kids() {
		k.Walk(fn)
	}
}

func (n *Node) Depth() int {
	d := 0
	for _, k := range n.Kids() {
		if kd := k.Depth() + 1; kd > d {
			d = kd
		}
	}
	return d
}

// Shape is the type skeleton of a query (leaf parameters dropped), used in
// violation signatures and as the "distinct case" key component.
func (n *Node) Shape() string {
	list := func(ns []*Node) string {
		ss := make([]string, len(ns))
		for i, k := range ns {
			ss[i] = k.Shape()
		}
		return strings.Join(ss, ",")
	}
	switch n.Type {
	case "conj":
		return "conj(" + list(n.Qs) + ")"
	case "disj":
		return fmt.Sprintf("disj%d(%s)", n.MinN, list(n.Qs))
	case "boolean":
		return fmt.Sprintf("bool(must[%s],should%d[%s],not[%s],filter[%s])", list(n.Must), n.MinN, list(n.Should), list(n.MustNot), list(n.Filter))
	case "match":
		return fmt.Sprintf("match-%s~%d", n.Op, n.Fuzz)
	case "fuzzy":
		return fmt.Sprintf("fuzzy~%d", n.Fuzz)
	}
	return n.Type
}
